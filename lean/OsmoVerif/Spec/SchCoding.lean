/-
Spec: the coding of the Synchronisation-Burst (SCH) information, written from the standard, not from the code.

Sources
* 3GPP TS 45.002 §3.3.2.2.1 "Synchronization burst": the burst carries 25 information bits,
    BSIC 6 bits, and the reduced TDMA frame number RFN of 19 bits:
      T1  (11 bits)  range 0..2047  = FN div (26 × 51)
      T2  ( 5 bits)  range 0..25    = FN mod 26
      T3' ( 3 bits)  range 0..4     = (T3 − 1) div 10,   T3 (6 bits) range 0..50 = FN mod 51.
* 3GPP TS 45.002 clause 7 table 3 (mapping of logical channels): the SCH occupies the frames 1, 11, 21, 31, 41 of the
  51-multiframe (one frame after each FCCH frame 0, 10, 20, 30, 40), so T3 − 1 is a multiple of 10 there and T3 = 10·T3' + 1.
* 3GPP TS 44.018 §9.1.30 "Synchronization channel information", figure 9.1.30.1 (bit 8 is the most significant bit of an octet):

        8     7     6     5     4     3     2     1
     +-----------------------------------+-----------+
     |              BSIC                 | T1 (high) |  octet 1
     +-----------------------------------+-----------+
     |                 T1 (middle)                   |  octet 2
     +-----+-----------------------------+-----------+
     | T1  |             T2              | T3' (high)|  octet 3
     |(low)|                             |           |
     +-----+-----------------------------+-----+-----+
                                               | T3' |  octet 4 (bit 1 only: 3 × 8 + 1 = 25 bits)
                                               |(low)|
                                               +-----+
  T1 (high) = the two most significant bits of T1 (bits 10, 9), T1 (middle) = bits 8..1, T1 (low) = bit 0;
  T3' (high) = bits 2, 1 of T3', T3' (low) = bit 0.
* order of the 25 bits d(0)..d(24) handed to the channel coder (TS 45.003 §4.7 codes "the 25 information bits"; TS 44.018
  §9.1.30 refers to TS 44.004 for the order of bit transmission: bit 1 of octet 1 first, then bit 2, ...):
      d(8·(N−1) + (M−1)) = bit M of octet N.

The 32-bit word both decoders work on carries d(k) in bit k (weight 2^k), i.e. octet N is byte N−1 of a little-endian
word:  word = octet1 + 2^8·octet2 + 2^16·octet3 + 2^24·octet4.
  - trxcon: libosmocoding's `gsm0503_sch_decode` packs the decoded bits with `osmo_ubit2pbit_ext(sb_info, 0, ubit, 0, 25,
    lsb_mode = 1)`, i.e. d(k) into bit (k mod 8) of `sb_info[k div 8]`, and `decode_sb` assembles `sb_info[0..3]`
    little-endian;
  - firmware: the DSP delivers the word in `a_sch[3] | a_sch[4] << 16`.
The standards are not available offline in this environment: the figure and the bit order above are written from memory of
the standard and agree with both in-tree decoders and with libosmocoding's encoder/decoder pair; what is PROVED is that both
decoders invert this ONE encoder (`encodeSb`), whose bit layout is spelled out bit by bit in `layout` below
(`Props.C19Sch.spec_layout` proves that the octet arithmetic and the bit table are the same function).
-/
namespace OsmoVerif.Spec.SchCoding

/-- TS 45.002 §4.3.3: the hyperframe, 26 × 51 × 2048 TDMA frames. -/
def hyperframe : Nat := 26 * 51 * 2048

/-- TS 45.002 clause 7 table 3: an SCH burst is sent in the frames 1, 11, 21, 31, 41 of the 51-multiframe. -/
def isSchFrame (fn : Nat) : Bool :=
  fn % 51 == 1 || fn % 51 == 11 || fn % 51 == 21 || fn % 51 == 31 || fn % 51 == 41

/-- The fields of the SCH information (TS 45.002 §3.3.2.2.1). -/
structure Fields where
  bsic : Nat
  t1 : Nat
  t2 : Nat
  t3p : Nat
deriving DecidableEq, Repr

/-- field widths: BSIC 6, T1 11, T2 5, T3' 3 bits -/
def Fields.InWidth (f : Fields) : Prop := f.bsic < 64 ∧ f.t1 < 2048 ∧ f.t2 < 32 ∧ f.t3p < 8

instance (f : Fields) : Decidable f.InWidth := by unfold Fields.InWidth; infer_instance

/-- value ranges of the standard: T2 0..25, T3' 0..4 -/
def Fields.Valid (f : Fields) : Prop := f.bsic < 64 ∧ f.t1 < 2048 ∧ f.t2 < 26 ∧ f.t3p < 5

instance (f : Fields) : Decidable f.Valid := by unfold Fields.Valid; infer_instance

/-- The reduced frame number of an SCH frame; defined on SCH frames of the hyperframe only (T3 ≥ 1 there). -/
def rfn? (bsic fn : Nat) : Option Fields :=
  if bsic < 64 ∧ fn < hyperframe ∧ isSchFrame fn = true then
    some { bsic := bsic, t1 := fn / (26 * 51), t2 := fn % 26, t3p := (fn % 51 - 1) / 10 }
  else none

/-- Figure 9.1.30.1 of TS 44.018, octet by octet (bit M of an octet has the weight 2^(M−1)). -/
def octets (f : Fields) : List Nat :=
  [ f.bsic * 4 + f.t1 / 512,                    -- octet 1: BSIC in bits 8..3, T1 bits 10..9 in bits 2..1
    f.t1 / 2 % 256,                             -- octet 2: T1 bits 8..1
    f.t1 % 2 * 128 + f.t2 * 4 + f.t3p / 2,      -- octet 3: T1 bit 0 in bit 8, T2 in bits 7..3, T3' bits 2..1 in bits 2..1
    f.t3p % 2 ]                                 -- octet 4: T3' bit 0 in bit 1

/-- d(8·(N−1) + (M−1)) = bit M of octet N, d(k) carried in bit k of the word. -/
def wordOfOctets : List Nat → Nat
  | [] => 0
  | o :: rest => o + 256 * wordOfOctets rest

/-- The 25-bit word of the fields. -/
def encodeFields (f : Fields) : Nat := wordOfOctets (octets f)

/-- The standard's encoder: BSIC and frame number of an SCH frame ↦ the 25 information bits (as a word, d(k) = bit k). -/
def encodeSb (bsic fn : Nat) : Option Nat := (rfn? bsic fn).map encodeFields

/-- The same layout as a table: which bit of which field is d(k), k = 0..24.
(`0` = BSIC, `1` = T1, `2` = T2, `3` = T3'; second component = bit number inside the field, 0 = least significant.) -/
def layout : List (Nat × Nat) :=
  [ (1, 9), (1, 10),                                              -- d(0..1)   octet 1 bits 1..2: T1 (high)
    (0, 0), (0, 1), (0, 2), (0, 3), (0, 4), (0, 5),               -- d(2..7)   octet 1 bits 3..8: BSIC
    (1, 1), (1, 2), (1, 3), (1, 4), (1, 5), (1, 6), (1, 7), (1, 8), -- d(8..15) octet 2: T1 (middle)
    (3, 1), (3, 2),                                               -- d(16..17) octet 3 bits 1..2: T3' (high)
    (2, 0), (2, 1), (2, 2), (2, 3), (2, 4),                       -- d(18..22) octet 3 bits 3..7: T2
    (1, 0),                                                       -- d(23)     octet 3 bit 8: T1 (low)
    (3, 0) ]                                                      -- d(24)     octet 4 bit 1: T3' (low)

def Fields.get (f : Fields) : Nat → Nat
  | 0 => f.bsic
  | 1 => f.t1
  | 2 => f.t2
  | _ => f.t3p

/-- the word assembled bit by bit from the table -/
def encodeByLayout (f : Fields) : Nat :=
  let rec go : List (Nat × Nat) → Nat → Nat
    | [], _ => 0
    | (fld, b) :: rest, k => (f.get fld / 2 ^ b % 2) * 2 ^ k + go rest (k + 1)
  go layout 0

/-- Reading the fields back from a 25-bit word by the table (the decoder the standard implies). -/
def decodeByLayout (w : Nat) : Fields :=
  let rec go : List (Nat × Nat) → Nat → Fields → Fields
    | [], _, f => f
    | (fld, b) :: rest, k, f =>
      let v := (w / 2 ^ k % 2) * 2 ^ b
      go rest (k + 1) (match fld with
        | 0 => { f with bsic := f.bsic + v }
        | 1 => { f with t1 := f.t1 + v }
        | 2 => { f with t2 := f.t2 + v }
        | _ => { f with t3p := f.t3p + v })
  go layout 0 ⟨0, 0, 0, 0⟩

end OsmoVerif.Spec.SchCoding
