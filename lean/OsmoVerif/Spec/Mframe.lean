/-
C11 specification: which firmware multiframe task and which (channel combination,
logical channel) of trxcon are the SAME logical channel of 3GPP TS 45.002 (clause 6.4
channel combinations, clause 7 tables 1–3 and 6).  This is the only hand-written bridge
between the two table sets; every table, constant and enumerator value is regenerated.
Only the enumerator NAMES are used here.
-/
import OsmoVerif.Gen.FwMframe
import OsmoVerif.Gen.TrxconMframe

namespace OsmoVerif.Spec.Mframe
open OsmoVerif.Gen.FwMframe OsmoVerif.Gen.TrxconMframe

/-- direction of a burst / block -/
inductive Dir where
  | dl | ul
deriving DecidableEq, Repr

/-- how the firmware schedules the channel: whole blocks (one table row starts a block of
    4 bursts) or frame by frame (TCH traffic and its SACCH: one row per owned frame) -/
inductive Kind where
  | block | perFrame
deriving DecidableEq, Repr

structure Entry where
  task : Task            -- firmware task (enum mframe_task)
  config : Pchan         -- trxcon channel combination (enum gsm_phys_chan_config)
  tns : List Nat         -- timeslots the pairing is valid for
  main : Lchan           -- logical channel of the rows without MF_F_SACCH
  sacch : Option Lchan   -- logical channel of the rows with MF_F_SACCH
  dirs : List Dir        -- directions both stacks implement for it
  kind : Kind
deriving Repr

def allTn : List Nat := [0, 1, 2, 3, 4, 5, 6, 7]
def evenTn : List Nat := [0, 2, 4, 6]
def oddTn : List Nat := [1, 3, 5, 7]
def D : List Dir := [.dl]
def DU : List Dir := [.dl, .ul]

/-- TS 45.002 clause 7 table 3 (BCCH, CCCH: combinations iv, v; SDCCH/4, SACCH/C4: v;
    SDCCH/8, SACCH/C8: vii; CBCH replaces sub-channel 2: clause 6.4.1 note), table 1
    (TCH/F + SACCH/TF: SACCH in frame 12 on even, 25 on odd TN; TCH/H sub-channels 0/1 +
    SACCH/TH), table 6 (PDTCH; the firmware task is receive-only, so Downlink only). -/
def table : List Entry := [
  ⟨.BCCH_NORM, .CCCH, allTn, .BCCH, none, D, .block⟩,
  ⟨.BCCH_NORM, .CCCH_SDCCH4, allTn, .BCCH, none, D, .block⟩,
  ⟨.BCCH_NORM, .CCCH_SDCCH4_CBCH, allTn, .BCCH, none, D, .block⟩,
  ⟨.CCCH, .CCCH, allTn, .CCCH, none, D, .block⟩,
  ⟨.CCCH_COMB, .CCCH_SDCCH4, allTn, .CCCH, none, D, .block⟩,
  ⟨.CCCH_COMB, .CCCH_SDCCH4_CBCH, allTn, .CCCH, none, D, .block⟩,
  ⟨.SDCCH4_0, .CCCH_SDCCH4, allTn, .SDCCH4_0, some .SACCH4_0, DU, .block⟩,
  ⟨.SDCCH4_1, .CCCH_SDCCH4, allTn, .SDCCH4_1, some .SACCH4_1, DU, .block⟩,
  ⟨.SDCCH4_2, .CCCH_SDCCH4, allTn, .SDCCH4_2, some .SACCH4_2, DU, .block⟩,
  ⟨.SDCCH4_3, .CCCH_SDCCH4, allTn, .SDCCH4_3, some .SACCH4_3, DU, .block⟩,
  ⟨.SDCCH4_0, .CCCH_SDCCH4_CBCH, allTn, .SDCCH4_0, some .SACCH4_0, DU, .block⟩,
  ⟨.SDCCH4_1, .CCCH_SDCCH4_CBCH, allTn, .SDCCH4_1, some .SACCH4_1, DU, .block⟩,
  ⟨.SDCCH4_3, .CCCH_SDCCH4_CBCH, allTn, .SDCCH4_3, some .SACCH4_3, DU, .block⟩,
  ⟨.SDCCH4_CBCH, .CCCH_SDCCH4_CBCH, allTn, .SDCCH4_CBCH, none, D, .block⟩,
  ⟨.SDCCH8_0, .SDCCH8_SACCH8C, allTn, .SDCCH8_0, some .SACCH8_0, DU, .block⟩,
  ⟨.SDCCH8_1, .SDCCH8_SACCH8C, allTn, .SDCCH8_1, some .SACCH8_1, DU, .block⟩,
  ⟨.SDCCH8_2, .SDCCH8_SACCH8C, allTn, .SDCCH8_2, some .SACCH8_2, DU, .block⟩,
  ⟨.SDCCH8_3, .SDCCH8_SACCH8C, allTn, .SDCCH8_3, some .SACCH8_3, DU, .block⟩,
  ⟨.SDCCH8_4, .SDCCH8_SACCH8C, allTn, .SDCCH8_4, some .SACCH8_4, DU, .block⟩,
  ⟨.SDCCH8_5, .SDCCH8_SACCH8C, allTn, .SDCCH8_5, some .SACCH8_5, DU, .block⟩,
  ⟨.SDCCH8_6, .SDCCH8_SACCH8C, allTn, .SDCCH8_6, some .SACCH8_6, DU, .block⟩,
  ⟨.SDCCH8_7, .SDCCH8_SACCH8C, allTn, .SDCCH8_7, some .SACCH8_7, DU, .block⟩,
  ⟨.SDCCH8_0, .SDCCH8_SACCH8C_CBCH, allTn, .SDCCH8_0, some .SACCH8_0, DU, .block⟩,
  ⟨.SDCCH8_1, .SDCCH8_SACCH8C_CBCH, allTn, .SDCCH8_1, some .SACCH8_1, DU, .block⟩,
  ⟨.SDCCH8_3, .SDCCH8_SACCH8C_CBCH, allTn, .SDCCH8_3, some .SACCH8_3, DU, .block⟩,
  ⟨.SDCCH8_4, .SDCCH8_SACCH8C_CBCH, allTn, .SDCCH8_4, some .SACCH8_4, DU, .block⟩,
  ⟨.SDCCH8_5, .SDCCH8_SACCH8C_CBCH, allTn, .SDCCH8_5, some .SACCH8_5, DU, .block⟩,
  ⟨.SDCCH8_6, .SDCCH8_SACCH8C_CBCH, allTn, .SDCCH8_6, some .SACCH8_6, DU, .block⟩,
  ⟨.SDCCH8_7, .SDCCH8_SACCH8C_CBCH, allTn, .SDCCH8_7, some .SACCH8_7, DU, .block⟩,
  ⟨.SDCCH8_CBCH, .SDCCH8_SACCH8C_CBCH, allTn, .SDCCH8_CBCH, none, D, .block⟩,
  ⟨.TCH_F_EVEN, .TCH_F, evenTn, .TCHF, some .SACCHTF, DU, .perFrame⟩,
  ⟨.TCH_F_ODD, .TCH_F, oddTn, .TCHF, some .SACCHTF, DU, .perFrame⟩,
  ⟨.TCH_H_0, .TCH_H, allTn, .TCHH_0, some .SACCHTH_0, DU, .perFrame⟩,
  ⟨.TCH_H_1, .TCH_H, allTn, .TCHH_1, some .SACCHTH_1, DU, .perFrame⟩,
  ⟨.GPRS_PDTCH, .PDCH, allTn, .PDTCH, none, D, .block⟩]

/-- direction(s) served by a firmware sched set: `nb_sched_set` receives a block of four
    normal bursts, `nb_sched_set_ul` transmits one, the TCH sets (`tch_sched_set`, and
    `tch_a_sched_set` for the SACCH) receive and transmit one burst in the same frame;
    `tch_d_sched_set` (TCH/H dummy in the other sub-channel's frame) and the neighbour
    measurement own no frame of the channel. -/
def setDirs : SchedSet → List Dir
  | .nb_sched_set => [.dl]
  | .nb_sched_set_ul => [.ul]
  | .tch_sched_set => [.dl, .ul]
  | .tch_a_sched_set => [.dl, .ul]
  | _ => []

/-- number of bursts of one block of a block channel (burst ids `0 … n-1`);
    `none`: not a block channel (IDLE filler, single-burst FCCH / SCH / RACH) -/
def blockLen : Lchan → Option Nat
  | .IDLE | .FCCH | .SCH | .RACH => none
  | .TCHH_0 | .TCHH_1 => some 2
  | _ => some 4

/-- channels of a layout no firmware multiframe task implements (so outside "every
    logical channel both stacks implement"): filler, the single-burst channels that the
    firmware handles outside the multiframe scheduler, and PTCCH (`mf_gprs_ptcch` is empty) -/
def notInFirmware : Lchan → Bool
  | .IDLE | .FCCH | .SCH | .RACH | .PTCCH => true
  | _ => false

/-- firmware tasks without a logical channel in trxcon: extended BCCH (trxcon treats the
    block as CCCH), the empty PTCCH task, neighbour measurements, the TX test task -/
def notInTrxcon : Task → Bool
  | .BCCH_EXT | .GPRS_PTCCH | .NEIGH_PM51_C0T0 | .NEIGH_PM51 | .NEIGH_PM26E | .NEIGH_PM26O
  | .UL_ALL_NB => true
  | _ => false

end OsmoVerif.Spec.Mframe
