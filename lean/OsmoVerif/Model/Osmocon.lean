/-
Model of osmocon's host-side use of the serial link (src/host/osmocon/osmocon.c), statement by statement:

  handle_sercomm_write()       pulls up to `sizeof(buffer)` octets with sercomm_drv_pull, ONE write() of them,
                               `perror("short write")` when write() took fewer, osmo_fd_write_disable when the
                               transmitter ran dry
  hdlc_send_to_phone(dlci, data, len)
                               `len > 512` → dropped; sercomm_alloc_msgb(512); msgb_put(msg, len); memcpy;
                               sercomm_sendmsg; osmo_fd_write_enable
  handle_buffer(buf_used_len)  the sliding window `buffer[7]` / `bufptr`, one read(), every octet read goes to
                               sercomm_drv_rx_char while `dnload.expect_hdlc`
  handle_read()                (Compal ramloader mode) handle_buffer, the memcmp chain over the prompt tables,
                               `bufptr += nbytes`
  serial_read(fd, OSMO_FD_READ)   `while ((rc = handle_read()) > 0);  if (rc == 0) exit(2);`

The sercomm layer underneath is `Model/Sercomm.lean` (`World`: transmitter, receiver, observations; the echo
DLCI included); `Model/SercommMsgb.lean` is the same on real message buffers and is used for
`hdlc_send_to_phone`, whose only interesting part is the buffer arithmetic.
Environment, as parameters: what write() returns, which octets read() delivers (`Fd`).
Not modelled: `dnload.filename != NULL` (re-reading the image and answering the prompt), chain loading,
the romload / mtk modes, the download itself, printf output.
-/
import OsmoVerif.Model.SercommMsgb
import OsmoVerif.Gen.Osmocon

namespace OsmoVerif.Osmocon
open OsmoVerif.Sercomm OsmoVerif.Gen.Sercomm OsmoVerif.Gen.Osmocon

/-! ## `handle_sercomm_write` -/

/-- why the fill loop ended -/
inductive Stop where
  /-- `i == sizeof(buffer)` -/
  | full
  /-- `sercomm_drv_pull` returned 0: `end = 1` -/
  | empty
  /-- `sercomm_drv_pull` read behind the message (never reached, see Lemmas) -/
  | fault
deriving DecidableEq, Repr

/-- `for (i = 0; i < sizeof(buffer); i++) { if (sercomm_drv_pull(&buffer[i]) == 0) { end = 1; break; } count++; }` -/
def fill : Nat → Tx → Tx × List Nat × Stop
  | 0, t => (t, [], .full)
  | n + 1, t =>
    match pull t with
    | (t', .octet c) =>
      let r := fill n t'
      (r.1, c :: r.2.1, r.2.2)
    | (t', .empty) => (t', [], .empty)
    | (t', .fault) => (t', [], .fault)

/-- one call of `handle_sercomm_write` -/
structure WriteOut where
  tx : Tx
  /-- `buffer[0 .. count)` as passed to `write()`; `[]`: `count == 0`, no call -/
  offered : List Nat
  /-- return value of `write()` (`none`: not called) -/
  rc : Option Int
  /-- the octets the serial line got -/
  line : List Nat
  /-- `perror("short write")` -/
  short : Bool
  /-- `osmo_fd_write_disable` -/
  disabled : Bool
  fault : Bool
deriving Repr

/-- `handle_sercomm_write()`; `wr offered` is what the environment's `write(fd, buffer, count)` returns
(−1 or 0 … count) -/
def handleSercommWrite (t : Tx) (wr : List Nat → Int) : WriteOut :=
  let (t', buf, stop) := fill writeBuf t
  if buf.isEmpty then
    { tx := t', offered := [], rc := none, line := [], short := false, disabled := stop == .empty, fault := stop == .fault }
  else
    let rc := wr buf
    { tx := t', offered := buf, rc := some rc, line := buf.take rc.toNat,
      short := rc ≠ (buf.length : Int), disabled := stop == .empty, fault := stop == .fault }

/-- successive calls (nothing queued in between), each with its own `write()` behaviour: the octets on
the line -/
def writeCalls : Tx → List (List Nat → Int) → Tx × List Nat
  | t, [] => (t, [])
  | t, wr :: rest =>
    let o := handleSercommWrite t wr
    let r := writeCalls o.tx rest
    (r.1, o.line ++ r.2)

/-- a `write()` that takes everything -/
def wrAll : List Nat → Int := fun b => b.length

/-! ## `hdlc_send_to_phone` on real message buffers -/

open OsmoVerif.Msgb OsmoVerif.SercommMsgb in
inductive SendOut where
  /-- `len > 512`: "Too much data to send", nothing queued, write not enabled -/
  | tooMuch
  /-- a msgb fault / the queue index beyond the array / `memcpy` reading beyond the caller's data -/
  | fault (f : CFault)
  /-- queued; `osmo_fd_write_enable` called -/
  | sent (t : CTx)

open OsmoVerif.Msgb OsmoVerif.SercommMsgb in
/-- `hdlc_send_to_phone(dlci, data, len)` with `int len`; `data` is the caller's array -/
def hdlcSendToPhone (t : CTx) (dlci : Nat) (data : List Nat) (len : Int) : SendOut :=
  -- if (len > 512) { fprintf(stderr, …); return; }
  if len > (sendMax : Int) then .tooMuch
  else
    -- msg = sercomm_alloc_msgb(512)
    match sercommAlloc sendAlloc with
    | .error f => .fault (.msgb f)
    | .ok m =>
      -- dest = msgb_put(msg, len): conversion of the int to `unsigned int`
      let n := (len % 4294967296).toNat
      match put m n with
      | .error f => .fault (.msgb f)
      | .ok (m, dest) =>
        -- memcpy(dest, data, len)
        if n > data.length then .fault (.msgb .oob)
        else
          match writeBytes m dest (data.take n) with
          | .error f => .fault (.msgb f)
          | .ok m =>
            -- sercomm_sendmsg(dlci, msg); osmo_fd_write_enable(&dnload.serial_fd)
            match csendmsg t dlci m with
            | .error f => .fault f
            | .ok t' => .sent t'

/-! ## the read side -/

/-- the serial fd as the environment presents it -/
structure Fd where
  /-- octets readable now -/
  avail : List Nat
  /-- `read()` returns at most this many octets per call (0: no limit) -/
  chunk : Nat
  /-- end of file after `avail` (else `EAGAIN`) -/
  eof : Bool
deriving Repr

/-- how many octets a `read(fd, p, n)` delivers when something is readable -/
def Fd.count (fd : Fd) (n : Nat) : Nat :=
  if fd.chunk = 0 then min fd.avail.length n else min (min fd.avail.length n) fd.chunk

/-- `read(fd, p, n)`: the return value, the octets delivered, the fd afterwards -/
def Fd.read (fd : Fd) (n : Nat) : Int × List Nat × Fd :=
  if fd.avail.isEmpty then ((if fd.eof then 0 else -1), [], fd)
  else ((fd.count n : Nat), fd.avail.take (fd.count n), { fd with avail := fd.avail.drop (fd.count n) })

/-- the part of `static struct dnload dnload` and the file-scope window that the read path uses -/
structure Host where
  /-- the sercomm layer (osmocon links sercomm.c) -/
  w : World
  /-- `static uint8_t buffer[sizeof(phone_prompt1)]` -/
  buffer : List Nat
  /-- `bufptr - buffer` -/
  bufptr : Nat
  /-- `dnload.expect_hdlc` -/
  expectHdlc : Bool
  /-- `dnload.state` -/
  dnState : Nat
  /-- `dnload.serial_fd.when & OSMO_FD_WRITE` -/
  writeOn : Bool
  /-- a write outside `buffer[]` (never reached, see Lemmas) -/
  oob : Bool
deriving Repr

def Host.init (nq : Nat) : Host :=
  -- `static struct dnload dnload` and `buffer` are zero-initialised
  ⟨World.init nq, List.replicate window 0, 0, false, 0, false, false⟩

/-- `memcpy`-like store of what `read()` delivered at `buffer + bufptr` -/
def storeAt (buf : List Nat) (off : Nat) : List Nat → List Nat
  | [] => buf
  | b :: bs => storeAt (buf.set off b) (off + 1) bs

/-- the head of `handle_buffer(buf_used_len)`:
`buf_left = buf_used_len - (bufptr - buffer); if (buf_left <= 0) { memmove(buffer, buffer+1, buf_used_len-1); bufptr -= 1; buf_left = 1; }`
→ the window, `bufptr - buffer`, `buf_left` -/
def slide (used : Nat) (buffer : List Nat) (bufptr : Nat) : List Nat × Nat × Nat :=
  if used ≤ bufptr then ((buffer.drop 1).take (used - 1) ++ buffer.drop (used - 1), bufptr - 1, 1)
  else (buffer, bufptr, used - bufptr)

/-- `handle_buffer(buf_used_len)` with `buf_used_len = sizeof(buffer)`: the host afterwards, the fd
afterwards, `nbytes` -/
def handleBuffer (c : Cfg) (h : Host) (fd : Fd) : Host × Fd × Int :=
  let s := slide window h.buffer h.bufptr
  -- nbytes = read(dnload.serial_fd.fd, bufptr, buf_left)
  let r := fd.read s.2.2
  let h1 : Host := { h with buffer := storeAt s.1 s.2.1 r.2.1, bufptr := s.2.1,
                            oob := h.oob || decide (s.2.1 + s.2.2 > window) }
  -- if (nbytes <= 0) return nbytes;
  if r.1 ≤ 0 then (h1, r.2.2, r.1)
  else if !h.expectHdlc then (h1, r.2.2, r.1)
  else
    -- for (i = 0; i < nbytes; ++i) if (sercomm_drv_rx_char(bufptr[i]) == 0) printf("Dropping sample …")
    ({ h1 with w := r.2.1.foldl (World.rxOctet c) h1.w }, r.2.2, r.1)

/-- `!memcmp(buffer, table, sizeof(table))` -/
def memEq (buffer table : List Nat) : Bool := buffer.take table.length == table

/-- the `memcmp` chain of `handle_read()` (with `dnload.filename == NULL`, `dnload.do_chainload == 0`) -/
def prompts (h : Host) : Host :=
  if memEq h.buffer phonePrompt1 then
    { h with expectHdlc := false, dnState := stWaitingPrompt2 }
  else if memEq h.buffer phonePrompt2 then
    -- osmo_fd_update_when(&dnload.serial_fd, 0, OSMO_FD_READ | OSMO_FD_WRITE)
    { h with writeOn := true, dnState := stDownloading }
  else if memEq h.buffer phoneAck then
    -- osmo_fd_update_when(&dnload.serial_fd, 0, OSMO_FD_READ)
    { h with writeOn := false, dnState := stWaitingPrompt1, expectHdlc := true }
  else if memEq h.buffer phoneNack then
    { h with writeOn := false, dnState := stWaitingPrompt1 }
  else if memEq h.buffer phoneNackMagic then
    { h with writeOn := false, dnState := stWaitingPrompt1 }
  else if memEq h.buffer ftmtool then
    { h with writeOn := false, dnState := stWaitingPrompt1 }
  else h

/-- `handle_read()`: `handle_buffer`, the prompts, `bufptr += nbytes` -/
def handleRead (c : Cfg) (h : Host) (fd : Fd) : Host × Fd × Int :=
  let r := handleBuffer c h fd
  if r.2.2 ≤ 0 then r
  else
    let h' := prompts r.1
    ({ h' with bufptr := h'.bufptr + r.2.2.toNat }, r.2.1, r.2.2)

/-- `while ((rc = handle_read()) > 0);` → the last `rc` (`fuel`: every round with `rc > 0` consumes an octet) -/
def readLoop (c : Cfg) : Nat → Host → Fd → Host × Fd × Int
  | 0, h, fd => (h, fd, -1)
  | fuel + 1, h, fd =>
    let r := handleRead c h fd
    if r.2.2 > 0 then readLoop c fuel r.1 r.2.1 else r

/-- `serial_read(fd, OSMO_FD_READ)`: the host, the fd, and whether `exit(2)` was called (`rc == 0`) -/
def serialRead (c : Cfg) (h : Host) (fd : Fd) : Host × Fd × Bool :=
  let r := readLoop c (fd.avail.length + 1) h fd
  (r.1, r.2.1, r.2.2 == 0)

end OsmoVerif.Osmocon
