/-
Model of the TDMA clock source `CLCKGen` (src/target/trx_toolkit/clck_gen.py):
  * `_worker`        absolute-deadline loop over virtual integer nanoseconds
  * `send_clck_ind`  period filter, payload, handler call, modular increment
  * `start` / `stop` thread control (`assert(self._thread is None)`, `clck_src = clck_start`)

Time is a virtual monotonic clock: `time.monotonic_ns()` returns `now`; `_breaker.wait(dt)`
advances `now` by exactly `dt`; the handler of tick k advances `now` by the scripted duration
`d k` (an arbitrary natural number of ns, below or above one tick); nothing else takes time.
The breaker script is the length of the duration list: the worker fires one tick per list
element and leaves the loop at the following `wait` (as if `stop()` arrived during that wait).

Python `int` is unbounded: times are `Int` (the code computes the possibly negative
`dt = t_next - t`), counters are `Nat`. `x % 0` raises `ZeroDivisionError` in Python: the model
returns that tag, it has no default.

Not modelled (environment): `os.sched_setscheduler` (`sched_rr_prio`, default `None`), log text,
exceptions raised by a link's `send` or by the handler, OS thread scheduling and the accuracy of
`threading.Event.wait`.
-/
import OsmoVerif.Gen.Clck

namespace OsmoVerif.Clck

/-! ### payload `"IND CLOCK %u\0" % clck_src` -/

/-- decimal digits (ASCII codes) of a natural number, most significant first; `fuel` bounds the
number of digits (`decDigits` passes `n`, which is always enough). -/
def decDigitsAux : Nat → Nat → List Nat
  | 0, n => [48 + n % 10]
  | fuel + 1, n => if n < 10 then [48 + n] else decDigitsAux fuel (n / 10) ++ [48 + n % 10]

/-- `"%u" % n` for a non-negative Python int -/
def decDigits (n : Nat) : List Nat := decDigitsAux n n

/-- value of a string of ASCII decimal digits (what the receiver's `sscanf("%u")` computes) -/
def decValue (cs : List Nat) : Nat := cs.foldl (fun acc c => 10 * acc + (c - 48)) 0

/-- the indication payload as octets; the text around the number is regenerated from the tree -/
def payload (fn : Nat) : List Nat := Gen.clckIndPrefix ++ decDigits fn ++ Gen.clckIndSuffix

/-! ### configuration and `send_clck_ind` -/

/-- the attributes of a `CLCKGen` object that the worker reads -/
structure Cfg where
  /-- `t_tick` (ns) computed at worker entry from `ctr_interval` -/
  tTick : Nat
  /-- `ind_period` -/
  period : Nat
  /-- `clck_links`: identities of the attached link objects, in list order (repeats allowed) -/
  links : List Nat
  /-- `clck_handler is not None` -/
  handler : Bool
deriving Repr, DecidableEq

/-- what one call of `send_clck_ind` does, in program order: the sends, the handler call,
then the new counter or the exception that ends the call -/
structure Ind where
  sends : List (Nat × List Nat)
  call : Option Nat
  next : Except String Nat
deriving Repr

/-- `send_clck_ind(self)` with `clck_src = src` -/
def sendClckInd (c : Cfg) (src : Nat) : Ind :=
  if c.period = 0 then
    -- `self.clck_src % self.ind_period` raises before anything is sent
    { sends := [], call := none, next := .error "ZeroDivisionError" }
  else
    { sends := if src % c.period = 0 then c.links.map (fun l => (l, payload src)) else []
      call := if c.handler then some src else none
      next := if Gen.clckWrap = 0 then .error "ZeroDivisionError"
              else .ok ((src + 1) % Gen.clckWrap) }

/-! ### `_worker` -/

/-- local state of the loop: `t_next`, the virtual clock, `self.clck_src` -/
structure Loop where
  tNext : Int
  now : Int
  src : Nat
deriving Repr, DecidableEq

/-- loop body from `t_next += t_tick` to the argument of `wait`:
returns the new `t_next` and `dt` (ns). -/
def deadline (c : Cfg) (s : Loop) : Int × Int :=
  let tNext := s.tNext + (c.tTick : Int)   -- t_next += t_tick
  let t := s.now                            -- t = time.monotonic_ns()
  let dt := tNext - t                       -- dt = (t_next - t)
  if dt < 0 then
    (s.now, 0)                              -- t_next = time.monotonic_ns(); dt = 0
  else
    (tNext, dt)

/-- one tick as observed from outside -/
structure Tick where
  /-- argument of the `wait` that preceded the tick (ns) -/
  dt : Int
  /-- virtual time at which `wait` returned and `send_clck_ind` ran -/
  time : Int
  /-- `clck_src` during the tick -/
  fn : Nat
  /-- `(link, payload)` for every `link.send(payload)`, in order -/
  sends : List (Nat × List Nat)
  /-- argument of the handler call, if a handler is installed -/
  call : Option Nat
deriving Repr, DecidableEq

/-- how the worker ended -/
inductive End where
  /-- `wait(dt)` returned True at `time`; `src` = `clck_src` left behind -/
  | broke (dt time : Int) (src : Nat)
  /-- `send_clck_ind` raised during the tick that began at `time` (after these sends / this call) -/
  | raised (dt time : Int) (src : Nat) (sends : List (Nat × List Nat)) (call : Option Nat) (tag : String)
deriving Repr, DecidableEq

def End.time : End → Int
  | .broke _ t _ => t
  | .raised _ t _ _ _ _ => t

def End.src : End → Nat
  | .broke _ _ s => s
  | .raised _ _ s _ _ _ => s

/-- time the handler of a tick takes: the scripted duration if a handler is installed -/
def dur (c : Cfg) (d : Nat) : Nat := if c.handler then d else 0

/-- `while 1:` of `_worker`; one list element = scripted handler duration of one tick. -/
def loop (c : Cfg) (s : Loop) : List Nat → List Tick × End
  | [] =>
    let p := deadline c s
    ([], .broke p.2 (s.now + p.2) s.src)               -- wait(dt) returns True: break
  | d :: ds =>
    let p := deadline c s
    let t := s.now + p.2                                -- wait(dt) returned False
    let r := sendClckInd c s.src                        -- self.send_clck_ind()
    match r.next with
    | .error tag => ([], .raised p.2 t s.src r.sends r.call tag)
    | .ok src' =>
      let rest := loop c { tNext := p.1, now := t + (dur c d : Int), src := src' } ds
      ({ dt := p.2, time := t, fn := s.src, sends := r.sends, call := r.call } :: rest.1, rest.2)

/-- `_worker` entered at virtual time `t0` with `clck_src = start` (`t_next = monotonic_ns()`) -/
def worker (c : Cfg) (start : Nat) (t0 : Int) (ds : List Nat) : List Tick × End :=
  loop c { tNext := t0, now := t0, src := start } ds

/-! ### `clck_links` modified in place while the worker runs

`Transceiver.power_event_handler` (socket thread) appends to / removes from the very list object the
worker iterates over (`for link in self.clck_links`), between two ticks.  One script element =
(handler duration of the tick, content of `clck_links` when the tick fires). -/

/-- `while 1:` of `_worker` with the list `clck_links` as it is at each tick -/
def loopL (c : Cfg) (s : Loop) : List (Nat × List Nat) → List Tick × End
  | [] =>
    let p := deadline c s
    ([], .broke p.2 (s.now + p.2) s.src)
  | (d, ls) :: ds =>
    let p := deadline c s
    let t := s.now + p.2
    let r := sendClckInd { c with links := ls } s.src
    match r.next with
    | .error tag => ([], .raised p.2 t s.src r.sends r.call tag)
    | .ok src' =>
      let rest := loopL c { tNext := p.1, now := t + (dur c d : Int), src := src' } ds
      ({ dt := p.2, time := t, fn := s.src, sends := r.sends, call := r.call } :: rest.1, rest.2)

def workerL (c : Cfg) (start : Nat) (t0 : Int) (sc : List (Nat × List Nat)) : List Tick × End :=
  loopL c { tNext := t0, now := t0, src := start } sc

/-- a tick without its indications: when it fired, with which frame number, what was called -/
def Tick.timing (k : Tick) : Int × Int × Nat × Option Nat := (k.dt, k.time, k.fn, k.call)

/-! ### event log (what the harness records, in program order) -/

inductive Event where
  | wait (dt t : Int)
  | send (link : Nat) (t : Int) (payload : List Nat)
  | handler (fn : Nat) (t : Int)
  | exit (dt t : Int)
  | exc (tag : String) (t : Int)
deriving Repr, DecidableEq

def Event.isHandler : Event → Bool
  | .handler _ _ => true
  | _ => false

def Event.isSend : Event → Bool
  | .send _ _ _ => true
  | _ => false

def callEvents (t : Int) : Option Nat → List Event
  | some fn => [.handler fn t]
  | none => []

/-- events of one tick: the wait returns, the indications go out, then the handler runs -/
def Tick.events (k : Tick) : List Event :=
  .wait k.dt k.time :: (k.sends.map fun p => Event.send p.1 k.time p.2) ++ callEvents k.time k.call

def End.events : End → List Event
  | .broke dt t _ => [.exit dt t]
  | .raised dt t _ sends call tag =>
    .wait dt t :: (sends.map fun p => Event.send p.1 t p.2) ++ callEvents t call ++ [.exc tag t]

def events (r : List Tick × End) : List Event := r.1.flatMap Tick.events ++ r.2.events

/-! ### `start` / `stop` -/

/-- the attributes of the object that `start`/`stop` touch, plus the virtual clock -/
structure Obj where
  /-- `self._thread is not None` -/
  thread : Bool
  /-- `self.clck_src` (the attribute does not exist before the first `start`) -/
  src : Option Nat
  /-- `self.clck_start` -/
  start : Nat
  now : Int
deriving Repr, DecidableEq

inductive Op where
  /-- `start()`; the new worker fires one tick per scripted duration, then sees the breaker -/
  | start (ds : List Nat)
  /-- `stop()` -/
  | stop
  /-- nothing happens for `n` ns -/
  | idle (n : Nat)
  /-- `self.clck_start = fn` -/
  | setStart (fn : Nat)
deriving Repr, DecidableEq

inductive Out where
  | ran (ticks : List Tick) (e : End)
  /-- `assert(self._thread is None)` failed; nothing was changed -/
  | assertionError
  | ok
deriving Repr, DecidableEq

def step (c : Cfg) (o : Obj) : Op → Obj × Out
  | .start ds =>
    if o.thread then (o, .assertionError)
    else
      let r := worker c o.start o.now ds
      ({ o with thread := true, src := some r.2.src, now := r.2.time }, .ran r.1 r.2)
  | .stop => ({ o with thread := false }, .ok)
  | .idle n => ({ o with now := o.now + (n : Int) }, .ok)
  | .setStart fn => ({ o with start := fn }, .ok)

/-- a history of operations on one object, with the outcome of each -/
def history (c : Cfg) (o : Obj) : List Op → Obj × List Out
  | [] => (o, [])
  | op :: ops =>
    let r := step c o op
    let rest := history c r.1 ops
    (rest.1, r.2 :: rest.2)

/-- a freshly constructed object at virtual time `t0` -/
def Obj.init (start : Nat) (t0 : Int) : Obj := { thread := false, src := none, start := start, now := t0 }

end OsmoVerif.Clck
