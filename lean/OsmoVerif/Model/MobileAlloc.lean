/-
Model of `gsm48_decode_mobile_alloc` (src/host/layer23/src/common/sysinfo.c), statement by
statement, with every array as a capacity-checked list:

  int gsm48_decode_mobile_alloc(struct gsm_sysinfo_freq *freq, const uint8_t *ma, uint8_t len,
                                uint16_t *hopping, uint8_t *hopp_len, int si4)
  {
      int i, j = 0;
      uint16_t f[64];                                   -- size regenerated: `Gen.MobileAlloc.fCap`
      if (len > 8) return -EINVAL;
      *hopp_len = 0;
      if (si4) for (i = 0; i < 1024; i++) freq[i].mask &= ~FREQ_TYPE_HOPP;
      for (i = 1; i <= 1024 && j < (len << 3); i++)
          if ((freq[i & 1023].mask & FREQ_TYPE_SERV)) { LOGP(.., j, i & 1023); f[j++] = i & 1023; }
      for (i = 0; i < (len << 3); i++)
          if ((ma[len - 1 - (i >> 3)] & (1 << (i & 7)))) {
              LOGP(.., i, f[i]);
              if (i >= j) { LOGP(..); break; }
              hopping[(*hopp_len)++] = f[i];
              if (si4) freq[f[i]].mask |= FREQ_TYPE_HOPP;
          }
      return 0;
  }

* `freq`, `ma`, `hopping` are the caller's objects: lists whose length is their capacity.
* `f` is a local table of `fCap len` entries that start out indeterminate (`none`).
* Every read/write is bounds-checked; an access outside a buffer, the use of an indeterminate
  entry of `f`, a variable length array of zero entries and a loop that does not terminate within
  its fuel are *distinct outcomes* (`Fault`), never silently dropped or defaulted.
* `len` is the value of the `uint8_t` parameter (0..255); `i`, `j` are `int` and stay far below
  2^31; `*hopp_len` is a `uint8_t` (post-increment wraps at 256); masks are `uint8_t`.
-/
import OsmoVerif.Gen.MobileAlloc

namespace OsmoVerif.MobileAlloc
open OsmoVerif.Gen.MobileAlloc

/-- the buffers the function touches -/
inductive Buf
  | freq | f | hopping | ma
deriving DecidableEq, Repr

/-- outcomes other than a normal return -/
inductive Fault
  /-- read outside a buffer (index as computed in C `int` arithmetic) -/
  | oobRead (b : Buf) (idx : Int)
  /-- write outside a buffer -/
  | oobWrite (b : Buf) (idx : Int)
  /-- `f[idx]` used as a value before it was stored -/
  | uninitRead (idx : Nat)
  /-- variable length array declared with zero entries -/
  | vlaBound
  /-- a loop ran longer than the model's fuel (never: proved unreachable) -/
  | fuel
deriving DecidableEq, Repr

/-- the objects the function writes to: `freq[].mask`, `hopping[]`, `*hopp_len` -/
structure St where
  freq : List Nat
  hopping : List Nat
  hoppLen : Nat
deriving DecidableEq, Repr

def u8 (x : Nat) : Nat := x % 256

/-- `xs[i]` as an rvalue -/
def rd {α : Type} (b : Buf) (xs : List α) (i : Nat) : Except Fault α :=
  match xs[i]? with
  | some v => pure v
  | none => throw (.oobRead b i)

/-- `xs[k]` with a C `int` index expression -/
def rdI {α : Type} (b : Buf) (xs : List α) (k : Int) : Except Fault α :=
  if k < 0 then throw (.oobRead b k) else
  match xs[k.toNat]? with
  | some v => pure v
  | none => throw (.oobRead b k)

/-- `xs[i] = v` -/
def wr {α : Type} (b : Buf) (xs : List α) (i : Nat) (v : α) : Except Fault (List α) :=
  if i < xs.length then pure (xs.set i v) else throw (.oobWrite b i)

/-- `f[i]` used as a value -/
def rdInit (f : List (Option Nat)) (i : Nat) : Except Fault Nat :=
  match f[i]? with
  | some (some v) => pure v
  | some none => throw (.uninitRead i)
  | none => throw (.oobRead .f i)

/-- `mask & ~FREQ_TYPE_HOPP` stored back into a `uint8_t` (`~` on the promoted `int`) -/
def clearHopp (m : Nat) : Nat := u8 m &&& (255 ^^^ u8 freqTypeHopp)

/-- `mask | FREQ_TYPE_HOPP` stored back into a `uint8_t` -/
def setHopp (m : Nat) : Nat := u8 (m ||| freqTypeHopp)

/-- `mask & FREQ_TYPE_SERV` is non-zero -/
def isServ (m : Nat) : Bool := m &&& freqTypeServ != 0

/-- `for (i = 0; i < 1024; i++) freq[i].mask &= ~FREQ_TYPE_HOPP;` -/
def clearLoop : Nat → Nat → List Nat → Except Fault (List Nat)
  | 0, i, freq => if i < 1024 then throw .fuel else pure freq
  | fuel + 1, i, freq =>
    if i < 1024 then do
      let m ← rd .freq freq i
      let freq ← wr .freq freq i (clearHopp m)
      clearLoop fuel (i + 1) freq
    else pure freq

/-- `for (i = 1; i <= 1024 && j < (len << 3); i++) if (freq[i & 1023].mask & FREQ_TYPE_SERV) f[j++] = i & 1023;`
(`len8` is `len << 3`) -/
def scanLoop (freq : List Nat) (len8 : Nat) :
    Nat → Nat → List (Option Nat) → Nat → Except Fault (List (Option Nat) × Nat)
  | 0, i, f, j => if i ≤ 1024 ∧ j < len8 then throw .fuel else pure (f, j)
  | fuel + 1, i, f, j =>
    if i ≤ 1024 ∧ j < len8 then do
      let m ← rd .freq freq (i &&& 1023)
      if isServ m then
        -- LOGP(DRR, LOGL_INFO, "Serving cell ARFCN #%d: %d\n", j, i & 1023);
        let f ← wr .f f j (some (i &&& 1023))
        scanLoop freq len8 fuel (i + 1) f (j + 1)
      else
        scanLoop freq len8 fuel (i + 1) f j
    else pure (f, j)

/-- the bitmap walk:
`for (i = 0; i < (len << 3); i++) if (ma[len - 1 - (i >> 3)] & (1 << (i & 7))) { … }` -/
def walkLoop (ma : List Nat) (len : Nat) (f : List (Option Nat)) (j : Nat) (si4 : Bool) :
    Nat → Nat → St → Except Fault St
  | 0, i, st => if i < len <<< 3 then throw .fuel else pure st
  | fuel + 1, i, st =>
    if i < len <<< 3 then do
      let o ← rdI .ma ma ((len : Int) - 1 - ((i >>> 3 : Nat) : Int))
      if o &&& (1 <<< (i &&& 7)) != 0 then
        -- LOGP(DRR, LOGL_INFO, "Hopping ARFCN: %d (bit %d)\n", i, f[i]);  (value only logged)
        let _ ← rd .f f i
        if i ≥ j then
          -- LOGP(DRR, LOGL_NOTICE, "... exceeds maximum number of cell frequencies"); break;
          pure st
        else do
          let v ← rdInit f i
          let hopping ← wr .hopping st.hopping st.hoppLen v
          let st : St := { st with hopping := hopping, hoppLen := u8 (st.hoppLen + 1) }
          if si4 then
            let v ← rdInit f i
            let m ← rd .freq st.freq v
            let freq ← wr .freq st.freq v (setHopp m)
            walkLoop ma len f j si4 fuel (i + 1) { st with freq := freq }
          else
            walkLoop ma len f j si4 fuel (i + 1) st
      else
        walkLoop ma len f j si4 fuel (i + 1) st
    else pure st

/-- loop fuel: more than any of the three loops can use -/
def loopFuel : Nat := 2048

/-- `gsm48_decode_mobile_alloc(freq, ma, len, hopping, hopp_len, si4)`:
return code and the final contents of the caller's objects -/
def decode (freq ma : List Nat) (len : Nat) (hopping : List Nat) (hoppLen : Nat) (si4 : Bool) :
    Except Fault (Int × St) := do
  -- uint16_t f[...];
  if fIsVla && fCap len == 0 then throw .vlaBound
  let f : List (Option Nat) := List.replicate (fCap len) none
  -- if (len > 8) return -EINVAL;
  if len > 8 then
    return (-(einval : Int), { freq := freq, hopping := hopping, hoppLen := hoppLen })
  -- *hopp_len = 0;
  let hoppLen := 0
  -- if (si4) { for (...) freq[i].mask &= ~FREQ_TYPE_HOPP; }
  let freq ← if si4 then clearLoop loopFuel 0 freq else pure freq
  let (f, j) ← scanLoop freq (len <<< 3) loopFuel 1 f 0
  let st ← walkLoop ma len f j si4 loopFuel 0 { freq := freq, hopping := hopping, hoppLen := hoppLen }
  return (0, st)

end OsmoVerif.MobileAlloc
