/-
Model of the two Synchronisation-Burst decoders, statement by statement, with C widths:
  * firmware `static uint8_t l1s_decode_sb(struct gsm_time *time, uint32_t sb)`
      (src/target/firmware/layer1/prim_fbsb.c)
  * trxcon   `static void decode_sb(struct gsm_time *time, uint8_t *bsic, uint8_t *sb_info)`
      (src/host/trxcon/src/sched_lchan_sch.c)
Both end with a call of `gsm_gsmtime2fn` = `GsmTime.cGsmTime2Fn` (the model of C19, not a copy).

C types: `int` is 32 bit two's complement, `uint32_t` is `unsigned int` (so a `uint32_t` operand is NOT promoted, and
`uint32_t op int` is evaluated in `uint32_t`), `uint8_t`/`uint16_t` operands are promoted to `int`.
A left shift of a non-negative `int` whose result is not representable in `int` is undefined behaviour (C11 6.5.7p4):
that outcome is a value of the model (`Ub.shlInt`), it is never replaced by a number.
-/
import OsmoVerif.Model.GsmTime

namespace OsmoVerif.SchDecode
open OsmoVerif.GsmTime

/-- undefined behaviour of a C expression (no value) -/
inductive Ub where
  /-- `a << k` evaluated in `int`: `a · 2^k` is not representable -/
  | shlInt (a k : Nat)
deriving DecidableEq, Repr

/-- outcomes can be compared: needed to evaluate closed instances by `decide` -/
instance instDecEqExceptUb {α : Type} [DecidableEq α] : DecidableEq (Except Ub α)
  | .ok a, .ok b => if h : a = b then isTrue (by rw [h]) else isFalse (by intro e; cases e; exact h rfl)
  | .error a, .error b => if h : a = b then isTrue (by rw [h]) else isFalse (by intro e; cases e; exact h rfl)
  | .ok _, .error _ => isFalse (by intro e; cases e)
  | .error _, .ok _ => isFalse (by intro e; cases e)

/-- `a << k` where `a` is a non-negative value of type `int` (e.g. a promoted `uint8_t`) and `k < 32` -/
def shlInt (a k : Nat) : Except Ub Nat :=
  if a <<< k < 2147483648 then .ok (a <<< k) else .error (.shlInt a k)

/-- `a << k` in `uint32_t`: reduced modulo 2^32 (C11 6.5.7p4, unsigned) -/
def shlU32 (a k : Nat) : Nat := u32 (a <<< k)

/-- all-zero `struct gsm_time` (`memset(time, 0, sizeof(*time))`) -/
def zeroTime : GsmTime := ⟨0, 0, 0, 0, 0⟩

/-- result of a decoder: the BSIC and the `struct gsm_time` it leaves behind -/
structure SbOut where
  bsic : Nat
  time : GsmTime
deriving DecidableEq, Repr

/-- `l1s_decode_sb(time, sb)`; returns the BSIC, `*time` is completely rewritten. -/
def fwDecodeSb (sb : Nat) : SbOut :=
  let sb := u32 sb                                    -- parameter of type uint32_t
  let bsic := u8 ((sb >>> 2) &&& 0x3f)                -- uint8_t bsic = (sb >> 2) & 0x3f;
  let time := zeroTime                                -- memset(time, 0, sizeof(*time));
  -- time->t1 = ((sb >> 23) & 1) | ((sb >> 7) & 0x1fe) | ((sb << 9) & 0x600);      (uint32_t value stored in uint16_t)
  let time := { time with
    t1 := u16 (((sb >>> 23) &&& 1) ||| ((sb >>> 7) &&& 0x1fe) ||| ((shlU32 sb 9) &&& 0x600)) }
  let time := { time with t2 := u8 ((sb >>> 18) &&& 0x1f) }   -- time->t2 = (sb >> 18) & 0x1f;
  let t3p := u8 (((sb >>> 24) &&& 1) ||| ((sb >>> 15) &&& 6)) -- t3p = ((sb >> 24) & 1) | ((sb >> 15) & 6);
  let time := { time with t3 := u8 (t3p * 10 + 1) }   -- time->t3 = t3p*10 + 1;     (int arithmetic, stored in uint8_t)
  let time := { time with fn := cGsmTime2Fn time }    -- time->fn = gsm_gsmtime2fn(time);
  let time := { time with tc := u8 (time.fn / 51 % 8) } -- time->tc = (time->fn / 51) % 8;   (uint32_t arithmetic)
  { bsic := bsic, time := time }                      -- return bsic;

/-- `sb = ((uint32_t)sb_info[3] << 24) | (sb_info[2] << 16) | (sb_info[1] << 8) | sb_info[0];`
The first shift is a `uint32_t` shift (the cast), the other two are `int` shifts of the promoted octets; `|` associates to
the left and converts each `int` operand to `uint32_t` (non-negative, so the value is kept). -/
def trxAssemble (o0 o1 o2 o3 : Nat) : Except Ub Nat := do
  let a := shlU32 (u32 o3) 24
  let b ← shlInt o2 16
  let c ← shlInt o1 8
  pure (u32 (((a ||| u32 b) ||| u32 c) ||| u32 o0))

/-- `decode_sb(time, bsic, sb_info)` on the octets `sb_info[0..3]` (`uint8_t`, each `< 256`); `time` is the caller's struct
(in `rx_sch_fn` an uninitialised local): only `t1`, `t2`, `t3`, `fn` are written, `tc` keeps what it held. -/
def trxDecodeSb (time : GsmTime) (o0 o1 o2 o3 : Nat) : Except Ub SbOut := do
  let sb ← trxAssemble o0 o1 o2 o3
  let bsic := u8 ((sb >>> 2) &&& 0x3f)                -- *bsic = (sb >> 2) & 0x3f;
  -- time->t1 = ((sb >> 23) & 0x01) | ((sb >> 7) & 0x1fe) | ((sb << 9) & 0x600);
  let time := { time with
    t1 := u16 (((sb >>> 23) &&& 0x01) ||| ((sb >>> 7) &&& 0x1fe) ||| ((shlU32 sb 9) &&& 0x600)) }
  let time := { time with t2 := u8 ((sb >>> 18) &&& 0x1f) }        -- time->t2 = (sb >> 18) & 0x1f;
  let t3p := u8 (((sb >>> 24) &&& 0x01) ||| ((sb >>> 15) &&& 0x06)) -- t3p = ((sb >> 24) & 0x01) | ((sb >> 15) & 0x06);
  let time := { time with t3 := u8 (t3p * 10 + 1) }   -- time->t3 = t3p * 10 + 1;
  let time := { time with fn := cGsmTime2Fn time }    -- time->fn = gsm_gsmtime2fn(time);
  pure { bsic := bsic, time := time }

end OsmoVerif.SchDecode
