/-
Model of the serial link framing layer
  src/target/firmware/comm/sercomm.c      (sercomm_sendmsg, sercomm_drv_pull, sercomm_register_rx_cb,
                                           dispatch_rx_msg, sercomm_drv_rx_char, sercomm_init)
  src/target/firmware/include/comm/sercomm.h   (sercomm_alloc_msgb)
  src/shared/libosmocore/include/osmocom/core/msgb.h, src/msgb.c
                                          (msgb_put / msgb_tailroom / msgb_enqueue / msgb_dequeue)
statement by statement.  Octets are `Nat` (the driver only feeds values < 256; the width of
the one arithmetic operation, `^= (1 << 5)` on a `uint8_t`, is explicit).  A msgb is the list
of octets between `data` and `tail`; its capacity is a parameter (`cap` = what
`msgb_tailroom` returns for a fresh `sercomm_alloc_msgb(SERCOMM_RX_MSG_SIZE)`).
Constants come from the regenerated `Gen.Sercomm`.
Not modelled: allocation failure (`sercomm_alloc_msgb` returning NULL), the lock/unlock
pairs (the model's steps are the atomic sections), the UART.
-/
import OsmoVerif.Gen.Sercomm

namespace OsmoVerif.Sercomm
open OsmoVerif.Gen.Sercomm

/-- `enum rx_state` (used for `rx.state` and, with two of its values, for `tx.state`) -/
inductive St where
  | waitStart | addr | ctrl | data | escape
deriving DecidableEq, Repr

/-- the enum's numeric values, for the tie with `Gen` (a zeroed `sercomm` struct is in the state of value 0) -/
def St.code : St → Nat
  | .waitStart => stWaitStart | .addr => stAddr | .ctrl => stCtrl | .data => stData | .escape => stEscape

/-- contents of a `struct msgb`: the octets from `data` to `tail` -/
abbrev Buf := List Nat

def u8 (x : Nat) : Nat := x % 256

/-! ## Transmit side -/

/-- `sercomm.tx` -/
structure Tx where
  /-- `dlci_queues[_SC_DLCI_MAX]`, each a FIFO of queued msgbs -/
  queues : List (List Buf)
  /-- `tx.msg` (`none` = NULL); for a message in transmission: the octets from `tx.next_char` to `tx.msg->tail` -/
  msg : Option Buf
  /-- `tx.state` -/
  state : St
deriving Repr

/-- after `sercomm_init()` on the zeroed static struct: `nq` empty queues -/
def Tx.init (nq : Nat) : Tx := ⟨List.replicate nq [], none, .waitStart⟩

/-- `sercomm_sendmsg(dlci, msg)`: `hdr = msgb_push(msg, 2); hdr[0] = dlci; hdr[1] = HDLC_C_UI;`
`msgb_enqueue(&sercomm.tx.dlci_queues[dlci], msg)`.  The array index is not checked by the code:
`none` is the undefined behaviour of an index beyond the array.  (The caller's msgb has headroom
≥ 2 when it comes from `sercomm_alloc_msgb`: `Gen.allocHeadroom`.) -/
def sendmsg (t : Tx) (dlci : Nat) (payload : Buf) : Option Tx :=
  if dlci < t.queues.length then
    some { t with queues := t.queues.modify dlci (· ++ [dlci :: hdlcCUi :: payload]) }
  else none

/-- the dequeue loop of `sercomm_drv_pull`:
`for (i = 0; i < ARRAY_SIZE(queues); i++) { msg = msgb_dequeue(&queues[i]); if (msg) break; }` -/
def dequeueFirst : List (List Buf) → Option (Buf × List (List Buf))
  | [] => none
  | [] :: qs =>
    match dequeueFirst qs with
    | some (m, qs') => some (m, [] :: qs')
    | none => none
  | (m :: q) :: qs => some (m, q :: qs)

/-- the three comparisons that make `sercomm_drv_pull` escape an octet -/
def needsEscape (c : Nat) : Bool := c == hdlcFlag || c == hdlcEscape || c == 0x00

/-- result of one `sercomm_drv_pull(&ch)`: return value 0, or 1 with `*ch`;
`fault`: `*next_char` read at or beyond `tail` -/
inductive Pull where
  | empty | octet (c : Nat) | fault
deriving DecidableEq, Repr

/-- `sercomm_drv_pull` -/
def pull (t : Tx) : Tx × Pull :=
  match t.msg with
  | none =>
    -- dequeue a new message from the queues
    match dequeueFirst t.queues with
    | some (m, qs) =>
      -- start of a new message, send start flag octet; next_char = msg->data
      ({ t with queues := qs, msg := some m }, .octet hdlcFlag)
    | none => (t, .empty)
  | some rest =>
    if t.state = .escape then
      -- we've already transmitted the ESCAPE octet: *ch = *next_char++
      match rest with
      | c :: rest' => ({ t with msg := some rest', state := .data }, .octet c)
      | [] => (t, .fault)
    else
      match rest with
      | [] =>
        -- next_char >= tail: end-of-message octet, msgb_free, tx.msg = NULL
        ({ t with msg := none }, .octet hdlcFlag)
      | c :: rest' =>
        if needsEscape c then
          -- send an escape octet, invert bit 5 of the next octet in place
          ({ t with msg := some (u8 (c ^^^ txEscXor) :: rest'), state := .escape }, .octet hdlcEscape)
        else
          ({ t with msg := some rest' }, .octet c)

/-- up to `n` calls of `sercomm_drv_pull`, stopping at the first one that does not return an octet:
the octets obtained -/
def pullN : Nat → Tx → Tx × List Nat
  | 0, t => (t, [])
  | n + 1, t =>
    match pull t with
    | (t', .octet c) => let (t'', cs) := pullN n t'; (t'', c :: cs)
    | (t', _) => (t', [])

/-! ## Receive side -/

/-- `sercomm.rx` (the handler table is a parameter of the step function) -/
structure Rx where
  /-- `rx.msg`: NULL, or the octets stored so far -/
  msg : Option Buf
  state : St
  dlci : Nat
  ctrl : Nat
  /-- `msgb_put` was called without tailroom (`MSGB_ABORT` → `osmo_panic`; without `MSGB_DEBUG`
  a write beyond the buffer) -/
  abort : Bool
deriving DecidableEq, Repr

/-- zeroed static struct, `sercomm_init` sets `rx.msg = NULL` -/
def Rx.init : Rx := ⟨none, .waitStart, 0, 0, false⟩

/-- what `sercomm_drv_rx_char` makes observable -/
inductive Ev where
  /-- `sercomm.rx.dlci_handler[dlci](dlci, msg)` was called -/
  | deliver (dlci : Nat) (payload : Buf)
  /-- the call returned 0 (no tailroom: buffer dropped, state reset) -/
  | overflow
deriving DecidableEq, Repr

/-- configuration of a receiver: buffer capacity, size of the handler table, which entries are
non-NULL -/
structure RxCfg where
  cap : Nat
  nh : Nat
  reg : Nat → Bool

/-- `dispatch_rx_msg(dlci, msg)`: free the message if `dlci >= ARRAY_SIZE(handler) || !handler[dlci]`,
else call the handler -/
def dispatch (c : RxCfg) (dlci : Nat) (msg : Buf) : List Ev :=
  if dlci ≥ c.nh || !c.reg dlci then [] else [.deliver dlci msg]

/-- `msgb_put(msg, 1); *ptr = ch` on a buffer of capacity `cap`; `none`: no tailroom -/
def msgbPut (cap : Nat) (b : Buf) (ch : Nat) : Option Buf :=
  if b.length < cap then some (b ++ [ch]) else none

/-- `sercomm_drv_rx_char(ch)` -/
def rxChar (c : RxCfg) (r : Rx) (ch : Nat) : Rx × List Ev :=
  -- if (!rx.msg) rx.msg = sercomm_alloc_msgb(SERCOMM_RX_MSG_SIZE)
  let buf : Buf := match r.msg with | some b => b | none => []
  -- if (msgb_tailroom(rx.msg) == 0) { free; alloc; state = WAIT_START; return 0; }
  if buf.length = c.cap then
    ({ r with msg := some [], state := .waitStart }, [.overflow])
  else
    match r.state with
    | .waitStart =>
      if ch ≠ hdlcFlag then ({ r with msg := some buf }, [])
      else ({ r with msg := some buf, state := .addr }, [])
    | .addr => ({ r with msg := some buf, dlci := ch, state := .ctrl }, [])
    | .ctrl => ({ r with msg := some buf, ctrl := ch, state := .data }, [])
    | .data =>
      if ch = hdlcEscape then
        ({ r with msg := some buf, state := .escape }, [])
      else if ch = hdlcFlag then
        -- message is finished: dispatch, rx.msg = NULL, start all over again
        ({ r with msg := none, state := .waitStart }, dispatch c r.dlci buf)
      else
        match msgbPut c.cap buf ch with
        | some b => ({ r with msg := some b }, [])
        | none => ({ r with msg := some buf, abort := true }, [])
    | .escape =>
      -- ch ^= (1 << 5); store; back to DATA
      match msgbPut c.cap buf (u8 (ch ^^^ rxEscXor)) with
      | some b => ({ r with msg := some b, state := .data }, [])
      | none => ({ r with msg := some buf, abort := true }, [])

/-- a stream of octets through `sercomm_drv_rx_char`, one call per octet -/
def feed (c : RxCfg) (r : Rx) : List Nat → Rx × List Ev
  | [] => (r, [])
  | ch :: rest =>
    let (r1, e1) := rxChar c r ch
    let (r2, e2) := feed c r1 rest
    (r2, e1 ++ e2)

/-- number of octets stored in `rx.msg` -/
def Rx.len (r : Rx) : Nat := match r.msg with | some b => b.length | none => 0

/-! ## Both sides and the wire (what the harness drives) -/

/-- operations of a history -/
inductive Op where
  /-- `sercomm_sendmsg(dlci, msg)` with a msgb holding `payload` -/
  | send (dlci : Nat) (payload : Buf)
  /-- one `sercomm_drv_pull`, the octet goes nowhere -/
  | pull
  /-- one `sercomm_drv_pull`; an octet obtained is passed to `sercomm_drv_rx_char` -/
  | loop
  /-- octets from elsewhere passed to `sercomm_drv_rx_char` -/
  | rx (octets : List Nat)
deriving Repr

/-- observable trace entries -/
inductive Obs where
  | pulled (c : Nat)
  | pullEmpty
  | ev (e : Ev)
deriving DecidableEq, Repr

structure World where
  tx : Tx
  rx : Rx
  /-- observations, newest first -/
  trace : List Obs
  /-- `sercomm_sendmsg` indexed beyond the queue array, or `sercomm_drv_pull` read beyond the tail -/
  fault : Bool
deriving Repr

/-- full configuration: receiver + which handler entries are `sercomm_sendmsg` itself (the echo DLCI
that `sercomm_init` registers) -/
structure Cfg extends RxCfg where
  echo : Nat → Bool

def World.init (nq : Nat) : World := ⟨Tx.init nq, Rx.init, [], false⟩

/-- a handler that is `sercomm_sendmsg` re-queues what it is given -/
def applyEcho (c : Cfg) (w : World) : List Ev → World
  | [] => w
  | .deliver d p :: es =>
    if c.echo d then
      match sendmsg w.tx d p with
      | some t => applyEcho c { w with tx := t } es
      | none => applyEcho c { w with fault := true } es
    else applyEcho c { w with trace := .ev (.deliver d p) :: w.trace } es
  | .overflow :: es => applyEcho c { w with trace := .ev .overflow :: w.trace } es

/-- one octet into the receiver, callbacks executed -/
def World.rxOctet (c : Cfg) (w : World) (ch : Nat) : World :=
  let (r, es) := rxChar c.toRxCfg w.rx ch
  applyEcho c { w with rx := r } es

def World.step (c : Cfg) (w : World) : Op → World
  | .send d p =>
    match sendmsg w.tx d p with
    | some t => { w with tx := t }
    | none => { w with fault := true }
  | .pull =>
    match pull w.tx with
    | (t, .octet ch) => { w with tx := t, trace := .pulled ch :: w.trace }
    | (t, .empty) => { w with tx := t, trace := .pullEmpty :: w.trace }
    | (t, .fault) => { w with tx := t, fault := true }
  | .loop =>
    match pull w.tx with
    | (t, .octet ch) => World.rxOctet c { w with tx := t, trace := .pulled ch :: w.trace } ch
    | (t, .empty) => { w with tx := t, trace := .pullEmpty :: w.trace }
    | (t, .fault) => { w with tx := t, fault := true }
  | .rx octets => octets.foldl (World.rxOctet c) w

def World.run (c : Cfg) (w : World) (ops : List Op) : World := ops.foldl (World.step c) w

/-! ## The handler table -/

/-- a non-NULL entry of `sercomm.rx.dlci_handler[]`: a user callback, or `sercomm_sendmsg` itself -/
inductive Handler where
  | user | echo
deriving DecidableEq, Repr

/-- `sercomm.rx.dlci_handler[_SC_DLCI_MAX]` -/
abbrev HandlerTab := List (Option Handler)

/-- `sercomm_register_rx_cb(dlci, cb)`: `-EINVAL` beyond the table, `-EBUSY` if the entry is set -/
def registerCb (tab : HandlerTab) (dlci : Nat) (h : Handler) : HandlerTab × Int :=
  if dlci ≥ tab.length then (tab, -22)
  else match tab[dlci]? with
    | some (some _) => (tab, -16)
    | _ => (tab.set dlci (some h), 0)

/-- `sercomm_init()`: empty table, then the echo DLCI is registered with `sercomm_sendmsg` -/
def HandlerTab.init (nh : Nat) : HandlerTab := (registerCb (List.replicate nh none) dlciEcho .echo).1

def HandlerTab.cfg (tab : HandlerTab) (cap : Nat) : Cfg :=
  { cap := cap, nh := tab.length,
    reg := fun d => match tab[d]? with | some (some _) => true | _ => false,
    echo := fun d => match tab[d]? with | some (some .echo) => true | _ => false }

/-- `n` times `pull` (or `loop`), stopping after the first call that returns 0 (as the harness does) -/
def World.stepN (c : Cfg) (op : Op) : Nat → World → World
  | 0, w => w
  | n + 1, w =>
    match pull w.tx with
    | (_, .octet _) => World.stepN c op n (World.step c w op)
    | _ => World.step c w op

/-- the observations in chronological order -/
def World.obs (w : World) : List Obs := w.trace.reverse

/-- the callbacks among the observations -/
def deliveries : List Obs → List (Nat × Buf)
  | [] => []
  | .ev (.deliver d p) :: os => (d, p) :: deliveries os
  | _ :: os => deliveries os

/-- the octets pulled among the observations -/
def pulledOctets : List Obs → List Nat
  | [] => []
  | .pulled c :: os => c :: pulledOctets os
  | _ :: os => pulledOctets os

end OsmoVerif.Sercomm
