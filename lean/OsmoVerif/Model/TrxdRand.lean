/-
Executable model of the message generators of
  src/target/trx_toolkit/data_msg.py
    Msg.rand_fn / rand_tn / rand_hdr
    TxMsg.rand_pwr(min, max) / rand_hdr / rand_burst(length = GMSK_BURST_LEN)
    RxMsg.rand_rssi(min, max) / rand_toa256(min, max) / rand_hdr / rand_burst(length = None)
statement by statement, as functions of the random source.  The toolkit's own tests (test_data_msg.py, test_data_dump.py)
and burst_gen.py build every message they encode with these functions.

The random source.  data_msg.py calls `random.randint(a, b)` and `random.choice(seq)` only.  CPython defines
  randint(a, b) = randrange(a, b + 1) = a + _randbelow(b - a + 1)        ValueError when b < a (nothing is drawn)
  choice(seq)   = seq[_randbelow(len(seq))]                              IndexError when seq is empty (nothing is drawn)
so the source is modelled as the stream of values `_randbelow(n)` returns, consumed in call order (`below`): each call
pops one value `k` and records the pair (n asked, k answered) in the log.  A conforming answer has `k < n`
(<=> randint(a, b) ∈ [a, b], choice index in range: `Draw.Ok`); the model returns `a + k` / `seq[k]` for EVERY k, so a
non-conforming stream shows what the code does with it (a value outside [a, b]; IndexError from `seq[k]`).  The harness
(harness/py/trxd_rand_harness.py) installs exactly this scripted `_randbelow` under CPython's own randint/choice in
place of `data_msg.random`, so model and code see the same draws; the Mersenne twister itself is environment.
A stream that runs dry is the explicit outcome `Fail.dry` (never a default value).

Python semantics used
  `min = self.X_MIN if min is None`     the default of the keyword argument (this is the code's own default)
  `[f() for _ in range(length)]`        `length` calls in order; `range` of a negative number is empty
  `bytearray([..])`                     ValueError unless every element is in range(0, 256)   (after all draws were made)
  `array('b', [..])`                    OverflowError unless every element is in -128..127      (after all draws were made)
  `self.mod_type.bl` with mod_type None AttributeError (before anything is drawn)
  `self.mod_type is Modulation.ModGMSK` identity of enum members = equality of members
An exception leaves the object as it was: every modelled function assigns its attributes after its last call that can
raise, except `rand_hdr` on a stream that runs dry (an artefact of scripting, not a behaviour of the code).

Bounds (`GSM_HYPERFRAME`, `PWR_MIN/MAX`, `RSSI_MIN/MAX`, `TOA256_MIN/MAX`, `CI_MIN/MAX`, `TSC_RANGE`, `list(Modulation)`,
`GMSK_BURST_LEN`) come from the regenerated `Gen.Trxd`; the literals of the code (TN 0..7, TSC set 0..3 / 0..1, hard bits
0..1, soft bits -127..127) are written here and tied by the log comparison.  No Mathlib.
-/
import OsmoVerif.Model.Trxd

namespace OsmoVerif.TrxdRand
open OsmoVerif.Trxd OsmoVerif.Gen

/-- one call `_randbelow(n)` of the random source: the size `n` of the set the code asked a member of, the answer `k` -/
structure Draw where
  n : Nat
  k : Nat
deriving DecidableEq, Repr

/-- the answer respects the range the code asked for: `randint(a, b) ∈ [a, b]`, `choice` index `< len(seq)` -/
def Draw.Ok (d : Draw) : Prop := d.k < d.n

instance (d : Draw) : Decidable d.Ok := by unfold Draw.Ok; infer_instance

/-- what a generator call can end with other than a result: the scripted stream ran dry, or a Python exception -/
inductive Fail
  | dry | valueError | indexError | attributeError | overflowError
deriving DecidableEq, Repr

/-- `type(e).__name__` (`dry` for the exhausted script) -/
def Fail.pyName : Fail → String
  | .dry => "dry"
  | .valueError => "ValueError"
  | .indexError => "IndexError"
  | .attributeError => "AttributeError"
  | .overflowError => "OverflowError"

/-- the random source: the answers still to come, and the calls made so far (in call order) -/
structure Src where
  stream : List Nat
  log : List Draw
deriving DecidableEq, Repr

/-- a fresh source with the given answers -/
def Src.start (stream : List Nat) : Src := ⟨stream, []⟩

/-- every answer given so far respected the range the code asked for -/
def Src.Conforms (s : Src) : Prop := ∀ d ∈ s.log, d.Ok

instance (s : Src) : Decidable s.Conforms := by unfold Src.Conforms; infer_instance

inductive Res (α : Type)
  | ok (v : α)
  | fail (f : Fail)
deriving DecidableEq, Repr

/-- a computation that consumes the random source -/
def Rand (α : Type) : Type := Src → Res α × Src

instance : Monad Rand where
  pure a := fun s => (.ok a, s)
  bind x f := fun s =>
    match x s with
    | (.ok a, s') => f a s'
    | (.fail e, s') => (.fail e, s')

/-- `g`, run on a fresh random source whose answers are `stream`, ends normally with `r`, and every answer given
respected the range the code asked for -/
def Yields {α : Type} (g : Rand α) (stream : List Nat) (r : α) : Prop :=
  ∃ s', g (Src.start stream) = (.ok r, s') ∧ s'.Conforms

/-- `raise` -/
def raise {α : Type} (f : Fail) : Rand α := fun s => (.fail f, s)

/-- `_randbelow(n)`: the next answer of the source; the call is recorded -/
def below (n : Nat) : Rand Nat := fun s =>
  match s.stream with
  | [] => (.fail .dry, s)
  | k :: rest => (.ok k, ⟨rest, s.log ++ [⟨n, k⟩]⟩)

/-- `random.randint(a, b)` -/
def randint (a b : Int) : Rand Int :=
  if b < a then raise .valueError else do
    let k ← below (b - a + 1).toNat
    pure (a + (k : Int))

/-- `random.choice(seq)` -/
def choice {α : Type} (seq : List α) : Rand α :=
  if seq.isEmpty then raise .indexError else do
    let k ← below seq.length
    match seq[k]? with
    | some x => pure x
    | none => raise .indexError

/-- `[random.randint(a, b) for _ in range(n)]` -/
def randints (a b : Int) : Nat → Rand (List Int)
  | 0 => pure []
  | n + 1 => do
    let v ← randint a b
    let vs ← randints a b n
    pure (v :: vs)

/-- a keyword argument with default `None`: `if arg is None: arg = dflt` -/
def argOr (arg : Option Int) (dflt : Int) : Int :=
  match arg with
  | none => dflt
  | some v => v

/-! ### Msg -/

/-- `Msg.rand_fn()` -/
def randFn : Rand Int := randint 0 (Gen.Trxd.gsmHyperframe - 1)

/-- `Msg.rand_tn()` -/
def randTn : Rand Int := randint 0 7

/-! ### TxMsg -/

/-- `TxMsg.rand_pwr(min = None, max = None)` -/
def randPwr (min max : Option Int) : Rand Int :=
  randint (argOr min Gen.Trxd.pwrMin) (argOr max Gen.Trxd.pwrMax)

/-- `TxMsg.rand_hdr()`: `Msg.rand_hdr(self)` (fn, tn), then `self.pwr = self.rand_pwr()`.
`ver` and `burst` are not touched. -/
def _root_.OsmoVerif.Trxd.TxMsg.randHdr (m : TxMsg) : Rand TxMsg := do
  let fn ← randFn
  let tn ← randTn
  let pwr ← randPwr none none            -- self.rand_pwr()
  pure { m with fn := some fn, tn := some tn, pwr := some pwr }

/-- the default of `TxMsg.rand_burst(length = GMSK_BURST_LEN)` -/
def txBurstDefault : Int := Gen.Trxd.gmskBurstLen

/-- `TxMsg.rand_burst(length)` (`length = GMSK_BURST_LEN` when the caller gives none: `txBurstDefault`):
`self.burst = bytearray([random.randint(0, 1) for _ in range(length)])` -/
def _root_.OsmoVerif.Trxd.TxMsg.randBurst (m : TxMsg) (length : Int) : Rand TxMsg := do
  let bits ← randints 0 1 length.toNat
  if bits.all (fun v => decide (0 ≤ v ∧ v < 256)) then
    pure { m with burst := some (bits.map Int.toNat) }
  else raise .valueError

/-! ### RxMsg -/

/-- `RxMsg.rand_rssi(min = None, max = None)` -/
def randRssi (min max : Option Int) : Rand Int :=
  randint (argOr min Gen.Trxd.rssiMin) (argOr max Gen.Trxd.rssiMax)

/-- `RxMsg.rand_toa256(min = None, max = None)` -/
def randToa256 (min max : Option Int) : Rand Int :=
  randint (argOr min Gen.Trxd.toa256Min) (argOr max Gen.Trxd.toa256Max)

/-- `RxMsg.rand_hdr()`: `Msg.rand_hdr(self)` (fn, tn), rssi, toa256, and `if self.ver >= 0x01:` mod_type, tsc_set (0..3
for GMSK, 0..1 otherwise), tsc, ci.  `ver`, `nope_ind` and `burst` are not touched; below version 1 neither are
mod_type, tsc_set, tsc, ci. -/
def _root_.OsmoVerif.Trxd.RxMsg.randHdr (m : RxMsg) : Rand RxMsg := do
  let fn ← randFn
  let tn ← randTn
  let rssi ← randRssi none none          -- self.rand_rssi()
  let toa ← randToa256 none none         -- self.rand_toa256()
  let m := { m with fn := some fn, tn := some tn, rssi := some rssi, toa256 := some toa }
  if m.ver ≥ 1 then
    let mod ← choice Modulation.all
    let set ← (if mod = Modulation.gmsk then randint 0 3 else randint 0 1 : Rand Int)
    let tsc ← choice Gen.Trxd.tscRange
    let ci ← randint Gen.Trxd.ciMin Gen.Trxd.ciMax
    pure { m with modType := some mod, tscSet := some set, tsc := some tsc, ci := some ci }
  else
    pure m

/-- the first statement of `RxMsg.rand_burst`: `if length is None: length = self.mod_type.bl` -/
def _root_.OsmoVerif.Trxd.RxMsg.burstLength (m : RxMsg) : Option Int → Rand Int
  | some l => pure l
  | none =>
    match m.modType with
    | some mod => pure (mod.bl : Int)
    | none => raise .attributeError

/-- `RxMsg.rand_burst(length)` (`length = None` when the caller gives none): `if length is None: length = self.mod_type.bl`;
`self.burst = array('b', [random.randint(-127, 127) for _ in range(length)])` -/
def _root_.OsmoVerif.Trxd.RxMsg.randBurst (m : RxMsg) (length : Option Int) : Rand RxMsg := do
  let length ← m.burstLength length
  let bits ← randints (-127) 127 length.toNat
  if bits.all (fun v => decide (-128 ≤ v ∧ v ≤ 127)) then
    pure { m with burst := some bits }
  else raise .overflowError

/-! ### call sequences on ONE object (what the tests and tools do: `msg.rand_hdr(); msg.rand_burst()`, in a loop) -/

/-- one generator call on a message object -/
inductive Op
  | hdr                          -- `msg.rand_hdr()`
  | burst (length : Option Int)  -- `msg.rand_burst()` (none) / `msg.rand_burst(length)`
deriving DecidableEq, Repr

def _root_.OsmoVerif.Trxd.TxMsg.randOp (m : TxMsg) : Op → Rand TxMsg
  | .hdr => m.randHdr
  | .burst none => m.randBurst txBurstDefault
  | .burst (some l) => m.randBurst l

def _root_.OsmoVerif.Trxd.RxMsg.randOp (m : RxMsg) : Op → Rand RxMsg
  | .hdr => m.randHdr
  | .burst l => m.randBurst l

/-- the calls of `ops`, in order, on one object -/
def _root_.OsmoVerif.Trxd.TxMsg.randOps (m : TxMsg) : List Op → Rand TxMsg
  | [] => pure m
  | op :: ops => do
    let m ← m.randOp op
    m.randOps ops

def _root_.OsmoVerif.Trxd.RxMsg.randOps (m : RxMsg) : List Op → Rand RxMsg
  | [] => pure m
  | op :: ops => do
    let m ← m.randOp op
    m.randOps ops

/-- `msg.rand_hdr(); msg.rand_burst(length)` — how test_data_msg._test_enc_dec / _test_transform and
test_data_dump prepare a message -/
def _root_.OsmoVerif.Trxd.TxMsg.randMsg (m : TxMsg) (length : Int) : Rand TxMsg := do
  let m ← m.randHdr
  m.randBurst length

def _root_.OsmoVerif.Trxd.RxMsg.randMsg (m : RxMsg) (length : Option Int) : Rand RxMsg := do
  let m ← m.randHdr
  m.randBurst length

end OsmoVerif.TrxdRand
