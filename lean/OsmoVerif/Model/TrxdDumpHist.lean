/-
Histories of operations on ONE capture-file object (`DATADumpFile` of
src/target/trx_toolkit/data_dump.py), on top of `OsmoVerif.Model.TrxdDump`.  No Mathlib.

The object is what `Model/TrxdDump` already has: the byte list and the cursor of `self.f` (`File`) -
the class keeps nothing else between two calls.  A history is a list of operations issued on that one
object; every operation is the modelled method run on the state the previous ones left (content AND
cursor), so whatever a read leaves behind (cursor in the middle of the file, beyond its end, ...) is
what the next operation starts from.

  Op                   `append_msg m` | `append_all ms` | `parse_msg idx` | `parse_all skip count` |
                       `truncate n`   (crash: the file is cut at byte n and opened again - a new object
                                        on the first n octets, cursor at 0)
  Ans                  what the caller sees: `done` (append returned), `raised e` (the method raised),
                       `res r` (parse_msg), `all r` (parse_all; `none` = `False`), `cut`
  appendMsgSt f m      `append_msg(msg)` with the state an exception leaves: (exception?, file)
  appendAllSt f ms     `append_all(msgs)`: the messages before the one that raises are written
  step f op            one operation: (answer, file afterwards); the file is `none` when an exception left
                       a READ method (`struct.error` of `parse_hdr`; proved unreachable in
                       `Lemmas/TrxdDumpHist`): the cursor is then not modelled and the run stops
  runHist f ops        (answers, file at the end)

The specification side (`specStep`/`specHist`): the answers a history must give if results depend on the
stored bytes only - every read is answered by a FRESH reader (cursor 0, nothing remembered) on the
current content, an append adds `dump_msg(m)` at the end of the content, a crash keeps the first n octets.
-/
import OsmoVerif.Model.TrxdDump

namespace OsmoVerif.TrxdDump
open OsmoVerif OsmoVerif.Trxd

inductive Op
  | appendMsg (m : Msg)
  | appendAll (ms : List Msg)
  | parseMsg (idx : Nat)
  | parseAll (skip count : Option Nat)
  | truncate (n : Nat)
deriving DecidableEq, Repr

inductive Ans
  | done
  | raised (e : Exc)
  | res (r : Res)
  | all (r : Option (List Msg))
  | cut
deriving DecidableEq, Repr

/-- `append_msg(msg)` together with the state it leaves when `dump_msg` raises: the `seek(0, 2)` has
happened, nothing was written -/
def appendMsgSt (f : File) (m : Msg) : Option Exc × File :=
  let f := f.seekEnd
  match dumpMsg m with
  | .error e => (some e, f)
  | .ok raw => (none, f.write raw)

/-- `append_all(msgs)`: `for msg in msgs: self.append_msg(msg)`; an exception leaves the loop -/
def appendAllSt (f : File) : List Msg → Option Exc × File
  | [] => (none, f)
  | m :: ms =>
    match appendMsgSt f m with
    | (some e, f) => (some e, f)
    | (none, f) => appendAllSt f ms

/-- one operation on the object -/
def step (f : File) : Op → Ans × Option File
  | .appendMsg m =>
    match appendMsgSt f m with
    | (none, f) => (.done, some f)
    | (some e, f) => (.raised e, some f)
  | .appendAll ms =>
    match appendAllSt f ms with
    | (none, f) => (.done, some f)
    | (some e, f) => (.raised e, some f)
  | .parseMsg idx =>
    match parseMsg f idx with
    | .ok (r, f) => (.res r, some f)
    | .error e => (.raised e, none)
  | .parseAll skip count =>
    match parseAll f skip count with
    | .ok (r, f) => (.all r, some f)
    | .error e => (.raised e, none)
  | .truncate n => (.cut, some ⟨f.data.take n, 0⟩)

/-- a history on one object: the answers and the file at the end -/
def runHist (f : File) : List Op → List Ans × Option File
  | [] => ([], some f)
  | op :: ops =>
    match step f op with
    | (a, some f') => let (as, fe) := runHist f' ops; (a :: as, fe)
    | (a, none) => ([a], none)

/-! ### what the stored bytes alone determine -/

/-- the records `append_all(msgs)` adds to the content: those of the messages before the first one
`dump_msg` raises on, and that exception -/
def dumpAll : List Msg → Option Exc × Bytes
  | [] => (none, [])
  | m :: ms =>
    match dumpMsg m with
    | .error e => (some e, [])
    | .ok raw => let (e, rest) := dumpAll ms; (e, raw ++ rest)

/-- one operation answered from the content alone (reads: a fresh reader on it) -/
def specStep (d : Bytes) : Op → Ans × Bytes
  | .appendMsg m =>
    match dumpMsg m with
    | .ok raw => (.done, d ++ raw)
    | .error e => (.raised e, d)
  | .appendAll ms =>
    match dumpAll ms with
    | (none, b) => (.done, d ++ b)
    | (some e, b) => (.raised e, d ++ b)
  | .parseMsg idx =>
    match parseMsg ⟨d, 0⟩ idx with
    | .ok (r, _) => (.res r, d)
    | .error e => (.raised e, d)
  | .parseAll skip count =>
    match parseAll ⟨d, 0⟩ skip count with
    | .ok (r, _) => (.all r, d)
    | .error e => (.raised e, d)
  | .truncate n => (.cut, d.take n)

/-- the answers of a history and the content at the end, from the content alone -/
def specHist (d : Bytes) : List Op → List Ans × Bytes
  | [] => ([], d)
  | op :: ops =>
    let (a, d') := specStep d op
    let (as, de) := specHist d' ops
    (a :: as, de)

end OsmoVerif.TrxdDump
