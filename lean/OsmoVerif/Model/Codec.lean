/-
Model of the declarative codec `src/target/trx_toolkit/codec.py` (C16, C17).

A protocol definition is a term of the first-order definition language `FDef`
(one constructor per building block of codec.py); `fieldFrom`/`fieldTo` follow
`Field.from_bytes`/`Field.to_bytes` statement by statement, `envFrom`/`envTo`
follow `Envelope._from_bytes`/`_to_bytes`, `seqLoop` follows `Sequence.from_bytes`.

Python values are the tree `Val = int | bytes | dict | list`; a `dict` is an
association list in insertion order (`Vals.set` replaces in place or appends,
exactly like `vals[name] = x`).  Exceptions are `Except Err`, the tag is the Python
exception class.  Two tags are *not* exception classes:
  * `hang`        the real code does not terminate (`Sequence.from_bytes` with an item
                  that decodes zero octets: observation F13),
  * `unmodelled`  the input is outside what the model describes: a value of the wrong
                  Python type for the field (e.g. `bytes` where an `int` is expected) or a
                  negative length returned by a length callback (Python would slice from
                  the end).  The model never turns these into a result or into a codec
                  error; no theorem concludes anything from them.
The lambdas `get_pres`/`get_len` are first-order descriptions (`Pres`, `LenD`).
No Mathlib.
-/
namespace OsmoVerif.Codec

/-! ## Values -/

inductive Val where
  | int (i : Int)
  | bytes (b : List Nat)
  | dict (kv : List (String × Val))
  | list (xs : List Val)
deriving Repr, Inhabited

abbrev Vals := List (String × Val)

mutual
def Val.beq : Val → Val → Bool
  | .int a, .int b => a == b
  | .bytes a, .bytes b => a == b
  | .dict a, .dict b => Val.beqKV a b
  | .list a, .list b => Val.beqL a b
  | _, _ => false
def Val.beqKV : List (String × Val) → List (String × Val) → Bool
  | [], [] => true
  | (k, v) :: a, (k', v') :: b => k == k' && Val.beq v v' && Val.beqKV a b
  | _, _ => false
def Val.beqL : List Val → List Val → Bool
  | [], [] => true
  | v :: a, v' :: b => Val.beq v v' && Val.beqL a b
  | _, _ => false
end

mutual
theorem Val.beq_iff : ∀ (a b : Val), Val.beq a b = true ↔ a = b
  | .int a, .int b => by simp [Val.beq]
  | .bytes a, .bytes b => by simp [Val.beq]
  | .dict a, .dict b => by simp [Val.beq, Val.beqKV_iff a b]
  | .list a, .list b => by simp [Val.beq, Val.beqL_iff a b]
  | .int _, .bytes _ | .int _, .dict _ | .int _, .list _
  | .bytes _, .int _ | .bytes _, .dict _ | .bytes _, .list _
  | .dict _, .int _ | .dict _, .bytes _ | .dict _, .list _
  | .list _, .int _ | .list _, .bytes _ | .list _, .dict _ => by simp [Val.beq]
theorem Val.beqKV_iff : ∀ (a b : List (String × Val)), Val.beqKV a b = true ↔ a = b
  | [], [] => by simp [Val.beqKV]
  | [], _ :: _ | _ :: _, [] => by simp [Val.beqKV]
  | (k, v) :: a, (k', v') :: b => by
      simp [Val.beqKV, Val.beq_iff v v', Val.beqKV_iff a b, and_assoc]
theorem Val.beqL_iff : ∀ (a b : List Val), Val.beqL a b = true ↔ a = b
  | [], [] => by simp [Val.beqL]
  | [], _ :: _ | _ :: _, [] => by simp [Val.beqL]
  | v :: a, v' :: b => by simp [Val.beqL, Val.beq_iff v v', Val.beqL_iff a b]
end

instance : DecidableEq Val := fun a b => decidable_of_iff _ (Val.beq_iff a b)

instance {ε α : Type} [DecidableEq ε] [DecidableEq α] : DecidableEq (Except ε α)
  | .ok a, .ok b => if h : a = b then isTrue (by rw [h]) else isFalse (by intro h'; cases h'; exact h rfl)
  | .error a, .error b => if h : a = b then isTrue (by rw [h]) else isFalse (by intro h'; cases h'; exact h rfl)
  | .ok _, .error _ => isFalse (by intro h; cases h)
  | .error _, .ok _ => isFalse (by intro h; cases h)

/-- Python exception classes raised by / escaping from codec.py, plus `hang` and
`unmodelled` (see the file header). -/
inductive Err where
  | decode      -- codec.DecodeError
  | encode      -- codec.EncodeError
  | key         -- KeyError        (`vals[name]` of a missing key)
  | value       -- ValueError      (`MTS.get_burst_len` on an unknown code)
  | zerodiv     -- ZeroDivisionError (`// mult` with mult = 0)
  | overflow    -- OverflowError   (`int.to_bytes`)
  | protocol    -- codec.ProtocolError (raised when the definition is constructed)
  | hang        -- non-termination of the real code
  | unmodelled  -- outside the model (ill-typed value / negative length)
deriving DecidableEq, Repr, Inhabited

def Err.name : Err → String
  | .decode => "DecodeError" | .encode => "EncodeError" | .key => "KeyError"
  | .value => "ValueError" | .zerodiv => "ZeroDivisionError" | .overflow => "OverflowError"
  | .protocol => "ProtocolError" | .hang => "HANG" | .unmodelled => "UNMODELLED"

/-- `except Exception as e: raise DecodeError(...) from e` — every Python exception
becomes a `DecodeError`; the three non-exception outcomes are not catchable. -/
def wrapDec : Err → Err
  | .protocol => .protocol | .hang => .hang | .unmodelled => .unmodelled
  | _ => .decode

/-- `except Exception as e: raise EncodeError(...) from e` -/
def wrapEnc : Err → Err
  | .protocol => .protocol | .hang => .hang | .unmodelled => .unmodelled
  | _ => .encode

/-- `vals[name]` -/
def Vals.get : Vals → String → Except Err Val
  | [], _ => .error .key
  | (k, v) :: rest, name => if k = name then .ok v else Vals.get rest name

/-- `vals[name] = x` (Python dicts keep the position of an existing key) -/
def Vals.set : Vals → String → Val → Vals
  | [], name, x => [(name, x)]
  | (k, v) :: rest, name, x => if k = name then (k, x) :: rest else (k, v) :: Vals.set rest name x

/-- Python truth value of the value types that occur -/
def Val.truthy : Val → Bool
  | .int i => i ≠ 0
  | .bytes b => !b.isEmpty
  | .dict d => !d.isEmpty
  | .list l => !l.isEmpty

/-! ## Presence and length callbacks (first-order) -/

/-- `get_pres`: default `lambda vals: True`; `lambda v: bool(v[name])`; `lambda v: not v[name]` -/
inductive Pres where
  | always
  | flagTrue (name : String)
  | flagFalse (name : String)
deriving DecidableEq, Repr, Inhabited

def getPres : Pres → Vals → Except Err Bool
  | .always, _ => .ok true
  | .flagTrue n, vals => match vals.get n with
    | .error e => .error e
    | .ok v => .ok v.truthy
  | .flagFalse n, vals => match vals.get n with
    | .error e => .error e
    | .ok v => .ok (!v.truthy)

/-- `len=` keyword and `get_len` callback.
* `fixed n`   : `len=n`; `n = 0` is Python's "flexible" (`get_len = len(data)`)
* `rest`      : no `len=` given for a field whose `DEF_LEN` is 0 (same as `fixed 0`)
* `ofField f` : `lambda v, _: v[f]`
* `table f t` : `lambda v, _: T(v[f])` where `T` raises `ValueError` outside the table
                (`MTS.get_burst_len`)
* `thresh t a b` : `lambda _, data: a if len(data) > t else b` (PDUv0Rx soft-bits) -/
inductive LenD where
  | fixed (n : Nat)
  | rest
  | ofField (name : String)
  | table (name : String) (tbl : List (Int × Nat))
  | thresh (t a b : Nat)
deriving DecidableEq, Repr, Inhabited

/-- `self.len` of the field object -/
def LenD.selfLen : LenD → Nat
  | .fixed n => n
  | _ => 0

def tableGet : List (Int × Nat) → Int → Except Err Nat
  | [], _ => .error .value
  | (k, v) :: rest, x => if k = x then .ok v else tableGet rest x

/-- `self.get_len(vals, data)`; `dlen = len(data)` -/
def getLen : LenD → Vals → Nat → Except Err Nat
  | .fixed n, _, dlen => .ok (if n = 0 then dlen else n)
  | .rest, _, dlen => .ok dlen
  | .ofField f, vals, _ =>
      match vals.get f with
      | .error e => .error e
      | .ok (.int i) => if i < 0 then .error .unmodelled else .ok i.toNat
      | .ok _ => .error .unmodelled
  | .table f tbl, vals, _ =>
      match vals.get f with
      | .error e => .error e
      | .ok (.int i) => tableGet tbl i
      | .ok _ => .error .unmodelled
  | .thresh t a b, _, dlen => .ok (if dlen > t then a else b)

/-! ## Integers: `int.from_bytes` / `int.to_bytes` -/

inductive BO where
  | big | little
deriving DecidableEq, Repr, Inhabited

/-- little-endian octets of `x mod 256^n` -/
def natToLE : Nat → Nat → List Nat
  | 0, _ => []
  | n + 1, x => x % 256 :: natToLE n (x / 256)

def leToNat : List Nat → Nat
  | [] => 0
  | b :: bs => b + 256 * leToNat bs

/-- `int.from_bytes(data, bo, signed=sign)` -/
def intFromBytes (bo : BO) (sign : Bool) (data : List Nat) : Int :=
  let u : Nat := match bo with
    | .big => leToNat data.reverse
    | .little => leToNat data
  if sign ∧ 2 * u ≥ 256 ^ data.length ∧ data.length > 0 then (u : Int) - (256 ^ data.length : Nat) else (u : Int)

/-- `x` is representable in `n` octets (`int.to_bytes` does not raise `OverflowError`):
unsigned `0 ≤ x < 256^n`, signed `-256^n/2 ≤ x < 256^n/2`; CPython quirk for `n = 0`, signed: both `0` and
`-1` convert to `b''` -/
def fitsInt (n : Nat) (sign : Bool) (x : Int) : Bool :=
  if sign then
    (if n = 0 then decide (x = 0 ∨ x = -1)
     else decide (-((256 ^ n : Nat) : Int) ≤ 2 * x ∧ 2 * x < ((256 ^ n : Nat) : Int)))
  else decide (0 ≤ x ∧ x < ((256 ^ n : Nat) : Int))

/-- `x.to_bytes(n, bo, signed=sign)`; `OverflowError` when `x` does not fit -/
def intToBytes (n : Nat) (bo : BO) (sign : Bool) (x : Int) : Except Err (List Nat) :=
  if fitsInt n sign x then
    let le := natToLE n (x % ((256 ^ n : Nat) : Int)).toNat
    .ok (match bo with | .big => le.reverse | .little => le)
  else .error .overflow

/-! ## Bit fields -/

/-- `BitField(name, bl, val=…)` (`name = some _`) or `BitField.Spare(bl)` (`name = none`) -/
structure BitF where
  name : Option String
  bl : Nat
  val : Option Int
deriving DecidableEq, Repr, Inhabited

def bitsTotal (fs : List BitF) : Nat := (fs.map (·.bl)).sum

/-- `self._fields` after the order handling of `BitFieldSet.__init__` -/
def bitsOrdered (little : Bool) (fs : List BitF) : List BitF :=
  if little then fs.reverse else fs

/-- overall length: `self.len`, or `bl_sum // 8` (+1 if `bl_sum % 8 > 0`) when `len == 0` -/
def bitsLen (len : Nat) (fs : List BitF) : Nat :=
  if len = 0 then bitsTotal fs / 8 + (if bitsTotal fs % 8 > 0 then 1 else 0) else len

/-- the offset loop of `BitFieldSet.__init__`: `f.offset = offset - f.bl`, `ProtocolError` on
overflow; a named `BitField` with `bl < 1` raises `ProtocolError` in its own constructor. -/
def bitsOffsets : Nat → List BitF → Except Err (List (BitF × Nat))
  | _, [] => .ok []
  | offset, f :: fs =>
    if f.name.isSome ∧ f.bl < 1 then .error .protocol
    else if f.bl > offset then .error .protocol
    else match bitsOffsets (offset - f.bl) fs with
      | .error e => .error e
      | .ok rest => .ok ((f, offset - f.bl) :: rest)

/-- `BitFieldSet.__init__`: (length, fields in processing order with their offsets) -/
def bitsDerive (len : Nat) (little : Bool) (fs : List BitF) : Except Err (Nat × List (BitF × Nat)) :=
  match bitsOffsets (bitsLen len (bitsOrdered little fs) * 8) (bitsOrdered little fs) with
  | .error e => .error e
  | .ok offs => .ok (bitsLen len (bitsOrdered little fs), offs)

/-- `for f in self._fields: f.dec_val(vals, blob)` -/
def bitsDec : List (BitF × Nat) → Vals → Nat → Except Err Vals
  | [], vals, _ => .ok vals
  | (f, off) :: rest, vals, blob =>
    match f.name with
    | none => bitsDec rest vals blob                       -- BitField.Spare.dec_val: pass
    | some name =>
      let x : Nat := (blob >>> off) % 2 ^ f.bl             -- (blob >> self.offset) & self.mask
      let vals' := vals.set name (.int x)
      match f.val with
      | some c => if (x : Int) ≠ c then .error .decode else bitsDec rest vals' blob
      | none => bitsDec rest vals' blob

/-- `f.enc_val(vals)`: `(val & self.mask) << self.offset`; for a (possibly negative)
Python int `val & (2**bl - 1)` is `val mod 2**bl`. -/
def bitEnc (f : BitF) (off : Nat) (vals : Vals) : Except Err Nat :=
  match f.name with
  | none => .ok 0
  | some name =>
    match f.val with
    | some c => .ok ((c % ((2 ^ f.bl : Nat) : Int)).toNat <<< off)
    | none =>
      match vals.get name with
      | .error e => .error e
      | .ok (.int i) => .ok ((i % ((2 ^ f.bl : Nat) : Int)).toNat <<< off)
      | .ok _ => .error .unmodelled

/-- `blob = 0; for f in self._fields: blob |= f.enc_val(vals)` -/
def bitsEnc : List (BitF × Nat) → Vals → Nat → Except Err Nat
  | [], _, blob => .ok blob
  | (f, off) :: rest, vals, blob =>
    match bitEnc f off vals with
    | .error e => .error e
    | .ok x => bitsEnc rest vals (blob ||| x)

/-! ## The definition language -/

/-- One `Field` object of a `STRUCT` tuple. -/
inductive FDef where
  /-- `Uint`/`Int` family: `len` octets (0 = flexible), byte order `BO`, `SIGN`, `offset`, `mult` -/
  | int (name : String) (pres : Pres) (len : Nat) (bo : BO) (signed : Bool) (offset mult : Int)
  /-- `Buf(name, len=…)` -/
  | buf (name : String) (pres : Pres) (ld : LenD)
  /-- `Spare(name, len=…, filler=…)` -/
  | spare (name : String) (pres : Pres) (ld : LenD) (filler : List Nat)
  /-- `BitFieldSet(len=…, order=…, set=…)` -/
  | bits (pres : Pres) (len : Nat) (little : Bool) (fs : List BitF)
  /-- `Envelope(check_len).f(name, len=…)` with `STRUCT = fs` -/
  | env (name : String) (pres : Pres) (ld : LenD) (checkLen : Bool) (fs : List FDef)
  /-- `Sequence(item=Envelope(STRUCT = item)).f(name, len=…)`; the constructor of `Sequence`
  forces `item.check_len = False` -/
  | seq (name : String) (pres : Pres) (ld : LenD) (item : List FDef)
deriving Repr, Inhabited

/-- A top-level `Envelope` subclass instance. -/
structure EnvDef where
  checkLen : Bool
  fs : List FDef
deriving Repr, Inhabited

def FDef.pres : FDef → Pres
  | .int _ p .. | .buf _ p _ | .spare _ p .. | .bits p .. | .env _ p .. | .seq _ p .. => p

/-- `Sequence.from_bytes`:
```
while offset < length:
    vseq.append({ })
    offset += proc(vseq[-1], data[offset:])
```
`proc` is the item's `_from_bytes`.  When `proc` returns 0 the real loop never ends (`hang`).
`fuel` only makes the recursion structural: with `fuel ≥ len(data) - offset` it is never
exhausted (`seqLoop_fuel` in Lemmas/Codec.lean); exhaustion is reported as `unmodelled`. -/
def seqLoop (proc : List Nat → Except Err (Vals × Nat)) :
    Nat → List Nat → Nat → List Val → Except Err (List Val)
  | fuel, data, offset, acc =>
    if offset < data.length then
      match fuel with
      | 0 => .error .unmodelled
      | fuel + 1 =>
        match proc (data.drop offset) with
        | .error e => .error e
        | .ok (v, k) =>
          if k = 0 then .error .hang
          else seqLoop proc fuel data (offset + k) (acc ++ [.dict v])
    else .ok acc

/-- `b''.join([proc(v) for v in vseq])` of `Sequence.to_bytes` -/
def seqEnc (proc : Vals → Except Err (List Nat)) : List Val → Except Err (List Nat)
  | [] => .ok []
  | .dict v :: rest =>
    match proc v with
    | .error e => .error e
    | .ok a => match seqEnc proc rest with
      | .error e => .error e
      | .ok b => .ok (a ++ b)
  | _ :: _ => .error .unmodelled

def fillerBytes (filler : List Nat) : Nat → List Nat
  | 0 => []
  | n + 1 => filler ++ fillerBytes filler n

/-- `Field.from_bytes(self, vals, data)` of the base class; `glen` is `self.get_len`,
`body` is the subclass's `_from_bytes` (returns the updated `vals`):
```
if self.get_pres(vals) is False: return 0
length = self.get_len(vals, data)
if len(data) < length: raise DecodeError('Short read')
self._from_bytes(vals, data[:length])
return length
``` -/
def fieldFromCore (pres : Pres) (glen : Vals → Nat → Except Err Nat)
    (body : Vals → List Nat → Except Err Vals) (vals : Vals) (data : List Nat) :
    Except Err (Vals × Nat) :=
  match getPres pres vals with
  | .error e => .error e
  | .ok false => .ok (vals, 0)
  | .ok true =>
    match glen vals data.length with
    | .error e => .error e
    | .ok length =>
      if data.length < length then .error .decode
      else match body vals (data.take length) with
        | .error e => .error e
        | .ok vals' => .ok (vals', length)

/-- `Field.to_bytes(self, vals)` of the base class; `body` is `_to_bytes`:
```
if self.get_pres(vals) is False: return b''
data = self._to_bytes(vals)
if self.len > 0 and len(data) != self.len: raise EncodeError('Field length mismatch')
return data
``` -/
def fieldToCore (pres : Pres) (selfLen : Nat) (body : Vals → Except Err (List Nat)) (vals : Vals) :
    Except Err (List Nat) :=
  match getPres pres vals with
  | .error e => .error e
  | .ok false => .ok []
  | .ok true =>
    match body vals with
    | .error e => .error e
    | .ok data => if selfLen > 0 ∧ data.length ≠ selfLen then .error .encode else .ok data

/-- `vals[name]` as an `int` -/
def Vals.getInt (vals : Vals) (name : String) : Except Err Int :=
  match vals.get name with
  | .error e => .error e
  | .ok (.int i) => .ok i
  | .ok _ => .error .unmodelled

def Vals.getBytes (vals : Vals) (name : String) : Except Err (List Nat) :=
  match vals.get name with
  | .error e => .error e
  | .ok (.bytes b) => .ok b
  | .ok _ => .error .unmodelled

def Vals.getDict (vals : Vals) (name : String) : Except Err Vals :=
  match vals.get name with
  | .error e => .error e
  | .ok (.dict d) => .ok d
  | .ok _ => .error .unmodelled

def Vals.getList (vals : Vals) (name : String) : Except Err (List Val) :=
  match vals.get name with
  | .error e => .error e
  | .ok (.list l) => .ok l
  | .ok _ => .error .unmodelled

/-- `Uint._from_bytes`: `val = int.from_bytes(data, self.BO, signed=self.SIGN);
vals[self.name] = val * self.p['mult'] + self.p['offset']` -/
def intDec (name : String) (bo : BO) (signed : Bool) (offset mult : Int) (vals : Vals) (data : List Nat) :
    Except Err Vals :=
  .ok (vals.set name (.int (intFromBytes bo signed data * mult + offset)))

/-- `Uint._to_bytes`: `val = (self.get_val(vals) - offset) // mult; return val.to_bytes(self.len, BO, signed=SIGN)` -/
def intEnc (name : String) (len : Nat) (bo : BO) (signed : Bool) (offset mult : Int) (vals : Vals) :
    Except Err (List Nat) :=
  match vals.getInt name with
  | .error e => .error e
  | .ok v => if mult = 0 then .error .zerodiv else intToBytes len bo signed (Int.fdiv (v - offset) mult)

/-- `BitFieldSet._to_bytes` -/
def bitsEncBytes (l : Nat) (offs : List (BitF × Nat)) (vals : Vals) : Except Err (List Nat) :=
  match bitsEnc offs vals 0 with
  | .error e => .error e
  | .ok blob => intToBytes l .big false blob

/-- `Envelope._from_bytes` after the field loop: the tail check -/
def tailCheck (checkLen : Bool) (dlen : Nat) (r : Except Err (Vals × Nat)) : Except Err (Vals × Nat) :=
  match r with
  | .error e => .error e
  | .ok (vals, off) => if checkLen ∧ dlen ≠ off then .error .decode else .ok (vals, off)

mutual
/-- `f.from_bytes(vals, data)` for every field kind → (updated `vals`, consumed octets) -/
def fieldFrom : FDef → Vals → List Nat → Except Err (Vals × Nat)
  | .int name pres len bo signed offset mult, vals, data =>
    fieldFromCore pres (fun _ dlen => .ok (if len = 0 then dlen else len))
      (intDec name bo signed offset mult) vals data
  | .buf name pres ld, vals, data =>
    fieldFromCore pres (getLen ld) (fun vals d => .ok (vals.set name (.bytes d))) vals data
  | .spare _ pres ld _, vals, data =>
    fieldFromCore pres (getLen ld) (fun vals _ => .ok vals) vals data
  | .bits pres len little fs, vals, data =>
    match bitsDerive len little fs with                               -- BitFieldSet.__init__
    | .error e => .error e
    | .ok (l, offs) =>
      fieldFromCore pres (fun _ _ => .ok l)
        (fun vals d => bitsDec offs vals (leToNat d.reverse)) vals data   -- int.from_bytes(data, 'big')
  | .env name pres ld checkLen fs, vals, data =>
    fieldFromCore pres (getLen ld)
      (fun vals d =>                                                  -- vals[name] = {}; self.e._from_bytes(vals[name], data)
        match tailCheck checkLen d.length (envFrom fs [] d 0) with
        | .error e => .error e
        | .ok (inner, _) => .ok (vals.set name (.dict inner))) vals data
  | .seq name pres ld item, vals, data =>
    fieldFromCore pres (getLen ld)
      (fun vals d =>                                                  -- vals[name] = self.s.from_bytes(data)
        match seqLoop (fun x => envFrom item [] x 0) d.length d 0 [] with
        | .error e => .error e
        | .ok vseq => .ok (vals.set name (.list vseq))) vals data
/-- the `for f in self.STRUCT: offset += f.from_bytes(vals, data[offset:])` loop of
`Envelope._from_bytes`, with its `except Exception → DecodeError` wrapper -/
def envFrom : List FDef → Vals → List Nat → Nat → Except Err (Vals × Nat)
  | [], vals, _, offset => .ok (vals, offset)
  | f :: fs, vals, data, offset =>
    match fieldFrom f vals (data.drop offset) with
    | .error e => .error (wrapDec e)
    | .ok (vals', k) => envFrom fs vals' data (offset + k)
end

mutual
/-- `f.to_bytes(vals)` for every field kind -/
def fieldTo : FDef → Vals → Except Err (List Nat)
  | .int name pres len bo signed offset mult, vals =>
    fieldToCore pres len (intEnc name len bo signed offset mult) vals
  | .buf name pres ld, vals =>
    fieldToCore pres ld.selfLen (fun vals => vals.getBytes name) vals
  | .spare _ pres ld filler, vals =>
    fieldToCore pres ld.selfLen
      (fun vals => match getLen ld vals 0 with                         -- filler * self.get_len(vals, b'')
        | .error e => .error e
        | .ok n => .ok (fillerBytes filler n)) vals
  | .bits pres len little fs, vals =>
    match bitsDerive len little fs with
    | .error e => .error e
    | .ok (l, offs) => fieldToCore pres l (bitsEncBytes l offs) vals
  | .env name pres ld _ fs, vals =>
    fieldToCore pres ld.selfLen
      (fun vals => match vals.getDict name with                        -- self.e._to_bytes(self.get_val(vals))
        | .error e => .error e
        | .ok inner => envTo fs inner) vals
  | .seq name pres ld item, vals =>
    fieldToCore pres ld.selfLen
      (fun vals => match vals.getList name with                        -- self.s.to_bytes(self.get_val(vals))
        | .error e => .error e
        | .ok vseq => seqEnc (fun v => envTo item v) vseq) vals
/-- `b''.join([proc(f) for f in self.STRUCT])` of `Envelope._to_bytes`, `proc` wrapping every
exception into `EncodeError` -/
def envTo : List FDef → Vals → Except Err (List Nat)
  | [], _ => .ok []
  | f :: fs, vals =>
    match fieldTo f vals with
    | .error e => .error (wrapEnc e)
    | .ok a =>
      match envTo fs vals with
      | .error e => .error e
      | .ok b => .ok (a ++ b)
end

mutual
/-- construction of the field objects of a `STRUCT` tuple (happens once, when the definition is created):
the only thing that can fail is `BitFieldSet.__init__` (`ProtocolError`) -/
def constructField : FDef → Bool
  | .bits _ len little fs => match bitsDerive len little fs with | .ok _ => true | .error _ => false
  | .env _ _ _ _ fs => constructFields fs
  | .seq _ _ _ item => constructFields item
  | _ => true
def constructFields : List FDef → Bool
  | [] => true
  | f :: fs => constructField f && constructFields fs
end

/-- creating the definition: `ProtocolError` if any bit-field set of it (at any depth) is ill-formed -/
def construct (d : EnvDef) : Except Err Unit :=
  if constructFields d.fs then .ok () else .error .protocol

/-- `Envelope.from_bytes(data)`: `self.c.clear(); return self._from_bytes(self.c, data)`;
result = (`self.c`, returned offset) -/
def fromBytes (d : EnvDef) (data : List Nat) : Except Err (Vals × Nat) :=
  tailCheck d.checkLen data.length (envFrom d.fs [] data 0)

/-- `Envelope.to_bytes()` with `self.c = vals` -/
def toBytes (d : EnvDef) (vals : Vals) : Except Err (List Nat) :=
  envTo d.fs vals

/-- all octets are `< 256` (a Python `bytes` object) -/
def isBytes (b : List Nat) : Bool := b.all (· < 256)

end OsmoVerif.Codec
