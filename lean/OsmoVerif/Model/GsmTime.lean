/-
Model of the GSM time helpers:
  * `gsm_fn2gsmtime`, `gsm_gsmtime2fn`   (src/shared/libosmocore/src/gsm/gsm_utils.c)
  * `ADD_MODULO`, `l1s_time_inc`          (gsm_utils.h, src/target/firmware/layer1/sync.c)
  * `HoppingParams.fn2gsm_time`           (src/target/trx_toolkit/gsm_shared.py)
C integer widths are explicit: `fn : uint32_t`, `t1 : uint16_t`, `t2 t3 tc : uint8_t`.
-/
import OsmoVerif.Gen.GsmConsts

namespace OsmoVerif.GsmTime

/-- `struct gsm_time` -/
structure GsmTime where
  fn : Nat
  t1 : Nat
  t2 : Nat
  t3 : Nat
  tc : Nat
deriving DecidableEq, Repr

def u8  (x : Nat) : Nat := x % 256
def u16 (x : Nat) : Nat := x % 65536
def u32 (x : Nat) : Nat := x % 4294967296

/-- `gsm_fn2gsmtime(time, fn)`; `fn` is a `uint32_t` argument. -/
def cFn2GsmTime (fn : Nat) : GsmTime :=
  let fn := u32 fn
  { fn := fn
    t1 := u16 (fn / (26 * 51))
    t2 := u8 (fn % 26)
    t3 := u8 (fn % 51)
    tc := u8 ((fn / 51) % 8) }

/-- `gsm_gsmtime2fn(time)`: the operands are promoted to `int`, `%` is C
remainder (truncating), the result is converted to `uint32_t`. -/
def cGsmTime2Fn (t : GsmTime) : Nat :=
  let d : Int := (Int.ofNat t.t3 - Int.ofNat t.t2 + 26).tmod 26
  let r : Int := 51 * d + Int.ofNat t.t3 + 26 * 51 * Int.ofNat t.t1
  (r % 4294967296).toNat

/-- `ADD_MODULO(sum, delta, modulo)` on an unsigned lvalue of `2^bits` values:
`if ((sum += delta) >= modulo) sum -= modulo;` -/
def addModulo (wrap : Nat → Nat) (sum delta modulo : Nat) : Nat :=
  let s := wrap (sum + delta)
  if s ≥ modulo then wrap (s - modulo) else s

/-- `l1s_time_inc(time, delta_fn)`; the modulus of the frame number is the
`GSM_MAX_FN` of the current tree (regenerated). -/
def cTimeInc (t : GsmTime) (delta : Nat) : GsmTime :=
  let delta := u32 delta
  let fn := addModulo u32 t.fn delta Gen.cGsmMaxFn
  if delta = 1 then
    let t2 := addModulo u8 t.t2 1 26
    let t3 := addModulo u8 t.t3 1 51
    if t3 = 0 then
      let tc := addModulo u8 t.tc 1 8
      if t2 = 0 then
        { fn := fn, t1 := addModulo u16 t.t1 1 2048, t2 := t2, t3 := t3, tc := tc }
      else
        { fn := fn, t1 := t.t1, t2 := t2, t3 := t3, tc := tc }
    else
      { fn := fn, t1 := t.t1, t2 := t2, t3 := t3, tc := t.tc }
  else
    cFn2GsmTime fn

/-- `HoppingParams.fn2gsm_time(fn)` — Python `//` and `%` on a non-negative int. -/
def pyFn2GsmTime (fn : Nat) : Nat × Nat × Nat × Nat :=
  (fn / (26 * 51), fn % 26, fn % 51, (fn / 51) % 8)

end OsmoVerif.GsmTime
