/-
Executable model of the fake_trx "world" (virtual Um interface):
  transceiver.py   Transceiver: ports, ready, get_rx_freq/get_tx_freq, enable_fh/disable_fh,
                   power_event_handler, recv_data_msg, handle_data_msg, tx_queue_*, clck_tick
  fake_trx.py      FakeTRX: toa256/rssi/ci/tx_power, sim_burst_drop, _handle_data_msg_v1,
                   handle_data_msg, ctrl_cmd_handler; Application wiring (append_trx,
                   append_child_trx), clck_handler
  burst_fwd.py     BurstForwarder.forward_msg
  trx_list.py      TRXList.find_trx / add_trx
  ctrl_if.py       CTRLInterface.handle_rx / verify_req / prepare_req / verify_cmd / send_response
  ctrl_if_trx.py   CTRLInterfaceTRX.parse_cmd
  data_if.py       DATAInterface.set_hdr_ver / pick_hdr_ver / match_hdr_ver / recv_tx_msg / send_msg
  fake_pm.py       FakePM.measure
  clck_gen.py      CLCKGen.start / stop (as flags) / send_clck_ind
  gsm_shared.py    TrainingSeqGMSK.pick (table regenerated), HoppingParams (Model/Hopping)
statement by statement.  Sockets are lists of emitted datagrams, `random.randint` is the
draw function `draw seed k lo hi` (k-th draw; theorems quantify over seed), exceptions are
values.  A transceiver is identified by its position in `Application.trx_list`.
No Mathlib.
-/
import OsmoVerif.Gen.World
import OsmoVerif.Model.PyStr
import OsmoVerif.Model.Trxd
import OsmoVerif.Model.Hopping

namespace OsmoVerif.World
open OsmoVerif.PyStr
open OsmoVerif

/-- Python exception classes that can leave an entry point of the world. -/
inductive Exc
  | valueError | indexError | typeError | attributeError | structError
  | zeroDivisionError | assertionError | unicodeDecodeError
deriving DecidableEq, Repr

def Exc.pyName : Exc → String
  | .valueError => "ValueError" | .indexError => "IndexError" | .typeError => "TypeError"
  | .attributeError => "AttributeError" | .structError => "error"
  | .zeroDivisionError => "ZeroDivisionError" | .assertionError => "AssertionError"
  | .unicodeDecodeError => "UnicodeDecodeError"

def ofTrxdExc : Trxd.Exc → Exc
  | .valueError => .valueError | .structError => .structError | .indexError => .indexError
  | .typeError => .typeError | .attributeError => .attributeError

def ofHopExc : Hopping.PyExc → Exc
  | .ValueError => .valueError | .IndexError => .indexError | .ZeroDivisionError => .zeroDivisionError

/-- one datagram handed to a socket: local (bound) port, remote address id, remote port, payload -/
structure Dgram where
  lport : Nat
  raddr : Nat
  rport : Nat
  data : List Nat
deriving DecidableEq, Repr

/-- `FakeTRX` object -/
structure Trx where
  -- wiring, fixed at start-up
  addr : Nat
  basePort : Nat
  childIdx : Nat
  childMgt : Bool
  hasClock : Bool                   -- `self.clck_gen is not None`
  hasPm : Bool := true              -- `self.pwr_meas is not None`
  children : List Nat := []         -- `child_trx_list` (indices into the world)
  -- state
  running : Bool := false
  rxFreq : Option Int := none
  txFreq : Option Int := none
  fh : Option (Hopping.HoppingParams (Int × Int)) := none
  hdrVer : Int := 0
  rfMuted : Bool := false
  ta : Int := 0
  txPowerBase : Int := Gen.World.nominalTxPower
  txAttBase : Int := Gen.World.txAttDefault
  toaBase : Int := Gen.World.toa256BaseDefault
  toaThr : Int := 0
  rssiBase : Int := Gen.World.nominalTxPower - Gen.World.txAttDefault - Gen.World.pathLoss
  rssiThr : Int := 0
  fakeRssi : Bool := false
  ciBase : Int := Gen.World.ciBaseDefault
  ciThr : Int := 0
  dropAmount : Int := 0
  dropPeriod : Int := 1
  rspDelay : Int := 0
  txQueue : List Trxd.TxMsg := []

namespace Trx
def ctrlPort (t : Trx) : Nat := t.basePort + t.childIdx * 2 + 1
def dataPort (t : Trx) : Nat := t.basePort + t.childIdx * 2 + 2
def clckPort (t : Trx) : Nat := t.basePort
def ctrlRemote (t : Trx) : Nat := t.basePort + t.childIdx * 2 + 101
def dataRemote (t : Trx) : Nat := t.basePort + t.childIdx * 2 + 102
def clckRemote (t : Trx) : Nat := t.basePort + 100
/-- `ready` property -/
def ready (t : Trx) : Bool :=
  if t.rxFreq.isNone || t.txFreq.isNone then
    if t.fh.isNone then false else true
  else true
/-- `tx_power` property -/
def txPower (t : Trx) : Int := t.txPowerBase - t.txAttBase
def hop (t : Trx) : Hopping.Trx := { fh := t.fh, rxFreq := t.rxFreq, txFreq := t.txFreq }
def getRxFreq (t : Trx) (fn : Nat) : Except Exc (Option Int) :=
  match t.hop.getRxFreq fn with | .ok v => .ok v | .error e => .error (ofHopExc e)
def getTxFreq (t : Trx) (fn : Nat) : Except Exc (Option Int) :=
  match t.hop.getTxFreq fn with | .ok v => .ok v | .error e => .error (ofHopExc e)
end Trx

/-- the application: transceivers, shared clock generator, randomness stream -/
structure World where
  trxs : List Trx
  clkLinks : List Nat := []         -- `clck_gen.clck_links`, as indices of the owning transceivers
  clkRunning : Bool := false
  clkSrc : Option Nat := none       -- `clck_src` (attribute does not exist before the first start)
  seed : Nat := 0
  drawK : Nat := 0

/-! ### start-up wiring (fake_trx.Application.__init__, append_trx, append_child_trx) -/

/-- `TRXList.find_trx(remote_addr, base_port, child_idx)` -/
def findTrx (ts : List Trx) (addr port idx : Nat) : Option Nat :=
  ts.findIdx? (fun t => t.addr == addr && t.basePort == port && t.childIdx == idx)

/-- `Application.append_trx`: a transceiver with clock and power measurement -/
def appendTrx (ts : List Trx) (addr port : Nat) (childIdx : Nat) (childMgt : Bool) :
    Except Exc (List Trx) :=
  -- Transceiver.__init__: "Child transceiver cannot have its own clock"
  if childIdx > 0 then .error .typeError else
  -- TRXList.add_trx: duplicate check
  if (findTrx ts addr port childIdx).isSome then .error .indexError else
  .ok (ts ++ [{ addr := addr, basePort := port, childIdx := childIdx, childMgt := childMgt,
                hasClock := true }])

/-- `Application.append_child_trx(remote_addr, base_port, child_idx = idx)` -/
def appendChildTrx (ts : List Trx) (addr port idx : Nat) : Except Exc (List Trx) :=
  if idx = 0 then appendTrx ts addr port 0 true else
  match findTrx ts addr port 0 with
  | none => .error .indexError
  | some p =>
    if (findTrx ts addr port idx).isSome then .error .indexError else
    let child : Trx := { addr := addr, basePort := port, childIdx := idx, childMgt := true,
                         hasClock := false }
    let ci := ts.length
    -- `trx_parent.child_trx_list.add_trx(trx_child)` (cannot be a duplicate there either)
    .ok ((ts ++ [child]).modify p (fun t => { t with children := t.children ++ [ci] }))

def addrBts : Nat := 1
def addrBb : Nat := 2
def btsPort : Nat := 5700
def bbPort : Nat := 6700

/-- the world that `Application.__init__` builds for the given `--trx` definitions -/
def build (seed : Nat) (extra : List (Nat × Nat × Nat)) : Except Exc World := do
  let ts ← appendTrx [] addrBts btsPort 0 Gen.World.btsChildMgt
  let ts ← appendTrx ts addrBb bbPort 0 Gen.World.msChildMgt
  let ts ← extra.foldlM (fun ts (a, p, i) => appendChildTrx ts a p i) ts
  pure { trxs := ts, seed := seed }

/-! ### randomness -/

/-- the k-th `random.randint(lo, hi)` of a run (the harness installs the same function) -/
def draw (seed k : Nat) (lo hi : Int) : Except Exc Int :=
  if hi < lo then .error .valueError
  else .ok (lo + ((seed + 7919 * k : Nat) : Int) % (hi - lo + 1))

def World.randint (w : World) (lo hi : Int) : Except Exc (Int × World) :=
  match draw w.seed w.drawK lo hi with
  | .error e => .error e
  | .ok v => .ok (v, { w with drawK := w.drawK + 1 })

/-! ### power handling (transceiver.py power_event_handler) -/

def setTrx (w : World) (i : Nat) (f : Trx → Trx) : World := { w with trxs := w.trxs.modify i f }

/-- `Transceiver.power_event_handler(poweron)` of transceiver `i` -/
def powerEvent (w : World) (i : Nat) (poweron : Bool) : Except Exc World :=
  match w.trxs[i]? with
  | none => .error .indexError
  | some self =>
    let list := if self.childMgt && self.childIdx == 0 then i :: self.children else [i]
    let w := list.foldl (fun w j =>
      setTrx w j (fun t =>
        if poweron then { t with running := true }
        else { t with running := false, txQueue := [], fh := none })) w
    if ¬ self.hasClock then .ok w else
    -- `self.running` after the update
    let links :=
      if ¬ poweron ∧ w.clkLinks.contains i then w.clkLinks.erase i
      else if poweron ∧ ¬ w.clkLinks.contains i then w.clkLinks ++ [i]
      else w.clkLinks
    let w := { w with clkLinks := links }
    if ¬ w.clkRunning ∧ links.length > 0 then
      -- CLCKGen.start(): `assert(self._thread is None)`; `clck_src = clck_start`
      .ok { w with clkRunning := true, clkSrc := some Gen.World.clckStart }
    else if w.clkRunning ∧ links.isEmpty then
      .ok { w with clkRunning := false }
    else .ok w

/-! ### TRXC (ctrl_if.py, ctrl_if_trx.py, fake_trx.py ctrl_cmd_handler) -/

/-- `verify_cmd(request, cmd, argc, va)` -/
def verifyCmd (req : List Str) (cmd : String) (argc : Nat) (va : Bool := false) : Bool :=
  match req with
  | [] => false
  | v :: args =>
    if v != lit cmd then false
    else if !va && args.length != argc then false
    else if va && args.length < argc then false
    else true

/-- `int(x)`; ValueError as an exception value -/
def toInt (s : Str) : Except Exc Int :=
  match pyInt s with
  | some v => .ok v
  | none => .error .valueError

/-- result of `parse_cmd`: status code and optional extra response parameters -/
abbrev CmdRes := Int × List Str

def arg (req : List Str) (k : Nat) : Except Exc Str :=
  match req[k]? with
  | some s => .ok s
  | none => .error .indexError

/-- assignment(s) a command makes to attributes of its own transceiver -/
inductive Patch
  | ta (v : Int)
  | toa (base thr : Int)
  | toaDelta (d : Int)
  | rssi (base thr : Int)
  | rssiOff
  | rssiDelta (d : Int)
  | ci (base thr : Int)
  | ciDelta (d : Int)
  | drop (num period : Int)
  | delay (ms : Int)
  | rxFreq (hz : Int)
  | txFreq (hz : Int)
  | hdrVer (v : Int)
  | txAtt (a : Int)
  | mute (b : Bool)
  | fh (hp : Hopping.HoppingParams (Int × Int))

def Patch.apply : Patch → Trx → Trx
  | .ta v, t => { t with ta := v }
  | .toa b th, t => { t with toaBase := b, toaThr := th }
  | .toaDelta d, t => { t with toaBase := t.toaBase + d }
  | .rssi b th, t => { t with rssiBase := b, rssiThr := th, fakeRssi := true }
  | .rssiOff, t => { t with fakeRssi := false }
  | .rssiDelta d, t => { t with rssiBase := t.rssiBase + d }
  | .ci b th, t => { t with ciBase := b, ciThr := th }
  | .ciDelta d, t => { t with ciBase := t.ciBase + d }
  | .drop n p, t => { t with dropAmount := n, dropPeriod := p }
  | .delay ms, t => { t with rspDelay := ms }
  | .rxFreq hz, t => { t with rxFreq := some hz }
  | .txFreq hz, t => { t with txFreq := some hz }
  | .hdrVer v, t => { t with hdrVer := v }
  | .txAtt a, t => { t with txAttBase := a }
  | .mute b, t => { t with rfMuted := b }
  | .fh hp, t => { t with fh := some hp }

/-- what a command does, decided from the request and the addressed transceiver -/
inductive Action
  /-- assign attributes, answer `rc` -/
  | patch (p : Patch) (rc : Int)
  /-- no state change, answer `rc` with extra response parameters -/
  | reply (rc : Int) (params : List Str)
  /-- `power_event_handler(poweron)`, answer 0 -/
  | power (on : Bool)
  /-- `pwr_meas.measure(freq)`, answer `(0, [str(dbm)])` -/
  | measure (freq : Int)

/-- `FakeTRX.ctrl_cmd_handler(request)`: `(assignment made, return value)`;
return value `none` = the handler returned None (the common handler goes on) -/
def ctrlCmdHandler (req : List Str) : Except Exc (Option Patch × Option Int) :=
  if verifyCmd req "SETTA" 1 then do
    let ta ← toInt (← arg req 1)
    pure (some (.ta ta), some 0)
  else if verifyCmd req "FAKE_TOA" 2 then do
    let base ← toInt (← arg req 1)
    let thr ← toInt (← arg req 2)
    if thr < 0 then pure (none, some (-1)) else
    pure (some (.toa base thr), some 0)
  else if verifyCmd req "FAKE_TOA" 1 then do
    let d ← toInt (← arg req 1)
    pure (some (.toaDelta d), some 0)
  else if verifyCmd req "FAKE_RSSI" 2 then do
    let thr ← toInt (← arg req 2)
    if thr < 0 then pure (some .rssiOff, some 0) else
    let base ← toInt (← arg req 1)
    let thr2 ← toInt (← arg req 2)
    pure (some (.rssi base thr2), some 0)
  else if verifyCmd req "FAKE_RSSI" 1 then do
    let d ← toInt (← arg req 1)
    pure (some (.rssiDelta d), some 0)
  else if verifyCmd req "FAKE_CI" 2 then do
    let base ← toInt (← arg req 1)
    let thr ← toInt (← arg req 2)
    if thr < 0 then pure (none, some (-1)) else
    pure (some (.ci base thr), some 0)
  else if verifyCmd req "FAKE_CI" 1 then do
    let d ← toInt (← arg req 1)
    pure (some (.ciDelta d), some 0)
  else if verifyCmd req "FAKE_DROP" 1 then do
    let num ← toInt (← arg req 1)
    if num < 0 then pure (none, some (-1)) else
    pure (some (.drop num 1), some 0)
  else if verifyCmd req "FAKE_DROP" 2 then do
    let num ← toInt (← arg req 1)
    if num < 0 then pure (none, some (-1)) else
    let period ← toInt (← arg req 2)
    if period ≤ 0 then pure (none, some (-1)) else
    pure (some (.drop num period), some 0)
  else if verifyCmd req "FAKE_TRXC_DELAY" 1 then do
    let d ← toInt (← arg req 1)
    if d < 0 ∨ d > Gen.World.trxcDelayMaxMs then pure (none, some (-1)) else
    pure (some (.delay d), none)
  else pure (none, none)

/-- `DATAInterface.pick_hdr_ver(ver_req)` -/
def pickHdrVer (verReq : Int) : Int :=
  match Gen.Trxd.knownVersions.reverse.find? (fun v => v ≤ verReq) with
  | some v => v
  | none => -1

/-- pairs `zip(ma[0::2], ma[1::2])` -/
def pairUp : List Int → List (Int × Int)
  | a :: b :: rest => (a, b) :: pairUp rest
  | _ => []

/-- the common handler of `CTRLInterfaceTRX.parse_cmd` (after the custom handler returned None);
`trx` is the addressed transceiver with the custom handler's assignment already made -/
def commonCmd (trx : Trx) (req : List Str) : Except Exc Action :=
  if verifyCmd req "POWERON" 0 then
    if trx.running then pure (.reply (-1) [])
    else if ¬ trx.ready then pure (.reply (-1) [])
    else pure (.power true)
  else if verifyCmd req "POWEROFF" 0 then pure (.power false)
  else if verifyCmd req "RXTUNE" 1 then do
    let f ← toInt (← arg req 1)
    pure (.patch (.rxFreq (f * 1000)) 0)
  else if verifyCmd req "TXTUNE" 1 then do
    let f ← toInt (← arg req 1)
    pure (.patch (.txFreq (f * 1000)) 0)
  else if verifyCmd req "MEASURE" 1 then
    if ¬ trx.hasPm then pure (.reply (-1) [])
    else do
      let f ← toInt (← arg req 1)
      pure (.measure (f * 1000))
  else if verifyCmd req "SETFH" 4 true then do
    let hsn ← toInt (← arg req 1)
    let maio ← toInt (← arg req 2)
    let ma ← (req.drop 3).mapM (fun f => do let v ← toInt f; pure (v * 1000))
    -- `try: self.trx.enable_fh(hsn, maio, ma) ... except: return -1`
    match Hopping.pyInit hsn maio (pairUp ma) with
    | .ok hp => pure (.patch (.fh hp) 0)
    | .error _ => pure (.reply (-1) [])
  else if verifyCmd req "SETFORMAT" 1 then do
    let verReq ← toInt (← arg req 1)
    if verReq < 0 ∨ verReq > Gen.Trxd.chdrVersionMax then pure (.reply (-1) [])
    else if ¬ Gen.Trxd.knownVersions.contains verReq then pure (.reply (pickHdrVer verReq) [])
    else pure (.patch (.hdrVer verReq) verReq)
  else if verifyCmd req "SETPOWER" 1 then do
    let att ← toInt (← arg req 1)
    pure (.patch (.txAtt att) 0)
  else if verifyCmd req "NOMTXPOWER" 0 then
    pure (.reply 0 [intToStr trx.txPowerBase])
  else if verifyCmd req "RFMUTE" 1 then do
    let v ← toInt (← arg req 1)
    pure (.patch (.mute (decide (v > 0))) 0)
  else pure (.reply 0 [])

/-- `FakePM.measure(freq)` (called with `fn = None`): is a running, non-hopping transceiver
transmitting on `freq`? -/
def fakePmFound (ts : List Trx) (freq : Int) : Bool :=
  match ts with
  | [] => false
  | t :: ts =>
    if ¬ t.running then fakePmFound ts freq
    else if t.fh.isSome then fakePmFound ts freq          -- `trx.fh is not None and fn is None`
    else if t.txFreq == some freq then true               -- `trx.get_tx_freq(None) == freq`
    else fakePmFound ts freq

def fakePmMeasure (w : World) (freq : Int) : Except Exc (Int × World) :=
  if fakePmFound w.trxs freq then w.randint Gen.World.fakePmTrxMin Gen.World.fakePmTrxMax
  else w.randint Gen.World.fakePmNoiseMin Gen.World.fakePmNoiseMax

/-- carry out an action of transceiver `i` -/
def applyAction (w : World) (i : Nat) : Action → Except Exc (World × CmdRes)
  | .patch p rc => pure (setTrx w i p.apply, (rc, []))
  | .reply rc params => pure (w, (rc, params))
  | .power on => do
    let w ← powerEvent w i on
    pure (w, (0, []))
  | .measure freq => do
    let (dbm, w) ← fakePmMeasure w freq
    pure (w, (0, [intToStr dbm]))

/-- `CTRLInterfaceTRX.parse_cmd(request)` of transceiver `i` -/
def parseCmd (w : World) (i : Nat) (req : List Str) : Except Exc (World × CmdRes) := do
  -- custom command handlers (prioritized)
  let (patch, res) ← ctrlCmdHandler req
  let w := match patch with
    | some p => setTrx w i p.apply
    | none => w
  match res with
  | some rc => pure (w, (rc, []))
  | none =>
    match w.trxs[i]? with
    | none => throw .indexError
    | some trx => do
      let a ← commonCmd trx req
      applyAction w i a

/-- result of one entry point: new world, datagrams emitted (in order), stale reports,
exception leaving the entry point (if any) -/
structure Res where
  world : World
  out : List Dgram := []
  stale : Nat := 0
  exc : Option Exc := none

/-- `CTRLInterface.handle_rx()` of transceiver `i` for a datagram from (srcAddr, srcPort) -/
def handleRx (w : World) (i : Nat) (srcAddr srcPort : Nat) (dgram : List Nat) : Res :=
  match w.trxs[i]? with
  | none => { world := w, exc := some .indexError }
  | some trx =>
  let data := dgram.take Gen.World.ctrlRecvSize
  match decodeUtf8 data with
  | none => { world := w }                                   -- undecodable: ignored
  | some s =>
  if ¬ startsWith s (lit "CMD") then { world := w } else     -- wrong signature: ignored
  let req := splitSpace (stripNul (strip (s.drop 4)))
  -- `request.insert(1, str(rc)); request += params; "RSP " + " ".join(request) + "\0"`
  let respond (w' : World) (rc : Int) (params : List Str) : Res :=
    let fields := match req with
      | [] => [intToStr rc]
      | verb :: args => verb :: intToStr rc :: args
    let resp := lit "RSP " ++ joinSpace (fields ++ params) ++ [0]
    { world := w', out := [⟨trx.ctrlPort, srcAddr, srcPort, encodeUtf8 resp⟩] }
  match parseCmd w i req with
  | .ok (w', (rc, params)) => respond w' rc params
  | .error .valueError => respond w (-1) []                  -- malformed arguments: status -1
  | .error e => { world := w, exc := some e }

/-! ### TRXD (transceiver.py recv_data_msg, data_if.py recv_tx_msg) -/

/-- `Transceiver.recv_data_msg()` of transceiver `i` -/
def recvDataMsg (w : World) (i : Nat) (dgram : List Nat) : Res :=
  match w.trxs[i]? with
  | none => { world := w, exc := some .indexError }
  | some trx =>
  let data := dgram.take Gen.World.dataRecvSize
  match Trxd.TxMsg.parseMsg data with
  | .error _ => { world := w }                               -- `except:` → None
  | .ok msg =>
    if msg.ver ≠ trx.hdrVer then { world := w }              -- match_hdr_ver
    else if ¬ trx.running then { world := w }
    else { world := setTrx w i (fun t => { t with txQueue := t.txQueue ++ [msg] }) }

/-! ### burst path (burst_fwd.py, fake_trx.py handle_data_msg) -/

/-- bits `burst[a:][:n]` -/
def sliceFrom (b : List Nat) (a n : Nat) : List Nat := (b.drop a).take n

/-- `TrainingSeqGMSK.pick(burst)`: (tsc, tsc_set) of the first matching sequence -/
def trainSeqPick (burst : List Nat) : Option (Nat × Nat) :=
  let nb := sliceFrom burst (3 + 57 + 1) 26
  let ab := sliceFrom burst 8 41
  let sb := sliceFrom burst (3 + 39) 64
  match Gen.World.trainSeqs.find? (fun (_, _, bt, seq, _) =>
      (bt == "NORMAL" && seq == nb) || (bt == "ACCESS" && seq == ab) || (bt == "SYNC" && seq == sb)) with
  | some (_, tsc, _, _, set) => some (tsc, set)
  | none => none

/-- `FakeTRX.toa256` / `.rssi` / `.ci` properties: base, or a draw around it -/
def randAround (w : World) (base thr : Int) : Except Exc (Int × World) :=
  if thr = 0 then .ok (base, w) else w.randint (base - thr) (base + thr)

/-- `DATAInterface.send_msg(msg, legacy)` from transceiver `k`'s DATA socket -/
def sendMsg (trx : Trx) (msg : Trxd.RxMsg) (legacy : Bool) : Except Exc (List Dgram) :=
  match Trxd.sendMsg (msg.genMsg legacy) with
  | .ok ds => .ok (ds.map (fun d => ⟨trx.dataPort, trx.addr, trx.dataRemote, d⟩))
  | .error e => .error (ofTrxdExc e)

/-- the NOPE / IDLE indication sent instead of a suppressed burst -/
def nopeMsg (msg : Trxd.RxMsg) : Trxd.RxMsg :=
  { msg with
    nopeInd := true
    burst := none
    toa256 := some Gen.World.toa256Noise
    rssi := some Gen.World.rssiNoise
    ci := some Gen.World.ciNoise }

/-- `FakeTRX.handle_data_msg(self = k, src_trx = j, src_msg, msg)` -/
def handleDataMsg (w : World) (k j : Nat) (srcMsg : Trxd.TxMsg) (msg : Trxd.RxMsg) :
    Except Exc (World × List Dgram) :=
  match w.trxs[k]?, w.trxs[j]? with
  | some self, some src =>
    -- `if self.rf_muted: nope = True  elif not msg.nope_ind: nope = self.sim_burst_drop(msg)`
    let dropped : Except Exc (Bool × World) :=
      if self.rfMuted then .ok (true, w)
      else if ¬ msg.nopeInd then
        -- sim_burst_drop
        if self.dropAmount = 0 then .ok (false, w)
        else match msg.fn with
          | none => .error .typeError
          | some fn =>
            if self.dropPeriod = 0 then .error .zeroDivisionError
            else if Int.fmod fn self.dropPeriod = 0 then
              .ok (true, setTrx w k (fun t => { t with dropAmount := t.dropAmount - 1 }))
            else .ok (false, w)
      else .ok (true, w)
    match dropped with
    | .error e => .error e
    | .ok (nope, w) =>
    if nope then
      if msg.ver < 1 then .ok (w, [])
      else
        match sendMsg self (nopeMsg msg) false with
        | .ok ds => .ok (w, ds)
        | .error e => .error e
    else do
      let (toa, w) ← randAround w self.toaBase self.toaThr
      let (rssi, w) ←
        if ¬ self.fakeRssi then
          match srcMsg.pwr with
          | some pwr => pure (src.txPower - pwr - Gen.World.pathLoss, w)
          | none => throw .typeError
        else randAround w self.rssiBase self.rssiThr
      let m : Trxd.RxMsg := { msg with nopeInd := false, toa256 := some toa, rssi := some rssi }
      let (m, w) ←
        if msg.ver ≥ 1 then do
          let (ci, w) ← randAround w self.ciBase self.ciThr
          match srcMsg.burst with
          | none => throw .typeError
          | some bits =>
            let mod := Trxd.Modulation.pickByBl bits.length
            let (tsc, set) : Int × Int :=
              if mod = some Trxd.Modulation.gmsk then
                match trainSeqPick bits with
                | some (t, s) => ((t : Int), (s : Int))
                | none => (0, 0)
              else (0, 0)
            pure ({ m with ci := some ci, modType := mod, tsc := some tsc, tscSet := some set }, w)
        else pure (m, w)
      let m := if src.ta ≠ 0 then { m with toa256 := some (toa - src.ta * 256) } else m
      let ds ← sendMsg self m true
      pure (w, ds)
  | _, _ => .error .indexError

/-- `BurstForwarder.forward_msg(src_trx = j, rx_msg)` -/
def forwardMsg (w : World) (j : Nat) (msg : Trxd.TxMsg) : Except Exc (World × List Dgram) :=
  match w.trxs[j]? with
  | none => .error .indexError
  | some src =>
    match msg.fn with
    | none => .error .typeError
    | some fnI =>
    let fn := fnI.toNat
    match src.getTxFreq fn with
    | .error e => .error e
    | .ok txFreq =>
      let msg := if src.rfMuted then { msg with burst := none } else msg
      let rec go (w : World) (acc : List Dgram) : List Nat → Except Exc (World × List Dgram)
        | [] => .ok (w, acc)
        | k :: ks =>
          if k = j then go w acc ks else
          match w.trxs[k]? with
          | none => .error .indexError
          | some trx =>
            if ¬ trx.running then go w acc ks else
            match trx.getRxFreq fn with
            | .error e => .error e
            | .ok rxFreq =>
              if rxFreq ≠ txFreq then go w acc ks else
              match msg.trans (some trx.hdrVer) with
              | .error e => .error (ofTrxdExc e)
              | .ok rx =>
                match handleDataMsg w k j msg rx with
                | .error e => .error e
                | .ok (w, ds) => go w (acc ++ ds) ks
      go w [] (List.range w.trxs.length)

/-- classification of a queued burst at tick `fn` (clck_tick) -/
inductive Due | emit | stale | wait
deriving DecidableEq, Repr

def classify (fn : Nat) (m : Trxd.TxMsg) : Due :=
  match m.fn with
  | none => .wait
  | some mfn =>
    if mfn = (fn : Int) then .emit
    else if Int.fmod ((fn : Int) - mfn) (Gen.World.hyperframe : Int) < (Gen.World.hyperframe / 2 : Nat) then .stale
    else .wait

/-- `Transceiver.clck_tick(fwd, fn)` of transceiver `j` -/
def clckTick (w : World) (j : Nat) (fn : Nat) : Except Exc (World × List Dgram × Nat) :=
  match w.trxs[j]? with
  | none => .error .indexError
  | some trx =>
    if ¬ trx.running then .ok (w, [], 0) else
    let emit := trx.txQueue.filter (fun m => classify fn m == .emit)
    let drop := trx.txQueue.filter (fun m => classify fn m == .stale)
    let wait := trx.txQueue.filter (fun m => classify fn m == .wait)
    let w := setTrx w j (fun t => { t with txQueue := wait })
    let rec go (w : World) (acc : List Dgram) : List Trxd.TxMsg → Except Exc (World × List Dgram)
      | [] => .ok (w, acc)
      | m :: ms =>
        match forwardMsg w j m with
        | .error e => .error e
        | .ok (w, ds) => go w (acc ++ ds) ms
    match go w [] emit with
    | .error e => .error e
    | .ok (w, ds) => .ok (w, ds, drop.length)

/-- one clock tick: `CLCKGen.send_clck_ind()` (only called while the generator runs) -/
def tick (w : World) : Res :=
  if ¬ w.clkRunning then { world := w } else
  match w.clkSrc with
  | none => { world := w, exc := some .attributeError }
  | some fn =>
    let inds : List Dgram :=
      if fn % Gen.World.indPeriod = 0 then
        w.clkLinks.filterMap (fun i => (w.trxs[i]?).map (fun t =>
          ⟨t.clckPort, t.addr, t.clckRemote, encodeUtf8 (lit "IND CLOCK " ++ natDigits fn ++ [0])⟩))
      else []
    -- clck_handler: every transceiver in list order
    let rec go (w : World) (acc : List Dgram) (stale : Nat) : List Nat → Res
      | [] => { world := { w with clkSrc := some ((fn + 1) % Gen.World.hyperframe) }, out := acc, stale := stale }
      | j :: js =>
        match clckTick w j fn with
        | .error e => { world := w, out := acc, stale := stale, exc := some e }
        | .ok (w, ds, st) => go w (acc ++ ds) (stale + st) js
    go w inds 0 (List.range w.trxs.length)

/-- the clock jumps to frame `fn` (idle ticks in between are not delivered) -/
def jump (w : World) (fn : Nat) : Res :=
  if w.clkRunning then { world := { w with clkSrc := some fn } } else { world := w }

/-- operations of a history -/
inductive Op
  | ctrl (i srcPort : Nat) (data : List Nat)
  | data (i : Nat) (data : List Nat)
  | tick
  | jump (fn : Nat)
deriving Repr

def step (w : World) : Op → Res
  | .ctrl i sp d =>
    match w.trxs[i]? with
    | some t => handleRx w i t.addr sp d
    | none => { world := w, exc := some .indexError }
  | .data i d => recvDataMsg w i d
  | .tick => tick w
  | .jump fn => jump w fn

/-- run a history, collecting the observation of every operation -/
def run (w : World) : List Op → World × List Res
  | [] => (w, [])
  | op :: ops =>
    let r := step w op
    let (w', rs) := run r.world ops
    (w', r :: rs)

end OsmoVerif.World
