/-
Executable model of the GSM-time one-shot event scheduler of the firmware
(src/target/firmware/layer1/sched_gsmtime.c, include/layer1/sched_gsmtime.h), statement by statement, on top of
the TDMA scheduler model (`Model/TdmaSched.lean`, reused: `tdma_schedule_set` IS `TdmaSched.scheduleSet`).

Conventions (DESIGN.md section 4):
* the two `llist_head` lists `active_evts` / `inactive_evts` are Lean lists of the event structures that are
  linked into them, in list order (`.next` direction); `llist_add(new, head)` = cons, `llist_add_tail(new, head)` =
  append at the end, `llist_add_tail(new, &cur->list)` = insert directly before `cur`, `llist_del` = removal of that
  node.  A `struct sched_gsmtime_event` is a node together with its payload; which element of the array
  `sched_gsmtime_events[16]` it is (`slot`) is its identity and is never written;
* the pool: `sched_gsmtime_init()` links all `ARRAY_SIZE(sched_gsmtime_events)` elements into `inactive_evts`;
  an empty `inactive_evts` is the explicit outcome `-EBUSY` of `sched_gsmtime()`;
* C integers with the declared widths: `uint32_t fn` (parameter and field: conversion modulo 2^32 at the call),
  `uint16_t p3`, `fn_sched = (fn + SCHEDULE_AHEAD) % GSM_MAX_FN` with the sum computed in `unsigned int` (32 bit,
  wraps) before the reduction, `SCHEDULE_AHEAD - SCHEDULE_LATENCY` in `int` and converted to the `uint8_t frame_offset` parameter; `int num`;
* `const struct tdma_sched_item *si` is the array it points to (the item set as `tdma_schedule_set` will read
  it; the pointed-to memory is constant).  `NULL` (the zero-initialised field) is the empty array: every read
  from it is out of bounds (`Fault.oob` in `TdmaSched.scheduleSetLoop`);
* the value returned by `tdma_schedule_set()` is ignored by `sched_gsmtime_execute()` (an overflowing bucket goes
  unnoticed); the model records it in the `Call` it reports;
* `printd()` is compiled out (no DEBUG).
-/
import OsmoVerif.Gen.SchedGsmtime
import OsmoVerif.Model.TdmaSched

namespace OsmoVerif.SchedGsmtime
open OsmoVerif
open OsmoVerif.TdmaSched (Item Sched Fault Env u16)

/-- conversion to `uint32_t` -/
def u32 (n : Nat) : Nat := n % 4294967296
/-- conversion of an `int` to `uint32_t` -/
def u32i (z : Int) : Nat := (z % 4294967296).toNat
/-- conversion of an `int` to `uint8_t` -/
def u8i (z : Int) : Nat := (z % 256).toNat

/-- `struct sched_gsmtime_event`, element `slot` of `sched_gsmtime_events[]` -/
structure Event where
  slot : Nat
  si : List Item
  fn : Nat
  p3 : Nat
  deriving DecidableEq, Repr

/-- the static state of sched_gsmtime.c: the two lists (all events are in exactly one of them after
`sched_gsmtime_init()`) -/
structure GState where
  active : List Event
  inactive : List Event
  deriving DecidableEq, Repr

/-- one `tdma_schedule_set(frame_offset, si, p3)` call made by `sched_gsmtime_execute()`: the event (slot) it
was made for, the arguments, and the (ignored) result -/
structure Call where
  slot : Nat
  off : Nat
  si : List Item
  p3 : Nat
  rc : Int
  deriving DecidableEq, Repr

/-- zero-initialised element `i` of the array (.bss) -/
def zeroEvent (i : Nat) : Event := ⟨i, [], 0, 0⟩

/-- `for (i = 0; i < ARRAY_SIZE(sched_gsmtime_events); i++) llist_add(&sched_gsmtime_events[i].list, &inactive_evts);`
(`rem` = iterations left) -/
def initLoop : (rem : Nat) → (i : Nat) → (inactive : List Event) → List Event
  | 0, _, inactive => inactive
  | rem + 1, i, inactive => initLoop rem (i + 1) (zeroEvent i :: inactive)

/-- the state after `sched_gsmtime_init()` on the statically initialised (empty) lists -/
def init : GState := ⟨[], initLoop Gen.sgNumEvents 0 []⟩

/-- the `llist_for_each_entry(cur, &active_evts, list)` loop of `sched_gsmtime()`: insert the new event before
the first entry that has a higher fn, else append at the end of the list -/
def insertSorted (evt : Event) : List Event → List Event
  | [] => [evt]                                      -- llist_add_tail(lh, &active_evts);
  | cur :: rest =>
    if cur.fn > evt.fn then evt :: cur :: rest       -- llist_add_tail(lh, &cur->list); return 0;
    else cur :: insertSorted evt rest

/-- `-EBUSY` -/
def eBusy : Int := -(Gen.sgEBUSY : Int)

/-- `sched_gsmtime(si, fn, p3)`; returns the new state and the `int` result -/
def sched (g : GState) (si : List Item) (fn p3 : Nat) : GState × Int :=
  let fn := u32 fn
  let p3 := u16 p3
  match g.inactive with
  | [] => (g, eBusy)                                 -- if (llist_empty(&inactive_evts)) return -EBUSY;
  | lh :: inactive =>
    -- lh = inactive_evts.next; llist_del(lh); evt->fn = fn; evt->si = si; evt->p3 = p3;
    let evt : Event := { lh with fn := fn, si := si, p3 := p3 }
    (⟨insertSorted evt g.active, inactive⟩, 0)

/-- `uint32_t fn_sched = (fn + SCHEDULE_AHEAD) % GSM_MAX_FN;` — the sum `uint32_t + int` is computed in
`unsigned int` (32 bit, wraps), then reduced modulo the hyperframe; `% 0` is the outcome `Fault.divZero` -/
def aheadOf (fn : Nat) : Except Fault Nat :=
  if Gen.sgGsmMaxFn = 0 then .error .divZero
  else .ok (u32 (u32i ((fn : Int) + Gen.sgScheduleAhead) % Gen.sgGsmMaxFn))

/-- `SCHEDULE_AHEAD-SCHEDULE_LATENCY` as the `uint8_t frame_offset` argument -/
def frameOffset : Nat := u8i (Gen.sgScheduleAhead - Gen.sgScheduleLatency)

/-- the variables of the loop of `sched_gsmtime_execute`: `active` = the entries of `active_evts` already passed
that stayed in the list (in order; at the end: the whole list), `inactive_evts`, the TDMA scheduler, `num`,
and the `tdma_schedule_set` calls made so far -/
structure ExecRes where
  active : List Event
  inactive : List Event
  tdma : Sched
  num : Int
  calls : List Call
  deriving DecidableEq, Repr

/-- the first `if` of the loop body: `if (evt->fn == fn_sched) { ... }` -/
def fireIf (tgt : Nat) (evt : Event) (r : ExecRes) : Except Fault ExecRes :=
  if evt.fn = tgt then do
    -- tdma_schedule_set(SCHEDULE_AHEAD-SCHEDULE_LATENCY, evt->si, evt->p3);   (result ignored)
    let (s, rc) ← TdmaSched.scheduleSet r.tdma frameOffset evt.si evt.p3
    -- llist_del(&evt->list); llist_add(&evt->list, &inactive_evts); num++;
    return { r with inactive := evt :: r.inactive, tdma := s, num := r.num + 1,
                    calls := r.calls ++ [(⟨evt.slot, frameOffset, evt.si, evt.p3, rc⟩ : Call)] }
  else
    -- the event stays where it is
    return { r with active := r.active ++ [evt] }

/-- the `llist_for_each_entry_safe(evt, evt2, &active_evts, list)` loop of `sched_gsmtime_execute`:
`rest` = the entries from `evt` on.  The body has two independent `if`s (`} if (` — there is no `else`):
the second one, `if (evt->fn > fn_sched) break;`, is evaluated for every event. -/
def execLoop (tgt : Nat) : (rest : List Event) → ExecRes → Except Fault ExecRes
  | [], r => .ok r
  | evt :: rest, r => do
    let r ← fireIf tgt evt r
    if evt.fn > tgt then
      -- break the loop as our list is ordered: the entries behind `evt` stay in the list
      .ok { r with active := r.active ++ rest }
    else
      execLoop tgt rest r

/-- `sched_gsmtime_execute(fn)`: new lists, new TDMA scheduler state, the `int` result, the calls made -/
def execute (g : GState) (s : Sched) (fn : Nat) : Except Fault (GState × Sched × Int × List Call) := do
  let fn := u32 fn
  let fnSched ← aheadOf fn
  let r ← execLoop fnSched g.active ⟨[], g.inactive, s, 0, []⟩
  return (⟨r.active, r.inactive⟩, r.tdma, r.num, r.calls)

/-- the `llist_for_each_entry_safe` loop of `sched_gsmtime_reset`: every active event is unlinked and put at
the head of the inactive list -/
def resetLoop : (rest : List Event) → (inactive : List Event) → List Event
  | [], inactive => inactive
  | evt :: rest, inactive => resetLoop rest (evt :: inactive)

/-- `sched_gsmtime_reset()` -/
def reset (g : GState) : GState := ⟨[], resetLoop g.active g.inactive⟩

/-! ### the two schedulers together: operations and histories -/

/-- the state of both schedulers -/
structure Sys where
  g : GState
  s : Sched
  deriving DecidableEq, Repr

inductive SOp where
  /-- `sched_gsmtime(si, fn, p3)` -/
  | gsched (si : List Item) (fn p3 : Nat)
  /-- `sched_gsmtime_execute(fn)` -/
  | gexec (fn : Nat)
  /-- `sched_gsmtime_reset()` -/
  | greset
  /-- an operation of the TDMA scheduler -/
  | tdma (op : TdmaSched.Op)
  deriving DecidableEq, Repr

/-- observable result of one operation: the return value (`0` for `void`), the callbacks run (by
`tdma_sched_execute`), the `tdma_schedule_set` calls made (by `sched_gsmtime_execute`) -/
structure SOut where
  rc : Int
  ran : List Item
  calls : List Call
  deriving DecidableEq, Repr

def sstep (env : Env) (st : Sys) : SOp → Except Fault (Sys × SOut)
  | .gsched si fn p3 =>
    let (g, rc) := sched st.g si fn p3
    .ok (⟨g, st.s⟩, ⟨rc, [], []⟩)
  | .gexec fn => do
    let (g, s, num, calls) ← execute st.g st.s fn
    return (⟨g, s⟩, ⟨num, [], calls⟩)
  | .greset => .ok (⟨reset st.g, st.s⟩, ⟨0, [], []⟩)
  | .tdma op => do
    let (s, o) ← TdmaSched.step env st.s op
    return (⟨st.g, s⟩, ⟨o.rc, o.ran, []⟩)

/-- a history: the outputs of all operations, in order -/
def srun (env : Env) : Sys → List SOp → Except Fault (Sys × List SOut)
  | st, [] => .ok (st, [])
  | st, op :: ops => do
    let (st, o) ← sstep env st op
    let (st, os) ← srun env st ops
    return (st, o :: os)

/-! ### the frame interrupt (`l1_sync()`, layer1/sync.c)

Per TDMA frame interrupt the firmware runs, in this order (sync.c:216-287):
`l1s.current_time = l1s.next_time; l1s_time_inc(&l1s.next_time, 1);` … `tdma_sched_execute();` …
`mframe_schedule();` `sched_gsmtime_execute(l1s.current_time.fn);` `tdma_sched_advance();`.
Everything else the firmware does with the two schedulers (`sched_gsmtime()` from l1a_rach_req / l1a_freq_req
with the frame interrupt masked, `tdma_schedule*()` from L1A requests, from callbacks' completions and from
`mframe_schedule()`) is traffic between these calls: `pre` before `tdma_sched_execute()`, `mid` between it and
`sched_gsmtime_execute()`. -/

structure Frame where
  /-- `l1s.current_time.fn` of this frame -/
  fn : Nat
  pre : List SOp
  mid : List SOp
  deriving DecidableEq, Repr

structure FrameOut where
  pre : List SOut
  /-- result of `tdma_sched_execute()` -/
  exec : TdmaSched.Out
  mid : List SOut
  /-- result of `sched_gsmtime_execute(fn)` -/
  num : Int
  calls : List Call
  deriving DecidableEq, Repr

def l1Sync (env : Env) (st : Sys) (fr : Frame) : Except Fault (Sys × FrameOut) := do
  let (st, pre) ← srun env st fr.pre
  let (s, ex) ← TdmaSched.step env st.s .execute
  let (st, mid) ← srun env ⟨st.g, s⟩ fr.mid
  let (g, s, num, calls) ← execute st.g st.s fr.fn
  let s ← TdmaSched.advance s
  return (⟨g, s⟩, ⟨pre, ex, mid, num, calls⟩)

def runFrames (env : Env) : Sys → List Frame → Except Fault (Sys × List FrameOut)
  | st, [] => .ok (st, [])
  | st, fr :: frs => do
    let (st, o) ← l1Sync env st fr
    let (st, os) ← runFrames env st frs
    return (st, o :: os)

/-- the same frame as a plain list of operations (the form in which histories are run on the real code) -/
def frameOps (fr : Frame) : List SOp :=
  fr.pre ++ [.tdma .execute] ++ fr.mid ++ [.gexec fr.fn, .tdma .advance]

end OsmoVerif.SchedGsmtime
