/-
Model of the transceiver interface of trxcon, `src/host/trxcon/src/trx_if.c`, statement by
statement, with C integer widths and explicit buffer capacities:

  * `trx_data_rx_cb`                    -> `cRx`
  * `trx_if_handle_phyif_burst_req`     -> `cTx`
  * `trx_ctrl_cmd`, `trx_ctrl_send`, `trx_if_cmd_*`, `trx_if_handle_phyif_cmd` -> `cPhyCmd`
  * `trx_ctrl_read_cb`, `trx_if_measure_rsp_cb`                                 -> `cReadCb`

and of the environment these functions are compiled against:
  * `gsm_arfcn2freq10`   (in-tree src/shared/libosmocore/src/gsm/gsm_utils.c)
  * `gsm_freq102arfcn`   (libosmocore; transcribed in harness/c/trxcon/shim_impl.c)
  * libc `snprintf` (truncation), `strncmp`, `strchr`, `strlen`, `sscanf("%d")`,
    `sscanf("%u %d")` as implemented by glibc (strtol/strtoul saturation, then truncation to
    32 bit)
  * `osmo_fsm_inst_state_chg` (out_state_mask check), `osmo_fsm_inst_term`, timers: recorded.

Conventions: octets and characters are `Nat` (< 256), C strings are lists WITHOUT the
terminating NUL, a buffer is the list of its initialised octets plus a capacity.  Whatever
the real code would do on a NULL pointer, outside a buffer, or with a value that was never
written is a `Fault` (`crash` = what ASan/UBSan/SIGSEGV report, `uninit` = what MSan reports),
never a default value.  Constants and tables come from `Gen.Trxcon` (regenerated).
No Mathlib.
-/
import OsmoVerif.Gen.Trxcon

namespace OsmoVerif.TrxconIf
open OsmoVerif.Gen.Trxcon

/-! ### C integer types -/

def u8 (x : Nat) : Nat := x % 256
def u16 (x : Nat) : Nat := x % 65536
def u32 (x : Nat) : Nat := x % 4294967296

/-- conversion of an `int` value to `uint16_t` / `uint32_t` / 64 bit -/
def u16i (x : Int) : Nat := (x % 65536).toNat
def u32i (x : Int) : Nat := (x % 4294967296).toNat
def u64i (x : Int) : Nat := (x % 18446744073709551616).toNat

/-- `(int8_t)` of an octet -/
def s8 (b : Nat) : Int := if b % 256 < 128 then ((b % 256 : Nat) : Int) else ((b % 256 : Nat) : Int) - 256
/-- `(int16_t)` of an unsigned value (wraps modulo 2^16) -/
def s16 (u : Nat) : Int := if u % 65536 < 32768 then ((u % 65536 : Nat) : Int) else ((u % 65536 : Nat) : Int) - 65536
/-- `(int)` of an unsigned 32 bit pattern -/
def s32 (u : Nat) : Int := if u % 4294967296 < 2147483648 then ((u % 4294967296 : Nat) : Int) else ((u % 4294967296 : Nat) : Int) - 4294967296
/-- conversion of an `int` to `int8_t` / `int16_t` / `int` (two's complement wrap) -/
def s8i (x : Int) : Int := s8 (x % 256).toNat
def s16i (x : Int) : Int := s16 (x % 65536).toNat
def s32i (x : Int) : Int := s32 (x % 4294967296).toNat

/-- `a | b` on `int` operands (two's complement, 32 bit) -/
def orInt (a b : Int) : Int := s32 (u32i a ||| u32i b)

inductive Fault where
  /-- NULL dereference or access outside an object (SIGSEGV / ASan / UBSan) -/
  | crash
  /-- a value that was never written influences the outcome (MSan) -/
  | uninit
deriving DecidableEq, Repr

/-- read octet `i` of a buffer of capacity `cap` whose first `mem.length` octets are initialised -/
def rd (mem : List Nat) (cap i : Nat) : Except Fault Nat :=
  if i ≥ cap then .error .crash
  else match mem[i]? with
    | some b => .ok b
    | none => .error .uninit

/-- write octet `i` (in place) -/
def wr (mem : List Nat) (cap i v : Nat) : Except Fault (List Nat) :=
  if i ≥ cap then .error .crash
  else if i < mem.length then .ok (mem.set i v)
  else if i = mem.length then .ok (mem ++ [v])
  else .error .uninit   -- would leave a gap of unwritten octets; not needed by the code modelled

/-! ### TRXD receive path: `trx_data_rx_cb` -/

/-- `struct trxcon_phyif_burst_ind` as handed to `trxcon_phyif_handle_burst_ind` (burst copied) -/
structure BurstInd where
  tn : Nat
  fn : Nat
  rssi : Int
  toa256 : Int
  burst : List Int
deriving DecidableEq, Repr

/-- `struct trxcon_phyif_rts_ind` -/
structure RtsInd where
  fn : Nat
  tn : Nat
deriving DecidableEq, Repr

inductive RxOut where
  /-- returned `rc` without indicating anything -/
  | ret (rc : Int)
  /-- burst indication and RTS indication handed over, return 0 -/
  | ind (bi : BurstInd) (rts : RtsInd)
  | fault (f : Fault)
deriving DecidableEq, Repr

/-- `osmo_load32be(buf + off)` -/
def load32be (mem : List Nat) (cap off : Nat) : Except Fault Nat := do
  let a ← rd mem cap off
  let b ← rd mem cap (off + 1)
  let c ← rd mem cap (off + 2)
  let d ← rd mem cap (off + 3)
  pure (u32 (a * 16777216) ||| u32 (b * 65536) ||| u32 (c * 256) ||| d)

/-- one iteration body of the ubit→sbit loop: the value stored into `burst[i]` (an `sbit_t`),
as the octet that ends up in memory -/
def sbitOctet (b : Nat) : Nat :=
  if b = 255 then u8 (256 - 127)          -- burst[i] = -127
  else u8 (256 + 127 - b)                 -- burst[i] = 127 - buf[8 + i]   (int → int8_t)

/-- `for (i = 0; i < bi.burst_len; i++) { ... }` — `n` iterations left, in place -/
def convLoop (cap : Nat) : (mem : List Nat) → (i n : Nat) → Except Fault (List Nat)
  | mem, _, 0 => .ok mem
  | mem, i, n + 1 => do
      let b ← rd mem cap (8 + i)
      let mem' ← wr mem cap (8 + i) (sbitOctet b)
      convLoop cap mem' (i + 1) n

/-- the `n` soft bits at `burst = (sbit_t *) &buf[8]`, as the stub copies them -/
def readBurst (cap : Nat) (mem : List Nat) : (i n : Nat) → Except Fault (List Int)
  | _, 0 => .ok []
  | i, n + 1 => do
      let b ← rd mem cap (8 + i)
      let rest ← readBurst cap mem (i + 1) n
      pure (s8 b :: rest)

/-- `switch (read_len)` after `read_len -= TRXDv0_HDR_LEN`: the burst length, `none` = default
branch (`return -EINVAL`) -/
def burstLenSwitch (rl : Nat) : Option Nat :=
  if rl = nbitsGmsk + 2 ∨ rl = nbits8psk + 2 then some (rl - 2)     -- read_len -= 2
  else if rl = nbitsGmsk ∨ rl = nbits8psk then some rl
  else none

/-- from `bi = (struct trxcon_phyif_burst_ind) { ... }` to the end of `trx_data_rx_cb` -/
def cRxInd (buf : List Nat) (fnAdvance b0 burstLen : Nat) : Except Fault RxOut := do
  let cap := trxdBufSize
  let tn := b0 &&& 7
  let fn ← load32be buf cap 1
  let b5 ← rd buf cap 5
  let rssi := s8i (-(s8 b5))                          -- .rssi = -(int8_t) buf[5]
  let b6 ← rd buf cap 6
  let b7 ← rd buf cap 7
  let toa := s16i (orInt (s16 (b6 <<< 8)) (b7 : Int))   -- .toa256 = (int16_t) (buf[6] << 8) | buf[7]
  -- Convert ubits {254..0} to sbits {-127..127} in-place
  let mem ← convLoop cap buf 0 burstLen
  if fn ≥ gsmTdmaHyperframe then return .ret (-eINVAL)
  let burst ← readBurst cap mem 0 burstLen            -- the stub copies bi.burst[0 .. burst_len)
  -- rts.fn = GSM_TDMA_FN_SUM(bi.fn, trx->fn_advance)  (uint32_t arithmetic)
  let rtsFn := u32 (fn + u32 fnAdvance) % gsmTdmaHyperframe
  return .ind ⟨tn, fn, rssi, toa, burst⟩ ⟨rtsFn, tn⟩

def cRxBody (buf : List Nat) (fnAdvance : Nat) : Except Fault RxOut := do
  let cap := trxdBufSize
  -- if ((buf[0] >> 4) != 0) return -ENOTSUP;
  let b0 ← rd buf cap 0
  if b0 / 16 ≠ 0 then return .ret (-eNOTSUP)
  -- read_len -= TRXDv0_HDR_LEN; switch (read_len)
  match burstLenSwitch (buf.length - trxdv0HdrLen) with
  | none => return .ret (-eINVAL)
  | some burstLen => cRxInd buf fnAdvance b0 burstLen

/-- `trx_data_rx_cb` for the datagram `d` waiting on the data socket -/
def cRx (d : List Nat) (fnAdvance : Nat) : RxOut :=
  -- read_len = read(ofd->fd, buf, sizeof(buf));  a datagram is cut to the buffer size
  let buf := d.take trxdBufSize
  let readLen := buf.length
  if readLen = 0 then .ret 0                              -- if (read_len <= 0) return read_len;
  else if readLen < trxdv0HdrLen then .ret (-eINVAL)
  else match cRxBody buf fnAdvance with
    | .ok o => o
    | .error f => .fault f

/-! ### TRXD transmit path: `trx_if_handle_phyif_burst_req` -/

/-- `struct trxcon_phyif_burst_req`; `burst` is the object `br->burst` points to (NULL when
empty), `burstLen` the separate length field -/
structure BurstReq where
  tn : Nat
  fn : Nat
  pwr : Nat
  burst : List Nat
  burstLen : Nat
deriving DecidableEq, Repr

inductive TxOut where
  /-- return code and the octets passed to `send()` -/
  | sent (rc : Int) (dgram : List Nat)
  | fault (f : Fault)
deriving DecidableEq, Repr

/-- `osmo_store32be(x, p)` -/
def store32be (x : Nat) : List Nat :=
  [(x >>> 24) &&& 255, (x >>> 16) &&& 255, (x >>> 8) &&& 255, x &&& 255]

def cTx (br : BurstReq) : TxOut :=
  let cap := trxdBufSize
  -- buf[0] = br->tn; osmo_store32be(br->fn, buf + 1); buf[5] = br->pwr; length = 6;
  let hdr := [u8 br.tn] ++ store32be (u32 br.fn) ++ [u8 br.pwr]
  let burstLen := u32 br.burstLen
  if burstLen ≠ 0 then
    -- memcpy(buf + 6, br->burst, br->burst_len)
    if br.burst.length < burstLen then .fault .crash       -- reads beyond the source object / NULL
    else if 6 + burstLen > cap then .fault .crash          -- writes beyond buf[TRXD_BUF_SIZE]
    else .sent 0 (hdr ++ br.burst.take burstLen)
  else .sent 0 hdr

/-! ### libc helpers on C strings -/

def ch (c : Char) : Nat := c.toNat
def str (s : String) : List Nat := s.toList.map Char.toNat

/-- digits of `n`, most significant first; `fuel` decimal places are enough for `n < 10^fuel` -/
def decFuel : Nat → Nat → List Nat
  | 0, _ => []
  | f + 1, n => if n < 10 then [48 + n] else decFuel f (n / 10) ++ [48 + n % 10]

/-- `%u` of an `unsigned int` argument (an `int` argument is reinterpreted) -/
def fmtU (n : Nat) : List Nat := decFuel 10 (u32 n)

/-- `%d` of an `int` argument -/
def fmtD (x : Int) : List Nat :=
  let v := s32i x
  if v < 0 then 45 :: decFuel 10 v.natAbs else decFuel 10 v.toNat

/-- `snprintf(dst, size, ...)` where the complete output would be `s`: the characters stored
(a NUL follows them; nothing at all is stored when `size = 0`); the return value is `s.length` -/
def snprintfStored (size : Nat) (s : List Nat) : List Nat := s.take (size - 1)

/-- `isspace()` in the C locale -/
def isSpace (c : Nat) : Bool := c == 32 || (9 ≤ c && c ≤ 13)
def isDigit (c : Nat) : Bool := 48 ≤ c && c ≤ 57

/-- consume decimal digits, accumulating the (unbounded) value -/
def scanDigits : List Nat → Nat → Nat × List Nat
  | [], acc => (acc, [])
  | c :: cs, acc => if isDigit c then scanDigits cs (10 * acc + (c - 48)) else (acc, c :: cs)

/-- optional sign of a numeric conversion -/
def scanSign : List Nat → Bool × List Nat
  | 45 :: t => (true, t)
  | 43 :: t => (false, t)
  | s => (false, s)

/-- the numeric conversion of scanf (`%d`, `%u`): skip white space, optional sign, at least
one digit.  Result: (negative?, magnitude, rest) or `none` (matching/input failure: nothing
is stored) -/
def scanNum (s : List Nat) : Option (Bool × Nat × List Nat) :=
  let sg := scanSign (s.dropWhile isSpace)
  match sg.2 with
  | c :: _ => if isDigit c then some (sg.1, (scanDigits sg.2 0).1, (scanDigits sg.2 0).2) else none
  | [] => none

/-- value stored by `%d` into an `int`: glibc converts with `strtol` (saturating at
LONG_MIN/LONG_MAX, 64 bit) and stores `(int)` of it -/
def valD (neg : Bool) (m : Nat) : Int :=
  let l : Int := if neg then (if m > 9223372036854775808 then -9223372036854775808 else -(m : Int))
                 else (if m > 9223372036854775807 then 9223372036854775807 else (m : Int))
  s32i l

/-- value stored by `%u` into an `unsigned int`: `strtoul` (saturating at ULONG_MAX; a minus
sign negates modulo 2^64), then truncated to 32 bit -/
def valU (neg : Bool) (m : Nat) : Nat :=
  let ul : Nat := if m > 18446744073709551615 then 18446744073709551615
                  else if neg then u64i (-(m : Int)) else m
  u32 ul

/-- `sscanf(s, "%d", &x)`: `some x` iff it returns 1 -/
def sscanfD (s : List Nat) : Option Int :=
  match scanNum s with
  | some (neg, m, _) => some (valD neg m)
  | none => none

/-- `sscanf(s, "%u %d", &a, &b)`: `some (a, b)` iff it returns 2 -/
def sscanfUD (s : List Nat) : Option (Nat × Int) :=
  match scanNum s with
  | some (neg, m, rest) =>
    -- the blank in the format skips any white space, and so does `%d` itself
    match scanNum rest with
    | some (neg2, m2, _) => some (valU neg m, valD neg2 m2)
    | none => none
  | none => none

/-- the C string at offset `off` of a character buffer of capacity `cap` whose first
`mem.length` octets are initialised: characters up to the first NUL -/
def cstrAt (mem : List Nat) (cap off : Nat) : Except Fault (List Nat) :=
  if off ≥ cap then .error .crash
  else
    let t := mem.drop off
    if t.contains 0 then .ok (t.takeWhile (· ≠ 0))
    else if mem.length ≥ cap then .error .crash     -- runs off the end of the object
    else .error .uninit                             -- runs into octets never written

/-- `strncmp(a, b, n) == 0` for C strings -/
def strncmpEq (a b : List Nat) (n : Nat) : Bool := a.take n == b.take n

/-- `strchr(s, c)` as an index into `s`, `none` = NULL -/
def strchrIdx (s : List Nat) (c : Nat) : Option Nat :=
  let i := s.idxOf c
  if i < s.length then some i else none

/-! ### `gsm_arfcn2freq10`, `gsm_freq102arfcn` -/

def arfcnPCS : Nat := 32768
def arfcnUPLINK : Nat := 16384
def arfcnFlagMask : Nat := 61440

/-- the `if`/`else if` chain of in-tree `gsm_arfcn2freq10`: (freq10_ul, freq10_dl − freq10_ul) as
`int` values, `none` = the final `else return 0xffff` -/
def arfcnBand (isPcs : Bool) (a : Int) : Option (Int × Int) :=
  if isPcs then some (18502 + 2 * (a - 512), 800)                      -- DCS 1900
  else if a ≤ 124 then some (8900 + 2 * a, 450)                        -- Primary GSM + ARFCN 0 of E-GSM
  else if a ≥ 955 ∧ a ≤ 1023 then some (8900 + 2 * (a - 1024), 450)    -- E-GSM and R-GSM
  else if a ≥ 128 ∧ a ≤ 251 then some (8242 + 2 * (a - 128), 450)      -- GSM 850
  else if a ≥ 512 ∧ a ≤ 885 then some (17102 + 2 * (a - 512), 950)     -- DCS 1800
  else if a ≥ 259 ∧ a ≤ 293 then some (4506 + 2 * (a - 259), 100)      -- GSM 450
  else if a ≥ 306 ∧ a ≤ 340 then some (4790 + 2 * (a - 306), 100)      -- GSM 480
  else if a ≥ 350 ∧ a ≤ 425 then some (8060 + 2 * (a - 350), 450)      -- GSM 810
  else if a ≥ 438 ∧ a ≤ 511 then some (7472 + 2 * (a - 438), 300)      -- GSM 750
  else none

/-- in-tree `gsm_arfcn2freq10(arfcn, uplink)`; 0xffff = not defined -/
def arfcn2freq10 (arfcn : Nat) (uplink : Bool) : Nat :=
  let arfcn := u16 arfcn
  let isPcs := arfcn &&& arfcnPCS                                       -- int is_pcs = arfcn & ARFCN_PCS
  let a : Int := ((arfcn &&& (65535 - arfcnFlagMask) : Nat) : Int)     -- arfcn &= ~ARFCN_FLAG_MASK
  match arfcnBand (isPcs != 0) a with
  | none => 65535
  | some (ul, off) =>
    let ul := u16i ul                 -- uint16_t freq10_ul
    let dl := u16 (ul + off.toNat)    -- uint16_t freq10_dl = freq10_ul + off
    if uplink then ul else dl

/-- `struct gsm_freq_range gsm_ranges[]` of libosmocore:
(arfcn_first, arfcn_last, freq_ul_first, freq_dl_offset, flags) -/
def gsmRanges : List (Nat × Nat × Nat × Nat × Nat) :=
  [ (512, 810, 18502, 800, 32768), (0, 124, 8900, 450, 0), (955, 1023, 8762, 450, 0),
    (128, 251, 8242, 450, 0), (512, 885, 17102, 950, 0), (259, 293, 4506, 100, 0),
    (306, 340, 4790, 100, 0), (350, 425, 8060, 450, 0), (438, 511, 7472, 300, 0) ]

/-- `gsm_freq102arfcn(freq10, uplink)`; 0xffff = not found (before the uplink flag is or-ed in) -/
def freq102arfcn (freq10 : Nat) (uplink : Bool) : Nat :=
  let freq10 := u16 freq10
  let rec go : List (Nat × Nat × Nat × Nat × Nat) → Nat
    | [] => 65535
    | (first, last, ulFirst, dlOff, flags) :: rest =>
      let lo0 := ulFirst
      let hi0 := u16 (lo0 + 2 * (last - first))
      let lo := if uplink then lo0 else u16 (lo0 + dlOff)
      let hi := if uplink then hi0 else u16 (hi0 + dlOff)
      if freq10 ≥ lo ∧ freq10 ≤ hi then u16 (first + ((freq10 - lo) >>> 1)) ||| flags
      else go rest
  let arfcn := go gsmRanges
  if uplink then arfcn ||| arfcnUPLINK else arfcn

/-! ### TRXC: state, recorder, `trx_ctrl_cmd`, `trx_ctrl_send` -/

/-- what the environment stubs record, in call order -/
inductive Event where
  | chg (s : Nat)                 -- osmo_fsm_inst_state_chg succeeded
  | denied (s : Nat)              -- not permitted by out_state_mask (-EPERM, state unchanged)
  | term (cause : Nat)            -- osmo_fsm_inst_term
  | timerSched (sec usec : Nat)
  | timerDel
deriving DecidableEq, Repr

/-- `struct trx_ctrl_msg`: `cmd` holds the initialised prefix of the zero-filled `cmd[]` array -/
structure CtrlMsg where
  cmd : List Nat
  critical : Int
  cmdLen : Nat
deriving DecidableEq, Repr

/-- the part of `struct trx_instance` (and of its FSM instance) the functions touch, plus the
recorders -/
structure Trx where
  queue : List CtrlMsg := []       -- trx_ctrl_list
  state : Nat                      -- fi->state
  prevState : Nat
  poweredUp : Bool := false
  ev : List Event := []            -- recorded events (oldest first)
  sent : List (List Nat) := []     -- datagrams passed to send() on the control socket
  elog : Bool := false             -- something of level >= LOGL_ERROR was logged
  rsp : Option (Nat × Int) := none -- trxcon_phyif_handle_rsp(MEASURE: band_arfcn, dbm)
deriving DecidableEq, Repr

/-- `osmo_fsm_inst_state_chg(fi, new, 0, 0)`: `fsm->states[fi->state].out_state_mask` -/
def fsmChg (t : Trx) (new : Nat) : Except Fault Trx :=
  match fsmOutMask[t.state]? with
  | none => .error .crash
  | some mask =>
    if new < 32 ∧ (mask >>> new) % 2 = 1 then .ok { t with state := new, ev := t.ev ++ [Event.chg new] }
    else .ok { t with ev := t.ev ++ [Event.denied new] }

/-- the C string in a zero-filled `cmd[]` array at offset `off` (always terminated: the array
is one octet longer than anything stored) -/
def cmdStrAt (m : CtrlMsg) (off : Nat) : List Nat := (m.cmd.drop off).takeWhile (· ≠ 0)

/-- `trx_ctrl_send` -/
def ctrlSend (t : Trx) : Except Fault Trx :=
  match t.queue with
  | [] => .ok t
  | tcm :: _ => do
    -- send(fd, tcm->cmd, strlen(tcm->cmd) + 1, 0)
    let t := { t with sent := t.sent ++ [cmdStrAt tcm 0 ++ [0]] }
    let t ← if t.state ≠ stRspWait then
              fsmChg { t with prevState := t.state } stRspWait
            else pure t
    pure { t with ev := t.ev ++ [Event.timerSched 2 0] }

/-- "Fill in command arguments" of `trx_ctrl_cmd`: the string left in the zeroed `tcm->cmd`;
`args = none` when `fmt` is empty, otherwise the complete text the format and its arguments
expand to -/
def ctrlCmdText (verb : List Nat) (args : Option (List Nat)) : Except Fault (List Nat) :=
  let size := cmdSize
  match args with
  | some a =>
    -- len = snprintf(tcm->cmd, sizeof(tcm->cmd) - 1, "CMD %s ", cmd);
    let pre := str "CMD " ++ verb ++ [32]
    let len := pre.length
    let stored := snprintfStored (size - 1) pre
    -- vsnprintf(tcm->cmd + len, sizeof(tcm->cmd) - len - 1, fmt, ap);
    if len ≥ size then .error .crash            -- size argument wraps around / pointer outside cmd[]
    else .ok (stored ++ snprintfStored (size - len - 1) a)
  | none => .ok (snprintfStored (size - 1) (str "CMD " ++ verb))

/-- `trx_ctrl_cmd(trx, critical, cmd, fmt, ...)` -/
def ctrlCmd (t : Trx) (critical : Int) (verb : List Nat) (args : Option (List Nat)) : Except Fault (Int × Trx) := do
  let pending := !t.queue.isEmpty
  let text ← ctrlCmdText verb args
  let tcm : CtrlMsg := { cmd := text, critical := critical, cmdLen := verb.length }
  let t := { t with queue := t.queue ++ [tcm] }
  let t ← if !pending then ctrlSend t else pure t
  pure (0, t)

/-! ### `trx_if_cmd_*`, `trx_if_handle_phyif_cmd` -/

/-- `struct trxcon_phyif_cmd`; `ma` is the array `cmdp->ma` points to (NULL when empty), `maLen`
the separate count; `raw` = a type value outside the enum -/
inductive PhyCmd where
  | reset | poweron | poweroff
  | measure (arfcn : Nat)
  | setfreqH0 (arfcn : Nat)
  | setfreqH1 (hsn maio maLen : Nat) (ma : List Nat)
  | setslot (tn pchan : Nat)
  | setta (ta : Int)
  | raw (type : Nat)
deriving DecidableEq, Repr

/-- the text appended for one ARFCN: `"%u %u "` of the Rx and Tx frequency in kHz -/
def pairText (rx tx : Nat) : List Nat := fmtU (rx * 100) ++ [32] ++ fmtU (tx * 100) ++ [32]

/-- the loop of `trx_if_cmd_setfh`: `rest` = the part `ma[i ..]` of the array still ahead,
`n` = iterations left (`ma_len - i`), `mem` = the octets of `ma_buf` before `ptr`, `room` =
`ma_buf_len`.  Result: the octets before `ptr` after the loop, or the error code returned -/
def setfhLoop : (rest : List Nat) → (n : Nat) → (mem : List Nat) → (room : Nat) → Except Fault (Except Int (List Nat))
  | _, 0, mem, _ => .ok (.ok mem)
  | [], _ + 1, _, _ => .error .crash                          -- cmdp->ma[i] beyond the array
  | a :: rest, n + 1, mem, room =>
      let rx := arfcn2freq10 a false
      let tx := arfcn2freq10 a true
      if rx = 65535 ∨ tx = 65535 then .ok (.error (-eINVAL))
      else
        -- rc = snprintf(ptr, ma_buf_len, "%u %u ", rx_freq * 100, tx_freq * 100);
        let s := pairText rx tx
        let rc := s.length
        if rc > room then .ok (.error (-eNOSPC))              -- if (rc < 0 || rc > ma_buf_len)
        else
          -- exactly rc octets become initialised: the text, or (rc = room) the text cut by one
          -- character and the NUL
          let piece := if rc < room then s else snprintfStored room s ++ [0]
          setfhLoop rest n (mem ++ piece) (room - rc)

/-- `trx_if_cmd_setfh` up to the call of `trx_ctrl_cmd`: the error code or the string in `ma_buf` -/
def setfhMaBuf (maLen : Nat) (ma : List Nat) : Except Fault (Except Int (List Nat)) := do
  let cap := trxcBufSize - 24                    -- char ma_buf[TRXC_BUF_SIZE - 24]
  let room := cap - 1                            -- size_t ma_buf_len = sizeof(ma_buf) - 1
  let maLen := u32 maLen
  if maLen = 0 ∨ ma.isEmpty then return .error (-eINVAL)   -- !cmdp->ma_len || cmdp->ma == NULL
  match ← setfhLoop ma maLen [] room with
  | .error rc => return .error rc
  | .ok mem =>
    -- *(ptr - 1) = '\0';
    if mem.isEmpty then throw .crash
    let mem := mem.dropLast ++ [0]
    -- the "%s" argument: ma_buf as a C string
    let s ← cstrAt mem cap 0
    return .ok s

def cPhyCmd (t : Trx) (c : PhyCmd) : Except Fault (Int × Trx) :=
  match c with
  | .reset => do
      let (rc, t) ← ctrlCmd t 1 (str "POWEROFF") none
      if rc ≠ 0 then return (rc, t)
      ctrlCmd t 1 (str "ECHO") none
  | .poweron => ctrlCmd t 1 (str "POWERON") none
  | .poweroff => ctrlCmd t 1 (str "POWEROFF") none
  | .measure arfcn =>
      let f := arfcn2freq10 arfcn false
      if f = 65535 then .ok (-eNOTSUP, { t with elog := true })
      else ctrlCmd t 1 (str "MEASURE") (some (fmtU (f * 100)))
  | .setfreqH0 arfcn => do
      let f := arfcn2freq10 arfcn false
      if f = 65535 then return (-eNOTSUP, { t with elog := true })
      let (rc, t) ← ctrlCmd t 1 (str "RXTUNE") (some (fmtU (f * 100)))
      if rc ≠ 0 then return (rc, t)
      let f := arfcn2freq10 arfcn true
      if f = 65535 then return (-eNOTSUP, { t with elog := true })
      ctrlCmd t 1 (str "TXTUNE") (some (fmtU (f * 100)))
  | .setfreqH1 hsn maio maLen ma => do
      match ← setfhMaBuf maLen ma with
      | .error rc => return (rc, { t with elog := true })
      | .ok s => ctrlCmd t 1 (str "SETFH") (some (fmtU (u8 hsn) ++ [32] ++ fmtU (u8 maio) ++ [32] ++ s))
  | .setslot tn pchan =>
      match chanTypes[u8 pchan]? with
      | none => .error .crash                       -- chan_types[cmdp->pchan] outside the table
      | some ct => ctrlCmd t 1 (str "SETSLOT") (some (fmtU (u8 tn) ++ [32] ++ fmtU ct))
  | .setta ta => ctrlCmd t 0 (str "SETTA") (some (fmtD (s8i ta)))
  | .raw _ => .ok (-eNODEV, { t with elog := true })

/-! ### `trx_ctrl_read_cb`, `trx_if_measure_rsp_cb` -/

/-- `trx_if_measure_rsp_cb(trx, resp)` -/
def measureRspCb (t : Trx) (resp : List Nat) : Trx :=
  match sscanfUD resp with
  | none => { t with elog := true }               -- sscanf(...) != 2
  | some (freq, dbm) =>
    let freq10 := freq / 100                      -- freq10 /= 100 (unsigned int)
    let arfcn := freq102arfcn (u16 freq10) false
    if arfcn = 65535 then { t with elog := true }
    else { t with rsp := some (arfcn, dbm) }

def startsWith (s p : List Nat) : Bool := strncmpEq s p p.length

/-- `rsp_error:` -/
def rspError (t : Trx) : Int × Trx := (-eIO, { t with ev := t.ev ++ [Event.term termError] })

/-- "Trigger state machine": the `strncmp(tcm->cmd + 4, ...)` chain; `c4` is the string at
`tcm->cmd + 4`, `mem` the initialised part of `buf` -/
def rspDispatch (t : Trx) (c4 mem : List Nat) (readLen : Nat) : Except Fault Trx :=
  if startsWith c4 (str "POWERON") then fsmChg { t with poweredUp := true } stActive
  else if startsWith c4 (str "POWEROFF") then fsmChg { t with poweredUp := false } stIdle
  else if startsWith c4 (str "MEASURE") then do
    -- trx_if_measure_rsp_cb(trx, buf + OSMO_MIN(read_len, 14))
    let r ← cstrAt mem trxcBufSize (min readLen 14)
    pure (measureRspCb t r)
  else if startsWith c4 (str "ECHO") then fsmChg t stIdle
  else fsmChg t t.prevState

/-- from "Check for response code" to the end; `p` = index of the blank behind the verb in
`s4` (the string at `buf + 4`), `none` = NULL -/
def rspStatus (t : Trx) (tcm : CtrlMsg) (rest : List CtrlMsg) (mem s4 : List Nat) (p : Option Nat)
    (readLen : Nat) : Except Fault (Int × Trx) :=
  -- if (p == NULL || sscanf(p + 1, "%d", &resp) != 1) goto rsp_error;
  match p with
  | none => .ok (rspError { t with elog := true })
  | some i =>
    match sscanfD (s4.drop (i + 1)) with
    | none => .ok (rspError { t with elog := true })
    | some resp =>
      let t := if resp ≠ 0 then { t with elog := true } else t
      if resp ≠ 0 ∧ tcm.critical ≠ 0 then .ok (rspError t)
      else do
        let t ← rspDispatch t (cmdStrAt tcm 4) mem readLen
        -- llist_del(&tcm->list); talloc_free(tcm); trx_ctrl_send(trx);
        let t ← ctrlSend { t with queue := rest }
        pure (0, t)

/-- `rsp_len = p ? p - buf - 4 : strlen(buf) - 4` -/
def rspLenOf (p : Option Nat) (strlenBuf : Nat) : Nat :=
  match p with
  | some i => i
  | none => strlenBuf - 4

/-- `trx_ctrl_read_cb` for the datagram `d` waiting on the control socket; returns the return
code and the new state -/
def cReadCb (t : Trx) (d : List Nat) : Except Fault (Int × Trx) := do
  let cap := trxcBufSize
  -- read_len = read(ofd->fd, buf, sizeof(buf) - 1);
  let data := d.take (cap - 1)
  let readLen := data.length
  if readLen = 0 then return (0, { t with elog := true })       -- read_len <= 0: return read_len
  let mem := data ++ [0]                                         -- buf[read_len] = '\0'
  let s0 ← cstrAt mem cap 0
  if !strncmpEq s0 (str "RSP ") 4 then return (0, t)
  -- p = strchr(buf + 4, ' '); rsp_len = p ? p - buf - 4 : strlen(buf) - 4;
  let s4 ← cstrAt mem cap 4
  let p := strchrIdx s4 32
  let rspLen := rspLenOf p s0.length
  let t := { t with ev := t.ev ++ [Event.timerDel] }             -- osmo_timer_del
  match t.queue with
  | [] => return (-eINVAL, t)
  | tcm :: rest =>
    if !strncmpEq s4 (cmdStrAt tcm 4) rspLen then
      return rspError { t with elog := true }
    else rspStatus t tcm rest mem s4 p readLen

end OsmoVerif.TrxconIf
