/-
The way of the hopping list from the Mobile Allocation decoder to the per-frame channel
(C20, "chain" part): the plain-data glue between the parts that have models of their own

  layer23   gsm48_decode_mobile_alloc                    Model/MobileAlloc.lean   (`decode`)
  layer23   gsm48_rr_render_ma (mobile/gsm48_rr.c)       here: `renderMa`         mobile-allocation branch + the
                                                                                   "convert to band_arfcn" loop
  layer23   gsm48_rr_activate_channel → l1ctl_tx_dm_est_req_h1 (common/l1ctl.c)
                                                         here: `l1ctlTxDmEstReqH1` (uint8_t n, htons copy loop into ma[64])
  trxcon    l1ctl_rx_dm_est_req / l1ctl_proc_est_req_h1 (trxcon/src/l1ctl.c)
                                                         here: `trxconProcEstReqH1` (n = 0, n > 64, ntohs copy loop)
  trxcon    handle_dch_est_req (trxcon/src/trxcon_fsm.c) here: `handleDchEstReq`   (TRXCON_PHYIF_CMDT_SETFREQ_H1; the command
            → trxcon_phyif_handle_cmd (trxcon_main.c)                              goes to trx_if_handle_phyif_cmd unchanged)
  trxcon    trx_if_handle_phyif_cmd / trx_if_cmd_setfh   Model/TrxconIf.lean      (`cPhyCmd`)
  fake_trx  CTRLInterface.handle_rx … enable_fh          Model/World.lean         (`handleRx`)
  fake_trx  Transceiver.get_rx_freq / get_tx_freq        Model/World.lean, Model/Hopping.lean
  firmware  l1ctl_rx_dm_est_req (layer1/l23_api.c)       here: `fwDmEstReqH1`      (ntohs copy loop into l1s.dedicated.h1)
  firmware  rfch_get_params                              Model/Hopping.lean       (`fwGetParamsArfcn`)
  layer23   SI4 CBCH caller (sysinfo.c:997 → misc/app_cbch_sniff.c try_cbch)      here: `cbchPath` (no conversion loop)
Capacities and constants come from Gen/HopChain.lean (gen/hop_chain.py, regenerated on every run).

Every array is a list whose length is its capacity; an index outside it is a `Fault`, never a
default.  `uint16_t` values cross the L1CTL socket as two octets in network byte order (`htons` on
one side, `ntohs` on the other): the message is modelled by its octets, so the model does not depend
on the byte order of the host.  No Mathlib.
-/
import OsmoVerif.Gen.HopChain
import OsmoVerif.Model.MobileAlloc
import OsmoVerif.Model.TrxconIf
import OsmoVerif.Model.World

namespace OsmoVerif.HopChain
open OsmoVerif

/-- the objects of the glue code -/
inductive Obj
  /-- caller's `uint16_t ma[64]` (gsm48_rr.c) / `s->hopping[64]` (SI4 CBCH) -/
  | ma
  /-- `set->freq_map[128+38]` -/
  | freqMap
  /-- `cd->mob_alloc_lv[9]` -/
  | mobAllocLv
  /-- `req->h1.ma[64]` of the L1CTL_DM_EST_REQ message (as octets) -/
  | l1ctlMa
  /-- `req->h1.ma[64]` of `struct trxcon_param_dch_est_req` -/
  | trxconMa
  /-- `l1s.dedicated.h1.ma[64]` of the firmware -/
  | fwMa
deriving DecidableEq, Repr

inductive Fault
  /-- a fault inside `gsm48_decode_mobile_alloc` -/
  | dec (f : MobileAlloc.Fault)
  | oobRead (o : Obj) (idx : Nat)
  | oobWrite (o : Obj) (idx : Nat)
  /-- `*ma_len` read although the decoder returned before `*hopp_len = 0` (return code ignored) -/
  | uninitMaLen
  /-- a fault inside `trx_if_handle_phyif_cmd` -/
  | trxcon (f : TrxconIf.Fault)
deriving DecidableEq, Repr

def u8 (x : Nat) : Nat := x % 256
def u16 (x : Nat) : Nat := x % 65536

def rd (o : Obj) (xs : List Nat) (i : Nat) : Except Fault Nat :=
  match xs[i]? with
  | some v => .ok v
  | none => .error (.oobRead o i)

def wr (o : Obj) (xs : List Nat) (i v : Nat) : Except Fault (List Nat) :=
  if i < xs.length then .ok (xs.set i v) else .error (.oobWrite o i)

/-! ### layer23: `gsm48_rr_render_ma` -/

/-- `ARFCN_PCS`, `ARFCN_FLAG_MASK` (regenerated from gsm_utils.h) -/
def arfcnPcs : Nat := Gen.HopChain.arfcnPcs
def arfcnFlagMask : Nat := Gen.HopChain.arfcnFlagMask
/-- `GSM48_RR_CAUSE_NO_CELL_ALLOC_A`, `GSM48_RR_CAUSE_FREQ_NOT_IMPL` (regenerated from gsm_04_08.h) -/
def causeNoCellAllocA : Nat := Gen.HopChain.causeNoCellAllocA
def causeFreqNotImpl : Nat := Gen.HopChain.causeFreqNotImpl

/-- `arfcn2index(uint16_t arfcn)` (mobile/gsm322.c):
```
int is_pcs = arfcn & ARFCN_PCS;
arfcn &= ~ARFCN_FLAG_MASK;
if ((is_pcs) && (arfcn >= 512) && (arfcn <= 810)) return (arfcn & 1023)-512+1024;
return arfcn & 1023;
``` -/
def arfcn2index (arfcn : Nat) : Nat :=
  let isPcs := u16 arfcn &&& arfcnPcs
  let a := u16 arfcn &&& (65535 ^^^ arfcnFlagMask)      -- uint16_t arfcn &= ~ARFCN_FLAG_MASK
  if isPcs ≠ 0 ∧ a ≥ 512 ∧ a ≤ 810 then (a &&& 1023) - 512 + 1024 else a &&& 1023

/-- one channel of the conversion loop: `if (arfcn >= 512 && arfcn <= 810) arfcn |= pcs;` -/
def toBand (pcs : Bool) (arfcn : Nat) : Nat :=
  if arfcn ≥ 512 ∧ arfcn ≤ 810 then arfcn ||| (if pcs then arfcnPcs else 0) else arfcn

/-- `set->freq_map[index >> 3] & (1 << (index & 7))` is non-zero -/
def freqSupported (freqMap : List Nat) (index : Nat) : Except Fault Bool := do
  let o ← rd .freqMap freqMap (index >>> 3)
  pure (o &&& (1 <<< (index &&& 7)) != 0)

/-- "convert to band_arfcn and check for unsupported frequency":
```
for (i = 0; i < *ma_len; i++) {
    arfcn = ma[i];
    if (arfcn >= 512 && arfcn <= 810) arfcn |= pcs;
    ma[i] = arfcn;
    index = arfcn2index(arfcn);
    if (!(set->freq_map[index >> 3] & (1 << (index & 7)))) return GSM48_RR_CAUSE_FREQ_NOT_IMPL;
}
```
`k` = iterations left (`*ma_len - i`); result: (cause, ma[]) -/
def bandLoop (pcs : Bool) (freqMap : List Nat) : (k i : Nat) → List Nat → Except Fault (Nat × List Nat)
  | 0, _, ma => .ok (0, ma)
  | k + 1, i, ma => do
    let arfcn ← rd .ma ma i
    let arfcn := toBand pcs arfcn
    let ma ← wr .ma ma i arfcn
    if !(← freqSupported freqMap (arfcn2index arfcn)) then return (causeFreqNotImpl, ma)
    bandLoop pcs freqMap k (i + 1) ma

/-- outcome of `gsm48_rr_render_ma`: the RR cause returned (0 = success), the caller's `ma[]`
and `ma_len` afterwards -/
structure Rendered where
  cause : Nat
  ma : List Nat
  maLen : Nat
deriving DecidableEq, Repr

inductive RenderOut
  | done (r : Rendered)
  /-- `cd->h == 0` (no hopping), or one of the branches not modelled here: frequency list,
  frequency channel sequence, "nothing that tells us a sequence" -/
  | otherBranch
deriving DecidableEq, Repr

/-- `gsm48_rr_render_ma(ms, cd, ma, &ma_len)`, hopping channel described by a Mobile Allocation.

`freq` is `s->freq[].mask` as the decoder is handed it (after the optional cell channel description
of the assignment has been merged in by `gsm48_decode_freq_list`, not modelled), `lv` is
`cd->mob_alloc_lv[9]`, `pcs` is `gsm_refer_pcs(cs->arfcn, s)`, `ma` the caller's `uint16_t ma[64]`
(previous contents arbitrary), the caller's `uint8_t ma_len` is not initialised. -/
def renderMa (h : Nat) (freq lv : List Nat) (pcs : Bool) (freqMap ma : List Nat) : Except Fault RenderOut := do
  -- if (!cd->h) { *ma_len = 0; return 0; }
  if h = 0 then return .otherBranch
  -- if (cd->mob_alloc_lv[0]) { ... } else ...
  let len ← rd .mobAllocLv lv 0
  if len = 0 then return .otherBranch
  -- gsm48_decode_mobile_alloc(freq, cd->mob_alloc_lv + 1, cd->mob_alloc_lv[0], ma, ma_len, 0);
  -- (`cd->mob_alloc_lv + 1` points at the 8 octets behind the length; the return code is ignored)
  match MobileAlloc.decode freq (lv.drop 1) len ma 0 false with
  | .error f => throw (.dec f)
  | .ok (rc, st) =>
    -- `len > 8`: the decoder returns before `*hopp_len = 0`; the caller's ma_len was never written
    if rc ≠ 0 then throw .uninitMaLen
    -- if (*ma_len < 1) return GSM48_RR_CAUSE_NO_CELL_ALLOC_A;
    if st.hoppLen < 1 then return .done ⟨causeNoCellAllocA, st.hopping, st.hoppLen⟩
    let (cause, ma') ← bandLoop pcs freqMap st.hoppLen 0 st.hopping
    return .done ⟨cause, ma', st.hoppLen⟩

/-! ### layer23: `l1ctl_tx_dm_est_req_h1` -/

/-- octets of `uint16_t ma[64]` of `struct l1ctl_h1` (capacity regenerated from l1ctl_proto.h) -/
def l1ctlOctets : Nat := Gen.HopChain.l1ctlMaElem * Gen.HopChain.l1ctlMaCap

/-- `struct l1ctl_h1` inside the L1CTL_DM_EST_REQ message (`req->h = 1`): three octets and
`uint16_t ma[64]` as its 128 octets on the wire (network byte order); the message buffer is
zero-filled when allocated -/
structure L1ctlH1 where
  hsn : Nat
  maio : Nat
  n : Nat
  maOctets : List Nat
deriving DecidableEq, Repr

/-- `for (i = 0; i < ma_len; i++) req->h1.ma[i] = htons(ma[i]);` — `k` iterations left -/
def htonsLoop (ma : List Nat) : (k i : Nat) → List Nat → Except Fault (List Nat)
  | 0, _, oct => .ok oct
  | k + 1, i, oct => do
    let v ← rd .ma ma i
    -- the two octets of `htons(v)` in memory: most significant first
    let oct ← wr .l1ctlMa oct (2 * i) (u16 v >>> 8)
    let oct ← wr .l1ctlMa oct (2 * i + 1) (u16 v &&& 255)
    htonsLoop ma k (i + 1) oct

/-- `l1ctl_tx_dm_est_req_h1(ms, maio, hsn, ma, ma_len, …)`: parameters `uint8_t maio, hsn, ma_len` -/
def l1ctlTxDmEstReqH1 (maio hsn : Nat) (ma : List Nat) (maLen : Nat) : Except Fault L1ctlH1 := do
  let oct ← htonsLoop ma (u8 maLen) 0 (List.replicate l1ctlOctets 0)
  pure { hsn := u8 hsn, maio := u8 maio, n := u8 maLen, maOctets := oct }

/-! ### trxcon: `l1ctl_proc_est_req_h1`, `handle_dch_est_req` -/

/-- the `h1` member of `struct trxcon_param_dch_est_req` (`hopping = true`) -/
structure DchEstH1 where
  hsn : Nat
  maio : Nat
  n : Nat
  ma : List Nat
deriving DecidableEq, Repr

/-- `ntohs(h->ma[i])` from the octets of the message -/
def ntohsAt (o : Obj) (oct : List Nat) (i : Nat) : Except Fault Nat := do
  let hi ← rd o oct (2 * i)
  let lo ← rd o oct (2 * i + 1)
  pure ((hi <<< 8) ||| lo)

/-- `for (i = 0; i < h->n; i++) req->h1.ma[i] = ntohs(h->ma[i]);` — `k` iterations left;
`dst` names the destination array -/
def ntohsLoop (dst : Obj) (oct : List Nat) : (k i : Nat) → List Nat → Except Fault (List Nat)
  | 0, _, ma => .ok ma
  | k + 1, i, ma => do
    let v ← ntohsAt .l1ctlMa oct i
    let ma ← wr dst ma i v
    ntohsLoop dst oct k (i + 1) ma

/-- `l1ctl_proc_est_req_h1(fi, req, h)`: `.error rc` = the return code (nothing dispatched) -/
def trxconProcEstReqH1 (h : L1ctlH1) : Except Fault (Except Int DchEstH1) := do
  -- if (!h->n) return -EINVAL; else if (h->n > ARRAY_SIZE(h->ma)) return -EINVAL;
  if h.n = 0 then return .error (-Gen.Trxcon.eINVAL)
  if h.n > h.maOctets.length / 2 then return .error (-Gen.Trxcon.eINVAL)
  -- `struct trxcon_param_dch_est_req req = { … }`: members not named are zero
  let ma ← ntohsLoop .trxconMa h.maOctets h.n 0 (List.replicate Gen.HopChain.trxconMaCap 0)
  return .ok { hsn := h.hsn, maio := h.maio, n := h.n, ma := ma }

/-- `handle_dch_est_req(fi, req)` with `req->hopping`: the PHYIF command handed to
`trxcon_phyif_handle_cmd` = `trx_if_handle_phyif_cmd` (`.ma = &req->h1.ma[0]`, `.ma_len = req->h1.n`) -/
def handleDchEstReq (r : DchEstH1) : TrxconIf.PhyCmd :=
  .setfreqH1 r.hsn r.maio r.n r.ma

/-! ### firmware: `l1ctl_rx_dm_est_req` (layer1/l23_api.c), hopping branch -/

/-- ```
l1s.dedicated.h1.hsn = est_req->h1.hsn; … .maio … .n = est_req->h1.n;
for (i=0; i<est_req->h1.n; i++) l1s.dedicated.h1.ma[i] = ntohs(est_req->h1.ma[i]);
``` (no check of `n` against the array) -/
def fwDmEstReqH1 (h : L1ctlH1) (prev : List Nat) : Except Fault Hopping.L1sH1 := do
  let ma ← ntohsLoop .fwMa h.maOctets h.n 0 prev
  pure { hsn := h.hsn, maio := h.maio, n := h.n, ma := ma }

/-! ### the composed paths -/

/-- everything the MS side does with a Mobile Allocation IE up to the L1CTL message -/
inductive MsOut
  /-- the RR layer gave up with this cause (no L1CTL message) -/
  | cause (c : Nat)
  | otherBranch
  /-- L1CTL_DM_EST_REQ sent; `list` = the caller's `ma[0 .. ma_len)` -/
  | sent (list : List Nat) (msg : L1ctlH1)
deriving DecidableEq, Repr

/-- `gsm48_rr_render_ma` followed by `gsm48_rr_activate_channel` (`cd->h`, `cd->maio`, `cd->hsn`) -/
def msPath (freq lv : List Nat) (pcs : Bool) (freqMap ma0 : List Nat) (hsn maio : Nat) : Except Fault MsOut := do
  match ← renderMa 1 freq lv pcs freqMap ma0 with
  | .otherBranch => return .otherBranch
  | .done r =>
    if r.cause ≠ 0 then return .cause r.cause
    let msg ← l1ctlTxDmEstReqH1 maio hsn r.ma r.maLen
    return .sent (r.ma.take r.maLen) msg

/-- The other caller of the decoder, SI4 CBCH (`gsm48_decode_sysinfo4`, sysinfo.c:997, then `try_cbch` of
misc/app_cbch_sniff.c): `gsm48_decode_mobile_alloc(s->freq, data + 2, data[1], s->hopping, &s->hopp_len, 1)`
(return code ignored: for `len > 8` list and length keep their previous values), then
`l1ctl_tx_dm_est_req_h1(ms, s->maio, s->hsn, s->hopping, s->hopp_len, …)` — no conversion loop, no check
of `hopp_len`.  Result: the new `s->hopping[]`, `s->hopp_len` and the L1CTL hopping parameters. -/
def cbchPath (freq ie : List Nat) (len : Nat) (hopping : List Nat) (hoppLen : Nat) (hsn maio : Nat) :
    Except Fault (List Nat × Nat × L1ctlH1) := do
  match MobileAlloc.decode freq ie len hopping hoppLen true with
  | .error f => throw (.dec f)
  | .ok (_, st) =>
    let msg ← l1ctlTxDmEstReqH1 maio hsn st.hopping st.hoppLen
    return (st.hopping, st.hoppLen, msg)

/-- trxcon from the L1CTL message to the TRXC socket: return code of `l1ctl_rx_dm_est_req` resp.
of `trx_if_handle_phyif_cmd`, and the datagrams passed to `send()` -/
def trxconPath (msg : L1ctlH1) : Except Fault (Int × List (List Nat)) := do
  match ← trxconProcEstReqH1 msg with
  | .error rc => return (rc, [])
  | .ok req =>
    -- trxcon_phyif_handle_cmd(trxcon->phyif, &phycmd) (trxcon_main.c) is `return trx_if_handle_phyif_cmd(phyif, cmd);`
    match TrxconIf.cPhyCmd { state := Gen.Trxcon.stIdle, prevState := Gen.Trxcon.stOffline } (handleDchEstReq req) with
    | .error f => throw (.trxcon f)
    | .ok (rc, t) => return (rc, t.sent)

/-- the simulator's side: the datagram arrives at the control socket of transceiver `i` (sent from
the port of its L1 peer) -/
def fakeTrxPath (w : World.World) (i : Nat) (dgram : List Nat) : World.Res :=
  match w.trxs[i]? with
  | some t => World.handleRx w i t.addr t.ctrlRemote dgram
  | none => { world := w, exc := some .indexError }

/-- the firmware's side of the same L1CTL message: ARFCN of frame `fn` (dedicated channel, `h = 1`) -/
def fwPath (msg : L1ctlH1) (fn : Nat) : Except Fault (Except Hopping.FwFault Nat) := do
  let h1 ← fwDmEstReqH1 msg (List.replicate Gen.fwMaCapacity 0)
  pure (Hopping.fwGetParamsArfcn { servingArfcn := 0, chanType := 6, h := 1, h0Arfcn := 0, h1 := h1 }
          (GsmTime.cFn2GsmTime fn))

end OsmoVerif.HopChain
