/-
Model of `rand_burst_gen.py` (class `RandBurstGen`): the burst generators the toolkit's traffic sources use
(`burst_gen.py`, `trx_sniff`-style tools) and whose layouts the training-sequence detector of `FakeTRX` relies on.

The module's only inputs are the random source and the optional `tsc` argument.  The random source is modelled as the
stream of values `random.randint(0, 1)` / `random.choice(seq)` return, consumed in call order (`randint` pops a value,
`choice(l)` pops an index `k` and returns `l[k % len(l)]`); the harness installs exactly this scripted source in place of
`rand_burst_gen.random`, so model and code see the same draws.  Statement by statement:

  gen_nb(tsc):  3 tail, 57 random, 1 random (stealing flag), [tsc = get_rand_tsc(NORMAL) if None], tsc.seq,
                1 random, 57 random, 3 tail
  gen_sb(tsc):  3 tail, 39 random, [tsc …(SYNC)], tsc.seq, 39 random, 3 tail
  gen_ab(tsc):  8 tail, [tsc …(ACCESS)], tsc.seq, 36 random, 3 tail, 60 guard
  gen_fb():     GMSK_BURST_LEN zeros          gen_db(): the `db_bits` table (regenerated: `Gen.World.dummyBurst`)
  get_rand_tsc(bt): `random.choice` over the `TrainingSeqGMSK` members with that burst type, in enumeration order

A stream that runs dry is `none` (the harness never lets that happen).  No Mathlib.
-/
import OsmoVerif.Gen.World
import OsmoVerif.Gen.TrxdConsts

namespace OsmoVerif.RandBurst

/-- a member of `TrainingSeqGMSK`: (name, tsc, burst type name, bits, tsc_set) -/
abbrev TsEntry := String × Nat × String × List Nat × Nat

def TsEntry.seq (e : TsEntry) : List Nat := e.2.2.2.1
def TsEntry.bt (e : TsEntry) : String := e.2.2.1

/-- `[random.randint(0, 1) for _ in range(n)]` -/
def randBits (n : Nat) (s : List Nat) : Option (List Nat × List Nat) :=
  if s.length < n then none else some (s.take n, s.drop n)

/-- `random.choice(l)` -/
def choice {α : Type} (l : List α) (s : List Nat) : Option (α × List Nat) :=
  match s with
  | [] => none
  | k :: s' => if l.length = 0 then none else (l[k % l.length]?).map (fun x => (x, s'))

/-- `filter(lambda seq: seq.bt == bt, list(TrainingSeqGMSK))` -/
def seqsOf (bt : String) : List TsEntry := Gen.World.trainSeqs.filter (fun e => e.2.2.1 == bt)

/-- `get_rand_tsc(bt)` -/
def getRandTsc (bt : String) (s : List Nat) : Option (TsEntry × List Nat) := choice (seqsOf bt) s

/-- the `tsc` argument, or `get_rand_tsc(bt)` when it is None -/
def tscOr (tsc : Option TsEntry) (bt : String) (s : List Nat) : Option (TsEntry × List Nat) :=
  match tsc with
  | some e => some (e, s)
  | none => getRandTsc bt s

def genNb (tsc : Option TsEntry) (s : List Nat) : Option (List Nat × List Nat) := do
  let (d1, s) ← randBits 57 s
  let (f1, s) ← randBits 1 s
  let (e, s) ← tscOr tsc "NORMAL" s
  let (f2, s) ← randBits 1 s
  let (d2, s) ← randBits 57 s
  pure (List.replicate 3 0 ++ d1 ++ f1 ++ e.seq ++ f2 ++ d2 ++ List.replicate 3 0, s)

def genSb (tsc : Option TsEntry) (s : List Nat) : Option (List Nat × List Nat) := do
  let (d1, s) ← randBits 39 s
  let (e, s) ← tscOr tsc "SYNC" s
  let (d2, s) ← randBits 39 s
  pure (List.replicate 3 0 ++ d1 ++ e.seq ++ d2 ++ List.replicate 3 0, s)

def genAb (tsc : Option TsEntry) (s : List Nat) : Option (List Nat × List Nat) := do
  let (e, s) ← tscOr tsc "ACCESS" s
  let (d, s) ← randBits 36 s
  pure (List.replicate 8 0 ++ e.seq ++ d ++ List.replicate 3 0 ++ List.replicate 60 0, s)

def genFb : List Nat := List.replicate Gen.Trxd.gmskBurstLen 0

def genDb : List Nat := Gen.World.dummyBurst

end OsmoVerif.RandBurst
