/-
Executable model of the TRXD (DATA interface) message codec
  src/target/trx_toolkit/data_msg.py   (classes Modulation, Msg, TxMsg, RxMsg)
  src/target/trx_toolkit/data_if.py    (DATAInterface.send_msg)
statement for statement.  Every bound, the Modulation enum, the header lengths and the four
soft-bit translation tables come from `OsmoVerif.Gen.Trxd` (regenerated from the current tree on
every run by gen/trxd_consts.py); nothing numeric that the code takes from a constant is written
here.  No Mathlib.

API (namespace `OsmoVerif.Trxd`)
  Exc                         Python exception classes as tags (`Exc.pyName` = `type(e).__name__`)
  Bytes                       `List Nat`; octets of `bytes`/`bytearray` (type invariant: every element < 256)
  Modulation                  a member of `list(Modulation)` = position in `Gen.Trxd.modulations`
    .name .coding .bl         enum member name, `coding`, `bl`
    .all .pick .pickByBl      `list(Modulation)`, `Modulation.pick(coding)`, `Modulation.pick_by_bl(bl)` (first match)
    .gmsk                     `Modulation.ModGMSK`;   `.ofName?` lookup by member name
  TxMsg / RxMsg               message objects (`Option` = attribute may be `None`); `TxMsg.fresh`/`RxMsg.fresh` = `TxMsg()`/`RxMsg()`
    .WellTyped                element type invariant of the burst container (bytes: 0..255, array('b'): -128..127)
    .validate                 `validate()`         : Except Exc Unit
    .genMsg legacy            `gen_msg(legacy)`    : Except Exc Bytes
  TxMsg.parseMsg bytes        `TxMsg().parse_msg(bytes)` (every attribute is overwritten)            : Except Exc TxMsg
  RxMsg.parseMsgFrom self b   `self.parse_msg(b)` on an existing object (v0 / NOPE leave attributes)  : Except Exc RxMsg
  RxMsg.parseMsg b            `RxMsg().parse_msg(b)`
  TxMsg.trans / RxMsg.trans ver   `trans(ver)`: Tx -> Rx (ubit2sbit, NOPE when no burst) and Rx -> Tx (sbit2ubit)
  sendMsg (gen result)        `DATAInterface.send_msg`: datagrams handed to the socket, `ValueError` swallowed
  helpers                     bytearrayAppend, packBE32u, packBE16s, unpackBE32u, unpackBE16s, index, slice, need,
                              translate, sbyte, ubyte2s, sbit2usbit, usbit2sbit, sbit2ubit, ubit2sbit,
                              txHdrLen, rxHdrLen (`HDR_LEN`), validateCommon (`Msg.validate`), genCommon, parseCommon,
                              appendLegacy; TxMsg.validateOwn / appendHdrTo / appendBurstTo / parseBurst;
                              RxMsg.validateMeas / validateMts / validateCi / validateBurst(V0|V1) / appendMts /
                              appendHdrTo / appendBurstTo / parseMts / parseHdr / guessMod / parseBurstV0 / parseBurst
  instance                    DecidableEq (Except Exc α), so outcomes can be compared by `decide`

Python semantics used (all exact for unbounded ints):
  `(ver << 4) | (tn & 0x07)`  = `16*ver + tn mod 8` (floor mod; the two operands have no common bit)
  `x & 0b111`                 = `x mod 8` for every int x;   `x << 3` = `8*x`
  `bytearray.append(x)`       raises ValueError unless 0 <= x < 256
  `struct.pack('>L'|'>h', x)` raises struct.error when x is out of range
  `struct.unpack(fmt, b)`     raises struct.error when len(b) != calcsize(fmt)
  `b[i]`                      IndexError when i >= len(b);  `b[i:j]` never raises
  `bytes.translate(t)`        ValueError unless len(t) == 256
An attribute that is `None` where the code needs a number gives the exception Python raises
(`TypeError`, `AttributeError`, `struct.error`); after a successful `validate()` none of these is reachable.
-/
import OsmoVerif.Gen.TrxdConsts

namespace OsmoVerif.Trxd
open OsmoVerif.Gen

/-- Python exception classes the modelled code can raise. -/
inductive Exc
  | valueError | structError | indexError | typeError | attributeError
deriving DecidableEq, Repr

/-- `type(e).__name__` -/
def Exc.pyName : Exc → String
  | .valueError => "ValueError"
  | .structError => "error"
  | .indexError => "IndexError"
  | .typeError => "TypeError"
  | .attributeError => "AttributeError"

/-- outcomes of the modelled functions are comparable (used by `decide` in examples) -/
instance {α : Type} [DecidableEq α] : DecidableEq (Except Exc α) := fun a b =>
  match a, b with
  | .ok x, .ok y => if h : x = y then isTrue (h ▸ rfl) else isFalse (fun h' => by cases h'; exact h rfl)
  | .error x, .error y => if h : x = y then isTrue (h ▸ rfl) else isFalse (fun h' => by cases h'; exact h rfl)
  | .ok _, .error _ => isFalse (fun h => by cases h)
  | .error _, .ok _ => isFalse (fun h => by cases h)

abbrev Bytes := List Nat

/-! ### Modulation (enum regenerated from the tree) -/

/-- A member of the `Modulation` enum: its position in `list(Modulation)`. -/
abbrev Modulation := Fin Gen.Trxd.modulations.length

namespace Modulation
def name (m : Modulation) : String := (Gen.Trxd.modulations.get m).1
def coding (m : Modulation) : Nat := (Gen.Trxd.modulations.get m).2.1
def bl (m : Modulation) : Nat := (Gen.Trxd.modulations.get m).2.2
/-- `list(Modulation)` -/
def all : List Modulation := List.finRange _
/-- `Modulation.pick(coding)`: first member with that coding, else `None` -/
def pick (c : Nat) : Option Modulation := all.find? (fun m => m.coding == c)
/-- `Modulation.pick_by_bl(bl)`: first member with that burst length, else `None` (`bl` may be negative: `bl - 2`) -/
def pickByBl (b : Int) : Option Modulation := all.find? (fun m => (m.bl : Int) == b)
/-- `Modulation.ModGMSK` -/
def gmsk : Modulation := ⟨Gen.Trxd.modGMSK, by decide⟩
def ofName? (s : String) : Option Modulation := all.find? (fun m => m.name == s)
def ofIdx? (i : Nat) : Option Modulation := if h : i < Gen.Trxd.modulations.length then some ⟨i, h⟩ else none
end Modulation

/-! ### bytes / struct helpers -/

/-- `buf.append(x)` on a bytearray -/
def bytearrayAppend (buf : Bytes) (x : Int) : Except Exc Bytes :=
  if 0 ≤ x ∧ x < 256 then .ok (buf ++ [x.toNat]) else .error .valueError

/-- `struct.pack(">L", x)` -/
def packBE32u (x : Int) : Except Exc Bytes :=
  if 0 ≤ x ∧ x < 4294967296 then
    let n := x.toNat
    .ok [n / 16777216 % 256, n / 65536 % 256, n / 256 % 256, n % 256]
  else .error .structError

/-- `struct.pack(">h", x)` (two's complement, big endian) -/
def packBE16s (x : Int) : Except Exc Bytes :=
  if -32768 ≤ x ∧ x ≤ 32767 then
    let n := (x % 65536).toNat
    .ok [n / 256 % 256, n % 256]
  else .error .structError

/-- `struct.unpack(">L", b)[0]` -/
def unpackBE32u : Bytes → Except Exc Nat
  | [a, b, c, d] => .ok (((a * 256 + b) * 256 + c) * 256 + d)
  | _ => .error .structError

/-- `struct.unpack(">h", b)[0]` -/
def unpackBE16s : Bytes → Except Exc Int
  | [a, b] => let u := a * 256 + b; .ok (if u ≥ 32768 then (u : Int) - 65536 else (u : Int))
  | _ => .error .structError

/-- `b[i]` for `i ≥ 0` -/
def index (b : Bytes) (i : Nat) : Except Exc Nat :=
  match b[i]? with
  | some v => .ok v
  | none => .error .indexError

/-- `b[i:j]` for `0 ≤ i`, `0 ≤ j` -/
def slice (b : List α) (i j : Nat) : List α := (b.take j).drop i

/-- `bytes.translate(table)` where the table holds values of type `α` (the table's element type) -/
def translateGo (tab : List α) : Bytes → Except Exc (List α)
  | [] => .ok []
  | b :: bs =>
    match tab[b]? with
    | none => .error .indexError
    | some v =>
      match translateGo tab bs with
      | .ok vs => .ok (v :: vs)
      | .error e => .error e

def translate (tab : List α) (xs : Bytes) : Except Exc (List α) :=
  if tab.length ≠ 256 then .error .valueError else translateGo tab xs

/-- octet of a signed char (`array('b').tobytes()`) -/
def sbyte (s : Int) : Nat := (s % 256).toNat
/-- `_bu2s`: signed char of an octet (`array('b', bytes)`) -/
def ubyte2s (b : Nat) : Int := if b ≥ 128 then (b : Int) - 256 else (b : Int)

/-- `Msg.sbit2usbit(bits)`  array[b] -> array[B] -/
def sbit2usbit (bits : List Int) : Except Exc Bytes := translate Gen.Trxd.tabSbit2usbit (bits.map sbyte)
/-- `Msg.usbit2sbit(bits)`  array[B] -> array[b] -/
def usbit2sbit (bits : Bytes) : Except Exc (List Int) := translate Gen.Trxd.tabUsbit2sbit bits
/-- `Msg.sbit2ubit(bits)`  array[b] -> bytearray -/
def sbit2ubit (bits : List Int) : Except Exc Bytes := translate Gen.Trxd.tabSbit2ubit (bits.map sbyte)
/-- `Msg.ubit2sbit(bits)`  bytearray -> array[b] -/
def ubit2sbit (bits : Bytes) : Except Exc (List Int) := translate Gen.Trxd.tabUbit2sbit bits

/-! ### Msg (common part) -/

/-- `Msg.validate(self)` -/
def validateCommon (ver : Int) (fn tn : Option Int) : Except Exc Unit :=
  if ¬ Gen.Trxd.knownVersions.contains ver then .error .valueError else
  match fn with
  | none => .error .valueError
  | some fn =>
    -- NOTE: `fn >= GSM_HYPERFRAME` is the repaired comparison (fix of observation F2)
    if fn < 0 ∨ fn ≥ Gen.Trxd.gsmHyperframe then .error .valueError else
    match tn with
    | none => .error .valueError
    | some tn =>
      if tn < 0 ∨ tn > 7 then .error .valueError else .ok ()

/-- a `None` attribute where the code needs a value: the exception Python raises -/
def need (o : Option α) (e : Exc) : Except Exc α :=
  match o with
  | some v => .ok v
  | none => .error e

/-- `gen_msg`, common part: `buf.append((ver << 4) | (tn & 0x07)); buf += struct.pack(">L", fn)` -/
def genCommon (ver : Int) (fn tn : Option Int) : Except Exc Bytes := do
  let tn ← need tn .typeError
  let buf ← bytearrayAppend [] (16 * ver + tn % 8)
  let fn ← need fn .structError
  let f ← packBE32u fn
  pure (buf ++ f)

/-- `if legacy and self.ver == 0x00: buf += bytearray(2)` -/
def appendLegacy (ver : Int) (legacy : Bool) (buf : Bytes) : Bytes :=
  if legacy ∧ ver = 0 then buf ++ [0, 0] else buf

/-- `parse_msg`, common part: length check, version, TN, FN.  Returns (ver, tn, fn). -/
def parseCommon (msg : Bytes) : Except Exc (Nat × Nat × Nat) := do
  if msg.length < Gen.Trxd.chdrLen then throw .valueError
  let b0 ← index msg 0
  let ver := b0 >>> 4
  if ¬ Gen.Trxd.knownVersions.contains (ver : Int) then throw .valueError
  let tn := b0 &&& 0x07
  let fn ← unpackBE32u (slice msg 1 5)
  pure (ver, tn, fn)

/-- `HDR_LEN` property (regenerated by evaluating it for every version; `IndexError` otherwise) -/
def hdrLenOf (tab : List (Nat × Nat)) (ver : Nat) : Except Exc Nat :=
  match tab.lookup ver with
  | some l => .ok l
  | none => .error .indexError
def txHdrLen (ver : Nat) : Except Exc Nat := hdrLenOf Gen.Trxd.txHdrLen ver
def rxHdrLen (ver : Nat) : Except Exc Nat := hdrLenOf Gen.Trxd.rxHdrLen ver

/-! ### TxMsg -/

structure TxMsg where
  ver : Int
  fn : Option Int
  tn : Option Int
  pwr : Option Int
  /-- bytes | bytearray of hard bits -/
  burst : Option Bytes
deriving DecidableEq, Repr

namespace TxMsg
/-- `TxMsg()` -/
def fresh : TxMsg := ⟨0, none, none, none, none⟩

/-- element type invariant of `bytes`/`bytearray` -/
def WellTyped (m : TxMsg) : Prop := ∀ b ∈ m.burst, ∀ x ∈ b, x < 256
instance (m : TxMsg) : Decidable m.WellTyped := by unfold WellTyped; infer_instance

/-- attenuation and burst checks of `TxMsg.validate` -/
def validateOwn (m : TxMsg) : Except Exc Unit :=
  match m.pwr with
  | none => .error .valueError
  | some pwr =>
    if pwr < Gen.Trxd.pwrMin ∨ pwr > Gen.Trxd.pwrMax then .error .valueError else
    match m.burst with
    | none => .error .valueError
    | some b =>
      if ¬ (b.length = Gen.Trxd.gmskBurstLen ∨ b.length = Gen.Trxd.edgeBurstLen) then .error .valueError
      else .ok ()

/-- `TxMsg.validate(self)` -/
def validate (m : TxMsg) : Except Exc Unit := do
  validateCommon m.ver m.fn m.tn      -- Msg.validate(self)
  m.validateOwn

/-- `append_hdr_to`: `buf.append(self.pwr)` -/
def appendHdrTo (m : TxMsg) (buf : Bytes) : Except Exc Bytes := do
  let pwr ← need m.pwr .typeError
  bytearrayAppend buf pwr

/-- `if self.burst is not None: self.append_burst_to(buf)`: `buf.extend(self.burst)` (bytes: copied as is) -/
def appendBurstTo (m : TxMsg) (buf : Bytes) : Except Exc Bytes :=
  match m.burst with
  | none => .ok buf
  | some b => .ok (buf ++ b)

/-- `TxMsg.gen_msg(self, legacy)` -/
def genMsg (m : TxMsg) (legacy : Bool := false) : Except Exc Bytes := do
  m.validate
  let buf ← genCommon m.ver m.fn m.tn
  let buf ← m.appendHdrTo buf
  let buf ← m.appendBurstTo buf
  pure (appendLegacy m.ver legacy buf)

/-- `TxMsg.parse_burst`: GSM / EDGE length selection and truncation -/
def parseBurst (burst : Bytes) : Bytes :=
  let length := burst.length
  if length ≥ Gen.Trxd.edgeBurstLen then
    if length > Gen.Trxd.edgeBurstLen then burst.take Gen.Trxd.edgeBurstLen else burst
  else
    if length > Gen.Trxd.gmskBurstLen then burst.take Gen.Trxd.gmskBurstLen else burst

/-- `TxMsg().parse_msg(msg)`; every attribute of the object is assigned, so the result does not
depend on the object's previous state. -/
def parseMsg (msg : Bytes) : Except Exc TxMsg := do
  let (ver, tn, fn) ← parseCommon msg
  let hl ← txHdrLen ver
  if msg.length < hl then throw .valueError
  -- parse_hdr: `self.pwr = hdr[5]`
  let pwr ← index msg 5
  if msg.length = hl then
    pure ⟨ver, some fn, some tn, some pwr, none⟩
  else
    pure ⟨ver, some fn, some tn, some pwr, some (parseBurst (msg.drop hl))⟩
end TxMsg

/-! ### RxMsg -/

structure RxMsg where
  ver : Int
  fn : Option Int
  tn : Option Int
  rssi : Option Int
  toa256 : Option Int
  modType : Option Modulation
  nopeInd : Bool
  tscSet : Option Int
  tsc : Option Int
  ci : Option Int
  /-- array('b') of soft bits -/
  burst : Option (List Int)
deriving DecidableEq, Repr

namespace RxMsg
/-- `RxMsg()`: constructor defaults and class attribute defaults -/
def fresh : RxMsg :=
  { ver := 0, fn := none, tn := none, rssi := none, toa256 := none,
    modType := Gen.Trxd.rxDefaultMod.bind Modulation.ofIdx?, nopeInd := Gen.Trxd.rxDefaultNope,
    tscSet := none, tsc := none, ci := none, burst := none }

/-- element type invariant of `array('b')` -/
def WellTyped (m : RxMsg) : Prop := ∀ b ∈ m.burst, ∀ s ∈ b, -128 ≤ s ∧ s ≤ 127
instance (m : RxMsg) : Decidable m.WellTyped := by unfold WellTyped; infer_instance

/-- `_validate_burst_v0` -/
def validateBurstV0 (m : RxMsg) : Except Exc Unit :=
  match m.burst with
  | none => .error .valueError
  | some b =>
    if ¬ (b.length = Gen.Trxd.gmskBurstLen ∨ b.length = Gen.Trxd.edgeBurstLen) then .error .valueError
    else .ok ()

/-- `_validate_burst_v1` -/
def validateBurstV1 (m : RxMsg) : Except Exc Unit :=
  match m.nopeInd, m.burst with
  | true, none => .ok ()
  | true, some _ => .error .valueError
  | false, none => .error .valueError
  | false, some b =>
    match m.modType with
    | none => .error .attributeError
    | some mod => if b.length ≠ mod.bl then .error .valueError else .ok ()

/-- `validate_burst` -/
def validateBurst (m : RxMsg) : Except Exc Unit :=
  if m.ver = 0 then m.validateBurstV0
  else if m.ver ≥ 1 then m.validateBurstV1
  else .ok ()

/-- the block `if self.ver >= 0x01 and not self.nope_ind:` of `validate` -/
def validateMts (m : RxMsg) : Except Exc Unit :=
  if m.ver ≥ 1 ∧ m.nopeInd = false then
    match m.modType with
    | none => .error .valueError
    | some mod =>
      match m.tscSet with
      | none => .error .valueError
      | some set =>
        if (if mod = Modulation.gmsk then ¬ (0 ≤ set ∧ set < 4) else ¬ (0 ≤ set ∧ set < 2)) then
          .error .valueError
        else
          match m.tsc with
          | none => .error .valueError
          | some tsc => if ¬ Gen.Trxd.tscRange.contains tsc then .error .valueError else .ok ()
  else .ok ()

/-- the block `if self.ver >= 0x01:` (C/I) of `validate` -/
def validateCi (m : RxMsg) : Except Exc Unit :=
  if m.ver ≥ 1 then
    match m.ci with
    | none => .error .valueError
    | some ci => if ci < Gen.Trxd.ciMin ∨ ci > Gen.Trxd.ciMax then .error .valueError else .ok ()
  else .ok ()

/-- RSSI and ToA256 checks of `validate` -/
def validateMeas (m : RxMsg) : Except Exc Unit :=
  match m.rssi with
  | none => .error .valueError
  | some rssi =>
    if rssi < Gen.Trxd.rssiMin ∨ rssi > Gen.Trxd.rssiMax then .error .valueError else
    match m.toa256 with
    | none => .error .valueError
    | some toa => if toa < Gen.Trxd.toa256Min ∨ toa > Gen.Trxd.toa256Max then .error .valueError else .ok ()

/-- `RxMsg.validate(self)` -/
def validate (m : RxMsg) : Except Exc Unit := do
  validateCommon m.ver m.fn m.tn      -- Msg.validate(self)
  m.validateMeas
  m.validateMts
  m.validateCi
  m.validateBurst

/-- `mts = self.gen_mts(); buf.append(mts)`.
`gen_mts`: `NOPE_IND` if `nope_ind`, else `(tsc & 0b111) | (coding << 3) | (tsc_set << 3)`.
With a negative `tsc_set` the value is negative and `append` raises ValueError. -/
def appendMts (m : RxMsg) (buf : Bytes) : Except Exc Bytes := do
  if m.nopeInd then bytearrayAppend buf Gen.Trxd.nopeInd else
  let tsc ← need m.tsc .typeError
  let mod ← need m.modType .attributeError
  let set ← need m.tscSet .typeError
  if set < 0 then throw .valueError
  bytearrayAppend buf ((((tsc % 8).toNat ||| (mod.coding <<< 3)) ||| (set.toNat <<< 3) : Nat) : Int)

/-- `RxMsg.append_hdr_to(buf)` -/
def appendHdrTo (m : RxMsg) (buf : Bytes) : Except Exc Bytes := do
  let rssi ← need m.rssi .typeError
  let buf ← bytearrayAppend buf (-rssi)
  let toa ← need m.toa256 .structError
  let t ← packBE16s toa
  let buf := buf ++ t
  if m.ver ≥ 1 then
    let buf ← m.appendMts buf
    let ci ← need m.ci .structError
    let c ← packBE16s ci
    pure (buf ++ c)
  else
    pure buf

/-- `if self.burst is not None: self.append_burst_to(buf)`: `buf.extend(self.sbit2usbit(self.burst))` -/
def appendBurstTo (m : RxMsg) (buf : Bytes) : Except Exc Bytes :=
  match m.burst with
  | none => .ok buf
  | some b => do
    let u ← sbit2usbit b
    pure (buf ++ u)

/-- `RxMsg.gen_msg(self, legacy)` -/
def genMsg (m : RxMsg) (legacy : Bool := false) : Except Exc Bytes := do
  m.validate
  let buf ← genCommon m.ver m.fn m.tn
  let buf ← m.appendHdrTo buf
  let buf ← m.appendBurstTo buf
  pure (appendLegacy m.ver legacy buf)

/-- `RxMsg.parse_mts(mts)` -/
def parseMts (m : RxMsg) (mts : Nat) : RxMsg :=
  if (mts &&& Gen.Trxd.nopeInd) > 0 then
    { m with nopeInd := true, modType := none, tscSet := none, tsc := none }
  else
    let tsc := mts &&& 0b111
    let x := (mts >>> 3) &&& 0b1111
    if (x &&& 0b1100) > 0 then
      { m with nopeInd := false, tsc := some (tsc : Int),
               modType := Modulation.pick (x &&& 0b1110), tscSet := some ((x &&& 0b1 : Nat) : Int) }
    else
      { m with nopeInd := false, tsc := some (tsc : Int),
               modType := some Modulation.gmsk, tscSet := some ((x &&& 0b11 : Nat) : Int) }

/-- the modulation guessed by `_parse_burst_v0` from the burst length: `pick_by_bl(bl)`, and if that
is `None` (some old transceivers append two dummy bytes) `pick_by_bl(bl - 2)` -/
def guessMod (bl : Int) : Option Modulation :=
  match Modulation.pickByBl bl with
  | some m => some m
  | none => Modulation.pickByBl (bl - 2)

/-- `_parse_burst_v0(burst)`: (guessed modulation, burst cut to its length) -/
def parseBurstV0 (burst : Bytes) : Except Exc (Modulation × Bytes) :=
  match guessMod (burst.length : Int) with
  | none => .error .valueError
  | some m => .ok (m, burst.take m.bl)

/-- `RxMsg.parse_hdr(hdr)` on an object whose `ver` has been assigned -/
def parseHdr (m : RxMsg) (msg : Bytes) : Except Exc RxMsg := do
  let r ← index msg 5
  let toa ← unpackBE16s (slice msg 6 8)
  let m := { m with rssi := some (-(r : Int)), toa256 := some toa }
  if m.ver ≥ 1 then
    let mts ← index msg 8
    let m := m.parseMts mts
    let ci ← unpackBE16s (slice msg 9 11)
    pure { m with ci := some ci }
  else
    pure m

/-- `RxMsg.parse_burst(burst)` -/
def parseBurst (m : RxMsg) (burst : Bytes) : Except Exc RxMsg := do
  if m.ver = 0 then
    let (mod, b) ← parseBurstV0 burst
    let s ← usbit2sbit b
    pure { m with modType := some mod, burst := some s }
  else
    let s ← usbit2sbit burst
    pure { m with burst := some s }

/-- `self.parse_msg(msg)` on an existing object `self` -/
def parseMsgFrom (self : RxMsg) (msg : Bytes) : Except Exc RxMsg := do
  let (ver, tn, fn) ← parseCommon msg
  let m := { self with ver := ver, tn := some (tn : Int), fn := some (fn : Int) }
  let hl ← rxHdrLen ver
  if msg.length < hl then throw .valueError
  let m ← m.parseHdr msg
  if msg.length = hl then
    pure { m with burst := none }
  else
    m.parseBurst (msg.drop hl)

/-- `RxMsg().parse_msg(msg)` -/
def parseMsg (msg : Bytes) : Except Exc RxMsg := parseMsgFrom fresh msg
end RxMsg

/-! ### TxMsg.trans / RxMsg.trans -/

/-- `TxMsg.trans(self, ver)`: a new `RxMsg(fn, tn, ver = self.ver if ver is None else ver)`;
burst bits through `ubit2sbit` (regenerated table), `nope_ind = True` when there is no burst. -/
def TxMsg.trans (m : TxMsg) (ver : Option Int := none) : Except Exc RxMsg :=
  let r : RxMsg := { RxMsg.fresh with fn := m.fn, tn := m.tn,
                                      ver := match ver with | none => m.ver | some v => v }
  match m.burst with
  | some b =>
    match ubit2sbit b with
    | .error e => .error e
    | .ok s => .ok { r with burst := some s }
  | none => .ok { r with nopeInd := true }

/-- `RxMsg.trans(self, ver)`: a new `TxMsg(fn, tn, ver = ...)`; burst through `sbit2ubit`. -/
def RxMsg.trans (m : RxMsg) (ver : Option Int := none) : Except Exc TxMsg :=
  let t : TxMsg := { TxMsg.fresh with fn := m.fn, tn := m.tn,
                                      ver := match ver with | none => m.ver | some v => v }
  match m.burst with
  | some b =>
    match sbit2ubit b with
    | .error e => .error e
    | .ok u => .ok { t with burst := some u }
  | none => .ok t

/-! ### DATAInterface.send_msg -/

/-- `DATAInterface.send_msg(msg, legacy)` given the outcome of `msg.gen_msg(legacy)`:
the list of datagrams handed to the socket.  `ValueError` is caught (nothing is sent, the call
returns normally); any other exception propagates. -/
def sendMsg (gen : Except Exc Bytes) : Except Exc (List Bytes) :=
  match gen with
  | .ok payload => .ok [payload]
  | .error .valueError => .ok []
  | .error e => .error e

end OsmoVerif.Trxd
