/-
Model of the message buffers under the serial link:
  src/shared/libosmocore/include/osmocom/core/msgb.h   (the inline operations, MSGB_DEBUG defined:
                                                        MSGB_ABORT = osmo_panic)
  src/shared/libosmocore/src/msgb.c                    (msgb_alloc, msgb_reset, msgb_enqueue, msgb_dequeue,
                                                        msgb_length)
  src/shared/libosmocore/include/osmocom/core/linuxlist.h (__llist_add, llist_add_tail, __llist_del,
                                                        llist_del, llist_empty, INIT_LLIST_HEAD)
  src/target/firmware/include/comm/sercomm.h           (sercomm_alloc_msgb)
statement by statement, with the C widths.

A `struct msgb` is its `uint16_t data_len, len`, the three `unsigned char *head, *data, *tail` as offsets
from `&_data[0]`, and the `_data[data_len]` array.  Where the header has a check the outcome of a failed
check is `Fault.abort` (`MSGB_ABORT` → `osmo_panic`).  Where it has none, the model does not invent one:
a pointer that is formed outside `_data[0 .. data_len]` (one past the end is allowed, as in C) or
dereferenced outside `_data[0 .. data_len)` is the explicit outcome `Fault.oob`; arithmetic on
`uint16_t len` wraps.  An unchecked operation whose pointers stay inside the array but cross each other
(e.g. `msgb_pull` of more than `len`) returns normally with the state the C code produces (`data > tail`,
`len` wrapped).
Not modelled: failure of `_talloc_zero` (NULL), the `l1h…l4h`, `cb`, `trx`, `lchan` members (sercomm and
osmocon do not use them), `msgb_free` beyond "the buffer is gone".
-/
namespace OsmoVerif.Msgb

/-- why an operation did not return normally -/
inductive Fault where
  /-- `MSGB_ABORT` (→ `osmo_panic`): the check present in msgb.h failed -/
  | abort
  /-- a pointer formed outside `_data[0 .. data_len]` or dereferenced outside `_data[0 .. data_len)`;
  the header has no check on this path -/
  | oob
  /-- `osmo_static_assert(size > headroom, …)` of `msgb_alloc_headroom` evaluated on run-time values:
  `typedef int dummy[-1]` (a variable length array type with a negative bound) -/
  | vla
  /-- `space[0] << 24` with `space[0] ≥ 0x80`: the `uint8_t` is promoted to `int`, the shift is not
  representable (`msgb_get_u32`, `msgb_pull_u32`) -/
  | shift
deriving DecidableEq, Repr

/-- `struct msgb` as far as the link uses it -/
structure Msgb where
  /-- `uint16_t data_len` -/
  dataLen : Nat
  /-- `uint16_t len` -/
  len : Nat
  /-- `head - _data` -/
  head : Nat
  /-- `data - _data` -/
  data : Nat
  /-- `tail - _data` -/
  tail : Nat
  /-- `_data[0 .. data_len)` -/
  mem : List Nat
deriving DecidableEq, Repr

/-- conversion to `uint16_t` -/
def u16 (x : Nat) : Nat := x % 65536
/-- conversion of an `int` to `uint16_t` -/
def u16i (x : Int) : Nat := (x % 65536).toNat
/-- `(int) x` for an `unsigned int x` (< 2^32) -/
def toI32 (x : Nat) : Int := if x < 2147483648 then (x : Int) else (x : Int) - 4294967296

/-- `msgb_alloc(size, name)`; the parameter is a `uint16_t`, `size` is the caller's non-negative
`int`/`unsigned` value: `_talloc_zero(ctx, sizeof(*msg) + size)`, `data_len = size`, `len = 0`,
`data = head = tail = _data` -/
def alloc (size : Nat) : Msgb :=
  let s := u16 size
  { dataLen := s, len := 0, head := 0, data := 0, tail := 0, mem := List.replicate s 0 }

/-- `msgb_reset(msg)`: the memory keeps its contents -/
def reset (m : Msgb) : Msgb := { m with len := 0, data := 0, head := 0, tail := 0 }

/-- `msgb_length(msg)` -/
def length (m : Msgb) : Nat := m.len

/-- `msgb_tailroom`: `(msgb->head + msgb->data_len) - msgb->tail`, an `int` -/
def tailroom (m : Msgb) : Int := ((m.head + m.dataLen : Nat) : Int) - (m.tail : Int)

/-- `msgb_headroom`: `msgb->data - msgb->head`, an `int` -/
def headroom (m : Msgb) : Int := (m.data : Int) - (m.head : Int)

/-- `msgb_headlen`: `msgb->len - msgb->data_len` (both promoted to `int`), returned as `unsigned int` -/
def headlen (m : Msgb) : Nat := (((m.len : Int) - (m.dataLen : Int)) % 4294967296).toNat

/-- `msgb_put(msgb, len)` → the old `tail`.  The check compares with `(int) len`. -/
def put (m : Msgb) (n : Nat) : Except Fault (Msgb × Nat) :=
  if tailroom m < toI32 n then .error .abort
  else if m.tail + n > m.dataLen then .error .oob
  else .ok ({ m with tail := m.tail + n, len := u16 (m.len + n) }, m.tail)

/-- `msgb_push(msgb, len)` → the new `data` -/
def push (m : Msgb) (n : Nat) : Except Fault (Msgb × Nat) :=
  if headroom m < toI32 n then .error .abort
  else if m.data < n then .error .oob
  else .ok ({ m with data := m.data - n, len := u16 (m.len + n) }, m.data - n)

/-- `msgb_get(msgb, len)`: `tmp = msgb->data - len` (sic: not `tail - len`), the check against
`msgb_length`, `tail -= len`, `len -= len` → `tmp` -/
def get (m : Msgb) (n : Nat) : Except Fault (Msgb × Nat) :=
  if m.data < n then .error .oob
  else if m.len < n then .error .abort
  else if m.tail < n then .error .oob
  else .ok ({ m with tail := m.tail - n, len := u16 (m.len + 4294967296 - n) }, m.data - n)

/-- `msgb_pull(msgb, len)`: `msgb->len -= len; return msgb->data += len;` — no check -/
def pull (m : Msgb) (n : Nat) : Except Fault (Msgb × Nat) :=
  if m.data + n > m.dataLen then .error .oob
  else .ok ({ m with data := m.data + n, len := u16 (m.len + 4294967296 - n) }, m.data + n)

/-- `msgb_reserve(msg, len)`: `data += len; tail += len` with an `int len` — no check -/
def reserve (m : Msgb) (n : Int) : Except Fault Msgb :=
  let d : Int := m.data + n
  let t : Int := m.tail + n
  if d < 0 ∨ d > m.dataLen ∨ t < 0 ∨ t > m.dataLen then .error .oob
  else .ok { m with data := d.toNat, tail := t.toNat }

/-- `msgb_trim(msg, len)` with an `int len`: `-1` if `len > data_len`, else `len = len; tail = data + len`, `0` -/
def trim (m : Msgb) (n : Int) : Except Fault (Msgb × Int) :=
  if n > m.dataLen then .ok (m, -1)
  else
    let t : Int := m.data + n
    if t < 0 ∨ t > m.dataLen then .error .oob
    else .ok ({ m with len := u16i n, tail := t.toNat }, 0)

/-- `p[i]` read through a pointer into `_data` -/
def readAt (m : Msgb) (off : Nat) : Except Fault Nat :=
  match m.mem[off]? with
  | some v => .ok v
  | none => .error .oob

/-- `p[i] = v` -/
def writeAt (m : Msgb) (off : Nat) (v : Nat) : Except Fault Msgb :=
  if off < m.mem.length then .ok { m with mem := m.mem.set off v } else .error .oob

/-- `memcpy(p, bytes, n)` -/
def writeBytes (m : Msgb) (off : Nat) : List Nat → Except Fault Msgb
  | [] => .ok m
  | b :: bs => do
    let m ← writeAt m off b
    writeBytes m (off + 1) bs

/-- `n` octets read from `p` -/
def readBytes (m : Msgb) (off : Nat) : Nat → Except Fault (List Nat)
  | 0 => .ok []
  | n + 1 => do
    let b ← readAt m off
    let bs ← readBytes m (off + 1) n
    .ok (b :: bs)

/-- `msgb_put_u8(msgb, word)`: `space = msgb_put(msgb, 1); space[0] = word & 0xFF` -/
def putU8 (m : Msgb) (w : Nat) : Except Fault Msgb := do
  let (m, p) ← put m 1
  writeAt m p (w % 256)

/-- `msgb_put_u16`: `space[0] = word >> 8 & 0xFF; space[1] = word & 0xFF` (`uint16_t word`) -/
def putU16 (m : Msgb) (w : Nat) : Except Fault Msgb := do
  let w := w % 65536
  let (m, p) ← put m 2
  let m ← writeAt m p (w / 256 % 256)
  writeAt m (p + 1) (w % 256)

/-- `msgb_put_u32` (`uint32_t word`) -/
def putU32 (m : Msgb) (w : Nat) : Except Fault Msgb := do
  let w := w % 4294967296
  let (m, p) ← put m 4
  let m ← writeAt m p (w / 16777216 % 256)
  let m ← writeAt m (p + 1) (w / 65536 % 256)
  let m ← writeAt m (p + 2) (w / 256 % 256)
  writeAt m (p + 3) (w % 256)

/-- `msgb_get_u8`: `space = msgb_get(msgb, 1); return space[0]` -/
def getU8 (m : Msgb) : Except Fault (Msgb × Nat) := do
  let (m, p) ← get m 1
  let v ← readAt m p
  .ok (m, v)

/-- `msgb_get_u16`: `space[0] << 8 | space[1]` -/
def getU16 (m : Msgb) : Except Fault (Msgb × Nat) := do
  let (m, p) ← get m 2
  let a ← readAt m p
  let b ← readAt m (p + 1)
  .ok (m, a * 256 + b)

/-- `space[0] << 24 | space[1] << 16 | space[2] << 8 | space[3]` on `int`-promoted octets -/
def be32 (a b c d : Nat) : Except Fault Nat :=
  if a ≥ 128 then .error .shift else .ok (a * 16777216 + b * 65536 + c * 256 + d)

/-- `msgb_get_u32` -/
def getU32 (m : Msgb) : Except Fault (Msgb × Nat) := do
  let (m, p) ← get m 4
  let a ← readAt m p
  let b ← readAt m (p + 1)
  let c ← readAt m (p + 2)
  let d ← readAt m (p + 3)
  let v ← be32 a b c d
  .ok (m, v)

/-- `msgb_pull_u8`: `space = msgb_pull(msgb, 1) - 1; return space[0]` -/
def pullU8 (m : Msgb) : Except Fault (Msgb × Nat) := do
  let (m, p) ← pull m 1
  let v ← readAt m (p - 1)
  .ok (m, v)

/-- `msgb_pull_u16` -/
def pullU16 (m : Msgb) : Except Fault (Msgb × Nat) := do
  let (m, p) ← pull m 2
  let a ← readAt m (p - 2)
  let b ← readAt m (p - 1)
  .ok (m, a * 256 + b)

/-- `msgb_pull_u32` -/
def pullU32 (m : Msgb) : Except Fault (Msgb × Nat) := do
  let (m, p) ← pull m 4
  let a ← readAt m (p - 4)
  let b ← readAt m (p - 3)
  let c ← readAt m (p - 2)
  let d ← readAt m (p - 1)
  let v ← be32 a b c d
  .ok (m, v)

/-- `msgb_alloc_headroom(size, headroom, name)` with `int` arguments: the static assert on run-time
values, `msgb_alloc(size)` (conversion to `uint16_t`), `msgb_reserve(msg, headroom)` -/
def allocHeadroom (size headroom : Int) : Except Fault Msgb :=
  if ¬ (size > headroom) then .error .vla
  else reserve (alloc (u16i size)) headroom

/-- `sercomm_alloc_msgb(len)` with an `unsigned int len`: `msgb_alloc_headroom(len+4, 4, "sercomm_tx")` -/
def sercommAlloc (n : Nat) : Except Fault Msgb :=
  allocHeadroom (toI32 ((n + 4) % 4294967296)) 4

/-- `memcpy(msgb_put(msg, n), bytes, n)` -/
def putBytes (m : Msgb) (bytes : List Nat) : Except Fault Msgb := do
  let (m, p) ← put m bytes.length
  writeBytes m p bytes

/-- `memcpy(msgb_push(msg, n), bytes, n)` -/
def pushBytes (m : Msgb) (bytes : List Nat) : Except Fault Msgb := do
  let (m, p) ← push m bytes.length
  writeBytes m p bytes

/-- what a reader of `msg->data[0 .. msg->len)` sees (`none`: that range is not inside `_data`) -/
def payload (m : Msgb) : Option (List Nat) :=
  if m.data + m.len ≤ m.mem.length then some ((m.mem.drop m.data).take m.len) else none

/-- the octets between `data` and `tail` -/
def body (m : Msgb) : List Nat := (m.mem.drop m.data).take (m.tail - m.data)

/-! ## `msgb_enqueue` / `msgb_dequeue` on the `struct llist_head` embedded in the msgb

The heap holds `struct llist_head { next, prev }` cells; an address is a `Nat`; the queue head is a cell
of its own (`&sercomm.tx.dlci_queues[i]`), a msgb is identified with the address of its `list` member
(`llist_entry` is `container_of`, pointer arithmetic only). -/

structure Cell where
  next : Nat
  prev : Nat
deriving DecidableEq, Repr

/-- the part of memory that holds list cells -/
abbrev Heap := Nat → Cell

/-- `a->next = v` (the cell is read once) -/
def Heap.setNext (h : Heap) (a v : Nat) : Heap := fun x => let c := h x; if x = a then { c with next := v } else c
/-- `a->prev = v` -/
def Heap.setPrev (h : Heap) (a v : Nat) : Heap := fun x => let c := h x; if x = a then { c with prev := v } else c

/-- `LLIST_POISON1`, `LLIST_POISON2` -/
def poison1 : Nat := 0x00100100
def poison2 : Nat := 0x00200200

/-- `INIT_LLIST_HEAD(ptr)` -/
def initHead (h : Heap) (q : Nat) : Heap := (h.setNext q q).setPrev q q

/-- `__llist_add(new, prev, next)`: `next->prev = new; new->next = next; new->prev = prev; prev->next = new` -/
def llistAdd' (h : Heap) (new prev next : Nat) : Heap :=
  (((h.setPrev next new).setNext new next).setPrev new prev).setNext prev new

/-- `llist_add_tail(new, head)`: `__llist_add(new, head->prev, head)` -/
def llistAddTail (h : Heap) (new head : Nat) : Heap := llistAdd' h new (h head).prev head

/-- `__llist_del(prev, next)`: `next->prev = prev; prev->next = next` -/
def llistDel' (h : Heap) (prev next : Nat) : Heap := (h.setPrev next prev).setNext prev next

/-- `llist_del(entry)` -/
def llistDel (h : Heap) (e : Nat) : Heap :=
  let h := llistDel' h (h e).prev (h e).next
  (h.setNext e poison1).setPrev e poison2

/-- `llist_empty(head)` -/
def llistEmpty (h : Heap) (q : Nat) : Bool := (h q).next == q

/-- `msgb_enqueue(queue, msg)`: `llist_add_tail(&msg->list, queue)` -/
def enqueue (h : Heap) (q msg : Nat) : Heap := llistAddTail h msg q

/-- `msgb_dequeue(queue)`: `NULL` if `llist_empty`, else `lh = queue->next; llist_del(lh); return llist_entry(lh, …)` -/
def dequeue (h : Heap) (q : Nat) : Heap × Option Nat :=
  if llistEmpty h q then (h, none)
  else
    let lh := (h q).next
    (llistDel h lh, some lh)

/-- the cells reached from `a` by `n` times `->next` -/
def walk (h : Heap) : Nat → Nat → List Nat
  | 0, _ => []
  | n + 1, a => a :: walk h n (h a).next

/-! ## a script of operations on one msgb (what the differential harness drives) -/

inductive Op where
  | reset
  | put (n : Nat) | putBytes (b : List Nat) | putU8 (w : Nat) | putU16 (w : Nat) | putU32 (w : Nat)
  | get (n : Nat) | getU8 | getU16 | getU32
  | push (n : Nat) | pushBytes (b : List Nat)
  | pull (n : Nat) | pullU8 | pullU16 | pullU32
  | reserve (n : Int) | trim (n : Int)
  | tailroom | headroom | headlen | length
deriving DecidableEq, Repr

/-- what an operation returns: nothing, a pointer (offset), an integer -/
inductive Ret where
  | unit | ptr (off : Nat) | val (v : Int)
deriving DecidableEq, Repr

def step (m : Msgb) : Op → Except Fault (Msgb × Ret)
  | .reset => .ok (reset m, .unit)
  | .put n => do let (m, p) ← put m n; .ok (m, .ptr p)
  | .putBytes b => do let m ← putBytes m b; .ok (m, .unit)
  | .putU8 w => do let m ← putU8 m w; .ok (m, .unit)
  | .putU16 w => do let m ← putU16 m w; .ok (m, .unit)
  | .putU32 w => do let m ← putU32 m w; .ok (m, .unit)
  | .get n => do let (m, p) ← get m n; .ok (m, .ptr p)
  | .getU8 => do let (m, v) ← getU8 m; .ok (m, .val v)
  | .getU16 => do let (m, v) ← getU16 m; .ok (m, .val v)
  | .getU32 => do let (m, v) ← getU32 m; .ok (m, .val v)
  | .push n => do let (m, p) ← push m n; .ok (m, .ptr p)
  | .pushBytes b => do let m ← pushBytes m b; .ok (m, .unit)
  | .pull n => do let (m, p) ← pull m n; .ok (m, .ptr p)
  | .pullU8 => do let (m, v) ← pullU8 m; .ok (m, .val v)
  | .pullU16 => do let (m, v) ← pullU16 m; .ok (m, .val v)
  | .pullU32 => do let (m, v) ← pullU32 m; .ok (m, .val v)
  | .reserve n => do let m ← reserve m n; .ok (m, .unit)
  | .trim n => do let (m, r) ← trim m n; .ok (m, .val r)
  | .tailroom => .ok (m, .val (tailroom m))
  | .headroom => .ok (m, .val (headroom m))
  | .headlen => .ok (m, .val (headlen m))
  | .length => .ok (m, .val (length m))

end OsmoVerif.Msgb
