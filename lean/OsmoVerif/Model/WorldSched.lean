/-
Interleaving semantics of the two threads of fake_trx over the world model (Model/World.lean):

  socket thread   `Application.run` main loop: ONE thread handles every control and data datagram,
                  one after the other.  An action of this thread is one complete `step` of the world
                  model for a `ctrl` or `data` operation (`CTRLInterface.handle_rx` including
                  `power_event_handler`, or `Transceiver.recv_data_msg`).
  clock thread    `CLCKGen._worker` → `send_clck_ind` → `FakeTRX.clck_handler` → every transceiver's
                  `clck_tick`.  One tick is split into the atomic actions the code defines
                  (`clockStep`, one action per call):
                    begin      read `clck_src`, send the clock indications                 idle → next
                    read       `if not self.running: return` of the next transceiver       next → lock | next
                    locked     `with self._tx_queue_lock:` partition the queue into emit / drop /
                               wait and store `wait` — ONE action                          lock → loop
                    fwd-begin  `forward_msg(self, msg)` for the next emitted message: read the
                               sender's frequency and `rf_muted`                           loop → fwd
                    fwd-read   one recipient of the loop in `forward_msg`: `trx == src_trx`, read
                               its `running`, frequency (`get_rx_freq`), header version
                               (`data_if._hdr_ver`), build `tx_msg = rx_msg.trans(ver)`    fwd → fwd | hdl
                    fwd-handle `trx.handle_data_msg(src_trx, rx_msg, tx_msg)` of that
                               recipient, with the `tx_msg` built by fwd-read              hdl → fwd
                    fwd-end    recipients exhausted                                        fwd → loop
                    stale      one `log.warning("Stale TRXD message")`                     loop → loop
                    done       `clck_tick` returns                                         loop → next
                    incr       `clck_src = (clck_src + 1) % GSM_HYPERFRAME` (the attribute
                               is read again)                                              next → idle
                  An exception leaving any of these ends the thread (`dead`).
The functions used are the ones of the world model (`classify`, `setTrx`, `Trx.getTxFreq`,
`Trx.getRxFreq`, `TxMsg.trans`, `handleDataMsg`, `step`); `Lemmas/WorldSched.lean` proves that a tick
run without interference is `World.tick`.

The boundaries at which `harness/py/sched_harness.py` can park the real clock thread are boundaries
between two of these actions (`boundaries` below): pre-tick(j) = `next fn (j :: js)`, pre-lock(j) =
`lock fn j js`, post-lock(j) = the `loop` state the locked section leaves, pre-forward = `loop` with a
non-empty `emit`, pre-handle(k) = `hdl … k …`.  The model has more boundaries than the harness forces
(between two recipients, around the stale reports, before `incr`).

A schedule is a list of actions (`Act`): between any two atomic actions of the clock thread the
socket thread may execute any number of complete operations (the property's quantifier — ONE
arrival / power command racing ONE tick — is the special case of one `sock` action in the list).

Outside the model: preemption INSIDE one of the atomic actions above — inside a Python statement
(e.g. between the two loads of `self.fh` that finding F14 was about), between the statements one
action stands for (fwd-begin: `get_tx_freq` then `rf_muted`; fwd-read: `running`, `get_rx_freq`,
`_hdr_ver`; the statements of `handle_data_msg`), and inside an operation of the socket thread (a
socket operation is ONE action; the harness, too, runs it to completion while the clock thread is
parked); OS scheduling and time; the `stop()`/`join()` of the clock thread at the last POWEROFF (the
model allows more schedules than the real program: the socket thread is never blocked).  No Mathlib.
-/
import OsmoVerif.Model.World

namespace OsmoVerif.World.Sched
open OsmoVerif OsmoVerif.World

/-- program counter and local variables of the clock thread -/
inductive Pc
  /-- between two ticks -/
  | idle
  /-- an exception left the thread -/
  | dead (e : Exc)
  /-- `clck_handler` loop at frame `fn`: about to call `clck_tick` of the head of `js` -/
  | next (fn : Nat) (js : List Nat)
  /-- `clck_tick` of `j`: `self.running` was read as True, about to take the queue lock -/
  | lock (fn : Nat) (j : Nat) (js : List Nat)
  /-- `clck_tick` of `j` after the locked section, with the local lists `emit` and `drop` still to
  be processed -/
  | loop (fn : Nat) (j : Nat) (emit drop : List Trxd.TxMsg) (js : List Nat)
  /-- inside `forward_msg(src = j, msg)`: `tx_freq` computed, recipients `ks` still to be visited
  (`mfn` = `msg.fn`) -/
  | fwd (fn : Nat) (j : Nat) (msg : Trxd.TxMsg) (mfn : Nat) (txFreq : Option Int) (ks : List Nat)
      (emit drop : List Trxd.TxMsg) (js : List Nat)
  /-- inside the recipient loop of `forward_msg(src = j, msg)`: recipient `k` has passed the checks
  (its `running`, frequency and header version have been read) and `tx_msg = rx` has been built;
  about to call `k.handle_data_msg(j, msg, rx)` -/
  | hdl (fn : Nat) (j : Nat) (msg : Trxd.TxMsg) (mfn : Nat) (txFreq : Option Int) (k : Nat)
      (rx : Trxd.RxMsg) (ks : List Nat) (emit drop : List Trxd.TxMsg) (js : List Nat)
deriving DecidableEq

/-- global state: the world (shared objects), the clock thread's control state, and what the
threads have emitted so far -/
structure State where
  w : World
  pc : Pc := .idle
  /-- datagrams sent by the clock thread (clock indications, forwarded bursts) -/
  out : List Dgram := []
  /-- number of 'Stale TRXD message' records -/
  stale : Nat := 0
  /-- datagrams sent by the socket thread (TRXC responses) -/
  sout : List Dgram := []

/-- the clock indications of `send_clck_ind` at frame `fn` -/
def clockInds (w : World) (fn : Nat) : List Dgram :=
  if fn % Gen.World.indPeriod = 0 then
    w.clkLinks.filterMap (fun i => (w.trxs[i]?).map (fun t =>
      ⟨t.clckPort, t.addr, t.clckRemote,
       PyStr.encodeUtf8 (PyStr.lit "IND CLOCK " ++ PyStr.natDigits fn ++ [0])⟩))
  else []

/-- the reads of one iteration of the recipient loop of `forward_msg(src = j, msg)` for recipient
`k` (`if trx == src_trx` … `tx_msg = rx_msg.trans(ver = trx.data_if._hdr_ver)`):
`none` = `continue`, `some rx` = the recipient is served, with the translated message `rx` -/
def fwdRead (w : World) (j : Nat) (msg : Trxd.TxMsg) (mfn : Nat) (txFreq : Option Int) (k : Nat) :
    Except Exc (Option Trxd.RxMsg) :=
  if k = j then .ok none else
  match w.trxs[k]? with
  | none => .error .indexError
  | some trx =>
    if ¬ trx.running then .ok none else
    match trx.getRxFreq mfn with
    | .error e => .error e
    | .ok rxFreq =>
      if rxFreq ≠ txFreq then .ok none else
      match msg.trans (some trx.hdrVer) with
      | .error e => .error (ofTrxdExc e)
      | .ok rx => .ok (some rx)

/-- one atomic action of the clock thread -/
def clockStep (s : State) : State :=
  match s.pc with
  | .idle =>
    if ¬ s.w.clkRunning then s else
    match s.w.clkSrc with
    | none => { s with pc := .dead .attributeError }
    | some fn => { s with out := s.out ++ clockInds s.w fn, pc := .next fn (List.range s.w.trxs.length) }
  | .dead _ => s
  | .next _ [] =>
    -- `self.clck_src = (self.clck_src + 1) % GSM_HYPERFRAME`
    match s.w.clkSrc with
    | none => { s with pc := .dead .attributeError }
    | some c => { s with w := { s.w with clkSrc := some ((c + 1) % Gen.World.hyperframe) }, pc := .idle }
  | .next fn (j :: js) =>
    match s.w.trxs[j]? with
    | none => { s with pc := .dead .indexError }
    | some trx => if ¬ trx.running then { s with pc := .next fn js } else { s with pc := .lock fn j js }
  | .lock fn j js =>
    match s.w.trxs[j]? with
    | none => { s with pc := .dead .indexError }
    | some trx =>
      let emit := trx.txQueue.filter (fun m => classify fn m == .emit)
      let drop := trx.txQueue.filter (fun m => classify fn m == .stale)
      let wait := trx.txQueue.filter (fun m => classify fn m == .wait)
      { s with w := setTrx s.w j (fun t => { t with txQueue := wait }), pc := .loop fn j emit drop js }
  | .loop fn j (m :: emit) drop js =>
    match s.w.trxs[j]? with
    | none => { s with pc := .dead .indexError }
    | some src =>
      match m.fn with
      | none => { s with pc := .dead .typeError }
      | some fnI =>
        match src.getTxFreq fnI.toNat with
        | .error e => { s with pc := .dead e }
        | .ok txFreq =>
          let msg := if src.rfMuted then { m with burst := none } else m
          { s with pc := .fwd fn j msg fnI.toNat txFreq (List.range s.w.trxs.length) emit drop js }
  | .loop fn j [] (_ :: drop) js => { s with stale := s.stale + 1, pc := .loop fn j [] drop js }
  | .loop fn _ [] [] js => { s with pc := .next fn js }
  | .fwd fn j _ _ _ [] emit drop js => { s with pc := .loop fn j emit drop js }
  | .fwd fn j msg mfn txFreq (k :: ks) emit drop js =>
    match fwdRead s.w j msg mfn txFreq k with
    | .error e => { s with pc := .dead e }
    | .ok none => { s with pc := .fwd fn j msg mfn txFreq ks emit drop js }
    | .ok (some rx) => { s with pc := .hdl fn j msg mfn txFreq k rx ks emit drop js }
  | .hdl fn j msg mfn txFreq k rx ks emit drop js =>
    match handleDataMsg s.w k j msg rx with
    | .error e => { s with pc := .dead e }
    | .ok (w, ds) =>
      { s with w := w, out := s.out ++ ds, pc := .fwd fn j msg mfn txFreq ks emit drop js }

/-- one complete operation of the socket thread -/
def sockStep (s : State) (op : Op) : State :=
  let r := step s.w op
  { s with w := r.world, sout := s.sout ++ r.out }

/-- actions of a schedule -/
inductive Act
  /-- the socket thread handles one TRXC datagram -/
  | ctrl (i srcPort : Nat) (data : List Nat)
  /-- the socket thread handles one TRXD datagram -/
  | data (i : Nat) (data : List Nat)
  /-- the clock thread executes its next atomic action -/
  | clk

/-- the operation of the world model a socket action stands for -/
def Act.op? : Act → Option Op
  | .ctrl i sp d => some (.ctrl i sp d)
  | .data i d => some (.data i d)
  | .clk => none

def act (s : State) (a : Act) : State :=
  match a.op? with
  | some op => sockStep s op
  | none => clockStep s

/-- run a schedule -/
def exec (s : State) : List Act → State
  | [] => s
  | a :: as => exec (act s a) as

/-- states reachable from `s0` by some schedule -/
def Reachable (s0 s : State) : Prop := ∃ acts, exec s0 acts = s

/-- `n` consecutive actions of the clock thread -/
def clockRun (s : State) : Nat → State
  | 0 => s
  | n + 1 => clockRun (clockStep s) n

/-- the boundaries of `harness/py/sched_harness.py` the clock thread is standing at in control state
`pc` (`afterLock` = the previous action was a locked section), in the order the harness counts them:
pre-tick | pre-lock | post-lock, pre-forward | pre-handle -/
def boundaries (pc : Pc) (afterLock : Bool) : List String :=
  match pc with
  | .next _ (_ :: _) => ["pre-tick"]
  | .lock .. => ["pre-lock"]
  | .loop _ _ emit _ _ =>
    (if afterLock then ["post-lock"] else []) ++ (if emit.isEmpty then [] else ["pre-forward"])
  | .hdl .. => ["pre-handle"]
  | _ => []

end OsmoVerif.World.Sched
