/-
Model of the two multiframe schedulers (C11).

Firmware (src/target/firmware/layer1/mframe_sched.c):
  * `mframe_schedule_set(task_id)` – the trigger arithmetic, statement by statement,
    with the C integer widths (`fn : uint32_t`, `modulo frame_nr flags : uint16_t`,
    `frame_offset : uint8_t`, `p3 : uint16_t`);
  * `mframe_schedule()` – the loop over the 32 task bits (`scheduleTasks`, `mframeSchedule`
    on a given active bitmap), and the whole runtime on `struct mframe_scheduler`:
    `mframe_enable / mframe_disable / mframe_set / mframe_reset`, the `tasks_tgt → tasks`
    latch (`nothingInTheWay`, `latch`) and the `safe_fn` bookkeeping of
    `mframe_schedule_set` (`safeUpdate`, `scheduleItemsSt`, `mframeScheduleSt`); what
    `tdma_schedule_set` returns is the environment (`RvOf`).
  The task tables, `sched_set_for_task[]`, SCHEDULE_AHEAD/LATENCY, MF_F_* and GSM_MAX_FN
  are regenerated (`Gen/FwMframe.lean`).

trxcon (src/host/trxcon/src/sched_mframe.c, sched_trx.c):
  * `l1sched_mframe_layout(config, tn)`;
  * the frame lookup `frames[fn % period]` of `l1sched_pull_burst` (sched_trx.c) and of
    the Downlink path – partial: period 0 divides by zero, `frames == NULL` is a NULL
    dereference, an index past the table leaves the table.  The functions of sched_trx.c
    that use it are modelled in `Model/TrxSched.lean`.
  `layouts[]` and every `frame_*[]` table are regenerated (`Gen/TrxconMframe.lean`).
-/
import OsmoVerif.Gen.FwMframe
import OsmoVerif.Gen.TrxconMframe

namespace OsmoVerif.Mframe
open OsmoVerif.Gen

def u8  (x : Nat) : Nat := x % 256
def u16 (x : Nat) : Nat := x % 65536
def u32 (x : Nat) : Nat := x % 4294967296

/-! ## firmware -/

/-- ways in which `mframe_schedule_set` leaves defined behaviour -/
inductive FwCrash where
  | taskOutOfRange   -- `sched_set_for_task[task_id]` with `task_id ≥ 32`
  | nullTable        -- `sched_set_for_task[task_id] == NULL`, `si->sched_set` read through it
  | divByZero        -- `% si->modulo` with `modulo == 0`
  | shiftOutOfRange  -- `1 << task_id` with `task_id ≥ 32` (`mframe_enable` / `mframe_disable`)
deriving DecidableEq, Repr

/-- one recorded call `tdma_schedule_set(frame_offset, item_set, p3)` -/
structure Event where
  frameOffset : Nat
  set : FwMframe.SchedSet
  p3 : Nat
deriving DecidableEq, Repr

/-- `unsigned int trigger = si->frame_nr % si->modulo;`
    `unsigned int current = (l1s.current_time.fn + SCHEDULE_AHEAD) % si->modulo;`
    `if (current == trigger)` — `fn` is `uint32_t`, so the sum wraps at 2^32. -/
def fires (it : FwMframe.Item) (fn : Nat) : Bool :=
  u32 (fn + FwMframe.SCHEDULE_AHEAD) % it.modulo == it.frameNr % it.modulo

/-- first argument of `tdma_schedule_set`: `SCHEDULE_AHEAD-SCHEDULE_LATENCY` (int)
    converted to `uint8_t` -/
def frameOffset : Nat :=
  (((FwMframe.SCHEDULE_AHEAD : Int) - (FwMframe.SCHEDULE_LATENCY : Int)) % 256).toNat

/-- third argument: `task_id | (si->flags<<8)` converted to `uint16_t` -/
def p3Of (taskId : Nat) (it : FwMframe.Item) : Nat := u16 (taskId ||| (it.flags <<< 8))

def eventOf (taskId : Nat) (it : FwMframe.Item) : Event := ⟨frameOffset, it.set, p3Of taskId it⟩

/-- the `for (si = set; si->sched_set != NULL; si++)` loop -/
def scheduleItems (taskId fn : Nat) : List FwMframe.Item → Except FwCrash (List Event)
  | [] => .ok []
  | it :: rest =>
    if it.modulo = 0 then .error .divByZero
    else
      match scheduleItems taskId fn rest with
      | .error e => .error e
      | .ok tl => .ok (if fires it fn then eventOf taskId it :: tl else tl)

/-- `mframe_schedule_set(task_id)` at `l1s.current_time.fn = fn` -/
def scheduleSet (taskId fn : Nat) : Except FwCrash (List Event) :=
  match FwMframe.schedSetForTask[taskId]? with
  | none => .error .taskOutOfRange
  | some none => .error .nullTable
  | some (some items) => scheduleItems taskId fn items

/-- the loop `for (i = 0; i < 32; i++) if (tasks & (1 << i)) mframe_schedule_set(i);` -/
def scheduleTasks (tasks fn : Nat) : List Nat → Except FwCrash (List Event)
  | [] => .ok []
  | i :: rest =>
    if tasks.testBit i then
      match scheduleSet i fn with
      | .error e => .error e
      | .ok evs =>
        match scheduleTasks tasks fn rest with
        | .error e => .error e
        | .ok tl => .ok (evs ++ tl)
    else scheduleTasks tasks fn rest

/-- `mframe_schedule()` with active task bitmap `tasks` at frame `fn` -/
def mframeSchedule (tasks fn : Nat) : Except FwCrash (List Event) :=
  scheduleTasks tasks fn (List.range 32)

/-! ### the runtime: `struct mframe_scheduler`, enable / disable / set / reset, `safe_fn` -/

/-- `(int) (uint32_t) x` -/
def toInt32 (x : Nat) : Int :=
  if u32 x < 2147483648 then (u32 x : Int) else (u32 x : Int) - 4294967296

/-- `struct mframe_scheduler { uint32_t tasks, tasks_tgt, safe_fn; }` -/
structure MfState where
  tasks : Nat
  tasksTgt : Nat
  safeFn : Nat
deriving DecidableEq, Repr

/-- `mframe_reset()`: `safe_fn = -1UL` truncated to `uint32_t` -/
def mframeReset : MfState := ⟨0, 0, 4294967295⟩

/-- `mframe_set(tasks)` -/
def mframeSet (s : MfState) (tasks : Nat) : MfState := { s with tasksTgt := u32 tasks }

/-- `mframe_enable(task_id)`: `tasks_tgt |= (1 << task_id)` (`1 << 31` taken as the bit
    pattern 0x80000000, as every supported compiler does) -/
def mframeEnable (s : MfState) (taskId : Nat) : Except FwCrash MfState :=
  if taskId ≥ 32 then .error .shiftOutOfRange
  else .ok { s with tasksTgt := s.tasksTgt ||| u32 (1 <<< taskId) }

/-- `mframe_disable(task_id)`: `tasks_tgt &= ~(1 << task_id)` -/
def mframeDisable (s : MfState) (taskId : Nat) : Except FwCrash MfState :=
  if taskId ≥ 32 then .error .shiftOutOfRange
  else .ok { s with tasksTgt := s.tasksTgt &&& (4294967295 - u32 (1 <<< taskId)) }

/-- what the call `tdma_schedule_set(...)` returns for a sched set (the environment: the
    number of frames the set spans, or a negative value on bucket overflow) -/
abbrev RvOf := FwMframe.SchedSet → Int

/-- `fn = l1s.current_time.fn; ADD_MODULO(fn, rv - 2, GSM_MAX_FN);`
    `if ((fn > safe_fn) || (safe_fn >= GSM_MAX_FN)) safe_fn = fn;`
    (`fn` is `uint32_t`, `rv - 2` an `int` converted to `uint32_t` by the `+=`) -/
def safeUpdate (curFn : Nat) (rv : Int) (safeFn : Nat) : Nat :=
  let fn1 := (((curFn : Int) + (rv - 2)) % 4294967296).toNat
  let fn2 := if fn1 ≥ FwMframe.GSM_MAX_FN then u32 (fn1 + 4294967296 - FwMframe.GSM_MAX_FN) else fn1
  if fn2 > safeFn ∨ safeFn ≥ FwMframe.GSM_MAX_FN then fn2 else safeFn

/-- the `for (si = set; ...)` loop with the `safe_fn` bookkeeping -/
def scheduleItemsSt (rv : RvOf) (taskId fn : Nat) :
    List FwMframe.Item → Nat → Except FwCrash (List Event × Nat)
  | [], sf => .ok ([], sf)
  | it :: rest, sf =>
    if it.modulo = 0 then .error .divByZero
    else if fires it fn then
      match scheduleItemsSt rv taskId fn rest (safeUpdate fn (rv it.set) sf) with
      | .error e => .error e
      | .ok (tl, sf') => .ok (eventOf taskId it :: tl, sf')
    else scheduleItemsSt rv taskId fn rest sf

/-- `mframe_schedule_set(task_id)` with the `safe_fn` bookkeeping -/
def scheduleSetSt (rv : RvOf) (taskId fn sf : Nat) : Except FwCrash (List Event × Nat) :=
  match FwMframe.schedSetForTask[taskId]? with
  | none => .error .taskOutOfRange
  | some none => .error .nullTable
  | some (some items) => scheduleItemsSt rv taskId fn items sf

/-- the loop over the 32 task bits with the `safe_fn` bookkeeping -/
def scheduleTasksSt (rv : RvOf) (tasks fn : Nat) : List Nat → Nat → Except FwCrash (List Event × Nat)
  | [], sf => .ok ([], sf)
  | i :: rest, sf =>
    if tasks.testBit i then
      match scheduleSetSt rv i fn sf with
      | .error e => .error e
      | .ok (evs, sf1) =>
        match scheduleTasksSt rv tasks fn rest sf1 with
        | .error e => .error e
        | .ok (tl, sf2) => .ok (evs ++ tl, sf2)
    else scheduleTasksSt rv tasks fn rest sf

/-- "nothing is in the way" at tick `fn`:
    `fn_diff = safe_fn - current_time.fn` (`uint32_t` difference as `int`);
    `(fn_diff <= 0) || (fn_diff >= (GSM_MAX_FN>>1)) || (safe_fn >= GSM_MAX_FN)` -/
def nothingInTheWay (s : MfState) (fn : Nat) : Bool :=
  let fnDiff := toInt32 (u32 s.safeFn + 4294967296 - u32 fn)
  decide (fnDiff ≤ 0) || decide (fnDiff ≥ ((FwMframe.GSM_MAX_FN >>> 1 : Nat) : Int)) ||
    decide (s.safeFn ≥ FwMframe.GSM_MAX_FN)

/-- the task bitmap `mframe_schedule()` works with at tick `fn`:
    `if (nothing in the way) tasks = tasks_tgt; else tasks &= tasks_tgt;` -/
def latch (s : MfState) (fn : Nat) : Nat :=
  if nothingInTheWay s fn then s.tasksTgt else s.tasks &&& s.tasksTgt

/-- `mframe_schedule()` on the scheduler state at `l1s.current_time.fn = fn`, the loop
    `for (i = 0; i < 32; i++)` running over `bits` -/
def mframeScheduleOn (rv : RvOf) (s : MfState) (fn : Nat) (bits : List Nat) :
    Except FwCrash (List Event × MfState) :=
  match scheduleTasksSt rv (latch s fn) fn bits s.safeFn with
  | .error e => .error e
  | .ok (evs, sf) => .ok (evs, ⟨latch s fn, s.tasksTgt, sf⟩)

/-- `mframe_schedule()` -/
def mframeScheduleSt (rv : RvOf) (s : MfState) (fn : Nat) : Except FwCrash (List Event × MfState) :=
  mframeScheduleOn rv s fn (List.range 32)

/-- Hardware constant (modelled, not verified): a task written to the DSP API page during
    TDMA frame `N` is executed by the Calypso DSP in frame `N + 1` (double-buffered pages).
    This is the latency that `SCHEDULE_LATENCY` ("how long do we need to tell the DSP in
    advance what we want to do?") has to match. -/
def dspLatency : Nat := 1

/-- The TDMA frame on the air of the first burst of a set scheduled at tick `fn`:
    the set's first command runs `frame_offset` ticks later and the DSP executes it
    `dspLatency` frames after that. -/
def airFrame (fn : Nat) : Nat := fn + frameOffset + dspLatency

/-- table of a task by enumerator (`none`: no table / NULL) -/
def tableOf (t : FwMframe.Task) : Option (List FwMframe.Item) :=
  match FwMframe.schedSetForTask[t.val]? with
  | some (some items) => some items
  | _ => none

/-! ## trxcon -/

/-- `l1sched_mframe_layout(config, tn)`: first entry of `layouts[]` with
    `chan_config == config` and not `~slotmask & (1 << tn)`; NULL if there is none.
    (`slotmask` is `uint8_t`: for `8 ≤ tn ≤ 30` every entry is skipped.) -/
def layoutForVal (config tn : Nat) : Option TrxconMframe.Layout :=
  TrxconMframe.layouts.find? fun l => l.config.val == config && l.slotmask.testBit tn

def layoutFor (config : TrxconMframe.Pchan) (tn : Nat) : Option TrxconMframe.Layout :=
  layoutForVal config.val tn

/-- ways in which the frame lookup leaves defined behaviour -/
inductive LookupErr where
  | divByZero     -- `fn % period` with `period == 0`
  | nullFrames    -- `frames == NULL`
  | outOfTable    -- `frames[offset]` past the end of the table
deriving DecidableEq, Repr

/-- `offset = fn % mf_layout->period; frame = &mf_layout->frames[offset];` -/
def lookup (L : TrxconMframe.Layout) (fn : Nat) : Except LookupErr TrxconMframe.Frame :=
  if L.period = 0 then .error .divByZero
  else
    match L.frames with
    | none => .error .nullFrames
    | some fr =>
      match fr[fn % L.period]? with
      | some f => .ok f
      | none => .error .outOfTable

end OsmoVerif.Mframe
