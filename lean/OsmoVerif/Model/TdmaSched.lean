/-
Executable model of the firmware TDMA scheduler
(src/target/firmware/layer1/tdma_sched.c, include/layer1/tdma_sched.h), statement by statement.

Conventions (DESIGN.md section 4):
* C integers are `Nat`/`Int` followed by an explicit wrap at the declared width
  (`uint8_t frame_offset, p1, p2, num_items, cur_bucket`; `uint16_t p3, flags, bucket`; `int16_t prio`);
* the arrays `bucket[TDMASCHED_NUM_FRAMES]`, `item[TDMASCHED_NUM_CB]`, `int seq[TDMASCHED_NUM_CB]` and the
  caller's `item_set[]` are lists; every subscript is checked and an index outside the array is the
  outcome `Fault.oob` (never a default value);
* `bucket->num_items = 0` does not erase the item array: stale items stay in memory (and
  `tdma_schedule()` does not write `.flags`, so a new item inherits the flags of the slot);
* `cur_bucket` is a `uint8_t`: every store to it is followed by the `uint8_t` conversion (`advance`);
  that it stays below `ARRAY_SIZE(bucket)` is a consequence of the statement
  `sched->cur_bucket = wrap_bucket(1)` (proved: `advance_spec`), not an assumption of the model;
* a callback is identified by an id; what it returns is given by the environment (`Env.ret`);
  a callback may re-enter the scheduler ("on the fly" scheduling): when invoked it performs the
  *script* the environment gives for its id (`Env.scripts`) — a list of `tdma_schedule()` /
  `tdma_schedule_set()` calls on the live scheduler, for the current frame (offset 0) or a later one;
  the items it schedules may be scripted callbacks themselves (nesting by id).  The return values of
  the scripted calls are recorded (`Out.rets`).  Callbacks do not call execute / advance / reset;
* calling a NULL function pointer is the outcome `Fault.nullCall`.
-/
import OsmoVerif.Gen.TdmaSched

namespace OsmoVerif.TdmaSched
open OsmoVerif

/-- conversion to `uint8_t` -/
def u8 (n : Nat) : Nat := n % 256
/-- conversion to `uint16_t` -/
def u16 (n : Nat) : Nat := n % 65536
/-- conversion to `int16_t` (gcc: modulo 2^16) -/
def i16 (z : Int) : Int := (z + 32768) % 65536 - 32768

/-- A `tdma_sched_cb *`: `NULL`, `&tdma_end_set`, or one of the (recording) callbacks. -/
inductive Cb where
  | null
  | endSet
  | fn (id : Nat)
  deriving DecidableEq, Repr

/-- `struct tdma_sched_item` -/
structure Item where
  cb : Cb
  p1 : Nat
  p2 : Nat
  p3 : Nat
  prio : Int
  flags : Nat
  deriving DecidableEq, Repr

/-- `struct tdma_sched_bucket`: the whole `item[]` array (live and stale slots) and `num_items` -/
structure Bucket where
  item : List Item
  numItems : Nat
  deriving DecidableEq, Repr

/-- `struct tdma_scheduler` (`l1s.tdma_sched`) -/
structure Sched where
  bucket : List Bucket
  cur : Nat
  deriving DecidableEq, Repr

inductive Fault where
  /-- array subscript outside the array -/
  | oob
  /-- call through a NULL function pointer -/
  | nullCall
  /-- `% 0` -/
  | divZero
  deriving DecidableEq, Repr

/-- `a[i]` (read) -/
def idx {α : Type} (l : List α) (i : Nat) : Except Fault α :=
  match l[i]? with
  | some x => .ok x
  | none => .error .oob

/-- `a[i] = v` -/
def setIdx {α : Type} (l : List α) (i : Nat) (v : α) : Except Fault (List α) :=
  if i < l.length then .ok (l.set i v) else .error .oob

/-- zero-initialised memory (`l1s` lives in .bss) -/
def zeroItem : Item := ⟨.null, 0, 0, 0, 0, 0⟩
def zeroBucket : Bucket := ⟨List.replicate Gen.tdmaNumCb zeroItem, 0⟩
def init (cur : Nat) : Sched := ⟨List.replicate Gen.tdmaNumFrames zeroBucket, cur⟩

/-- `wrap_bucket(offset)`:
`bucket = (l1s.tdma_sched.cur_bucket + offset) % ARRAY_SIZE(l1s.tdma_sched.bucket); return bucket;`
(the sum is computed in `int`/`size_t`, stored in a `uint16_t`, returned as `uint8_t`) -/
def wrapBucket (s : Sched) (offset : Nat) : Except Fault Nat :=
  if Gen.tdmaNumFrames = 0 then .error .divZero
  else .ok (u8 (u16 ((s.cur + offset) % Gen.tdmaNumFrames)))

/-- `tdma_schedule(frame_offset, cb, p1, p2, p3, prio)`; returns the new state and the `int` result -/
def schedule (s : Sched) (frameOffset : Nat) (cb : Cb) (p1 p2 p3 : Nat) (prio : Int) :
    Except Fault (Sched × Int) := do
  let frameOffset := u8 frameOffset
  let p1 := u8 p1
  let p2 := u8 p2
  let p3 := u16 p3
  let prio := i16 prio
  let bucketNr ← wrapBucket s frameOffset
  let bucket ← idx s.bucket bucketNr
  if bucket.numItems ≥ Gen.tdmaNumCb then
    -- puts("tdma_schedule bucket overflow\n"); return -1;
    return (s, -1)
  -- sched_item = &bucket->item[bucket->num_items++];
  let slot := bucket.numItems
  let old ← idx bucket.item slot
  -- cb, p1, p2, p3, prio are assigned; .flags is NOT written
  let items ← setIdx bucket.item slot { old with cb := cb, p1 := p1, p2 := p2, p3 := p3, prio := prio }
  let buckets ← setIdx s.bucket bucketNr { item := items, numItems := u8 (slot + 1) }
  return ({ s with bucket := buckets }, 0)

/-- the loop of `tdma_schedule_set`: `rest` is `item_set[i..]`; reading past the end of the
caller's array (a set without `SCHED_END_SET()`) is `Fault.oob`. -/
def scheduleSetLoop (p3 : Nat) : (rest : List Item) → (s : Sched) → (frameOffset bucketNr : Nat) →
    (j : Int) → Except Fault (Sched × Int)
  | [], _, _, _, _ => .error .oob
  | schedItem :: rest, s, frameOffset, bucketNr, j =>
    if schedItem.cb = .endSet then
      -- end of scheduler set, return
      .ok (s, j)
    else if schedItem.cb = .null then do
      -- advance to next bucket (== TDMA frame): bucket_nr = wrap_bucket(++frame_offset); j++;
      let frameOffset := u8 (frameOffset + 1)
      let bucketNr ← wrapBucket s frameOffset
      scheduleSetLoop p3 rest s frameOffset bucketNr (j + 1)
    else do
      let bucket ← idx s.bucket bucketNr
      -- check for bucket overflow
      if bucket.numItems ≥ Gen.tdmaNumCb then
        return (s, -1)
      -- memcpy(&bucket->item[bucket->num_items], sched_item, sizeof(*sched_item));
      -- bucket->item[bucket->num_items].p3 = p3; bucket->num_items++;
      let items ← setIdx bucket.item bucket.numItems { schedItem with p3 := p3 }
      let buckets ← setIdx s.bucket bucketNr { item := items, numItems := u8 (bucket.numItems + 1) }
      scheduleSetLoop p3 rest { s with bucket := buckets } frameOffset bucketNr j

/-- `tdma_schedule_set(frame_offset, item_set, p3)` -/
def scheduleSet (s : Sched) (frameOffset : Nat) (itemSet : List Item) (p3 : Nat) :
    Except Fault (Sched × Int) := do
  let frameOffset := u8 frameOffset
  let p3 := u16 p3
  let bucketNr ← wrapBucket s frameOffset
  scheduleSetLoop p3 itemSet s frameOffset bucketNr 0

/-- `tdma_sched_advance()` -/
def advance (s : Sched) : Except Fault Sched := do
  -- uint8_t next_bucket; next_bucket = wrap_bucket(1);
  let nextBucket ← wrapBucket s 1
  -- sched->cur_bucket = next_bucket;     (uint8_t field)
  return { s with cur := u8 nextBucket }

/-- `tdma_sched_flag_scan()`: OR of the flags of the live items of the current bucket -/
def flagScanLoop (items : List Item) : (rem : Nat) → (i : Nat) → (flags : Nat) → Except Fault Nat
  | 0, _, flags => .ok flags
  | rem + 1, i, flags => do
    let item ← idx items i
    flagScanLoop items rem (i + 1) (u16 (flags ||| item.flags))

def flagScan (s : Sched) : Except Fault Nat := do
  let bucket ← idx s.bucket s.cur
  flagScanLoop bucket.item bucket.numItems 0 0

/-- inner loop of `_tdma_sched_bucket_sort`: `for (j = ...; j < bucket->num_items; j++)`,
`rem = num_items - j` iterations left; carries `seq[]` and the pointer `item_i` (by value:
the items are not written during the sort). -/
def sortInner (items : List Item) (i : Nat) : (rem : Nat) → (j : Nat) → (seq : List Nat) →
    (itemI : Item) → Except Fault (List Nat)
  | 0, _, seq, _ => .ok seq
  | rem + 1, j, seq, itemI => do
    -- item_j = &bucket->item[seq[j]];
    let sj ← idx seq j
    let itemJ ← idx items sj
    if itemI.prio > itemJ.prio then
      -- item_i = item_j; k = seq[i]; seq[i] = seq[j]; seq[j] = k;
      let k ← idx seq i
      let seq ← setIdx seq i sj
      let seq ← setIdx seq j k
      sortInner items i rem (j + 1) seq itemJ
    else
      sortInner items i rem (j + 1) seq itemI

/-- outer loop: `for (i = ...; i < bucket->num_items; i++)`, `rem = num_items - i` -/
def sortOuter (items : List Item) (n : Nat) : (rem : Nat) → (i : Nat) → (seq : List Nat) →
    Except Fault (List Nat)
  | 0, _, seq => .ok seq
  | rem + 1, i, seq => do
    -- item_i = &bucket->item[seq[i]];
    let si ← idx seq i
    let itemI ← idx items si
    let seq ← sortInner items i (n - (i + 1)) (i + 1) seq itemI
    sortOuter items n rem (i + 1) seq

/-- `_tdma_sched_bucket_sort(bucket, seq)`: `seq[i] = i` for all `TDMASCHED_NUM_CB` entries, then
the exchange sort over the first `num_items` entries -/
def bucketSort (b : Bucket) : Except Fault (List Nat) :=
  sortOuter b.item b.numItems b.numItems 0 (List.range Gen.tdmaNumCb)

/-- a scheduler call made from inside a callback -/
inductive Call where
  | schedule (frameOffset : Nat) (cb : Cb) (p1 p2 p3 : Nat) (prio : Int)
  | scheduleSet (frameOffset : Nat) (itemSet : List Item) (p3 : Nat)
  deriving DecidableEq, Repr

/-- the environment of the scheduler: what callback `id` returns (`ret id p1 p2 p3`) and the
scheduler calls it makes when invoked (`scripts`: association list by id; a callback without entry
makes no calls) -/
structure Env where
  ret : Nat → Nat → Nat → Nat → Int
  scripts : List (Nat × List Call)

/-- the calls callback `id` makes -/
def scriptOf (env : Env) (id : Nat) : List Call :=
  match env.scripts.lookup id with
  | some calls => calls
  | none => []

/-- one call from inside a callback, on the live scheduler -/
def runCall (s : Sched) : Call → Except Fault (Sched × Int)
  | .schedule off cb p1 p2 p3 prio => schedule s off cb p1 p2 p3 prio
  | .scheduleSet off set p3 => scheduleSet s off set p3

/-- the body of a scripted callback: its calls in order; the return values are recorded -/
def runScript : Sched → List Call → Except Fault (Sched × List Int)
  | s, [] => .ok (s, [])
  | s, c :: cs => do
    let (s, rc) ← runCall s c
    let (s, rcs) ← runScript s cs
    return (s, rc :: rcs)

/-- `item->cb(item->p1, item->p2, item->p3)`: the scheduler after the call, the callback's return
value, the return values of the scheduler calls it made -/
def callCb (env : Env) (s : Sched) (it : Item) : Except Fault (Sched × Int × List Int) :=
  match it.cb with
  | .null => .error .nullCall
  | .endSet => .ok (s, 0, [])
  | .fn id => do
    let (s, rets) ← runScript s (scriptOf env id)
    return (s, env.ret id it.p1 it.p2 it.p3, rets)

/-- result of the execute loop: ran to the end, or left early with `rc < 0` -/
inductive ExecEnd where
  | done (numEvents : Int)
  | err (rc : Int)
  deriving DecidableEq, Repr

/-- the loop of `tdma_sched_execute`:
`for (i = 0; i < bucket->num_items; i++) { item = &bucket->item[seq[i]]; num_events++; rc = item->cb(..); if (rc < 0) return rc; }`
* `bucket` is the pointer `&sched->bucket[cur]` taken before the loop; `bucket->num_items` is re-read
  from the live scheduler `s` on every iteration (a callback may have appended items);
* `seq[]` is computed once, before the loop; `seqRest` is `seq[i ..]`, so `seq[i]` is its head, and
  when it is empty `i = TDMASCHED_NUM_CB`: the subscript is outside `int seq[TDMASCHED_NUM_CB]`
  (`Fault.oob`).  The recursion is on `seqRest`: the loop makes at most `TDMASCHED_NUM_CB` calls;
* `ran` = items whose callback was invoked so far, `rets` = what their scheduler calls returned. -/
def execLoop (env : Env) (cur : Nat) : (seqRest : List Nat) → (i : Nat) → (s : Sched) →
    (numEvents : Int) → (ran : List Item) → (rets : List (List Int)) →
    Except Fault (Sched × ExecEnd × List Item × List (List Int))
  | [], i, s, numEvents, ran, rets => do
    let bucket ← idx s.bucket cur
    if i < bucket.numItems then
      .error .oob                               -- seq[TDMASCHED_NUM_CB]
    else
      return (s, .done numEvents, ran, rets)
  | si :: seqRest, i, s, numEvents, ran, rets => do
    let bucket ← idx s.bucket cur
    if i < bucket.numItems then
      let item ← idx bucket.item si
      let numEvents := numEvents + 1
      let (s, rc, r) ← callCb env s item
      if rc < 0 then
        return (s, .err rc, ran ++ [item], rets ++ [r])
      execLoop env cur seqRest (i + 1) s numEvents (ran ++ [item]) (rets ++ [r])
    else
      return (s, .done numEvents, ran, rets)

/-- `tdma_sched_execute()`: new state, return value, items whose callbacks ran (in order), return
values of the scheduler calls made by each of them -/
def execute (env : Env) (s : Sched) : Except Fault (Sched × Int × List Item × List (List Int)) := do
  -- bucket = &sched->bucket[sched->cur_bucket];
  let bucket ← idx s.bucket s.cur
  -- _tdma_sched_bucket_sort(bucket, seq);
  let seq ← bucketSort bucket
  let (s', e, ran, rets) ← execLoop env s.cur seq 0 s 0 [] []
  match e with
  | .err rc => return (s', rc, ran, rets)      -- bucket left as it is
  | .done numEvents =>
    -- clear/reset the bucket: bucket->num_items = 0;   (same pointer: callbacks do not move cur_bucket)
    let bucket ← idx s'.bucket s.cur
    let buckets ← setIdx s'.bucket s.cur { bucket with numItems := 0 }
    return ({ s' with bucket := buckets }, numEvents, ran, rets)

/-- `tdma_sched_reset()`: every bucket except the current one gets `num_items = 0` -/
def resetLoop (cur : Nat) : (rem : Nat) → (bucketNr : Nat) → (buckets : List Bucket) →
    Except Fault (List Bucket)
  | 0, _, buckets => .ok buckets
  | rem + 1, bucketNr, buckets => do
    let bucket ← idx buckets bucketNr
    if bucketNr ≠ cur then
      let buckets ← setIdx buckets bucketNr { bucket with numItems := 0 }
      resetLoop cur rem (bucketNr + 1) buckets
    else
      resetLoop cur rem (bucketNr + 1) buckets

def reset (s : Sched) : Except Fault Sched := do
  let buckets ← resetLoop s.cur Gen.tdmaNumFrames 0 s.bucket
  return { s with bucket := buckets }

/-- `tdma_sched_dump()`: `num_items` of `bucket[wrap_bucket(i)]`, `i = 0 .. ARRAY_SIZE-1` -/
def dumpLoop (s : Sched) : (rem : Nat) → (i : Nat) → (acc : List Nat) → Except Fault (List Nat)
  | 0, _, acc => .ok acc
  | rem + 1, i, acc => do
    let bucketNr ← wrapBucket s (u8 i)
    let bucket ← idx s.bucket bucketNr
    dumpLoop s rem (i + 1) (acc ++ [bucket.numItems])

def dump (s : Sched) : Except Fault (List Nat) := dumpLoop s Gen.tdmaNumFrames 0 []

/-! ### operations and histories -/

inductive Op where
  | schedule (frameOffset : Nat) (cb : Cb) (p1 p2 p3 : Nat) (prio : Int)
  | scheduleSet (frameOffset : Nat) (itemSet : List Item) (p3 : Nat)
  | advance
  | execute
  | reset
  deriving DecidableEq, Repr

/-- observable result of one operation: the return value (`0` for the `void` functions), the
items whose callbacks were invoked, in order, and for each of them the return values of the scheduler
calls it made from inside -/
structure Out where
  rc : Int
  ran : List Item
  rets : List (List Int)
  deriving DecidableEq, Repr

def step (env : Env) (s : Sched) : Op → Except Fault (Sched × Out)
  | .schedule off cb p1 p2 p3 prio => do
    let (s, rc) ← schedule s off cb p1 p2 p3 prio
    return (s, ⟨rc, [], []⟩)
  | .scheduleSet off set p3 => do
    let (s, rc) ← scheduleSet s off set p3
    return (s, ⟨rc, [], []⟩)
  | .advance => do
    let s ← advance s
    return (s, ⟨0, [], []⟩)
  | .execute => do
    let (s, rc, ran, rets) ← execute env s
    return (s, ⟨rc, ran, rets⟩)
  | .reset => do
    let s ← reset s
    return (s, ⟨0, [], []⟩)

/-- a history: the outputs of all operations, in order -/
def run (env : Env) : Sched → List Op → Except Fault (Sched × List Out)
  | s, [] => .ok (s, [])
  | s, op :: ops => do
    let (s, o) ← step env s op
    let (s, os) ← run env s ops
    return (s, o :: os)

end OsmoVerif.TdmaSched
