/-
Executable model of the firmware TDMA scheduler
(src/target/firmware/layer1/tdma_sched.c, include/layer1/tdma_sched.h), statement by statement.

Conventions (DESIGN.md section 4):
* C integers are `Nat`/`Int` followed by an explicit wrap at the declared width
  (`uint8_t frame_offset, p1, p2, num_items, cur_bucket`; `uint16_t p3, flags, bucket`; `int16_t prio`);
* the arrays `bucket[TDMASCHED_NUM_FRAMES]`, `item[TDMASCHED_NUM_CB]`, `int seq[TDMASCHED_NUM_CB]` and the
  caller's `item_set[]` are lists; every subscript is checked and an index outside the array is the
  outcome `Fault.oob` (never a default value);
* `bucket->num_items = 0` does not erase the item array: stale items stay in memory (and
  `tdma_schedule()` does not write `.flags`, so a new item inherits the flags of the slot);
* a callback is identified by an id; what it returns is given by the environment `env`;
  callbacks do not re-enter the scheduler (assumption of the property, see props/C08.py);
  calling a NULL function pointer is the outcome `Fault.nullCall`.
-/
import OsmoVerif.Gen.TdmaSched

namespace OsmoVerif.TdmaSched
open OsmoVerif

/-- conversion to `uint8_t` -/
def u8 (n : Nat) : Nat := n % 256
/-- conversion to `uint16_t` -/
def u16 (n : Nat) : Nat := n % 65536
/-- conversion to `int16_t` (gcc: modulo 2^16) -/
def i16 (z : Int) : Int := (z + 32768) % 65536 - 32768

/-- A `tdma_sched_cb *`: `NULL`, `&tdma_end_set`, or one of the (recording) callbacks. -/
inductive Cb where
  | null
  | endSet
  | fn (id : Nat)
  deriving DecidableEq, Repr

/-- `struct tdma_sched_item` -/
structure Item where
  cb : Cb
  p1 : Nat
  p2 : Nat
  p3 : Nat
  prio : Int
  flags : Nat
  deriving DecidableEq, Repr

/-- `struct tdma_sched_bucket`: the whole `item[]` array (live and stale slots) and `num_items` -/
structure Bucket where
  item : List Item
  numItems : Nat
  deriving DecidableEq, Repr

/-- `struct tdma_scheduler` (`l1s.tdma_sched`) -/
structure Sched where
  bucket : List Bucket
  cur : Nat
  deriving DecidableEq, Repr

inductive Fault where
  /-- array subscript outside the array -/
  | oob
  /-- call through a NULL function pointer -/
  | nullCall
  /-- `% 0` -/
  | divZero
  deriving DecidableEq, Repr

/-- `a[i]` (read) -/
def idx {α : Type} (l : List α) (i : Nat) : Except Fault α :=
  match l[i]? with
  | some x => .ok x
  | none => .error .oob

/-- `a[i] = v` -/
def setIdx {α : Type} (l : List α) (i : Nat) (v : α) : Except Fault (List α) :=
  if i < l.length then .ok (l.set i v) else .error .oob

/-- zero-initialised memory (`l1s` lives in .bss) -/
def zeroItem : Item := ⟨.null, 0, 0, 0, 0, 0⟩
def zeroBucket : Bucket := ⟨List.replicate Gen.tdmaNumCb zeroItem, 0⟩
def init (cur : Nat) : Sched := ⟨List.replicate Gen.tdmaNumFrames zeroBucket, cur⟩

/-- `wrap_bucket(offset)`:
`bucket = (l1s.tdma_sched.cur_bucket + offset) % ARRAY_SIZE(l1s.tdma_sched.bucket); return bucket;`
(the sum is computed in `int`/`size_t`, stored in a `uint16_t`, returned as `uint8_t`) -/
def wrapBucket (s : Sched) (offset : Nat) : Except Fault Nat :=
  if Gen.tdmaNumFrames = 0 then .error .divZero
  else .ok (u8 (u16 ((s.cur + offset) % Gen.tdmaNumFrames)))

/-- `tdma_schedule(frame_offset, cb, p1, p2, p3, prio)`; returns the new state and the `int` result -/
def schedule (s : Sched) (frameOffset : Nat) (cb : Cb) (p1 p2 p3 : Nat) (prio : Int) :
    Except Fault (Sched × Int) := do
  let frameOffset := u8 frameOffset
  let p1 := u8 p1
  let p2 := u8 p2
  let p3 := u16 p3
  let prio := i16 prio
  let bucketNr ← wrapBucket s frameOffset
  let bucket ← idx s.bucket bucketNr
  if bucket.numItems ≥ Gen.tdmaNumCb then
    -- puts("tdma_schedule bucket overflow\n"); return -1;
    return (s, -1)
  -- sched_item = &bucket->item[bucket->num_items++];
  let slot := bucket.numItems
  let old ← idx bucket.item slot
  -- cb, p1, p2, p3, prio are assigned; .flags is NOT written
  let items ← setIdx bucket.item slot { old with cb := cb, p1 := p1, p2 := p2, p3 := p3, prio := prio }
  let buckets ← setIdx s.bucket bucketNr { item := items, numItems := u8 (slot + 1) }
  return ({ s with bucket := buckets }, 0)

/-- the loop of `tdma_schedule_set`: `rest` is `item_set[i..]`; reading past the end of the
caller's array (a set without `SCHED_END_SET()`) is `Fault.oob`. -/
def scheduleSetLoop (p3 : Nat) : (rest : List Item) → (s : Sched) → (frameOffset bucketNr : Nat) →
    (j : Int) → Except Fault (Sched × Int)
  | [], _, _, _, _ => .error .oob
  | schedItem :: rest, s, frameOffset, bucketNr, j =>
    if schedItem.cb = .endSet then
      -- end of scheduler set, return
      .ok (s, j)
    else if schedItem.cb = .null then do
      -- advance to next bucket (== TDMA frame): bucket_nr = wrap_bucket(++frame_offset); j++;
      let frameOffset := u8 (frameOffset + 1)
      let bucketNr ← wrapBucket s frameOffset
      scheduleSetLoop p3 rest s frameOffset bucketNr (j + 1)
    else do
      let bucket ← idx s.bucket bucketNr
      -- check for bucket overflow
      if bucket.numItems ≥ Gen.tdmaNumCb then
        return (s, -1)
      -- memcpy(&bucket->item[bucket->num_items], sched_item, sizeof(*sched_item));
      -- bucket->item[bucket->num_items].p3 = p3; bucket->num_items++;
      let items ← setIdx bucket.item bucket.numItems { schedItem with p3 := p3 }
      let buckets ← setIdx s.bucket bucketNr { item := items, numItems := u8 (bucket.numItems + 1) }
      scheduleSetLoop p3 rest { s with bucket := buckets } frameOffset bucketNr j

/-- `tdma_schedule_set(frame_offset, item_set, p3)` -/
def scheduleSet (s : Sched) (frameOffset : Nat) (itemSet : List Item) (p3 : Nat) :
    Except Fault (Sched × Int) := do
  let frameOffset := u8 frameOffset
  let p3 := u16 p3
  let bucketNr ← wrapBucket s frameOffset
  scheduleSetLoop p3 itemSet s frameOffset bucketNr 0

/-- `tdma_sched_advance()` -/
def advance (s : Sched) : Except Fault Sched := do
  let nextBucket ← wrapBucket s 1
  return { s with cur := nextBucket }

/-- `tdma_sched_flag_scan()`: OR of the flags of the live items of the current bucket -/
def flagScanLoop (items : List Item) : (rem : Nat) → (i : Nat) → (flags : Nat) → Except Fault Nat
  | 0, _, flags => .ok flags
  | rem + 1, i, flags => do
    let item ← idx items i
    flagScanLoop items rem (i + 1) (u16 (flags ||| item.flags))

def flagScan (s : Sched) : Except Fault Nat := do
  let bucket ← idx s.bucket s.cur
  flagScanLoop bucket.item bucket.numItems 0 0

/-- inner loop of `_tdma_sched_bucket_sort`: `for (j = ...; j < bucket->num_items; j++)`,
`rem = num_items - j` iterations left; carries `seq[]` and the pointer `item_i` (by value:
the items are not written during the sort). -/
def sortInner (items : List Item) (i : Nat) : (rem : Nat) → (j : Nat) → (seq : List Nat) →
    (itemI : Item) → Except Fault (List Nat)
  | 0, _, seq, _ => .ok seq
  | rem + 1, j, seq, itemI => do
    -- item_j = &bucket->item[seq[j]];
    let sj ← idx seq j
    let itemJ ← idx items sj
    if itemI.prio > itemJ.prio then
      -- item_i = item_j; k = seq[i]; seq[i] = seq[j]; seq[j] = k;
      let k ← idx seq i
      let seq ← setIdx seq i sj
      let seq ← setIdx seq j k
      sortInner items i rem (j + 1) seq itemJ
    else
      sortInner items i rem (j + 1) seq itemI

/-- outer loop: `for (i = ...; i < bucket->num_items; i++)`, `rem = num_items - i` -/
def sortOuter (items : List Item) (n : Nat) : (rem : Nat) → (i : Nat) → (seq : List Nat) →
    Except Fault (List Nat)
  | 0, _, seq => .ok seq
  | rem + 1, i, seq => do
    -- item_i = &bucket->item[seq[i]];
    let si ← idx seq i
    let itemI ← idx items si
    let seq ← sortInner items i (n - (i + 1)) (i + 1) seq itemI
    sortOuter items n rem (i + 1) seq

/-- `_tdma_sched_bucket_sort(bucket, seq)`: `seq[i] = i` for all `TDMASCHED_NUM_CB` entries, then
the exchange sort over the first `num_items` entries -/
def bucketSort (b : Bucket) : Except Fault (List Nat) :=
  sortOuter b.item b.numItems b.numItems 0 (List.range Gen.tdmaNumCb)

/-- what a callback returns: `env id p1 p2 p3` -/
abbrev Env := Nat → Nat → Nat → Nat → Int

/-- `item->cb(item->p1, item->p2, item->p3)` -/
def callCb (env : Env) (it : Item) : Except Fault Int :=
  match it.cb with
  | .null => .error .nullCall
  | .endSet => .ok 0
  | .fn id => .ok (env id it.p1 it.p2 it.p3)

/-- result of the execute loop: ran to the end, or left early with `rc < 0` -/
inductive ExecEnd where
  | done (numEvents : Int)
  | err (rc : Int)
  deriving DecidableEq, Repr

/-- the loop of `tdma_sched_execute`: `rem = num_items - i`; `ran` = items whose callback
was invoked so far, in order -/
def execLoop (env : Env) (items : List Item) (seq : List Nat) : (rem : Nat) → (i : Nat) →
    (numEvents : Int) → (ran : List Item) → Except Fault (ExecEnd × List Item)
  | 0, _, numEvents, ran => .ok (.done numEvents, ran)
  | rem + 1, i, numEvents, ran => do
    let si ← idx seq i
    let item ← idx items si
    let numEvents := numEvents + 1
    let rc ← callCb env item
    if rc < 0 then
      return (.err rc, ran ++ [item])
    execLoop env items seq rem (i + 1) numEvents (ran ++ [item])

/-- `tdma_sched_execute()`: new state, return value, items whose callbacks ran (in order) -/
def execute (env : Env) (s : Sched) : Except Fault (Sched × Int × List Item) := do
  let bucket ← idx s.bucket s.cur
  let seq ← bucketSort bucket
  let (e, ran) ← execLoop env bucket.item seq bucket.numItems 0 0 []
  match e with
  | .err rc => return (s, rc, ran)          -- bucket left as it is
  | .done numEvents =>
    -- clear/reset the bucket: bucket->num_items = 0;
    let buckets ← setIdx s.bucket s.cur { bucket with numItems := 0 }
    return ({ s with bucket := buckets }, numEvents, ran)

/-- `tdma_sched_reset()`: every bucket except the current one gets `num_items = 0` -/
def resetLoop (cur : Nat) : (rem : Nat) → (bucketNr : Nat) → (buckets : List Bucket) →
    Except Fault (List Bucket)
  | 0, _, buckets => .ok buckets
  | rem + 1, bucketNr, buckets => do
    let bucket ← idx buckets bucketNr
    if bucketNr ≠ cur then
      let buckets ← setIdx buckets bucketNr { bucket with numItems := 0 }
      resetLoop cur rem (bucketNr + 1) buckets
    else
      resetLoop cur rem (bucketNr + 1) buckets

def reset (s : Sched) : Except Fault Sched := do
  let buckets ← resetLoop s.cur Gen.tdmaNumFrames 0 s.bucket
  return { s with bucket := buckets }

/-- `tdma_sched_dump()`: `num_items` of `bucket[wrap_bucket(i)]`, `i = 0 .. ARRAY_SIZE-1` -/
def dumpLoop (s : Sched) : (rem : Nat) → (i : Nat) → (acc : List Nat) → Except Fault (List Nat)
  | 0, _, acc => .ok acc
  | rem + 1, i, acc => do
    let bucketNr ← wrapBucket s (u8 i)
    let bucket ← idx s.bucket bucketNr
    dumpLoop s rem (i + 1) (acc ++ [bucket.numItems])

def dump (s : Sched) : Except Fault (List Nat) := dumpLoop s Gen.tdmaNumFrames 0 []

/-! ### operations and histories -/

inductive Op where
  | schedule (frameOffset : Nat) (cb : Cb) (p1 p2 p3 : Nat) (prio : Int)
  | scheduleSet (frameOffset : Nat) (itemSet : List Item) (p3 : Nat)
  | advance
  | execute
  | reset
  deriving DecidableEq, Repr

/-- observable result of one operation: the return value (`0` for the `void` functions) and the
items whose callbacks were invoked, in order -/
structure Out where
  rc : Int
  ran : List Item
  deriving DecidableEq, Repr

def step (env : Env) (s : Sched) : Op → Except Fault (Sched × Out)
  | .schedule off cb p1 p2 p3 prio => do
    let (s, rc) ← schedule s off cb p1 p2 p3 prio
    return (s, ⟨rc, []⟩)
  | .scheduleSet off set p3 => do
    let (s, rc) ← scheduleSet s off set p3
    return (s, ⟨rc, []⟩)
  | .advance => do
    let s ← advance s
    return (s, ⟨0, []⟩)
  | .execute => do
    let (s, rc, ran) ← execute env s
    return (s, ⟨rc, ran⟩)
  | .reset => do
    let s ← reset s
    return (s, ⟨0, []⟩)

/-- a history: the outputs of all operations, in order -/
def run (env : Env) : Sched → List Op → Except Fault (Sched × List Out)
  | s, [] => .ok (s, [])
  | s, op :: ops => do
    let (s, o) ← step env s op
    let (s, os) ← run env s ops
    return (s, o :: os)

end OsmoVerif.TdmaSched
