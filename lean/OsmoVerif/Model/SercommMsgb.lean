/-
The serial link of `Model/Sercomm.lean` once more, this time on the message buffers the code really
uses: every `struct msgb` is a `Msgb` of `Model/Msgb.lean` (offsets, `uint16_t` lengths, the `_data`
array), and every access is the msgb.h operation sercomm.c calls at that place:

  sercomm_alloc_msgb(n)            msgb_alloc_headroom(n + 4, 4): 4 octets of headroom
  sercomm_sendmsg                  hdr = msgb_push(msg, 2); hdr[0] = dlci; hdr[1] = HDLC_C_UI; msgb_enqueue
  sercomm_drv_pull                 msgb_dequeue; next_char = msg->data; `*next_char`, `*next_char ^= (1 << 5)`,
                                   `next_char >= msg->tail`; msgb_free
  sercomm_drv_rx_char              sercomm_alloc_msgb(SERCOMM_RX_MSG_SIZE); msgb_tailroom(msg) == 0;
                                   ptr = msgb_put(msg, 1); *ptr = ch; dispatch / msgb_free
  a handler (the harness' recorder, osmocon's hdlc_*_cb)   reads msg->data[0 .. msg->len)
  the echo handler                 sercomm_sendmsg(dlci, msg) on the received buffer

A msgb fault (`MSGB_ABORT`, out of bounds) or a queue index beyond the array stops the run with that
fault; `Lemmas/SercommMsgb.lean` proves that none is reachable and that this machine and the abstract one
of `Model/Sercomm.lean` make the same observations.  The queues are first-in-first-out lists of buffers
(`Lemmas/Msgb.lean: queue_refines` is the refinement of the linked cells to such a list).
-/
import OsmoVerif.Model.Sercomm
import OsmoVerif.Model.Msgb

namespace OsmoVerif.SercommMsgb
open OsmoVerif.Sercomm OsmoVerif.Msgb OsmoVerif.Gen.Sercomm

/-- what stops a run -/
inductive CFault where
  /-- a msgb operation aborted or left its array -/
  | msgb (f : Fault)
  /-- `sercomm.tx.dlci_queues[dlci]` beyond the array -/
  | queueIndex
deriving DecidableEq, Repr

def liftM {α : Type} : Except Fault α → Except CFault α
  | .ok a => .ok a
  | .error f => .error (.msgb f)

/-- `sercomm.tx` -/
structure CTx where
  queues : List (List Msgb)
  /-- `tx.msg` -/
  msg : Option Msgb
  /-- `tx.next_char - tx.msg->_data` -/
  nextChar : Nat
  state : St
deriving Repr

def CTx.init (nq : Nat) : CTx := ⟨List.replicate nq [], none, 0, .waitStart⟩

/-- `sercomm_sendmsg(dlci, msg)` -/
def csendmsg (t : CTx) (dlci : Nat) (m : Msgb) : Except CFault CTx := do
  -- hdr = msgb_push(msg, 2); hdr[0] = dlci; hdr[1] = HDLC_C_UI;
  -- (`pushBytes` is exactly: `msgb_push` of the length, then the octets written through the returned pointer)
  let m ← liftM (pushBytes m [dlci, hdlcCUi])
  -- msgb_enqueue(&sercomm.tx.dlci_queues[dlci], msg)
  if dlci < t.queues.length then .ok { t with queues := t.queues.modify dlci (· ++ [m]) }
  else .error .queueIndex

/-- the dequeue loop of `sercomm_drv_pull` -/
def cdequeueFirst : List (List Msgb) → Option (Msgb × List (List Msgb))
  | [] => none
  | [] :: qs =>
    match cdequeueFirst qs with
    | some (m, qs') => some (m, [] :: qs')
    | none => none
  | (m :: q) :: qs => some (m, q :: qs)

/-- `sercomm_drv_pull(&ch)`: return value 0 (`.empty`) or 1 with `*ch` -/
def cpull (t : CTx) : Except CFault (CTx × Pull) :=
  match t.msg with
  | none =>
    match cdequeueFirst t.queues with
    | some (m, qs) =>
      -- *ch = HDLC_FLAG; next_char = msg->data
      .ok ({ t with queues := qs, msg := some m, nextChar := m.data }, .octet hdlcFlag)
    | none => .ok (t, .empty)
  | some m =>
    if t.state = .escape then do
      -- *ch = *next_char++; state = RX_ST_DATA
      let c ← liftM (readAt m t.nextChar)
      .ok ({ t with nextChar := t.nextChar + 1, state := .data }, .octet c)
    else if t.nextChar ≥ m.tail then
      -- *ch = HDLC_FLAG; msgb_free(msg); msg = NULL; next_char = NULL
      .ok ({ t with msg := none, nextChar := 0 }, .octet hdlcFlag)
    else do
      let c ← liftM (readAt m t.nextChar)
      if needsEscape c then do
        -- *ch = HDLC_ESCAPE; *next_char ^= (1 << 5); state = RX_ST_ESCAPE
        let m ← liftM (writeAt m t.nextChar (u8 (c ^^^ txEscXor)))
        .ok ({ t with msg := some m, state := .escape }, .octet hdlcEscape)
      else
        -- *ch = *next_char++
        .ok ({ t with nextChar := t.nextChar + 1 }, .octet c)

/-- `sercomm.rx` -/
structure CRx where
  msg : Option Msgb
  state : St
  dlci : Nat
  ctrl : Nat
deriving Repr

def CRx.init : CRx := ⟨none, .waitStart, 0, 0⟩

/-- what `sercomm_drv_rx_char` does with a finished buffer / reports -/
inductive CEv where
  /-- `dlci_handler[dlci](dlci, msg)` called with this buffer -/
  | deliver (dlci : Nat) (m : Msgb)
  /-- returned 0 -/
  | overflow
deriving Repr

/-- `dispatch_rx_msg(dlci, msg)` -/
def cdispatch (c : RxCfg) (dlci : Nat) (m : Msgb) : List CEv :=
  if dlci ≥ c.nh || !c.reg dlci then [] else [.deliver dlci m]

/-- `ptr = msgb_put(msg, 1); *ptr = ch` -/
def cstore (m : Msgb) (ch : Nat) : Except CFault Msgb :=
  -- (`putBytes m [ch]` is exactly: `msgb_put(msg, 1)`, then the octet written through the returned pointer)
  liftM (putBytes m [ch])

/-- `if (!sercomm.rx.msg) sercomm.rx.msg = sercomm_alloc_msgb(SERCOMM_RX_MSG_SIZE);` → the buffer the call works on -/
def crxBuf (size : Nat) (r : CRx) : Except CFault Msgb :=
  match r.msg with
  | some m => .ok m
  | none => liftM (sercommAlloc size)

/-- the rest of `sercomm_drv_rx_char(ch)` with `sercomm.rx.msg == m` -/
def crxCharOn (c : RxCfg) (size : Nat) (r : CRx) (m : Msgb) (ch : Nat) : Except CFault (CRx × List CEv) :=
  -- if (msgb_tailroom(rx.msg) == 0) { msgb_free; rx.msg = sercomm_alloc_msgb(…); state = WAIT_START; return 0; }
  if tailroom m = 0 then do
    let m' ← liftM (sercommAlloc size)
    .ok ({ r with msg := some m', state := .waitStart }, [.overflow])
  else
    match r.state with
    | .waitStart =>
      if ch ≠ hdlcFlag then .ok ({ r with msg := some m }, [])
      else .ok ({ r with msg := some m, state := .addr }, [])
    | .addr => .ok ({ r with msg := some m, dlci := ch, state := .ctrl }, [])
    | .ctrl => .ok ({ r with msg := some m, ctrl := ch, state := .data }, [])
    | .data =>
      if ch = hdlcEscape then .ok ({ r with msg := some m, state := .escape }, [])
      else if ch = hdlcFlag then
        .ok ({ r with msg := none, state := .waitStart }, cdispatch c r.dlci m)
      else do
        let m ← cstore m ch
        .ok ({ r with msg := some m }, [])
    | .escape => do
      -- ch ^= (1 << 5) on a uint8_t
      let m ← cstore m (u8 (ch ^^^ rxEscXor))
      .ok ({ r with msg := some m, state := .data }, [])

/-- `sercomm_drv_rx_char(ch)`; `size` is `SERCOMM_RX_MSG_SIZE` -/
def crxChar (c : RxCfg) (size : Nat) (r : CRx) (ch : Nat) : Except CFault (CRx × List CEv) := do
  let m ← crxBuf size r
  crxCharOn c size r m ch

/-- transmitter, receiver, observations -/
structure CWorld where
  tx : CTx
  rx : CRx
  /-- newest first -/
  trace : List Obs
deriving Repr

def CWorld.init (nq : Nat) : CWorld := ⟨CTx.init nq, CRx.init, []⟩

/-- the callbacks: the echo handler is `sercomm_sendmsg`; a user handler reads `msg->data[0 .. msg->len)` -/
def capplyEcho (c : Cfg) (w : CWorld) : List CEv → Except CFault CWorld
  | [] => .ok w
  | .deliver d m :: es =>
    if c.echo d then do
      let t ← csendmsg w.tx d m
      capplyEcho c { w with tx := t } es
    else
      match payload m with
      | some p => capplyEcho c { w with trace := .ev (.deliver d p) :: w.trace } es
      | none => .error (.msgb .oob)
  | .overflow :: es => capplyEcho c { w with trace := .ev .overflow :: w.trace } es

def CWorld.rxOctet (c : Cfg) (size : Nat) (w : CWorld) (ch : Nat) : Except CFault CWorld := do
  let (r, es) ← crxChar c.toRxCfg size w.rx ch
  capplyEcho c { w with rx := r } es

def CWorld.rxOctets (c : Cfg) (size : Nat) (w : CWorld) : List Nat → Except CFault CWorld
  | [] => .ok w
  | ch :: rest => do
    let w ← CWorld.rxOctet c size w ch
    CWorld.rxOctets c size w rest

/-- the caller of `sercomm_sendmsg`: `msg = sercomm_alloc_msgb(a); memcpy(msgb_put(msg, n), payload, n)`
(the differential harness with `a = max n 1`, osmocon's `hdlc_send_to_phone` with `a = 512`) -/
def mkMsg (a : Nat) (payload : List Nat) : Except CFault Msgb := do
  let m ← liftM (sercommAlloc a)
  liftM (putBytes m payload)

def CWorld.step (c : Cfg) (size : Nat) (allocOf : Nat → Nat) (w : CWorld) : Sercomm.Op → Except CFault CWorld
  | .send d p => do
    let m ← mkMsg (allocOf p.length) p
    let t ← csendmsg w.tx d m
    .ok { w with tx := t }
  | .pull => do
    let (t, r) ← cpull w.tx
    match r with
    | .octet ch => .ok { w with tx := t, trace := .pulled ch :: w.trace }
    | _ => .ok { w with tx := t, trace := .pullEmpty :: w.trace }
  | .loop => do
    let (t, r) ← cpull w.tx
    match r with
    | .octet ch => CWorld.rxOctet c size { w with tx := t, trace := .pulled ch :: w.trace } ch
    | _ => .ok { w with tx := t, trace := .pullEmpty :: w.trace }
  | .rx octets => CWorld.rxOctets c size w octets

def CWorld.run (c : Cfg) (size : Nat) (allocOf : Nat → Nat) (w : CWorld) : List Sercomm.Op → Except CFault CWorld
  | [] => .ok w
  | op :: ops => do
    let w ← CWorld.step c size allocOf w op
    CWorld.run c size allocOf w ops

/-- `n` times `pull` / `loop`, stopping after the first call that returns 0 (as the harness does) -/
def CWorld.stepN (c : Cfg) (size : Nat) (allocOf : Nat → Nat) (op : Sercomm.Op) : Nat → CWorld → Except CFault CWorld
  | 0, w => .ok w
  | n + 1, w =>
    match cpull w.tx with
    | .ok (_, .octet _) => do
      let w ← CWorld.step c size allocOf w op
      CWorld.stepN c size allocOf op n w
    | _ => CWorld.step c size allocOf w op

end OsmoVerif.SercommMsgb
