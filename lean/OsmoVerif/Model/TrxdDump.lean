/-
Executable model of the TRXD capture files
  src/target/trx_toolkit/data_dump.py   (classes DATADump, DATADumpFile)
statement for statement, on top of `OsmoVerif.Model.Trxd`.  The tags and the header length come from
`OsmoVerif.Gen.Trxd` (regenerated).  No Mathlib.

The capture file is a byte list with a cursor (`File`), with the semantics of `io.BytesIO` / a binary
file object: `read(n)` returns what is left (possibly fewer than n octets, nothing when the cursor is
at or past the end) and advances the cursor by what it returned; `seek(0)`, `seek(n, 1)` (may move
past the end), `seek(0, 2)` (to the end); `write(b)` writes at the cursor (zero filling a gap,
overwriting what is there).

API (namespace `OsmoVerif.TrxdDump`)
  Msg                          a message object: `.tx TxMsg` | `.rx RxMsg`
  File, File.read/seek0/seekCur/seekEnd/write
  dumpMsg m                    `DATADump.dump_msg(msg)`                        : Except Exc Bytes
  parseHdr hdr                 `DATADump.parse_hdr(hdr)`; `none` = `False`     : Except Exc (Option (Kind × Nat))
  seek2msg f idx               `_seek2msg(idx)`                                : Except Exc (Bool × File)
  Res                          result of `_parse_msg`: `.none` (None), `.false` (False), `.msg m`
  parseOne f                   `_parse_msg()`                                  : Except Exc (Res × File)
  parseMsg f idx               `parse_msg(idx)`                                : Except Exc (Res × File)
  parseAll f skip count        `parse_all(skip, count)`; `none` = `False`      : Except Exc (Option (List Msg) × File)
  appendMsg f m, appendAll f ms  `append_msg`, `append_all`                    : Except Exc File
`Except` carries exceptions that would leave the method (`struct.error` of `parse_hdr` on a short
header - unreachable, the callers check the length - and whatever `gen_msg` raises in `dump_msg`);
the bare `except:` around `msg.parse_msg` turns every exception into `False`.
-/
import OsmoVerif.Model.Trxd

namespace OsmoVerif.TrxdDump
open OsmoVerif OsmoVerif.Trxd

/-- a message object handed to / returned by the capture API -/
inductive Msg
  | tx (m : TxMsg)
  | rx (m : RxMsg)
deriving DecidableEq, Repr

inductive Kind
  | tx | rx
deriving DecidableEq, Repr

/-- `struct.pack(">H", x)` -/
def packBE16u (x : Nat) : Except Exc Bytes :=
  if x < 65536 then .ok [x / 256 % 256, x % 256] else .error .structError

/-- `struct.unpack(">H", b)[0]` -/
def unpackBE16u : Bytes → Except Exc Nat
  | [a, b] => .ok (a * 256 + b)
  | _ => .error .structError

/-- `DATADump.dump_msg(msg)` -/
def dumpMsg (m : Msg) : Except Exc Bytes := do
  let tag := match m with
    | .tx _ => Gen.Trxd.dumpTagTx
    | .rx _ => Gen.Trxd.dumpTagRx
  let raw ← match m with
    | .tx t => t.genMsg
    | .rx r => r.genMsg
  let len ← packBE16u raw.length
  pure (tag ++ len ++ raw)

/-- `DATADump.parse_hdr(hdr)`; `none` is the `False` of an unknown tag -/
def parseHdr (hdr : Bytes) : Except Exc (Option (Kind × Nat)) := do
  let len ← unpackBE16u (slice hdr 1 3)
  let tag := hdr.take 1
  if tag = Gen.Trxd.dumpTagTx then pure (some (.tx, len))
  else if tag = Gen.Trxd.dumpTagRx then pure (some (.rx, len))
  else pure none

/-! ### the file object -/

structure File where
  data : Bytes
  pos : Nat
deriving DecidableEq, Repr

namespace File
/-- `f.read(n)` -/
def read (f : File) (n : Nat) : Bytes × File :=
  let c := (f.data.drop f.pos).take n
  (c, { f with pos := f.pos + c.length })
/-- `f.seek(0)` -/
def seek0 (f : File) : File := { f with pos := 0 }
/-- `f.seek(n, 1)` -/
def seekCur (f : File) (n : Nat) : File := { f with pos := f.pos + n }
/-- `f.seek(0, 2)` -/
def seekEnd (f : File) : File := { f with pos := f.data.length }
/-- `f.write(b)` -/
def write (f : File) (b : Bytes) : File :=
  { data := f.data.take f.pos ++ List.replicate (f.pos - f.data.length) 0 ++ b ++ f.data.drop (f.pos + b.length),
    pos := f.pos + b.length }
end File

/-! ### DATADumpFile -/

/-- the loop of `_seek2msg` -/
def seekLoop : Nat → File → Except Exc (Bool × File)
  | 0, f => .ok (true, f)
  | n + 1, f => do
    let (hdr, f) := f.read Gen.Trxd.dumpHdrLength
    if hdr.length ≠ Gen.Trxd.dumpHdrLength then return (false, f)
    match ← parseHdr hdr with
    | none => return (false, f)
    | some (_, len) => seekLoop n (f.seekCur len)

/-- `_seek2msg(idx)` -/
def seek2msg (f : File) (idx : Nat) : Except Exc (Bool × File) := seekLoop idx f.seek0

/-- what `_parse_msg` returns -/
inductive Res
  | none | false | msg (m : Msg)
deriving DecidableEq, Repr

/-- `msg.parse_msg(bytearray(msg_raw))` inside `try: ... except: return False`, on the fresh object
made by `parse_hdr` -/
def parseRaw (k : Kind) (raw : Bytes) : Res :=
  match k with
  | .tx => match TxMsg.parseMsg raw with
    | .ok m => .msg (.tx m)
    | .error _ => .false
  | .rx => match RxMsg.parseMsg raw with
    | .ok m => .msg (.rx m)
    | .error _ => .false

/-- `_parse_msg()` -/
def parseOne (f : File) : Except Exc (Res × File) := do
  let (hdr, f) := f.read Gen.Trxd.dumpHdrLength
  if hdr.length ≠ Gen.Trxd.dumpHdrLength then return (.none, f)
  match ← parseHdr hdr with
  | none => return (.none, f)
  | some (k, len) =>
    let (raw, f) := f.read len
    if raw.length ≠ len then return (.none, f)
    return (parseRaw k raw, f)

/-- `parse_msg(idx)` -/
def parseMsg (f : File) (idx : Nat) : Except Exc (Res × File) := do
  let (rc, f) ← seek2msg f idx
  if ¬ rc then return (.none, f)
  parseOne f

/-- a `_parse_msg()` that did not return `None` consumed at least the header: the `while True` loop
of `parse_all` terminates -/
theorem parseOne_progress (f f' : File) (r : Res) (h : parseOne f = .ok (r, f')) (hr : r ≠ .none) :
    f'.data.length - f'.pos < f.data.length - f.pos := by
  have h3 : Gen.Trxd.dumpHdrLength = 3 := by decide
  unfold parseOne at h
  simp only [File.read, h3, bind, Except.bind, pure, Except.pure] at h
  by_cases hl : ((f.data.drop f.pos).take 3).length ≠ 3
  · simp only [hl, ne_eq, not_false_eq_true, if_true, Except.ok.injEq, Prod.mk.injEq] at h
    exact absurd h.1.symm hr
  · simp only [hl, if_false] at h
    have hl' : ((f.data.drop f.pos).take 3).length = 3 := by
      simpa using hl
    have hlen : f.pos + 3 ≤ f.data.length := by
      simp only [List.length_take, List.length_drop] at hl'
      omega
    cases hp : parseHdr ((f.data.drop f.pos).take 3) with
    | error e => simp only [hp] at h; cases h
    | ok o =>
      cases o with
      | none =>
        simp only [hp, Except.ok.injEq, Prod.mk.injEq] at h
        exact absurd h.1.symm hr
      | some kl =>
        obtain ⟨k, len⟩ := kl
        simp only [hp] at h
        split at h
        · simp only [Except.ok.injEq, Prod.mk.injEq] at h
          exact absurd h.1.symm hr
        · simp only [Except.ok.injEq, Prod.mk.injEq] at h
          obtain ⟨_, rfl⟩ := h
          simp only [hl', List.length_take, List.length_drop]
          omega

/-- the `while True` loop of `parse_all` (`result` is the list built so far) -/
def parseLoop (count : Option Nat) (f : File) (result : List Msg) : Except Exc (List Msg × File) :=
  match h : parseOne f with
  | .error e => .error e
  | .ok (r, f') =>
    match hr : r with
    | .none => .ok (result, f')                  -- EOF or broken header: break
    | .false =>                                  -- unparsed message: continue
      have : f'.data.length - f'.pos < f.data.length - f.pos :=
        parseOne_progress f f' r (hr ▸ h) (by rw [hr]; exact fun h => by cases h)
      parseLoop count f' result
    | .msg m =>
      let result := result ++ [m]
      if count = some result.length then .ok (result, f')    -- count limitation: break
      else
        have : f'.data.length - f'.pos < f.data.length - f.pos :=
          parseOne_progress f f' r (hr ▸ h) (by rw [hr]; exact fun h => by cases h)
        parseLoop count f' result
termination_by f.data.length - f.pos

/-- `parse_all(skip, count)`; `none` = `False` (range error) -/
def parseAll (f : File) (skip count : Option Nat) : Except Exc (Option (List Msg) × File) := do
  let (rc, f) ← match skip with
    | none => pure (true, f.seek0)
    | some s => seek2msg f s
  if ¬ rc then return (none, f)
  let (res, f) ← parseLoop count f []
  return (some res, f)

/-- `append_msg(msg)`: seek to the end, generate the record, write it -/
def appendMsg (f : File) (m : Msg) : Except Exc File := do
  let f := f.seekEnd
  let raw ← dumpMsg m
  pure (f.write raw)

/-- `append_all(msgs)` -/
def appendAll (f : File) : List Msg → Except Exc File
  | [] => .ok f
  | m :: ms => do
    let f ← appendMsg f m
    appendAll f ms

end OsmoVerif.TrxdDump
