/-
Model of the frequency hopping code (C07), statement by statement:

  * Python  `HoppingParams.__init__ / _pnm / fn2gsm_time / resolve`
            (src/target/trx_toolkit/gsm_shared.py) and
            `Transceiver.get_rx_freq / get_tx_freq / enable_fh / disable_fh`
            (src/target/trx_toolkit/transceiver.py)
  * C       `pow_nbin_mask`, `rfch_hop_seq_gen`, `rfch_get_params` (ARFCN output)
            (src/target/firmware/layer1/rfch.c)

Both `RNTABLE` copies come from `Gen.Hopping` (regenerated from the tree).

Python semantics: `int` unbounded (`hsn`, `maio` are `Int`: they come from
`int(request[i])` of the SETFH command, negative values are reachable; `fn`
comes from a TRXD header and is a `Nat`), `%` is floor-mod, `^`/`&` are the
two's-complement operations on unbounded ints, `list[i]` accepts
`-len ≤ i < len` and raises `IndexError` otherwise, `x % 0` raises
`ZeroDivisionError`, `__init__` raises `ValueError` for an empty MA and for an
HSN outside `range(64)`.
Operator precedence as parsed by `ast`:
  `rn_idx = (self.hsn ^ (t1 & 63)) + t3`
  `s = mp if mp < ma_len else (mp + (t3 & self._pnm)) % ma_len`     (after the F1 fix)

C semantics: parameters `uint8_t hsn, maio, n` (converted at the call), all
arithmetic in `int` (no overflow possible with these widths) except the cyclic
branch, which is `uint32_t` arithmetic (`t->fn` is `uint32_t`), `%` by zero and
array accesses outside `rn_table[114]` / the MA array are distinct fault
outcomes (undefined behaviour in C), the result is converted to `int16_t` by
`return` and to `uint16_t` by the assignment `*arfcn_p = …`.
-/
import OsmoVerif.Gen.Hopping
import OsmoVerif.Model.GsmTime

namespace OsmoVerif.Hopping
open OsmoVerif.GsmTime

/-- outcomes (`Except`) can be compared: needed to evaluate closed instances by `decide` -/
instance instDecEqExcept {ε α : Type} [DecidableEq ε] [DecidableEq α] : DecidableEq (Except ε α)
  | .ok a, .ok b => if h : a = b then isTrue (by rw [h]) else isFalse (by intro e; cases e; exact h rfl)
  | .error a, .error b => if h : a = b then isTrue (by rw [h]) else isFalse (by intro e; cases e; exact h rfl)
  | .ok _, .error _ => isFalse (by intro e; cases e)
  | .error _, .ok _ => isFalse (by intro e; cases e)

/-! ## Python side -/

/-- Python exception classes that the modelled code can raise. -/
inductive PyExc where
  | ValueError
  | IndexError
  | ZeroDivisionError
deriving DecidableEq, Repr

/-- `a ^ b` for an arbitrary Python int `a` and a non-negative `b`
(two's complement on unbounded ints: `~x ^ y = ~(x ^ y)`, `~x = -x - 1`). -/
def pyXor (a : Int) (b : Nat) : Int :=
  if 0 ≤ a then ((a.toNat ^^^ b : Nat) : Int)
  else -(((-a - 1).toNat ^^^ b : Nat) : Int) - 1

/-- `l[i]` of a Python list: negative indices count from the end. -/
def pyIndex {α : Type} (l : List α) (i : Int) : Except PyExc α :=
  if 0 ≤ i then
    match l[i.toNat]? with
    | some v => .ok v
    | none => .error .IndexError
  else if -(l.length : Int) ≤ i then
    match l[((l.length : Int) + i).toNat]? with
    | some v => .ok v
    | none => .error .IndexError
  else .error .IndexError

/-- `a % n` on Python ints (floor-mod; `ZeroDivisionError` for `n = 0`). -/
def pyMod (a n : Int) : Except PyExc Int :=
  if n = 0 then .error .ZeroDivisionError else .ok (Int.fmod a n)

/-- `class HoppingParams` instance state (`self._pnm` is computed once in `__init__`). -/
structure HoppingParams (α : Type) where
  hsn : Int
  maio : Int
  ma : List α
  pnm : Nat

/-- `HoppingParams.__init__(hsn, maio, ma)` -/
def pyInit {α : Type} (hsn maio : Int) (ma : List α) : Except PyExc (HoppingParams α) :=
  let maLen := ma.length
  if maLen = 0 then .error .ValueError
  -- if hsn not in range(64): raise ValueError
  else if ¬ (0 ≤ hsn ∧ hsn < 64) then .error .ValueError
  else .ok {
    hsn := hsn, maio := maio, ma := ma
    pnm := (maLen >>> 0) ||| (maLen >>> 1) ||| (maLen >>> 2) ||| (maLen >>> 3)
           ||| (maLen >>> 4) ||| (maLen >>> 5) ||| (maLen >>> 6) }

/-- `HoppingParams.resolve(fn)` -/
def HoppingParams.resolve {α : Type} (self : HoppingParams α) (fn : Nat) : Except PyExc α :=
  if self.hsn = 0 then
    -- mai = (fn + self.maio) % len(self.ma); return self.ma[mai]
    match pyMod ((fn : Int) + self.maio) (self.ma.length : Int) with
    | .error e => .error e
    | .ok mai => pyIndex self.ma mai
  else
    match pyFn2GsmTime fn with
    | (t1, t2, t3, _tc) =>
      let maLen := self.ma.length
      -- rn_idx = (self.hsn ^ (t1 & 63)) + t3
      let rnIdx : Int := pyXor self.hsn (t1 &&& 63) + (t3 : Int)
      -- m = t2 + self.RNTABLE[rn_idx]
      match pyIndex Gen.pyRntable rnIdx with
      | .error e => .error e
      | .ok r =>
        let m := t2 + r
        let mp := m &&& self.pnm
        -- s = mp if mp < ma_len else (mp + (t3 & self._pnm)) % ma_len
        let s : Except PyExc Int :=
          if mp < maLen then .ok (mp : Int)
          else pyMod (((mp + (t3 &&& self.pnm) : Nat)) : Int) (maLen : Int)
        match s with
        | .error e => .error e
        | .ok s =>
          -- mai = (s + self.maio) % ma_len; return self.ma[mai]
          match pyMod (s + self.maio) (maLen : Int) with
          | .error e => .error e
          | .ok mai => pyIndex self.ma mai

/-- `HoppingParams(hsn, maio, ma).resolve(fn)` -/
def pyResolve {α : Type} (hsn maio : Int) (ma : List α) (fn : Nat) : Except PyExc α :=
  match pyInit hsn maio ma with
  | .error e => .error e
  | .ok hp => hp.resolve fn

/-- The part of `class Transceiver` the property looks at: `self.fh`,
`self._rx_freq`, `self._tx_freq`; MA entries are `(rx_freq, tx_freq)` pairs. -/
structure Trx where
  fh : Option (HoppingParams (Int × Int))
  rxFreq : Option Int
  txFreq : Option Int

/-- `Transceiver.enable_fh(*args)`: `self.fh = HoppingParams(*args)` (an exception
leaves `self.fh` as it was). -/
def Trx.enableFh (self : Trx) (hsn maio : Int) (ma : List (Int × Int)) : Except PyExc Trx :=
  match pyInit hsn maio ma with
  | .error e => .error e
  | .ok hp => .ok { self with fh := some hp }

/-- `Transceiver.disable_fh()` -/
def Trx.disableFh (self : Trx) : Trx := { self with fh := none }

/-- `Transceiver.get_rx_freq(fn)` (`none` = Python `None`) -/
def Trx.getRxFreq (self : Trx) (fn : Nat) : Except PyExc (Option Int) :=
  match self.fh with
  | none => .ok self.rxFreq
  | some fh =>
    match fh.resolve fn with
    | .error e => .error e
    | .ok (rx, _) => .ok (some rx)

/-- `Transceiver.get_tx_freq(fn)` -/
def Trx.getTxFreq (self : Trx) (fn : Nat) : Except PyExc (Option Int) :=
  match self.fh with
  | none => .ok self.txFreq
  | some fh =>
    match fh.resolve fn with
    | .error e => .error e
    | .ok (_, tx) => .ok (some tx)

/-- operations that change the hopping configuration of one `Transceiver` object (TRXC `SETFH`, power-off) -/
inductive FhOp where
  /-- `enable_fh(hsn, maio, ma)`; an exception of the constructor leaves the object as it was -/
  | enable (hsn maio : Int) (ma : List (Int × Int))
  /-- `disable_fh()` -/
  | disable

def Trx.applyOp (t : Trx) : FhOp → Trx
  | .enable hsn maio ma =>
    match t.enableFh hsn maio ma with
    | .ok t' => t'
    | .error _ => t
  | .disable => t.disableFh

/-- a history of configuration operations on one object -/
def Trx.applyOps (t : Trx) (ops : List FhOp) : Trx := ops.foldl Trx.applyOp t

/-! ## Firmware side -/

/-- Outcomes of the C code that are undefined behaviour. -/
inductive FwFault where
  /-- `rn_table[idx]` with `idx ≥ 114` -/
  | oobRnTable (idx : Nat)
  /-- `arfcn_tbl[mai]` outside the array -/
  | oobMa (mai : Nat)
  /-- `% n` with `n = 0` -/
  | divZero
deriving DecidableEq, Repr

/-- `pow_nbin_mask(int n)`; every caller passes a value converted from `uint8_t`, so
`n ≥ 0` and `>>` is the shift of a non-negative `int`. -/
def powNbinMask (n : Nat) : Nat :=
  n ||| (n >>> 1) ||| (n >>> 2) ||| (n >>> 3) ||| (n >>> 4) ||| (n >>> 5) ||| (n >>> 6)

/-- C `a % n` on non-negative operands. -/
def cMod (a n : Nat) : Except FwFault Nat :=
  if n = 0 then .error .divZero else .ok (a % n)

/-- conversion of an `int` to `int16_t` (gcc: modulo 2^16) -/
def toI16 (x : Int) : Int :=
  let r := x % 65536
  if r < 32768 then r else r - 65536

/-- conversion of an `int16_t` to `uint16_t` -/
def i16ToU16 (x : Int) : Nat := (x % 65536).toNat

/-- `rfch_hop_seq_gen(t, hsn, maio, n, arfcn_tbl)`; `arfcn_tbl = none` is the `NULL`
pointer, `some tbl` the array it points to (with its real number of elements). -/
def fwHopSeqGen (t : GsmTime) (hsn maio n : Nat) (arfcnTbl : Option (List Nat)) :
    Except FwFault Int :=
  let hsn := u8 hsn
  let maio := u8 maio
  let n := u8 n
  let mai : Except FwFault Nat :=
    if hsn = 0 then
      -- mai = (t->fn + maio) % n;      (uint32_t arithmetic)
      cMod (u32 (t.fn + maio)) n
    else
      let pnm := powNbinMask n
      -- m = t->t2 + rn_table[(hsn ^ (t->t1 & 63)) + t->t3];
      let idx := (hsn ^^^ (t.t1 &&& 63)) + t.t3
      match Gen.fwRnTable[idx]? with
      | none => .error (.oobRnTable idx)
      | some r =>
        let m := t.t2 + r
        let mp := m &&& pnm
        let s : Except FwFault Nat :=
          if mp < n then .ok mp
          else
            let tp := t.t3 &&& pnm
            cMod (mp + tp) n
        match s with
        | .error e => .error e
        | .ok s => cMod (s + maio) n
  match mai with
  | .error e => .error e
  | .ok mai =>
    -- return arfcn_tbl ? arfcn_tbl[mai] : mai;     (converted to int16_t)
    match arfcnTbl with
    | none => .ok (toI16 (mai : Int))
    | some tbl =>
      match tbl[mai]? with
      | none => .error (.oobMa mai)
      | some a => .ok (toI16 (a : Int))

/-- `struct l1s_h1` -/
structure L1sH1 where
  hsn : Nat
  maio : Nat
  n : Nat
  ma : List Nat

/-- the fields of `l1s.dedicated` (and `l1s.serving_cell.arfcn`) that `rfch_get_params` reads
for its ARFCN output.  (`h0`/`h1` share storage in C; each path reads only its own member.) -/
structure L1sState where
  servingArfcn : Nat
  chanType : Nat
  h : Nat
  h0Arfcn : Nat
  h1 : L1sH1

/-- storing values into the typed struct fields (`uint8_t`, `uint16_t`, `uint16_t ma[cap]`;
entries not given stay zero as after `memset`) -/
def mkL1s (serving chanType h h0 hsn maio n : Nat) (ma : List Nat) : L1sState :=
  { servingArfcn := u16 serving, chanType := chanType, h := u8 h, h0Arfcn := u16 h0
    h1 := { hsn := u8 hsn, maio := u8 maio, n := u8 n
            ma := (ma.map u16) ++ List.replicate (Gen.fwMaCapacity - ma.length) 0 } }

/-- `rfch_get_params(t, &arfcn, NULL, NULL)`: the value stored to `*arfcn_p`. -/
def fwGetParamsArfcn (l1s : L1sState) (t : GsmTime) : Except FwFault Nat :=
  if l1s.chanType = 0 then .ok l1s.servingArfcn          -- GSM_DCHAN_NONE
  else if l1s.h ≠ 0 then
    match fwHopSeqGen t l1s.h1.hsn l1s.h1.maio l1s.h1.n (some l1s.h1.ma) with
    | .error e => .error e
    | .ok r => .ok (i16ToU16 r)
  else .ok l1s.h0Arfcn

/-- The firmware's channel selection for frame `fn` with a hopping dedicated channel
`(hsn, maio, n, ma)`: `gsm_fn2gsmtime` followed by `rfch_get_params`. -/
def fwHop (hsn maio n : Nat) (ma : List Nat) (fn : Nat) : Except FwFault Nat :=
  fwGetParamsArfcn { servingArfcn := 0, chanType := 6, h := 1, h0Arfcn := 0,
                     h1 := { hsn := hsn, maio := maio, n := n, ma := ma } } (cFn2GsmTime fn)

end OsmoVerif.Hopping
