/-
Model of the consumers of the multiframe layouts in trxcon's scheduler
(src/host/trxcon/src/sched_trx.c), statement by statement (C11).

  * `l1sched_configure_ts` (with `l1sched_add_ts`, `l1sched_reset_ts`, the layout
    selection through `l1sched_mframe_layout`, the loop over all `enum l1sched_lchan_type`
    values with `LAYOUT_HAS_LCHAN` in its real 64-bit arithmetic, automatic activation),
    `l1sched_reset_ts`, `l1sched_del_ts`, `l1sched_reset`, `l1sched_activate_lchan`,
    `l1sched_deactivate_lchan`, `l1sched_deactivate_all_lchans`, `l1sched_find_lchan_by_type`;
  * every `frames[fn % period]` site: `l1sched_pull_burst` (`unsigned int offset`),
    `l1sched_handle_rx_burst` (`uint8_t offset`), `l1sched_handle_rx_probe`, and
    `subst_frame_loss` (the `elapsed` computation with the `uint32_t → int` conversion and the
    hyperframe correction, the loop bound `elapsed - 1`, `GSM_TDMA_FN_INC(bi.fn) % period`,
    the burst id handed to the handler, the TDMA statistics).

What a timeslot is made of here: `mf_layout`, the list of channel states in list order with
`type`, `active` and the `tdma` statistics.  A timeslot fresh from `talloc_zero` has a list
head with `next == prev == NULL` (`lchansInit = false`) until `INIT_LLIST_HEAD`: walking it
dereferences NULL (`Crash.nullListHead`).  The lchan handlers (`rx_fn` / `tx_fn`) are the
environment: a call is recorded as an event with the channel type, `tn`, `fn`, `bid` it
sees.  Not modelled (not part of the property): burst buffers, the Tx primitive queue
(taken as empty: no handover-RACH override in `l1sched_pull_burst`), A5 (algo 0), AMR / SACCH
state, measurement history, `talloc` failure.

`l1sched_lchan_desc[]`, `_L1SCHED_CHAN_MAX`, `TRX_TS_COUNT`, `L1SCHED_CH_FLAG_AUTO` and
`L1SCHED_PROBE_F_ACTIVE` are regenerated (`Gen/TrxconLchanDesc.lean`), `layouts[]` and the
frame tables too (`Gen/TrxconMframe.lean`).
-/
import OsmoVerif.Model.Mframe
import OsmoVerif.Gen.TrxconLchanDesc

namespace OsmoVerif.TrxSched
open OsmoVerif.Gen OsmoVerif.Mframe
open OsmoVerif.Gen.TrxconMframe (Layout Frame Lchan Pchan)
open OsmoVerif.Gen.TrxconLchanDesc

/-- `GSM_TDMA_HYPERFRAME` (libosmocore `gsm0502.h`: 2048 · 26 · 51; the environment) -/
abbrev H : Nat := 2715648

def u64 (x : Nat) : Nat := x % 18446744073709551616

/-- the return codes of the modelled functions (negative errno values, by name) -/
inductive Rc where
  | ok | EINVAL | ENOMEM | EAGAIN | EALREADY | EIO | ENODEV
deriving DecidableEq, Repr

/-- ways in which the modelled functions leave defined behaviour -/
inductive Crash where
  | tsOutOfRange               -- `sched->ts[tn]` with `tn ≥ TRX_TS_COUNT`
  | nullListHead               -- walking `ts->lchans` before `INIT_LLIST_HEAD` (NULL dereference)
  | lookup (e : LookupErr)     -- `% period` with period 0, `frames == NULL`, `frames[i]` outside the table
  | shiftOutOfRange            -- `(uint64_t) 0x01 << lchan` with `lchan ≥ 64`
  | descOutOfRange             -- `l1sched_lchan_desc[chan]` with `chan ≥ _L1SCHED_CHAN_MAX`
deriving DecidableEq, Repr

/-- what the environment sees -/
inductive Ev where
  | pchanComb (tn pchan : Nat)     -- `l1sched_cfg_pchan_comb_ind(sched, tn, pchan)`
  | rx (chan tn fn bid : Nat)      -- `rx_fn(lchan, bi)`: `lchan->type`, `bi->tn`, `bi->fn`, `bi->bid`
  | tx (chan tn fn bid : Nat)      -- `tx_fn(lchan, br)`: `lchan->type`, `br->tn`, `br->fn`, `br->bid`
deriving DecidableEq, Repr

/-- `lchan->tdma`: `uint32_t last_proc; unsigned long num_proc, num_lost;` -/
structure Tdma where
  lastProc : Nat
  numProc : Nat
  numLost : Nat
deriving DecidableEq, Repr

/-- `struct l1sched_lchan_state` (the fields the modelled code reads or writes) -/
structure LchanState where
  type : Nat
  active : Bool
  tdma : Tdma
deriving DecidableEq, Repr

/-- `struct l1sched_ts` -/
structure Ts where
  index : Nat
  layout : Option Layout
  lchansInit : Bool
  lchans : List LchanState

/-- `struct l1sched_state`: `ts[TRX_TS_COUNT]` -/
structure Sched where
  ts : List (Option Ts)

/-- `l1sched_alloc`: all timeslot pointers NULL -/
def initSched : Sched := ⟨List.replicate TRX_TS_COUNT none⟩

/-- `sched->ts[tn]` -/
def getTs (s : Sched) (tn : Nat) : Except Crash (Option Ts) :=
  match s.ts[tn]? with
  | none => .error .tsOutOfRange
  | some t => .ok t

def setTs (s : Sched) (tn : Nat) (t : Option Ts) : Sched := ⟨s.ts.set tn t⟩

/-- `l1sched_reset_lchan`: of the modelled fields, the TDMA statistics are zeroed -/
def resetLchan (l : LchanState) : LchanState := { l with tdma := ⟨0, 0, 0⟩ }

/-- `l1sched_deactivate_all_lchans` -/
def deactivateAll (ts : Ts) : Except Crash Ts :=
  if !ts.lchansInit then .error .nullListHead
  else .ok { ts with lchans := ts.lchans.map fun l =>
    if l.active then { (resetLchan l) with active := false } else l }

/-- `l1sched_find_lchan_by_type` -/
def findLchan (ts : Ts) (chan : Nat) : Except Crash (Option LchanState) :=
  if !ts.lchansInit then .error .nullListHead
  else .ok (ts.lchans.find? fun l => l.type == chan)

/-- rewrite the first channel state of type `chan` (what a write through the pointer
    returned by `l1sched_find_lchan_by_type` does) -/
def updFirst (chan : Nat) (f : LchanState → LchanState) : List LchanState → List LchanState
  | [] => []
  | l :: rest => if l.type == chan then f l :: rest else l :: updFirst chan f rest

/-- `l1sched_activate_lchan(ts, chan)`; the first statement forms `&l1sched_lchan_desc[chan]`
    (an address more than one past the end of the array is already outside defined behaviour) -/
def activateLchan (ts : Ts) (chan : Nat) : Except Crash (Rc × Ts) := do
  if chan > L1SCHED_CHAN_MAX then .error .descOutOfRange
  match ← findLchan ts chan with
  | none => pure (.EINVAL, ts)
  | some l =>
    if l.active then pure (.EINVAL, ts)
    else pure (.ok, { ts with lchans := updFirst chan (fun l => { l with active := true }) ts.lchans })

/-- `l1sched_deactivate_lchan(ts, chan)` -/
def deactivateLchan (ts : Ts) (chan : Nat) : Except Crash (Rc × Ts) := do
  match ← findLchan ts chan with
  | none => pure (.EINVAL, ts)
  | some l =>
    if !l.active then pure (.EINVAL, ts)
    else
      let f := fun (l : LchanState) => { (resetLchan l) with active := false }
      pure (.ok, { ts with lchans := updFirst chan f ts.lchans })

/-- the body of `l1sched_reset_ts` / `l1sched_del_ts` on the timeslot: `mf_layout = NULL`
    (reset only), deactivate all, free every channel state (the list head stays valid) -/
def clearTs (ts : Ts) : Except Crash Ts := do
  let ts ← deactivateAll { ts with layout := none }
  pure { ts with lchans := [] }

/-- `l1sched_reset_ts(sched, tn)` -/
def resetTs (s : Sched) (tn : Nat) : Except Crash (Rc × Sched × List Ev) := do
  match ← getTs s tn with
  | none => pure (.EINVAL, s, [])
  | some ts =>
    let ts ← clearTs ts
    pure (.ok, setTs s tn (some ts), [.pchanComb tn Pchan.NONE.val])

/-- `l1sched_del_ts(sched, tn)` -/
def delTs (s : Sched) (tn : Nat) : Except Crash (Sched × List Ev) := do
  match ← getTs s tn with
  | none => pure (s, [])
  | some ts =>
    let _ ← deactivateAll ts
    pure (setTs s tn none, [.pchanComb tn Pchan.NONE.val])

/-- the loop `for (tn = 0; tn < ARRAY_SIZE(sched->ts); tn++) l1sched_del_ts(sched, tn);` -/
def delAll (s : Sched) (evs : List Ev) : List Nat → Except Crash (Sched × List Ev)
  | [] => .ok (s, evs)
  | tn :: rest => do
    let (s, e) ← delTs s tn
    delAll s (evs ++ e) rest

/-- `l1sched_reset(sched, reset_clock)`: `l1sched_del_ts` for every timeslot -/
def resetAll (s : Sched) : Except Crash (Sched × List Ev) :=
  delAll s [] (List.range TRX_TS_COUNT)

/-- `LAYOUT_HAS_LCHAN(layout, lchan)`: `layout->lchan_mask & ((uint64_t) 0x01 << lchan)`,
    tested against zero in all its 64 bits -/
def hasLchan (mask t : Nat) : Except Crash Bool :=
  if t < 64 then .ok ((u64 mask &&& u64 (1 <<< t)) != 0) else .error .shiftOutOfRange

/-- the loop `for (type = 0; type < _L1SCHED_CHAN_MAX; type++)` of `l1sched_configure_ts`
    on the timeslot whose list so far is `acc` -/
def allocLchans (mask : Nat) : List Nat → List LchanState → Except Crash (List LchanState)
  | [], acc => .ok acc
  | t :: rest, acc => do
    if !(← hasLchan mask t) then allocLchans mask rest acc
    else
      -- talloc_zero, `lchan->type = type`, `llist_add_tail`
      let acc := acc ++ [⟨t, false, ⟨0, 0, 0⟩⟩]
      match lchanDesc[t]? with
      | none => .error .descOutOfRange
      | some d =>
        if d.flags &&& L1SCHED_CH_FLAG_AUTO != 0 then
          -- `l1sched_activate_lchan(ts, type)`, return value ignored
          allocLchans mask rest
            (updFirst t (fun l => if l.active then l else { l with active := true }) acc)
        else allocLchans mask rest acc

/-- `l1sched_configure_ts`, first part: the timeslot to work on - an existing one after
    `l1sched_reset_ts(sched, tn)` (with its PCHAN_COMB indication), or a new one from
    `l1sched_add_ts` (`talloc_zero`, `index = tn`) -/
def configureGetTs (s : Sched) (tn : Nat) : Except Crash (Ts × List Ev) := do
  match ← getTs s tn with
  | some ts =>
    let ts ← clearTs ts
    pure (ts, [Ev.pchanComb tn Pchan.NONE.val])
  | none => pure (⟨u8 tn, none, false, []⟩, [])

/-- `l1sched_configure_ts`, from "Choose proper multiframe layout" on; the allocation loop
    `for (type = 0; type < _L1SCHED_CHAN_MAX; type++)` runs over `types` -/
def configureRest (types : List Nat) (s : Sched) (tn config : Nat) (ts : Ts) (ev0 : List Ev) :
    Except Crash (Rc × Sched × List Ev) :=
  let lay := layoutForVal config (u8 tn)
  let ts := { ts with layout := lay }
  match lay with
  | none => pure (.EINVAL, setTs s tn (some ts), ev0)
  | some L =>
    if L.config.val != config then pure (.EINVAL, setTs s tn (some ts), ev0)
    else do
      -- `INIT_LLIST_HEAD(&ts->lchans)`, then the allocation loop
      let lch ← allocLchans L.lchanMask types []
      let ts := { ts with lchansInit := true, lchans := lch }
      pure (.ok, setTs s tn (some ts), ev0 ++ [.pchanComb (u8 tn) config])

/-- `l1sched_configure_ts(sched, tn, config)` with the allocation loop over `types` -/
def configureTsOn (types : List Nat) (s : Sched) (tn config : Nat) :
    Except Crash (Rc × Sched × List Ev) := do
  let (ts, ev0) ← configureGetTs s tn
  configureRest types s tn config ts ev0

/-- `l1sched_configure_ts(sched, tn, config)` -/
def configureTs (s : Sched) (tn config : Nat) : Except Crash (Rc × Sched × List Ev) :=
  configureTsOn (List.range L1SCHED_CHAN_MAX) s tn config

/-! ## the frame lookups -/

def liftLookup {α} : Except LookupErr α → Except Crash α
  | .ok a => .ok a
  | .error e => .error (.lookup e)

/-- `mf->frames[idx]` -/
def frameAt (L : Layout) (idx : Nat) : Except Crash Frame :=
  match L.frames with
  | none => .error (.lookup .nullFrames)
  | some fr =>
    match fr[idx]? with
    | some f => .ok f
    | none => .error (.lookup .outOfTable)

/-- `uint8_t offset = bi->fn % ts->mf_layout->period; frame = ts->mf_layout->frames + offset;`
    (`l1sched_handle_rx_burst`: the offset is truncated to 8 bits) -/
def lookupU8 (L : Layout) (fn : Nat) : Except Crash Frame :=
  if L.period = 0 then .error (.lookup .divByZero) else frameAt L (u8 (fn % L.period))

/-- `elapsed = fn - lchan->tdma.last_proc;` (`uint32_t` difference converted to `int`), then
    `if (elapsed >= GSM_TDMA_HYPERFRAME / 2) elapsed -= GSM_TDMA_HYPERFRAME;`
    `else if (elapsed < -GSM_TDMA_HYPERFRAME / 2) elapsed += GSM_TDMA_HYPERFRAME;` -/
def elapsedOf (fn lastProc : Nat) : Int :=
  let e0 := toInt32 (u32 fn + 4294967296 - u32 lastProc)
  if e0 ≥ ((H / 2 : Nat) : Int) then e0 - (H : Int)
  else if e0 < -((H / 2 : Nat) : Int) then e0 + (H : Int)
  else e0

/-- the loop `for (i = 0; i < elapsed - 1; i++)` of `subst_frame_loss`: `n` iterations left,
    `bfn = bi.fn`; returns the statistics and the handler calls in order -/
def substLoop (L : Layout) (type tn : Nat) : Nat → Nat → Tdma → Except Crash (Tdma × List Ev)
  | 0, _, td => .ok (td, [])
  | n + 1, bfn, td => do
    -- `GSM_TDMA_FN_INC(bi.fn)`: `bi.fn = (bi.fn + 1) % GSM_TDMA_HYPERFRAME` in `uint32_t`
    let bfn := u32 (bfn + 1) % H
    let fp ← liftLookup (lookup L bfn)
    if fp.dlChan.val != type then substLoop L type tn n bfn td
    else
      -- `bi.bid = fp->dl_bid; handler(lchan, &bi);` then the statistics
      let (td', evs) ← substLoop L type tn n bfn ⟨bfn, u64 (td.numProc + 1), u64 (td.numLost + 1)⟩
      pure (td', Ev.rx type tn bfn fp.dlBid :: evs)

/-- `subst_frame_loss` from "Check TDMA frame order" on, `e` being the value of `elapsed` -/
def substAfterElapsed (L : Layout) (tn : Nat) (l : LchanState) (e : Int) :
    Except Crash (Rc × Tdma × List Ev) :=
  if e < 0 then .ok (.EALREADY, l.tdma, [])
  else if e > (L.period : Int) then .ok (.EIO, l.tdma, [])
  else if e = 0 then .ok (.EIO, l.tdma, [])
  else do
    let (td, evs) ← substLoop L l.type tn (e - 1).toNat l.tdma.lastProc l.tdma
    pure (.ok, td, evs)

/-- `subst_frame_loss(lchan, handler, fn)` on a channel state of a timeslot with layout `L`
    and index `tn` -/
def substFrameLoss (L : Layout) (tn : Nat) (l : LchanState) (fn : Nat) :
    Except Crash (Rc × Tdma × List Ev) :=
  if l.tdma.numProc = 0 then .ok (.EAGAIN, l.tdma, [])
  else substAfterElapsed L tn l (elapsedOf fn l.tdma.lastProc)

/-- result of `l1sched_handle_rx_burst`: return code, new state, handler calls, and the
    value written to `bi->bid` (`none`: not written) -/
structure RxResult where
  rc : Rc
  sched : Sched
  evs : List Ev
  bid : Option Nat

/-- `l1sched_handle_rx_burst(sched, bi)` with `bi->tn = tn`, `bi->fn = fn` -/
def handleRxBurst (s : Sched) (tn fn : Nat) : Except Crash RxResult := do
  match ← getTs s tn with
  | none => pure ⟨.EINVAL, s, [], none⟩
  | some ts =>
    match ts.layout with
    | none => pure ⟨.EINVAL, s, [], none⟩
    | some L =>
      let frame ← lookupU8 L fn
      let bid := frame.dlBid
      let chan := frame.dlChan.val
      match lchanDesc[chan]? with
      | none => .error .descOutOfRange
      | some d =>
        if !d.rx then pure ⟨.ENODEV, s, [], some bid⟩
        else
          match ← findLchan ts chan with
          | none => pure ⟨.ENODEV, s, [], some bid⟩
          | some l =>
            if !l.active then pure ⟨.ok, s, [], some bid⟩
            else
              let (rc, td, evs) ← substFrameLoss L ts.index l fn
              if rc == .EALREADY then pure ⟨.EALREADY, s, [], some bid⟩
              else
                -- `handler(lchan, bi)`, `last_proc = bi->fn`, `if (++num_proc == 0) num_proc = 1`
                let np := u64 (td.numProc + 1)
                let td' : Tdma := ⟨fn, if np = 0 then 1 else np, td.numLost⟩
                let ts' := { ts with lchans := updFirst chan (fun l => { l with tdma := td' }) ts.lchans }
                pure ⟨.ok, setTs s tn (some ts'), evs ++ [Ev.rx l.type tn fn bid], some bid⟩

/-- a stream of received bursts on one timeslot: `l1sched_handle_rx_burst` for every frame
    number of the list, in order; the final state -/
def rxStream (s : Sched) (tn : Nat) : List Nat → Except Crash Sched
  | [] => .ok s
  | fn :: rest =>
    match handleRxBurst s tn fn with
    | .error e => .error e
    | .ok r => rxStream r.sched tn rest

/-- `l1sched_pull_burst(sched, br)` with `br->tn = tn`, `br->fn = fn` and an empty Tx
    primitive queue: the handler call (if any) and the value written to `br->bid` -/
def pullBurst (s : Sched) (tn fn : Nat) : Except Crash (List Ev × Option Nat) := do
  match ← getTs s tn with
  | none => pure ([], none)
  | some ts =>
    match ts.layout with
    | none => pure ([], none)
    | some L =>
      let frame ← liftLookup (lookup L fn)
      let bid := frame.ulBid
      let chan := frame.ulChan.val
      match lchanDesc[chan]? with
      | none => .error .descOutOfRange
      | some d =>
        if !d.tx then pure ([], some bid)
        else
          match ← findLchan ts chan with
          | none => pure ([], some bid)
          | some l =>
            if !l.active then pure ([], some bid)
            else pure ([Ev.tx l.type tn fn bid], some bid)

/-- `l1sched_handle_rx_probe(sched, probe)`: return code and `probe->flags` (0 on entry) -/
def rxProbe (s : Sched) (tn fn : Nat) : Except Crash (Rc × Nat) := do
  match ← getTs s tn with
  | none => pure (.EINVAL, 0)
  | some ts =>
    match ts.layout with
    | none => pure (.EINVAL, 0)
    | some L =>
      let frame ← liftLookup (lookup L fn)
      match lchanDesc[frame.dlChan.val]? with
      | none => .error .descOutOfRange
      | some d =>
        if !d.rx then pure (.ENODEV, 0)
        else
          match ← findLchan ts frame.dlChan.val with
          | none => pure (.ENODEV, 0)
          | some l => pure (.ok, if l.active then L1SCHED_PROBE_F_ACTIVE else 0)

/-- harness-only state injection (correspondence of `subst_frame_loss` for arbitrary
    `last_proc` / `num_proc`): writes `lchan->tdma.{last_proc, num_proc}` -/
def injectTdma (ts : Ts) (chan lastProc numProc : Nat) : Ts :=
  let f := fun (l : LchanState) => { l with tdma := ⟨u32 lastProc, u64 numProc, l.tdma.numLost⟩ }
  { ts with lchans := updFirst chan f ts.lchans }

end OsmoVerif.TrxSched
