/-
Executable model of the receiving half of the TRXD interface
  src/target/trx_toolkit/data_if.py   (DATAInterface.__init__, set_hdr_ver, match_hdr_ver, recv_raw_data,
                                        recv_tx_msg, recv_rx_msg)
statement for statement, on top of `OsmoVerif.Model.Trxd` (the message parser).  The receive size, the
default header version and the exception classes the `try: ... except` around `parse_msg` swallows come
from `OsmoVerif.Gen.TrxdIf` (observed on the live interface of the current tree on every run).  No Mathlib.

The interface object keeps ONE attribute between two calls that matters here: `_hdr_ver` (`DataIf.hdrVer`).
Every method returns the object state it leaves next to its result, so that "a datagram leaves nothing
behind" is a statement about the model and not a consequence of how it is written.

API (namespace `OsmoVerif.TrxdIf`)
  DataIf, DataIf.init          the interface object / `DATAInterface(...)`
  setHdrVer s ver              `set_hdr_ver(ver)`                              : Bool × DataIf
  recvRawData n dgram          `recv_raw_data()`: `sock.recvfrom(n)` of a UDP socket returns the first n octets
  catches tab e                does the `except` clause swallow exception class `e` (a class the table does
                               not list is NOT swallowed)
  matchHdrVer s ver            `match_hdr_ver(msg)`
  recvTxMsg s dgram            `recv_tx_msg()` when `dgram` is the next datagram   : Except Exc (Option TxMsg) × DataIf
  recvRxMsg s dgram            `recv_rx_msg()`                                    : Except Exc (Option RxMsg) × DataIf
  Op, Ans, step, runIf         histories of operations on ONE interface object
`none` is Python's `None`.  The log line `match_hdr_ver` writes on a mismatch (`msg.desc_hdr()`: `%u` / `%d`
of attributes that are guarded by `is not None`) is not modelled.
-/
import OsmoVerif.Model.Trxd
import OsmoVerif.Gen.TrxdIf

namespace OsmoVerif.TrxdIf
open OsmoVerif OsmoVerif.Trxd

/-- the `DATAInterface` object: what it keeps between two calls -/
structure DataIf where
  hdrVer : Int
deriving DecidableEq, Repr

/-- `DATAInterface(...)`: `self._hdr_ver = 0x00` -/
def DataIf.init : DataIf := ⟨Gen.TrxdIf.defaultHdrVer⟩

/-- `set_hdr_ver(ver)` -/
def setHdrVer (s : DataIf) (ver : Int) : Bool × DataIf :=
  if ¬ Gen.Trxd.knownVersions.contains ver then (false, s) else (true, { s with hdrVer := ver })

/-- `recv_raw_data()`: `data, _ = self.sock.recvfrom(n)`; a datagram longer than n is cut -/
def recvRawData (n : Nat) (dgram : Bytes) : Bytes := dgram.take n

/-- is exception class `e` swallowed by an `except` clause with the observed table `tab`? -/
def catches (tab : List (String × Bool)) (e : Exc) : Bool := tab.lookup e.pyName == some true

/-- `match_hdr_ver(msg)` -/
def matchHdrVer (s : DataIf) (ver : Int) : Bool := ver == s.hdrVer

/-- `recv_tx_msg()` -/
def recvTxMsg (s : DataIf) (dgram : Bytes) : Except Exc (Option TxMsg) × DataIf :=
  let data := recvRawData Gen.TrxdIf.txRecvSize dgram
  -- try: msg = TxMsg(); msg.parse_msg(data)   except: return None
  match TxMsg.parseMsg data with
  | .error e => if catches Gen.TrxdIf.txCatches e then (.ok none, s) else (.error e, s)
  | .ok msg =>
    if ¬ matchHdrVer s msg.ver then (.ok none, s)
    else (.ok (some msg), s)

/-- `recv_rx_msg()` -/
def recvRxMsg (s : DataIf) (dgram : Bytes) : Except Exc (Option RxMsg) × DataIf :=
  let data := recvRawData Gen.TrxdIf.rxRecvSize dgram
  -- try: msg = RxMsg(); msg.parse_msg(bytearray(data))   except: return None
  match RxMsg.parseMsg data with
  | .error e => if catches Gen.TrxdIf.rxCatches e then (.ok none, s) else (.error e, s)
  | .ok msg =>
    if ¬ matchHdrVer s msg.ver then (.ok none, s)
    else (.ok (some msg), s)

/-! ### histories on ONE interface object -/

inductive Op
  | setVer (ver : Int)
  | recvTx (dgram : Bytes)
  | recvRx (dgram : Bytes)
deriving DecidableEq, Repr

inductive Ans
  | set (ok : Bool)
  | tx (r : Except Exc (Option TxMsg))
  | rx (r : Except Exc (Option RxMsg))
deriving DecidableEq, Repr

/-- one operation on the object: the answer and the object afterwards -/
def step (s : DataIf) : Op → Ans × DataIf
  | .setVer v => let (ok, s') := setHdrVer s v; (.set ok, s')
  | .recvTx d => let (r, s') := recvTxMsg s d; (.tx r, s')
  | .recvRx d => let (r, s') := recvRxMsg s d; (.rx r, s')

/-- a history: the answers and the object at the end (an exception that leaves `recv_*` is an answer;
the object stays usable) -/
def runIf (s : DataIf) : List Op → List Ans × DataIf
  | [] => ([], s)
  | op :: ops =>
    let (a, s') := step s op
    let (as, se) := runIf s' ops
    (a :: as, se)

end OsmoVerif.TrxdIf
