/-
Model of the Python `str`/`bytes` operations the TRXC control path uses
(ctrl_if.py, ctrl_if_trx.py, fake_trx.py):
  bytes.decode()  (UTF-8, strict)          → `decodeUtf8`   (UnicodeDecodeError = none)
  str.encode()                              → `encodeUtf8`
  str.startswith, s[4:], str.strip(), str.strip("\0"), str.split(" "), " ".join
  int(str)                                  → `pyInt`        (ValueError = none)
  str(int)                                  → `intToStr`
A Python `str` is a `List Nat` of code points (never a surrogate).  The character
classes of strip()/int() are regenerated from the live interpreter (Gen/PyUnicode.lean).
No Mathlib.
-/
import OsmoVerif.Gen.PyUnicode

namespace OsmoVerif.PyStr

abbrev Str := List Nat

/-! ### UTF-8 (Unicode standard table 3-7, what CPython's strict decoder accepts) -/

def isCont (b : Nat) : Bool := 128 ≤ b && b ≤ 191

/-- strict UTF-8 decoding of a byte string; `none` = UnicodeDecodeError -/
def decodeUtf8 : List Nat → Option Str
  | [] => some []
  | b0 :: rest =>
    if b0 < 128 then (decodeUtf8 rest).map (b0 :: ·)
    else if 194 ≤ b0 ∧ b0 ≤ 223 then
      match rest with
      | b1 :: r => if isCont b1 then (decodeUtf8 r).map (((b0 - 192) * 64 + (b1 - 128)) :: ·) else none
      | _ => none
    else if 224 ≤ b0 ∧ b0 ≤ 239 then
      match rest with
      | b1 :: b2 :: r =>
        let lo := if b0 = 224 then 160 else 128
        let hi := if b0 = 237 then 159 else 191
        if lo ≤ b1 ∧ b1 ≤ hi ∧ isCont b2 then
          (decodeUtf8 r).map (((b0 - 224) * 4096 + (b1 - 128) * 64 + (b2 - 128)) :: ·)
        else none
      | _ => none
    else if 240 ≤ b0 ∧ b0 ≤ 244 then
      match rest with
      | b1 :: b2 :: b3 :: r =>
        let lo := if b0 = 240 then 144 else 128
        let hi := if b0 = 244 then 143 else 191
        if lo ≤ b1 ∧ b1 ≤ hi ∧ isCont b2 ∧ isCont b3 then
          (decodeUtf8 r).map (((b0 - 240) * 262144 + (b1 - 128) * 4096 + (b2 - 128) * 64 + (b3 - 128)) :: ·)
        else none
      | _ => none
    else none

def encodeChar (c : Nat) : List Nat :=
  if c < 128 then [c]
  else if c < 2048 then [192 + c / 64, 128 + c % 64]
  else if c < 65536 then [224 + c / 4096, 128 + c / 64 % 64, 128 + c % 64]
  else [240 + c / 262144, 128 + c / 4096 % 64, 128 + c / 64 % 64, 128 + c % 64]

def encodeUtf8 (s : Str) : List Nat := s.flatMap encodeChar

/-- ASCII text literal → code points -/
def lit (s : String) : Str := s.toList.map Char.toNat

/-! ### str methods -/

def startsWith (s p : Str) : Bool := s.take p.length == p

def isStripSpace (c : Nat) : Bool := Gen.pyStripSpace.contains c
def isIntSpace (c : Nat) : Bool := Gen.pyIntSpace.contains c

def stripBy (p : Nat → Bool) (s : Str) : Str :=
  ((s.dropWhile p).reverse.dropWhile p).reverse

/-- `s.strip()` -/
def strip (s : Str) : Str := stripBy isStripSpace s
/-- `s.strip("\0")` -/
def stripNul (s : Str) : Str := stripBy (· == 0) s

/-- `s.split(" ")`: split at every U+0020, empty fields kept, never an empty list -/
def splitSpace : Str → List Str
  | [] => [[]]
  | c :: rest =>
    if c = 32 then [] :: splitSpace rest
    else match splitSpace rest with
      | [] => [[c]]            -- unreachable (splitSpace never returns [])
      | w :: ws => (c :: w) :: ws

/-- `" ".join(xs)` -/
def joinSpace : List Str → Str
  | [] => []
  | [x] => x
  | x :: xs => x ++ 32 :: joinSpace xs

/-! ### int(str) -/

/-- decimal value of a code point accepted by `int()` as a digit -/
def digitVal? (c : Nat) : Option Nat :=
  match Gen.pyDigitZeros.find? (fun z => z ≤ c ∧ c < z + 10) with
  | some z => some (c - z)
  | none => none

/-- digits with single underscores between them: `d (_? d)*`; returns the value -/
def digitsVal : Str → Option Nat
  | [] => none
  | c :: rest =>
    match digitVal? c with
    | none => none
    | some d => go d rest
where
  go (acc : Nat) : Str → Option Nat
    | [] => some acc
    | c :: rest =>
      if c = 95 then
        match rest with
        | c2 :: rest2 =>
          match digitVal? c2 with
          | some d => go (acc * 10 + d) rest2
          | none => none
        | [] => none
      else
        match digitVal? c with
        | some d => go (acc * 10 + d) rest
        | none => none

/-- `int(s)` (base 10); `none` = ValueError -/
def pyInt (s : Str) : Option Int :=
  match stripBy isIntSpace s with
  | [] => none
  | c :: rest =>
    if c = 45 then (digitsVal rest).map (fun n => -(n : Int))
    else if c = 43 then (digitsVal rest).map (fun n => (n : Int))
    else (digitsVal (c :: rest)).map (fun n => (n : Int))

/-! ### str(int) -/

def natDigits (n : Nat) : Str := (Nat.toDigits 10 n).map Char.toNat

def intToStr (i : Int) : Str :=
  if i < 0 then 45 :: natDigits i.natAbs else natDigits i.toNat

end OsmoVerif.PyStr
