/-
C20, chain part — the hopping list end to end: what `gsm48_decode_mobile_alloc` decodes is, after
layer23's conversion loop, the L1CTL message, trxcon's `CMD SETFH` text and the simulator's parsing,
the mobile allocation BOTH sides hop over: same channels, same order, nothing cut, same channel in
every frame.  Property theorems only.

Composition of theorems that exist (none of them is proved again):
  `Props.C20.decode_ma_spec`        decoder = selection of TS 44.018 §10.5.2.21, order of the standard
  `Props.Trxcon.trxcon_cmd_emits`, `setfh_len`, `setfh_enospc`, `setfh_fits_62`   trxcon's emitter
  `World.parseCmd_setfh_ok`, `World.handleRx_cmdText`   (the SETFH effect lemma behind `Props.C05.setfh_effect`
                                     and the reply form behind `Props.C05.reply_form`; taken from the Lemmas layer so
                                     that this module does not depend on the rest of the world proofs)
  `Props.C07.py_resolve_spec`, `fw_hop_spec`, `py_eq_fw`   simulator and firmware = TS 45.002 §6.2.3
with the glue of `Model/HopChain.lean` (layer23 `gsm48_rr_render_ma`, `l1ctl_tx_dm_est_req_h1`; trxcon
`l1ctl_proc_est_req_h1`, `handle_dch_est_req`; firmware `l1ctl_rx_dm_est_req`) in between.

Reading: `freq` = `s->freq[1024].mask` (cell allocation = entries with FREQ_TYPE_SERV), `ie` = value part
of the Mobile Allocation IE, `lv = len :: ie ++ pad` = `cd->mob_alloc_lv[9]`, `pcs` = the cell refers to
PCS 1900, `freqMap` = `set->freq_map`, `ma0` = the caller's `uint16_t ma[64]` before the call.
-/
import OsmoVerif.Lemmas.C20Chain
import OsmoVerif.Props.C20
import OsmoVerif.Props.C07
import OsmoVerif.Props.Trxcon

namespace OsmoVerif.Props.C20Chain
open OsmoVerif OsmoVerif.HopChain OsmoVerif.MobileAlloc OsmoVerif.Spec.MobileAlloc

/-- the decoded hopping list: the selection of TS 44.018 §10.5.2.21 (`Props.C20.decode_ma_spec`) -/
def decoded (freq ie : List Nat) : List Nat := select (servAt freq) ie

/-- … as band ARFCNs (layer23: 512..810 get the PCS flag when the cell refers to PCS 1900) -/
def band (pcs : Bool) (freq ie : List Nat) : List Nat := (decoded freq ie).map (toBand pcs)

/-- `CMD SETFH <hsn> <maio> <rx1> <tx1> … <rxN> <txN>\0`: decimal texts separated by single blanks,
(rx_i, tx_i) = 100·`gsm_arfcn2freq10`(channel i, downlink / uplink) in kHz, in the order of `chans` -/
def setfhDatagram (hsn maio : Nat) (chans : List Nat) : List Nat :=
  (World.TrxconCmd.setfh hsn maio (chans.map khzPair)).text

/-- `RSP SETFH 0 <hsn> <maio> <rx1> <tx1> … <rxN> <txN>\0` -/
def setfhReply (hsn maio : Nat) (chans : List Nat) : List Nat :=
  World.rspTextOf (PyStr.lit "SETFH") 0
    (PyStr.natDigits hsn :: PyStr.natDigits maio :: World.TrxconCmd.freqTexts (chans.map khzPair)) []

/-- The domain of the chain theorems (decidable): `freq[1024]`; an IE of 1..8 octets selecting at least
one channel; every selected channel lies in a band `gsm_arfcn2freq10` defines and is listed in the
phone's frequency map (otherwise layer23 refuses the assignment: `chain_unsupported`). -/
def Dom (freq ie : List Nat) (pcs : Bool) (freqMap : List Nat) : Prop :=
  freq.length = 1024 ∧ 1 ≤ ie.length ∧ ie.length ≤ 8 ∧ decoded freq ie ≠ [] ∧
  (∀ a ∈ decoded freq ie, TrxconIf.ValidArfcn (toBand pcs a)) ∧
  (∀ a ∈ decoded freq ie, freqSupported freqMap (arfcn2index (toBand pcs a)) = .ok true)

instance (freq ie : List Nat) (pcs : Bool) (freqMap : List Nat) : Decidable (Dom freq ie pcs freqMap) := by
  unfold Dom; infer_instance

/-- the Mobile Allocation text fits trxcon's `ma_buf[TRXC_BUF_SIZE - 24]` (999 characters + NUL):
14 characters per channel below 1 GHz, 16 per DCS 1800 / PCS 1900 channel -/
def Fits (pcs : Bool) (freq ie : List Nat) : Prop := (TrxconIf.maText (band pcs freq ie)).length ≤ 999

instance (pcs : Bool) (freq ie : List Nat) : Decidable (Fits pcs freq ie) := by unfold Fits; infer_instance

/-- the L1CTL_DM_EST_REQ hopping parameters for a channel list -/
def l1ctlMsg (hsn maio : Nat) (chans : List Nat) : L1ctlH1 :=
  { hsn := hsn, maio := maio, n := chans.length
    maOctets := chans.flatMap be16 ++ List.replicate (128 - 2 * chans.length) 0 }

/-- The regenerated data of the current tree the chain theorems speak about: the capacities of the
arrays the list passes through (`struct l1ctl_h1.ma[64]` of two-octet entries, trxcon's `h1.ma[64]`, the
firmware's `l1s.dedicated.h1.ma[64]`, the callers' `ma[64]`), the flag bits, the RR causes. -/
theorem tree_constants :
    Gen.HopChain.l1ctlMaCap = 64 ∧ Gen.HopChain.l1ctlMaElem = 2 ∧ l1ctlOctets = 128 ∧
    Gen.HopChain.trxconMaCap = 64 ∧ Gen.fwMaCapacity = 64 ∧ Gen.MobileAlloc.hoppingCap = 64 ∧
    Gen.HopChain.freqMapSize = 166 ∧ Gen.HopChain.mobAllocLvSize = 9 ∧
    arfcnPcs = 0x8000 ∧ arfcnFlagMask = 0xf000 ∧ causeNoCellAllocA = 0x65 ∧ causeFreqNotImpl = 0x08 := by decide

/-! ### facts about the decoded list (from `decode_ma_spec`) -/

theorem decoded_facts (freq ie : List Nat) :
    (ie.length ≤ 8 → (decoded freq ie).length ≤ 64) ∧ Ordered (decoded freq ie) ∧ (∀ a ∈ decoded freq ie, a < 1024) := by
  refine ⟨fun h8 => ?_, ?_, fun a ha => (mem_caList ((select_sublist _ _).subset ha)).2⟩
  · have := (select_length_le (servAt freq) ie).1
    simp only [decoded]; omega
  · exact List.Pairwise.sublist (select_sublist _ _) (caList_ordered _)

theorem band_facts (pcs : Bool) (freq ie : List Nat) :
    (band pcs freq ie).length = (decoded freq ie).length ∧
    (∀ b ∈ band pcs freq ie, b < 65536 ∧ u16 b = b) := by
  refine ⟨by simp only [band, List.length_map], ?_⟩
  intro b hb
  obtain ⟨a, ha, rfl⟩ := List.mem_map.mp hb
  exact toBand_lt pcs a ((decoded_facts freq ie).2.2 a ha)

/-! ### MS side: decoder → conversion loop → L1CTL message -/

/-- **layer23.** `gsm48_rr_render_ma` + `l1ctl_tx_dm_est_req_h1` on a Mobile Allocation IE: the
caller's `ma[0..N)` holds exactly the decoded list as band ARFCNs — same length, order of the standard
— the rest of `ma[64]` is untouched, and the L1CTL message carries HSN, MAIO, `n = N` and these
channels in network byte order, the rest of its `ma[64]` zero. -/
theorem chain_ms_side (freq ie pad : List Nat) (pcs : Bool) (freqMap ma0 : List Nat) (hsn maio : Nat)
    (hd : Dom freq ie pcs freqMap) (h0 : ma0.length = 64) (hh : hsn < 256) (hm : maio < 256) :
    renderMa 1 freq (ie.length :: ie ++ pad) pcs freqMap ma0 =
      .ok (.done ⟨0, band pcs freq ie ++ ma0.drop (decoded freq ie).length, (decoded freq ie).length⟩) ∧
    msPath freq (ie.length :: ie ++ pad) pcs freqMap ma0 hsn maio =
      .ok (.sent (band pcs freq ie) (l1ctlMsg hsn maio (band pcs freq ie))) := by
  obtain ⟨hf, hl1, hl8, hne, _, hsup⟩ := hd
  obtain ⟨hN', _, _⟩ := decoded_facts freq ie
  have hN := hN' hl8
  have hie : ie ≠ [] := by intro e; rw [e] at hl1; simp at hl1
  obtain ⟨st, hdec, hlist, hlen, _, _, _, hcap, hrest⟩ :=
    C20.decode_ma_spec freq ie ie.length ma0 0 false hf rfl hl8 (by omega)
  have hNpos : 0 < (decoded freq ie).length := List.length_pos_iff.mpr hne
  have hst : st.hopping = decoded freq ie ++ ma0.drop (decoded freq ie).length := by
    have := List.take_append_drop st.hoppLen st.hopping
    rw [← this, hrest, hlen]
    simp only [hoppingList, hlen] at hlist
    rw [hlist]; rfl
  have hlen' : st.hoppLen = (decoded freq ie).length := hlen
  have hrender : renderMa 1 freq (ie.length :: ie ++ pad) pcs freqMap ma0 =
      .ok (.done ⟨0, band pcs freq ie ++ ma0.drop (decoded freq ie).length, (decoded freq ie).length⟩) := by
    have hb := bandLoop_ok pcs freqMap (decoded freq ie) [] (ma0.drop (decoded freq ie).length) hsup
    simp only [List.nil_append, List.length_nil] at hb
    have hrd : rd .mobAllocLv (ie.length :: ie ++ pad) 0 = .ok ie.length := rfl
    have hdrop : (ie.length :: ie ++ pad).drop 1 = ie ++ pad := rfl
    simp only [renderMa, hrd, hdrop, decode_trailing freq ie pad ma0 0 false hf hie hl8 (by omega), hdec,
      bind, Except.bind, pure, Except.pure]
    rw [if_neg (by decide), if_neg (by omega), if_neg (by decide), if_neg (by omega), hst, hlen', hb]
    rfl
  refine ⟨hrender, ?_⟩
  have hbl := (band_facts pcs freq ie).1
  have hht := htonsLoop_ok (band pcs freq ie) [] (ma0.drop (decoded freq ie).length) [] (List.replicate 128 0)
    rfl (by simp only [List.length_replicate]; omega)
  simp only [List.nil_append, List.length_nil, List.drop_replicate] at hht
  have hu8 : HopChain.u8 (decoded freq ie).length = (band pcs freq ie).length := by simp only [HopChain.u8]; omega
  have hoc : l1ctlOctets = 128 := tree_constants.2.2.1
  simp only [msPath, hrender, l1ctlTxDmEstReqH1, hu8, hoc, hht, bind, Except.bind, pure, Except.pure]
  rw [if_neg (by decide)]
  have e1 : HopChain.u8 hsn = hsn := by simp only [HopChain.u8]; omega
  have e2 : HopChain.u8 maio = maio := by simp only [HopChain.u8]; omega
  simp only [l1ctlMsg, e1, e2, ← hbl, List.take_left']

/-- **layer23 refuses** a list with a channel the phone's frequency map does not list: RR cause
"frequency not implemented", no L1CTL message (so the domain predicate asks for support). -/
theorem chain_unsupported (freq ie pad : List Nat) (pcs : Bool) (freqMap ma0 : List Nat) (hsn maio : Nat)
    (xs : List Nat) (b : Nat) (ys : List Nat)
    (hf : freq.length = 1024) (hl1 : 1 ≤ ie.length) (hl8 : ie.length ≤ 8) (h0 : ma0.length = 64)
    (hsplit : decoded freq ie = xs ++ b :: ys)
    (hsup : ∀ a ∈ xs, freqSupported freqMap (arfcn2index (toBand pcs a)) = .ok true)
    (hb : freqSupported freqMap (arfcn2index (toBand pcs b)) = .ok false) :
    msPath freq (ie.length :: ie ++ pad) pcs freqMap ma0 hsn maio = .ok (.cause causeFreqNotImpl) := by
  obtain ⟨hN', _, _⟩ := decoded_facts freq ie
  have hN := hN' hl8
  have hie : ie ≠ [] := by intro e; rw [e] at hl1; simp at hl1
  obtain ⟨st, hdec, hlist, hlen, _, _, _, hcap, hrest⟩ :=
    C20.decode_ma_spec freq ie ie.length ma0 0 false hf rfl hl8 (by omega)
  have hst : st.hopping = decoded freq ie ++ ma0.drop (decoded freq ie).length := by
    have := List.take_append_drop st.hoppLen st.hopping
    rw [← this, hrest, hlen]
    simp only [hoppingList, hlen] at hlist
    rw [hlist]; rfl
  have hlen' : st.hoppLen = (decoded freq ie).length := hlen
  have hbl := bandLoop_unsupported pcs freqMap xs [] b (ys ++ ma0.drop (decoded freq ie).length) hsup hb ys.length
  simp only [List.nil_append, List.length_nil] at hbl
  have hrd : rd .mobAllocLv (ie.length :: ie ++ pad) 0 = .ok ie.length := rfl
  have hdrop : (ie.length :: ie ++ pad).drop 1 = ie ++ pad := rfl
  have hcnt : (decoded freq ie).length = xs.length + 1 + ys.length := by
    rw [hsplit]; simp only [List.length_append, List.length_cons]; omega
  have hlist2 : decoded freq ie ++ ma0.drop (decoded freq ie).length
      = xs ++ b :: (ys ++ ma0.drop (decoded freq ie).length) := by rw [hsplit]; simp
  simp only [msPath, renderMa, hrd, hdrop, decode_trailing freq ie pad ma0 0 false hf hie hl8 (by omega), hdec,
    bind, Except.bind, pure, Except.pure]
  rw [if_neg (by decide), if_neg (by omega), if_neg (by decide), if_neg (by omega), hst, hlen', hlist2]
  rw [show (decoded freq ie).length = xs.length + 1 + ys.length from hcnt] at hbl ⊢
  rw [hbl]
  simp only [causeFreqNotImpl]
  rfl

/-- **SI4 CBCH caller** (sysinfo.c:997 → app_cbch_sniff.c `try_cbch`): the decoded list goes into the
L1CTL message as it is — same channels, same order, `n = N` — WITHOUT the PCS conversion of
`gsm48_rr_render_ma`: in a cell that refers to PCS 1900 the channels 512..810 of a hopping CBCH reach
trxcon and the firmware as DCS 1800 numbers (observation; from there on `chain_trxcon_side`,
`chain_fake_trx`, `chain_channel` apply to the list `decoded freq ie`). -/
theorem chain_cbch_side (freq ie hop0 : List Nat) (hl0 hsn maio : Nat)
    (hf : freq.length = 1024) (hl1 : 1 ≤ ie.length) (hl8 : ie.length ≤ 8) (h0 : hop0.length = 64)
    (hh : hsn < 256) (hm : maio < 256) :
    ∃ rest, cbchPath freq ie ie.length hop0 hl0 hsn maio =
      .ok (decoded freq ie ++ rest, (decoded freq ie).length, l1ctlMsg hsn maio (decoded freq ie)) ∧
      rest = hop0.drop (decoded freq ie).length := by
  obtain ⟨hN', _, _⟩ := decoded_facts freq ie
  have hN := hN' hl8
  obtain ⟨st, hdec, hlist, hlen, _, _, _, hcap, hrest⟩ :=
    C20.decode_ma_spec freq ie ie.length hop0 hl0 true hf rfl hl8 (by omega)
  have hst : st.hopping = decoded freq ie ++ hop0.drop (decoded freq ie).length := by
    have := List.take_append_drop st.hoppLen st.hopping
    rw [← this, hrest, hlen]
    simp only [hoppingList, hlen] at hlist
    rw [hlist]; rfl
  have hlen' : st.hoppLen = (decoded freq ie).length := hlen
  have hht := htonsLoop_ok (decoded freq ie) [] (hop0.drop (decoded freq ie).length) [] (List.replicate 128 0)
    rfl (by simp only [List.length_replicate]; omega)
  simp only [List.nil_append, List.length_nil, List.drop_replicate] at hht
  have hu8 : HopChain.u8 (decoded freq ie).length = (decoded freq ie).length := by simp only [HopChain.u8]; omega
  have hoc : l1ctlOctets = 128 := tree_constants.2.2.1
  have e1 : HopChain.u8 hsn = hsn := by simp only [HopChain.u8]; omega
  have e2 : HopChain.u8 maio = maio := by simp only [HopChain.u8]; omega
  refine ⟨_, ?_, rfl⟩
  simp only [cbchPath, hdec, l1ctlTxDmEstReqH1, hst, hlen', hu8, hoc, hht, e1, e2, bind, Except.bind, pure, Except.pure,
    l1ctlMsg]

/-! ### trxcon: L1CTL message → `CMD SETFH` -/

/-- **trxcon, L1CTL side.** `l1ctl_proc_est_req_h1` on the message of `chain_ms_side`: `n` is neither 0
nor above the array, the `n` channels are copied out in order (`ntohs` of what `htons` stored), the rest
of the request's `ma[64]` is zero. -/
theorem trxconProc_ok (hsn maio : Nat) (chans : List Nat) (hne : chans ≠ []) (hN : chans.length ≤ 64)
    (hu : ∀ b ∈ chans, u16 b = b) :
    trxconProcEstReqH1 (l1ctlMsg hsn maio chans) =
      .ok (.ok ⟨hsn, maio, chans.length, chans ++ List.replicate (64 - chans.length) 0⟩) := by
  have hpos : 0 < chans.length := List.length_pos_iff.mpr hne
  have hnt := ntohsLoop_ok .trxconMa chans [] (List.replicate (128 - 2 * chans.length) 0) [] (List.replicate 64 0)
    rfl (by simp only [List.length_replicate]; omega)
  simp only [List.nil_append, List.length_nil, List.drop_replicate] at hnt
  have hmap : chans.map u16 = chans := by
    conv => rhs; rw [← List.map_id chans]
    exact List.map_congr_left (fun b hb => hu b hb)
  rw [hmap] at hnt
  have h2 : ∀ l : List Nat, (l.flatMap be16).length = 2 * l.length := by
    intro l
    induction l with
    | nil => rfl
    | cons a t ih => simp only [List.flatMap_cons, List.length_append, ih, be16, List.length_cons, List.length_nil]; omega
  have hoct : (l1ctlMsg hsn maio chans).maOctets.length = 128 := by
    simp only [l1ctlMsg, List.length_append, List.length_replicate, h2]; omega
  simp only [trxconProcEstReqH1, bind, Except.bind, pure, Except.pure]
  split
  · rename_i h; simp only [l1ctlMsg] at h; omega
  · split
    · rename_i h; rw [hoct] at h; simp only [l1ctlMsg] at h; omega
    · have hcap : Gen.HopChain.trxconMaCap = 64 := by decide
      simp only [l1ctlMsg, hcap]; rw [hnt]

/-- **`chain_setfh` (trxcon half).** From the L1CTL message of `chain_ms_side` trxcon copies the `n`
channels out (`ntohs`), hands `SETFREQ_H1` to the transceiver interface and — when the text fits its
buffer — passes exactly one datagram to `send()`: `CMD SETFH hsn maio rx1 tx1 … rxN txN\0` with the
frequency pairs of the channels in the order of the list. -/
theorem chain_trxcon_side (hsn maio : Nat) (chans : List Nat) (hh : hsn < 256) (hm : maio < 256)
    (hne : chans ≠ []) (hN : chans.length ≤ 64) (hu : ∀ b ∈ chans, u16 b = b)
    (hv : ∀ b ∈ chans, TrxconIf.ValidArfcn b) (hfit : (TrxconIf.maText chans).length ≤ 999) :
    trxconPath (l1ctlMsg hsn maio chans) = .ok (0, [setfhDatagram hsn maio chans]) ∧
    (setfhDatagram hsn maio chans).length ≤ 1016 := by
  have hpos : 0 < chans.length := List.length_pos_iff.mpr hne
  have hproc := trxconProc_ok hsn maio chans hne hN hu
  have hvalid : TrxconIf.ValidCmd (.setfreqH1 hsn maio chans.length chans) := ⟨rfl, hne, hv, hfit⟩
  obtain ⟨t', hc, _, hsent⟩ := Trxcon.trxcon_cmd_emits
    { state := Gen.Trxcon.stIdle, prevState := Gen.Trxcon.stOffline } _ rfl (by decide) hvalid
  have hsent' := hsent _ [] rfl
  have e1 : TrxconIf.u8 hsn = hsn := by simp only [TrxconIf.u8]; omega
  have e2 : TrxconIf.u8 maio = maio := by simp only [TrxconIf.u8]; omega
  rw [e1, e2, setfh_dgram_eq hsn maio hh hm chans] at hsent'
  refine ⟨?_, ?_⟩
  · simp only [trxconPath, hproc, handleDchEstReq, bind, Except.bind, pure, Except.pure,
      cPhyCmd_setfh_pad _ hsn maio chans _ hne (by omega), hc, hsent']
    rfl
  · have hlen := (Trxcon.setfh_len hsn maio chans hne hv).2.2.2 hfit
    rw [e1, e2] at hlen
    have := congrArg List.length (setfh_dgram_eq hsn maio hh hm chans)
    rw [List.length_append, List.length_singleton] at this
    simp only [setfhDatagram]
    omega

/-- **Where -ENOSPC starts.** When the text does not fit `ma_buf` — 14·(channels below 1 GHz) +
16·(DCS 1800 / PCS 1900 channels) > 999 — trxcon returns `-ENOSPC` and sends NOTHING: the
simulator is never told about the hopping channel. -/
theorem chain_setfh_enospc (hsn maio : Nat) (chans : List Nat)
    (hne : chans ≠ []) (hN : chans.length ≤ 64) (hu : ∀ b ∈ chans, u16 b = b)
    (hv : ∀ b ∈ chans, TrxconIf.ValidArfcn b) (hbig : (TrxconIf.maText chans).length > 999) :
    trxconPath (l1ctlMsg hsn maio chans) = .ok (-Gen.Trxcon.eNOSPC, []) := by
  have hpos : 0 < chans.length := List.length_pos_iff.mpr hne
  have hproc := trxconProc_ok hsn maio chans hne hN hu
  have hno := Trxcon.setfh_enospc { state := Gen.Trxcon.stIdle, prevState := Gen.Trxcon.stOffline } hsn maio chans
    hne hv (by omega) hbig
  simp only [trxconPath, hproc, handleDchEstReq, bind, Except.bind, pure, Except.pure,
    cPhyCmd_setfh_pad _ hsn maio chans _ hne (by omega), hno]

/-- The text always fits for up to 62 channels of any band, and for up to 64 channels (the maximum
of a Mobile Allocation) when every channel lies below 1 GHz (GSM 450 … E-GSM 900: 14 characters
per channel, 64·14 = 896). -/
theorem chain_fits (chans : List Nat) (hv : ∀ b ∈ chans, TrxconIf.ValidArfcn b) :
    (chans.length ≤ 62 → (TrxconIf.maText chans).length ≤ 999) ∧
    (chans.length ≤ 64 → (∀ b ∈ chans, (TrxconIf.pairOf b).length = 14) → (TrxconIf.maText chans).length ≤ 999) := by
  refine ⟨fun h => Trxcon.setfh_fits_62 chans hv h, fun h h14 => ?_⟩
  have : (TrxconIf.maText chans).length = 14 * chans.length := by
    clear hv h
    induction chans with
    | nil => rfl
    | cons a t ih =>
      rw [TrxconIf.maText_cons, List.length_append, List.length_cons, h14 a (by simp),
        ih (fun x hx => h14 x (by simp [hx]))]
      omega
  omega

/-- **The exact limit.** The text of a list with `a` channels below 1 GHz and `b` channels of DCS 1800 /
PCS 1900 has `14·a + 16·b` characters; it fits iff `14·a + 16·b ≤ 999`.  For a pure DCS / PCS
allocation that is `N ≤ 62`: the legal sizes 63 and 64 are refused (`chain_setfh_full_fails`). -/
theorem chain_enospc_limit (chans : List Nat) (hv : ∀ b ∈ chans, TrxconIf.ValidArfcn b) :
    ∃ a b, a + b = chans.length ∧ (TrxconIf.maText chans).length = 14 * a + 16 * b ∧
      a = (chans.filter fun c => (TrxconIf.pairOf c).length == 14).length ∧
      ((TrxconIf.maText chans).length ≤ 999 ↔ 14 * a + 16 * b ≤ 999) ∧
      (a = 0 → ((TrxconIf.maText chans).length ≤ 999 ↔ chans.length ≤ 62)) := by
  induction chans with
  | nil => exact ⟨0, 0, rfl, rfl, rfl, by simp [TrxconIf.maText], fun _ => by simp [TrxconIf.maText]⟩
  | cons c t ih =>
    obtain ⟨a, b, hab, hlen, hcnt, _, _⟩ := ih (fun x hx => hv x (List.mem_cons_of_mem _ hx))
    have hc := (TrxconIf.pairOf_facts c (hv c List.mem_cons_self)).1
    rcases hc with h14 | h16
    · refine ⟨a + 1, b, by simp only [List.length_cons]; omega, ?_, ?_, ?_, ?_⟩
      · rw [TrxconIf.maText_cons, List.length_append, h14, hlen]; omega
      · simp only [List.filter_cons, h14, beq_self_eq_true, if_true, List.length_cons, hcnt]
      · rw [TrxconIf.maText_cons, List.length_append, h14, hlen]; omega
      · intro h; omega
    · refine ⟨a, b + 1, by simp only [List.length_cons]; omega, ?_, ?_, ?_, ?_⟩
      · rw [TrxconIf.maText_cons, List.length_append, h16, hlen]; omega
      · have : ((TrxconIf.pairOf c).length == 14) = false := by rw [h16]; rfl
        simp only [List.filter_cons, this, Bool.false_eq_true, if_false, hcnt]
      · rw [TrxconIf.maText_cons, List.length_append, h16, hlen]; omega
      · intro h
        rw [TrxconIf.maText_cons, List.length_append, h16, hlen]
        simp only [List.length_cons]; omega

/-- **`chain_setfh`.** For every cell allocation and Mobile Allocation IE of the domain whose text
fits, every HSN/MAIO: the MS side ends in exactly one TRXC datagram, `CMD SETFH hsn maio rx1 tx1 … rxN
txN\0`, N = number of decoded channels, (rx_i, tx_i) = 100·gsm_arfcn2freq10(decoded_i) in kHz, in the
decoded order. -/
theorem chain_setfh (freq ie pad : List Nat) (pcs : Bool) (freqMap ma0 : List Nat) (hsn maio : Nat)
    (hd : Dom freq ie pcs freqMap) (h0 : ma0.length = 64) (hh : hsn < 64) (hm : maio < 64)
    (hfit : Fits pcs freq ie) :
    ∃ msg, msPath freq (ie.length :: ie ++ pad) pcs freqMap ma0 hsn maio = .ok (.sent (band pcs freq ie) msg) ∧
      trxconPath msg = .ok (0, [setfhDatagram hsn maio (band pcs freq ie)]) ∧
      (band pcs freq ie).length = (decoded freq ie).length ∧
      (setfhDatagram hsn maio (band pcs freq ie)).length ≤ 1016 := by
  have hms := (chain_ms_side freq ie pad pcs freqMap ma0 hsn maio hd h0 (by omega) (by omega)).2
  obtain ⟨hf, hl1, hl8, hne, hval, hsup⟩ := hd
  obtain ⟨hbl, hbu⟩ := band_facts pcs freq ie
  have hbne : band pcs freq ie ≠ [] := by
    intro e; apply hne; have := congrArg List.length e; rw [hbl] at this; exact List.eq_nil_of_length_eq_zero this
  have hbv : ∀ b ∈ band pcs freq ie, TrxconIf.ValidArfcn b := by
    intro b hb; obtain ⟨a, ha, rfl⟩ := List.mem_map.mp hb; exact hval a ha
  obtain ⟨ht, hlen⟩ := chain_trxcon_side hsn maio (band pcs freq ie) (by omega) (by omega) hbne
    (by rw [hbl]; exact (decoded_facts freq ie).1 hl8) (fun b hb => (hbu b hb).2) hbv hfit
  exact ⟨_, hms, ht, hbl, hlen⟩

/-- The statement without the `Fits` premise: every legal allocation (up to 64 channels of the bands
`gsm_arfcn2freq10` defines) reaches the simulator. -/
def chain_setfh_full : Prop :=
  ∀ (freq ie pad : List Nat) (pcs : Bool) (freqMap ma0 : List Nat) (hsn maio : Nat),
    Dom freq ie pcs freqMap → ma0.length = 64 → hsn < 64 → maio < 64 →
    ∃ msg, msPath freq (ie.length :: ie ++ pad) pcs freqMap ma0 hsn maio = .ok (.sent (band pcs freq ie) msg) ∧
      trxconPath msg = .ok (0, [setfhDatagram hsn maio (band pcs freq ie)])

/-- the witness: DCS 1800, cell allocation 512..574, Mobile Allocation selecting all 63 channels -/
def dcs63Freq : List Nat := mkFreq fun a => 512 ≤ a && a ≤ 574
def dcs63Ie : List Nat := [0x7f, 0xff, 0xff, 0xff, 0xff, 0xff, 0xff, 0xff]

theorem dcs63_decoded : decoded dcs63Freq dcs63Ie = List.range' 512 63 := by
  simp only [decoded, dcs63Freq, servAt_mkFreq]
  decide +kernel

/-- **It is false on the current tree**: 63 (or 64) DCS 1800 / PCS 1900 channels are a legal Mobile
Allocation, but their text needs 63·16 = 1008 > 999 characters: trxcon answers `-ENOSPC`, no SETFH is
sent. -/
theorem chain_setfh_full_fails : ¬ chain_setfh_full := by
  intro h
  have hdec := dcs63_decoded
  have hband : band false dcs63Freq dcs63Ie = List.range' 512 63 := by
    simp only [band, hdec]; decide +kernel
  have hdom : Dom dcs63Freq dcs63Ie false (List.replicate 166 255) := by
    refine ⟨mkFreq_length _, by decide, by decide, ?_, ?_, ?_⟩
    · rw [hdec]; decide
    · rw [hdec]; decide +kernel
    · rw [hdec]; decide +kernel
  obtain ⟨msg, h1, h2⟩ := h dcs63Freq dcs63Ie [] false (List.replicate 166 255) (List.replicate 64 0) 0 0 hdom
    (by decide) (by decide) (by decide)
  have hms := (chain_ms_side dcs63Freq dcs63Ie [] false (List.replicate 166 255) (List.replicate 64 0) 0 0 hdom
    (by decide) (by decide) (by decide)).2
  rw [hms] at h1
  have hmsg : msg = l1ctlMsg 0 0 (band false dcs63Freq dcs63Ie) := by
    simp only [Except.ok.injEq, MsOut.sent.injEq] at h1; exact h1.2.symm
  rw [hmsg, hband] at h2
  have hno := chain_setfh_enospc 0 0 (List.range' 512 63) (by decide) (by decide) (by decide +kernel)
    (by decide +kernel) (by decide +kernel)
  rw [hno] at h2
  simp only [Except.ok.injEq, Prod.mk.injEq] at h2
  exact absurd h2.1 (by decide)

/-! ### fake_trx: the datagram → `HoppingParams` -/

/-- **`chain_fake_trx`.** The world model's handling of that very datagram (sent by the L1 peer of
transceiver `i`): it stores `HoppingParams(hsn, maio, [(rx_i·1000, tx_i·1000)])` — the Hz pairs of the
channels of the list, same number, same order, not sorted, not cut — and answers
`RSP SETFH 0 hsn maio rx1 tx1 …\0` to the sender. -/
theorem chain_fake_trx (w : World.World) (i : Nat) (t : World.Trx) (ht : w.trxs[i]? = some t)
    (hsn maio : Nat) (chans : List Nat) (hh : hsn < 64) (hne : chans ≠ [])
    (hlen : (setfhDatagram hsn maio chans).length ≤ 1016) :
    fakeTrxPath w i (setfhDatagram hsn maio chans) =
      { world := World.setTrx w i (fun t => { t with
          fh := some (Hopping.HoppingParams.mk (hsn : Int) (maio : Int) (chans.map hzPair) (Hopping.powNbinMask chans.length)) }),
        out := [⟨t.ctrlPort, t.addr, t.ctrlRemote, setfhReply hsn maio chans⟩] } := by
  have hrecv : (1016 : Nat) ≤ Gen.World.ctrlRecvSize := by decide
  have hne' : chans.map khzPair ≠ [] := by simpa using hne
  have := handleRx_setfh w i t.addr t.ctrlRemote t ht hsn maio hh (chans.map khzPair) hne'
    (by simp only [setfhDatagram] at hlen; omega)
  simp only [fakeTrxPath, ht, setfhDatagram, this, List.map_map, List.length_map, setfhReply]
  rfl

/-! ### per frame: both sides on the same channel -/

/-- **`chain_channel`.** After the SETFH of `chain_fake_trx`, in every frame `fn` of the hyperframe:
fake_trx's `get_rx_freq(fn)` / `get_tx_freq(fn)` are the Hz pair of the channel `v` that TS 45.002
§6.2.3 selects from the list (`Spec.Hopping.select`: `v = chans[MAI]`), and the firmware, configured
by the same L1CTL message, tunes to ARFCN `v` in that frame. -/
theorem chain_channel (w : World.World) (i : Nat) (t : World.Trx) (ht : w.trxs[i]? = some t)
    (hsn maio : Nat) (chans : List Nat) (hh : hsn < 64) (hm : maio < 64) (hne : chans ≠ [])
    (hN : chans.length ≤ 64) (hu : ∀ b ∈ chans, b < 65536 ∧ u16 b = b)
    (hlen : (setfhDatagram hsn maio chans).length ≤ 1016) (fn : Nat) (hfn : fn < 2715648) :
    ∃ v t', Spec.Hopping.select chans hsn maio fn = some v ∧
      (fakeTrxPath w i (setfhDatagram hsn maio chans)).world.trxs[i]? = some t' ∧
      t'.getRxFreq fn = .ok (some (hzPair v).1) ∧ t'.getTxFreq fn = .ok (some (hzPair v).2) ∧
      fwPath (l1ctlMsg hsn maio chans) fn = .ok (.ok v) := by
  have hpos : 1 ≤ chans.length := List.length_pos_iff.mpr hne
  rw [chain_fake_trx w i t ht hsn maio chans hh hne hlen]
  -- the firmware's copy of the message
  have hcap : Gen.fwMaCapacity = 64 := C07.fw_layout.2
  have hnt := ntohsLoop_ok .fwMa chans [] (List.replicate (128 - 2 * chans.length) 0) [] (List.replicate 64 0)
    rfl (by simp only [List.length_replicate]; omega)
  simp only [List.nil_append, List.length_nil, List.drop_replicate] at hnt
  have hmap : chans.map u16 = chans := by
    conv => rhs; rw [← List.map_id chans]
    exact List.map_congr_left (fun b hb => (hu b hb).2)
  rw [hmap] at hnt
  have hfw : fwPath (l1ctlMsg hsn maio chans) fn =
      .ok (Hopping.fwHop hsn maio chans.length (chans ++ List.replicate (64 - chans.length) 0) fn) := by
    simp only [fwPath, fwDmEstReqH1, hcap, l1ctlMsg, hnt, bind, Except.bind, pure, Except.pure, Hopping.fwHop]
  -- simulator and firmware by TS 45.002 (C07)
  obtain ⟨v, hs, hfwv⟩ := C07.fw_hop_spec hsn maio fn chans (List.replicate (64 - chans.length) 0) hh hm hpos hN
    (by
      intro a ha
      rcases List.mem_append.mp ha with h | h
      · exact (hu a h).1
      · rw [List.mem_replicate] at h; omega) hfn
  obtain ⟨v', hfwv', hpy⟩ := C07.py_eq_fw hzPair hsn maio fn chans (List.replicate (64 - chans.length) 0) hh hm hpos hN
    (by
      intro a ha
      rcases List.mem_append.mp ha with h | h
      · exact (hu a h).1
      · rw [List.mem_replicate] at h; omega) hfn
  have hvv : v' = v := by rw [hfwv] at hfwv'; exact (Except.ok.inj hfwv').symm
  subst hvv
  have hn0 : (chans.map hzPair).length ≠ 0 := by simp only [List.length_map]; omega
  simp only [Hopping.pyResolve, Hopping.pyInit_ok hsn (maio : Int) (chans.map hzPair) hh hn0, List.length_map] at hpy
  refine ⟨v', { t with fh := some (Hopping.HoppingParams.mk (hsn : Int) (maio : Int) (chans.map hzPair) (Hopping.powNbinMask chans.length)) },
    hs, ?_, ?_, ?_, ?_⟩
  · simp only [World.setTrx_getElem?, if_true, ht, Option.map_some]
  · simp only [World.Trx.getRxFreq, World.Trx.hop, Hopping.Trx.getRxFreq, hpy]
  · simp only [World.Trx.getTxFreq, World.Trx.hop, Hopping.Trx.getTxFreq, hpy]
  · rw [hfw, hfwv]

/-- the channel TS 45.002 selects from a list mapped channel by channel is the image of the channel
it selects from the list (the MAI depends on the length only) -/
theorem select_map {α β : Type} (f : α → β) (l : List α) (hsn maio fn : Nat) :
    Spec.Hopping.select (l.map f) hsn maio fn = (Spec.Hopping.select l hsn maio fn).map f := by
  simp only [Spec.Hopping.select, List.length_map]
  cases Spec.Hopping.mai hsn maio l.length fn with
  | none => rfl
  | some i => simp only [List.getElem?_map]

/-- **End to end.** For every cell allocation and Mobile Allocation IE of the domain (text fitting
trxcon's buffer), every HSN/MAIO 0..63 and every frame of the hyperframe: the MS side sends one
L1CTL message and trxcon one `CMD SETFH` datagram; fake_trx answers `RSP SETFH 0 …` and from then on
its Rx/Tx frequency in frame `fn` is the pair of the channel `v` = decoded[MAI] that TS 45.002 §6.2.3
selects from the DECODED list (order of TS 44.018), while the firmware, fed with the same L1CTL message,
tunes to that very ARFCN: MS and simulated BTS meet on the same channel in every frame. -/
theorem chain_end_to_end (freq ie pad : List Nat) (pcs : Bool) (freqMap ma0 : List Nat) (hsn maio : Nat)
    (hd : Dom freq ie pcs freqMap) (h0 : ma0.length = 64) (hh : hsn < 64) (hm : maio < 64)
    (hfit : Fits pcs freq ie)
    (w : World.World) (i : Nat) (t : World.Trx) (ht : w.trxs[i]? = some t) (fn : Nat) (hfn : fn < 2715648) :
    ∃ msg dgram v t',
      msPath freq (ie.length :: ie ++ pad) pcs freqMap ma0 hsn maio = .ok (.sent (band pcs freq ie) msg) ∧
      trxconPath msg = .ok (0, [dgram]) ∧ dgram = setfhDatagram hsn maio (band pcs freq ie) ∧
      (fakeTrxPath w i dgram).out = [⟨t.ctrlPort, t.addr, t.ctrlRemote, setfhReply hsn maio (band pcs freq ie)⟩] ∧
      (fakeTrxPath w i dgram).world.trxs[i]? = some t' ∧
      Spec.Hopping.select (decoded freq ie) hsn maio fn = some v ∧
      t'.getRxFreq fn = .ok (some (hzPair (toBand pcs v)).1) ∧
      t'.getTxFreq fn = .ok (some (hzPair (toBand pcs v)).2) ∧
      fwPath msg fn = .ok (.ok (toBand pcs v)) := by
  have hms := (chain_ms_side freq ie pad pcs freqMap ma0 hsn maio hd h0 (by omega) (by omega)).2
  obtain ⟨msg, h1, h2, hbl, hlen⟩ := chain_setfh freq ie pad pcs freqMap ma0 hsn maio hd h0 hh hm hfit
  have hmsg : msg = l1ctlMsg hsn maio (band pcs freq ie) := by
    rw [hms] at h1
    simp only [Except.ok.injEq, MsOut.sent.injEq] at h1; exact h1.2.symm
  obtain ⟨hf, hl1, hl8, hne, hval, hsup⟩ := hd
  obtain ⟨_, hbu⟩ := band_facts pcs freq ie
  have hbne : band pcs freq ie ≠ [] := by
    intro e; apply hne; have := congrArg List.length e; rw [hbl] at this; exact List.eq_nil_of_length_eq_zero this
  have hN : (band pcs freq ie).length ≤ 64 := by rw [hbl]; exact (decoded_facts freq ie).1 hl8
  obtain ⟨vb, t', hs, htr, hrx, htx, hfw⟩ := chain_channel w i t ht hsn maio (band pcs freq ie) hh hm hbne hN hbu hlen fn hfn
  have hsel : Spec.Hopping.select (band pcs freq ie) hsn maio fn
      = (Spec.Hopping.select (decoded freq ie) hsn maio fn).map (toBand pcs) := select_map _ _ _ _ _
  rw [hsel] at hs
  cases hv : Spec.Hopping.select (decoded freq ie) hsn maio fn with
  | none => rw [hv] at hs; cases hs
  | some v =>
    rw [hv] at hs
    simp only [Option.map_some, Option.some.injEq] at hs
    subst hs
    refine ⟨msg, _, v, t', h1, h2, rfl, ?_, htr, rfl, hrx, htx, ?_⟩
    · rw [chain_fake_trx w i t ht hsn maio (band pcs freq ie) hh hbne hlen]
    · rw [hmsg]; exact hfw

/-- **`chain_injective`.** Distinct channels of the decoded list have distinct frequency pairs
(already distinct Rx frequencies), so on the simulated air interface "same frequency" is "same
channel": entries `j`, `k` of the stored mobile allocation are equal iff `j = k`. -/
theorem chain_injective (freq ie : List Nat) (pcs : Bool)
    (hval : ∀ a ∈ decoded freq ie, TrxconIf.ValidArfcn (toBand pcs a)) (j k : Nat)
    (hj : j < (band pcs freq ie).length) (hk : k < (band pcs freq ie).length) :
    (hzPair (band pcs freq ie)[j] = hzPair (band pcs freq ie)[k] ↔ j = k) ∧
    ((hzPair (band pcs freq ie)[j]).1 = (hzPair (band pcs freq ie)[k]).1 ↔ j = k) := by
  obtain ⟨_, hord, hlt⟩ := decoded_facts freq ie
  have hjl : j < (decoded freq ie).length := by simpa only [band, List.length_map] using hj
  have hkl : k < (decoded freq ie).length := by simpa only [band, List.length_map] using hk
  have key : (hzPair (band pcs freq ie)[j]).1 = (hzPair (band pcs freq ie)[k]).1 → j = k := by
    intro h
    have ej : (band pcs freq ie)[j] = toBand pcs (decoded freq ie)[j] := by simp only [band, List.getElem_map]
    have ek : (band pcs freq ie)[k] = toBand pcs (decoded freq ie)[k] := by simp only [band, List.getElem_map]
    have haj := List.getElem_mem hjl
    have hak := List.getElem_mem hkl
    have h10 : TrxconIf.arfcn2freq10 (band pcs freq ie)[j] false = TrxconIf.arfcn2freq10 (band pcs freq ie)[k] false := by
      simp only [hzPair, khzPair] at h; omega
    rw [ej, ek] at h10
    have hb := rx_inj _ _ (canon_of_valid pcs _ (hlt _ haj) (hval _ haj)) (canon_of_valid pcs _ (hlt _ hak) (hval _ hak)) h10
    have hd := toBand_inj pcs _ _ (hlt _ haj) (hlt _ hak) hb
    -- the decoded list has no repetitions (strictly ordered by the rank of the standard)
    have hpw := List.pairwise_iff_getElem.mp hord
    rcases Nat.lt_trichotomy j k with hlt' | heq | hgt
    · have := hpw j k hjl hkl hlt'; rw [hd] at this; exact absurd this (Nat.lt_irrefl _)
    · exact heq
    · have := hpw k j hkl hjl hgt; rw [hd] at this; exact absurd this (Nat.lt_irrefl _)
  refine ⟨⟨fun h => key (congrArg Prod.fst h), fun h => by subst h; rfl⟩, ⟨key, fun h => by subst h; rfl⟩⟩

/-! ### the order is the order of TS 44.018, not the order of the frequencies -/

/-- **Order.** The list the simulator hops over is the decoded list itself: ascending ARFCN with ARFCN 0
LAST (TS 44.018 §10.5.2.21), mapped channel by channel to frequency pairs.  Nobody on the way sorts
it — and nobody may: the comment "expected to be sorted in ascending order" in trx_if.c cannot mean
frequency order, see the example below. -/
theorem chain_order (freq ie : List Nat) (pcs : Bool) :
    Ordered (decoded freq ie) ∧ band pcs freq ie = (decoded freq ie).map (toBand pcs) ∧
    (band pcs freq ie).map hzPair = (decoded freq ie).map (fun a => hzPair (toBand pcs a)) :=
  ⟨(decoded_facts freq ie).2.1, rfl, by simp only [band, List.map_map]; rfl⟩

/-! ### non-vacuity and the pinned examples -/

/-- E-GSM cell allocation {0, 10, 975}, all three selected: the decoded list is [10, 975, 0] — ARFCN 0
is LAST although it is neither the lowest nor the highest frequency — and the Rx frequencies in list
order are 937.0, 925.2, 935.0 MHz: list order ≠ frequency order; a simulator that sorted the list
would hop over [925.2, 935.0, 937.0] and meet the phone in one frame out of three at best. -/
example :
    decoded (mkFreq [0, 10, 975].contains) [0x07] = [10, 975, 0] ∧
    (band false (mkFreq [0, 10, 975].contains) [0x07]).map hzPair =
      [(937000000, 892000000), (925200000, 880200000), (935000000, 890000000)] ∧
    ¬ ((band false (mkFreq [0, 10, 975].contains) [0x07]).map (fun b => (hzPair b).1)).Pairwise (· < ·) := by
  have h : decoded (mkFreq [0, 10, 975].contains) [0x07] = [10, 975, 0] := by
    simp only [decoded, servAt_mkFreq]; decide +kernel
  refine ⟨h, ?_, ?_⟩
  · simp only [band, h]; decide +kernel
  · simp only [band, h]; decide +kernel

/-- the hypotheses are satisfiable, and the whole chain evaluates (kernel) on that input: the datagram
text, the reply, one frame -/
example : Dom (mkFreq [0, 10, 975].contains) [0x07] false (List.replicate 166 255) ∧ Fits false (mkFreq [0, 10, 975].contains) [0x07] := by
  have h : decoded (mkFreq [0, 10, 975].contains) [0x07] = [10, 975, 0] := by
    simp only [decoded, servAt_mkFreq]; decide +kernel
  refine ⟨⟨mkFreq_length _, by decide, by decide, ?_, ?_, ?_⟩, ?_⟩
  · rw [h]; decide
  · rw [h]; decide +kernel
  · rw [h]; decide +kernel
  · simp only [Fits, band, h]; decide +kernel

example : setfhDatagram 5 1 [10, 975, 0] =
    PyStr.lit "CMD SETFH 5 1 937000 892000 925200 880200 935000 890000" ++ [0] := by decide +kernel

example : trxconPath (l1ctlMsg 5 1 [10, 975, 0]) = .ok (0, [setfhDatagram 5 1 [10, 975, 0]]) := by decide +kernel

/-- 64 E-GSM channels (975..1023, 0, 1..14) fit; PCS 1900: the flag is set on 512..810 only when the
cell refers to PCS, and 62 channels fit, 63 do not -/
example : (TrxconIf.maText ((List.range' 1 14 ++ List.range' 975 49 ++ [0]).map (toBand false))).length = 896 ∧
    (List.range' 512 3).map (toBand true) = [33280, 33281, 33282] ∧
    (List.range' 512 3).map (toBand false) = [512, 513, 514] ∧
    (TrxconIf.maText ((List.range' 512 62).map (toBand true))).length = 992 ∧
    (TrxconIf.maText ((List.range' 512 63).map (toBand true))).length = 1008 := by decide +kernel

/-- the faults of the glue are reachable when a premise is dropped: a `ma_len` above the array on the
sending side, an `n` above the array accepted by the firmware's copy loop (trxcon checks it) -/
example :
    l1ctlTxDmEstReqH1 0 0 (List.replicate 64 7) 65 = .error (.oobRead .ma 64) ∧
    trxconProcEstReqH1 ⟨0, 0, 65, List.replicate 128 0⟩ = .ok (.error (-22)) ∧
    trxconProcEstReqH1 ⟨0, 0, 0, List.replicate 128 0⟩ = .ok (.error (-22)) ∧
    (match fwDmEstReqH1 ⟨0, 0, 65, List.replicate 128 0⟩ (List.replicate 64 0) with
      | .error e => some e | .ok _ => none) = some (.oobRead .l1ctlMa 128) := by
  decide +kernel

end OsmoVerif.Props.C20Chain
