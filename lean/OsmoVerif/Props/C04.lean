/-
C04 — TRXD octets follow the protocol layout; Python and trxcon (C) agree.
The layout-level theorems are in Props/C04Py (Python codec = Spec.TrxdLayout, both directions,
versions 0 and 1) and Props/Trxcon (trxcon decodes / emits Spec.TrxdLayout).  This file composes
them into the cross-implementation statements of the property: every version-0 burst the toolkit
sends towards L1 is decoded by trxcon to the same frame, timeslot, RSSI, ToA and soft bits, and every
burst trxcon emits is parsed by the toolkit to the values trxcon was given.
-/
import OsmoVerif.Props.C04Py
import OsmoVerif.Props.C13
import OsmoVerif.Props.C01
import OsmoVerif.Props.Trxcon

namespace OsmoVerif.Props.C04
open OsmoVerif OsmoVerif.Trxd OsmoVerif.Spec.TrxdRanges OsmoVerif.Spec.TrxdLayout OsmoVerif.TrxconIf

/-- Every valid version-0 Rx message (soft bits in −127..127), with or without legacy padding: the
octets the Python encoder produces are decoded by trxcon's `trx_data_rx_cb` to a burst indication
with exactly the message's frame number, timeslot, RSSI, ToA256 and soft bits. -/
theorem trxcon_decodes_py (m : RxMsg) (legacy : Bool) (adv : Nat)
    (hv : m.validate = .ok ()) (hw : m.WellTyped) (h0 : m.ver = 0)
    (hs : ∀ b ∈ m.burst, ∀ s ∈ b, -127 ≤ s ∧ s ≤ 127) :
    ∃ (octets : Bytes) (fn tn : Nat) (rssi toa : Int) (soft : List Int),
      m.genMsg legacy = .ok octets ∧
      m.fn = some (fn : Int) ∧ m.tn = some (tn : Int) ∧ m.rssi = some rssi ∧ m.toa256 = some toa ∧
      m.burst = some soft ∧
      cRx octets adv = .ind ⟨tn, fn, rssi, toa, soft⟩ ⟨TrxconIf.u32 (fn + TrxconIf.u32 adv) % 2715648, tn⟩ := by
  obtain ⟨f, hf, hg⟩ := C04Py.gen_eq_layout_rx m legacy hv hw
  obtain ⟨ev, efn, etn, erssi, etoa, eburst, -⟩ := C04Py.fields_rx_spec m f hf
  have hin := (C13.validate_rx_iff m).mp hv
  obtain ⟨-, hfn, htn, hr, ht, hb0, -⟩ := hin
  rw [efn] at hfn; rw [etn] at htn; rw [erssi] at hr; rw [etoa] at ht
  simp only [within] at hfn htn hr ht
  have hbl := hb0 h0
  cases hbs : m.burst with
  | none => rw [hbs] at hbl; exact absurd hbl (by simp [burstLen148or444])
  | some soft =>
    rw [hbs] at hbl
    simp only [burstLen148or444] at hbl
    have hfv : f.ver = 0 := by
      have : (f.ver : Int) = 0 := by rw [← ev]; exact h0
      exact_mod_cast this
    have hfs : f.soft = some soft := by rw [← eburst, hbs]
    have hsr : ∀ s ∈ soft, -127 ≤ s ∧ s ≤ 127 := hs soft (by rw [hbs]; exact rfl)
    refine ⟨_, f.fn, f.tn, f.rssi, f.toa256, soft, hg, efn, etn, erssi, etoa, rfl, ?_⟩
    exact Trxcon.trxcon_decodes_layout f legacy soft adv hfv hfs (by omega) (by omega)
      ⟨by omega, by omega⟩ ht hbl hsr

/-- Every burst request trxcon transmits (TN 0..7, any 32-bit FN, attenuation octet, 148 or 444 hard
bits): the octets `trx_if_handle_phyif_burst_req` passes to `send()` are parsed by the toolkit's
`TxMsg.parse_msg` to exactly the values trxcon was given (version 0). -/
theorem py_parses_trxcon (tn fn pwr : Nat) (bits : List Nat)
    (htn : tn < 8) (hfn : fn < 4294967296) (hp : pwr < 256)
    (hl : bits.length = 148 ∨ bits.length = 444) :
    ∃ octets, cTx ⟨tn, fn, pwr, bits, bits.length⟩ = .sent 0 octets ∧
      TxMsg.parseMsg octets = .ok ⟨0, some (fn : Int), some (tn : Int), some (pwr : Int), some bits⟩ := by
  refine ⟨_, Trxcon.trxcon_emits_layout tn fn pwr bits htn hfn hp (by omega), ?_⟩
  exact TxMsg.parse_layout ⟨0, fn, tn, pwr, bits⟩ false (by show (0:Nat) < 2; omega) htn hfn hl

/-- … and what the toolkit parsed is a valid message exactly when the frame number is inside the
hyperframe and every bit octet is a bit (it then round-trips through the Python encoder, C01). -/
theorem py_parses_trxcon_valid (tn fn pwr : Nat) (bits : List Nat)
    (htn : tn < 8) (hfn : fn < 2715648) (hp : pwr < 256)
    (hl : bits.length = 148 ∨ bits.length = 444) :
    (⟨0, some (fn : Int), some (tn : Int), some (pwr : Int), some bits⟩ : TxMsg).validate = .ok () := by
  rw [C13.validate_tx_iff]
  refine ⟨Or.inl rfl, ?_, ?_, ?_, ?_⟩ <;> simp only [within, burstLen148or444] <;> first | omega | exact hl

/-- a concrete valid v0 Rx message at the range boundaries -/
def exRx : RxMsg :=
  { RxMsg.fresh with
    fn := some 2715647
    tn := some 7
    rssi := some (-120)
    toa256 := some (-32768)
    burst := some (List.replicate 148 (-127)) }

/-- non-vacuity: the hypotheses of `trxcon_decodes_py` are satisfiable -/
example : exRx.validate = .ok () ∧ exRx.WellTyped ∧ exRx.ver = 0 ∧
    (∀ b ∈ exRx.burst, ∀ s ∈ b, -127 ≤ s ∧ s ≤ 127) := by decide +kernel

end OsmoVerif.Props.C04
