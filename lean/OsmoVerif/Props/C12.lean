/-
C12 — Power state, child transceivers and clock distribution stay consistent.
Property theorems only; model: `OsmoVerif.Model.World` (transceiver.py power_event_handler,
ctrl_if_trx.py POWERON/POWEROFF, fake_trx.py Application wiring, clck_gen.py as flags),
spec definitions: `OsmoVerif.Spec.WorldPower`, lemmas: `OsmoVerif.Lemmas.World{Power,Wiring,Inv}`.
-/
import OsmoVerif.Lemmas.WorldInv

namespace OsmoVerif.Props.C12
open OsmoVerif OsmoVerif.World OsmoVerif.PyStr OsmoVerif.WorldPower

/-! ### 1. wiring -/

/-- `Application.__init__` produces a well-wired application in its initial state. -/
theorem wiring_wf {seed : Nat} {extra : List (Nat × Nat × Nat)} {w : World}
    (h : build seed extra = .ok w) : WF w ∧ Initial w :=
  build_wf h

/-- No operation whatsoever changes the wiring. -/
theorem wf_step {w : World} (h : WF w) (op : Op) : WF (step w op).world :=
  h.step op

theorem wf_run {w : World} (h : WF w) (ops : List Op) : WF (run w ops).1 := by
  induction ops generalizing w with
  | nil => exact h
  | cons op ops ih => rw [run_cons_world]; exact ih (h.step op)

/-! ### 2. one step -/

/-- Effect of any operation on the power state of any transceiver `k` (no hypothesis on the world):
an accepted POWERON addressed to `j` switches on `j` and, when `j` manages them, its children;
a POWEROFF addressed to `j` switches the same set off; nothing else changes any `running` flag. -/
theorem power_step (w : World) (op : Op) (k : Nat) :
    runningOf (step w op).world k =
      match powerCmd op with
      | some (j, true) =>
        if accepted w j && affects w j k then (runningOf w k).map (fun _ => true) else runningOf w k
      | some (j, false) =>
        if affects w j k then (runningOf w k).map (fun _ => false) else runningOf w k
      | none => runningOf w k := by
  rcases step_world_cases w op with ⟨hp, f⟩ | ⟨j, on, hp, hw, h⟩ | ⟨j, t, hp, hw, ha, h⟩ |
      ⟨j, t, hp, hw, ha, h⟩ | ⟨j, t, hp, hw, h⟩
  · rw [hp]; exact f.runningOf k
  · rw [hp, h]
    have hacc : accepted w j = false := by simp only [accepted, hw]
    cases on with
    | true => simp only [hacc, Bool.false_and, Bool.false_eq_true, if_false]
    | false =>
      simp only []
      split
      next haf =>
        have : k = j := by simpa [affects, hw] using haf
        subst this
        simp only [runningOf, hw, Option.map_none]
      · rfl
  · rw [hp, h]; simp only [ha, Bool.false_and, Bool.false_eq_true, if_false]
  · rw [hp, h, runningOf_powerWorld hw]; simp only [ha, Bool.true_and]
  · rw [hp, h, runningOf_powerWorld hw]

/-- Every operation that is not a POWERON/POWEROFF command (any other command, malformed or
undecodable control datagrams, data datagrams, ticks, jumps) leaves every `running` flag alone. -/
theorem other_ops_keep_power (w : World) (op : Op) (h : powerCmd op = none) (k : Nat) :
    runningOf (step w op).world k = runningOf w k := by
  rw [power_step, h]

/-- The acceptance of POWERON is visible in the (single) reply datagram. -/
theorem poweron_reply {w : World} {op : Op} {j : Nat} {t : Trx} (h : powerCmd op = some (j, true))
    (hw : w.trxs[j]? = some t) :
    ∃ sp d, op = .ctrl j sp d ∧ (step w op).exc = none ∧ (step w op).out =
      [⟨t.ctrlPort, t.addr, sp, if accepted w j then rspPowerOnOk else rspPowerOnFail⟩] := by
  obtain ⟨sp, d, ho, hs⟩ := step_poweron h hw
  refine ⟨sp, d, ho, ?_⟩
  rw [hs]
  cases accepted w j <;> exact ⟨rfl, rfl⟩

/-- POWEROFF is always answered `RSP POWEROFF 0`. -/
theorem poweroff_reply {w : World} {op : Op} {j : Nat} {t : Trx} (h : powerCmd op = some (j, false))
    (hw : w.trxs[j]? = some t) :
    ∃ sp d, op = .ctrl j sp d ∧ (step w op).exc = none ∧ (step w op).out =
      [⟨t.ctrlPort, t.addr, sp, rspPowerOffOk⟩] := by
  obtain ⟨sp, d, ho, hs⟩ := step_poweroff h hw
  exact ⟨sp, d, ho, by rw [hs], by rw [hs]⟩

/-- the literal reply octets are the encoded protocol strings -/
theorem reply_octets :
    rspPowerOnOk = encodeUtf8 (lit "RSP POWERON 0\x00") ∧
    rspPowerOnFail = encodeUtf8 (lit "RSP POWERON -1\x00") ∧
    rspPowerOffOk = encodeUtf8 (lit "RSP POWEROFF 0\x00") := by
  decide

/-! ### 3. histories: last effective power command -/

theorem spec_step_inv {w : World} {cur : Nat → Bool}
    (h : ∀ (k : Nat) (t : Trx), w.trxs[k]? = some t → t.running = cur k) (op : Op) :
    ∀ (k : Nat) (t : Trx), (step w op).world.trxs[k]? = some t → t.running = specPowerStep w op cur k := by
  intro k t' ht'
  have hacc : ∀ j, accepted w j = (!cur j && readyOf w j) := by
    intro j
    unfold accepted readyOf
    cases hj : w.trxs[j]? with
    | none => simp
    | some t => simp only [h j t hj]
  have hk : k < w.trxs.length := by rw [← step_length w op]; exact lt_of_getElem? ht'
  obtain ⟨t, ht⟩ : ∃ t, w.trxs[k]? = some t := ⟨w.trxs[k], List.getElem?_eq_getElem hk⟩
  have hps := power_step w op k
  simp only [runningOf, ht', ht, Option.map_some] at hps
  unfold specPowerStep
  cases hp : powerCmd op with
  | none => rw [hp] at hps; simp only [Option.some.injEq] at hps; rw [hps]; exact h k t ht
  | some jo =>
    obtain ⟨j, on⟩ := jo
    rw [hp] at hps
    cases on with
    | true =>
      simp only [] at hps ⊢
      rw [← hacc j]
      split at hps <;> rename_i hc
      · rw [if_pos hc]; simpa using hps
      · rw [if_neg hc]; simp only [Option.some.injEq] at hps; rw [hps]; exact h k t ht
    | false =>
      simp only [] at hps ⊢
      split at hps <;> rename_i hc
      · rw [if_pos hc]; simpa using hps
      · rw [if_neg hc]; simp only [Option.some.injEq] at hps; rw [hps]; exact h k t ht

theorem spec_run_inv (ops : List Op) : ∀ (w : World) (cur : Nat → Bool),
    (∀ (k : Nat) (t : Trx), w.trxs[k]? = some t → t.running = cur k) →
    ∀ (k : Nat) (t : Trx), (run w ops).1.trxs[k]? = some t → t.running = specRunningFrom w cur ops k := by
  induction ops with
  | nil => intro w cur h k t ht; exact h k t ht
  | cons op ops ih =>
    intro w cur h k t ht
    rw [run_cons_world] at ht
    exact ih _ _ (spec_step_inv h op) k t ht

/-- After any history from a built application, a transceiver is running iff the last effective
power command for it (its own, or its managing parent's) was an accepted POWERON. -/
theorem running_iff_last_power {seed : Nat} {extra : List (Nat × Nat × Nat)} {w : World}
    (h : build seed extra = .ok w) (ops : List Op) (k : Nat) :
    runningOf (run w ops).1 k = if k < w.trxs.length then some (specRunning w ops k) else none := by
  obtain ⟨-, ini⟩ := wiring_wf h
  have h0 : ∀ (k : Nat) (t : Trx), w.trxs[k]? = some t → t.running = (fun _ => false) k :=
    fun k t ht => (ini.not_running k (lt_of_getElem? ht) t ht).1
  unfold runningOf
  split
  next hk =>
    have hk' : k < (run w ops).1.trxs.length := by rw [run_length]; exact hk
    rw [List.getElem?_eq_getElem hk', Option.map_some]
    exact congrArg some (spec_run_inv ops w _ h0 k _ (List.getElem?_eq_getElem hk'))
  next hk =>
    have hk' : ¬ k < (run w ops).1.trxs.length := by rw [run_length]; exact hk
    rw [List.getElem?_eq_none (by omega)]; rfl

/-! ### 4. clock links and the shared generator -/

theorem clock_links_inv {w : World} (h : Reachable w) :
    (∀ i : Nat, i ∈ w.clkLinks ↔ ∃ t, w.trxs[i]? = some t ∧ t.hasClock = true ∧ t.running = true) ∧
    w.clkLinks.Nodup :=
  ⟨(reachable_inv h).2.links_iff, (reachable_inv h).2.links_nodup⟩

theorem clock_runs_iff {w : World} (h : Reachable w) :
    (w.clkRunning = true ↔ w.clkLinks ≠ []) ∧ (w.clkRunning = true → w.clkSrc.isSome = true) :=
  ⟨(reachable_inv h).2.runs_iff, (reachable_inv h).2.src⟩

/-- the generator runs iff at least one clock-owning transceiver is running -/
theorem clock_runs_iff_owner_running {w : World} (h : Reachable w) :
    w.clkRunning = true ↔
      ∃ (i : Nat) (t : Trx), w.trxs[i]? = some t ∧ t.hasClock = true ∧ t.running = true := by
  obtain ⟨-, inv⟩ := reachable_inv h
  rw [inv.runs_iff]
  constructor
  · intro hne
    cases hl : w.clkLinks with
    | nil => exact absurd hl hne
    | cons i l =>
      have : i ∈ w.clkLinks := by rw [hl]; exact List.mem_cons_self
      obtain ⟨t, ht⟩ := (inv.links_iff i).mp this
      exact ⟨i, t, ht⟩
  · rintro ⟨i, t, ht⟩ hl
    have := (inv.links_iff i).mpr ⟨t, ht⟩
    rw [hl] at this; cases this

/-- the clock links are, up to order, the running clock owners of the application -/
theorem links_perm_owners {w : World} (h : Reachable w) :
    w.clkLinks.Perm (runningClockOwnerIdx w) := by
  obtain ⟨-, inv⟩ := reachable_inv h
  apply (List.perm_ext_iff_of_nodup inv.links_nodup
    (List.nodup_range.filter _)).mpr
  intro i
  rw [inv.links_iff]
  simp only [List.mem_filter, List.mem_range, isRunningClockOwner]
  constructor
  · rintro ⟨t, ht, h1, h2⟩
    have ht' : w.trxs[i]? = some t := ht
    exact ⟨lt_of_getElem? ht', by rw [ht']; simp [h1, h2]⟩
  · rintro ⟨-, hb⟩
    cases ht : w.trxs[i]? with
    | none => rw [ht] at hb; cases hb
    | some t =>
      rw [ht] at hb
      simp only [Bool.and_eq_true] at hb
      exact ⟨t, rfl, hb.1, hb.2⟩

/-- While the generator runs `clck_src` exists: a tick never takes the AttributeError branch
(it is the clock handler loop over the indications of the model). -/
theorem tick_no_attribute_error {w : World} (h : Reachable w) (hr : w.clkRunning = true) :
    ∃ fn, w.clkSrc = some fn ∧
      tick w = tick.go fn w (modelInds w fn) 0 (List.range w.trxs.length) := by
  obtain ⟨-, inv⟩ := reachable_inv h
  have := inv.src hr
  cases hs : w.clkSrc with
  | none => rw [hs] at this; cases this
  | some fn => exact ⟨fn, rfl, tick_eq_of_src hr hs⟩

end OsmoVerif.Props.C12
