/-
C12 — Power state, child transceivers and clock distribution stay consistent.
Property theorems only; model: `OsmoVerif.Model.World` (transceiver.py power_event_handler,
ctrl_if_trx.py POWERON/POWEROFF, fake_trx.py Application wiring, clck_gen.py as flags),
spec definitions: `OsmoVerif.Spec.WorldPower`, lemmas: `OsmoVerif.Lemmas.World{Power,Wiring,Inv}`.
-/
import OsmoVerif.Lemmas.WorldInv

namespace OsmoVerif.Props.C12
open OsmoVerif OsmoVerif.World OsmoVerif.PyStr OsmoVerif.WorldPower

/-! ### 1. wiring -/

/-- `Application.__init__` produces a well-wired application in its initial state. -/
theorem wiring_wf {seed : Nat} {extra : List (Nat × Nat × Nat)} {w : World}
    (h : build seed extra = .ok w) : WF w ∧ Initial w :=
  build_wf h

/-- No operation whatsoever changes the wiring. -/
theorem wf_step {w : World} (h : WF w) (op : Op) : WF (step w op).world :=
  h.step op

theorem wf_run {w : World} (h : WF w) (ops : List Op) : WF (run w ops).1 := by
  induction ops generalizing w with
  | nil => exact h
  | cons op ops ih => rw [run_cons_world]; exact ih (h.step op)

/-! ### 2. one step -/

/-- Effect of any operation on the power state of any transceiver `k` (no hypothesis on the world):
an accepted POWERON addressed to `j` switches on `j` and, when `j` manages them, its children;
a POWEROFF addressed to `j` switches the same set off; nothing else changes any `running` flag. -/
theorem power_step (w : World) (op : Op) (k : Nat) :
    runningOf (step w op).world k =
      match powerCmd op with
      | some (j, true) =>
        if accepted w j && affects w j k then (runningOf w k).map (fun _ => true) else runningOf w k
      | some (j, false) =>
        if affects w j k then (runningOf w k).map (fun _ => false) else runningOf w k
      | none => runningOf w k := by
  rcases step_world_cases w op with ⟨hp, f⟩ | ⟨j, on, hp, hw, h⟩ | ⟨j, t, hp, hw, ha, h⟩ |
      ⟨j, t, hp, hw, ha, h⟩ | ⟨j, t, hp, hw, h⟩
  · rw [hp]; exact f.runningOf k
  · rw [hp, h]
    have hacc : accepted w j = false := by simp only [accepted, hw]
    cases on with
    | true => simp only [hacc, Bool.false_and, Bool.false_eq_true, if_false]
    | false =>
      simp only []
      split
      next haf =>
        have : k = j := by simpa [affects, hw] using haf
        subst this
        simp only [runningOf, hw, Option.map_none]
      · rfl
  · rw [hp, h]; simp only [ha, Bool.false_and, Bool.false_eq_true, if_false]
  · rw [hp, h, runningOf_powerWorld hw]; simp only [ha, Bool.true_and]
  · rw [hp, h, runningOf_powerWorld hw]

/-- Every operation that is not a POWERON/POWEROFF command (any other command, malformed or
undecodable control datagrams, data datagrams, ticks, jumps) leaves every `running` flag alone. -/
theorem other_ops_keep_power (w : World) (op : Op) (h : powerCmd op = none) (k : Nat) :
    runningOf (step w op).world k = runningOf w k := by
  rw [power_step, h]

/-- The acceptance of POWERON is visible in the (single) reply datagram. -/
theorem poweron_reply {w : World} {op : Op} {j : Nat} {t : Trx} (h : powerCmd op = some (j, true))
    (hw : w.trxs[j]? = some t) :
    ∃ sp d, op = .ctrl j sp d ∧ (step w op).exc = none ∧ (step w op).out =
      [⟨t.ctrlPort, t.addr, sp, if accepted w j then rspPowerOnOk else rspPowerOnFail⟩] := by
  obtain ⟨sp, d, ho, hs⟩ := step_poweron h hw
  refine ⟨sp, d, ho, ?_⟩
  rw [hs]
  cases accepted w j <;> exact ⟨rfl, rfl⟩

/-- POWEROFF is always answered `RSP POWEROFF 0`. -/
theorem poweroff_reply {w : World} {op : Op} {j : Nat} {t : Trx} (h : powerCmd op = some (j, false))
    (hw : w.trxs[j]? = some t) :
    ∃ sp d, op = .ctrl j sp d ∧ (step w op).exc = none ∧ (step w op).out =
      [⟨t.ctrlPort, t.addr, sp, rspPowerOffOk⟩] := by
  obtain ⟨sp, d, ho, hs⟩ := step_poweroff h hw
  exact ⟨sp, d, ho, by rw [hs], by rw [hs]⟩

/-- the literal reply octets are the encoded protocol strings -/
theorem reply_octets :
    rspPowerOnOk = encodeUtf8 (lit "RSP POWERON 0\x00") ∧
    rspPowerOnFail = encodeUtf8 (lit "RSP POWERON -1\x00") ∧
    rspPowerOffOk = encodeUtf8 (lit "RSP POWEROFF 0\x00") := by
  decide

/-! ### 3. histories: last effective power command -/

theorem spec_step_inv {w : World} {cur : Nat → Bool}
    (h : ∀ (k : Nat) (t : Trx), w.trxs[k]? = some t → t.running = cur k) (op : Op) :
    ∀ (k : Nat) (t : Trx), (step w op).world.trxs[k]? = some t → t.running = specPowerStep w op cur k := by
  intro k t' ht'
  have hacc : ∀ j, accepted w j = (!cur j && readyOf w j) := by
    intro j
    unfold accepted readyOf
    cases hj : w.trxs[j]? with
    | none => simp
    | some t => simp only [h j t hj]
  have hk : k < w.trxs.length := by rw [← step_length w op]; exact lt_of_getElem? ht'
  obtain ⟨t, ht⟩ : ∃ t, w.trxs[k]? = some t := ⟨w.trxs[k], List.getElem?_eq_getElem hk⟩
  have hps := power_step w op k
  simp only [runningOf, ht', ht, Option.map_some] at hps
  unfold specPowerStep
  cases hp : powerCmd op with
  | none => rw [hp] at hps; simp only [Option.some.injEq] at hps; rw [hps]; exact h k t ht
  | some jo =>
    obtain ⟨j, on⟩ := jo
    rw [hp] at hps
    cases on with
    | true =>
      simp only [] at hps ⊢
      rw [← hacc j]
      split at hps <;> rename_i hc
      · rw [if_pos hc]; simpa using hps
      · rw [if_neg hc]; simp only [Option.some.injEq] at hps; rw [hps]; exact h k t ht
    | false =>
      simp only [] at hps ⊢
      split at hps <;> rename_i hc
      · rw [if_pos hc]; simpa using hps
      · rw [if_neg hc]; simp only [Option.some.injEq] at hps; rw [hps]; exact h k t ht

theorem spec_run_inv (ops : List Op) : ∀ (w : World) (cur : Nat → Bool),
    (∀ (k : Nat) (t : Trx), w.trxs[k]? = some t → t.running = cur k) →
    ∀ (k : Nat) (t : Trx), (run w ops).1.trxs[k]? = some t → t.running = specRunningFrom w cur ops k := by
  induction ops with
  | nil => intro w cur h k t ht; exact h k t ht
  | cons op ops ih =>
    intro w cur h k t ht
    rw [run_cons_world] at ht
    exact ih _ _ (spec_step_inv h op) k t ht

/-- After any history from a built application, a transceiver is running iff the last effective
power command for it (its own, or its managing parent's) was an accepted POWERON. -/
theorem running_iff_last_power {seed : Nat} {extra : List (Nat × Nat × Nat)} {w : World}
    (h : build seed extra = .ok w) (ops : List Op) (k : Nat) :
    runningOf (run w ops).1 k = if k < w.trxs.length then some (specRunning w ops k) else none := by
  obtain ⟨-, ini⟩ := wiring_wf h
  have h0 : ∀ (k : Nat) (t : Trx), w.trxs[k]? = some t → t.running = (fun _ => false) k :=
    fun k t ht => (ini.not_running k (lt_of_getElem? ht) t ht).1
  unfold runningOf
  split
  next hk =>
    have hk' : k < (run w ops).1.trxs.length := by rw [run_length]; exact hk
    rw [List.getElem?_eq_getElem hk', Option.map_some]
    exact congrArg some (spec_run_inv ops w _ h0 k _ (List.getElem?_eq_getElem hk'))
  next hk =>
    have hk' : ¬ k < (run w ops).1.trxs.length := by rw [run_length]; exact hk
    rw [List.getElem?_eq_none (by omega)]; rfl

/-! ### 4. clock links and the shared generator -/

theorem clock_links_inv {w : World} (h : Reachable w) :
    (∀ i : Nat, i ∈ w.clkLinks ↔ ∃ t, w.trxs[i]? = some t ∧ t.hasClock = true ∧ t.running = true) ∧
    w.clkLinks.Nodup :=
  ⟨(reachable_inv h).2.links_iff, (reachable_inv h).2.links_nodup⟩

theorem clock_runs_iff {w : World} (h : Reachable w) :
    (w.clkRunning = true ↔ w.clkLinks ≠ []) ∧ (w.clkRunning = true → w.clkSrc.isSome = true) :=
  ⟨(reachable_inv h).2.runs_iff, (reachable_inv h).2.src⟩

/-- the generator runs iff at least one clock-owning transceiver is running -/
theorem clock_runs_iff_owner_running {w : World} (h : Reachable w) :
    w.clkRunning = true ↔
      ∃ (i : Nat) (t : Trx), w.trxs[i]? = some t ∧ t.hasClock = true ∧ t.running = true := by
  obtain ⟨-, inv⟩ := reachable_inv h
  rw [inv.runs_iff]
  constructor
  · intro hne
    cases hl : w.clkLinks with
    | nil => exact absurd hl hne
    | cons i l =>
      have : i ∈ w.clkLinks := by rw [hl]; exact List.mem_cons_self
      obtain ⟨t, ht⟩ := (inv.links_iff i).mp this
      exact ⟨i, t, ht⟩
  · rintro ⟨i, t, ht⟩ hl
    have := (inv.links_iff i).mpr ⟨t, ht⟩
    rw [hl] at this; cases this

/-- the clock links are, up to order, the running clock owners of the application -/
theorem links_perm_owners {w : World} (h : Reachable w) :
    w.clkLinks.Perm (runningClockOwnerIdx w) := by
  obtain ⟨-, inv⟩ := reachable_inv h
  apply (List.perm_ext_iff_of_nodup inv.links_nodup
    (List.nodup_range.filter _)).mpr
  intro i
  rw [inv.links_iff]
  simp only [List.mem_filter, List.mem_range, isRunningClockOwner]
  constructor
  · rintro ⟨t, ht, h1, h2⟩
    have ht' : w.trxs[i]? = some t := ht
    exact ⟨lt_of_getElem? ht', by rw [ht']; simp [h1, h2]⟩
  · rintro ⟨-, hb⟩
    cases ht : w.trxs[i]? with
    | none => rw [ht] at hb; cases hb
    | some t =>
      rw [ht] at hb
      simp only [Bool.and_eq_true] at hb
      exact ⟨t, rfl, hb.1, hb.2⟩

/-- While the generator runs `clck_src` exists: a tick never takes the AttributeError branch
(it is the clock handler loop over the indications of the model). -/
theorem tick_no_attribute_error {w : World} (h : Reachable w) (hr : w.clkRunning = true) :
    ∃ fn, w.clkSrc = some fn ∧
      tick w = tick.go fn w (modelInds w fn) 0 (List.range w.trxs.length) := by
  obtain ⟨-, inv⟩ := reachable_inv h
  have := inv.src hr
  cases hs : w.clkSrc with
  | none => rw [hs] at this; cases this
  | some fn => exact ⟨fn, rfl, tick_eq_of_src hr hs⟩

/-! ### 5. destinations of the clock indications -/

theorem filterMap_links {w : World} (f : Trx → Dgram) (l : List Nat)
    (h : ∀ i ∈ l, ∃ t, w.trxs[i]? = some t ∧ t.hasClock = true ∧ t.running = true) :
    l.filterMap (fun i => (w.trxs[i]?).map f) = (runningClockOwners w l).map f ∧
    (runningClockOwners w l).map some = l.map (fun i => w.trxs[i]?) := by
  induction l with
  | nil => exact ⟨rfl, rfl⟩
  | cons i l ih =>
    obtain ⟨t, ht, h1, h2⟩ := h i List.mem_cons_self
    obtain ⟨ih1, ih2⟩ := ih (fun i hi => h i (List.mem_cons_of_mem _ hi))
    unfold runningClockOwners at ih1 ih2 ⊢
    simp only [List.filterMap_cons, ht, Option.map_some, h1, h2, Bool.and_self, if_true, List.map_cons,
      ih1, ih2, and_self]

/-- In a reachable world the indication list of the model is the list the property demands:
one `IND CLOCK <fn>` per clock link (= running clock owner), from its clock socket to base port
+100 of its peer, every `indPeriod` frames. -/
theorem model_inds_eq {w : World} (h : Reachable w) (fn : Nat) : modelInds w fn = clockInds w fn := by
  obtain ⟨-, inv⟩ := reachable_inv h
  unfold modelInds clockInds
  split
  · exact (filterMap_links _ _ (fun i hi => (inv.links_iff i).mp hi)).1
  · rfl

/-- the transceivers indicated to are exactly those at the clock links, one per link, in order -/
theorem owners_of_links {w : World} (h : Reachable w) :
    (runningClockOwners w w.clkLinks).map some = w.clkLinks.map (fun i => w.trxs[i]?) := by
  obtain ⟨-, inv⟩ := reachable_inv h
  exact (filterMap_links (fun t => ⟨0, 0, 0, []⟩) _ (fun i hi => (inv.links_iff i).mp hi)).2

/-- At a tick of frame `fn` the datagrams emitted are the clock indications demanded by the
property (`clockInds`: to the links of the running clock owners, none off-period), followed only
by datagrams of DATA sockets. -/
theorem ind_destinations {w : World} (h : Reachable w) {fn : Nat} (hr : w.clkRunning = true)
    (hs : w.clkSrc = some fn) :
    ∃ rest, (tick w).out = clockInds w fn ++ rest ∧ ∀ d ∈ rest, IsDataDgram w d := by
  rw [tick_eq_of_src hr hs, ← model_inds_eq h]
  obtain ⟨w1, extra, -, ho, hd, -⟩ := tick_go_post fn (List.range w.trxs.length) w (modelInds w fn) 0
  exact ⟨extra, ho, hd⟩

theorem ind_on_period (w : World) {fn : Nat} (hp : fn % Gen.World.indPeriod = 0) :
    clockInds w fn = (runningClockOwners w w.clkLinks).map
      (fun t => ⟨t.clckPort, t.addr, t.clckRemote, encodeUtf8 (lit "IND CLOCK " ++ natDigits fn ++ [0])⟩) := by
  unfold clockInds
  rw [if_pos hp]; rfl

theorem ind_off_period (w : World) {fn : Nat} (hp : fn % Gen.World.indPeriod ≠ 0) :
    clockInds w fn = [] := by
  unfold clockInds
  rw [if_neg hp]

/-- the indication period of the protocol description (every 102 frames) -/
theorem ind_period_value : Gen.World.indPeriod = 102 := by decide

/-- While the generator does not run a tick emits nothing and changes nothing. -/
theorem tick_idle {w : World} (hr : w.clkRunning = false) : tick w = { world := w } :=
  tick_not_running hr

/-! ### 6. POWEROFF forgets -/

theorem poweroff_forgets {w : World} {op : Op} {j : Nat} (h : powerCmd op = some (j, false)) {k : Nat}
    (ha : affects w j k = true) (t' : Trx) (ht' : (step w op).world.trxs[k]? = some t') :
    t'.fh = none ∧ t'.txQueue = [] ∧ t'.running = false := by
  rcases step_world_cases w op with ⟨hp, -⟩ | ⟨j', on, hp, hw, hs⟩ | ⟨j', t, hp, -⟩ |
      ⟨j', t, hp, -⟩ | ⟨j', t, hp, hw, hs⟩
  · rw [hp] at h; cases h
  · rw [hp] at h; cases h
    have : k = j := by simpa [affects, hw] using ha
    subst this
    rw [hs, hw] at ht'; cases ht'
  · rw [hp] at h; cases h
  · rw [hp] at h; cases h
  · rw [hp] at h; cases h
    rw [hs, powerWorld_getElem? hw, if_pos ha] at ht'
    cases hk : w.trxs[k]? with
    | none => rw [hk] at ht'; cases ht'
    | some t0 =>
      rw [hk] at ht'
      simp only [Option.map_some, Option.some.injEq] at ht'
      subst ht'
      exact powerSet_off t0

/-- ... and the affected transceivers exist -/
theorem poweroff_affected_exist {w : World} (wf : WF w) {j : Nat} {t : Trx} (hw : w.trxs[j]? = some t)
    (op : Op) {k : Nat} (ha : affects w j k = true) : ∃ t', (step w op).world.trxs[k]? = some t' := by
  have hk : k < w.trxs.length := by
    by_cases hkj : k = j
    · subst hkj; exact lt_of_getElem? hw
    · obtain ⟨tc, htc, -⟩ := affects_child wf hw ha hkj
      exact lt_of_getElem? htc
  rw [← step_length w op] at hk
  exact ⟨_, List.getElem?_eq_getElem hk⟩

/-! ### 7. port plan -/

/-- port plan of any transceiver record (the protocol's numbers, literally) -/
theorem port_plan_trx (t : Trx) :
    t.clckPort = t.basePort ∧ t.ctrlPort = t.basePort + 1 + 2 * t.childIdx ∧
    t.dataPort = t.basePort + 2 + 2 * t.childIdx ∧
    t.clckRemote = t.basePort + 100 ∧ t.ctrlRemote = t.basePort + 101 + 2 * t.childIdx ∧
    t.dataRemote = t.basePort + 102 + 2 * t.childIdx := by
  refine ⟨?_, ?_, ?_, ?_, ?_, ?_⟩ <;>
    simp only [Trx.clckPort, Trx.ctrlPort, Trx.dataPort, Trx.clckRemote, Trx.ctrlRemote, Trx.dataRemote] <;>
    omega

/-- local ports of two different transceivers on the same remote address / base port are distinct -/
theorem ports_distinct_wf {w : World} (wf : WF w) {i j : Nat} {ti tj : Trx} (hi : w.trxs[i]? = some ti)
    (hj : w.trxs[j]? = some tj) (hij : i ≠ j) (ha : ti.addr = tj.addr) (hb : ti.basePort = tj.basePort) :
    ti.ctrlPort ≠ tj.ctrlPort ∧ ti.dataPort ≠ tj.dataPort ∧ ti.ctrlPort ≠ tj.dataPort ∧
    ti.dataPort ≠ tj.ctrlPort ∧ ti.ctrlPort ≠ tj.clckPort ∧ ti.dataPort ≠ tj.clckPort ∧
    ¬ (ti.hasClock = true ∧ tj.hasClock = true) := by
  have hc : ti.childIdx ≠ tj.childIdx := fun hc =>
    hij (wf.distinct i (lt_of_getElem? hi) j (lt_of_getElem? hj) ti hi tj hj ha hb hc)
  have c1 := wf.clock_iff i (lt_of_getElem? hi) ti hi
  have c2 := wf.clock_iff j (lt_of_getElem? hj) tj hj
  simp only [Trx.clckPort, Trx.ctrlPort, Trx.dataPort]
  refine ⟨by omega, by omega, by omega, by omega, by omega, by omega, ?_⟩
  rintro ⟨h1, h2⟩
  exact hc ((c1.mp h1).trans (c2.mp h2).symm)

theorem port_plan {seed : Nat} {extra : List (Nat × Nat × Nat)} {w : World}
    (h : build seed extra = .ok w) :
    (∀ t ∈ w.trxs, t.clckPort = t.basePort ∧ t.ctrlPort = t.basePort + 1 + 2 * t.childIdx ∧
      t.dataPort = t.basePort + 2 + 2 * t.childIdx ∧
      t.clckRemote = t.clckPort + 100 ∧ t.ctrlRemote = t.ctrlPort + 100 ∧
      t.dataRemote = t.dataPort + 100 ∧
      t.clckPort ≠ t.ctrlPort ∧ t.clckPort ≠ t.dataPort ∧ t.ctrlPort ≠ t.dataPort) ∧
    (∃ bts ∈ w.trxs[0]?, bts.basePort = 5700 ∧ bts.childIdx = 0 ∧ bts.hasClock = true ∧
      bts.childMgt = Gen.World.btsChildMgt) ∧
    (∃ ms ∈ w.trxs[1]?, ms.basePort = 6700 ∧ ms.childIdx = 0 ∧ ms.hasClock = true ∧
      ms.childMgt = Gen.World.msChildMgt) ∧
    (∀ (i j : Nat) (ti tj : Trx), w.trxs[i]? = some ti → w.trxs[j]? = some tj → i ≠ j →
      ti.addr = tj.addr → ti.basePort = tj.basePort →
      ti.ctrlPort ≠ tj.ctrlPort ∧ ti.dataPort ≠ tj.dataPort ∧ ti.ctrlPort ≠ tj.dataPort ∧
      ti.dataPort ≠ tj.ctrlPort ∧ ti.ctrlPort ≠ tj.clckPort ∧ ti.dataPort ≠ tj.clckPort ∧
      ¬ (ti.hasClock = true ∧ tj.hasClock = true)) := by
  obtain ⟨wf, -⟩ := wiring_wf h
  refine ⟨?_, ?_, ?_, fun i j ti tj hi hj => ports_distinct_wf wf hi hj⟩
  · intro t _
    refine ⟨?_, ?_, ?_, ?_, ?_, ?_, ?_, ?_, ?_⟩ <;>
      simp only [Trx.clckPort, Trx.ctrlPort, Trx.dataPort, Trx.clckRemote, Trx.ctrlRemote, Trx.dataRemote] <;>
      omega
  · obtain ⟨t, ht, -, h2, h3, h4, h5⟩ := wf.bts
    exact ⟨t, ht, h2, h3, h5, h4⟩
  · obtain ⟨t, ht, -, h2, h3, h4, h5⟩ := wf.ms
    exact ⟨t, ht, h2, h3, h5, h4⟩

end OsmoVerif.Props.C12
