/-
C12 — Power state, child transceivers and clock distribution stay consistent.
Property theorems only; model: `OsmoVerif.Model.World` (transceiver.py power_event_handler,
ctrl_if_trx.py POWERON/POWEROFF, fake_trx.py Application wiring, clck_gen.py as flags),
spec definitions: `OsmoVerif.Spec.WorldPower`, lemmas: `OsmoVerif.Lemmas.World{Power,Wiring,Inv}`.
-/
import OsmoVerif.Lemmas.WorldInv

namespace OsmoVerif.Props.C12
open OsmoVerif OsmoVerif.World OsmoVerif.PyStr OsmoVerif.WorldPower

/-! ### 1. wiring -/

/-- `Application.__init__` produces a well-wired application in its initial state. -/
theorem wiring_wf {seed : Nat} {extra : List (Nat × Nat × Nat)} {w : World}
    (h : build seed extra = .ok w) : WF w ∧ Initial w :=
  build_wf h

/-- No operation whatsoever changes the wiring. -/
theorem wf_step {w : World} (h : WF w) (op : Op) : WF (step w op).world :=
  h.step op

theorem wf_run {w : World} (h : WF w) (ops : List Op) : WF (run w ops).1 := by
  induction ops generalizing w with
  | nil => exact h
  | cons op ops ih => rw [run_cons_world]; exact ih (h.step op)

/-! ### 2. one step -/

/-- Effect of any operation on the power state of any transceiver `k` (no hypothesis on the world):
an accepted POWERON addressed to `j` switches on `j` and, when `j` manages them, its children;
a POWEROFF addressed to `j` switches the same set off; nothing else changes any `running` flag. -/
theorem power_step (w : World) (op : Op) (k : Nat) :
    runningOf (step w op).world k =
      match powerCmd op with
      | some (j, true) =>
        if accepted w j && affects w j k then (runningOf w k).map (fun _ => true) else runningOf w k
      | some (j, false) =>
        if affects w j k then (runningOf w k).map (fun _ => false) else runningOf w k
      | none => runningOf w k :=
  runningOf_step w op k

/-- Every operation that is not a POWERON/POWEROFF command (any other command, malformed or
undecodable control datagrams, data datagrams, ticks, jumps) leaves every `running` flag alone. -/
theorem other_ops_keep_power (w : World) (op : Op) (h : powerCmd op = none) (k : Nat) :
    runningOf (step w op).world k = runningOf w k := by
  rw [power_step, h]

/-- ... nor the wiring-independent clock state: links and generator flag stay, and the wiring of
every transceiver (ports, children, clock ownership) is never changed by any operation at all. -/
theorem other_ops_keep_clock (w : World) (op : Op) (h : powerCmd op = none) :
    (step w op).world.clkLinks = w.clkLinks ∧ (step w op).world.clkRunning = w.clkRunning ∧
    (w.clkSrc.isSome = true → (step w op).world.clkSrc.isSome = true) :=
  ⟨(step_no_power h).hlinks, (step_no_power h).hclk, (step_no_power h).hsrc⟩

theorem wiring_never_changes (w : World) (op : Op) :
    (step w op).world.trxs.map wiring = w.trxs.map wiring :=
  step_wiring w op

/-- The acceptance of POWERON is visible in the (single) reply datagram. -/
theorem poweron_reply {w : World} {op : Op} {j : Nat} {t : Trx} (h : powerCmd op = some (j, true))
    (hw : w.trxs[j]? = some t) :
    ∃ sp d, op = .ctrl j sp d ∧ (step w op).exc = none ∧ (step w op).out =
      [⟨t.ctrlPort, t.addr, sp, if accepted w j then rspPowerOnOk else rspPowerOnFail⟩] := by
  obtain ⟨sp, d, ho, hs⟩ := step_poweron h hw
  refine ⟨sp, d, ho, ?_⟩
  rw [hs]
  cases accepted w j <;> exact ⟨rfl, rfl⟩

/-- POWEROFF is always answered `RSP POWEROFF 0`. -/
theorem poweroff_reply {w : World} {op : Op} {j : Nat} {t : Trx} (h : powerCmd op = some (j, false))
    (hw : w.trxs[j]? = some t) :
    ∃ sp d, op = .ctrl j sp d ∧ (step w op).exc = none ∧ (step w op).out =
      [⟨t.ctrlPort, t.addr, sp, rspPowerOffOk⟩] := by
  obtain ⟨sp, d, ho, hs⟩ := step_poweroff h hw
  exact ⟨sp, d, ho, by rw [hs], by rw [hs]⟩

/-- the literal reply octets are the encoded protocol strings -/
theorem reply_octets :
    rspPowerOnOk = encodeUtf8 (lit "RSP POWERON 0\x00") ∧
    rspPowerOnFail = encodeUtf8 (lit "RSP POWERON -1\x00") ∧
    rspPowerOffOk = encodeUtf8 (lit "RSP POWEROFF 0\x00") := by
  decide

/-! ### 3. histories: last effective power command -/

/-- After any history from a built application, a transceiver is running iff the last effective
power command for it (its own, or its managing parent's) was an accepted POWERON. -/
theorem running_iff_last_power {seed : Nat} {extra : List (Nat × Nat × Nat)} {w : World}
    (h : build seed extra = .ok w) (ops : List Op) (k : Nat) :
    runningOf (run w ops).1 k = if k < w.trxs.length then some (specRunning w ops k) else none := by
  obtain ⟨-, ini⟩ := wiring_wf h
  have h0 : ∀ (k : Nat) (t : Trx), w.trxs[k]? = some t → t.running = (fun _ => false) k :=
    fun k t ht => (ini.not_running k (lt_of_getElem? ht) t ht).1
  unfold runningOf
  split
  next hk =>
    have hk' : k < (run w ops).1.trxs.length := by rw [run_length]; exact hk
    rw [List.getElem?_eq_getElem hk', Option.map_some]
    exact congrArg some (spec_run_inv ops w _ h0 k _ (List.getElem?_eq_getElem hk'))
  next hk =>
    have hk' : ¬ k < (run w ops).1.trxs.length := by rw [run_length]; exact hk
    rw [List.getElem?_eq_none (by omega)]; rfl

/-! ### 4. clock links and the shared generator -/

/-- The clock invariant holds initially and is preserved by every operation from any well-wired
world (reachable or not). -/
theorem clock_inv_initial {w : World} (h : Initial w) : ClockInv w :=
  ClockInv.of_initial h

theorem clock_inv_step {w : World} (wf : WF w) (inv : ClockInv w) (op : Op) :
    ClockInv (step w op).world :=
  inv.step wf op

theorem clock_links_inv {w : World} (h : Reachable w) :
    (∀ i : Nat, i ∈ w.clkLinks ↔ ∃ t, w.trxs[i]? = some t ∧ t.hasClock = true ∧ t.running = true) ∧
    w.clkLinks.Nodup :=
  ⟨(reachable_inv h).2.links_iff, (reachable_inv h).2.links_nodup⟩

theorem clock_runs_iff {w : World} (h : Reachable w) :
    (w.clkRunning = true ↔ w.clkLinks ≠ []) ∧ (w.clkRunning = true → w.clkSrc.isSome = true) :=
  ⟨(reachable_inv h).2.runs_iff, (reachable_inv h).2.src⟩

/-- the generator runs iff at least one clock-owning transceiver is running -/
theorem clock_runs_iff_owner_running {w : World} (h : Reachable w) :
    w.clkRunning = true ↔
      ∃ (i : Nat) (t : Trx), w.trxs[i]? = some t ∧ t.hasClock = true ∧ t.running = true := by
  obtain ⟨-, inv⟩ := reachable_inv h
  rw [inv.runs_iff]
  constructor
  · intro hne
    cases hl : w.clkLinks with
    | nil => exact absurd hl hne
    | cons i l =>
      have : i ∈ w.clkLinks := by rw [hl]; exact List.mem_cons_self
      obtain ⟨t, ht⟩ := (inv.links_iff i).mp this
      exact ⟨i, t, ht⟩
  · rintro ⟨i, t, ht⟩ hl
    have := (inv.links_iff i).mpr ⟨t, ht⟩
    rw [hl] at this; cases this

/-- the clock links are, up to order, the running clock owners of the application -/
theorem links_perm_owners {w : World} (h : Reachable w) :
    w.clkLinks.Perm (runningClockOwnerIdx w) := by
  obtain ⟨-, inv⟩ := reachable_inv h
  apply (List.perm_ext_iff_of_nodup inv.links_nodup
    (List.nodup_range.filter _)).mpr
  intro i
  rw [inv.links_iff]
  simp only [List.mem_filter, List.mem_range, isRunningClockOwner]
  constructor
  · rintro ⟨t, ht, h1, h2⟩
    have ht' : w.trxs[i]? = some t := ht
    exact ⟨lt_of_getElem? ht', by rw [ht']; simp [h1, h2]⟩
  · rintro ⟨-, hb⟩
    cases ht : w.trxs[i]? with
    | none => rw [ht] at hb; cases hb
    | some t =>
      rw [ht] at hb
      simp only [Bool.and_eq_true] at hb
      exact ⟨t, rfl, hb.1, hb.2⟩

/-- While the generator runs `clck_src` exists: a tick never takes the AttributeError branch
(it is the clock handler loop over the indications of the model). -/
theorem tick_no_attribute_error {w : World} (h : Reachable w) (hr : w.clkRunning = true) :
    ∃ fn, w.clkSrc = some fn ∧
      tick w = tick.go fn w (modelInds w fn) 0 (List.range w.trxs.length) := by
  obtain ⟨-, inv⟩ := reachable_inv h
  have := inv.src hr
  cases hs : w.clkSrc with
  | none => rw [hs] at this; cases this
  | some fn => exact ⟨fn, rfl, tick_eq_of_src hr hs⟩

/-! ### 5. destinations of the clock indications -/

/-- In a reachable world the indication list of the model is the list the property demands:
one `IND CLOCK <fn>` per clock link (= running clock owner), from its clock socket to base port
+100 of its peer, every `indPeriod` frames. -/
theorem model_inds_eq {w : World} (h : Reachable w) (fn : Nat) : modelInds w fn = clockInds w fn := by
  obtain ⟨-, inv⟩ := reachable_inv h
  unfold modelInds clockInds
  split
  · exact (filterMap_links _ _ (fun i hi => (inv.links_iff i).mp hi)).1
  · rfl

/-- the transceivers indicated to are exactly those at the clock links, one per link, in order -/
theorem owners_of_links {w : World} (h : Reachable w) :
    (runningClockOwners w w.clkLinks).map some = w.clkLinks.map (fun i => w.trxs[i]?) := by
  obtain ⟨-, inv⟩ := reachable_inv h
  exact (filterMap_links (fun t => ⟨0, 0, 0, []⟩) _ (fun i hi => (inv.links_iff i).mp hi)).2

/-- At a tick of frame `fn` the datagrams emitted are the clock indications demanded by the
property (`clockInds`: to the links of the running clock owners, none off-period), followed only
by datagrams of DATA sockets. -/
theorem ind_destinations {w : World} (h : Reachable w) {fn : Nat} (hr : w.clkRunning = true)
    (hs : w.clkSrc = some fn) :
    ∃ rest, (tick w).out = clockInds w fn ++ rest ∧ ∀ d ∈ rest, IsDataDgram w d := by
  rw [tick_eq_of_src hr hs, ← model_inds_eq h]
  obtain ⟨w1, extra, -, ho, hd, -⟩ := tick_go_post fn (List.range w.trxs.length) w (modelInds w fn) 0
  exact ⟨extra, ho, hd⟩

theorem ind_on_period (w : World) {fn : Nat} (hp : fn % Gen.World.indPeriod = 0) :
    clockInds w fn = (runningClockOwners w w.clkLinks).map
      (fun t => ⟨t.clckPort, t.addr, t.clckRemote, encodeUtf8 (lit "IND CLOCK " ++ natDigits fn ++ [0])⟩) := by
  unfold clockInds
  rw [if_pos hp]; rfl

theorem ind_off_period (w : World) {fn : Nat} (hp : fn % Gen.World.indPeriod ≠ 0) :
    clockInds w fn = [] := by
  unfold clockInds
  rw [if_neg hp]

/-- the indication period of the protocol description (every 102 frames) -/
theorem ind_period_value : Gen.World.indPeriod = 102 := by decide

/-- While the generator does not run a tick emits nothing and changes nothing. -/
theorem tick_idle {w : World} (hr : w.clkRunning = false) : tick w = { world := w } :=
  tick_not_running hr

/-! ### 6. POWEROFF forgets -/

theorem poweroff_forgets {w : World} {op : Op} {j : Nat} (h : powerCmd op = some (j, false)) {k : Nat}
    (ha : affects w j k = true) (t' : Trx) (ht' : (step w op).world.trxs[k]? = some t') :
    t'.fh = none ∧ t'.txQueue = [] ∧ t'.running = false := by
  rcases step_world_cases w op with ⟨hp, -⟩ | ⟨j', on, hp, hw, hs⟩ | ⟨j', t, hp, -⟩ |
      ⟨j', t, hp, -⟩ | ⟨j', t, hp, hw, hs⟩
  · rw [hp] at h; cases h
  · rw [hp] at h; cases h
    have : k = j := by simpa [affects, hw] using ha
    subst this
    rw [hs, hw] at ht'; cases ht'
  · rw [hp] at h; cases h
  · rw [hp] at h; cases h
  · rw [hp] at h; cases h
    rw [hs, powerWorld_getElem? hw, if_pos ha] at ht'
    cases hk : w.trxs[k]? with
    | none => rw [hk] at ht'; cases ht'
    | some t0 =>
      rw [hk] at ht'
      simp only [Option.map_some, Option.some.injEq] at ht'
      subst ht'
      exact powerSet_off t0

/-- ... and the affected transceivers exist -/
theorem poweroff_affected_exist {w : World} (wf : WF w) {j : Nat} {t : Trx} (hw : w.trxs[j]? = some t)
    (op : Op) {k : Nat} (ha : affects w j k = true) : ∃ t', (step w op).world.trxs[k]? = some t' := by
  have hk : k < w.trxs.length := by
    by_cases hkj : k = j
    · subst hkj; exact lt_of_getElem? hw
    · obtain ⟨tc, htc, -⟩ := affects_child wf hw ha hkj
      exact lt_of_getElem? htc
  rw [← step_length w op] at hk
  exact ⟨_, List.getElem?_eq_getElem hk⟩

/-! ### 7. port plan -/

/-- port plan of any transceiver record (the protocol's numbers, literally) -/
theorem port_plan_trx (t : Trx) :
    t.clckPort = t.basePort ∧ t.ctrlPort = t.basePort + 1 + 2 * t.childIdx ∧
    t.dataPort = t.basePort + 2 + 2 * t.childIdx ∧
    t.clckRemote = t.basePort + 100 ∧ t.ctrlRemote = t.basePort + 101 + 2 * t.childIdx ∧
    t.dataRemote = t.basePort + 102 + 2 * t.childIdx := by
  refine ⟨?_, ?_, ?_, ?_, ?_, ?_⟩ <;>
    simp only [Trx.clckPort, Trx.ctrlPort, Trx.dataPort, Trx.clckRemote, Trx.ctrlRemote, Trx.dataRemote] <;>
    omega

/-- local ports of two different transceivers on the same remote address / base port are distinct -/
theorem ports_distinct_wf {w : World} (wf : WF w) {i j : Nat} {ti tj : Trx} (hi : w.trxs[i]? = some ti)
    (hj : w.trxs[j]? = some tj) (hij : i ≠ j) (ha : ti.addr = tj.addr) (hb : ti.basePort = tj.basePort) :
    ti.ctrlPort ≠ tj.ctrlPort ∧ ti.dataPort ≠ tj.dataPort ∧ ti.ctrlPort ≠ tj.dataPort ∧
    ti.dataPort ≠ tj.ctrlPort ∧ ti.ctrlPort ≠ tj.clckPort ∧ ti.dataPort ≠ tj.clckPort ∧
    ¬ (ti.hasClock = true ∧ tj.hasClock = true) := by
  have hc : ti.childIdx ≠ tj.childIdx := fun hc =>
    hij (wf.distinct i (lt_of_getElem? hi) j (lt_of_getElem? hj) ti hi tj hj ha hb hc)
  have c1 := wf.clock_iff i (lt_of_getElem? hi) ti hi
  have c2 := wf.clock_iff j (lt_of_getElem? hj) tj hj
  simp only [Trx.clckPort, Trx.ctrlPort, Trx.dataPort]
  refine ⟨by omega, by omega, by omega, by omega, by omega, by omega, ?_⟩
  rintro ⟨h1, h2⟩
  exact hc ((c1.mp h1).trans (c2.mp h2).symm)

theorem port_plan {seed : Nat} {extra : List (Nat × Nat × Nat)} {w : World}
    (h : build seed extra = .ok w) :
    (∀ t ∈ w.trxs, t.clckPort = t.basePort ∧ t.ctrlPort = t.basePort + 1 + 2 * t.childIdx ∧
      t.dataPort = t.basePort + 2 + 2 * t.childIdx ∧
      t.clckRemote = t.clckPort + 100 ∧ t.ctrlRemote = t.ctrlPort + 100 ∧
      t.dataRemote = t.dataPort + 100 ∧
      t.clckPort ≠ t.ctrlPort ∧ t.clckPort ≠ t.dataPort ∧ t.ctrlPort ≠ t.dataPort) ∧
    (∃ bts ∈ w.trxs[0]?, bts.basePort = 5700 ∧ bts.childIdx = 0 ∧ bts.hasClock = true ∧
      bts.childMgt = Gen.World.btsChildMgt) ∧
    (∃ ms ∈ w.trxs[1]?, ms.basePort = 6700 ∧ ms.childIdx = 0 ∧ ms.hasClock = true ∧
      ms.childMgt = Gen.World.msChildMgt) ∧
    (∀ (i j : Nat) (ti tj : Trx), w.trxs[i]? = some ti → w.trxs[j]? = some tj → i ≠ j →
      ti.addr = tj.addr → ti.basePort = tj.basePort →
      ti.ctrlPort ≠ tj.ctrlPort ∧ ti.dataPort ≠ tj.dataPort ∧ ti.ctrlPort ≠ tj.dataPort ∧
      ti.dataPort ≠ tj.ctrlPort ∧ ti.ctrlPort ≠ tj.clckPort ∧ ti.dataPort ≠ tj.clckPort ∧
      ¬ (ti.hasClock = true ∧ tj.hasClock = true)) := by
  obtain ⟨wf, -⟩ := wiring_wf h
  refine ⟨?_, ?_, ?_, fun i j ti tj hi hj => ports_distinct_wf wf hi hj⟩
  · intro t _
    refine ⟨?_, ?_, ?_, ?_, ?_, ?_, ?_, ?_, ?_⟩ <;>
      simp only [Trx.clckPort, Trx.ctrlPort, Trx.dataPort, Trx.clckRemote, Trx.ctrlRemote, Trx.dataRemote] <;>
      omega
  · obtain ⟨t, ht, -, h2, h3, h4, h5⟩ := wf.bts
    exact ⟨t, ht, h2, h3, h5, h4⟩
  · obtain ⟨t, ht, -, h2, h3, h4, h5⟩ := wf.ms
    exact ⟨t, ht, h2, h3, h5, h4⟩

/-! ### non-vacuity: a concrete application with a child, and a short history -/

/-- a control datagram carrying the ASCII text `s` -/
def cmd (s : String) : List Nat := encodeUtf8 (lit s)

/-- BTS (0, manages children), MS (1), child 1 of the BTS (2), an extra parent on port 7700 (3) -/
def exWorld : World :=
  match build 0 [(1, 5700, 1), (3, 7700, 0)] with
  | .ok w => w
  | .error _ => { trxs := [] }

def exHistory : List Op :=
  [ .ctrl 0 5801 (cmd "CMD POWERON\x00"),          -- refused: not tuned
    .ctrl 0 5801 (cmd "CMD RXTUNE 935000\x00"),
    .ctrl 0 5801 (cmd "CMD TXTUNE 890000\x00"),
    .ctrl 0 5801 (cmd "CMD POWERON\x00"),          -- accepted: BTS and its child 2 run, clock starts
    .ctrl 2 5803 (cmd "CMD POWEROFF\x00"),         -- the child alone is switched off
    .tick,
    .ctrl 0 5801 (cmd "CMD POWEROFF\x00") ]        -- clock stops

example : build 0 [(1, 5700, 1), (3, 7700, 0)] = .ok exWorld := rfl
example : exWorld.trxs.length = 4 := by decide +kernel
example : (exHistory.map powerCmd) = [some (0, true), none, none, some (0, true), some (2, false), none, some (0, false)] := by
  decide +kernel
example : (List.range 4).map (runningOf (run exWorld (exHistory.take 4)).1) = [some true, some false, some true, some false] := by decide +kernel

/-- the example world is built, well wired and initial; the history is reachable -/
example : WF exWorld ∧ Initial exWorld := wiring_wf (seed := 0) (extra := [(1, 5700, 1), (3, 7700, 0)]) rfl
example : WF exWorld := by decide +kernel
example : Reachable (run exWorld exHistory).1 :=
  ⟨0, [(1, 5700, 1), (3, 7700, 0)], exWorld, exHistory, rfl, rfl⟩
/-- the BTS manages its child 2 and nobody else; the child manages only itself -/
example : (List.range 4).map (affects exWorld 0) = [true, false, true, false] ∧
    (List.range 4).map (affects exWorld 2) = [false, false, true, false] := by decide +kernel
/-- POWERON of the untuned BTS is refused and answered -1; nothing runs -/
example : accepted exWorld 0 = false ∧
    (step exWorld (.ctrl 0 5801 (cmd "CMD POWERON\x00"))).out = [⟨5701, 1, 5801, rspPowerOnFail⟩] := by
  decide +kernel
/-- after tuning POWERON is accepted: parent 0 and child 2 run, the clock runs with one link -/
example :
    let w := (run exWorld (exHistory.take 3)).1
    accepted w 0 = true ∧ (step w (.ctrl 0 5801 (cmd "CMD POWERON\x00"))).out = [⟨5701, 1, 5801, rspPowerOnOk⟩] ∧
    let w' := (run exWorld (exHistory.take 4)).1
    (List.range 4).map (runningOf w') = [some true, some false, some true, some false] ∧
    w'.clkLinks = [0] ∧ w'.clkRunning = true ∧ w'.clkSrc = some 0 := by
  decide +kernel
/-- the child is then switched off individually (reply 0); the parent and the clock keep running,
and the tick sends one `IND CLOCK 0` from the BTS clock port 5700 to port 5800 -/
example :
    let w := (run exWorld (exHistory.take 5)).1
    (List.range 4).map (runningOf w) = [some true, some false, some false, some false] ∧
    w.clkLinks = [0] ∧ w.clkRunning = true ∧
    (tick w).out = [⟨5700, 1, 5800, encodeUtf8 (lit "IND CLOCK 0\x00")⟩] ∧
    clockInds w 0 = [⟨5700, 1, 5800, encodeUtf8 (lit "IND CLOCK 0\x00")⟩] := by
  decide +kernel
/-- POWEROFF of the BTS stops the clock; the spec fold agrees with the model along the way -/
example :
    let w := (run exWorld exHistory).1
    (List.range 4).map (runningOf w) = [some false, some false, some false, some false] ∧
    w.clkLinks = [] ∧ w.clkRunning = false ∧ (tick w).out = [] ∧
    (List.range 4).map (specRunning exWorld exHistory) = [false, false, false, false] ∧
    (List.range 4).map (specRunning exWorld (exHistory.take 4)) = [true, false, true, false] ∧
    (List.range 4).map (specRunning exWorld (exHistory.take 5)) = [true, false, false, false] := by
  decide +kernel
/-- a child can also be powered on individually: no clock link, the generator stays off -/
example :
    let w := (run exWorld [.ctrl 2 5803 (cmd "CMD RXTUNE 935000\x00"), .ctrl 2 5803 (cmd "CMD TXTUNE 890000\x00"),
      .ctrl 2 5803 (cmd "CMD POWERON\x00")]).1
    (List.range 4).map (runningOf w) = [some false, some false, some true, some false] ∧
    w.clkLinks = [] ∧ w.clkRunning = false := by
  decide +kernel
/-- queued bursts and hopping are forgotten by POWEROFF (hypotheses of `poweroff_forgets` are met) -/
example : powerCmd (.ctrl 0 5801 (cmd "CMD POWEROFF\x00")) = some (0, false) ∧ affects exWorld 0 2 = true := by
  decide +kernel
/-- a hopping configuration makes the BTS ready; POWEROFF forgets it again (parent and child) -/
example :
    let w := (run exWorld [.ctrl 0 5801 (cmd "CMD SETFH 1 0 935000 890000\x00"),
      .ctrl 2 5803 (cmd "CMD SETFH 1 0 935000 890000\x00"), .ctrl 0 5801 (cmd "CMD POWERON\x00")]).1
    (List.range 4).map (fun k => (w.trxs[k]?).map (fun t => (t.running, t.fh.isSome))) =
      [some (true, true), some (false, false), some (true, true), some (false, false)] ∧
    let w' := (step w (.ctrl 0 5801 (cmd "CMD POWEROFF\x00"))).world
    (List.range 4).map (fun k => (w'.trxs[k]?).map (fun t => (t.running, t.fh.isSome, t.txQueue.length))) =
      [some (false, false, 0), some (false, false, 0), some (false, false, 0), some (false, false, 0)] := by
  decide +kernel

end OsmoVerif.Props.C12
