/-
C04, Python half — TRXD octets follow the protocol layout (toolkit side):
  gen_eq_layout_*   the octets produced for any valid message are exactly `Spec.TrxdLayout.layoutTx/Rx`
                    of its protocol-level fields (`fields?`, characterised by `fields_*_spec`);
  parse_inv_layout_* any datagram the parser accepts is interpreted per the same layout
                    (`Spec.TrxdLayout.readTx/readRx`).
The trxcon (C) half - `trxcon_decodes_py`, `py_parses_trxcon` - is stated against the same Spec files
by the check of C04.
-/
import OsmoVerif.Lemmas.TrxdLayout
set_option linter.unusedSimpArgs false

namespace OsmoVerif.Props.C04Py
open OsmoVerif OsmoVerif.Trxd OsmoVerif.Spec.TrxdRanges OsmoVerif.Spec.TrxdLayout

/-- the protocol-level fields of a Tx message are its attributes -/
theorem fields_tx_spec (m : TxMsg) (f : TxFields) (h : m.fields? = some f) :
    m.ver = f.ver ∧ m.fn = some (f.fn : Int) ∧ m.tn = some (f.tn : Int) ∧ m.pwr = some (f.pwr : Int) ∧
    m.burst = some f.bits := by
  rcases m with ⟨ver, fn, tn, pwr, burst⟩
  cases fn <;> cases tn <;> cases pwr <;> cases burst <;> simp only [TxMsg.fields?] at h
  · cases h
  all_goals first | cases h | skip
  split at h
  · rename_i hc
    simp only [Option.some.injEq] at h
    subst h
    simp only [Int.toNat_of_nonneg hc.1, Int.toNat_of_nonneg hc.2.1, Int.toNat_of_nonneg hc.2.2.1,
      Int.toNat_of_nonneg hc.2.2.2, and_self]
  · cases h

/-- Tx: the octets produced for any valid message (legacy padding on/off) are exactly the layout's -/
theorem gen_eq_layout_tx (m : TxMsg) (legacy : Bool) (h : m.validate = .ok ()) :
    ∃ f, m.fields? = some f ∧ m.genMsg legacy = .ok (layoutTx f legacy) :=
  TxMsg.genMsg_layout m legacy ((TxMsg.validate_iff m).mp h)

/-- Rx: the octets produced for any valid message (soft bits: any `array('b')` content) are exactly
the layout's: -RSSI, ToA256 and C/I big-endian two's complement, MTS octet, soft bits as 127 - s -/
theorem gen_eq_layout_rx (m : RxMsg) (legacy : Bool) (h : m.validate = .ok ()) (hw : m.WellTyped) :
    ∃ f, m.fields? = some f ∧ m.genMsg legacy = .ok (layoutRx f legacy) :=
  RxMsg.genMsg_layout m legacy ((RxMsg.validate_iff m).mp h) hw

/-- the protocol-level fields of a valid Rx message are its attributes (those its version transports) -/
theorem fields_rx_spec (m : RxMsg) (f : RxFields) (h : m.fields? = some f) :
    m.ver = f.ver ∧ m.fn = some (f.fn : Int) ∧ m.tn = some (f.tn : Int) ∧ m.rssi = some f.rssi ∧
    m.toa256 = some f.toa256 ∧ m.burst = f.soft ∧
    (m.ver = 1 → m.ci = some f.ci ∧ m.nopeInd = f.nope ∧
      (f.nope = false → ∃ (mod : Modulation) (set : Nat), m.modType = some mod ∧ m.tscSet = some (set : Int) ∧
        modOf mod.coding set = some f.mod ∧ m.tsc = some (f.tsc : Int))) := by
  rcases m with ⟨ver, fn, tn, rssi, toa, mod, nope, set, tsc, ci, burst⟩
  cases fn <;> cases tn <;> cases rssi <;> cases toa <;> simp only [RxMsg.fields?] at h
  all_goals first | cases h | skip
  rename_i fn tn rssi toa
  split at h
  · cases h
  · rename_i hc
    simp only [Decidable.not_not] at hc
    split at h
    · rename_i hv
      have hv' : ver = 1 := hv
      subst hv'
      cases ci with
      | none => cases h
      | some ci =>
        simp only at h
        cases nope with
        | true =>
          simp only [if_true, Option.some.injEq] at h
          subst h
          simp only [Int.toNat_of_nonneg hc.2.1, Int.toNat_of_nonneg hc.2.2, true_and, and_self, forall_const,
            reduceCtorEq, false_imp_iff, and_true]
          decide
        | false =>
          simp only [Bool.false_eq_true, if_false] at h
          cases mod <;> cases set <;> cases tsc <;> simp only at h
          all_goals first | cases h | skip
          rename_i mod set tsc
          split at h
          · rename_i hst
            cases hmd : modOf mod.coding set.toNat with
            | none => simp only [hmd, Option.map_none] at h; cases h
            | some md =>
              simp only [hmd, Option.map_some, Option.some.injEq] at h
              subst h
              simp only [Int.toNat_of_nonneg hc.2.1, Int.toNat_of_nonneg hc.2.2, true_and, and_self, forall_const]
              refine ⟨by decide, mod, set.toNat, rfl, by rw [Int.toNat_of_nonneg hst.1], hmd,
                by rw [Int.toNat_of_nonneg hst.2]⟩
          · cases h
    · rename_i hv
      simp only [Option.some.injEq] at h
      subst h
      simp only [Int.toNat_of_nonneg hc.1, Int.toNat_of_nonneg hc.2.1, Int.toNat_of_nonneg hc.2.2, true_and,
        and_self]
      intro h1; exact absurd h1 hv

/-- Tx: any datagram `TxMsg().parse_msg` accepts is interpreted per the layout (version nibble, TN,
big-endian FN, attenuation; the hard bits are the received octets, cut to 444 / 148 if longer) -/
theorem parse_inv_layout_tx (b : Bytes) (m : TxMsg) (h : TxMsg.parseMsg b = .ok m) :
    ∃ f, readTx b = some f ∧ m.ver = f.ver ∧ m.fn = some (f.fn : Int) ∧ m.tn = some (f.tn : Int) ∧
      m.pwr = some (f.pwr : Int) ∧ (f.ver = 0 ∨ f.ver = 1) ∧
      m.burst = (if f.bits = [] then none else some (f.bits.take (txKeep f.bits.length))) :=
  TxMsg.parse_inv_layout b m h

/-- Rx: any datagram (octets) `RxMsg().parse_msg` accepts is interpreted per the layout: version, TN,
FN, RSSI = -octet 5, ToA256 and C/I two's complement, MTS bits (NOPE, modulation + TSC set, TSC),
soft bits 127 - u; version 0: the burst is the first `bl` soft-bit octets of a message with `bl` or
`bl + 2` of them -/
theorem parse_inv_layout_rx (b : Bytes) (hb : ∀ x ∈ b, x < 256) (m : RxMsg) (h : RxMsg.parseMsg b = .ok m) :
    ∃ f, readRx b = some f ∧ m.ver = f.ver ∧ (f.ver = 0 ∨ f.ver = 1) ∧
      m.fn = some (f.fn : Int) ∧ m.tn = some (f.tn : Int) ∧ m.rssi = some f.rssi ∧ m.toa256 = some f.toa256 ∧
      (f.ver = 1 → ∃ mts, f.mts = some mts ∧ m.ci = f.ci ∧ m.nopeInd = decide (mts / 128 = 1) ∧
        (m.nopeInd = false → m.tsc = some ((mts % 8 : Nat) : Int) ∧ MtsModOk mts m.modType m.tscSet) ∧
        m.burst = (if f.soft = [] then none else some (f.soft.map softVal))) ∧
      (f.ver = 0 →
        (f.soft = [] ∧ m.burst = none) ∨
        (∃ mod, (f.soft.length = mod.bl ∨ f.soft.length = mod.bl + 2) ∧ m.modType = some mod ∧
          m.burst = some ((f.soft.take mod.bl).map softVal))) :=
  RxMsg.parse_inv_layout b hb m h

/-! ### non-vacuity -/

example : TxMsg.parseMsg ([0x17, 0, 0, 0, 100, 10] ++ List.replicate 150 1) =
    .ok ⟨1, some 100, some 7, some 10, some (List.replicate 148 1)⟩ := by decide +kernel

example : RxMsg.parseMsg ([0x13, 0, 0, 0, 5, 50, 0xff, 0xff, 0x2f, 0xfb, 0] ++ List.replicate 444 254) =
    .ok ⟨1, some 5, some 3, some (-50), some (-1), Modulation.ofName? "Mod8PSK", false, some 1, some 7,
      some (-1280), some (List.replicate 444 (-127))⟩ := by
  decide +kernel

end OsmoVerif.Props.C04Py
