/-
C11 — trxcon's consumers of the multiframe layouts (src/host/trxcon/src/sched_trx.c).
Property theorems only.  Model: `OsmoVerif.Model.TrxSched`; lemmas: `OsmoVerif.Lemmas.TrxSched`;
tables: `Gen/TrxconMframe.lean`, `Gen/TrxconLchanDesc.lean` (regenerated on every run).

"… no frame lookup for any frame number leaves the table, every channel used by a frame is
contained in the layout's channel mask (so it gets a channel state when the timeslot is
configured), and every (channel combination, timeslot) lookup returns a layout valid for
that timeslot": the theorems of `Props/C11.lean` prove this of the tables and of
`l1sched_mframe_layout`; the theorems here prove it of the code that uses them.
-/
import OsmoVerif.Lemmas.TrxSched
import OsmoVerif.Props.C11

namespace OsmoVerif.Props.C11Trx
open OsmoVerif OsmoVerif.Mframe OsmoVerif.TrxSched OsmoVerif.Gen
open OsmoVerif.Gen.TrxconMframe OsmoVerif.Gen.TrxconLchanDesc

/-! ## what the consumers need of the tables -/

/-- every `lchan_mask` fits the 64-bit arithmetic of `LAYOUT_HAS_LCHAN`, every `period`
    fits the `uint8_t offset` of `l1sched_handle_rx_burst` and divides the hyperframe -/
theorem layouts_fit_consumers :
    (layouts.all fun L => decide (L.lchanMask < 18446744073709551616) && decide (L.period < 256) &&
      (L.config == .NONE || H % L.period == 0)) = true := by decide +kernel

/-- the loop `for (type = 0; type < _L1SCHED_CHAN_MAX; type++)` stays below the shift
    width 64 and inside `l1sched_lchan_desc[]`; `sched->ts[]` has 8 entries -/
theorem chan_max_fits : L1SCHED_CHAN_MAX ≤ 64 ∧ lchanDesc.length = L1SCHED_CHAN_MAX ∧ TRX_TS_COUNT = 8 := by
  decide

theorem lchan_val_lt (c : Lchan) : c.val < L1SCHED_CHAN_MAX := by cases c <;> decide

theorem real_layout_ok {L : Layout} (hL : L ∈ layouts) (hn : L.config ≠ .NONE) :
    tableOk L = true ∧ L.period < 256 ∧ L.lchanMask < 18446744073709551616 := by
  have h1 := (List.all_eq_true.1 C11.layouts_table_ok) L (mem_real_layouts hL hn)
  have h2 := (List.all_eq_true.1 layouts_fit_consumers) L hL
  simp only [Bool.and_eq_true, decide_eq_true_eq] at h2
  exact ⟨h1, h2.1.2, h2.1.1⟩

/-! ## `l1sched_configure_ts` -/

/-- **Channel states = channel mask.**  `l1sched_configure_ts(sched, tn, config)` on a
    timeslot that is not allocated yet, or was configured successfully before (its list head
    is initialised): if `l1sched_mframe_layout(config, tn)` finds nothing it returns -EINVAL
    and leaves the timeslot without layout; otherwise it returns 0, the timeslot has that
    layout and exactly one channel state for every `type < _L1SCHED_CHAN_MAX` whose bit is
    set in the layout's `lchan_mask` — in ascending order, none for any other value. -/
theorem configure_ts_states (s : Sched) (tn config : Nat) (hlen : s.ts.length = TRX_TS_COUNT)
    (htn : tn < TRX_TS_COUNT) (hinit : ∀ ts, s.ts[tn]? = some (some ts) → ts.lchansInit = true) :
    match layoutForVal config tn with
    | none => ∃ ts' evs, configureTs s tn config = .ok (.EINVAL, setTs s tn (some ts'), evs) ∧
        ts'.layout = none
    | some L => ∃ ts' evs, configureTs s tn config = .ok (.ok, setTs s tn (some ts'), evs) ∧
        ts'.layout = some L ∧ ts'.lchansInit = true ∧
        ts'.lchans.map (·.type) = (List.range L1SCHED_CHAN_MAX).filter (fun t => L.lchanMask.testBit t) ∧
        ∀ t, (∃ l ∈ ts'.lchans, l.type = t) ↔ (t < L1SCHED_CHAN_MAX ∧ L.lchanMask.testBit t = true) := by
  obtain ⟨h64, hdl, h8⟩ := chan_max_fits
  have htn' : tn < s.ts.length := by omega
  have htypes : ∀ t ∈ List.range L1SCHED_CHAN_MAX, t < 64 ∧ t < lchanDesc.length := by
    intro t ht
    have := List.mem_range.1 ht
    omega
  have hinit' : ∀ ts, s.ts[tn] = some ts → ts.lchansInit = true := by
    intro ts h
    exact hinit ts (by rw [List.getElem?_eq_getElem htn', h])
  obtain ⟨ts0, ev0, hg, _, _⟩ := configureGetTs_ok s tn htn' (by omega) hinit'
  have hrest := configureRest_spec (List.range L1SCHED_CHAN_MAX) htypes s tn config (by omega) ts0 ev0
  have hdef : configureTs s tn config = configureRest (List.range L1SCHED_CHAN_MAX) s tn config ts0 ev0 := by
    show configureTsOn (List.range L1SCHED_CHAN_MAX) s tn config = _
    simp only [configureTsOn, hg, bind, Except.bind]
  cases hl : layoutForVal config tn with
  | none =>
    rw [hl] at hrest
    obtain ⟨ts', h1, h2, _⟩ := hrest
    exact ⟨ts', ev0, by rw [hdef, h1], h2⟩
  | some L =>
    rw [hl] at hrest
    have hmem := (layoutForVal_some config tn L hl).1
    have hm : L.lchanMask < 18446744073709551616 := by
      have h2 := (List.all_eq_true.1 layouts_fit_consumers) L hmem
      simp only [Bool.and_eq_true, decide_eq_true_eq] at h2
      exact h2.1.1
    obtain ⟨ts', evs, h1, h2, h3, _, h5⟩ := hrest hm
    refine ⟨ts', evs, by rw [hdef, h1], h2, h3, h5, fun t => ?_⟩
    have hmemt : (∃ l ∈ ts'.lchans, l.type = t) ↔ t ∈ ts'.lchans.map (·.type) := by
      simp [List.mem_map]
    rw [hmemt, h5, List.mem_filter, List.mem_range]

/-- … so every channel used by any frame of the selected layout — for every frame number —
    has a channel state after `l1sched_configure_ts` (IDLE, which has no handler, excepted),
    on the Downlink and on the Uplink -/
theorem configured_channels_have_state (s : Sched) (tn config : Nat) (hlen : s.ts.length = TRX_TS_COUNT)
    (htn : tn < TRX_TS_COUNT) (hinit : ∀ ts, s.ts[tn]? = some (some ts) → ts.lchansInit = true)
    (L : Layout) (hl : layoutForVal config tn = some L) (hne : L.config ≠ .NONE) :
    ∃ ts' evs, configureTs s tn config = .ok (.ok, setTs s tn (some ts'), evs) ∧ ts'.layout = some L ∧
      ∀ fn f, lookup L fn = .ok f →
        (f.dlChan ≠ .IDLE → ∃ l, findLchan ts' f.dlChan.val = .ok (some l) ∧ l.type = f.dlChan.val) ∧
        (f.ulChan ≠ .IDLE → ∃ l, findLchan ts' f.ulChan.val = .ok (some l) ∧ l.type = f.ulChan.val) := by
  have h := configure_ts_states s tn config hlen htn hinit
  rw [hl] at h
  obtain ⟨ts', evs, h1, h2, h3, _, h5⟩ := h
  have hmem := (layoutForVal_some config tn L hl).1
  refine ⟨ts', evs, h1, h2, fun fn f hf => ?_⟩
  obtain ⟨hd, hu⟩ := C11.chans_in_mask L hmem hne fn f hf
  have find_of : ∀ c : Lchan, L.lchanMask.testBit c.val = true →
      ∃ l, findLchan ts' c.val = .ok (some l) ∧ l.type = c.val := by
    intro c hb
    obtain ⟨l, hlm, hlt⟩ := (h5 c.val).2 ⟨lchan_val_lt c, hb⟩
    have hsome : (ts'.lchans.find? fun l => l.type == c.val).isSome = true := by
      rw [List.find?_isSome]
      exact ⟨l, hlm, by simp [hlt]⟩
    obtain ⟨l', hl'⟩ := Option.isSome_iff_exists.1 hsome
    refine ⟨l', by simp only [findLchan, h3, Bool.not_true, Bool.false_eq_true, if_false, hl'], ?_⟩
    have := List.find?_some hl'
    simpa using this
  exact ⟨fun hn => find_of _ (hd hn), fun hn => find_of _ (hu hn)⟩

/-! ## the frame lookups -/

/-- **No lookup of `l1sched_handle_rx_burst` leaves the table**, for every layout except
    NONE, every timeslot state with that layout and every 32-bit frame number: the function
    returns, `bi->bid` is the Downlink burst id of row `fn % period` (the 8-bit offset loses
    nothing), and the only state it may change are the TDMA statistics of the row's channel. -/
theorem rx_lookup_in_table (s : Sched) (tn fn : Nat) (ts : Ts) (L : Layout) (hL : L ∈ layouts)
    (hne : L.config ≠ .NONE) (hlen : tn < s.ts.length) (hget : s.ts[tn] = some ts)
    (hlay : ts.layout = some L) (hinit : ts.lchansInit = true) :
    ∃ f r, lookup L fn = .ok f ∧ handleRxBurst s tn fn = .ok r ∧ r.bid = some f.dlBid ∧
      RxStateStep s r.sched tn ts f.dlChan.val := by
  obtain ⟨hok, hp, _⟩ := real_layout_ok hL hne
  exact handleRxBurst_total s tn fn ts L hlen hget hlay hinit hok hp

/-- **No lookup of `l1sched_pull_burst` leaves the table**: `br->bid` is the Uplink burst id
    of row `fn % period`, and the Tx handler of that row's Uplink channel is called with it,
    once, iff the channel has a handler, a channel state and is active. -/
theorem tx_lookup_in_table (s : Sched) (tn fn : Nat) (ts : Ts) (L : Layout) (hL : L ∈ layouts)
    (hne : L.config ≠ .NONE) (hlen : tn < s.ts.length) (hget : s.ts[tn] = some ts)
    (hlay : ts.layout = some L) (hinit : ts.lchansInit = true) :
    ∃ f d, lookup L fn = .ok f ∧ lchanDesc[f.ulChan.val]? = some d ∧
      pullBurst s tn fn = .ok
        (if d.tx = true ∧ ∃ l, ts.lchans.find? (fun l => l.type == f.ulChan.val) = some l ∧ l.active = true
         then [Ev.tx f.ulChan.val tn fn f.ulBid] else [], some f.ulBid) := by
  obtain ⟨hok, _, _⟩ := real_layout_ok hL hne
  exact pullBurst_spec s tn fn ts L hlen hget hlay hinit hok

/-- **No lookup of `l1sched_handle_rx_probe` leaves the table.** -/
theorem probe_lookup_in_table (s : Sched) (tn fn : Nat) (ts : Ts) (L : Layout) (hL : L ∈ layouts)
    (hne : L.config ≠ .NONE) (hlen : tn < s.ts.length) (hget : s.ts[tn] = some ts)
    (hlay : ts.layout = some L) (hinit : ts.lchansInit = true) : ∃ r, rxProbe s tn fn = .ok r := by
  obtain ⟨hok, _, _⟩ := real_layout_ok hL hne
  exact rxProbe_total s tn fn ts L hlen hget hlay hinit hok

/-- **… for whole streams of bursts**: after any sequence of received bursts on a timeslot
    with a real layout the timeslot still has that layout and the same channel states, so no
    burst of the stream leaves defined behaviour (whatever the frame numbers, in any order). -/
theorem rx_stream_total (L : Layout) (hL : L ∈ layouts) (hne : L.config ≠ .NONE) (tn : Nat) (fns : List Nat) :
    ∀ (s : Sched) (ts : Ts), tn < s.ts.length → s.ts[tn]? = some (some ts) → ts.layout = some L →
      ts.lchansInit = true →
      ∃ s' ts', rxStream s tn fns = .ok s' ∧ s'.ts[tn]? = some (some ts') ∧ ts'.layout = some L ∧
        ts'.lchansInit = true ∧ ts'.lchans.map (·.type) = ts.lchans.map (·.type) := by
  induction fns with
  | nil => intro s ts _ hget hlay hinit; exact ⟨s, ts, rfl, hget, hlay, hinit, rfl⟩
  | cons fn rest ih =>
    intro s ts hlen hget hlay hinit
    have hget' : s.ts[tn] = some ts := by
      rw [List.getElem?_eq_getElem hlen] at hget
      exact Option.some.inj hget
    obtain ⟨f, r, _, hr, _, hstep⟩ := rx_lookup_in_table s tn fn ts L hL hne hlen hget' hlay hinit
    obtain ⟨hl2, ⟨ts2, hg2, hlay2, hinit2, _, hty2⟩, _⟩ := rxStateStep_keeps s r.sched tn ts _ hlen hget' hstep
    obtain ⟨s', ts', h1, h2, h3, h4, h5⟩ := ih r.sched ts2 (by omega) hg2 (by rw [hlay2, hlay])
      (by rw [hinit2, hinit])
    exact ⟨s', ts', by simp only [rxStream, hr, h1], h2, h3, h4, by rw [h5, hty2]⟩

/-! ## `subst_frame_loss` -/

/-- what `lostFrames` is: the pairs (frame number, burst id) of the frames `last + 1 + i`,
    `i < n` (modulo the hyperframe), whose layout row gives the Downlink to channel `type`,
    with the burst id of that row -/
theorem mem_lostFrames (L : Layout) (type last n f b : Nat) :
    (f, b) ∈ lostFrames L type last n ↔
      ∃ i, i < n ∧ f = (last + 1 + i) % H ∧ ∃ fp, lookup L f = .ok fp ∧ fp.dlChan.val = type ∧ b = fp.dlBid := by
  simp only [lostFrames, List.mem_filterMap, List.mem_range]
  constructor
  · rintro ⟨i, hi, h⟩
    cases hlk : lookup L ((last + 1 + i) % H) with
    | error e => rw [hlk] at h; cases h
    | ok fp =>
      rw [hlk] at h
      simp only at h
      split at h
      · rename_i hc
        simp only [Option.some.injEq, Prod.mk.injEq] at h
        exact ⟨i, hi, h.1.symm, fp, by rw [← h.1]; exact hlk, hc, h.2.symm⟩
      · cases h
  · rintro ⟨i, hi, rfl, fp, hlk, hc, rfl⟩
    exact ⟨i, hi, by simp [hlk, hc]⟩

/-- **Lost-frame compensation substitutes exactly the layout's frames.**  For every layout
    except NONE, a channel state that has processed a frame before (`num_proc ≠ 0`), valid
    frame numbers, and `e` = the distance from the last processed frame to the current one in
    the cyclic order of frame numbers:
    * `1 ≤ e ≤ period`: no lookup leaves the table and the handler is called for exactly the
      frames `last + 1 … last + e − 1` (mod hyperframe) whose row `f % period` gives the
      Downlink to this channel, in ascending order, each once, with that row's burst id;
      `num_proc` and `num_lost` grow by their number, `last_proc` is the last of them;
    * `e = 0`, or `period < e < hyperframe / 2` (more than one period lost): -EIO, nothing is
      substituted (the caller then processes the current burst and restarts from it);
    * `e ≥ hyperframe / 2` (the burst is older than the last processed one): -EALREADY. -/
theorem subst_frame_loss_exact (L : Layout) (hL : L ∈ layouts) (hne : L.config ≠ .NONE) (tn : Nat)
    (l : LchanState) (fn : Nat) (hfn : fn < H) (hl : l.tdma.lastProc < H) (hnp : l.tdma.numProc ≠ 0) :
    (((fn + H - l.tdma.lastProc) % H = 0 ∨
        (L.period < (fn + H - l.tdma.lastProc) % H ∧ (fn + H - l.tdma.lastProc) % H < H / 2)) →
      substFrameLoss L tn l fn = .ok (.EIO, l.tdma, [])) ∧
    (H / 2 ≤ (fn + H - l.tdma.lastProc) % H →
      substFrameLoss L tn l fn = .ok (.EALREADY, l.tdma, [])) ∧
    (0 < (fn + H - l.tdma.lastProc) % H → (fn + H - l.tdma.lastProc) % H ≤ L.period →
      ∃ td', substFrameLoss L tn l fn =
          .ok (.ok, td', (lostFrames L l.type l.tdma.lastProc ((fn + H - l.tdma.lastProc) % H - 1)).map
            fun p => Ev.rx l.type tn p.1 p.2) ∧
        TdmaAfter l.tdma td' (lostFrames L l.type l.tdma.lastProc ((fn + H - l.tdma.lastProc) % H - 1))) := by
  obtain ⟨hok, hp, _⟩ := real_layout_ok hL hne
  exact substFrameLoss_spec L hok hp tn l fn hfn hl hnp

/-- a channel state that has not processed any frame yet compensates nothing (-EAGAIN) -/
theorem subst_frame_loss_first (L : Layout) (tn : Nat) (l : LchanState) (fn : Nat) (h : l.tdma.numProc = 0) :
    substFrameLoss L tn l fn = .ok (.EAGAIN, l.tdma, []) := by
  simp only [substFrameLoss, h, if_true]

/-- since every period divides the hyperframe, the row of a substituted frame is the row of
    its frame number counted without the hyperframe wrap -/
theorem lost_frame_row (L : Layout) (hL : L ∈ layouts) (hne : L.config ≠ .NONE) (last i : Nat) :
    lookup L ((last + 1 + i) % H) = lookup L (last + 1 + i) := by
  have h2 := (List.all_eq_true.1 layouts_fit_consumers) L hL
  simp only [Bool.and_eq_true, decide_eq_true_eq, Bool.or_eq_true, beq_iff_eq] at h2
  have hdvd : H % L.period = 0 := h2.2.resolve_left hne
  apply lookup_congr
  exact Nat.mod_mod_of_dvd _ (Nat.dvd_of_mod_eq_zero hdvd)

/-- **Delivery of the burst itself**: on a timeslot with a real layout, when the row's
    Downlink channel has an Rx handler, a channel state and is active, the handler is called
    — after the substitutions — with the channel of row `fn % period`, this `tn`, `fn` and the
    row's burst id, and the function returns 0; unless `subst_frame_loss` said -EALREADY,
    in which case the burst is dropped and nothing changes. -/
theorem rx_burst_delivery (s : Sched) (tn fn : Nat) (ts : Ts) (L : Layout) (hL : L ∈ layouts)
    (hne : L.config ≠ .NONE) (hlen : tn < s.ts.length) (hget : s.ts[tn] = some ts)
    (hlay : ts.layout = some L) (hinit : ts.lchansInit = true) (f : Frame) (hf : lookup L fn = .ok f)
    (d : Desc) (hd : lchanDesc[f.dlChan.val]? = some d) (hrx : d.rx = true)
    (l : LchanState) (hfind : ts.lchans.find? (fun l => l.type == f.dlChan.val) = some l)
    (hact : l.active = true) :
    l.type = f.dlChan.val ∧
    ∀ rc td evs, substFrameLoss L ts.index l fn = .ok (rc, td, evs) →
      (rc = .EALREADY → handleRxBurst s tn fn = .ok ⟨.EALREADY, s, [], some f.dlBid⟩) ∧
      (rc ≠ .EALREADY → ∃ s', handleRxBurst s tn fn =
        .ok ⟨.ok, s', evs ++ [Ev.rx f.dlChan.val tn fn f.dlBid], some f.dlBid⟩ ∧
        RxStateStep s s' tn ts f.dlChan.val) := by
  obtain ⟨hok, hp, _⟩ := real_layout_ok hL hne
  exact handleRxBurst_active s tn fn ts L hlen hget hlay hinit hok hp f hf d hd hrx l hfind hact

/-- no handler, no channel state, or an inactive channel: nothing is called, nothing changes -/
theorem rx_burst_not_delivered (s : Sched) (tn fn : Nat) (ts : Ts) (L : Layout) (hL : L ∈ layouts)
    (hne : L.config ≠ .NONE) (hlen : tn < s.ts.length) (hget : s.ts[tn] = some ts)
    (hlay : ts.layout = some L) (hinit : ts.lchansInit = true) (f : Frame) (hf : lookup L fn = .ok f)
    (d : Desc) (hd : lchanDesc[f.dlChan.val]? = some d) :
    (d.rx = false → handleRxBurst s tn fn = .ok ⟨.ENODEV, s, [], some f.dlBid⟩) ∧
    (d.rx = true → ts.lchans.find? (fun l => l.type == f.dlChan.val) = none →
      handleRxBurst s tn fn = .ok ⟨.ENODEV, s, [], some f.dlBid⟩) ∧
    (d.rx = true → ∀ l, ts.lchans.find? (fun l => l.type == f.dlChan.val) = some l → l.active = false →
      handleRxBurst s tn fn = .ok ⟨.ok, s, [], some f.dlBid⟩) := by
  obtain ⟨hok, hp, _⟩ := real_layout_ok hL hne
  exact handleRxBurst_idle s tn fn ts L hlen hget hlay hinit hok hp f hf d hd

/-! ## every history -/

/-- one call of the scheduler API with arguments the property speaks about (timeslot 0..7,
    a combination that has a real layout on that timeslot, a channel number of the enum)
    returns and keeps the invariant: every timeslot has an initialised list head and, if it
    has a layout, a real one with exactly the channel states of its mask -/
theorem step_keeps_inv (s : Sched) (h : TrxSched.Inv s) (op : Op) (hop : OpOk op) :
    ∃ s', stepOp s op = .ok s' ∧ TrxSched.Inv s' := by
  cases op with
  | cfg tn c =>
    obtain ⟨htn, L, hl, hne⟩ := hop
    have hinit : ∀ ts, s.ts[tn]? = some (some ts) → ts.lchansInit = true := fun ts hts => (h.2 tn ts hts).1
    have hc := configure_ts_states s tn c h.1 htn hinit
    rw [hl] at hc
    obtain ⟨ts', evs, h1, h2, h3, h4, _⟩ := hc
    refine ⟨setTs s tn (some ts'), by simp only [stepOp, h1, Except.map], inv_setTs s tn _ h (fun ts hts => ?_)⟩
    cases hts
    exact ⟨h3, Or.inr ⟨L, (layoutForVal_some c tn L hl).1, hne, h2, h4⟩⟩
  | del tn =>
    obtain ⟨s', evs, h1, h2⟩ := delTs_inv s h tn hop
    exact ⟨s', by simp only [stepOp, h1, Except.map], h2⟩
  | rts tn =>
    obtain ⟨o, hg, _, ho⟩ := inv_get s h tn hop
    cases o with
    | none => exact ⟨s, by simp only [stepOp, resetTs, hg, bind, Except.bind, pure, Except.pure, Except.map], h⟩
    | some ts =>
      obtain ⟨ts', hc, h1, h2, _, _⟩ := clearTs_ok ts (ho ts rfl).1
      refine ⟨setTs s tn (some ts'), by simp only [stepOp, resetTs, hg, bind, Except.bind, hc, pure, Except.pure,
        Except.map], inv_setTs s tn _ h (fun t ht => ?_)⟩
      cases ht
      exact ⟨h2, Or.inl h1⟩
  | rst =>
    obtain ⟨s', evs, h1, h2⟩ := delAll_inv (List.range TRX_TS_COUNT) (fun tn htn => List.mem_range.1 htn) s [] h
    exact ⟨s', by simp only [stepOp, resetAll, h1, Except.map], h2⟩
  | act tn ch =>
    obtain ⟨htn, hch⟩ := hop
    obtain ⟨o, hg, _, ho⟩ := inv_get s h tn htn
    cases o with
    | none => exact ⟨s, by simp only [stepOp, hg, bind, Except.bind, pure, Except.pure], h⟩
    | some ts =>
      have hti := ho ts rfl
      have hnd : ¬ ch > L1SCHED_CHAN_MAX := by omega
      obtain ⟨idx, lay, ini, lch⟩ := ts
      have hi : ini = true := hti.1
      subst hi
      cases hf : lch.find? (fun l => l.type == ch) with
      | none =>
        exact ⟨setTs s tn (some ⟨idx, lay, true, lch⟩), by simp only [stepOp, hg, bind, Except.bind, activateLchan,
          hnd, if_false, findLchan, Bool.not_true, Bool.false_eq_true, hf, pure, Except.pure],
          inv_setTs s tn _ h (fun t ht => by cases ht; exact hti)⟩
      | some l =>
        by_cases ha : l.active = true
        · exact ⟨setTs s tn (some ⟨idx, lay, true, lch⟩), by simp only [stepOp, hg, bind, Except.bind, activateLchan,
            hnd, if_false, findLchan, Bool.not_true, Bool.false_eq_true, hf, ha, if_true, pure, Except.pure],
            inv_setTs s tn _ h (fun t ht => by cases ht; exact hti)⟩
        · exact ⟨setTs s tn (some ⟨idx, lay, true, updFirst ch (fun l => { l with active := true }) lch⟩),
            by simp only [stepOp, hg, bind, Except.bind, activateLchan, hnd, if_false,
              findLchan, Bool.not_true, Bool.false_eq_true, hf, ha, pure, Except.pure],
            inv_setTs s tn _ h (fun t ht => by
              cases ht; exact tsInv_updFirst ⟨idx, lay, true, lch⟩ hti ch _ (fun _ => rfl))⟩
  | deact tn ch =>
    obtain ⟨o, hg, _, ho⟩ := inv_get s h tn hop
    cases o with
    | none => exact ⟨s, by simp only [stepOp, hg, bind, Except.bind, pure, Except.pure], h⟩
    | some ts =>
      have hti := ho ts rfl
      obtain ⟨idx, lay, ini, lch⟩ := ts
      have hi : ini = true := hti.1
      subst hi
      cases hf : lch.find? (fun l => l.type == ch) with
      | none =>
        exact ⟨setTs s tn (some ⟨idx, lay, true, lch⟩), by simp only [stepOp, hg, bind, Except.bind, deactivateLchan,
          findLchan, Bool.not_true, Bool.false_eq_true, if_false, hf, pure, Except.pure],
          inv_setTs s tn _ h (fun t ht => by cases ht; exact hti)⟩
      | some l =>
        by_cases ha : l.active = true
        · exact ⟨setTs s tn (some ⟨idx, lay, true,
              updFirst ch (fun l => { (resetLchan l) with active := false }) lch⟩),
            by simp only [stepOp, hg, bind, Except.bind, deactivateLchan,
              findLchan, Bool.not_true, Bool.false_eq_true, if_false, hf, ha, pure, Except.pure],
            inv_setTs s tn _ h (fun t ht => by
              cases ht; exact tsInv_updFirst ⟨idx, lay, true, lch⟩ hti ch _ (fun _ => rfl))⟩
        · exact ⟨setTs s tn (some ⟨idx, lay, true, lch⟩), by simp only [stepOp, hg, bind, Except.bind,
            deactivateLchan, findLchan, Bool.not_true, Bool.false_eq_true, if_false, hf, ha, Bool.not_false, if_true,
            pure, Except.pure],
            inv_setTs s tn _ h (fun t ht => by cases ht; exact hti)⟩
  | rx tn fn =>
    obtain ⟨o, hg, hget, ho⟩ := inv_get s h tn hop
    have hlt : tn < s.ts.length := by rw [h.1]; exact hop
    cases o with
    | none => exact ⟨s, by simp only [stepOp, handleRxBurst, hg, bind, Except.bind, pure, Except.pure, Except.map], h⟩
    | some ts =>
      have hti := ho ts rfl
      rcases hti.2 with hn | ⟨L, hL, hne, hlay, _⟩
      · exact ⟨s, by simp only [stepOp, handleRxBurst, hg, bind, Except.bind, hn, pure, Except.pure, Except.map], h⟩
      · have hget' : s.ts[tn] = some ts := by
          rw [List.getElem?_eq_getElem hlt] at hget; exact Option.some.inj hget
        obtain ⟨f, r, _, hr, _, hstep⟩ := rx_lookup_in_table s tn fn ts L hL hne hlt hget' hlay hti.1
        refine ⟨r.sched, by simp only [stepOp, hr, Except.map], ?_⟩
        rcases hstep with he | ⟨td, he⟩
        · rw [he]; exact h
        · rw [he]
          exact inv_setTs s tn _ h (fun t ht => by
            cases ht; exact tsInv_updFirst ts hti _ _ (fun _ => rfl))
  | tx tn fn =>
    obtain ⟨o, hg, hget, ho⟩ := inv_get s h tn hop
    have hlt : tn < s.ts.length := by rw [h.1]; exact hop
    refine ⟨s, ?_, h⟩
    cases o with
    | none => simp only [stepOp, pullBurst, hg, bind, Except.bind, pure, Except.pure, Except.map]
    | some ts =>
      have hti := ho ts rfl
      rcases hti.2 with hn | ⟨L, hL, hne, hlay, _⟩
      · simp only [stepOp, pullBurst, hg, bind, Except.bind, hn, pure, Except.pure, Except.map]
      · have hget' : s.ts[tn] = some ts := by
          rw [List.getElem?_eq_getElem hlt] at hget; exact Option.some.inj hget
        obtain ⟨f, d, _, _, hr⟩ := tx_lookup_in_table s tn fn ts L hL hne hlt hget' hlay hti.1
        simp only [stepOp, hr, Except.map]
  | probe tn fn =>
    obtain ⟨o, hg, hget, ho⟩ := inv_get s h tn hop
    have hlt : tn < s.ts.length := by rw [h.1]; exact hop
    refine ⟨s, ?_, h⟩
    cases o with
    | none => simp only [stepOp, rxProbe, hg, bind, Except.bind, pure, Except.pure, Except.map]
    | some ts =>
      have hti := ho ts rfl
      rcases hti.2 with hn | ⟨L, hL, hne, hlay, _⟩
      · simp only [stepOp, rxProbe, hg, bind, Except.bind, hn, pure, Except.pure, Except.map]
      · have hget' : s.ts[tn] = some ts := by
          rw [List.getElem?_eq_getElem hlt] at hget; exact Option.some.inj hget
        obtain ⟨r, hr⟩ := probe_lookup_in_table s tn fn ts L hL hne hlt hget' hlay hti.1
        simp only [stepOp, hr, Except.map]

/-- **For every history** of scheduler calls from `l1sched_alloc` on — configure (with
    combinations that have a real layout on the timeslot), reset, delete, activate,
    deactivate, received bursts, pulled bursts and probes with any frame numbers, in any
    order — no call leaves defined behaviour: in particular no frame lookup leaves a table. -/
theorem history_safe (ops : List Op) (hops : ∀ op ∈ ops, OpOk op) :
    ∀ s, TrxSched.Inv s → ∃ s', runOps s ops = .ok s' ∧ TrxSched.Inv s' := by
  induction ops with
  | nil => intro s h; exact ⟨s, rfl, h⟩
  | cons op rest ih =>
    intro s h
    obtain ⟨s1, h1, hi1⟩ := step_keeps_inv s h op (hops op (by simp))
    obtain ⟨s2, h2, hi2⟩ := ih (fun o ho => hops o (by simp [ho])) s1 hi1
    exact ⟨s2, by simp only [runOps, h1, h2], hi2⟩

/-- … and in every state such a history reaches, every timeslot that has a layout has a
    channel state for every channel any frame of the layout uses, for every frame number
    (IDLE excepted), and no channel state outside the layout's mask -/
theorem reachable_channels_have_state (ops : List Op) (hops : ∀ op ∈ ops, OpOk op) (s' : Sched)
    (hrun : runOps initSched ops = .ok s') (tn : Nat) (ts : Ts) (hts : s'.ts[tn]? = some (some ts))
    (L : Layout) (hlay : ts.layout = some L) :
    L ∈ layouts ∧ L.config ≠ .NONE ∧
    (∀ l ∈ ts.lchans, l.type < L1SCHED_CHAN_MAX ∧ L.lchanMask.testBit l.type = true) ∧
    ∀ fn f, lookup L fn = .ok f →
      (f.dlChan ≠ .IDLE → ∃ l ∈ ts.lchans, l.type = f.dlChan.val) ∧
      (f.ulChan ≠ .IDLE → ∃ l ∈ ts.lchans, l.type = f.ulChan.val) := by
  obtain ⟨s2, h2, hinv⟩ := history_safe ops hops initSched inv_init
  rw [hrun] at h2
  cases h2
  obtain ⟨_, hcase⟩ := hinv.2 tn ts hts
  rcases hcase with hn | ⟨L', hL, hne, hl', hty⟩
  · rw [hn] at hlay; cases hlay
  · rw [hl'] at hlay
    cases hlay
    have hmem : ∀ t, (∃ l ∈ ts.lchans, l.type = t) ↔ (t < L1SCHED_CHAN_MAX ∧ L.lchanMask.testBit t = true) := by
      intro t
      have : (∃ l ∈ ts.lchans, l.type = t) ↔ t ∈ ts.lchans.map (·.type) := by simp [List.mem_map]
      rw [this, hty, List.mem_filter, List.mem_range]
    refine ⟨hL, hne, fun l hl => (hmem l.type).1 ⟨l, hl, rfl⟩, fun fn f hf => ?_⟩
    obtain ⟨hd, hu⟩ := C11.chans_in_mask L hL hne fn f hf
    exact ⟨fun hi => (hmem _).2 ⟨lchan_val_lt _, hd hi⟩, fun hi => (hmem _).2 ⟨lchan_val_lt _, hu hi⟩⟩

/-! ## the excluded states, made explicit -/

/-- a first configuration that fails (no layout for this combination and timeslot) leaves a
    timeslot whose list head was never initialised: deleting it walks a NULL list head -/
theorem failed_first_configure_then_delete (tn config : Nat) (htn : tn < TRX_TS_COUNT)
    (hno : layoutForVal config tn = none) :
    ∃ s' evs, configureTs initSched tn config = .ok (.EINVAL, s', evs) ∧
      delTs s' tn = .error .nullListHead := by
  have h8 : TRX_TS_COUNT = 8 := by decide
  have hlen : tn < initSched.ts.length := by simp [initSched]; exact htn
  have hnone : initSched.ts[tn] = none := by simp [initSched]
  have hg : configureGetTs initSched tn = .ok (⟨u8 tn, none, false, []⟩, []) := by
    simp only [configureGetTs, getTs_of_lt initSched tn hlen, hnone, bind, Except.bind, pure, Except.pure]
  have hu8 : u8 tn = tn := Nat.mod_eq_of_lt (by omega)
  refine ⟨setTs initSched tn (some ⟨u8 tn, none, false, []⟩), [], ?_, ?_⟩
  · show configureTsOn (List.range L1SCHED_CHAN_MAX) initSched tn config = _
    simp only [configureTsOn, hg, bind, Except.bind, configureRest, hu8, hno, pure, Except.pure]
  · have hl2 : tn < (setTs initSched tn (some ⟨u8 tn, none, false, []⟩)).ts.length := by
      simp [setTs, initSched]; exact htn
    simp only [delTs, getTs_of_lt _ tn hl2, bind, Except.bind]
    simp [setTs, deactivateAll]

/-! ## non-vacuity -/

/-- the combined CCCH on TS0 of a fresh scheduler: configured with return code 0, with the
    channel states FCCH SCH BCCH RACH CCCH SDCCH4_0..3 SACCH4_0..3 in that order, the automatic
    ones active -/
example : (match configureTs initSched 0 Pchan.CCCH_SDCCH4.val with
    | .ok (rc, s', evs) =>
      rc == .ok && evs == [Ev.pchanComb 0 Pchan.CCCH_SDCCH4.val] &&
      (match s'.ts[0]? with
       | some (some ts) => ts.lchans.map (fun l => (l.type, l.active)) ==
           [(1, false), (2, true), (3, true), (4, true), (5, true), (9, false), (10, false), (11, false), (12, false),
            (24, false), (25, false), (26, false), (27, false)]
       | _ => false)
    | .error _ => false) = true := by decide +kernel

/-- BCCH (type 3) on the BCCH+CCCH layout, last processed frame 3, next burst in frame 54
    (`e = 51 = period`): the lost BCCH frames are 4, 5 (burst ids 2, 3) and 53 (burst id 0) -/
example : (match layoutFor .CCCH 0 with
    | some L => lostFrames L 3 3 50 == [(4, 2), (5, 3), (53, 0)] &&
        (match substFrameLoss L 0 ⟨3, true, ⟨3, 2, 0⟩⟩ 54 with
         | .ok (rc, td, evs) => rc == .ok && td == ⟨53, 5, 3⟩ &&
             evs == [Ev.rx 3 0 4 2, Ev.rx 3 0 5 3, Ev.rx 3 0 53 0]
         | .error _ => false) &&
        (match substFrameLoss L 0 ⟨3, true, ⟨3, 2, 0⟩⟩ 55 with
         | .ok (rc, _, evs) => rc == .EIO && evs == []
         | .error _ => false)
    | none => false) = true := by decide +kernel

end OsmoVerif.Props.C11Trx
