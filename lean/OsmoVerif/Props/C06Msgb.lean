/-
C06, message buffers under the serial link.  Property theorems only.

Part 1  the msgb operations of msgb.h / msgb.c (`Model/Msgb.lean`): the buffer invariant, the room
        conditions ("fails exactly when the room check fails"), the octet algebra, the queue as a
        first-in-first-out list.
Part 2  sercomm.c on these buffers (`Model/SercommMsgb.lean`) is the abstract link of
        `Model/Sercomm.lean`: simulation for every history; no `MSGB_ABORT`, no access outside a
        buffer is reachable from sercomm's calls; `end_to_end_partial` of Props/C06 restated for the
        machine with real buffers.

Two observations about msgb.h are pinned here with their witnesses (neither is on a path sercomm or
osmocon take): `msgb_get` returns `data − len` instead of the start of the removed octets
(`get_u8_after_put_u8_full_fails`), `msgb_trim` compares with `data_len` and ignores the headroom
(`trim_full_fails`).
-/
import OsmoVerif.Lemmas.Msgb
import OsmoVerif.Lemmas.SercommMsgb
import OsmoVerif.Props.C06

namespace OsmoVerif.Props.C06Msgb
open OsmoVerif OsmoVerif.Msgb OsmoVerif.Sercomm OsmoVerif.SercommMsgb OsmoVerif.Gen.Sercomm

/-! ## Part 1: the buffer -/

/-- The invariant in the words of the property: `head ≤ data ≤ tail ≤ head + data_len`,
`len = tail − data` (and `head` is the start of the `data_len` octets of `_data`). -/
theorem inv_textbook {m : Msgb} (i : Inv m) :
    m.head ≤ m.data ∧ m.data ≤ m.tail ∧ m.tail ≤ m.head + m.dataLen ∧ m.len = m.tail - m.data ∧
      m.head = 0 ∧ m.mem.length = m.dataLen := by
  have := i.head; have := i.dt; have := i.te
  exact ⟨by omega, i.dt, by omega, i.len, i.head, i.mem⟩

/-- `msgb_alloc`: a fresh buffer satisfies the invariant for every requested size; the size is taken
modulo 2^16 (`uint16_t` parameter), all octets are zero, no headroom. -/
theorem alloc_ok (size : Nat) :
    Inv (alloc size) ∧ (alloc size).dataLen = size % 65536 ∧ headroom (alloc size) = 0 ∧
      tailroom (alloc size) = (size % 65536 : Nat) ∧ body (alloc size) = [] := by
  refine ⟨alloc_inv size, rfl, rfl, ?_, ?_⟩
  · simp [tailroom, alloc, u16]
  · simp [body, alloc]

/-- `msgb_reset` restores the invariant whatever happened to the pointers before
(only `_data` must still be the array of `data_len < 2^16` octets). -/
theorem reset_ok (m : Msgb) (hmem : m.mem.length = m.dataLen) (hdl : m.dataLen < 65536) : Inv (reset m) :=
  ⟨rfl, Nat.le_refl _, Nat.zero_le _, rfl, hmem, hdl⟩

/-- **Invariant.** Every operation of msgb.h / msgb.c that returns normally keeps the invariant —
unconditionally for the operations that have a check (`msgb_put*`, `msgb_push`, `msgb_get*`) and for
`msgb_reset`, `msgb_reserve`, the queries; for the operations WITHOUT a check exactly when their room
condition holds (`msgb_pull*`: at most `len` octets; `msgb_trim`: a non-negative length). -/
theorem invariant_preserved {m m' : Msgb} {op : Msgb.Op} {r : Ret} (i : Inv m)
    (h : Msgb.step m op = .ok (m', r)) : Inv m' ↔ op.roomOk m :=
  step_inv i h

/-- `tailroom + len + headroom = data_len` -/
theorem rooms_add_up {m : Msgb} (i : Inv m) : tailroom m + m.len + headroom m = m.dataLen := room_sum i

/-- **Room checks.** `msgb_put(n)` returns normally exactly when `n ≤ tailroom`; otherwise it is the
`MSGB_ABORT` of the header for `n < 2^31`, and for `n ≥ 2^31` (where `(int) len` is negative and the
check passes) the tail pointer leaves the array. -/
theorem put_fails_iff {m : Msgb} (i : Inv m) {n : Nat} (hn : n < 4294967296) :
    (isOk (put m n) = true ↔ (n : Int) ≤ tailroom m) ∧
    (n < 2147483648 → ¬ (n : Int) ≤ tailroom m → put m n = .error .abort) ∧
    (¬ n < 2147483648 → put m n = .error .oob) := by
  refine ⟨by rw [put_room i hn]; simp, fun h1 h2 => put_abort h1 h2, fun h1 => put_huge i h1 hn⟩

/-- `msgb_push(n)` returns normally exactly when `n ≤ headroom`; below 2^31 the failure is `MSGB_ABORT`. -/
theorem push_fails_iff {m : Msgb} (i : Inv m) {n : Nat} (hn : n < 4294967296) :
    (isOk (push m n) = true ↔ (n : Int) ≤ headroom m) ∧
    (n < 2147483648 → ¬ (n : Int) ≤ headroom m → push m n = .error .abort) := by
  refine ⟨by rw [push_room i hn]; simp, fun h1 h2 => push_abort h1 h2⟩

/-- `msgb_get(n)`: `MSGB_ABORT` when the message is shorter than `n` (and the pointer `data − n` can
be formed); it returns normally exactly when `n ≤ len` and `n ≤ headroom` — the second condition only
because of the pointer it computes (see `get_u8_after_put_u8_full_fails`). -/
theorem get_fails_iff {m : Msgb} (i : Inv m) (n : Nat) :
    (isOk (get m n) = true ↔ n ≤ m.len ∧ n ≤ m.data) ∧
    (n ≤ m.data → m.len < n → get m n = .error .abort) := by
  refine ⟨by rw [get_room i n]; simp, fun h1 h2 => get_abort h1 h2⟩

/-- `msgb_pull(n)` has no check at all: it returns normally whenever `data + n` is still inside the
array, and then the invariant survives exactly when `n ≤ len` — pulling more leaves `data` behind
`tail` and `len` wrapped around (`uint16_t`). -/
theorem pull_unchecked {m m' : Msgb} {n p : Nat} (i : Inv m) :
    (isOk (pull m n) = true ↔ m.data + n ≤ m.dataLen) ∧
    (pull m n = .ok (m', p) → (Inv m' ↔ n ≤ m.len)) ∧
    (pull m n = .ok (m', p) → m.len < n → n < 65536 → m'.tail < m'.data ∧ m'.len = m.len + 65536 - n) := by
  refine ⟨by rw [pull_room n]; simp, fun h => pull_inv_iff i h, fun h hlt hn => ?_⟩
  obtain ⟨_, rfl, _⟩ := pull_ok h
  have := i.len; have := i.dt; have := i.te; have := i.dl
  simp only [u16]
  constructor <;> omega

/-! ### octets -/

/-- `memcpy(msgb_put(msg, n), bytes, n)` appends, `memcpy(msgb_push(msg, n), bytes, n)` prepends -/
theorem put_appends_push_prepends {m m' : Msgb} {bs : List Nat} (i : Inv m) :
    (putBytes m bs = .ok m' → body m' = body m ++ bs ∧ Inv m') ∧
    (pushBytes m bs = .ok m' → body m' = bs ++ body m ∧ Inv m') :=
  ⟨fun h => ⟨(putBytes_ok i h).2.1, (putBytes_ok i h).1⟩, fun h => ⟨(pushBytes_ok i h).2.1, (pushBytes_ok i h).1⟩⟩

/-- `msgb_pull(n)` removes the first `n` octets, `msgb_get(n)` the last `n` -/
theorem pull_drops_get_trims {m m' : Msgb} {n p : Nat} (i : Inv m) :
    (pull m n = .ok (m', p) → body m' = (body m).drop n) ∧
    (get m n = .ok (m', p) → body m' = (body m).take (m.len - n)) :=
  ⟨fun h => pull_body h, fun h => get_body i h⟩

/-- `msgb_put_u8/_u16/_u32` append the value big endian (truncated to its width) -/
theorem put_typed (m : Msgb) (w : Nat) :
    putU8 m w = putBytes m [w % 256] ∧
    putU16 m w = putBytes m [w % 65536 / 256 % 256, w % 65536 % 256] ∧
    putU32 m w = putBytes m [w % 4294967296 / 16777216 % 256, w % 4294967296 / 65536 % 256,
      w % 4294967296 / 256 % 256, w % 4294967296 % 256] :=
  ⟨putU8_eq m w, putU16_eq m w, putU32_eq m w⟩

/-- `msgb_pull_u8/_u16/_u32` return the first octets of the message big endian and remove them;
`msgb_pull_u32` only returns when the first octet is below 0x80 (else `space[0] << 24` overflows `int`). -/
theorem pull_typed {m m' : Msgb} {v : Nat} (i : Inv m) :
    (1 ≤ m.len → pullU8 m = .ok (m', v) → body m = v :: body m') ∧
    (2 ≤ m.len → pullU16 m = .ok (m', v) → ∃ a b, body m = a :: b :: body m' ∧ v = a * 256 + b) ∧
    (4 ≤ m.len → pullU32 m = .ok (m', v) → ∃ a b c d, body m = a :: b :: c :: d :: body m' ∧ a < 128 ∧
      v = a * 16777216 + b * 65536 + c * 256 + d) := by
  refine ⟨fun h1 h => (pullU8_ok i h1 h).1, fun h1 h => ?_, fun h1 h => ?_⟩
  · obtain ⟨a, b, h2, h3, _⟩ := pullU16_ok i h1 h
    exact ⟨a, b, h2, h3⟩
  · obtain ⟨a, b, c, d, h2, h3, h4, _⟩ := pullU32_ok i h1 h
    exact ⟨a, b, c, d, h2, h3, h4⟩

/-- a 16 bit value written with `msgb_put_u16` into an empty buffer comes back from `msgb_pull_u16` -/
theorem put_u16_pull_u16 {m m1 m2 : Msgb} {w v : Nat} (i : Inv m) (he : m.len = 0)
    (h1 : putU16 m w = .ok m1) (h2 : pullU16 m1 = .ok (m2, v)) : v = w % 65536 := by
  rw [putU16_eq] at h1
  obtain ⟨i1, hb, _, _, _, _⟩ := putBytes_ok i h1
  have hl : (body m).length = 0 := by rw [body_length i, he]
  have hnil : body m = [] := List.eq_nil_of_length_eq_zero hl
  rw [hnil, List.nil_append] at hb
  have hlen : m1.len = 2 := by rw [← body_length i1, hb]; rfl
  obtain ⟨a, b, hab, hv, _⟩ := pullU16_ok i1 (by omega) h2
  rw [hb] at hab
  simp only [List.cons.injEq] at hab
  obtain ⟨rfl, rfl, _⟩ := hab
  omega

/-! ### inverse pairs -/

/-- `msgb_put(n)` then `msgb_get(n)`, `msgb_push(n)` then `msgb_pull(n)`, `msgb_pull(n)` (within the
message) then `msgb_push(n)`: the buffer is as before. -/
theorem inverse_pairs {m m1 m2 : Msgb} {n p q : Nat} (i : Inv m) :
    (put m n = .ok (m1, p) → get m1 n = .ok (m2, q) → m2 = m) ∧
    (push m n = .ok (m1, p) → pull m1 n = .ok (m2, q) → m2 = m ∧ q = m.data) ∧
    (n ≤ m.len → pull m n = .ok (m1, p) → push m1 n = .ok (m2, q) → m2 = m ∧ q = m.data) :=
  ⟨fun h1 h2 => (put_get_restores i h1 h2).1, fun h1 h2 => push_pull_restores i h1 h2,
   fun hn h1 h2 => pull_push_restores i hn h1 h2⟩

/-- The pointer `msgb_get` returns is `data − n`: `msgb_get_u8` therefore reads the octet in front of
the message (in the headroom), not the octet it removes. -/
theorem get_u8_reads_headroom {m m' : Msgb} {v : Nat} (h : getU8 m = .ok (m', v)) :
    1 ≤ m.data ∧ m.mem[m.data - 1]? = some v :=
  getU8_ok h

/-- what one would expect: the value appended last comes back -/
def get_u8_after_put_u8_full : Prop :=
  ∀ (m m1 m2 : Msgb) (w v : Nat), Inv m → w < 256 → putU8 m w = .ok m1 → getU8 m1 = .ok (m2, v) → v = w

/-- … fails: `sercomm_alloc_msgb(8)`, `msgb_put_u8(0xAA)`, `msgb_get_u8()` returns 0 (the zeroed headroom). -/
theorem get_u8_after_put_u8_full_fails : ¬ get_u8_after_put_u8_full := by
  intro h
  have := h (scBuf 8) { scBuf 8 with tail := 5, len := 1, mem := [0, 0, 0, 0, 0xAA, 0, 0, 0, 0, 0, 0, 0] }
    { scBuf 8 with mem := [0, 0, 0, 0, 0xAA, 0, 0, 0, 0, 0, 0, 0] } 0xAA 0 (scBuf_inv (by decide)) (by decide) rfl rfl
  exact absurd this (by decide)

/-- what `msgb_trim` promises: a length it accepts (returns 0 for) fits the buffer -/
def trim_full : Prop :=
  ∀ (m : Msgb) (n : Int), Inv m → 0 ≤ n → ∀ r, trim m n = .ok r → r.2 = 0 → Inv r.1

/-- … fails with headroom: `msgb_alloc_headroom(8, 4)`, `msgb_trim(msg, 8)`: `8 > data_len` is false,
`tail = data + 8` is 4 octets behind the array — the model's out-of-bounds outcome, so the weaker
statement that an accepted non-negative length never leaves the array fails too. -/
def trim_inside_full : Prop :=
  ∀ (m : Msgb) (n : Int), Inv m → 0 ≤ n → n ≤ m.dataLen → trim m n ≠ .error .oob

theorem trim_full_fails : ¬ trim_inside_full := by
  intro h
  exact h (scBuf 4) 8 (scBuf_inv (by decide)) (by decide) (by decide) rfl

/-- `msgb_trim` with the bound it would need: inside the tailroom it keeps the invariant -/
theorem trim_partial {m : Msgb} (i : Inv m) {n : Int} (h0 : 0 ≤ n) (h1 : (m.data : Int) + n ≤ m.dataLen) :
    ∃ m', trim m n = .ok (m', 0) ∧ Inv m' ∧ m'.len = n.toNat := by
  have := i.dt; have := i.te; have := i.dl
  refine ⟨{ m with len := u16i n, tail := ((m.data : Int) + n).toNat }, ?_, ?_, ?_⟩
  · simp only [trim]
    rw [if_neg (by omega), if_neg (by omega)]
  · refine ⟨i.head, by simp; omega, by simp; omega, ?_, i.mem, i.dl⟩
    simp only [u16i]; omega
  · simp only [u16i]; omega

/-! ### `sercomm_alloc_msgb` -/

/-- For `1 ≤ n ≤ 65531` the buffer has exactly `n` octets of tailroom, 4 of headroom, is empty and
satisfies the invariant.  `n = 0` trips the static assert that is evaluated at run time; from 65532
to 65535 the `uint16_t` size wraps below the headroom and `msgb_reserve` leaves the array. -/
theorem sercomm_alloc_msgb_ok :
    (∀ n, 1 ≤ n → n ≤ 65531 → ∃ m, sercommAlloc n = .ok m ∧ Inv m ∧ tailroom m = n ∧ headroom m = 4 ∧
      m.len = 0 ∧ body m = []) ∧
    sercommAlloc 0 = .error .vla ∧
    (∀ n, 65532 ≤ n → n < 65536 → sercommAlloc n = .error .oob) :=
  ⟨fun n h1 h2 => ⟨scBuf n, sercommAlloc_small h1 h2, scBuf_inv h2, (scBuf_rooms n).1, (scBuf_rooms n).2, rfl,
    scBuf_body n⟩, sercommAlloc_zero, fun n h1 h2 => sercommAlloc_wrap h1 h2⟩

/-! ### the queue -/

/-- **FIFO.** `msgb_enqueue` / `msgb_dequeue` on the linked `struct llist_head` cells
(`__llist_add`, `__llist_del`, poisoning) are a first-in-first-out queue: starting from a list head
that represents the list `l`, every history in which a buffer is enqueued only while it is in no queue
returns exactly what the list queue returns (`none` = NULL on the empty queue), and the cells keep
representing the list (forward and backward links). -/
theorem queue_is_fifo (q : Nat) (ops : List QOp) (h : Heap) (l : List Nat) (hq : IsQueue h q l)
    (hl : qLegal q l ops) :
    (qImplRun q h ops).2 = (qSpecRun l ops).2 ∧ IsQueue (qImplRun q h ops).1 q (qSpecRun l ops).1 :=
  queue_refines q ops h l hq hl

/-- `INIT_LLIST_HEAD` makes the empty queue -/
theorem queue_init (h : Heap) (q : Nat) : IsQueue (initHead h q) q [] := initHead_queue h q

/-! ## Part 2: sercomm.c on these buffers -/

/-- **Refinement.** For every history — any interleaving of `sercomm_sendmsg` (queue index inside
the array; the caller's buffer from `sercomm_alloc_msgb(a)` with `1 ≤ a ≤ 65531` and the payload put
into it no longer than `a`), `sercomm_drv_pull`, pulls fed to `sercomm_drv_rx_char`, and arbitrary
foreign octets — on a configuration whose echo handlers are inside the queue array, starting from
`sercomm_init`:
* the machine on real message buffers does not stop with a fault: no `MSGB_ABORT` (`msgb_push` of the
  header, `msgb_put` of a received octet), no pointer outside a buffer, no read at or behind `tail`;
* its observations (octets pulled, callbacks with DLCI and `msg->data[0 .. msg->len)`, overflow
  returns) are exactly those of the abstract machine of `Model/Sercomm.lean`, and the abstract
  machine reports no fault either;
* the receive buffer, when there is one, satisfies the buffer invariant, has the 4 octets of headroom
  and `SERCOMM_RX_MSG_SIZE + 4` octets in all, and holds exactly the abstract buffer. -/
theorem sercomm_on_msgb_refines (c : Cfg) (size nq : Nat) (allocOf : Nat → Nat) (ops : List Sercomm.Op)
    (h1 : 1 ≤ size) (h2 : size ≤ 65531) (hc : c.cap = size) (hecho : ∀ d, c.echo d = true → d < nq)
    (hops : OpsOk nq allocOf ops) :
    ∃ cw, CWorld.run c size allocOf (CWorld.init nq) ops = .ok cw ∧
      cw.trace = (World.run c (World.init nq) ops).trace ∧
      (World.run c (World.init nq) ops).fault = false ∧
      (World.run c (World.init nq) ops).rx.abort = false ∧
      (match cw.rx.msg with
        | none => (World.run c (World.init nq) ops).rx.msg = none
        | some m => Inv m ∧ m.data = 4 ∧ m.dataLen = size + 4 ∧
            (World.run c (World.init nq) ops).rx.msg = some (body m)) := by
  obtain ⟨cw, hrun, hw⟩ := run_rel (allocOf := allocOf) h1 h2 hc hecho ops (init_rel size nq) hops
  refine ⟨cw, hrun, hw.trace, hw.nofault, hw.rx.abort, ?_⟩
  have := hw.rx.msg
  cases hm : cw.rx.msg with
  | none => rw [hm] at this; exact this
  | some m => rw [hm] at this; exact ⟨this.1.inv, this.1.data, this.1.dataLen, this.2⟩

/-- **No abort, no out-of-bounds access.** Restated as: no fault of any kind is the outcome of any
such history.  With `rx_len_le_cap` of Props/C06 this makes the memory safety of `msgb_put` a
statement about the msgb the code really uses: `len ≤ SERCOMM_RX_MSG_SIZE = tailroom of a fresh
buffer`, and the `MSGB_ABORT` in `msgb_put` is unreachable from `sercomm_drv_rx_char`. -/
theorem no_msgb_fault_reachable (c : Cfg) (size nq : Nat) (allocOf : Nat → Nat) (ops : List Sercomm.Op)
    (h1 : 1 ≤ size) (h2 : size ≤ 65531) (hc : c.cap = size) (hecho : ∀ d, c.echo d = true → d < nq)
    (hops : OpsOk nq allocOf ops) (f : CFault) :
    CWorld.run c size allocOf (CWorld.init nq) ops ≠ .error f := by
  obtain ⟨cw, hrun, _⟩ := sercomm_on_msgb_refines c size nq allocOf ops h1 h2 hc hecho hops
  rw [hrun]
  exact fun h => by cases h

/-- the receive buffer never holds more than `SERCOMM_RX_MSG_SIZE` octets, and `msgb_tailroom` is what
is left of them -/
theorem rx_msgb_bounded (c : Cfg) (size nq : Nat) (allocOf : Nat → Nat) (ops : List Sercomm.Op)
    (h1 : 1 ≤ size) (h2 : size ≤ 65531) (hc : c.cap = size) (hecho : ∀ d, c.echo d = true → d < nq)
    (hops : OpsOk nq allocOf ops) :
    ∃ cw, CWorld.run c size allocOf (CWorld.init nq) ops = .ok cw ∧
      ∀ m, cw.rx.msg = some m → m.len ≤ size ∧ tailroom m = ((size - m.len : Nat) : Int) := by
  obtain ⟨cw, hrun, _, _, _, hm⟩ := sercomm_on_msgb_refines c size nq allocOf ops h1 h2 hc hecho hops
  refine ⟨cw, hrun, fun m hmm => ?_⟩
  rw [hmm] at hm
  obtain ⟨i, hd, hdl, _⟩ := hm
  have := i.dt; have := i.te; have := i.len
  rw [tailroom_eq i]
  constructor <;> omega

/-- **End to end on real buffers.** The histories `end_to_end_partial` (Props/C06) speaks about, run
on the machine with real message buffers: no fault, and the callbacks made / octets pulled are those
of the abstract priority link (identical DLCI and payload, exactly once, FIFO per DLCI, lowest DLCI
first; wire = frames). -/
theorem end_to_end_on_msgb (c : Cfg) (nq : Nat) (allocOf : Nat → Nat) (ops : List Sercomm.Op) (hcfg : CfgOk c)
    (h2 : c.cap ≤ 65531) (hecho : ∀ d, c.echo d = true → d < nq)
    (hops : opsOk c nq Spec.Sercomm.Link.init ops) (halloc : OpsOk nq allocOf ops) :
    ∃ cw, CWorld.run c c.cap allocOf (CWorld.init nq) ops = .ok cw ∧
      deliveries cw.trace.reverse = (specRun c.cap Spec.Sercomm.Link.init ops).delivered.map (fun m => (m.dlci, m.payload)) ∧
      pulledOctets cw.trace.reverse = (specRun c.cap Spec.Sercomm.Link.init ops).wire := by
  obtain ⟨cw, hrun, htr, _⟩ := sercomm_on_msgb_refines c c.cap nq allocOf ops hcfg.1 h2 rfl hecho halloc
  have h := Props.C06.end_to_end_partial c nq ops hcfg hops
  refine ⟨cw, hrun, ?_, ?_⟩
  · rw [htr]; exact h.2.2.2.1
  · rw [htr]; exact h.2.2.2.2

/-! ### non-vacuity -/

/-- the harness' caller: `sercomm_alloc_msgb(max n 1)` -/
def allocHarness (n : Nat) : Nat := max n 1
/-- osmocon's `hdlc_send_to_phone`: `sercomm_alloc_msgb(512)` -/
def allocOsmocon (_ : Nat) : Nat := 512

instance (nq : Nat) (allocOf : Nat → Nat) (op : Sercomm.Op) : Decidable (OpOk nq allocOf op) := by
  cases op <;> simp only [OpOk] <;> infer_instance

instance (nq : Nat) (allocOf : Nat → Nat) (ops : List Sercomm.Op) : Decidable (OpsOk nq allocOf ops) := by
  unfold OpsOk; infer_instance

example : OpsOk nTxQueues allocHarness Props.C06.sampleHistory := by decide +kernel
example : OpsOk nTxQueues allocOsmocon (Props.C06.sampleHistory.take 56) := by decide +kernel
example : ∀ d, Props.C06.cfgTarget.echo d = true → d < nTxQueues := by
  intro d h; simp [Props.C06.cfgTarget] at h; subst h; decide
example : (1 : Nat) ≤ rxMsgSizeTarget + allocSlack ∧ rxMsgSizeHost + allocSlack ≤ 65531 := by decide
/-- a buffer in the middle of its life: `sercomm_alloc_msgb(8)`, three octets put, header pushed -/
example : ∃ m, (do
    let m ← sercommAlloc 8
    let m ← putBytes m [0x7E, 0x00, 0x41]
    pushBytes m [5, 3]) = .ok m ∧ body m = [5, 3, 0x7E, 0x00, 0x41] ∧ Inv m ∧ tailroom m = 5 ∧ headroom m = 2 :=
  ⟨_, rfl, by decide, by decide, by decide, by decide⟩
example : IsQueue (enqueue (enqueue (initHead (fun _ => ⟨0, 0⟩) 1) 1 7) 1 9) 1 [7, 9] :=
  enqueue_refines (enqueue_refines (initHead_queue _ 1) (by decide)) (by decide)
example : qLegal 1 [] ([.enq 7, .enq 9, .deq, .enq 7, .deq, .deq] : List QOp) := by
  simp [qLegal, qSpec]

end OsmoVerif.Props.C06Msgb
