/-
C08 — Firmware TDMA scheduler runs each item exactly in its scheduled frame.

Property theorems only.  Model: `OsmoVerif.Model.TdmaSched` (tdma_sched.c statement by statement, C
widths, array bounds as `Fault.oob`), specification: `OsmoVerif.Spec.TdmaSched` (items "due in d
frames"), lemmas: `OsmoVerif.Lemmas.TdmaSched*`.

Reading guide
* `Inv env s`   : `s` is a well-formed `struct tdma_scheduler` (25 buckets of 8 slots, `num_items ≤ 8`,
                  `cur_bucket < 25`) and every pending callback is a function that reports success in
                  the environment `env` (decidable).  The zero-initialised scheduler at any ring
                  position satisfies it (`init_inv`) and every admissible operation preserves it
                  (`step_safe`), so it holds in every reachable state.
* `OpOk env op` : arguments within the C parameter types, callbacks that report success, item sets
                  terminated by `SCHED_END_SET()` (decidable).
* `abs s d`     : the live items of `bucket[(cur_bucket + d) % 25]` without their `flags`.
* `Env`         : what a callback returns (`ret`) and the scheduler calls it makes from inside when it is
                  invoked (`scripts`, "on the fly" scheduling: `tdma_schedule` / `tdma_schedule_set` for the
                  current frame or a later one; the scheduled callbacks may be scripted themselves).
                  `EnvOk env` (decidable): every scripted call is an admissible operation.
                  `NoReentry env` (decidable): no callback makes a call — the special case of the first
                  version of this file; then `EnvOk env` holds and `flyOps env out = []`
                  (`noReentry_special_case`), so every hypothesis about calls made from inside is void.
* `flyOps env out` : the calls made from inside by the callbacks that the operation with output `out`
                  ran, in order (computed from what ran — a fact about the history, not an assumption
                  about the code).
-/
import OsmoVerif.Lemmas.TdmaSched

set_option linter.unusedVariables false

namespace OsmoVerif.Props.C08
open OsmoVerif OsmoVerif.TdmaSched
open OsmoVerif.Spec.TdmaSched (AItem Due)

/-- The constants of the current tree are the ones the property speaks about (depth 25, capacity 8),
the macros and the array sizes agree, the field widths are the ones the model wraps at, and
`SCHED_END_FRAME()` / `SCHED_END_SET()` are encoded by `cb == NULL` / `cb == &tdma_end_set`. -/
theorem gen_consts :
    Gen.tdmaNumFrames = Spec.TdmaSched.depth ∧ Gen.tdmaNumCb = Spec.TdmaSched.capacity ∧
    Gen.tdmaMacroNumFrames = Gen.tdmaNumFrames ∧ Gen.tdmaMacroNumCb = Gen.tdmaNumCb ∧
    Gen.tdmaWidth_p1 = (8, false) ∧ Gen.tdmaWidth_p2 = (8, false) ∧ Gen.tdmaWidth_p3 = (16, false) ∧
    Gen.tdmaWidth_prio = (16, true) ∧ Gen.tdmaWidth_flags = (16, false) ∧
    Gen.tdmaWidth_num_items = (8, false) ∧ Gen.tdmaWidth_cur_bucket = (8, false) ∧
    Gen.tdmaEndFrame.1 = 0 ∧ Gen.tdmaEndSet.1 = 1 ∧ Gen.tdmaProbeItem.1 = 2 ∧
    Gen.tdmaProbeItem = (2, 11, 13, 0, -7, 0) ∧ Gen.tdmaProbeItemDt = (2, 17, 19, 0, 5, 3) := by
  repeat' apply And.intro
  all_goals decide

/-- The zero-initialised scheduler satisfies the invariant at every ring position and is empty. -/
theorem init_inv (env : Env) (cur : Nat) (h : cur < 25) :
    Inv env (init cur) ∧ abs (init cur) = Spec.TdmaSched.empty :=
  ⟨TdmaSched.init_inv env cur h, abs_init cur h⟩

/-- No admissible operation indexes outside an array or calls a NULL pointer, and the invariant is
preserved: it holds in every state reachable from `init` by admissible operations. -/
theorem step_safe (env : Env) (s : Sched) (op : Op) (hinv : Inv env s) (henv : EnvOk env)
    (hop : OpOk env op) :
    ∃ s' out, step env s op = .ok (s', out) ∧ Inv env s' := by
  obtain ⟨s', out, h1, h2, _, _⟩ := step_spec env s op hinv henv hop
  exact ⟨s', out, h1, h2⟩

/-- ... and so does every history of admissible operations, with callbacks that schedule on the fly
(any nesting; a callback that keeps re-scheduling itself for the current frame included: it is refused
when the frame is full). -/
theorem history_safe (env : Env) (s : Sched) (ops : List Op) (hinv : Inv env s) (henv : EnvOk env)
    (hops : ∀ op ∈ ops, OpOk env op) :
    ∃ s' outs, run env s ops = .ok (s', outs) ∧ Inv env s' :=
  run_safe env henv ops s hinv hops

/-- **The ring position over histories of any length.**  `cur_bucket` (a `uint8_t` in the C code) is,
after any history of admissible operations, the start position plus the number of
`tdma_sched_advance()` calls modulo 25 — after 255, 256, 511, ... advances as well: the value stored by
`sched->cur_bucket = wrap_bucket(1)` never exceeds 24, so the `uint8_t` never rolls over. -/
theorem cur_bucket_ring (env : Env) (s : Sched) (ops : List Op) (hinv : Inv env s) (henv : EnvOk env)
    (hops : ∀ op ∈ ops, OpOk env op) :
    ∃ s' outs, run env s ops = .ok (s', outs) ∧
      s'.cur = (s.cur + advancesBefore ops ops.length) % 25 ∧ s'.cur < 25 := by
  obtain ⟨s', outs, h1, h2, h3⟩ := run_cur env henv ops s hinv hops
  refine ⟨s', outs, h1, ?_, h2.1.2.1⟩
  rw [h3, advancesBefore, List.take_length]

/-- callbacks that do not re-enter the scheduler are the special case in which every hypothesis about
calls made from inside holds trivially -/
theorem noReentry_special_case (env : Env) (h : NoReentry env) :
    EnvOk env ∧ ∀ o : Out, flyOps env o = [] :=
  ⟨noReentry_envOk env h, flyOps_noReentry env h⟩

/-- **Refinement.**  Every operation of the code, from every well-formed state (any `cur_bucket`),
does to the pending work exactly what the abstract "due in d frames" machine does, with the same
return value; the callbacks run by `execute` are a priority-ordered permutation of the items due
now (`OutMatch`).  (For `execute` this plain abstract machine is the specification when callbacks do
not re-enter the scheduler; `execute_on_the_fly` is the statement for callbacks that do.) -/
theorem sched_refines (env : Env) (s : Sched) (op : Op) (hinv : Inv env s) (hop : OpOk env op)
    (hne : op = .execute → NoReentry env) :
    ∃ s' out, step env s op = .ok (s', out) ∧ Inv env s' ∧
      abs s' = (Spec.TdmaSched.step (abs s) (absOp op)).1 ∧
      OutMatch out (Spec.TdmaSched.step (abs s) (absOp op)).2 := by
  obtain ⟨s', out, h1, h2, h3, h4, _⟩ := step_refines env s op hinv hop hne
  exact ⟨s', out, h1, h2, h3, h4⟩

/-- **`tdma_sched_reset()`**, from every well-formed state and every ring position: all pending work of
the 24 later frames is gone (also the frame due in 24, the bucket just behind the current one), the work of the
current frame is kept, nothing runs and 0 callbacks are reported. -/
theorem reset_clears (env : Env) (s : Sched) (hinv : Inv env s) :
    ∃ s' out, step env s .reset = .ok (s', out) ∧ Inv env s' ∧
      abs s' 0 = abs s 0 ∧ (∀ d, d ≠ 0 → abs s' d = []) ∧ out.ran = [] := by
  obtain ⟨s', out, h1, h2, h3, h4⟩ := sched_refines env s .reset hinv trivial (fun h => by cases h)
  refine ⟨s', out, h1, h2, ?_, ?_, ?_⟩
  · rw [h3]; simp only [absOp, Spec.TdmaSched.step, Spec.TdmaSched.reset, if_true]
  · intro d hd
    rw [h3]; simp only [absOp, Spec.TdmaSched.step, Spec.TdmaSched.reset, hd, if_false]
  · have hp : (out.ran.map absItem).Perm [] := h4.2.1
    have := List.Perm.eq_nil hp
    exact List.map_eq_nil_iff.mp this

/-- **Refinement of `execute` with callbacks that schedule on the fly.**  In an admissible
environment `tdma_sched_execute()` never faults, returns the number of callbacks it invoked, and what it
does is an admissible on-the-fly execution (`Spec.TdmaSched.ExecOnTheFly`): the callbacks invoked are a
priority-ordered permutation of the items due when it started, followed by the items that the calls made
from inside added to the current frame, in the order added; the calls made from inside act on the
pending work exactly like the same calls made from outside at that moment (same return values — `-1`
into a full frame, nothing changed); finally the current frame is emptied. -/
theorem execute_on_the_fly (env : Env) (s : Sched) (hinv : Inv env s) (henv : EnvOk env) :
    ∃ s' out, step env s .execute = .ok (s', out) ∧ Inv env s' ∧ out.rc = (out.ran.length : Int) ∧
      out.rets.length = out.ran.length ∧
      Spec.TdmaSched.ExecOnTheFly (absScr env) (abs s) (out.ran.map absItem) (abs s') out.rets.flatten := by
  obtain ⟨s', out, h1, h2, h3, _⟩ := step_spec env s .execute hinv henv trivial
  obtain ⟨a, b, c⟩ := h3 rfl
  exact ⟨s', out, h1, h2, a, b, c⟩

/-- Refinement of whole histories. -/
theorem sched_refines_run (env : Env) (s : Sched) (ops : List Op) (hinv : Inv env s)
    (hne : NoReentry env) (hops : ∀ op ∈ ops, OpOk env op) :
    ∃ s' outs, run env s ops = .ok (s', outs) ∧ Inv env s' ∧
      abs s' = (Spec.TdmaSched.run (abs s) (ops.map absOp)).1 ∧
      OutsMatch outs (Spec.TdmaSched.run (abs s) (ops.map absOp)).2 :=
  run_refines env hne ops s hinv hops

/-- **Priority order.**  `tdma_sched_execute()` first invokes every item the current bucket held when it
started, exactly once (`pre` is a permutation of the bucket), in ascending priority order; then (`fly`)
whatever the callbacks appended to the bucket meanwhile; it returns the number of callbacks invoked.
With callbacks that do not re-enter, `fly = []` and the result is `num_items`.  (Proved for the exchange
sort of `_tdma_sched_bucket_sort` as it is; the order among equal priorities is whatever that sort
produces — it is not stable.) -/
theorem prio_order (env : Env) (s : Sched) (hinv : Inv env s) (henv : EnvOk env) :
    ∃ b s' ran rets pre fly, s.bucket[s.cur]? = some b ∧
      step env s .execute = .ok (s', ⟨(ran.length : Int), ran, rets⟩) ∧
      ran = pre ++ fly ∧ pre.Perm (live b) ∧ pre.Pairwise (fun x y => x.prio ≤ y.prio) ∧
      (NoReentry env → fly = [] ∧ ran.length = b.numItems) := by
  obtain ⟨b, sf, bf, ran, rets, pre, hb, he, hif, hcf, hbf, _, hfold, hm, hran, hperm, hpw⟩ :=
    execute_spec env s hinv henv
  refine ⟨b, clearCur sf bf, ran, rets, pre, (live bf).drop b.numItems, hb, ?_, hran, hperm, hpw, ?_⟩
  · simp only [step, bind, Except.bind, he]; rfl
  · intro hne
    have hs : sf = s := foldCb_noReentry env hne ran s sf rets hfold
    subst hs
    rw [hb] at hbf
    simp only [Option.some.injEq] at hbf
    subst hbf
    refine ⟨?_, hm⟩
    apply List.drop_eq_nil_of_le
    rw [live_length b (invBucketWF env sf hinv sf.cur b hb)]
    exact Nat.le_refl _

/-- **An executed frame is left empty**: `num_items` of the current bucket is 0, nothing is due now, and
every other frame holds what it held plus what the calls made from inside (`flyOps env out`) placed
there — with callbacks that do not re-enter: every other frame is untouched. -/
theorem executed_empty (env : Env) (s : Sched) (hinv : Inv env s) (henv : EnvOk env) :
    ∃ s' out, step env s .execute = .ok (s', out) ∧ s'.cur = s.cur ∧
      (∀ b, s'.bucket[s'.cur]? = some b → b.numItems = 0) ∧
      abs s' 0 = [] ∧
      (∀ d, d ≠ 0 → abs s' d = (Spec.TdmaSched.run (abs s) (flyOps env out)).1 d) ∧
      (NoReentry env → ∀ d, d ≠ 0 → abs s' d = abs s d) := by
  obtain ⟨s', ran, rets, he, hi, hc, _, pre, fly, _, _, _, hdue, _⟩ := execute_refines env s hinv henv
  have h0 : abs s' 0 = [] := by rw [hdue]; simp [Spec.TdmaSched.execute]
  have hd : ∀ d, d ≠ 0 → abs s' d =
      (Spec.TdmaSched.run (abs s) (flyOps env ⟨(ran.length : Int), ran, rets⟩)).1 d := by
    intro d hd
    rw [hdue]; simp [Spec.TdmaSched.execute, hd, flyOps]
  refine ⟨s', ⟨ran.length, ran, rets⟩, ?_, hc, ?_, h0, hd, ?_⟩
  · simp only [step, bind, Except.bind, he]; rfl
  · intro b' hb'
    have hc25 := hi.1.2.1
    have := abs_get s' 0 b' (by decide) (by
      have : (s'.cur + 0) % 25 = s'.cur := by omega
      rw [this]; exact hb')
    rw [h0] at this
    have hl := absBucket_length b' (invBucketWF env s' hi s'.cur b' hb')
    rw [← this] at hl
    simpa using hl.symm
  · intro hne d hd0
    rw [hd d hd0, flyOps_noReentry env hne]
    rfl

/-- **Overflow is reported, nothing is overwritten** (`tdma_schedule`): into a bucket that holds 8
items the call returns −1 and the whole scheduler state is unchanged; otherwise it returns 0 and the
item is appended to the frame `off` ahead (here for every `off < 256`: the frame is `off % 25`). -/
theorem overflow_reported (env : Env) (s : Sched) (off : Nat) (cb : Cb) (p1 p2 p3 : Nat) (prio : Int)
    (hinv : Inv env s) (hop : OpOk env (.schedule off cb p1 p2 p3 prio))
    (b : Bucket) (hb : s.bucket[(s.cur + off) % 25]? = some b) :
    (8 ≤ b.numItems → step env s (.schedule off cb p1 p2 p3 prio) = .ok (s, ⟨-1, [], []⟩)) ∧
    (b.numItems < 8 → ∃ s', step env s (.schedule off cb p1 p2 p3 prio) = .ok (s', ⟨0, [], []⟩) ∧
      abs s' = Spec.TdmaSched.put (abs s) (off % 25) ⟨cb, p1, p2, p3, prio⟩) := by
  obtain ⟨ho, h1, h2, h3, hp1, hp2, hok⟩ := hop
  obtain ⟨s', rc, he, hi, _, ha, hsame, _⟩ :=
    schedule_spec env s off cb p1 p2 p3 prio hinv ho h1 h2 h3 ⟨hp1, hp2⟩ hok
  have hf := full_iff s off b hinv.1 hb
  simp only [Spec.TdmaSched.schedule] at ha
  constructor
  · intro h8
    rw [if_pos (hf.mpr h8)] at ha
    simp only [Prod.mk.injEq] at ha
    have hrc : rc = -1 := ha.2
    simp only [step, bind, Except.bind, he, hrc, hsame hrc]; rfl
  · intro h8
    rw [if_neg (fun h => by have := hf.mp h; omega)] at ha
    simp only [Prod.mk.injEq] at ha
    refine ⟨s', ?_, ?_⟩
    · simp only [step, bind, Except.bind, he, ha.2]; rfl
    · rw [ha.1]; simp only [Spec.TdmaSched.slot, Spec.TdmaSched.depth]

/-- **Overflow is reported, nothing is overwritten** (`tdma_schedule_set`): the call returns either
the number of `SCHED_END_FRAME()` markers or −1 (exactly when some item of the set does not fit);
in both cases every frame keeps all the items it held, in their places (the items of the set placed
before the overflow stay scheduled). -/
theorem overflow_reported_set (env : Env) (s : Sched) (off : Nat) (set : List Item) (p3 : Nat)
    (hinv : Inv env s) (hop : OpOk env (.scheduleSet off set p3)) :
    ∃ s' rc, step env s (.scheduleSet off set p3) = .ok (s', ⟨rc, [], []⟩) ∧
      (∀ d, abs s d <+: abs s' d) ∧
      ((Spec.TdmaSched.putFrames (abs s) off (framesOf p3 set)).2 = false → rc = -1) ∧
      ((Spec.TdmaSched.putFrames (abs s) off (framesOf p3 set)).2 = true → rc = (markers set : Int)) := by
  obtain ⟨he, hm, h3, hok⟩ := hop
  obtain ⟨s', rc, hee, hi, _, ha, _⟩ := scheduleSet_spec env s off set p3 hinv he hm h3 hok
  refine ⟨s', rc, ?_, ?_, ?_, ?_⟩
  · simp only [step, bind, Except.bind, hee]; rfl
  · intro d
    have := Spec.TdmaSched.putFrames_prefix (framesOf p3 set) (abs s) off d
    simp only [Spec.TdmaSched.scheduleSet] at ha
    cases hpf : Spec.TdmaSched.putFrames (abs s) off (framesOf p3 set) with
    | mk due' ok =>
      rw [hpf] at ha this
      cases ok <;> simp only [Prod.mk.injEq] at ha <;> rw [ha.1] <;> exact this
  · intro hfalse
    simp only [Spec.TdmaSched.scheduleSet] at ha
    cases hpf : Spec.TdmaSched.putFrames (abs s) off (framesOf p3 set) with
    | mk due' ok =>
      rw [hpf] at ha hfalse
      simp only at hfalse
      subst hfalse
      simp only [Prod.mk.injEq] at ha
      exact ha.2
  · intro htrue
    simp only [Spec.TdmaSched.scheduleSet] at ha
    cases hpf : Spec.TdmaSched.putFrames (abs s) off (framesOf p3 set) with
    | mk due' ok =>
      rw [hpf] at ha htrue
      simp only at htrue
      subst htrue
      simp only [Prod.mk.injEq] at ha
      rw [ha.2, framesOf_length]
      simp

/-- **Set placement.**  If `tdma_schedule_set(off, set, p3)` does not report an overflow and the
frames of the set stay below the scheduler depth (`off + markers < 25`), then it returns the number of
`SCHED_END_FRAME()` markers, the items after the k-th marker (`(framesOf p3 set)[k]`, with the
common `p3`) are appended to the frame due in `off + k`, in order, and no other frame changes. -/
theorem set_placement (env : Env) (s : Sched) (off : Nat) (set : List Item) (p3 : Nat)
    (hinv : Inv env s) (hop : OpOk env (.scheduleSet off set p3)) (hdepth : off + markers set < 25) :
    ∃ s' rc, step env s (.scheduleSet off set p3) = .ok (s', ⟨rc, [], []⟩) ∧ Inv env s' ∧
      (rc ≠ -1 →
        rc = (markers set : Int) ∧
        (∀ k f, (framesOf p3 set)[k]? = some f → abs s' (off + k) = abs s (off + k) ++ f) ∧
        (∀ d, d < off ∨ off + markers set < d → abs s' d = abs s d)) := by
  obtain ⟨he, hm, h3, hok⟩ := hop
  obtain ⟨s', rc, hee, hi, _, ha, _⟩ := scheduleSet_spec env s off set p3 hinv he hm h3 hok
  refine ⟨s', rc, ?_, hi, ?_⟩
  · simp only [step, bind, Except.bind, hee]; rfl
  · intro hrc
    simp only [Spec.TdmaSched.scheduleSet] at ha
    cases hpf : Spec.TdmaSched.putFrames (abs s) off (framesOf p3 set) with
    | mk due' ok =>
      rw [hpf] at ha
      cases ok with
      | false => simp only [Prod.mk.injEq] at ha; exact absurd ha.2 hrc
      | true =>
        simp only [Prod.mk.injEq] at ha
        have hlen := framesOf_length p3 set
        obtain ⟨hk, ho⟩ := Spec.TdmaSched.putFrames_ok (framesOf p3 set) (abs s) due' off
          (by rw [hlen]; omega) hpf
        rw [ha.1]
        refine ⟨by rw [ha.2, hlen]; simp, hk, ?_⟩
        intro d hd
        exact ho d (by rw [hlen]; omega)

/-! ### exactly once, exactly in its frame -/

/-- operation `i` of `ops` is an `execute` happening when the number of advances so far is `d`
modulo the ring size -/
def hitOp (d : Nat) (ops : List Op) (i : Nat) : Prop :=
  ops[i]? = some .execute ∧ advancesBefore ops i % 25 = d

instance (d : Nat) (ops : List Op) (i : Nat) : Decidable (hitOp d ops i) := by
  unfold hitOp; infer_instance

/-- a sufficient static condition for `NoFlyPlaces`: no script of the environment places `x` -/
theorem noFlyPlaces_of_scripts (env : Env) (x : AItem Cb)
    (h : ∀ e ∈ env.scripts, ∀ c ∈ e.2, x ∉ Spec.TdmaSched.placed (absCall c)) (outs : List Out) :
    NoFlyPlaces env x outs := by
  intro o _ c hc
  simp only [flyOps] at hc
  obtain ⟨y, _, hy⟩ := List.mem_flatMap.mp hc
  simp only [absScr] at hy
  split at hy
  · rename_i id _
    obtain ⟨c0, hc0, rfl⟩ := List.mem_map.mp hy
    obtain ⟨e, he, hce⟩ := scriptOf_mem env id c0 hc0
    exact h e he c0 hce
  · simp at hy

/-- **Ring statement** (no discipline assumed).  An item `x` that is pending exactly once, in the frame
due in `d < 25`, runs — in any history of admissible operations without `reset` in which neither an
operation nor a call made from inside a callback schedules another copy of `x` — exactly once: at the
first `execute` that happens when the number of advances is `d` modulo 25, with the parameters it was
scheduled with; every other operation runs it 0 times.  (An un-executed bucket comes round again 25
advances later.) -/
theorem pending_runs_ring (env : Env) (s : Sched) (x : AItem Cb) (d : Nat) (rest : List Op)
    (hinv : Inv env s) (henv : EnvOk env) (hd : d < 25)
    (h1 : (abs s d).count x = 1) (h0 : ∀ e, e < 25 → e ≠ d → (abs s e).count x = 0)
    (hrest : ∀ op ∈ rest, OpOk env op)
    (hother : ∀ op ∈ rest, x ∉ Spec.TdmaSched.placed (absOp op))
    (hnoreset : ∀ op ∈ rest, isResetOp op = false)
    (hfly : ∀ s' outs, run env s rest = .ok (s', outs) → NoFlyPlaces env x outs) :
    ∃ s' outs, run env s rest = .ok (s', outs) ∧
      ∀ i o, outs[i]? = some o →
        ranCount x o = if hitOp d rest i ∧ ∀ j, j < i → ¬ hitOp d rest j then 1 else 0 := by
  obtain ⟨s', outs, hrun, _, htrack⟩ := run_track_model env henv x rest s (some d) hinv hrest
    (at_of_counts x _ d hd h1 h0) (placed_ne_ops x rest hother)
  refine ⟨s', outs, hrun, ?_⟩
  have hcnt := htrack (placed_ne_fly env x outs (hfly s' outs hrun))
  intro i o ho
  have hi : i < rest.length := by
    have := run_length env rest s s' outs hrun
    have := lt_of_get? _ _ _ ho
    omega
  rw [map_eq_getD (ranCount x) outs _ hcnt i o ho,
    Spec.TdmaSched.track_ring (rest.map absOp) d i hd
      (by intro op hop
          obtain ⟨o', ho', rfl⟩ := List.mem_map.mp hop
          rw [isReset_absOp]; exact hnoreset o' ho')
      (by simpa using hi)]
  apply Spec.TdmaSched.ite_iff
  simp only [Spec.TdmaSched.hit, hitOp, getElem?_isExec_absOp, advBefore_absOp, isExecOp_iff]

/-- **Exactly once, exactly `d` advances later** (firmware discipline: `execute` then `advance`, once per
frame).  An item pending exactly once, due in `d < 25` frames, runs at the `execute` that happens after
exactly `d` advances — once — and at no other operation of the history.  `e` says whether the frame
current at the start has already been executed; `e ∧ d = 0` (an item put into the already executed
current frame) is excluded — the ring statement says what happens then. -/
theorem pending_runs_exactly_at (env : Env) (s : Sched) (x : AItem Cb) (d : Nat) (rest : List Op)
    (e : Bool) (hinv : Inv env s) (henv : EnvOk env) (hd : d < 25)
    (h1 : (abs s d).count x = 1) (h0 : ∀ e', e' < 25 → e' ≠ d → (abs s e').count x = 0)
    (hrest : ∀ op ∈ rest, OpOk env op)
    (hother : ∀ op ∈ rest, x ∉ Spec.TdmaSched.placed (absOp op))
    (hnoreset : ∀ op ∈ rest, isResetOp op = false)
    (hfly : ∀ s' outs, run env s rest = .ok (s', outs) → NoFlyPlaces env x outs)
    (hdisc : disciplined e rest = true) (hed : ¬ (e = true ∧ d = 0)) :
    ∃ s' outs, run env s rest = .ok (s', outs) ∧
      ∀ i o, outs[i]? = some o →
        ranCount x o = if rest[i]? = some .execute ∧ advancesBefore rest i = d then 1 else 0 := by
  obtain ⟨s', outs, hrun, _, htrack⟩ := run_track_model env henv x rest s (some d) hinv hrest
    (at_of_counts x _ d hd h1 h0) (placed_ne_ops x rest hother)
  refine ⟨s', outs, hrun, ?_⟩
  have hcnt := htrack (placed_ne_fly env x outs (hfly s' outs hrun))
  intro i o ho
  have hi : i < rest.length := by
    have := run_length env rest s s' outs hrun
    have := lt_of_get? _ _ _ ho
    omega
  rw [map_eq_getD (ranCount x) outs _ hcnt i o ho,
    Spec.TdmaSched.track_disciplined (rest.map absOp) e d i hd
      (by rw [disciplined_absOp]; exact hdisc)
      (by intro op hop
          obtain ⟨o', ho', rfl⟩ := List.mem_map.mp hop
          rw [isReset_absOp]; exact hnoreset o' ho')
      hed (by simpa using hi)]
  apply Spec.TdmaSched.ite_iff
  simp only [getElem?_isExec_absOp, advBefore_absOp, isExecOp_iff]

/-- **runs_exactly_at** — the property as stated.  `tdma_schedule(off, cb, p1, p2, p3, prio)` with
`off < 25` into a frame that has room returns 0, and then, under the firmware discipline, for every
continuation of admissible operations (any scheduling traffic, overflowing or not, from outside or from
inside callbacks) the callback `cb(p1, p2, p3)` of that item is invoked exactly once: by the `execute`
that follows exactly `off` advances; no other operation invokes it.  (`x` is identified by callback,
parameters and priority; it is assumed distinguishable: not already pending and not scheduled again.) -/
theorem runs_exactly_at (env : Env) (s : Sched) (off : Nat) (cb : Cb) (p1 p2 p3 : Nat) (prio : Int)
    (rest : List Op) (e : Bool) (hinv : Inv env s) (henv : EnvOk env) (hoff : off < 25)
    (hop : OpOk env (.schedule off cb p1 p2 p3 prio))
    (hroom : (abs s off).length < 8)
    (hfresh : ∀ d, d < 25 → (⟨cb, p1, p2, p3, prio⟩ : AItem Cb) ∉ abs s d)
    (hrest : ∀ op ∈ rest, OpOk env op)
    (hother : ∀ op ∈ rest, (⟨cb, p1, p2, p3, prio⟩ : AItem Cb) ∉ Spec.TdmaSched.placed (absOp op))
    (hnoreset : ∀ op ∈ rest, isResetOp op = false)
    (hfly : ∀ s1 o s' outs, step env s (.schedule off cb p1 p2 p3 prio) = .ok (s1, o) →
      run env s1 rest = .ok (s', outs) → NoFlyPlaces env ⟨cb, p1, p2, p3, prio⟩ outs)
    (hdisc : disciplined e rest = true) (hed : ¬ (e = true ∧ off = 0)) :
    ∃ s1 s' outs, step env s (.schedule off cb p1 p2 p3 prio) = .ok (s1, ⟨0, [], []⟩) ∧
      run env s1 rest = .ok (s', outs) ∧
      ∀ i o, outs[i]? = some o →
        ranCount ⟨cb, p1, p2, p3, prio⟩ o =
          if rest[i]? = some .execute ∧ advancesBefore rest i = off then 1 else 0 := by
  obtain ⟨ho, hw1, hw2, hw3, hp1, hp2, hok⟩ := hop
  obtain ⟨s1, rc, he, hi1, _, ha, _⟩ :=
    schedule_spec env s off cb p1 p2 p3 prio hinv ho hw1 hw2 hw3 ⟨hp1, hp2⟩ hok
  have hslot : Spec.TdmaSched.slot off = off := by
    simp only [Spec.TdmaSched.slot, Spec.TdmaSched.depth]; omega
  have hnf : ¬ Spec.TdmaSched.full (abs s) off := by
    simp only [Spec.TdmaSched.full, Spec.TdmaSched.capacity]; omega
  simp only [Spec.TdmaSched.schedule, hslot] at ha
  rw [if_neg hnf] at ha
  simp only [Prod.mk.injEq] at ha
  obtain ⟨ha1, ha2⟩ := ha
  have hstep : step env s (.schedule off cb p1 p2 p3 prio) = .ok (s1, ⟨0, [], []⟩) := by
    simp only [step, bind, Except.bind, he, ha2]; rfl
  have hc1 : (abs s1 off).count (⟨cb, p1, p2, p3, prio⟩ : AItem Cb) = 1 := by
    rw [ha1]
    simp only [Spec.TdmaSched.put, if_true, List.count_append, List.count_singleton, beq_self_eq_true]
    rw [List.count_eq_zero.mpr (hfresh off hoff)]
  have hc0 : ∀ e', e' < 25 → e' ≠ off → (abs s1 e').count (⟨cb, p1, p2, p3, prio⟩ : AItem Cb) = 0 := by
    intro e' he' hne
    rw [ha1]
    simp only [Spec.TdmaSched.put, hne, if_false]
    exact List.count_eq_zero.mpr (hfresh e' he')
  obtain ⟨s', outs, hrun, hcount⟩ :=
    pending_runs_exactly_at env s1 ⟨cb, p1, p2, p3, prio⟩ off rest e hi1 henv hoff hc1 hc0 hrest hother
      hnoreset (fun s' outs hr => hfly s1 _ s' outs hstep hr) hdisc hed
  exact ⟨s1, s', outs, hstep, hrun, hcount⟩

/-- **Sets run frame by frame.**  An item of the k-th frame of a successfully scheduled set
(`off + k < 25`) runs, under the firmware discipline, exactly once: at the `execute` that follows exactly
`off + k` advances — k frames after the items of the set's first frame. -/
theorem set_runs_exactly_at (env : Env) (s : Sched) (off : Nat) (set : List Item) (p3 : Nat)
    (k : Nat) (f : List (AItem Cb)) (x : AItem Cb) (rest : List Op) (e : Bool)
    (hinv : Inv env s) (henv : EnvOk env) (hop : OpOk env (.scheduleSet off set p3))
    (hdepth : off + markers set < 25)
    (hk : (framesOf p3 set)[k]? = some f) (hx1 : f.count x = 1)
    (hx0 : ∀ k' f', k' ≠ k → (framesOf p3 set)[k']? = some f' → x ∉ f')
    (hfresh : ∀ d, d < 25 → x ∉ abs s d)
    (hrest : ∀ op ∈ rest, OpOk env op)
    (hother : ∀ op ∈ rest, x ∉ Spec.TdmaSched.placed (absOp op))
    (hnoreset : ∀ op ∈ rest, isResetOp op = false)
    (hfly : ∀ s1 o s' outs, step env s (.scheduleSet off set p3) = .ok (s1, o) →
      run env s1 rest = .ok (s', outs) → NoFlyPlaces env x outs)
    (hdisc : disciplined e rest = true) (hed : ¬ (e = true ∧ off + k = 0)) :
    ∃ s1 rc, step env s (.scheduleSet off set p3) = .ok (s1, ⟨rc, [], []⟩) ∧
      (rc ≠ -1 → ∃ s' outs, run env s1 rest = .ok (s', outs) ∧
        ∀ i o, outs[i]? = some o →
          ranCount x o = if rest[i]? = some .execute ∧ advancesBefore rest i = off + k then 1 else 0) := by
  obtain ⟨s1, rc, hstep, hi1, hpl⟩ := set_placement env s off set p3 hinv hop hdepth
  refine ⟨s1, rc, hstep, ?_⟩
  intro hrc
  obtain ⟨_, hfr, hun⟩ := hpl hrc
  have hlen := framesOf_length p3 set
  have hklt : k < markers set + 1 := by rw [← hlen]; exact lt_of_get? _ _ _ hk
  have hc1 : (abs s1 (off + k)).count x = 1 := by
    rw [hfr k f hk, List.count_append, List.count_eq_zero.mpr (hfresh _ (by omega)), hx1]
  have hc0 : ∀ e', e' < 25 → e' ≠ off + k → (abs s1 e').count x = 0 := by
    intro e' he' hne
    by_cases hin : off ≤ e' ∧ e' ≤ off + markers set
    · have hk' : e' - off < (framesOf p3 set).length := by rw [hlen]; omega
      have hget : (framesOf p3 set)[e' - off]? = some (framesOf p3 set)[e' - off] := by simp [hk']
      have := hfr (e' - off) _ hget
      have e1 : off + (e' - off) = e' := by omega
      rw [e1] at this
      rw [this, List.count_append, List.count_eq_zero.mpr (hfresh _ he'),
        List.count_eq_zero.mpr (hx0 (e' - off) _ (by omega) hget)]
    · rw [hun e' (by omega)]
      exact List.count_eq_zero.mpr (hfresh _ he')
  exact pending_runs_exactly_at env s1 x (off + k) rest e hi1 henv (by omega) hc1 hc0 hrest hother hnoreset
    (fun s' outs hr => hfly s1 _ s' outs hstep hr) hdisc hed

/-- **Nothing else runs.**  An item that is pending nowhere and is never scheduled — neither by an
operation nor by a call made from inside a callback — is never run: in every history of admissible
operations (any order, `reset` included) each callback invocation comes from an item that was pending or
has been scheduled.  Together with `prio_order` (an `execute` runs exactly the items due now and what
was added to the current frame meanwhile) and `pending_runs_ring` (a pending item runs only in its own
frame) nothing runs in a frame it was not scheduled for. -/
theorem nothing_else_runs (env : Env) (s : Sched) (x : AItem Cb) (ops : List Op)
    (hinv : Inv env s) (henv : EnvOk env) (hnone : ∀ d, d < 25 → x ∉ abs s d)
    (hops : ∀ op ∈ ops, OpOk env op)
    (hother : ∀ op ∈ ops, x ∉ Spec.TdmaSched.placed (absOp op))
    (hfly : ∀ s' outs, run env s ops = .ok (s', outs) → NoFlyPlaces env x outs) :
    ∃ s' outs, run env s ops = .ok (s', outs) ∧ ∀ o ∈ outs, x ∉ o.ran.map absItem := by
  have hat : Spec.TdmaSched.At x (abs s) none :=
    ⟨fun d h => by simp at h, fun e he => by simpa using List.count_eq_zero.mpr (hnone e he)⟩
  obtain ⟨s', outs, hrun, _, htrack⟩ := run_track_model env henv x ops s none hinv hops hat
    (placed_ne_ops x ops hother)
  refine ⟨s', outs, hrun, ?_⟩
  have hcnt := htrack (placed_ne_fly env x outs (hfly s' outs hrun))
  intro o ho
  obtain ⟨i, hi⟩ := List.mem_iff_getElem?.mp ho
  have := map_eq_getD (ranCount x) outs _ hcnt i o hi
  rw [Spec.TdmaSched.track_none] at this
  exact List.count_eq_zero.mp this

/-! ### scheduling on the fly: calls made from inside a callback while `execute` runs -/

/-- **A call from inside is the same call.**  `tdma_schedule()` / `tdma_schedule_set()` called by a
callback act on the live scheduler exactly like the same call made between operations — so
`overflow_reported`, `overflow_reported_set` and `set_placement` hold verbatim for calls made from
inside: overflow from inside a callback is reported (`-1`) and changes nothing. -/
theorem call_inside_is_call (env : Env) (s : Sched) (c : Call) :
    step env s c.toOp = (runCall s c).map (fun r => (r.1, ⟨r.2, [], []⟩)) := by
  cases c with
  | schedule off cb p1 p2 p3 prio =>
    simp only [Call.toOp, step, runCall, bind, Except.bind, Except.map]
    cases schedule s off cb p1 p2 p3 prio <;> rfl
  | scheduleSet off set p3 =>
    simp only [Call.toOp, step, runCall, bind, Except.bind, Except.map]
    cases scheduleSet s off set p3 <;> rfl

/-- overflow from inside a callback: `tdma_schedule()` into a bucket that holds 8 items (the bucket
being executed included — it still holds the items that already ran) returns −1 to the callback and
the scheduler state is unchanged -/
theorem overflow_inside_reported (env : Env) (s : Sched) (off : Nat) (cb : Cb) (p1 p2 p3 : Nat) (prio : Int)
    (hinv : Inv env s) (hop : OpOk env (.schedule off cb p1 p2 p3 prio))
    (b : Bucket) (hb : s.bucket[(s.cur + off) % 25]? = some b) (h8 : 8 ≤ b.numItems) :
    runCall s (.schedule off cb p1 p2 p3 prio) = .ok (s, -1) := by
  have h1 := (overflow_reported env s off cb p1 p2 p3 prio hinv hop b hb).1 h8
  have h2 := call_inside_is_call env s (.schedule off cb p1 p2 p3 prio)
  simp only [Call.toOp] at h2
  rw [h1] at h2
  cases hr : runCall s (.schedule off cb p1 p2 p3 prio) with
  | error f => rw [hr] at h2; simp [Except.map] at h2
  | ok r =>
    rw [hr] at h2
    simp only [Except.map, Except.ok.injEq, Prod.mk.injEq, Out.mk.injEq, and_true] at h2
    obtain ⟨a1, a2⟩ := h2
    rw [a1, a2]

/-- **Nothing scheduled on the fly is lost.**  When `tdma_sched_execute()` clears the bucket, every item
the frame held at that moment — the ones due at the start and every one added from inside — has been
run exactly once (`Perm`); every other frame holds what the calls from inside made of it; the return
values given to the callbacks are those of the same calls made from outside. -/
theorem onfly_nothing_lost (env : Env) (s : Sched) (hinv : Inv env s) (henv : EnvOk env) :
    ∃ s' out, step env s .execute = .ok (s', out) ∧
      (out.ran.map absItem).Perm ((Spec.TdmaSched.run (abs s) (flyOps env out)).1 0) ∧
      abs s' 0 = [] ∧
      (∀ d, d ≠ 0 → abs s' d = (Spec.TdmaSched.run (abs s) (flyOps env out)).1 d) ∧
      out.rets.flatten = (Spec.TdmaSched.run (abs s) (flyOps env out)).2.map (·.rc) := by
  obtain ⟨s', out, h1, _, _, _, hx⟩ := execute_on_the_fly env s hinv henv
  have hperm := Spec.TdmaSched.execOnTheFly_perm (absScr env) (abs s) (abs s') _ _ (absScr_isCall env) hx
  obtain ⟨pre, fly, _, _, _, hdue, hrets⟩ := hx
  refine ⟨s', out, h1, hperm, ?_, ?_, hrets⟩
  · rw [hdue]; simp [Spec.TdmaSched.execute]
  · intro d hd
    rw [hdue]; simp [Spec.TdmaSched.execute, hd, flyOps]

/-- **An item scheduled on the fly for a later frame** (`tdma_schedule(off, ..)` with `1 ≤ off < 25`
called by a callback while frame F is executed, the call returned 0) does not run in frame F and then,
under the firmware discipline, runs exactly once: at the `execute` that follows exactly `off` advances —
in frame F + off — with its parameters; no other operation invokes it.  The call is identified by its
position in `flyOps env out` (the calls made from inside during this `execute`, in order) and its
return value by the same position in `out.rets`; `x` is assumed distinguishable (not pending, not
scheduled by another call from inside or operation). -/
theorem onfly_runs_exactly_at (env : Env) (s s1 : Sched) (out : Out) (off : Nat) (x : AItem Cb)
    (pre post : List (Spec.TdmaSched.Op Cb)) (rest : List Op)
    (hinv : Inv env s) (henv : EnvOk env) (hoff1 : 1 ≤ off) (hoff : off < 25)
    (hexec : step env s .execute = .ok (s1, out))
    (hsplit : flyOps env out = pre ++ Spec.TdmaSched.Op.schedule off x :: post)
    (hret : out.rets.flatten[pre.length]? = some 0)
    (hfresh : ∀ d, d < 25 → x ∉ abs s d)
    (hpre : ∀ c ∈ pre, x ∉ Spec.TdmaSched.placed c) (hpost : ∀ c ∈ post, x ∉ Spec.TdmaSched.placed c)
    (hrest : ∀ op ∈ rest, OpOk env op)
    (hother : ∀ op ∈ rest, x ∉ Spec.TdmaSched.placed (absOp op))
    (hnoreset : ∀ op ∈ rest, isResetOp op = false)
    (hfly : ∀ s' outs, run env s1 rest = .ok (s', outs) → NoFlyPlaces env x outs)
    (hdisc : disciplined true rest = true) :
    ranCount x out = 0 ∧
    ∃ s' outs, run env s1 rest = .ok (s', outs) ∧
      ∀ i o, outs[i]? = some o →
        ranCount x o = if rest[i]? = some .execute ∧ advancesBefore rest i = off then 1 else 0 := by
  obtain ⟨s1', out', h1, hi1, _, _, hx⟩ := execute_on_the_fly env s hinv henv
  rw [hexec] at h1
  simp only [Except.ok.injEq, Prod.mk.injEq] at h1
  obtain ⟨e1, e2⟩ := h1
  subst e1; subst e2
  have hat : Spec.TdmaSched.At x (abs s) none :=
    ⟨fun d h => by simp at h, fun e he => by simpa using List.count_eq_zero.mpr (hfresh e he)⟩
  obtain ⟨hcnt, hat1, _⟩ := Spec.TdmaSched.execOnTheFly_fresh (absScr env) (abs s) (abs s1) _ _ x pre post off
    hoff (absScr_isCall env) hx hat hsplit
    (fun c hc it hit hxx => by subst hxx; exact hpre c hc hit)
    (fun c hc it hit hxx => by subst hxx; exact hpost c hc hit) hret
  have hne : off ≠ 0 := by omega
  simp only [hne, if_false] at hcnt hat1
  refine ⟨hcnt, ?_⟩
  have hc1 : (abs s1 off).count x = 1 := by simpa using hat1.2 off hoff
  have hc0 : ∀ e', e' < 25 → e' ≠ off → (abs s1 e').count x = 0 := by
    intro e' he' hne'
    have := hat1.2 e' he'
    have hn : ¬ (some off = some e') := by simp only [Option.some.injEq]; omega
    simpa [hn] using this
  exact pending_runs_exactly_at env s1 x off rest true hi1 henv hoff hc1 hc0 hrest hother hnoreset hfly hdisc
    (by simp [hne])

/-- **An item of a set scheduled on the fly** (`tdma_schedule_set(off, set, p3)` called by a callback
while frame F is executed, no overflow reported; `fs` = the frames of the set as `flyOps` shows them,
`off + fs.length ≤ 25`): the item `x` of its `k`-th frame, `off + k ≥ 1`, does not run in frame F and
then, under the firmware discipline, runs exactly once, at the `execute` that follows exactly `off + k`
advances — `k` frames after the items of the set's first frame. -/
theorem onfly_set_runs_exactly_at (env : Env) (s s1 : Sched) (out : Out) (off k : Nat)
    (fs : List (List (AItem Cb))) (f : List (AItem Cb)) (x : AItem Cb) (r : Int)
    (pre post : List (Spec.TdmaSched.Op Cb)) (rest : List Op)
    (hinv : Inv env s) (henv : EnvOk env) (hpos : 1 ≤ off + k) (hdepth : off + fs.length ≤ 25)
    (hexec : step env s .execute = .ok (s1, out))
    (hsplit : flyOps env out = pre ++ Spec.TdmaSched.Op.scheduleSet off fs :: post)
    (hret : out.rets.flatten[pre.length]? = some r) (hr : r ≠ -1)
    (hk : fs[k]? = some f) (hx1 : f.count x = 1)
    (hx0 : ∀ k' f', k' ≠ k → fs[k']? = some f' → x ∉ f')
    (hfresh : ∀ d, d < 25 → x ∉ abs s d)
    (hpre : ∀ c ∈ pre, x ∉ Spec.TdmaSched.placed c) (hpost : ∀ c ∈ post, x ∉ Spec.TdmaSched.placed c)
    (hrest : ∀ op ∈ rest, OpOk env op)
    (hother : ∀ op ∈ rest, x ∉ Spec.TdmaSched.placed (absOp op))
    (hnoreset : ∀ op ∈ rest, isResetOp op = false)
    (hfly : ∀ s' outs, run env s1 rest = .ok (s', outs) → NoFlyPlaces env x outs)
    (hdisc : disciplined true rest = true) :
    ranCount x out = 0 ∧
    ∃ s' outs, run env s1 rest = .ok (s', outs) ∧
      ∀ i o, outs[i]? = some o →
        ranCount x o = if rest[i]? = some .execute ∧ advancesBefore rest i = off + k then 1 else 0 := by
  obtain ⟨s1', out', h1, hi1, _, _, hx⟩ := execute_on_the_fly env s hinv henv
  rw [hexec] at h1
  simp only [Except.ok.injEq, Prod.mk.injEq] at h1
  obtain ⟨e1, e2⟩ := h1
  subst e1; subst e2
  have hat : Spec.TdmaSched.At x (abs s) none :=
    ⟨fun d h => by simp at h, fun e he => by simpa using List.count_eq_zero.mpr (hfresh e he)⟩
  have hklt : k < fs.length := (List.getElem?_eq_some_iff.mp hk).1
  obtain ⟨hcnt, hat1, _⟩ := Spec.TdmaSched.execOnTheFly_fresh_set (absScr env) (abs s) (abs s1) _ _ x pre post
    off k fs f r hdepth (absScr_isCall env) hx hat hsplit
    (fun c hc it hit hxx => by subst hxx; exact hpre c hc hit)
    (fun c hc it hit hxx => by subst hxx; exact hpost c hc hit) hk hx1 hx0 hret hr
  have hne : off + k ≠ 0 := by omega
  simp only [hne, if_false] at hcnt hat1
  refine ⟨hcnt, ?_⟩
  have hlt : off + k < 25 := by omega
  have hc1 : (abs s1 (off + k)).count x = 1 := by simpa using hat1.2 (off + k) hlt
  have hc0 : ∀ e', e' < 25 → e' ≠ off + k → (abs s1 e').count x = 0 := by
    intro e' he' hne'
    have := hat1.2 e' he'
    have hn : ¬ (some (off + k) = some e') := by simp only [Option.some.injEq]; omega
    simpa [hn] using this
  exact pending_runs_exactly_at env s1 x (off + k) rest true hi1 henv hlt hc1 hc0 hrest hother hnoreset hfly
    hdisc (fun h => hne h.2)

/-- **An item scheduled on the fly for the current frame** (`tdma_schedule(0, ..)` called by a callback
while `execute` runs, the call returned 0) runs exactly once in the SAME `execute`: the invoked callbacks
are `p ++ f`, where `p` is a permutation of the items that were pending when `execute` started (`x` is
not among them) and `f` — containing `x` once — is what the calls from inside appended to the current
frame, in the order appended (`seq[]` is the identity beyond the sorted prefix: no priorities among
them).  Afterwards `x` is pending nowhere: no later operation of any admissible history (any order,
`reset` included) invokes it again. -/
theorem onfly_same_frame (env : Env) (s s1 : Sched) (out : Out) (x : AItem Cb)
    (pre post : List (Spec.TdmaSched.Op Cb)) (rest : List Op)
    (hinv : Inv env s) (henv : EnvOk env)
    (hexec : step env s .execute = .ok (s1, out))
    (hsplit : flyOps env out = pre ++ Spec.TdmaSched.Op.schedule 0 x :: post)
    (hret : out.rets.flatten[pre.length]? = some 0)
    (hfresh : ∀ d, d < 25 → x ∉ abs s d)
    (hpre : ∀ c ∈ pre, x ∉ Spec.TdmaSched.placed c) (hpost : ∀ c ∈ post, x ∉ Spec.TdmaSched.placed c)
    (hrest : ∀ op ∈ rest, OpOk env op)
    (hother : ∀ op ∈ rest, x ∉ Spec.TdmaSched.placed (absOp op))
    (hfly : ∀ s' outs, run env s1 rest = .ok (s', outs) → NoFlyPlaces env x outs) :
    ranCount x out = 1 ∧
    (∃ p f, out.ran.map absItem = p ++ f ∧ p.Perm (abs s 0) ∧ x ∉ p ∧ f.count x = 1 ∧
      f = ((Spec.TdmaSched.run (abs s) (flyOps env out)).1 0).drop (abs s 0).length) ∧
    ∃ s' outs, run env s1 rest = .ok (s', outs) ∧ ∀ o ∈ outs, ranCount x o = 0 := by
  obtain ⟨s1', out', h1, hi1, _, _, hx⟩ := execute_on_the_fly env s hinv henv
  rw [hexec] at h1
  simp only [Except.ok.injEq, Prod.mk.injEq] at h1
  obtain ⟨e1, e2⟩ := h1
  subst e1; subst e2
  have hat : Spec.TdmaSched.At x (abs s) none :=
    ⟨fun d h => by simp at h, fun e he => by simpa using List.count_eq_zero.mpr (hfresh e he)⟩
  obtain ⟨hcnt, hat1, hord⟩ := Spec.TdmaSched.execOnTheFly_fresh (absScr env) (abs s) (abs s1) _ _ x pre post 0
    (by decide) (absScr_isCall env) hx hat hsplit
    (fun c hc it hit hxx => by subst hxx; exact hpre c hc hit)
    (fun c hc it hit hxx => by subst hxx; exact hpost c hc hit) hret
  simp only [if_true] at hcnt hat1
  refine ⟨hcnt, hord rfl, ?_⟩
  obtain ⟨s', outs, hrun, _, htrack⟩ := run_track_model env henv x rest s1 none hi1 hrest hat1
    (placed_ne_ops x rest hother)
  refine ⟨s', outs, hrun, ?_⟩
  have hc := htrack (placed_ne_fly env x outs (hfly s' outs hrun))
  intro o ho
  obtain ⟨i, hi⟩ := List.mem_iff_getElem?.mp ho
  have := map_eq_getD (ranCount x) outs _ hc i o hi
  rw [Spec.TdmaSched.track_none] at this
  exact this

/-- **Error path** (outside the property's premise "callbacks report success", stated for the record):
when `tdma_sched_execute()` returns a negative value a callback failed; the bucket is not cleared, and
the scheduler state is exactly what the scheduler calls of the callbacks that ran made of it (`foldCb`) —
with callbacks that do not re-enter: exactly what it was, so the items of the bucket, including the ones
that already ran, stay scheduled (see the example below: they run again). -/
theorem execute_error_keeps_bucket (env : Env) (s s' : Sched) (out : Out)
    (h : step env s .execute = .ok (s', out)) (hrc : out.rc < 0) :
    foldCb env s out.ran = .ok (s', out.rets) ∧ (NoReentry env → s' = s) := by
  simp only [step, bind, Except.bind] at h
  cases he : execute env s with
  | error f => simp [he] at h
  | ok r =>
    obtain ⟨s1, rc, ran, rets⟩ := r
    simp only [he, pure, Except.pure, Except.ok.injEq, Prod.mk.injEq] at h
    obtain ⟨h1, h2⟩ := h
    subst h1
    rw [← h2] at hrc ⊢
    have hf := execute_error_state env s s1 rc ran rets he hrc
    exact ⟨hf, fun hne => foldCb_noReentry env hne ran s s1 rets hf⟩

/-! ### non-vacuity: the hypotheses are satisfiable by non-trivial values, and the conclusions are what
the model computes (each history below was also run on the real C code, same observations) -/

/-- every callback reports success -/
def env0 : Env := ⟨fun _ _ _ _ => 0, []⟩
/-- callback 10 reports an error -/
def env1 : Env := ⟨fun id _ _ _ => if id = 10 then -1 else 0, []⟩

def frames (n : Nat) : List Op := (List.replicate n [Op.execute, Op.advance]).flatten

/-- scheduling traffic in the current frame, then 25 disciplined frames -/
def restEx : List Op :=
  [.schedule 24 (.fn 4) 0 0 0 0, .execute, .schedule 1 (.fn 5) 1 1 1 7, .advance] ++ frames 25

def xEx : AItem Cb := ⟨.fn 3, 255, 255, 65535, -32768⟩

/-- what a history shows: per operation the return value and the `p1` of the items run, in order -/
def obs (env : Env) (s : Sched) (ops : List Op) : Option (List (Int × List Nat)) :=
  (run env s ops).toOption.map (fun r => r.2.map (fun o => (o.rc, o.ran.map (·.p1))))

-- hypotheses of `runs_exactly_at` at the extreme values: ring position 23, offset 24, all-ones parameters
example : Inv env0 (init 23) ∧ OpOk env0 (.schedule 24 (.fn 3) 255 255 65535 (-32768)) ∧
    (abs (init 23) 24).length < 8 ∧ disciplined false restEx = true ∧ (∀ op ∈ restEx, OpOk env0 op) ∧
    (∀ op ∈ restEx, isResetOp op = false) ∧
    (∀ op ∈ restEx, xEx ∉ Spec.TdmaSched.placed (absOp op)) := by decide
example : ∀ d, d < 25 → xEx ∉ abs (init 23) d := by decide +kernel
-- ... and its conclusion evaluated: 52 operations, the item runs at the execute after 24 advances only
example : (run env0 (init 23) (.schedule 24 (.fn 3) 255 255 65535 (-32768) :: restEx)).toOption.map
    (fun r => r.2.map (ranCount xEx)) =
    some ([0, 0, 0, 0, 0] ++ (List.replicate 23 [0, 0]).flatten ++ [1, 0, 0, 0]) := by decide +kernel

-- a well-formed state that is not `init`: a full bucket, negative and equal priorities, stale slots
def sFull : Option Sched :=
  (run env0 (init 24) ((List.range 9).map (fun k => Op.schedule 1 (.fn k) k 0 0 (if k % 2 = 0 then -3 else 3)))).toOption.map (·.1)
example : sFull.map (fun s => decide (Inv env0 s)) = some true := by decide +kernel
-- overflow: the 9th item is refused (-1), the 8 others run one advance later, negative priorities first
example : obs env0 (init 24) ((List.range 9).map (fun k => Op.schedule 1 (.fn k) k 0 0 (if k % 2 = 0 then -3 else 3))
      ++ [.advance, .execute, .execute]) =
    some ((List.replicate 8 (0, [])) ++ [(-1, []), (0, []), (8, [0, 2, 4, 6, 1, 5, 3, 7]), (0, [])]) := by
  decide +kernel

-- the exchange sort is not stable: equal priorities 2 (p1 = 1), 2 (p1 = 2) behind a 1 (p1 = 3) swap
example : obs env0 (init 0) [.schedule 0 (.fn 1) 1 0 0 2, .schedule 0 (.fn 2) 2 0 0 2, .schedule 0 (.fn 3) 3 0 0 1,
    .execute] = some [(0, []), (0, []), (0, []), (3, [3, 2, 1])] := by decide +kernel

-- an item set: 2 frames, elements after SCHED_END_SET() ignored, common p3
def setEx : List Item :=
  [⟨.fn 1, 1, 0, 0, 5, 3⟩, ⟨.fn 2, 2, 0, 0, -1, 0⟩, ⟨.null, 0, 0, 0, 0, 0⟩, ⟨.fn 3, 3, 0, 0, 0, 0⟩,
   ⟨.endSet, 0, 0, 0, 0, 0⟩, ⟨.fn 4, 4, 0, 0, 0, 0⟩]
example : OpOk env0 (.scheduleSet 23 setEx 77) ∧ 23 + markers setEx < 25 ∧
    framesOf 77 setEx = [[⟨.fn 1, 1, 0, 77, 5⟩, ⟨.fn 2, 2, 0, 77, -1⟩], [⟨.fn 3, 3, 0, 77, 0⟩]] := by decide
example : obs env0 (init 7) ([.scheduleSet 23 setEx 77] ++ frames 25) =
    some ([(1, [])] ++ (List.replicate 23 [(0, []), (0, [])]).flatten ++
      [(2, [2, 1]), (0, []), (1, [3]), (0, [])]) := by decide +kernel

-- a long history: 300 frames from ring position 7, an item scheduled 24 frames ahead in frame 250 (pending
-- while the number of advances passes 255) runs in frame 274 and in no other; cur_bucket ends at (7 + 300) % 25
example : (run env0 (init 7) (frames 250 ++ Op.schedule 24 (.fn 3) 1 2 3 0 :: frames 50)).toOption.map
    (fun r => (r.1.cur, (r.2.map (ranCount ⟨.fn 3, 1, 2, 3, 0⟩)).sum,
      (r.2.map (ranCount ⟨.fn 3, 1, 2, 3, 0⟩))[500 + 1 + 48]?)) = some (7, 1, some 1) := by decide +kernel

/-! ### callbacks that schedule on the fly (each history below was also run on the real C code) -/

/-- callback 13 schedules from inside: two items for the current frame (priorities 5, then -5) and one
for the frame after next; the second of them (14) is scripted itself (nesting): one more item for the
current frame (15, scripted too: depth 3) and a two-frame set; 16 keeps re-scheduling itself for the
current frame -/
def envFly : Env := ⟨fun _ _ _ _ => 0,
  [(13, [.schedule 0 (.fn 1) 101 0 0 5, .schedule 0 (.fn 14) 102 0 0 (-5), .schedule 2 (.fn 2) 103 0 0 0]),
   (14, [.schedule 0 (.fn 15) 104 0 0 0,
         .scheduleSet 1 [⟨.fn 3, 105, 0, 0, 0, 0⟩, ⟨.null, 0, 0, 0, 0, 0⟩, ⟨.fn 4, 106, 0, 0, 0, 0⟩,
                         ⟨.endSet, 0, 0, 0, 0, 0⟩] 9]),
   (15, [.schedule 1 (.fn 5) 107 0 0 0]),
   (16, [.schedule 0 (.fn 16) 7 7 7 0])]⟩

example : EnvOk envFly ∧ ¬ NoReentry envFly ∧ NoReentry env0 ∧ EnvOk env0 := by decide

/-- per operation: return value, `p1` of the callbacks invoked (in order), return values of the calls
each of them made from inside -/
def obsFly (env : Env) (s : Sched) (ops : List Op) : Option (List (Int × List Nat × List (List Int))) :=
  (run env s ops).toOption.map (fun r => r.2.map (fun o => (o.rc, o.ran.map (·.p1), o.rets)))

def histPre : List Op :=
  [.schedule 0 (.fn 7) 1 0 0 3, .schedule 0 (.fn 13) 2 0 0 (-1), .schedule 0 (.fn 6) 3 0 0 9]
def restFly : List Op := [.advance, .execute, .advance, .execute, .advance, .execute]

-- **the order the code gives**: the three items pending at the start run by priority (2, 1, 3); the items
-- scheduled on the fly for the current frame run after them in the order they were appended — 101
-- (priority 5) BEFORE 102 (priority -5), then 104 (appended by 102's callback); the items for later frames
-- run one (set frame 0, item of 15) and two (item of 13, set frame 1) advances later
example : obsFly envFly (init 24) (histPre ++ .execute :: restFly) =
    some [(0, [], []), (0, [], []), (0, [], []),
      (6, [2, 1, 3, 101, 102, 104], [[0, 0, 0], [], [], [], [0, 1], [0]]),
      (0, [], []), (2, [105, 107], [[], []]), (0, [], []), (2, [103, 106], [[], []]), (0, [], []), (0, [], [])] := by
  decide +kernel

-- a callback that keeps re-scheduling itself for the current frame: the bucket fills up, the 8th
-- invocation gets -1 from tdma_schedule(), the loop ends after TDMASCHED_NUM_CB calls; the frame is empty
example : obsFly envFly (init 3) [.schedule 0 (.fn 16) 7 7 7 0, .execute, .execute] =
    some [(0, [], []), (8, [7, 7, 7, 7, 7, 7, 7, 7], [[0], [0], [0], [0], [0], [0], [0], [-1]]), (0, [], [])] := by
  decide +kernel

/-- the items scheduled on the fly by callback 13: for the frame after next / for the current frame -/
def xLater : AItem Cb := ⟨.fn 2, 103, 0, 0, 0⟩
def xNow : AItem Cb := ⟨.fn 1, 101, 0, 0, 5⟩
def xSet : AItem Cb := ⟨.fn 4, 106, 0, 9, 0⟩
def preEx : List (Spec.TdmaSched.Op Cb) :=
  [.schedule 0 ⟨.fn 1, 101, 0, 0, 5⟩, .schedule 0 ⟨.fn 14, 102, 0, 0, -5⟩]
def postEx : List (Spec.TdmaSched.Op Cb) :=
  [.schedule 0 ⟨.fn 15, 104, 0, 0, 0⟩, .scheduleSet 1 [[⟨.fn 3, 105, 0, 9, 0⟩], [⟨.fn 4, 106, 0, 9, 0⟩]],
   .schedule 1 ⟨.fn 5, 107, 0, 0, 0⟩]

-- hypotheses of `onfly_runs_exactly_at` (x = xLater, off = 2) and of `onfly_same_frame` (x = xNow) are
-- satisfiable: the state after `histPre`, the `execute` of that frame, the continuation `restFly`
example : ((run envFly (init 24) histPre).toOption.bind fun r =>
    (step envFly r.1 .execute).toOption.bind fun q =>
    (run envFly q.1 restFly).toOption.map fun t =>
      decide (Inv envFly r.1 ∧
        flyOps envFly q.2 = preEx ++ Spec.TdmaSched.Op.schedule 2 xLater :: postEx ∧
        q.2.rets.flatten[preEx.length]? = some 0 ∧
        (∀ d, d < 25 → xLater ∉ abs r.1 d) ∧
        (∀ c ∈ preEx, xLater ∉ Spec.TdmaSched.placed c) ∧ (∀ c ∈ postEx, xLater ∉ Spec.TdmaSched.placed c) ∧
        (∀ op ∈ restFly, OpOk envFly op) ∧ (∀ op ∈ restFly, xLater ∉ Spec.TdmaSched.placed (absOp op)) ∧
        (∀ op ∈ restFly, isResetOp op = false) ∧ NoFlyPlaces envFly xLater t.2 ∧
        disciplined true restFly = true ∧
        -- ... and the conclusion evaluated
        ranCount xLater q.2 = 0 ∧ t.2.map (ranCount xLater) = [0, 0, 0, 1, 0, 0] ∧
        -- `onfly_same_frame`
        flyOps envFly q.2 = [] ++ Spec.TdmaSched.Op.schedule 0 xNow :: (preEx.drop 1 ++ Spec.TdmaSched.Op.schedule 2 xLater :: postEx) ∧
        q.2.rets.flatten[0]? = some 0 ∧ (∀ d, d < 25 → xNow ∉ abs r.1 d) ∧
        (∀ c ∈ preEx.drop 1 ++ Spec.TdmaSched.Op.schedule 2 xLater :: postEx, xNow ∉ Spec.TdmaSched.placed c) ∧
        NoFlyPlaces envFly xNow t.2 ∧ ranCount xNow q.2 = 1 ∧ t.2.map (ranCount xNow) = [0, 0, 0, 0, 0, 0])) =
    some true := by decide +kernel
-- `onfly_set_runs_exactly_at`: the item of the second frame of the set scheduled by callback 14 (off = 1, k = 1)
example : ((run envFly (init 24) histPre).toOption.bind fun r =>
    (step envFly r.1 .execute).toOption.bind fun q =>
    (run envFly q.1 restFly).toOption.map fun t =>
      decide (
        flyOps envFly q.2 = (preEx ++ Spec.TdmaSched.Op.schedule 2 xLater :: postEx.take 1) ++
          Spec.TdmaSched.Op.scheduleSet 1 [[⟨.fn 3, 105, 0, 9, 0⟩], [xSet]] :: postEx.drop 2 ∧
        q.2.rets.flatten[(preEx ++ Spec.TdmaSched.Op.schedule 2 xLater :: postEx.take 1).length]? = some 1 ∧
        (∀ d, d < 25 → xSet ∉ abs r.1 d) ∧ NoFlyPlaces envFly xSet t.2 ∧
        ranCount xSet q.2 = 0 ∧ t.2.map (ranCount xSet) = [0, 0, 0, 1, 0, 0])) =
    some true := by decide +kernel

/-! ### corner cases of the real code, outside the premises of the property (confirmed on the C code) -/

-- an item scheduled for the current frame AFTER that frame was executed waits a full turn of the ring
example : obs env0 (init 5) ([.execute, .schedule 0 (.fn 1) 1 0 0 0, .advance] ++ frames 24 ++ [.execute]) =
    some ([(0, []), (0, []), (0, [])] ++ (List.replicate 24 [(0, []), (0, [])]).flatten ++ [(1, [1])]) := by
  decide +kernel
-- an offset of 25 is the current frame
example : obs env0 (init 5) [.schedule 25 (.fn 1) 1 0 0 0, .execute] = some [(0, []), (1, [1])] := by
  decide +kernel
-- a set that overflows in its second item: -1, but its first item stays scheduled
example : obs env0 (init 5) ((List.range 7).map (fun k => Op.schedule 3 (.fn 1) k 0 0 0) ++
    [.scheduleSet 3 [⟨.fn 2, 100, 0, 0, 0, 0⟩, ⟨.fn 3, 101, 0, 0, 0, 0⟩, ⟨.endSet, 0, 0, 0, 0, 0⟩] 9,
     .advance, .advance, .advance, .execute]) =
    some ((List.replicate 7 (0, [])) ++ [(-1, []), (0, []), (0, []), (0, []), (8, [0, 1, 2, 3, 4, 5, 6, 100])]) := by
  decide +kernel
-- tdma_sched_reset() keeps the bucket of the current frame
example : obs env0 (init 5) [.schedule 0 (.fn 1) 1 0 0 0, .schedule 1 (.fn 2) 2 0 0 0, .reset, .execute,
    .advance, .execute] = some [(0, []), (0, []), (0, []), (1, [1]), (0, []), (0, [])] := by decide +kernel
-- a failing callback: execute returns its rc, the bucket stays, the items run again
example : obs env1 (init 5) [.schedule 0 (.fn 1) 1 0 0 0, .schedule 0 (.fn 10) 2 0 0 1, .schedule 0 (.fn 3) 3 0 0 2,
    .execute, .execute] = some [(0, []), (0, []), (0, []), (-1, [1, 2]), (-1, [1, 2])] := by decide +kernel
-- a set whose frames reach beyond the depth wraps into the current frame
example : obs env0 (init 5) [.scheduleSet 24 [⟨.fn 1, 1, 0, 0, 0, 0⟩, ⟨.null, 0, 0, 0, 0, 0⟩, ⟨.fn 2, 2, 0, 0, 0, 0⟩,
    ⟨.endSet, 0, 0, 0, 0, 0⟩] 9, .execute] = some [(1, []), (1, [2])] := by decide +kernel
-- tdma_schedule() does not write .flags: the new item inherits the flags of the slot's previous item
example : ((do
    let (s, _) ← run env0 (init 5) [.scheduleSet 0 [⟨.fn 1, 1, 0, 0, 0, 3⟩, ⟨.endSet, 0, 0, 0, 0, 0⟩] 0, .execute,
      .schedule 0 (.fn 2) 2 0 0 0]
    flagScan s) : Except Fault Nat).toOption = some 3 := by decide +kernel

end OsmoVerif.Props.C08
