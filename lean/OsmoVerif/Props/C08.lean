import OsmoVerif.Lemmas.TdmaSched
namespace OsmoVerif.Props.C08
open OsmoVerif
theorem consts : Gen.tdmaNumFrames = 25 ∧ Gen.tdmaNumCb = 8 := by decide
end OsmoVerif.Props.C08
