/-
C08 — Firmware TDMA scheduler runs each item exactly in its scheduled frame.

Property theorems only.  Model: `OsmoVerif.Model.TdmaSched` (tdma_sched.c statement by statement, C
widths, array bounds as `Fault.oob`), specification: `OsmoVerif.Spec.TdmaSched` (items "due in d
frames"), lemmas: `OsmoVerif.Lemmas.TdmaSched*`.

Reading guide
* `Inv env s`   : `s` is a well-formed `struct tdma_scheduler` (25 buckets of 8 slots, `num_items ≤ 8`,
                  `cur_bucket < 25`) and every pending callback is a function that reports success in
                  the environment `env` (decidable).  The zero-initialised scheduler at any ring
                  position satisfies it (`init_inv`) and every admissible operation preserves it
                  (`step_safe`), so it holds in every reachable state.
* `OpOk env op` : arguments within the C parameter types, callbacks that report success, item sets
                  terminated by `SCHED_END_SET()` (decidable).
* `abs s d`     : the live items of `bucket[(cur_bucket + d) % 25]` without their `flags`.
* callbacks do not re-enter the scheduler (assumption of the model).
-/
import OsmoVerif.Lemmas.TdmaSched

set_option linter.unusedVariables false

namespace OsmoVerif.Props.C08
open OsmoVerif OsmoVerif.TdmaSched
open OsmoVerif.Spec.TdmaSched (AItem Due)

/-- The constants of the current tree are the ones the property speaks about (depth 25, capacity 8),
the macros and the array sizes agree, the field widths are the ones the model wraps at, and
`SCHED_END_FRAME()` / `SCHED_END_SET()` are encoded by `cb == NULL` / `cb == &tdma_end_set`. -/
theorem gen_consts :
    Gen.tdmaNumFrames = Spec.TdmaSched.depth ∧ Gen.tdmaNumCb = Spec.TdmaSched.capacity ∧
    Gen.tdmaMacroNumFrames = Gen.tdmaNumFrames ∧ Gen.tdmaMacroNumCb = Gen.tdmaNumCb ∧
    Gen.tdmaWidth_p1 = (8, false) ∧ Gen.tdmaWidth_p2 = (8, false) ∧ Gen.tdmaWidth_p3 = (16, false) ∧
    Gen.tdmaWidth_prio = (16, true) ∧ Gen.tdmaWidth_flags = (16, false) ∧
    Gen.tdmaWidth_num_items = (8, false) ∧ Gen.tdmaWidth_cur_bucket = (8, false) ∧
    Gen.tdmaEndFrame.1 = 0 ∧ Gen.tdmaEndSet.1 = 1 ∧ Gen.tdmaProbeItem.1 = 2 ∧
    Gen.tdmaProbeItem = (2, 11, 13, 0, -7, 0) ∧ Gen.tdmaProbeItemDt = (2, 17, 19, 0, 5, 3) := by
  repeat' apply And.intro
  all_goals decide

/-- The zero-initialised scheduler satisfies the invariant at every ring position and is empty. -/
theorem init_inv (env : Env) (cur : Nat) (h : cur < 25) :
    Inv env (init cur) ∧ abs (init cur) = Spec.TdmaSched.empty :=
  ⟨TdmaSched.init_inv env cur h, abs_init cur h⟩

/-- No admissible operation indexes outside an array or calls a NULL pointer, and the invariant is
preserved: it holds in every state reachable from `init` by admissible operations. -/
theorem step_safe (env : Env) (s : Sched) (op : Op) (hinv : Inv env s) (hop : OpOk env op) :
    ∃ s' out, step env s op = .ok (s', out) ∧ Inv env s' := by
  obtain ⟨s', out, h1, h2, _, _⟩ := step_refines env s op hinv hop
  exact ⟨s', out, h1, h2⟩

/-- **Refinement.**  Every operation of the code, from every well-formed state (any `cur_bucket`),
does to the pending work exactly what the abstract "due in d frames" machine does, with the same
return value; the callbacks run by `execute` are a priority-ordered permutation of the items due
now (`OutMatch`). -/
theorem sched_refines (env : Env) (s : Sched) (op : Op) (hinv : Inv env s) (hop : OpOk env op) :
    ∃ s' out, step env s op = .ok (s', out) ∧ Inv env s' ∧
      abs s' = (Spec.TdmaSched.step (abs s) (absOp op)).1 ∧
      OutMatch out (Spec.TdmaSched.step (abs s) (absOp op)).2 :=
  step_refines env s op hinv hop

/-- Refinement of whole histories. -/
theorem sched_refines_run (env : Env) (s : Sched) (ops : List Op) (hinv : Inv env s)
    (hops : ∀ op ∈ ops, OpOk env op) :
    ∃ s' outs, run env s ops = .ok (s', outs) ∧ Inv env s' ∧
      abs s' = (Spec.TdmaSched.run (abs s) (ops.map absOp)).1 ∧
      OutsMatch outs (Spec.TdmaSched.run (abs s) (ops.map absOp)).2 :=
  run_refines env ops s hinv hops

/-- **Priority order.**  `tdma_sched_execute()` invokes every live item of the current bucket exactly
once (the executed sequence is a permutation of the bucket) in ascending priority order, and returns
their number.  (Proved for the exchange sort of `_tdma_sched_bucket_sort` as it is; the order among
equal priorities is whatever that sort produces — it is not stable.) -/
theorem prio_order (env : Env) (s : Sched) (hinv : Inv env s) :
    ∃ b s' ran, s.bucket[s.cur]? = some b ∧
      step env s .execute = .ok (s', ⟨(b.numItems : Int), ran⟩) ∧
      ran.Perm (live b) ∧ ran.Pairwise (fun x y => x.prio ≤ y.prio) := by
  obtain ⟨b, ran, hb, he, hperm, hpw⟩ := execute_spec env s hinv
  refine ⟨b, { s with bucket := s.bucket.set s.cur { b with numItems := 0 } }, ran, hb, ?_, hperm, hpw⟩
  simp only [step, bind, Except.bind, he]; rfl

/-- **An executed frame is left empty**: `num_items` of the current bucket is 0, nothing is due now,
and every other frame is untouched. -/
theorem executed_empty (env : Env) (s : Sched) (hinv : Inv env s) :
    ∃ s' out, step env s .execute = .ok (s', out) ∧ s'.cur = s.cur ∧
      (∀ b, s'.bucket[s'.cur]? = some b → b.numItems = 0) ∧
      abs s' 0 = [] ∧ ∀ d, d ≠ 0 → abs s' d = abs s d := by
  obtain ⟨b, ran, hb, he, _, _⟩ := execute_spec env s hinv
  obtain ⟨s', rc, ran', he', _, hcur, ha, _, _⟩ := execute_abs env s hinv
  have hs : s' = { s with bucket := s.bucket.set s.cur { b with numItems := 0 } } := by
    rw [he] at he'
    simp only [Except.ok.injEq, Prod.mk.injEq] at he'
    exact he'.1.symm
  refine ⟨s', ⟨rc, ran'⟩, ?_, hcur, ?_, ?_, ?_⟩
  · simp only [step, bind, Except.bind, he']; rfl
  · intro b' hb'
    rw [hs] at hb'
    simp only [List.getElem?_set_self (lt_of_get? _ _ _ hb), Option.some.injEq] at hb'
    rw [← hb']
  · rw [ha]; simp [Spec.TdmaSched.execute]
  · intro d hd
    rw [ha]; simp [Spec.TdmaSched.execute, hd]

/-- **Overflow is reported, nothing is overwritten** (`tdma_schedule`): into a bucket that holds 8
items the call returns −1 and the whole scheduler state is unchanged; otherwise it returns 0 and the
item is appended to the frame `off` ahead (here for every `off < 256`: the frame is `off % 25`). -/
theorem overflow_reported (env : Env) (s : Sched) (off : Nat) (cb : Cb) (p1 p2 p3 : Nat) (prio : Int)
    (hinv : Inv env s) (hop : OpOk env (.schedule off cb p1 p2 p3 prio))
    (b : Bucket) (hb : s.bucket[(s.cur + off) % 25]? = some b) :
    (8 ≤ b.numItems → step env s (.schedule off cb p1 p2 p3 prio) = .ok (s, ⟨-1, []⟩)) ∧
    (b.numItems < 8 → ∃ s', step env s (.schedule off cb p1 p2 p3 prio) = .ok (s', ⟨0, []⟩) ∧
      abs s' = Spec.TdmaSched.put (abs s) (off % 25) ⟨cb, p1, p2, p3, prio⟩) := by
  obtain ⟨ho, h1, h2, h3, hp1, hp2, hok⟩ := hop
  obtain ⟨s', rc, he, hi, _, ha, hsame⟩ :=
    schedule_spec env s off cb p1 p2 p3 prio hinv ho h1 h2 h3 ⟨hp1, hp2⟩ hok
  have hf := full_iff s off b hinv.1 hb
  simp only [Spec.TdmaSched.schedule] at ha
  constructor
  · intro h8
    rw [if_pos (hf.mpr h8)] at ha
    simp only [Prod.mk.injEq] at ha
    have hrc : rc = -1 := ha.2
    simp only [step, bind, Except.bind, he, hrc, hsame hrc]; rfl
  · intro h8
    rw [if_neg (fun h => by have := hf.mp h; omega)] at ha
    simp only [Prod.mk.injEq] at ha
    refine ⟨s', ?_, ?_⟩
    · simp only [step, bind, Except.bind, he, ha.2]; rfl
    · rw [ha.1]; simp only [Spec.TdmaSched.slot, Spec.TdmaSched.depth]

/-- **Overflow is reported, nothing is overwritten** (`tdma_schedule_set`): the call returns either
the number of `SCHED_END_FRAME()` markers or −1 (exactly when some item of the set does not fit);
in both cases every frame keeps all the items it held, in their places (the items of the set placed
before the overflow stay scheduled). -/
theorem overflow_reported_set (env : Env) (s : Sched) (off : Nat) (set : List Item) (p3 : Nat)
    (hinv : Inv env s) (hop : OpOk env (.scheduleSet off set p3)) :
    ∃ s' rc, step env s (.scheduleSet off set p3) = .ok (s', ⟨rc, []⟩) ∧
      (∀ d, abs s d <+: abs s' d) ∧
      ((Spec.TdmaSched.putFrames (abs s) off (framesOf p3 set)).2 = false → rc = -1) ∧
      ((Spec.TdmaSched.putFrames (abs s) off (framesOf p3 set)).2 = true → rc = (markers set : Int)) := by
  obtain ⟨he, hm, h3, hok⟩ := hop
  obtain ⟨s', rc, hee, hi, _, ha⟩ := scheduleSet_spec env s off set p3 hinv he hm h3 hok
  refine ⟨s', rc, ?_, ?_, ?_, ?_⟩
  · simp only [step, bind, Except.bind, hee]; rfl
  · intro d
    have := Spec.TdmaSched.putFrames_prefix (framesOf p3 set) (abs s) off d
    simp only [Spec.TdmaSched.scheduleSet] at ha
    cases hpf : Spec.TdmaSched.putFrames (abs s) off (framesOf p3 set) with
    | mk due' ok =>
      rw [hpf] at ha this
      cases ok <;> simp only [Prod.mk.injEq] at ha <;> rw [ha.1] <;> exact this
  · intro hfalse
    simp only [Spec.TdmaSched.scheduleSet] at ha
    cases hpf : Spec.TdmaSched.putFrames (abs s) off (framesOf p3 set) with
    | mk due' ok =>
      rw [hpf] at ha hfalse
      simp only at hfalse
      subst hfalse
      simp only [Prod.mk.injEq] at ha
      exact ha.2
  · intro htrue
    simp only [Spec.TdmaSched.scheduleSet] at ha
    cases hpf : Spec.TdmaSched.putFrames (abs s) off (framesOf p3 set) with
    | mk due' ok =>
      rw [hpf] at ha htrue
      simp only at htrue
      subst htrue
      simp only [Prod.mk.injEq] at ha
      rw [ha.2, framesOf_length]
      simp

/-- **Set placement.**  If `tdma_schedule_set(off, set, p3)` does not report an overflow and the
frames of the set stay below the scheduler depth (`off + markers < 25`), then it returns the number of
`SCHED_END_FRAME()` markers, the items after the k-th marker (`(framesOf p3 set)[k]`, with the
common `p3`) are appended to the frame due in `off + k`, in order, and no other frame changes. -/
theorem set_placement (env : Env) (s : Sched) (off : Nat) (set : List Item) (p3 : Nat)
    (hinv : Inv env s) (hop : OpOk env (.scheduleSet off set p3)) (hdepth : off + markers set < 25) :
    ∃ s' rc, step env s (.scheduleSet off set p3) = .ok (s', ⟨rc, []⟩) ∧ Inv env s' ∧
      (rc ≠ -1 →
        rc = (markers set : Int) ∧
        (∀ k f, (framesOf p3 set)[k]? = some f → abs s' (off + k) = abs s (off + k) ++ f) ∧
        (∀ d, d < off ∨ off + markers set < d → abs s' d = abs s d)) := by
  obtain ⟨he, hm, h3, hok⟩ := hop
  obtain ⟨s', rc, hee, hi, _, ha⟩ := scheduleSet_spec env s off set p3 hinv he hm h3 hok
  refine ⟨s', rc, ?_, hi, ?_⟩
  · simp only [step, bind, Except.bind, hee]; rfl
  · intro hrc
    simp only [Spec.TdmaSched.scheduleSet] at ha
    cases hpf : Spec.TdmaSched.putFrames (abs s) off (framesOf p3 set) with
    | mk due' ok =>
      rw [hpf] at ha
      cases ok with
      | false => simp only [Prod.mk.injEq] at ha; exact absurd ha.2 hrc
      | true =>
        simp only [Prod.mk.injEq] at ha
        have hlen := framesOf_length p3 set
        obtain ⟨hk, ho⟩ := Spec.TdmaSched.putFrames_ok (framesOf p3 set) (abs s) due' off
          (by rw [hlen]; omega) hpf
        rw [ha.1]
        refine ⟨by rw [ha.2, hlen]; simp, hk, ?_⟩
        intro d hd
        exact ho d (by rw [hlen]; omega)

/-! ### exactly once, exactly in its frame -/

/-- operation `i` of `ops` is an `execute` happening when the number of advances so far is `d`
modulo the ring size -/
def hitOp (d : Nat) (ops : List Op) (i : Nat) : Prop :=
  ops[i]? = some .execute ∧ advancesBefore ops i % 25 = d

instance (d : Nat) (ops : List Op) (i : Nat) : Decidable (hitOp d ops i) := by
  unfold hitOp; infer_instance

/-- **Ring statement** (no discipline assumed).  An item `x` that is pending exactly once, in the frame
due in `d < 25`, runs — in any history of admissible operations without `reset` that does not
schedule another copy of `x` — exactly once: at the first `execute` that happens when the number of
advances is `d` modulo 25, with the parameters it was scheduled with; every other operation runs it
0 times.  (An un-executed bucket comes round again 25 advances later.) -/
theorem pending_runs_ring (env : Env) (s : Sched) (x : AItem Cb) (d : Nat) (rest : List Op)
    (hinv : Inv env s) (hd : d < 25)
    (h1 : (abs s d).count x = 1) (h0 : ∀ e, e < 25 → e ≠ d → (abs s e).count x = 0)
    (hrest : ∀ op ∈ rest, OpOk env op)
    (hother : ∀ op ∈ rest, x ∉ Spec.TdmaSched.placed (absOp op))
    (hnoreset : ∀ op ∈ rest, isResetOp op = false) :
    ∃ s' outs, run env s rest = .ok (s', outs) ∧
      ∀ i o, outs[i]? = some o →
        ranCount x o = if hitOp d rest i ∧ ∀ j, j < i → ¬ hitOp d rest j then 1 else 0 := by
  obtain ⟨s', outs, hrun, _, _, hmatch⟩ := run_refines env rest s hinv hrest
  refine ⟨s', outs, hrun, ?_⟩
  have hcnt := outsMatch_counts x _ _ hmatch
  rw [Spec.TdmaSched.run_track x (rest.map absOp) (abs s) (some d) (at_of_counts x _ d hd h1 h0)
    (placed_ne x rest hother)] at hcnt
  intro i o ho
  have hi : i < rest.length := by
    have := run_length env rest s s' outs hrun
    have := lt_of_get? _ _ _ ho
    omega
  rw [map_eq_getD (ranCount x) outs _ hcnt i o ho,
    Spec.TdmaSched.track_ring (rest.map absOp) d i hd
      (by intro op hop
          obtain ⟨o', ho', rfl⟩ := List.mem_map.mp hop
          rw [isReset_absOp]; exact hnoreset o' ho')
      (by simpa using hi)]
  apply Spec.TdmaSched.ite_iff
  simp only [Spec.TdmaSched.hit, hitOp, getElem?_isExec_absOp, advBefore_absOp, isExecOp_iff]

/-- **Exactly once, exactly `d` advances later** (firmware discipline: `execute` then `advance`, once per
frame).  An item pending exactly once, due in `d < 25` frames, runs at the `execute` that happens after
exactly `d` advances — once — and at no other operation of the history.  `e` says whether the frame
current at the start has already been executed; `e ∧ d = 0` (an item put into the already executed
current frame) is excluded — the ring statement says what happens then. -/
theorem pending_runs_exactly_at (env : Env) (s : Sched) (x : AItem Cb) (d : Nat) (rest : List Op)
    (e : Bool) (hinv : Inv env s) (hd : d < 25)
    (h1 : (abs s d).count x = 1) (h0 : ∀ e', e' < 25 → e' ≠ d → (abs s e').count x = 0)
    (hrest : ∀ op ∈ rest, OpOk env op)
    (hother : ∀ op ∈ rest, x ∉ Spec.TdmaSched.placed (absOp op))
    (hnoreset : ∀ op ∈ rest, isResetOp op = false)
    (hdisc : disciplined e rest = true) (hed : ¬ (e = true ∧ d = 0)) :
    ∃ s' outs, run env s rest = .ok (s', outs) ∧
      ∀ i o, outs[i]? = some o →
        ranCount x o = if rest[i]? = some .execute ∧ advancesBefore rest i = d then 1 else 0 := by
  obtain ⟨s', outs, hrun, _, _, hmatch⟩ := run_refines env rest s hinv hrest
  refine ⟨s', outs, hrun, ?_⟩
  have hcnt := outsMatch_counts x _ _ hmatch
  rw [Spec.TdmaSched.run_track x (rest.map absOp) (abs s) (some d) (at_of_counts x _ d hd h1 h0)
    (placed_ne x rest hother)] at hcnt
  intro i o ho
  have hi : i < rest.length := by
    have := run_length env rest s s' outs hrun
    have := lt_of_get? _ _ _ ho
    omega
  rw [map_eq_getD (ranCount x) outs _ hcnt i o ho,
    Spec.TdmaSched.track_disciplined (rest.map absOp) e d i hd
      (by rw [disciplined_absOp]; exact hdisc)
      (by intro op hop
          obtain ⟨o', ho', rfl⟩ := List.mem_map.mp hop
          rw [isReset_absOp]; exact hnoreset o' ho')
      hed (by simpa using hi)]
  apply Spec.TdmaSched.ite_iff
  simp only [getElem?_isExec_absOp, advBefore_absOp, isExecOp_iff]

/-- **runs_exactly_at** — the property as stated.  `tdma_schedule(off, cb, p1, p2, p3, prio)` with
`off < 25` into a frame that has room returns 0, and then, under the firmware discipline, for every
continuation of admissible operations (any scheduling traffic, overflowing or not) the callback
`cb(p1, p2, p3)` of that item is invoked exactly once: by the `execute` that follows exactly `off`
advances; no other operation invokes it.  (`x` is identified by callback, parameters and priority; it
is assumed distinguishable: not already pending and not scheduled again.) -/
theorem runs_exactly_at (env : Env) (s : Sched) (off : Nat) (cb : Cb) (p1 p2 p3 : Nat) (prio : Int)
    (rest : List Op) (e : Bool) (hinv : Inv env s) (hoff : off < 25)
    (hop : OpOk env (.schedule off cb p1 p2 p3 prio))
    (hroom : (abs s off).length < 8)
    (hfresh : ∀ d, d < 25 → (⟨cb, p1, p2, p3, prio⟩ : AItem Cb) ∉ abs s d)
    (hrest : ∀ op ∈ rest, OpOk env op)
    (hother : ∀ op ∈ rest, (⟨cb, p1, p2, p3, prio⟩ : AItem Cb) ∉ Spec.TdmaSched.placed (absOp op))
    (hnoreset : ∀ op ∈ rest, isResetOp op = false)
    (hdisc : disciplined e rest = true) (hed : ¬ (e = true ∧ off = 0)) :
    ∃ s1 s' outs, step env s (.schedule off cb p1 p2 p3 prio) = .ok (s1, ⟨0, []⟩) ∧
      run env s1 rest = .ok (s', outs) ∧
      ∀ i o, outs[i]? = some o →
        ranCount ⟨cb, p1, p2, p3, prio⟩ o =
          if rest[i]? = some .execute ∧ advancesBefore rest i = off then 1 else 0 := by
  obtain ⟨ho, hw1, hw2, hw3, hp1, hp2, hok⟩ := hop
  obtain ⟨s1, rc, he, hi1, _, ha, _⟩ :=
    schedule_spec env s off cb p1 p2 p3 prio hinv ho hw1 hw2 hw3 ⟨hp1, hp2⟩ hok
  have hslot : Spec.TdmaSched.slot off = off := by
    simp only [Spec.TdmaSched.slot, Spec.TdmaSched.depth]; omega
  have hnf : ¬ Spec.TdmaSched.full (abs s) off := by
    simp only [Spec.TdmaSched.full, Spec.TdmaSched.capacity]; omega
  simp only [Spec.TdmaSched.schedule, hslot] at ha
  rw [if_neg hnf] at ha
  simp only [Prod.mk.injEq] at ha
  obtain ⟨ha1, ha2⟩ := ha
  have hc1 : (abs s1 off).count (⟨cb, p1, p2, p3, prio⟩ : AItem Cb) = 1 := by
    rw [ha1]
    simp only [Spec.TdmaSched.put, if_true, List.count_append, List.count_singleton, beq_self_eq_true]
    rw [List.count_eq_zero.mpr (hfresh off hoff)]
  have hc0 : ∀ e', e' < 25 → e' ≠ off → (abs s1 e').count (⟨cb, p1, p2, p3, prio⟩ : AItem Cb) = 0 := by
    intro e' he' hne
    rw [ha1]
    simp only [Spec.TdmaSched.put, hne, if_false]
    exact List.count_eq_zero.mpr (hfresh e' he')
  obtain ⟨s', outs, hrun, hcount⟩ :=
    pending_runs_exactly_at env s1 ⟨cb, p1, p2, p3, prio⟩ off rest e hi1 hoff hc1 hc0 hrest hother
      hnoreset hdisc hed
  refine ⟨s1, s', outs, ?_, hrun, hcount⟩
  simp only [step, bind, Except.bind, he, ha2]; rfl

/-- **Sets run frame by frame.**  An item of the k-th frame of a successfully scheduled set
(`off + k < 25`) runs, under the firmware discipline, exactly once: at the `execute` that follows exactly
`off + k` advances — k frames after the items of the set's first frame. -/
theorem set_runs_exactly_at (env : Env) (s : Sched) (off : Nat) (set : List Item) (p3 : Nat)
    (k : Nat) (f : List (AItem Cb)) (x : AItem Cb) (rest : List Op) (e : Bool)
    (hinv : Inv env s) (hop : OpOk env (.scheduleSet off set p3)) (hdepth : off + markers set < 25)
    (hk : (framesOf p3 set)[k]? = some f) (hx1 : f.count x = 1)
    (hx0 : ∀ k' f', k' ≠ k → (framesOf p3 set)[k']? = some f' → x ∉ f')
    (hfresh : ∀ d, d < 25 → x ∉ abs s d)
    (hrest : ∀ op ∈ rest, OpOk env op)
    (hother : ∀ op ∈ rest, x ∉ Spec.TdmaSched.placed (absOp op))
    (hnoreset : ∀ op ∈ rest, isResetOp op = false)
    (hdisc : disciplined e rest = true) (hed : ¬ (e = true ∧ off + k = 0)) :
    ∃ s1 rc, step env s (.scheduleSet off set p3) = .ok (s1, ⟨rc, []⟩) ∧
      (rc ≠ -1 → ∃ s' outs, run env s1 rest = .ok (s', outs) ∧
        ∀ i o, outs[i]? = some o →
          ranCount x o = if rest[i]? = some .execute ∧ advancesBefore rest i = off + k then 1 else 0) := by
  obtain ⟨s1, rc, hstep, hi1, hpl⟩ := set_placement env s off set p3 hinv hop hdepth
  refine ⟨s1, rc, hstep, ?_⟩
  intro hrc
  obtain ⟨_, hfr, hun⟩ := hpl hrc
  have hlen := framesOf_length p3 set
  have hklt : k < markers set + 1 := by rw [← hlen]; exact lt_of_get? _ _ _ hk
  have hc1 : (abs s1 (off + k)).count x = 1 := by
    rw [hfr k f hk, List.count_append, List.count_eq_zero.mpr (hfresh _ (by omega)), hx1]
  have hc0 : ∀ e', e' < 25 → e' ≠ off + k → (abs s1 e').count x = 0 := by
    intro e' he' hne
    by_cases hin : off ≤ e' ∧ e' ≤ off + markers set
    · have hk' : e' - off < (framesOf p3 set).length := by rw [hlen]; omega
      have hget : (framesOf p3 set)[e' - off]? = some (framesOf p3 set)[e' - off] := by simp [hk']
      have := hfr (e' - off) _ hget
      have e1 : off + (e' - off) = e' := by omega
      rw [e1] at this
      rw [this, List.count_append, List.count_eq_zero.mpr (hfresh _ he'),
        List.count_eq_zero.mpr (hx0 (e' - off) _ (by omega) hget)]
    · rw [hun e' (by omega)]
      exact List.count_eq_zero.mpr (hfresh _ he')
  exact pending_runs_exactly_at env s1 x (off + k) rest e hi1 (by omega) hc1 hc0 hrest hother hnoreset
    hdisc hed

/-- **Nothing else runs.**  An item that is pending nowhere and is never scheduled is never run: in
every history of admissible operations (any order, `reset` included) each callback invocation comes
from an item that was pending or has been scheduled.  Together with `prio_order` (an `execute` runs
exactly the items due now) and `pending_runs_ring` (a pending item runs only in its own frame) nothing
runs in a frame it was not scheduled for. -/
theorem nothing_else_runs (env : Env) (s : Sched) (x : AItem Cb) (ops : List Op)
    (hinv : Inv env s) (hnone : ∀ d, d < 25 → x ∉ abs s d)
    (hops : ∀ op ∈ ops, OpOk env op)
    (hother : ∀ op ∈ ops, x ∉ Spec.TdmaSched.placed (absOp op)) :
    ∃ s' outs, run env s ops = .ok (s', outs) ∧ ∀ o ∈ outs, x ∉ o.ran.map absItem := by
  obtain ⟨s', outs, hrun, _, _, hmatch⟩ := run_refines env ops s hinv hops
  refine ⟨s', outs, hrun, ?_⟩
  have hcnt := outsMatch_counts x _ _ hmatch
  have hat : Spec.TdmaSched.At x (abs s) none :=
    ⟨fun d h => by simp at h, fun e he => by simpa using List.count_eq_zero.mpr (hnone e he)⟩
  rw [Spec.TdmaSched.run_track x (ops.map absOp) (abs s) none hat (placed_ne x ops hother)] at hcnt
  intro o ho
  obtain ⟨i, hi⟩ := List.mem_iff_getElem?.mp ho
  have := map_eq_getD (ranCount x) outs _ hcnt i o hi
  rw [Spec.TdmaSched.track_none] at this
  exact List.count_eq_zero.mp this

/-- **Error path** (outside the property's premise "callbacks report success", stated for the record):
when `tdma_sched_execute()` returns a negative value a callback failed, and the scheduler state is
exactly what it was — the bucket is not cleared, so its items, including the ones that already ran,
stay scheduled (see the example below: they run again). -/
theorem execute_error_keeps_bucket (env : Env) (s s' : Sched) (out : Out)
    (h : step env s .execute = .ok (s', out)) (hrc : out.rc < 0) : s' = s := by
  simp only [step, bind, Except.bind] at h
  cases he : execute env s with
  | error f => simp [he] at h
  | ok r =>
    obtain ⟨s1, rc, ran⟩ := r
    simp only [he, pure, Except.pure, Except.ok.injEq, Prod.mk.injEq] at h
    obtain ⟨h1, h2⟩ := h
    subst h1
    rw [← h2] at hrc
    exact execute_error_keeps_state env s s1 rc ran he hrc

/-! ### non-vacuity: the hypotheses are satisfiable by non-trivial values, and the conclusions are what
the model computes (each history below was also run on the real C code, same observations) -/

/-- every callback reports success -/
def env0 : Env := fun _ _ _ _ => 0
/-- callback 10 reports an error -/
def env1 : Env := fun id _ _ _ => if id = 10 then -1 else 0

def frames (n : Nat) : List Op := (List.replicate n [Op.execute, Op.advance]).flatten

/-- scheduling traffic in the current frame, then 25 disciplined frames -/
def restEx : List Op :=
  [.schedule 24 (.fn 4) 0 0 0 0, .execute, .schedule 1 (.fn 5) 1 1 1 7, .advance] ++ frames 25

def xEx : AItem Cb := ⟨.fn 3, 255, 255, 65535, -32768⟩

/-- what a history shows: per operation the return value and the `p1` of the items run, in order -/
def obs (env : Env) (s : Sched) (ops : List Op) : Option (List (Int × List Nat)) :=
  (run env s ops).toOption.map (fun r => r.2.map (fun o => (o.rc, o.ran.map (·.p1))))

-- hypotheses of `runs_exactly_at` at the extreme values: ring position 23, offset 24, all-ones parameters
example : Inv env0 (init 23) ∧ OpOk env0 (.schedule 24 (.fn 3) 255 255 65535 (-32768)) ∧
    (abs (init 23) 24).length < 8 ∧ disciplined false restEx = true ∧ (∀ op ∈ restEx, OpOk env0 op) ∧
    (∀ op ∈ restEx, isResetOp op = false) ∧
    (∀ op ∈ restEx, xEx ∉ Spec.TdmaSched.placed (absOp op)) := by decide
example : ∀ d, d < 25 → xEx ∉ abs (init 23) d := by decide +kernel
-- ... and its conclusion evaluated: 52 operations, the item runs at the execute after 24 advances only
example : (run env0 (init 23) (.schedule 24 (.fn 3) 255 255 65535 (-32768) :: restEx)).toOption.map
    (fun r => r.2.map (ranCount xEx)) =
    some ([0, 0, 0, 0, 0] ++ (List.replicate 23 [0, 0]).flatten ++ [1, 0, 0, 0]) := by decide +kernel

-- a well-formed state that is not `init`: a full bucket, negative and equal priorities, stale slots
def sFull : Option Sched :=
  (run env0 (init 24) ((List.range 9).map (fun k => Op.schedule 1 (.fn k) k 0 0 (if k % 2 = 0 then -3 else 3)))).toOption.map (·.1)
example : sFull.map (fun s => decide (Inv env0 s)) = some true := by decide +kernel
-- overflow: the 9th item is refused (-1), the 8 others run one advance later, negative priorities first
example : obs env0 (init 24) ((List.range 9).map (fun k => Op.schedule 1 (.fn k) k 0 0 (if k % 2 = 0 then -3 else 3))
      ++ [.advance, .execute, .execute]) =
    some ((List.replicate 8 (0, [])) ++ [(-1, []), (0, []), (8, [0, 2, 4, 6, 1, 5, 3, 7]), (0, [])]) := by
  decide +kernel

-- the exchange sort is not stable: equal priorities 2 (p1 = 1), 2 (p1 = 2) behind a 1 (p1 = 3) swap
example : obs env0 (init 0) [.schedule 0 (.fn 1) 1 0 0 2, .schedule 0 (.fn 2) 2 0 0 2, .schedule 0 (.fn 3) 3 0 0 1,
    .execute] = some [(0, []), (0, []), (0, []), (3, [3, 2, 1])] := by decide +kernel

-- an item set: 2 frames, elements after SCHED_END_SET() ignored, common p3
def setEx : List Item :=
  [⟨.fn 1, 1, 0, 0, 5, 3⟩, ⟨.fn 2, 2, 0, 0, -1, 0⟩, ⟨.null, 0, 0, 0, 0, 0⟩, ⟨.fn 3, 3, 0, 0, 0, 0⟩,
   ⟨.endSet, 0, 0, 0, 0, 0⟩, ⟨.fn 4, 4, 0, 0, 0, 0⟩]
example : OpOk env0 (.scheduleSet 23 setEx 77) ∧ 23 + markers setEx < 25 ∧
    framesOf 77 setEx = [[⟨.fn 1, 1, 0, 77, 5⟩, ⟨.fn 2, 2, 0, 77, -1⟩], [⟨.fn 3, 3, 0, 77, 0⟩]] := by decide
example : obs env0 (init 7) ([.scheduleSet 23 setEx 77] ++ frames 25) =
    some ([(1, [])] ++ (List.replicate 23 [(0, []), (0, [])]).flatten ++
      [(2, [2, 1]), (0, []), (1, [3]), (0, [])]) := by decide +kernel

/-! ### corner cases of the real code, outside the premises of the property (confirmed on the C code) -/

-- an item scheduled for the current frame AFTER that frame was executed waits a full turn of the ring
example : obs env0 (init 5) ([.execute, .schedule 0 (.fn 1) 1 0 0 0, .advance] ++ frames 24 ++ [.execute]) =
    some ([(0, []), (0, []), (0, [])] ++ (List.replicate 24 [(0, []), (0, [])]).flatten ++ [(1, [1])]) := by
  decide +kernel
-- an offset of 25 is the current frame
example : obs env0 (init 5) [.schedule 25 (.fn 1) 1 0 0 0, .execute] = some [(0, []), (1, [1])] := by
  decide +kernel
-- a set that overflows in its second item: -1, but its first item stays scheduled
example : obs env0 (init 5) ((List.range 7).map (fun k => Op.schedule 3 (.fn 1) k 0 0 0) ++
    [.scheduleSet 3 [⟨.fn 2, 100, 0, 0, 0, 0⟩, ⟨.fn 3, 101, 0, 0, 0, 0⟩, ⟨.endSet, 0, 0, 0, 0, 0⟩] 9,
     .advance, .advance, .advance, .execute]) =
    some ((List.replicate 7 (0, [])) ++ [(-1, []), (0, []), (0, []), (0, []), (8, [0, 1, 2, 3, 4, 5, 6, 100])]) := by
  decide +kernel
-- tdma_sched_reset() keeps the bucket of the current frame
example : obs env0 (init 5) [.schedule 0 (.fn 1) 1 0 0 0, .schedule 1 (.fn 2) 2 0 0 0, .reset, .execute,
    .advance, .execute] = some [(0, []), (0, []), (0, []), (1, [1]), (0, []), (0, [])] := by decide +kernel
-- a failing callback: execute returns its rc, the bucket stays, the items run again
example : obs env1 (init 5) [.schedule 0 (.fn 1) 1 0 0 0, .schedule 0 (.fn 10) 2 0 0 1, .schedule 0 (.fn 3) 3 0 0 2,
    .execute, .execute] = some [(0, []), (0, []), (0, []), (-1, [1, 2]), (-1, [1, 2])] := by decide +kernel
-- a set whose frames reach beyond the depth wraps into the current frame
example : obs env0 (init 5) [.scheduleSet 24 [⟨.fn 1, 1, 0, 0, 0, 0⟩, ⟨.null, 0, 0, 0, 0, 0⟩, ⟨.fn 2, 2, 0, 0, 0, 0⟩,
    ⟨.endSet, 0, 0, 0, 0, 0⟩] 9, .execute] = some [(1, []), (1, [2])] := by decide +kernel
-- tdma_schedule() does not write .flags: the new item inherits the flags of the slot's previous item
example : ((do
    let (s, _) ← run env0 (init 5) [.scheduleSet 0 [⟨.fn 1, 1, 0, 0, 0, 3⟩, ⟨.endSet, 0, 0, 0, 0, 0⟩] 0, .execute,
      .schedule 0 (.fn 2) 2 0 0 0]
    flagScan s) : Except Fault Nat).toOption = some 3 := by decide +kernel

end OsmoVerif.Props.C08
