/-
C10 (second part) — the burst generators of `rand_burst_gen.py` build exactly the layouts the training-sequence detector
of `FakeTRX` relies on.

`Props/C10.lean` proves `tsc_detect_nb / _sb / _ab` about `Spec.nbLayout / sbLayout / abLayout` ("as gen_nb builds them").
Here the generators themselves are modelled (`Model/RandBurst.lean`, tied to the real `RandBurstGen` by the `rb.*`
correspondence with a scripted random source) and proved to produce those layouts for every random stream and every `tsc`
argument — so the detection theorems apply to every burst the generators can emit.
-/
import OsmoVerif.Lemmas.RandBurst
import OsmoVerif.Props.C10

namespace OsmoVerif.Props.C10Burst
open OsmoVerif OsmoVerif.RandBurst OsmoVerif.World OsmoVerif.Spec

/-- a member of `TrainingSeqGMSK`: (name, tsc, burst type name, bits, tsc_set) — the same type in both models -/
abbrev Ts := String × Nat × String × List Nat × Nat

/-- every member of `TrainingSeqGMSK` consists of bits -/
theorem table_bits : ∀ e ∈ Gen.World.trainSeqs, ∀ x ∈ e.2.2.2.1, x ≤ 1 := by decide +kernel

/-- **gen_nb.** Whatever the random source yields and whether the TSC is given or drawn (`get_rand_tsc` draws among the
NORMAL members only), the result is the normal-burst layout around that sequence: 3 tail bits, 57 drawn bits, a drawn
stealing flag, the 26-bit sequence, a drawn stealing flag, 57 drawn bits, 3 tail bits — 148 bits, all drawn ones taken from
the stream. -/
theorem gen_nb_layout (tsc : Option Ts) (s b rest : List Nat) (h : genNb tsc s = some (b, rest)) :
    ∃ e d1 s1 s2 d2, (tsc = some e ∨ (tsc = none ∧ e ∈ Gen.World.trainSeqs ∧ e.2.2.1 = "NORMAL")) ∧
      d1.length = 57 ∧ d2.length = 57 ∧ b = nbLayout d1 s1 e.2.2.2.1 s2 d2 ∧
      b.length = 116 + e.2.2.2.1.length + 6 ∧ (∀ x ∈ d1 ++ [s1, s2] ++ d2, x ∈ s) := by
  obtain ⟨e, d1, s1, s2, d2, ht, h1, h2, hb, hm⟩ := gen_nb_inv tsc s b rest h
  refine ⟨e, d1, s1, s2, d2, ?_, h1, h2, hb, ?_, hm⟩
  · rcases ht with ht | ⟨ht, he⟩
    · exact .inl ht
    · exact .inr ⟨ht, mem_seqsOf he⟩
  · rw [hb]; simp only [nbLayout, RandBurst.TsEntry.seq, List.length_append, List.length_cons, List.length_nil, h1, h2]; omega

/-- **gen_sb**: 3 tail, 39 drawn, the 64-bit sequence, 39 drawn, 3 tail -/
theorem gen_sb_layout (tsc : Option Ts) (s b rest : List Nat) (h : genSb tsc s = some (b, rest)) :
    ∃ e d1 d2, (tsc = some e ∨ (tsc = none ∧ e ∈ Gen.World.trainSeqs ∧ e.2.2.1 = "SYNC")) ∧
      d1.length = 39 ∧ d2.length = 39 ∧ b = sbLayout d1 e.2.2.2.1 d2 ∧
      b.length = 78 + e.2.2.2.1.length + 6 ∧ (∀ x ∈ d1 ++ d2, x ∈ s) := by
  obtain ⟨e, d1, d2, ht, h1, h2, hb, hm⟩ := gen_sb_inv tsc s b rest h
  refine ⟨e, d1, d2, ?_, h1, h2, hb, ?_, hm⟩
  · rcases ht with ht | ⟨ht, he⟩
    · exact .inl ht
    · exact .inr ⟨ht, mem_seqsOf he⟩
  · rw [hb]; simp only [sbLayout, RandBurst.TsEntry.seq, List.length_append, List.length_cons, List.length_nil, h1, h2]; omega

/-- **gen_ab**: 8 tail, the 41-bit sequence, 36 drawn, 3 tail, 60 guard -/
theorem gen_ab_layout (tsc : Option Ts) (s b rest : List Nat) (h : genAb tsc s = some (b, rest)) :
    ∃ e d, (tsc = some e ∨ (tsc = none ∧ e ∈ Gen.World.trainSeqs ∧ e.2.2.1 = "ACCESS")) ∧
      d.length = 36 ∧ b = abLayout e.2.2.2.1 d ∧ b.length = 107 + e.2.2.2.1.length ∧ (∀ x ∈ d, x ∈ s) := by
  obtain ⟨e, d, ht, h1, hb, hm⟩ := gen_ab_inv tsc s b rest h
  refine ⟨e, d, ?_, h1, hb, ?_, hm⟩
  · rcases ht with ht | ⟨ht, he⟩
    · exact .inl ht
    · exact .inr ⟨ht, mem_seqsOf he⟩
  · rw [hb]
    simp only [abLayout, RandBurst.TsEntry.seq, List.length_append, List.length_cons, List.length_nil, List.length_replicate, h1]
    omega

/-- a generated normal burst with a NORMAL table sequence (given or drawn) has the GMSK burst length, consists of bits if
the source yields bits, and the detector finds a table sequence present in it — exactly this one (its TSC, set 0) if no
other table sequence happens to sit at its own position (`tsc_detect_nb`) -/
theorem gen_nb_detect (tsc : Option Ts) (s b rest : List Nat) (h : genNb tsc s = some (b, rest))
    (ht : ∀ e, tsc = some e → e ∈ Gen.World.trainSeqs ∧ e.2.2.1 = "NORMAL") (hs : ∀ x ∈ s, x ≤ 1) :
    b.length = Gen.Trxd.gmskBurstLen ∧ (∀ x ∈ b, x ≤ 1) ∧
    ∃ e ∈ Gen.World.trainSeqs, (tsc = some e ∨ tsc = none) ∧ presentAt e b ∧
      (∃ e' ∈ Gen.World.trainSeqs, presentAt e' b ∧ trainSeqPick b = some (e'.2.1, e'.2.2.2.2)) ∧
      ((∀ e' ∈ Gen.World.trainSeqs, presentAt e' b → e' = e) → trainSeqPick b = some (e.2.1, e.2.2.2.2)) := by
  obtain ⟨e, d1, s1, s2, d2, hc, h1, h2, hb, hl, hm⟩ := gen_nb_layout tsc s b rest h
  have he : e ∈ Gen.World.trainSeqs ∧ e.2.2.1 = "NORMAL" := by
    rcases hc with hc | ⟨_, hc⟩
    · exact ht e hc
    · exact hc
  have hr := C10.seqs_ranges e he.1
  have hlen : e.2.2.2.1.length = 26 := by
    rcases hr.1 with ⟨_, h⟩ | ⟨h, _⟩ | ⟨h, _⟩
    · exact h
    · rw [he.2] at h; exact absurd h (by decide)
    · rw [he.2] at h; exact absurd h (by decide)
  have hd := C10.tsc_detect_nb e he.1 he.2 d1 s1 s2 d2 h1
  simp only at hd
  refine ⟨by rw [hl, hlen]; rfl, ?_, e, he.1, ?_, ?_, by rw [hb]; exact hd.1, by rw [hb]; exact hd.2⟩
  · intro x hx
    rw [hb] at hx
    simp only [nbLayout, List.mem_append, List.mem_cons, List.not_mem_nil, or_false] at hx
    have hdraw : ∀ y, y ∈ d1 ++ [s1, s2] ++ d2 → y ≤ 1 := fun y hy => hs y (hm y hy)
    rcases hx with (((((hx | hx) | hx) | hx) | hx) | hx) | hx
    · rcases hx with rfl | rfl | rfl <;> omega
    · exact hdraw x (by simp [hx])
    · exact hdraw x (by simp [hx])
    · exact table_bits e he.1 x hx
    · exact hdraw x (by simp [hx])
    · exact hdraw x (by simp [hx])
    · rcases hx with rfl | rfl | rfl <;> omega
  · rcases hc with hc | ⟨hc, _⟩
    · exact .inl hc
    · exact .inr hc
  · rw [hb]
    have h3 : (nbLayout d1 s1 e.2.2.2.1 s2 d2).drop 61 = e.2.2.2.1 ++ ([s2] ++ (d2 ++ [0, 0, 0])) := by
      have hl61 : ([0, 0, 0] ++ (d1 ++ [s1])).length = 61 := by
        simp only [List.length_append, List.length_cons, List.length_nil, h1]
      have hsplit : nbLayout d1 s1 e.2.2.2.1 s2 d2 =
          ([0, 0, 0] ++ (d1 ++ [s1])) ++ (e.2.2.2.1 ++ ([s2] ++ (d2 ++ [0, 0, 0]))) := by
        simp only [nbLayout, List.append_assoc]
      rw [hsplit, ← hl61, List.drop_left]
    show (match tsPos e.2.2.1 with
      | some (pos, len) => ((nbLayout d1 s1 e.2.2.2.1 s2 d2).drop pos).take len = e.2.2.2.1
      | none => False)
    rw [he.2]
    show ((nbLayout d1 s1 e.2.2.2.1 s2 d2).drop 61).take 26 = e.2.2.2.1
    rw [h3, ← hlen, List.take_left]

/-- the frequency-correction burst: `GMSK_BURST_LEN` zeros -/
theorem gen_fb_zeros : genFb.length = 148 ∧ ∀ x ∈ genFb, x = 0 := by
  constructor
  · simp only [genFb, List.length_replicate]; rfl
  · intro x hx; exact List.eq_of_mem_replicate hx

/-- the dummy burst table (`db_bits`, regenerated): 148 bits, 3 + 3 tail bits zero, and equal to the mixed-bit sequence of
3GPP TS 45.002 §5.2.6 (written out here from the standard: BN3 … BN144 between the tail bits) -/
theorem gen_db_table :
    genDb.length = 148 ∧ (∀ x ∈ genDb, x ≤ 1) ∧ genDb.take 3 = [0, 0, 0] ∧ genDb.drop 145 = [0, 0, 0] ∧
    (genDb.drop 3).take 142 =
      [1,1,1,1,1,0,1,1,0,1,1,1,0,1,1,0,0,0,0,0,1,0,1,0,0,1,0,0,1,1,1,0,0,0,0,0,1,0,0,1,0,0,0,1,0,0,0,0,0,0,0,1,1,1,1,1,0,0,
       0,1,1,1,0,0,0,1,0,1,1,1,0,0,0,1,0,1,1,1,0,0,0,1,0,1,0,1,1,1,0,1,0,0,1,0,1,0,0,0,1,1,0,0,1,1,0,0,1,1,1,0,0,1,1,1,1,0,
       1,0,0,1,1,1,1,1,0,0,0,1,0,0,1,0,1,1,1,1,1,0,1,0,1,0] := by
  decide +kernel

/-- `get_rand_tsc(bt)` draws among the members of the requested burst type only, and there is one for each of the three
types (so the draw never fails for a non-empty stream) -/
theorem get_rand_tsc_type (bt : String) (s r : List Nat) (e : Ts) (h : getRandTsc bt s = some (e, r)) :
    e ∈ Gen.World.trainSeqs ∧ e.2.2.1 = bt :=
  mem_seqsOf (choice_mem h)

theorem seqs_per_type : (seqsOf "NORMAL").length = 8 ∧ (seqsOf "SYNC").length = 4 ∧ (seqsOf "ACCESS").length = 8 := by
  decide +kernel

/-- non-vacuity: with enough draws the generators succeed; a drawn TSC (index 11 mod 8 = 3 → NB_TS3) is detected -/
example : ∃ b, genNb none (List.replicate 58 1 ++ [11] ++ List.replicate 58 0) = some (b, []) ∧
    trainSeqPick b = some (3, 0) ∧ b.length = 148 := by
  refine ⟨_, rfl, ?_, ?_⟩ <;> decide +kernel

example : (genSb none (List.replicate 39 1 ++ [2] ++ List.replicate 39 0)).map (fun p => (trainSeqPick p.1, p.1.length, p.2)) =
    some (some (2, 0), 148, []) := by decide +kernel

example : (genAb none ([5] ++ List.replicate 36 1)).map (fun p => (trainSeqPick p.1, p.1.length, p.2)) =
    some (some (5, 0), 148, []) := by decide +kernel

/-- a stream that runs dry makes the model answer `none` (never a default burst) -/
example : genNb none (List.replicate 57 0) = none := by decide +kernel

end OsmoVerif.Props.C10Burst
