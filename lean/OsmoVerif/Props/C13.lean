/-
C13 — Validation accepts exactly the protocol value ranges; nothing invalid is sent.
Property theorems only.  Model: `OsmoVerif.Model.Trxd` (bounds from the regenerated
`Gen.Trxd`), Spec: `OsmoVerif.Spec.TrxdRanges` (the protocol's literal numbers),
lemmas: `OsmoVerif.Lemmas.Trxd`.
-/
import OsmoVerif.Lemmas.Trxd

namespace OsmoVerif.Props.C13
open OsmoVerif OsmoVerif.Trxd OsmoVerif.Spec.TrxdRanges

/-- A Tx message validates iff every field lies in its protocol range. -/
theorem validate_tx_iff (m : TxMsg) : m.validate = .ok () ↔ InRangeTx m :=
  TxMsg.validate_iff m

/-- An Rx message validates iff every field lies in its protocol range. -/
theorem validate_rx_iff (m : RxMsg) : m.validate = .ok () ↔ InRangeRx m :=
  RxMsg.validate_iff m

/-- `validate()` never raises anything but ValueError (so "does not validate" = ValueError). -/
theorem validate_tx_refuses_iff (m : TxMsg) : m.validate = .error .valueError ↔ ¬ InRangeTx m := by
  rw [← validate_tx_iff]
  cases h : m.validate with
  | ok u => simp
  | error e => simp [TxMsg.validate_err m e h]

theorem validate_rx_refuses_iff (m : RxMsg) : m.validate = .error .valueError ↔ ¬ InRangeRx m := by
  rw [← validate_rx_iff]
  cases h : m.validate with
  | ok u => simp
  | error e => simp [RxMsg.validate_err m e h]

/-- Encoding a Tx message is refused with ValueError for exactly the messages that are not in
range, and yields octets for all others (legacy padding on or off). -/
theorem gen_refuses_iff_tx (m : TxMsg) (legacy : Bool) :
    (m.genMsg legacy = .error .valueError ↔ ¬ InRangeTx m) ∧
    (InRangeTx m → ∃ b, m.genMsg legacy = .ok b) := by
  have hok : InRangeTx m → ∃ b, m.genMsg legacy = .ok b := fun h => by
    obtain ⟨f, _, hg⟩ := TxMsg.genMsg_layout m legacy h
    exact ⟨_, hg⟩
  refine ⟨⟨fun he hr => ?_, fun hn => ?_⟩, hok⟩
  · obtain ⟨b, hb⟩ := hok hr
    rw [hb] at he
    cases he
  · have hv := (validate_tx_refuses_iff m).mpr hn
    simp only [TxMsg.genMsg, hv, bind, Except.bind]

/-- Encoding an Rx message is refused with ValueError for exactly the messages that are not in
range, and yields octets for all others. -/
theorem gen_refuses_iff_rx (m : RxMsg) (legacy : Bool) :
    (m.genMsg legacy = .error .valueError ↔ ¬ InRangeRx m) ∧
    (InRangeRx m → ∃ b, m.genMsg legacy = .ok b) := by
  have hok : InRangeRx m → ∃ b, m.genMsg legacy = .ok b := RxMsg.genMsg_ok m legacy
  refine ⟨⟨fun he hr => ?_, fun hn => ?_⟩, hok⟩
  · obtain ⟨b, hb⟩ := hok hr
    rw [hb] at he
    cases he
  · have hv := (validate_rx_refuses_iff m).mpr hn
    simp only [RxMsg.genMsg, hv, bind, Except.bind]

/-- `DATAInterface.send_msg` hands exactly one datagram (the encoding) to the socket iff the
message is in range; otherwise it sends nothing and returns normally (no exception). -/
theorem send_emits_iff_tx (m : TxMsg) (legacy : Bool) :
    ((∃ b, sendMsg (m.genMsg legacy) = .ok [b]) ↔ InRangeTx m) ∧
    (InRangeTx m → ∃ b, m.genMsg legacy = .ok b ∧ sendMsg (m.genMsg legacy) = .ok [b]) ∧
    (¬ InRangeTx m → sendMsg (m.genMsg legacy) = .ok []) := by
  obtain ⟨hiff, hok⟩ := gen_refuses_iff_tx m legacy
  have hbad : ¬ InRangeTx m → sendMsg (m.genMsg legacy) = .ok [] := fun hn => by
    rw [hiff.mpr hn]; rfl
  have hgood : InRangeTx m → ∃ b, m.genMsg legacy = .ok b ∧ sendMsg (m.genMsg legacy) = .ok [b] :=
    fun h => by obtain ⟨b, hb⟩ := hok h; exact ⟨b, hb, by rw [hb]; rfl⟩
  refine ⟨⟨fun ⟨b, hb⟩ => ?_, fun h => ?_⟩, hgood, hbad⟩
  · by_cases h : InRangeTx m
    · exact h
    · rw [hbad h] at hb; cases hb
  · obtain ⟨b, _, hs⟩ := hgood h; exact ⟨b, hs⟩

theorem send_emits_iff_rx (m : RxMsg) (legacy : Bool) :
    ((∃ b, sendMsg (m.genMsg legacy) = .ok [b]) ↔ InRangeRx m) ∧
    (InRangeRx m → ∃ b, m.genMsg legacy = .ok b ∧ sendMsg (m.genMsg legacy) = .ok [b]) ∧
    (¬ InRangeRx m → sendMsg (m.genMsg legacy) = .ok []) := by
  obtain ⟨hiff, hok⟩ := gen_refuses_iff_rx m legacy
  have hbad : ¬ InRangeRx m → sendMsg (m.genMsg legacy) = .ok [] := fun hn => by
    rw [hiff.mpr hn]; rfl
  have hgood : InRangeRx m → ∃ b, m.genMsg legacy = .ok b ∧ sendMsg (m.genMsg legacy) = .ok [b] :=
    fun h => by obtain ⟨b, hb⟩ := hok h; exact ⟨b, hb, by rw [hb]; rfl⟩
  refine ⟨⟨fun ⟨b, hb⟩ => ?_, fun h => ?_⟩, hgood, hbad⟩
  · by_cases h : InRangeRx m
    · exact h
    · rw [hbad h] at hb; cases hb
  · obtain ⟨b, _, hs⟩ := hgood h; exact ⟨b, hs⟩

/-! ### non-vacuity: both sides of every equivalence are inhabited by non-trivial messages -/

/-- a valid Tx message at the upper ends of its ranges (FN 2715647, TN 7, attenuation 255, EDGE length) -/
example : InRangeTx ⟨1, some 2715647, some 7, some 255, some (List.replicate 444 1)⟩ := by decide +kernel
/-- the frame number just above the range is refused (observation F2: accepted before the fix) -/
example : (⟨0, some 2715648, some 0, some 0, some (List.replicate 148 0)⟩ : TxMsg).validate
    = .error .valueError := by decide +kernel
example : ¬ InRangeTx ⟨0, some 2715648, some 0, some 0, some (List.replicate 148 0)⟩ := by decide +kernel
/-- a valid version-1 Rx message: 32QAM, TSC set 1, TSC 7, C/I at the lower bound -/
example : InRangeRx ⟨1, some 0, some 0, some (-120), some (-32768), Modulation.ofName? "Mod32QAM", false,
    some 1, some 7, some (-1280), some (List.replicate 740 (-127))⟩ := by decide +kernel
/-- a valid NOPE indication (no burst, modulation/TSC unset) -/
example : InRangeRx ⟨1, some 5, some 3, some (-47), some 32767, none, true, none, none, some 1280, none⟩ := by
  decide +kernel
/-- a NOPE indication that carries a burst is refused -/
example : ¬ InRangeRx ⟨1, some 5, some 3, some (-47), some 32767, none, true, none, none, some 1280,
    some (List.replicate 148 0)⟩ := by decide +kernel
/-- TSC set 2 is in range for GMSK only -/
example : InRangeRx ⟨1, some 5, some 3, some (-47), some 0, some Modulation.gmsk, false, some 2, some 0, some 0,
    some (List.replicate 148 0)⟩ ∧
    ¬ InRangeRx ⟨1, some 5, some 3, some (-47), some 0, Modulation.ofName? "ModGMSK_AB", false, some 2, some 0,
      some 0, some (List.replicate 148 0)⟩ := by decide +kernel
/-- a valid message is sent as exactly one datagram; an invalid one is dropped without exception -/
example : sendMsg ((⟨0, some 1, some 2, some 3, some (List.replicate 148 1)⟩ : TxMsg).genMsg true)
    = .ok [[2, 0, 0, 0, 1, 3] ++ List.replicate 148 1 ++ [0, 0]] := by decide +kernel
example : sendMsg ((⟨0, some 1, some 8, some 3, some (List.replicate 148 1)⟩ : TxMsg).genMsg true) = .ok [] := by
  decide +kernel

end OsmoVerif.Props.C13
