/-
C19, part "sch" — the Synchronisation-Burst decoders of the firmware (`l1s_decode_sb`, prim_fbsb.c) and of trxcon
(`decode_sb`, sched_lchan_sch.c) agree and invert the standard's coding of (BSIC, frame number).
Property theorems only; models: `OsmoVerif.Model.SchDecode` (+ `Model.GsmTime`), spec: `OsmoVerif.Spec.SchCoding`
(TS 44.018 §9.1.30, TS 45.002 §3.3.2.2.1), lemmas: `OsmoVerif.Lemmas.SchDecode`.
-/
import OsmoVerif.Lemmas.SchDecode
import OsmoVerif.Props.C19

namespace OsmoVerif.Props.C19Sch
open OsmoVerif OsmoVerif.GsmTime OsmoVerif.SchDecode OsmoVerif.Spec.SchCoding

/-- the word whose byte `k` is octet `k` (what trxcon assembles; bit `k` = d(k)) -/
def wordOf (o0 o1 o2 o3 : Nat) : Nat := o0 + 256 * o1 + 65536 * o2 + 16777216 * o3

/-! ### the spec: octet figure = bit table -/

/-- Figure 9.1.30.1 evaluated octet by octet is the 25-entry bit table `Spec.SchCoding.layout`. -/
theorem spec_layout (f : Fields) (h : f.InWidth) : encodeByLayout f = encodeFields f := by
  obtain ⟨h0, h1, h2, h3⟩ := h
  rw [encodeFields_flat]
  simp only [encodeByLayout, encodeByLayout.go, layout, Fields.get]
  omega

/-- Reading the table backwards recovers the fields of an encoded word, which has 25 bits. -/
theorem spec_layout_inverse (f : Fields) (h : f.InWidth) :
    decodeByLayout (encodeFields f) = f ∧ encodeFields f < 2 ^ 25 := by
  obtain ⟨e0, e1, e2, e3⟩ := fields_of_encode f h 0
  simp only [Nat.mul_zero, Nat.add_zero, fBsic, fT1, fT2, fT3p] at e0 e1 e2 e3
  refine ⟨?_, encodeFields_lt f h⟩
  rw [decodeByLayout_eq, e0, e1, e2, e3]

/-- The encoder is defined exactly on BSIC 0..63 and the SCH frames of the hyperframe. -/
theorem encode_defined (bsic fn : Nat) :
    (bsic < 64 ∧ fn < 2715648 ∧ isSchFrame fn = true) ↔ ∃ w, encodeSb bsic fn = some w := by
  simp only [encodeSb, rfn?, hyperframe]
  constructor
  · intro h; simp only [h, and_self, if_true, Option.map_some]; exact ⟨_, rfl⟩
  · intro ⟨w, hw⟩
    by_cases c : bsic < 64 ∧ fn < 26 * 51 * 2048 ∧ isSchFrame fn = true
    · exact c
    · simp only [c, if_false, Option.map_none] at hw; exact absurd hw (by simp)

/-- The fields it encodes are in the standard's ranges (T1 ≤ 2047, T2 ≤ 25, T3' ≤ 4) and T3 = 10·T3' + 1 on SCH frames. -/
theorem encode_fields_valid (bsic fn : Nat) (f : Fields) (h : rfn? bsic fn = some f) :
    f.Valid ∧ f.bsic = bsic ∧ f.t1 = fn / 1326 ∧ f.t2 = fn % 26 ∧ 10 * f.t3p + 1 = fn % 51 := by
  by_cases c : bsic < 64 ∧ fn < hyperframe ∧ isSchFrame fn = true
  · obtain ⟨hb, hf, hs⟩ := c
    have hs' := (isSchFrame_iff fn).1 hs
    simp only [rfn?, hb, hf, hs, and_self, if_true, Option.some.injEq] at h
    simp only [hyperframe] at hf
    subst h
    dsimp only [Fields.Valid]
    refine ⟨⟨hb, ?_, ?_, ?_⟩, rfl, ?_, rfl, ?_⟩ <;> omega
  · simp only [rfn?, c, if_false] at h; exact absurd h (by simp)

/-! ### (a) the two decoders agree on every input -/

/-- For all four octets (incl. the 7 indeterminate bits of `sb_info[3]`): trxcon's decoder is defined (no `int` shift
overflows: the `(uint32_t)` cast) and yields the same BSIC, T1, T2, T3 and FN as the firmware's on the same word; it
leaves `tc` alone. -/
theorem decoders_agree (t : GsmTime) (o0 o1 o2 o3 : Nat)
    (h0 : o0 < 256) (h1 : o1 < 256) (h2 : o2 < 256) (h3 : o3 < 256) :
    trxDecodeSb t o0 o1 o2 o3 =
      .ok ⟨(fwDecodeSb (wordOf o0 o1 o2 o3)).bsic, { (fwDecodeSb (wordOf o0 o1 o2 o3)).time with tc := t.tc }⟩ := by
  rw [trx_nf t o0 o1 o2 o3 h0 h1 h2 h3, fw_nf]
  have : wordOf o0 o1 o2 o3 % 4294967296 = o0 + 256 * o1 + 65536 * o2 + 16777216 * o3 := by
    simp only [wordOf]; omega
  rw [this]

/-- The same, quantified over the 32-bit word the firmware gets. -/
theorem decoders_agree_word (t : GsmTime) (sb : Nat) (h : sb < 4294967296) :
    trxDecodeSb t (sb % 256) (sb / 256 % 256) (sb / 65536 % 256) (sb / 16777216) =
      .ok ⟨(fwDecodeSb sb).bsic, { (fwDecodeSb sb).time with tc := t.tc }⟩ := by
  rw [decoders_agree t _ _ _ _ (by omega) (by omega) (by omega) (by omega)]
  have : wordOf (sb % 256) (sb / 256 % 256) (sb / 65536 % 256) (sb / 16777216) = sb := by
    simp only [wordOf]; omega
  rw [this]

/-! ### (c) every word: what is read, what is ignored, what can wrap -/

/-- Both decoders read exactly the 25 bits of the standard's table, whatever the word: BSIC, T1, T2 are the table's
fields, T3 = 10·T3' + 1 (no store wraps: T1 ≤ 2047 in `uint16_t`, T3 ≤ 71 in `uint8_t`), FN is `gsm_gsmtime2fn` of them,
the firmware's TC is (FN div 51) mod 8. -/
theorem decode_reads_layout (sb : Nat) :
    let f := decodeByLayout (sb % 2 ^ 25)
    let r := fwDecodeSb sb
    f.InWidth ∧ r.bsic = f.bsic ∧ r.time.t1 = f.t1 ∧ r.time.t2 = f.t2 ∧ r.time.t3 = 10 * f.t3p + 1
      ∧ r.time.fn = cGsmTime2Fn ⟨0, f.t1, f.t2, 10 * f.t3p + 1, 0⟩ ∧ r.time.tc = r.time.fn / 51 % 8 := by
  have hd : decodeByLayout (sb % 2 ^ 25) = ⟨fBsic sb, fT1 sb, fT2 sb, fT3p sb⟩ := by
    rw [decodeByLayout_eq]
    simp only [fBsic, fT1, fT2, fT3p, Fields.mk.injEq]
    omega
  obtain ⟨m0, m1, m2, m3⟩ := fields_mod32 sb
  simp only [hd, fw_nf, nfTime, m0, m1, m2, m3, Fields.InWidth, fnOf, and_self, and_true]
  exact ⟨fBsic_lt sb, fT1_lt sb, fT2_lt sb, fT3p_lt sb⟩

/-- Bits 25..31 (unused in the firmware's word; indeterminate stack content of `sb_info[3]` in trxcon) are ignored. -/
theorem decode_ignores_high_bits (sb : Nat) : fwDecodeSb sb = fwDecodeSb (sb % 2 ^ 25) := by
  rw [fw_nf, fw_nf]
  obtain ⟨m0, m1, m2, m3⟩ := fields_mod32 sb
  obtain ⟨n0, n1, n2, n3⟩ := fields_mod32 (sb % 2 ^ 25)
  obtain ⟨k0, k1, k2, k3⟩ := fields_mod sb
  simp only [Nat.reducePow] at *
  simp only [nfTime, m0, m1, m2, m3, n0, n1, n2, n3, k0, k1, k2, k3]

/-- The frame number when T2 ≤ T3 + 26 (every word except T3' = 0 with T2 ≥ 28): the `int` value of the recomposition
is non-negative and below 2^32, so the conversion to `uint32_t` keeps it; it may exceed the hyperframe by at most 20. -/
theorem fn_exact (sb : Nat) (h : (fwDecodeSb sb).time.t2 ≤ (fwDecodeSb sb).time.t3 + 26) :
    let r := fwDecodeSb sb
    r.time.fn = 51 * ((r.time.t3 + 26 - r.time.t2) % 26) + r.time.t3 + 1326 * r.time.t1 ∧ r.time.fn ≤ 2715668 := by
  have b1 := fT1_lt (sb % 4294967296)
  have b3 := fT3p_lt (sb % 4294967296)
  simp only [fw_nf, nfTime] at h ⊢
  rw [fnOf_nonneg _ _ _ h b1 (by omega)]
  omega

/-- The one silent wrap: the `int` recomposition is negative exactly for T1 = 0, T3' = 0, T2 ∈ 28..31 (not a valid T2);
`gsm_gsmtime2fn` then returns 2^32 − (51·(T2 − 27) − 1), a number far outside the hyperframe. -/
theorem fn_wraps_iff (sb : Nat) :
    let r := fwDecodeSb sb
    (recompInt r.time.t1 r.time.t2 r.time.t3 < 0 ↔ (r.time.t1 = 0 ∧ r.time.t3 = 1 ∧ 28 ≤ r.time.t2))
      ∧ (recompInt r.time.t1 r.time.t2 r.time.t3 < 0 → r.time.fn + (51 * (r.time.t2 - 27) - 1) = 4294967296) := by
  have b1 := fT1_lt (sb % 4294967296)
  have b2 := fT2_lt (sb % 4294967296)
  have b3 := fT3p_lt (sb % 4294967296)
  simp only [fw_nf, nfTime]
  generalize fT1 (sb % 4294967296) = t1 at *
  generalize fT2 (sb % 4294967296) = t2 at *
  generalize fT3p (sb % 4294967296) = p at *
  by_cases c : t2 ≤ 10 * p + 1 + 26
  · rw [recompInt_nonneg _ _ _ c]
    refine ⟨⟨fun h => ?_, fun ⟨_, _, _⟩ => ?_⟩, fun h => ?_⟩ <;> omega
  · have c' : 10 * p + 1 + 26 < t2 := by omega
    have hp : p = 0 := by omega
    subst hp
    rw [fnOf_eq, recompInt_neg _ _ _ c' (by omega)]
    by_cases z : t1 = 0
    · subst z
      have hv : (((1326 * 0 + (10 * 0 + 1) : Nat) : Int) - ((51 * (t2 - (10 * 0 + 1) - 26) : Nat) : Int)) % 4294967296
          = 4294967296 + 1 - ((51 * (t2 - 27) : Nat) : Int) := by omega
      rw [hv]
      refine ⟨⟨fun _ => ?_, fun _ => ?_⟩, fun _ => ?_⟩ <;> omega
    · refine ⟨⟨fun h => ?_, fun ⟨_, _, _⟩ => ?_⟩, fun h => ?_⟩ <;> omega

/-- exhibit: T2 field all ones, everything else zero -/
example : fwDecodeSb 0x7c0000 = ⟨0, ⟨4294967093, 0, 31, 1, 1⟩⟩ := by decide +kernel
/-- exhibit: T1 = 2047, T2 = 20, T3' = 7 (T3 = 71): FN 2715668 is beyond the hyperframe (no wrap) -/
example : (fwDecodeSb 0x1d3ff03).time = ⟨2715668, 2047, 20, 71, 0⟩ := by decide +kernel

/-- T3' ∈ 5..7 with a valid T2: T3 = 51, 61, 71 is stored as it is, FN mod 51 is 0, 10, 20 (an FCCH position): the
result is never an SCH frame and the struct is not the GSM time of its own `fn`. -/
theorem t3p_invalid_not_sch (sb : Nat) (h2 : (fwDecodeSb sb).time.t2 < 26) (h3 : 51 ≤ (fwDecodeSb sb).time.t3) :
    let r := fwDecodeSb sb
    r.time.fn % 51 = r.time.t3 - 51 ∧ isSchFrame r.time.fn = false ∧ r.time ≠ cFn2GsmTime r.time.fn := by
  have b1 := fT1_lt (sb % 4294967296)
  have b3 := fT3p_lt (sb % 4294967296)
  simp only [fw_nf, nfTime] at h2 h3 ⊢
  generalize fT1 (sb % 4294967296) = t1 at *
  generalize fT2 (sb % 4294967296) = t2 at *
  generalize fT3p (sb % 4294967296) = p at *
  rw [fnOf_nonneg _ _ _ (by omega) b1 (by omega)]
  have hd : (10 * p + 1 + 26 - t2) % 26 < 26 := Nat.mod_lt _ (by decide)
  generalize (10 * p + 1 + 26 - t2) % 26 = d at *
  have e : (51 * d + (10 * p + 1) + 1326 * t1) % 51 = 10 * p + 1 - 51 := by omega
  refine ⟨e, ?_, ?_⟩
  · have : ¬ (isSchFrame (51 * d + (10 * p + 1) + 1326 * t1) = true) := fun hh => by
      have := (isSchFrame_iff _).1 hh
      rw [e] at this; omega
    simpa using this
  · intro hh
    have := congrArg GsmTime.t3 hh
    simp only [cFn2GsmTime, u8, u32] at this
    have hlt : 51 * d + (10 * p + 1) + 1326 * t1 < 4294967296 := by omega
    rw [Nat.mod_eq_of_lt hlt, e] at this
    omega

/-! ### (b) the decoders invert the standard's encoder -/

/-- The reduced frame number of an SCH frame recomposes to its GSM time: T3 = 10·T3' + 1 on SCH frames, then
`C19.decomp_recomp` (CRT) and `C19.decomp_components`. -/
theorem rfn_recomposes (fn : Nat) (h : fn < 2715648) (hs : isSchFrame fn = true) (s : Nat)
    (e1 : fT1 s = fn / 1326) (e2 : fT2 s = fn % 26) (e3 : fT3p s = (fn % 51 - 1) / 10) :
    nfTime s = cFn2GsmTime fn := by
  have hs' := (isSchFrame_iff fn).1 hs
  have t3 : 10 * ((fn % 51 - 1) / 10) + 1 = fn % 51 := by omega
  have hr := C19.decomp_recomp fn (by simp only [C19.hyperframe]; omega)
  rw [C19.decomp_components fn (by simp only [C19.hyperframe]; omega)] at hr ⊢
  simp only [nfTime, e1, e2, e3, t3, fnOf]
  have : cGsmTime2Fn ⟨0, fn / 1326, fn % 26, fn % 51, 0⟩ = fn := hr
  rw [this]

/-- (b), firmware: for every BSIC 0..63 and every SCH frame of the hyperframe, decoding the standard's word — with any
content of the unused bits 25..31 — returns the BSIC and exactly `gsm_fn2gsmtime(fn)`: fn, T1, T2, T3 and TC. -/
theorem decode_encode_fw (bsic fn w g : Nat) (h : encodeSb bsic fn = some w) (hg : g < 128) :
    fwDecodeSb (w + 2 ^ 25 * g) = ⟨bsic, cFn2GsmTime fn⟩ := by
  obtain ⟨hb, hf, hs⟩ := (encode_defined bsic fn).2 ⟨w, h⟩
  have hs' := (isSchFrame_iff fn).1 hs
  simp only [encodeSb, rfn?, hyperframe, hb, hf, hs, and_self, if_true, Option.map_some, Option.some.injEq] at h
  have hW : Fields.InWidth ⟨bsic, fn / (26 * 51), fn % 26, (fn % 51 - 1) / 10⟩ := by
    simp only [Fields.InWidth]; omega
  obtain ⟨e0, e1, e2, e3⟩ := fields_of_encode _ hW g
  have hlt := encodeFields_lt _ hW
  rw [h] at e0 e1 e2 e3 hlt
  rw [fw_nf]
  have hw : (w + 2 ^ 25 * g) % 4294967296 = w + 33554432 * g := by omega
  rw [hw, e0, rfn_recomposes fn hf hs _ e1 e2 e3]

/-- an encoded word has 25 bits -/
theorem encode_lt (bsic fn w : Nat) (h : encodeSb bsic fn = some w) : w < 2 ^ 25 := by
  obtain ⟨hb, hf, hs⟩ := (encode_defined bsic fn).2 ⟨w, h⟩
  simp only [encodeSb, rfn?, hyperframe, hb, hf, hs, and_self, if_true, Option.map_some, Option.some.injEq] at h
  have hs' := (isSchFrame_iff fn).1 hs
  have hW : Fields.InWidth ⟨bsic, fn / (26 * 51), fn % 26, (fn % 51 - 1) / 10⟩ := by
    simp only [Fields.InWidth]; omega
  have hlt := encodeFields_lt _ hW
  rw [h] at hlt
  exact hlt

/-- (b), trxcon: the same for the four octets of the word, `sb_info[3]` carrying any 7 extra bits; `tc` of the caller's
struct is not written. -/
theorem decode_encode_trx (t : GsmTime) (bsic fn w g : Nat) (h : encodeSb bsic fn = some w) (hg : g < 128) :
    trxDecodeSb t (w % 256) (w / 256 % 256) (w / 65536 % 256) (w / 16777216 + 2 * g) =
      .ok ⟨bsic, { cFn2GsmTime fn with tc := t.tc }⟩ := by
  have hw25 : w < 33554432 := encode_lt bsic fn w h
  rw [decoders_agree t _ _ _ _ (by omega) (by omega) (by omega) (by omega)]
  have : wordOf (w % 256) (w / 256 % 256) (w / 65536 % 256) (w / 16777216 + 2 * g) = w + 2 ^ 25 * g := by
    simp only [wordOf]; omega
  rw [this, decode_encode_fw bsic fn w g h hg]

/-- A word decodes to a consistent GSM time of the hyperframe (the struct is `gsm_fn2gsmtime` of its own `fn`)
exactly when its T2 and T3' fields are in the standard's ranges. -/
theorem decode_consistent_iff (sb : Nat) :
    let r := fwDecodeSb sb
    (r.time = cFn2GsmTime r.time.fn ∧ r.time.fn < 2715648) ↔ (r.time.t2 < 26 ∧ r.time.t3 < 51) := by
  have b1 := fT1_lt (sb % 4294967296)
  have b2 := fT2_lt (sb % 4294967296)
  have b3 := fT3p_lt (sb % 4294967296)
  simp only [fw_nf, nfTime]
  generalize fT1 (sb % 4294967296) = t1 at *
  generalize fT2 (sb % 4294967296) = t2 at *
  generalize fT3p (sb % 4294967296) = p at *
  constructor
  · intro ⟨hh, _⟩
    have a2 := congrArg GsmTime.t2 hh
    have a3 := congrArg GsmTime.t3 hh
    simp only [cFn2GsmTime, u8, u32] at a2 a3
    exact ⟨a2 ▸ mod26_u8 _, a3 ▸ mod51_u8 _⟩
  · intro ⟨h2, h3⟩
    obtain ⟨c2, c3, clt⟩ := crt_rev_core _ h2 _ h3
    rw [fnOf_nonneg _ _ _ (by omega) b1 (by omega)]
    generalize 51 * ((10 * p + 1 + 26 - t2) % 26) + (10 * p + 1) = r at *
    obtain ⟨q1, q2, q3⟩ := crt_parts r t1 clt
    refine ⟨?_, by omega⟩
    have hlt : (r + 1326 * t1) % 4294967296 = r + 1326 * t1 := by omega
    simp only [cFn2GsmTime, u8, u16, u32, GsmTime.mk.injEq, hlt, true_and, Nat.reduceMul, q1, q2, q3, c2, c3]
    refine ⟨?_, ?_, ?_, ?_⟩ <;> omega

/-- Conversely the encoder inverts the decoders: a 25-bit word with T2 ≤ 25 and T3' ≤ 4 is the standard's encoding of
the (BSIC, FN) it decodes to, and that FN is an SCH frame of the hyperframe.  Together with `decode_encode_fw`:
encoder and decoders are mutually inverse bijections between {0..63} × {SCH frames} and the valid 25-bit words. -/
theorem encode_decode (sb : Nat) (h : sb < 2 ^ 25)
    (h2 : (fwDecodeSb sb).time.t2 < 26) (h3 : (fwDecodeSb sb).time.t3 < 51) :
    encodeSb (fwDecodeSb sb).bsic (fwDecodeSb sb).time.fn = some sb := by
  have b0 := fBsic_lt sb
  have b1 := fT1_lt sb
  have b3 := fT3p_lt sb
  have hm : sb % 4294967296 = sb := by omega
  simp only [fw_nf, nfTime, hm] at h2 h3 ⊢
  have hc := crt_rev_core _ h2 _ h3
  rw [fnOf_nonneg _ _ _ (by omega) b1 (by omega)]
  -- the word is the encoding of its own fields
  have hword : encodeFields ⟨fBsic sb, fT1 sb, fT2 sb, fT3p sb⟩ = sb := encode_of_fields sb h
  generalize fBsic sb = b at *
  generalize fT1 sb = t1 at *
  generalize fT2 sb = t2 at *
  generalize fT3p sb = p at *
  generalize hr : 51 * ((10 * p + 1 + 26 - t2) % 26) + (10 * p + 1) = r at *
  obtain ⟨c2, c3, clt⟩ := hc
  obtain ⟨q1, q2, q3'⟩ := crt_parts r t1 clt
  have hsch : isSchFrame (r + 1326 * t1) = true := by
    rw [isSchFrame_iff, q3', c3]; omega
  have q3 : ((r + 1326 * t1) % 51 - 1) / 10 = p := by rw [q3', c3]; omega
  have hH : r + 1326 * t1 < 2715648 := by omega
  simp only [encodeSb, rfn?, hyperframe, Nat.reduceMul, b0, hsch, hH, and_self, if_true, Option.map_some,
    Option.some.injEq, q1, q2, q3, c2]
  exact hword

/-! ### non-vacuity -/

/-- first and last SCH frame of the hyperframe, BSIC 63; a mid-hyperframe frame with garbage in the unused bits -/
example : encodeSb 63 1 = some 0x400fc ∧ fwDecodeSb 0x400fc = ⟨63, cFn2GsmTime 1⟩ ∧
    encodeSb 63 2715638 = some 0xc2ffff ∧ fwDecodeSb 0xc2ffff = ⟨63, ⟨2715638, 2047, 16, 41, 7⟩⟩ ∧
    isSchFrame 1234568 = true ∧ encodeSb 37 1234568 = some 0x1a8d195 ∧
    fwDecodeSb (0x1a8d195 + 2 ^ 25 * 127) = ⟨37, ⟨1234568, 931, 10, 11, 7⟩⟩ ∧
    trxDecodeSb ⟨9, 9, 9, 9, 5⟩ 0x95 0xd1 0xa8 0xff = .ok ⟨37, ⟨1234568, 931, 10, 11, 5⟩⟩ := by decide +kernel

/-- hypotheses of `encode_decode` / `decode_consistent_iff` (valid fields) and of `t3p_invalid_not_sch` (T3' = 7, T2 = 20)
are satisfiable -/
example : (0x1a8d195 < 2 ^ 25 ∧ (fwDecodeSb 0x1a8d195).time.t2 < 26 ∧ (fwDecodeSb 0x1a8d195).time.t3 < 51) ∧
    ((fwDecodeSb 0x1d3ff03).time.t2 < 26 ∧ 51 ≤ (fwDecodeSb 0x1d3ff03).time.t3) := by decide +kernel

/-- without the `(uint32_t)` cast the model's `int` shift of `sb_info[3] ≥ 128` has no value -/
example : shlInt 0x80 24 = .error (.shlInt 0x80 24) := rfl
example : shlInt 0xff 16 = .ok 0xff0000 := rfl

end OsmoVerif.Props.C19Sch
