/-
C17 — TRXD PDU definitions (v0, v1, v2) have the documented structure.
Property theorems only.  The six definitions are REGENERATED from the live trxd_proto.py
(`OsmoVerif.Gen.TrxdProto`) and interpreted by the codec model of C16; the documented layout is
`OsmoVerif.Spec.TrxdPduLayout`.
-/
import OsmoVerif.Props.C16
import OsmoVerif.Lemmas.CodecPdu
import OsmoVerif.Gen.TrxdProto

namespace OsmoVerif.Props.C17
open OsmoVerif OsmoVerif.Codec OsmoVerif.Gen.TrxdProto OsmoVerif.Spec.Trxd

/-! ## the regenerated definitions are well-formed; offsets/masks as the live constructor derived them -/

theorem pdu_wf : WF pduV0Rx ∧ WF pduV0Tx ∧ WF pduV1Rx ∧ WF pduV1Tx ∧ WF pduV2Rx ∧ WF pduV2Tx := by
  decide

/-- the model's offset/mask derivation gives exactly the `(offset, mask)` pairs that the real
`BitFieldSet.__init__` computed for every bit-field set of the six PDUs -/
theorem bitfield_layout_live :
    liveBitsets.all (fun (f, om) =>
      match f with
      | .bits _ len little fs =>
        (match bitsDerive len little fs with
         | .ok (_, offs) => offs.map (fun (b, o) => (o, 2 ^ b.bl - 1)) == om
         | .error _ => false)
      | _ => false) = true := by
  decide

/-- the sub-PDU definitions dumped separately are the items of the `bpdu` sequences -/
theorem bpdu_is_item :
    pduV2Rx.fs.getLast? = some (.seq "bpdu" .always .rest bpduV2Rx)
    ∧ pduV2Tx.fs.getLast? = some (.seq "bpdu" .always .rest bpduV2Tx) :=
  ⟨rfl, rfl⟩

/-! ## every PDU class decodes what it encodes (instances of C16) -/

theorem pdu_roundtrip_v0rx (v : Vals) (hr : InRange pduV0Rx v 0) :
    ∃ b, toBytes pduV0Rx v = .ok b ∧ fromBytes pduV0Rx b = .ok (v, b.length) := by
  obtain ⟨b, h1, _, h3⟩ := C16.dec_enc pduV0Rx v pdu_wf.1 hr; exact ⟨b, h1, h3⟩

theorem pdu_roundtrip_v0tx (v : Vals) (hr : InRange pduV0Tx v 0) :
    ∃ b, toBytes pduV0Tx v = .ok b ∧ fromBytes pduV0Tx b = .ok (v, b.length) := by
  obtain ⟨b, h1, _, h3⟩ := C16.dec_enc pduV0Tx v pdu_wf.2.1 hr; exact ⟨b, h1, h3⟩

theorem pdu_roundtrip_v1rx (v : Vals) (hr : InRange pduV1Rx v 0) :
    ∃ b, toBytes pduV1Rx v = .ok b ∧ fromBytes pduV1Rx b = .ok (v, b.length) := by
  obtain ⟨b, h1, _, h3⟩ := C16.dec_enc pduV1Rx v pdu_wf.2.2.1 hr; exact ⟨b, h1, h3⟩

theorem pdu_roundtrip_v1tx (v : Vals) (hr : InRange pduV1Tx v 0) :
    ∃ b, toBytes pduV1Tx v = .ok b ∧ fromBytes pduV1Tx b = .ok (v, b.length) := by
  obtain ⟨b, h1, _, h3⟩ := C16.dec_enc pduV1Tx v pdu_wf.2.2.2.1 hr; exact ⟨b, h1, h3⟩

theorem pdu_roundtrip_v2rx (v : Vals) (hr : InRange pduV2Rx v 0) :
    ∃ b, toBytes pduV2Rx v = .ok b ∧ fromBytes pduV2Rx b = .ok (v, b.length) := by
  obtain ⟨b, h1, _, h3⟩ := C16.dec_enc pduV2Rx v pdu_wf.2.2.2.2.1 hr; exact ⟨b, h1, h3⟩

theorem pdu_roundtrip_v2tx (v : Vals) (hr : InRange pduV2Tx v 0) :
    ∃ b, toBytes pduV2Tx v = .ok b ∧ fromBytes pduV2Tx b = .ok (v, b.length) := by
  obtain ⟨b, h1, _, h3⟩ := C16.dec_enc pduV2Tx v pdu_wf.2.2.2.2.2 hr; exact ⟨b, h1, h3⟩

/-- and whatever any of the six classes decodes re-encodes to canonical octets that decode to the same -/
theorem pdu_decode_reencode (d : EnvDef) (hd : d ∈ all.map (·.2)) (b : List Nat) (v : Vals) (n : Nat)
    (hb : isBytes b = true) (h : fromBytes d b = .ok (v, n)) :
    n = b.length ∧ ∃ c, toBytes d v = .ok c ∧ c.length = n ∧ fromBytes d c = .ok (v, n) := by
  have hw : WF d ∧ d.checkLen = true := by
    simp only [all, List.map_cons, List.map_nil, List.mem_cons, List.not_mem_nil, or_false] at hd
    rcases hd with rfl | rfl | rfl | rfl | rfl | rfl <;> exact ⟨by decide, rfl⟩
  exact C16.enc_dec_idem d b v n hw.1 hb hw.2 h

/-- whatever octets arrive, each of the six classes either decodes them or raises `DecodeError` — nothing else -/
theorem pdu_errors_own (d : EnvDef) (hd : d ∈ all.map (·.2)) (b : List Nat) (e : Err)
    (h : fromBytes d b = .error e) : e = .decode := by
  have hw : WF d ∧ RefsOK d := by
    simp only [all, List.map_cons, List.map_nil, List.mem_cons, List.not_mem_nil, or_false] at hd
    rcases hd with rfl | rfl | rfl | rfl | rfl | rfl <;> exact ⟨by decide, by decide⟩
  exact C16.errors_own_decode_strict d b e hw.1 hw.2 h

/-! ## burst length by modulation, NOPE -/

mutual
/-- the burst fields of a definition (name, presence, length descriptor), nested sequences included -/
def burstOfField : FDef → List (String × Pres × LenD)
  | .buf n p ld => [(n, p, ld)]
  | .seq _ _ _ item => burstFields item
  | _ => []
def burstFields : List FDef → List (String × Pres × LenD)
  | [] => []
  | f :: rest => burstOfField f ++ burstFields rest
end

def codes : List Int := [-2, -1, 0, 1, 2, 3, 4, 5, 6, 7, 8, 9, 10, 11, 12, 13, 14, 15, 16, 17, 31, 32, 39]

/-- a burst field: present iff `nope` is false, length = documented burst length of the code `mod`
for every code (RFU `0111` and anything outside 0..15 rejected) -/
def burstFieldOK (x : String × Pres × LenD) : Bool :=
  decide (x.2.1 = .flagFalse "nope") &&
  (match x.2.2 with
   | .table f tbl => decide (f = "mod") &&
       codes.all (fun m => decide ((match tableGet tbl m with | .ok n => some n | .error _ => none) = burstLen m))
   | _ => false)

/-- In every v1/v2 PDU (and batched sub-PDU) the burst is present iff `nope` is false and its length is
the documented burst length of the modulation code; the live `MTS.get_burst_len` agrees with the
documentation on -2..39. -/
theorem burst_len_by_mod :
    (burstFields pduV1Rx.fs).all burstFieldOK = true ∧ (burstFields pduV1Rx.fs).length = 1
    ∧ (burstFields pduV2Rx.fs).all burstFieldOK = true ∧ (burstFields pduV2Rx.fs).length = 2
    ∧ (burstFields pduV2Tx.fs).all burstFieldOK = true ∧ (burstFields pduV2Tx.fs).length = 2
    ∧ (∀ x ∈ mtsBurstLen, x.2 = burstLen x.1) := by
  decide

/-- what such a field does when it decodes (any definition): nothing if `nope` is true, else exactly
`table[mod]` octets -/
theorem burst_field_semantics (name : String) (tbl : List (Int × Nat)) (pre pre' : Vals) (data : List Nat) (k : Nat)
    (h : fieldFrom (.buf name (.flagFalse "nope") (.table "mod" tbl)) pre data = .ok (pre', k)) :
    (∃ x, pre.get "nope" = .ok x ∧ x.truthy = true ∧ k = 0 ∧ pre' = pre) ∨
    (∃ x m, pre.get "nope" = .ok x ∧ x.truthy = false ∧ pre.get "mod" = .ok (.int m) ∧ tableGet tbl m = .ok k
      ∧ k ≤ data.length ∧ pre' = pre.set name (.bytes (data.take k))) := by
  simp only [fieldFrom] at h
  rcases fieldFromCore_ok_inv h with ⟨h1, h2, h3⟩ | ⟨h1, hg, hk, hb⟩
  · simp only [getPres] at h1
    cases hx : pre.get "nope" with
    | error e => simp [hx] at h1
    | ok x => simp only [hx, Except.ok.injEq, Bool.not_eq_false'] at h1; exact .inl ⟨x, rfl, h1, h3, h2⟩
  · simp only [getPres] at h1
    cases hx : pre.get "nope" with
    | error e => simp [hx] at h1
    | ok x =>
      simp only [hx, Except.ok.injEq, Bool.not_eq_true'] at h1
      simp only [getLen] at hg
      cases hm : pre.get "mod" with
      | error e => simp [hm] at hg
      | ok mv =>
        cases mv with
        | int m =>
          simp only [hm] at hg
          simp only [Except.ok.injEq] at hb
          exact .inr ⟨x, m, rfl, h1, rfl, hg, hk, hb.symm⟩
        | _ => simp [hm] at hg

/-- … and when it encodes: a NOPE indication carries no burst even if the dict holds one -/
theorem nope_no_burst (name : String) (tbl : List (Int × Nat)) (v : Vals) (x : Val)
    (hx : v.get "nope" = .ok x) (ht : x.truthy = true) :
    fieldTo (.buf name (.flagFalse "nope") (.table "mod" tbl)) v = .ok []
    ∧ ∀ pre data, pre.get "nope" = .ok x →
        fieldFrom (.buf name (.flagFalse "nope") (.table "mod" tbl)) pre data = .ok (pre, 0) := by
  refine ⟨?_, fun pre data hp => ?_⟩
  · simp [fieldTo, fieldToCore, getPres, hx, ht]
  · simp [fieldFrom, fieldFromCore, getPres, hp, ht]

/-! ## a wrong version nibble is rejected -/

theorem hdr1_mismatch (ver : Int) (h : Nat) (rest : List Nat) (hv : ((h / 16 % 16 : Nat) : Int) ≠ ver) :
    fieldFrom (hdr1 ver) [] (h :: rest) = .error .decode := by
  simp only [hdr1, fieldFrom, hdr1_derive]
  refine fieldFromCore_body_error (n := 1) rfl rfl (by simp) ?_
  apply C16.fixed_value_mismatch _ _ _ _ _ "ver" ver rfl rfl
  have e : leToNat (List.take 1 (h :: rest)).reverse = h := by simp [leToNat]
  rw [e, Nat.shiftRight_eq_div_pow]
  exact hv

theorem hdr2_mismatch (h0 h1 : Nat) (rest : List Nat) (h1b : h1 < 256) (hv : h0 / 16 % 16 ≠ 2) :
    fieldFrom hdr2 [] (h0 :: h1 :: rest) = .error .decode := by
  simp only [hdr2, fieldFrom, hdr2_derive]
  refine fieldFromCore_body_error (n := 2) rfl rfl (by simp) ?_
  apply C16.fixed_value_mismatch _ _ _ _ _ "ver" 2 rfl rfl
  have e : leToNat (List.take 2 (h0 :: h1 :: rest)).reverse = h1 + 256 * h0 := by simp [leToNat]
  rw [e, Nat.shiftRight_eq_div_pow]
  have : (h1 + 256 * h0) / 2 ^ 12 % 2 ^ 4 = h0 / 16 % 16 := by omega
  rw [this]; omega

/-- every datagram whose version nibble is not the class's own is rejected with DecodeError
(whatever follows), for all six classes -/
theorem wrong_version_rejected :
    (∀ (h : Nat) (rest : List Nat), h / 16 % 16 ≠ 0 →
        fromBytes pduV0Rx (h :: rest) = .error .decode ∧ fromBytes pduV0Tx (h :: rest) = .error .decode)
    ∧ (∀ (h : Nat) (rest : List Nat), h / 16 % 16 ≠ 1 →
        fromBytes pduV1Rx (h :: rest) = .error .decode ∧ fromBytes pduV1Tx (h :: rest) = .error .decode)
    ∧ (∀ (h0 h1 : Nat) (rest : List Nat), h1 < 256 → h0 / 16 % 16 ≠ 2 →
        fromBytes pduV2Rx (h0 :: h1 :: rest) = .error .decode
        ∧ fromBytes pduV2Tx (h0 :: h1 :: rest) = .error .decode) := by
  refine ⟨fun h rest hv => ?_, fun h rest hv => ?_, fun h0 h1 rest hb hv => ?_⟩
  · have hv' : ((h / 16 % 16 : Nat) : Int) ≠ 0 := by omega
    exact ⟨fromBytes_first_error pduV0Rx (hdr1 0) _ _ _ rfl (hdr1_mismatch 0 h rest hv'),
      fromBytes_first_error pduV0Tx (hdr1 0) _ _ _ rfl (hdr1_mismatch 0 h rest hv')⟩
  · have hv' : ((h / 16 % 16 : Nat) : Int) ≠ 1 := by omega
    exact ⟨fromBytes_first_error pduV1Rx (hdr1 1) _ _ _ rfl (hdr1_mismatch 1 h rest hv'),
      fromBytes_first_error pduV1Tx (hdr1 1) _ _ _ rfl (hdr1_mismatch 1 h rest hv')⟩
  · exact ⟨fromBytes_first_error pduV2Rx hdr2 _ _ _ rfl (hdr2_mismatch h0 h1 rest hb hv),
      fromBytes_first_error pduV2Tx hdr2 _ _ _ rfl (hdr2_mismatch h0 h1 rest hb hv)⟩

/-! ## reserved bits are ignored on receipt -/

set_option maxRecDepth 100000 in
private theorem res1_bits : ∀ h < 256, ((h ||| 8) >>> 4) % 2 ^ 4 = (h >>> 4) % 2 ^ 4 ∧ ((h ||| 8) >>> 0) % 2 ^ 3 = (h >>> 0) % 2 ^ 3 := by
  decide +kernel

theorem hdr1_reserved (ver : Int) (h : Nat) (rest : List Nat) (hb : h < 256) :
    fieldFrom (hdr1 ver) [] ([h ||| 8] ++ rest) = fieldFrom (hdr1 ver) [] ([h] ++ rest) := by
  obtain ⟨e1, e2⟩ := res1_bits h hb
  have a1 : leToNat (List.take 1 ([h ||| 8] ++ rest)).reverse = h ||| 8 := by simp [leToNat]
  have a2 : leToNat (List.take 1 ([h] ++ rest)).reverse = h := by simp [leToNat]
  simp only [hdr1, fieldFrom, hdr1_derive, fieldFromCore, getPres, List.length_append, List.length_cons,
    List.length_nil, a1, a2, bitsDec, e1, e2]

theorem hdr1_consumes (ver : Int) (data : List Nat) (v : Vals) (k : Nat)
    (h : fieldFrom (hdr1 ver) [] data = .ok (v, k)) : k = 1 := by
  simp only [hdr1, fieldFrom, hdr1_derive] at h
  rcases fieldFromCore_ok_inv h with ⟨h1, _⟩ | ⟨_, hg, _⟩
  · simp [getPres] at h1
  · simp only [Except.ok.injEq] at hg; exact hg.symm

/-- the reserved bit of the first octet (value 8) is ignored by every v0/v1 class: a datagram with the bit
set decodes exactly like the same datagram with the bit cleared -/
theorem reserved_zero_ignored (h : Nat) (rest : List Nat) (hb : h < 256) :
    fromBytes pduV0Rx ((h ||| 8) :: rest) = fromBytes pduV0Rx (h :: rest)
    ∧ fromBytes pduV0Tx ((h ||| 8) :: rest) = fromBytes pduV0Tx (h :: rest)
    ∧ fromBytes pduV1Rx ((h ||| 8) :: rest) = fromBytes pduV1Rx (h :: rest)
    ∧ fromBytes pduV1Tx ((h ||| 8) :: rest) = fromBytes pduV1Tx (h :: rest) := by
  have key : ∀ (d : EnvDef) (ver : Int) (fsr : List FDef), d.fs = hdr1 ver :: fsr →
      fromBytes d ((h ||| 8) :: rest) = fromBytes d (h :: rest) := by
    intro d ver fsr hd
    exact fromBytes_first_congr d (hdr1 ver) fsr [h ||| 8] [h] rest hd rfl (hdr1_reserved ver h rest hb)
      (fun v k hk => hdr1_consumes ver _ v k hk)
  exact ⟨key pduV0Rx 0 _ rfl, key pduV0Tx 0 _ rfl, key pduV1Rx 1 _ rfl, key pduV1Tx 1 _ rfl⟩

/-! ## the documented octet layout (v0, v1) -/

def valsTx (ver tn fn pwr : Nat) (bits : List Nat) : Vals :=
  [("ver", .int ver), ("tn", .int tn), ("fn", .int fn), ("pwr", .int pwr), ("hard-bits", .bytes bits)]

def valsRxV0 (tn fn : Nat) (rssi toa256 : Int) (bits pad : List Nat) : Vals :=
  [("ver", .int 0), ("tn", .int tn), ("fn", .int fn), ("rssi", .int rssi), ("toa256", .int toa256),
   ("soft-bits", .bytes bits), ("pad", .bytes pad)]

/-- `burst = [("soft-bits", bits)]`, or `[]` for a NOPE indication -/
def valsRxV1 (tn fn : Nat) (rssi toa256 : Int) (nope mod tsc : Nat) (ci : Int) (burst : Vals) : Vals :=
  [("ver", .int 1), ("tn", .int tn), ("fn", .int fn), ("rssi", .int rssi), ("toa256", .int toa256),
   ("nope", .int nope), ("mod", .int mod), ("tsc", .int tsc), ("cir", .int ci)] ++ burst

/-- the burst-length table of the live v1 definition -/
def burstTable : List (Int × Nat) :=
  match pduV1Rx.fs with
  | [_, _, _, _, _, _, .buf _ _ (.table _ t)] => t
  | _ => []

/-- the field structure of the four v0/v1 classes, as regenerated from the live module -/
theorem v01_shape :
    pduV0Tx = ⟨true, [hdr1 0, .int "fn" .always 4 .big false 0 1, .int "pwr" .always 1 .big false 0 1,
      .buf "hard-bits" .always .rest]⟩
    ∧ pduV1Tx = ⟨true, [hdr1 1, .int "fn" .always 4 .big false 0 1, .int "pwr" .always 1 .big false 0 1,
      .buf "hard-bits" .always .rest]⟩
    ∧ pduV0Rx = ⟨true, [hdr1 0, .int "fn" .always 4 .big false 0 1, .int "rssi" .always 1 .big false 0 (-1),
      .int "toa256" .always 2 .big true 0 1, .buf "soft-bits" .always (.thresh 150 444 148), .buf "pad" .always .rest]⟩
    ∧ pduV1Rx = ⟨true, [hdr1 1, .int "fn" .always 4 .big false 0 1, .int "rssi" .always 1 .big false 0 (-1),
      .int "toa256" .always 2 .big true 0 1, mtsSet, .int "cir" .always 2 .big true 0 1,
      .buf "soft-bits" (.flagFalse "nope") (.table "mod" burstTable)]⟩ :=
  ⟨rfl, rfl, rfl, rfl⟩

theorem burstTable_spec : ∀ m : Nat, m < 16 →
    (match tableGet burstTable (m : Int) with | .ok n => some n | .error _ => none) = burstLen m := by
  decide

theorem tableGet_of_spec (m L : Nat) (hm : m < 16) (h : burstLen m = some L) :
    tableGet burstTable (m : Int) = .ok L := by
  have := burstTable_spec m hm
  rw [h] at this
  cases hg : tableGet burstTable (m : Int) with
  | error e => simp [hg] at this
  | ok n => simp [hg] at this; rw [this]

/-- Tx PDU, versions 0 and 1: `enc v` is the documented layout -/
theorem layout_tx (ver tn fn pwr : Nat) (bits : List Nat) (h1 : tn < 8) (h2 : fn < 4294967296) (h3 : pwr < 256) :
    (ver = 0 → toBytes pduV0Tx (valsTx ver tn fn pwr bits) = .ok (layoutTx ver tn fn pwr bits))
    ∧ (ver = 1 → toBytes pduV1Tx (valsTx ver tn fn pwr bits) = .ok (layoutTx ver tn fn pwr bits)) := by
  have e1 := u32_enc "fn" (valsTx ver tn fn pwr bits) fn (by simp [valsTx, Vals.get]) h2
  have e2 := u8_enc "pwr" (valsTx ver tn fn pwr bits) pwr (by simp [valsTx, Vals.get]) h3
  have e3 := fieldTo_buf_eval "hard-bits" .rest (valsTx ver tn fn pwr bits) bits (by simp [valsTx, Vals.get]) rfl
    .always rfl
  refine ⟨fun hv => ?_, fun hv => ?_⟩
  · subst hv
    have e0 := hdr1_enc 0 0 tn (valsTx 0 tn fn pwr bits) rfl (by omega) h1 (by simp [valsTx, Vals.get])
    rw [v01_shape.1]
    simp only [toBytes, envTo, e0, e1, e2, e3, layoutTx]
    simp
  · subst hv
    have e0 := hdr1_enc 1 1 tn (valsTx 1 tn fn pwr bits) rfl (by omega) h1 (by simp [valsTx, Vals.get])
    rw [v01_shape.2.1]
    simp only [toBytes, envTo, e0, e1, e2, e3, layoutTx]
    simp

/-- Rx PDU version 0 (with the optional legacy padding) -/
theorem layout_rx_v0 (tn fn : Nat) (rssi toa256 : Int) (bits pad : List Nat) (h1 : tn < 8) (h2 : fn < 4294967296)
    (h3 : -255 ≤ rssi ∧ rssi ≤ 0) (h4 : -32768 ≤ toa256 ∧ toa256 ≤ 32767) :
    toBytes pduV0Rx (valsRxV0 tn fn rssi toa256 bits pad) = .ok (layoutRxV0 tn fn rssi toa256 bits pad) := by
  have e0 := hdr1_enc 0 0 tn (valsRxV0 tn fn rssi toa256 bits pad) rfl (by omega) h1 (by simp [valsRxV0, Vals.get])
  have e1 := u32_enc "fn" (valsRxV0 tn fn rssi toa256 bits pad) fn (by simp [valsRxV0, Vals.get]) h2
  have e2 := neg_u8_enc "rssi" (valsRxV0 tn fn rssi toa256 bits pad) rssi (by simp [valsRxV0, Vals.get]) h3.1 h3.2
  have e3 := i16_enc "toa256" (valsRxV0 tn fn rssi toa256 bits pad) toa256 (by simp [valsRxV0, Vals.get]) h4.1 h4.2
  have e4 := fieldTo_buf_eval "soft-bits" (.thresh 150 444 148) (valsRxV0 tn fn rssi toa256 bits pad) bits
    (by simp [valsRxV0, Vals.get]) rfl .always rfl
  have e5 := fieldTo_buf_eval "pad" .rest (valsRxV0 tn fn rssi toa256 bits pad) pad
    (by simp [valsRxV0, Vals.get]) rfl .always rfl
  rw [v01_shape.2.2.1]
  simp only [toBytes, envTo, e0, e1, e2, e3, e4, e5, layoutRxV0]
  simp

/-- Rx PDU version 1, given what the burst field encodes to -/
theorem layout_rx_v1_gen (tn fn : Nat) (rssi toa256 : Int) (nope mod tsc : Nat) (ci : Int) (burst : Vals)
    (out : List Nat)
    (h1 : tn < 8) (h2 : fn < 4294967296) (h3 : -255 ≤ rssi ∧ rssi ≤ 0) (h4 : -32768 ≤ toa256 ∧ toa256 ≤ 32767)
    (h5 : mod < 16) (h6 : tsc < 8) (h7 : -32768 ≤ ci ∧ ci ≤ 32767) (hn : nope < 2)
    (e6 : fieldTo (.buf "soft-bits" (.flagFalse "nope") (.table "mod" burstTable))
      (valsRxV1 tn fn rssi toa256 nope mod tsc ci burst) = .ok out) :
    toBytes pduV1Rx (valsRxV1 tn fn rssi toa256 nope mod tsc ci burst)
      = .ok (layoutRxV1 tn fn rssi toa256 nope mod tsc ci out) := by
  generalize hv : valsRxV1 tn fn rssi toa256 nope mod tsc ci burst = v at e6
  have g : ∀ k x, Vals.get (valsRxV1 tn fn rssi toa256 nope mod tsc ci burst) k = x →
      Vals.get v k = x := by intro k x h; rw [← hv]; exact h
  have e0 := hdr1_enc 1 1 tn v rfl (by omega) h1 (g _ _ (by simp [valsRxV1, Vals.get]))
  have e1 := u32_enc "fn" v fn (g _ _ (by simp [valsRxV1, Vals.get])) h2
  have e2 := neg_u8_enc "rssi" v rssi (g _ _ (by simp [valsRxV1, Vals.get])) h3.1 h3.2
  have e3 := i16_enc "toa256" v toa256 (g _ _ (by simp [valsRxV1, Vals.get])) h4.1 h4.2
  have e4 := mts_enc nope mod tsc v hn h5 h6 (g _ _ (by simp [valsRxV1, Vals.get]))
    (g _ _ (by simp [valsRxV1, Vals.get])) (g _ _ (by simp [valsRxV1, Vals.get]))
  have e5 := i16_enc "cir" v ci (g _ _ (by simp [valsRxV1, Vals.get])) h7.1 h7.2
  rw [v01_shape.2.2.2]
  simp only [toBytes, envTo, e0, e1, e2, e3, e4, e5, e6, layoutRxV1]
  simp

/-- Rx PDU version 1; a NOPE indication (`nope = 1`) carries no burst whatever the dict holds -/
theorem layout_rx_v1 (tn fn : Nat) (rssi toa256 : Int) (nope mod tsc : Nat) (ci : Int) (bits : List Nat)
    (h1 : tn < 8) (h2 : fn < 4294967296) (h3 : -255 ≤ rssi ∧ rssi ≤ 0) (h4 : -32768 ≤ toa256 ∧ toa256 ≤ 32767)
    (h5 : mod < 16) (h6 : tsc < 8) (h7 : -32768 ≤ ci ∧ ci ≤ 32767) (hn : nope < 2) :
    toBytes pduV1Rx (valsRxV1 tn fn rssi toa256 nope mod tsc ci [("soft-bits", .bytes bits)])
      = .ok (layoutRxV1 tn fn rssi toa256 nope mod tsc ci (if nope = 0 then bits else [])) := by
  apply layout_rx_v1_gen _ _ _ _ _ _ _ _ _ _ h1 h2 h3 h4 h5 h6 h7 hn
  have gn : Vals.get (valsRxV1 tn fn rssi toa256 nope mod tsc ci [("soft-bits", .bytes bits)]) "nope"
      = .ok (.int nope) := by simp [valsRxV1, Vals.get]
  by_cases h0 : nope = 0
  · subst h0
    rw [if_pos rfl]
    exact fieldTo_buf_eval "soft-bits" _ _ bits (by simp [valsRxV1, Vals.get]) rfl _
      (by simp [getPres, gn, Val.truthy])
  · rw [if_neg h0]
    exact fieldTo_absent_eval _ _ (by simp [FDef.pres, getPres, gn, Val.truthy, h0]) (by intros; simp)

/-- … and the NOPE indication proper (no burst entry in the dict) -/
theorem layout_rx_v1_nope (tn fn : Nat) (rssi toa256 : Int) (mod tsc : Nat) (ci : Int)
    (h1 : tn < 8) (h2 : fn < 4294967296) (h3 : -255 ≤ rssi ∧ rssi ≤ 0) (h4 : -32768 ≤ toa256 ∧ toa256 ≤ 32767)
    (h5 : mod < 16) (h6 : tsc < 8) (h7 : -32768 ≤ ci ∧ ci ≤ 32767) :
    toBytes pduV1Rx (valsRxV1 tn fn rssi toa256 1 mod tsc ci [])
      = .ok (layoutRxV1 tn fn rssi toa256 1 mod tsc ci []) := by
  apply layout_rx_v1_gen _ _ _ _ _ _ _ _ _ _ h1 h2 h3 h4 h5 h6 h7 (by omega)
  have gn : Vals.get (valsRxV1 tn fn rssi toa256 1 mod tsc ci []) "nope" = .ok (.int (1 : Nat)) := by
    simp [valsRxV1, Vals.get]
  exact fieldTo_absent_eval _ _ (by simp [FDef.pres, getPres, gn, Val.truthy]) (by intros; simp)

/-- reserved bits are sent as zero: bit 3 of the header octet and nothing above the 8 bits of the MTS octet -/
theorem reserved_sent_zero (ver tn nope mod tsc : Nat) (h0 : ver < 16) (h1 : tn < 8) (h2 : nope < 2) (h3 : mod < 16)
    (h4 : tsc < 8) : hdrOctet ver tn / 8 % 2 = 0 ∧ hdrOctet ver tn < 256 ∧ mtsOctet nope mod tsc < 256 := by
  simp only [hdrOctet, mtsOctet]; omega

/-! ## every v0/v1 datagram of the message codec is accepted with identical field values -/

set_option maxRecDepth 8000 in
theorem inrange_tx (ver tn fn pwr : Nat) (bits : List Nat) (h1 : tn < 8) (h2 : fn < 4294967296) (h3 : pwr < 256)
    (hb : isBytes bits = true) :
    (ver = 0 → declLen pduV0Tx (valsTx ver tn fn pwr bits) 0 = some (6 + bits.length))
    ∧ (ver = 1 → declLen pduV1Tx (valsTx ver tn fn pwr bits) 0 = some (6 + bits.length)) := by
  have c1 : (tn : Int) < 8 := by omega
  have c2 : (fn : Int) < 4294967296 := by omega
  have c3 : (pwr : Int) < 256 := by omega
  refine ⟨fun hv => ?_, fun hv => ?_⟩ <;> subst hv
  · rw [v01_shape.1]
    simp [declLen, valsTx, inRangeFields, inRangeField, getPres, FDef.pres, FDef.nStored, FDef.storedNames, hdr1,
      bitsDerive, bitsOrdered, bitsLen, bitsOffsets, inRangeBits, Vals.keys, lenOK, getLen, fitsInt, hb, c1, c2, c3,
      fdiv_one]
    omega
  · rw [v01_shape.2.1]
    simp [declLen, valsTx, inRangeFields, inRangeField, getPres, FDef.pres, FDef.nStored, FDef.storedNames, hdr1,
      bitsDerive, bitsOrdered, bitsLen, bitsOffsets, inRangeBits, Vals.keys, lenOK, getLen, fitsInt, hb, c1, c2, c3,
      fdiv_one]
    omega

set_option maxRecDepth 8000 in
theorem inrange_rx_v0 (tn fn : Nat) (rssi toa256 : Int) (bits pad : List Nat) (h1 : tn < 8) (h2 : fn < 4294967296)
    (h3 : -255 ≤ rssi ∧ rssi ≤ 0) (h4 : -32768 ≤ toa256 ∧ toa256 ≤ 32767)
    (hb : isBytes bits = true) (hpb : isBytes pad = true)
    (hl : (bits.length = 148 ∧ pad.length ≤ 2) ∨ bits.length = 444) :
    declLen pduV0Rx (valsRxV0 tn fn rssi toa256 bits pad) 0 = some (8 + bits.length + pad.length) := by
  have c1 : (tn : Int) < 8 := by omega
  have c2 : (fn : Int) < 4294967296 := by omega
  have k4 : -65536 ≤ 2 * toa256 ∧ 2 * toa256 < 65536 := by omega
  have k3 : rssi ≤ 0 ∧ -rssi < 256 := by omega
  have hth : (if bits.length + pad.length > 150 then 444 else 148) = bits.length := by
    rcases hl with ⟨h, hp⟩ | h
    · rw [if_neg (by omega), h]
    · rw [if_pos (by omega), h]
  rw [v01_shape.2.2.1]
  simp [declLen, valsRxV0, inRangeFields, inRangeField, getPres, FDef.pres, FDef.nStored, FDef.storedNames, hdr1,
    bitsDerive, bitsOrdered, bitsLen, bitsOffsets, inRangeBits, Vals.keys, lenOK, getLen, fitsInt, hb, hpb, c1, c2, k3, k4,
    fdiv_neg_one, hth]
  omega

set_option maxRecDepth 8000 in
theorem inrange_rx_v1 (tn fn : Nat) (rssi toa256 : Int) (mod tsc : Nat) (ci : Int) (bits : List Nat)
    (h1 : tn < 8) (h2 : fn < 4294967296) (h3 : -255 ≤ rssi ∧ rssi ≤ 0) (h4 : -32768 ≤ toa256 ∧ toa256 ≤ 32767)
    (h5 : mod < 16) (h6 : tsc < 8) (h7 : -32768 ≤ ci ∧ ci ≤ 32767) (hb : isBytes bits = true)
    (hl : burstLen mod = some bits.length) :
    declLen pduV1Rx (valsRxV1 tn fn rssi toa256 0 mod tsc ci [("soft-bits", .bytes bits)]) 0
      = some (11 + bits.length) := by
  have t := tableGet_of_spec mod bits.length h5 hl
  have c1 : (tn : Int) < 8 := by omega
  have c2 : (fn : Int) < 4294967296 := by omega
  have c5 : (mod : Int) < 16 := by omega
  have c6 : (tsc : Int) < 8 := by omega
  have k7 : -65536 ≤ 2 * ci ∧ 2 * ci < 65536 := by omega
  have k4 : -65536 ≤ 2 * toa256 ∧ 2 * toa256 < 65536 := by omega
  have k3 : rssi ≤ 0 ∧ -rssi < 256 := by omega
  rw [v01_shape.2.2.2]
  simp [declLen, valsRxV1, inRangeFields, inRangeField, getPres, FDef.pres, FDef.nStored, FDef.storedNames, hdr1, mtsSet,
    bitsDerive, bitsOrdered, bitsLen, bitsOffsets, inRangeBits, Vals.keys, lenOK, getLen, fitsInt, hb, Vals.get,
    Val.truthy, t, fdiv_neg_one, c1, c2, c5, c6, k7, k4, k3]
  omega

set_option maxRecDepth 8000 in
theorem inrange_rx_v1_nope (tn fn : Nat) (rssi toa256 : Int) (mod tsc : Nat) (ci : Int)
    (h1 : tn < 8) (h2 : fn < 4294967296) (h3 : -255 ≤ rssi ∧ rssi ≤ 0) (h4 : -32768 ≤ toa256 ∧ toa256 ≤ 32767)
    (h5 : mod < 16) (h6 : tsc < 8) (h7 : -32768 ≤ ci ∧ ci ≤ 32767) :
    declLen pduV1Rx (valsRxV1 tn fn rssi toa256 1 mod tsc ci []) 0 = some 11 := by
  have c1 : (tn : Int) < 8 := by omega
  have c2 : (fn : Int) < 4294967296 := by omega
  have c5 : (mod : Int) < 16 := by omega
  have c6 : (tsc : Int) < 8 := by omega
  have k7 : -65536 ≤ 2 * ci ∧ 2 * ci < 65536 := by omega
  have k4 : -65536 ≤ 2 * toa256 ∧ 2 * toa256 < 65536 := by omega
  have k3 : rssi ≤ 0 ∧ -rssi < 256 := by omega
  rw [v01_shape.2.2.2]
  simp [declLen, valsRxV1, inRangeFields, inRangeField, getPres, FDef.pres, FDef.nStored, FDef.storedNames, hdr1, mtsSet,
    bitsDerive, bitsOrdered, bitsLen, bitsOffsets, inRangeBits, Vals.keys, lenOK, getLen, fitsInt, Vals.get,
    Val.truthy, fdiv_neg_one, c1, c2, c5, c6, k7, k4, k3]

/-- helper: an in-range value whose encoding is known decodes from that encoding -/
theorem accepted_of (d : EnvDef) (v : Vals) (b : List Nat) (L : Nat) (hw : WF d) (hr : declLen d v 0 = some L)
    (he : toBytes d v = .ok b) : fromBytes d b = .ok (v, b.length) := by
  obtain ⟨b', h1, _, h3⟩ := C16.dec_enc d v hw (by unfold InRange; rw [hr]; rfl)
  rw [he] at h1; cases h1; exact h3

/-- Tx datagrams (`TxMsg.gen_msg()`, versions 0 and 1, any burst) are accepted with identical field values. -/
theorem msgcodec_accepted_tx (ver tn fn pwr : Nat) (bits : List Nat) (h1 : tn < 8) (h2 : fn < 4294967296)
    (h3 : pwr < 256) (hb : isBytes bits = true) :
    (ver = 0 → fromBytes pduV0Tx (layoutTx ver tn fn pwr bits) = .ok (valsTx ver tn fn pwr bits, 6 + bits.length))
    ∧ (ver = 1 → fromBytes pduV1Tx (layoutTx ver tn fn pwr bits) = .ok (valsTx ver tn fn pwr bits, 6 + bits.length)) := by
  have hlen : (layoutTx ver tn fn pwr bits).length = 6 + bits.length := by simp [layoutTx, be32]; omega
  refine ⟨fun hv => ?_, fun hv => ?_⟩
  · have := accepted_of pduV0Tx _ _ _ pdu_wf.2.1 ((inrange_tx ver tn fn pwr bits h1 h2 h3 hb).1 hv)
      ((layout_tx ver tn fn pwr bits h1 h2 h3).1 hv)
    rwa [hlen] at this
  · have := accepted_of pduV1Tx _ _ _ pdu_wf.2.2.2.1 ((inrange_tx ver tn fn pwr bits h1 h2 h3 hb).2 hv)
      ((layout_tx ver tn fn pwr bits h1 h2 h3).2 hv)
    rwa [hlen] at this

/-- Rx v0 datagrams (`RxMsg.gen_msg(legacy)`): GMSK (148) and EDGE (444) bursts, with or without the two
legacy padding octets, are accepted with identical field values (needs the F3 fix). -/
theorem msgcodec_accepted_rx_v0 (tn fn : Nat) (rssi toa256 : Int) (bits pad : List Nat) (h1 : tn < 8)
    (h2 : fn < 4294967296) (h3 : -255 ≤ rssi ∧ rssi ≤ 0) (h4 : -32768 ≤ toa256 ∧ toa256 ≤ 32767)
    (hb : isBytes bits = true) (hl : bits.length = 148 ∨ bits.length = 444) (hp : pad = [] ∨ pad = [0, 0]) :
    fromBytes pduV0Rx (layoutRxV0 tn fn rssi toa256 bits pad)
      = .ok (valsRxV0 tn fn rssi toa256 bits pad, 8 + bits.length + pad.length) := by
  have hpb : isBytes pad = true ∧ pad.length ≤ 2 := by rcases hp with rfl | rfl <;> exact ⟨by decide, by decide⟩
  have hlen : (layoutRxV0 tn fn rssi toa256 bits pad).length = 8 + bits.length + pad.length := by
    simp [layoutRxV0, be32, be16s]; omega
  have := accepted_of pduV0Rx _ _ _ pdu_wf.1
    (inrange_rx_v0 tn fn rssi toa256 bits pad h1 h2 h3 h4 hb hpb.1 (by rcases hl with h | h; exact .inl ⟨h, hpb.2⟩; exact .inr h))
    (layout_rx_v0 tn fn rssi toa256 bits pad h1 h2 h3 h4)
  rwa [hlen] at this

/-- Rx v1 datagrams whose modulation nibble is a documented code, and NOPE indications, are accepted with
identical field values. -/
theorem msgcodec_accepted_rx_v1 (tn fn : Nat) (rssi toa256 : Int) (mod tsc : Nat) (ci : Int) (bits : List Nat)
    (h1 : tn < 8) (h2 : fn < 4294967296) (h3 : -255 ≤ rssi ∧ rssi ≤ 0) (h4 : -32768 ≤ toa256 ∧ toa256 ≤ 32767)
    (h5 : mod < 16) (h6 : tsc < 8) (h7 : -32768 ≤ ci ∧ ci ≤ 32767) (hb : isBytes bits = true) :
    (burstLen mod = some bits.length →
      fromBytes pduV1Rx (layoutRxV1 tn fn rssi toa256 0 mod tsc ci bits)
        = .ok (valsRxV1 tn fn rssi toa256 0 mod tsc ci [("soft-bits", .bytes bits)], 11 + bits.length))
    ∧ fromBytes pduV1Rx (layoutRxV1 tn fn rssi toa256 1 mod tsc ci [])
        = .ok (valsRxV1 tn fn rssi toa256 1 mod tsc ci [], 11) := by
  refine ⟨fun hl => ?_, ?_⟩
  · have hlen : (layoutRxV1 tn fn rssi toa256 0 mod tsc ci bits).length = 11 + bits.length := by
      simp [layoutRxV1, be32, be16s]; omega
    have hlay := layout_rx_v1 tn fn rssi toa256 0 mod tsc ci bits h1 h2 h3 h4 h5 h6 h7 (by omega)
    rw [if_pos rfl] at hlay
    have := accepted_of pduV1Rx _ _ _ pdu_wf.2.2.1
      (inrange_rx_v1 tn fn rssi toa256 mod tsc ci bits h1 h2 h3 h4 h5 h6 h7 hb hl) hlay
    rwa [hlen] at this
  · have hlen : (layoutRxV1 tn fn rssi toa256 1 mod tsc ci []).length = 11 := by
      simp [layoutRxV1, be32, be16s]
    have hlay := layout_rx_v1_nope tn fn rssi toa256 mod tsc ci h1 h2 h3 h4 h5 h6 h7
    have := accepted_of pduV1Rx _ _ _ pdu_wf.2.2.1
      (inrange_rx_v1_nope tn fn rssi toa256 mod tsc ci h1 h2 h3 h4 h5 h6 h7) hlay
    rwa [hlen] at this

/-- the `Modulation` enum of the live message codec is the one the Spec speaks about -/
theorem msg_modulations_live : liveMsgModulations = msgModulations := by
  decide

/-- every (coding, TSC set) the message codec accepts — except GMSK_AB with TSC set 1 — gives a documented
modulation nibble with the message codec's own burst length -/
theorem msgcodec_mod_codes : ∀ coding ∈ List.range 16, ∀ set ∈ List.range 4,
    msgModValid coding set = true → ¬ (coding = 6 ∧ set = 1) →
    msgModCode coding set < 16 ∧ burstLen (msgModCode coding set) = msgBurstLen coding := by
  decide

/-- FULL statement of "every v1 Rx datagram of the message codec is accepted" (kept visible). -/
def msgcodec_accepted_rx_v1_full : Prop :=
  ∀ (tn fn : Nat) (rssi toa256 : Int) (coding set tsc : Nat) (ci : Int) (bits : List Nat),
    tn < 8 → fn < 4294967296 → (-255 ≤ rssi ∧ rssi ≤ 0) → (-32768 ≤ toa256 ∧ toa256 ≤ 32767) →
    msgModValid coding set = true → tsc < 8 → (-32768 ≤ ci ∧ ci ≤ 32767) → isBytes bits = true →
    msgBurstLen coding = some bits.length →
    fromBytes pduV1Rx (layoutRxV1 tn fn rssi toa256 0 (msgModCode coding set) tsc ci bits)
      = .ok (valsRxV1 tn fn rssi toa256 0 (msgModCode coding set) tsc ci [("soft-bits", .bytes bits)], 11 + bits.length)

/-- proved part: everything but GMSK_AB with TSC set 1 (known finding F11a) -/
theorem msgcodec_accepted_rx_v1_partial (tn fn : Nat) (rssi toa256 : Int) (coding set tsc : Nat) (ci : Int)
    (bits : List Nat) (h1 : tn < 8) (h2 : fn < 4294967296) (h3 : -255 ≤ rssi ∧ rssi ≤ 0)
    (h4 : -32768 ≤ toa256 ∧ toa256 ≤ 32767) (hm : msgModValid coding set = true) (h6 : tsc < 8)
    (h7 : -32768 ≤ ci ∧ ci ≤ 32767) (hb : isBytes bits = true) (hl : msgBurstLen coding = some bits.length)
    (hx : ¬ (coding = 6 ∧ set = 1)) :
    fromBytes pduV1Rx (layoutRxV1 tn fn rssi toa256 0 (msgModCode coding set) tsc ci bits)
      = .ok (valsRxV1 tn fn rssi toa256 0 (msgModCode coding set) tsc ci [("soft-bits", .bytes bits)], 11 + bits.length) := by
  have hc : coding < 16 ∧ set < 4 := by
    simp only [msgModValid, msgModulations, List.map_cons, List.map_nil, Bool.and_eq_true] at hm
    obtain ⟨hm1, hm2⟩ := hm
    have : coding = 0 ∨ coding = 4 ∨ coding = 6 ∨ coding = 8 ∨ coding = 10 ∨ coding = 12 := by
      simpa [List.contains_cons] using hm1
    refine ⟨by omega, ?_⟩
    split at hm2 <;> simp at hm2 <;> omega
  obtain ⟨k1, k2⟩ := msgcodec_mod_codes coding (List.mem_range.2 hc.1) set (List.mem_range.2 hc.2) hm hx
  exact (msgcodec_accepted_rx_v1 tn fn rssi toa256 _ tsc ci bits h1 h2 h3 h4 k1 h6 h7 hb).1 (by rw [k2, hl])

set_option maxRecDepth 100000 in
/-- F11a: a valid `RxMsg` v1 with ModGMSK_AB and TSC set 1 puts the RFU code `0111` on the wire, which
`PDUv1Rx` rejects — the full statement is false. -/
theorem msgcodec_accepted_rx_v1_full_fails : ¬ msgcodec_accepted_rx_v1_full := by
  intro h
  have := h 0 0 0 0 6 1 0 0 (List.replicate 148 0) (by decide) (by decide) (by decide) (by decide) (by decide)
    (by decide) (by decide) (by decide) (by decide)
  revert this
  decide +kernel

/-- F11b: `TxMsg.gen_msg(legacy=True)` appends two octets; `PDUv0Tx` has no `pad` field, so the datagram is
accepted but the two octets end up in `hard-bits` (150 octets): the field values are not identical. -/
theorem msgcodec_tx_legacy_not_identical (tn fn pwr : Nat) (bits : List Nat) (h1 : tn < 8) (h2 : fn < 4294967296)
    (h3 : pwr < 256) (hb : isBytes bits = true) :
    fromBytes pduV0Tx (layoutTx 0 tn fn pwr bits ++ [0, 0]) = .ok (valsTx 0 tn fn pwr (bits ++ [0, 0]), 6 + bits.length + 2)
    ∧ valsTx 0 tn fn pwr (bits ++ [0, 0]) ≠ valsTx 0 tn fn pwr bits := by
  have hb2 : isBytes (bits ++ [0, 0]) = true := by rw [isBytes_append, hb]; decide
  have := (msgcodec_accepted_tx 0 tn fn pwr (bits ++ [0, 0]) h1 h2 h3 hb2).1 rfl
  have e : layoutTx 0 tn fn pwr (bits ++ [0, 0]) = layoutTx 0 tn fn pwr bits ++ [0, 0] := by simp [layoutTx]
  rw [e] at this
  refine ⟨by simpa [Nat.add_assoc] using this, ?_⟩
  intro hc
  simp only [valsTx, List.cons.injEq, Prod.mk.injEq, Val.bytes.injEq, and_true, true_and] at hc
  have := congrArg List.length hc
  simp at this

/-! ## version 2 with any number of batched sub-PDUs -/

/-- a batched sub-PDU (NOPE indication, 8 octets) -/
def bpduItem : Vals := [("tn", .int 3), ("batch", .int 1), ("shadow", .int 0), ("trxn", .int 5), ("nope", .int 1),
  ("mod", .int 0), ("tsc", .int 0), ("rssi", .int (-70)), ("toa256", .int (-3)), ("cir", .int 100)]

/-- the primary part of a v2 Rx PDU (NOPE indication, 12 octets) -/
def v2Primary : Vals := [("ver", .int 2), ("tn", .int 1), ("batch", .int 1), ("trxn", .int 0), ("nope", .int 1),
  ("mod", .int 0), ("tsc", .int 0), ("rssi", .int (-60)), ("toa256", .int 0), ("cir", .int 0), ("fn", .int 42)]

theorem v2rx_shape : pduV2Rx = ⟨true, [hdr2, mtsSet, .int "rssi" .always 1 .big false 0 (-1),
    .int "toa256" .always 2 .big true 0 1, .int "cir" .always 2 .big true 0 1, .int "fn" .always 4 .big false 0 1,
    .buf "soft-bits" (.flagFalse "nope") (.table "mod" burstTable),
    .seq "bpdu" .always .rest bpduV2Rx]⟩ := rfl

set_option maxRecDepth 8000 in
theorem bpduItem_inrange (r : Nat) : inRangeFields bpduV2Rx [] bpduItem r = some 8 := by
  simp [bpduV2Rx, bpduItem, inRangeFields, inRangeField, getPres, FDef.pres, FDef.nStored, FDef.storedNames,
    bitsDerive, bitsOrdered, bitsLen, bitsOffsets, inRangeBits, Vals.keys, fitsInt, Vals.get,
    Val.truthy, fdiv_neg_one]

theorem bpduItems_inrange : ∀ k : Nat,
    inRangeItems (fun iv r => inRangeFields bpduV2Rx [] iv r) (List.replicate k (.dict bpduItem)) = some (8 * k)
  | 0 => rfl
  | k + 1 => by
    simp only [List.replicate_succ, inRangeItems, bpduItems_inrange k, bpduItem_inrange]
    simp; omega

set_option maxRecDepth 8000 in
/-- for EVERY k there is an in-range v2 PDU with exactly k batched sub-PDUs (12 + 8k octets) -/
theorem v2_batched_inrange (k : Nat) :
    declLen pduV2Rx (v2Primary ++ [("bpdu", .list (List.replicate k (.dict bpduItem)))]) 0 = some (12 + 8 * k) := by
  rw [v2rx_shape]
  simp [declLen, v2Primary, hdr2, mtsSet, inRangeFields, inRangeField, getPres, FDef.pres, FDef.nStored,
    FDef.storedNames, bitsDerive, bitsOrdered, bitsLen, bitsOffsets, inRangeBits, Vals.keys, lenOK, getLen, fitsInt,
    Vals.get, Val.truthy, fdiv_neg_one, fdiv_one, bpduItems_inrange]
  omega

/-- A version-2 PDU with ANY number of batched sub-PDUs round-trips with every sub-PDU intact:
for every in-range value (no bound on the length of `bpdu`) decoding the encoding returns the value — the
whole list of sub-PDUs included — and such values exist for every k. -/
theorem v2_batched :
    (∀ (d : EnvDef), d = pduV2Rx ∨ d = pduV2Tx → ∀ (v : Vals) (items : List Val),
      v.get "bpdu" = .ok (.list items) → InRange d v 0 →
      ∃ b, toBytes d v = .ok b ∧ ∃ v', fromBytes d b = .ok (v', b.length) ∧ v' = v
        ∧ v'.get "bpdu" = .ok (.list items))
    ∧ (∀ k : Nat, ∃ v b, v.get "bpdu" = .ok (.list (List.replicate k (.dict bpduItem))) ∧ InRange pduV2Rx v 0
        ∧ toBytes pduV2Rx v = .ok b ∧ b.length = 12 + 8 * k ∧ fromBytes pduV2Rx b = .ok (v, b.length)) := by
  refine ⟨?_, ?_⟩
  · intro d hd v items hv hr
    have hw : WF d := by rcases hd with rfl | rfl; exact pdu_wf.2.2.2.2.1; exact pdu_wf.2.2.2.2.2
    obtain ⟨b, h1, _, h3⟩ := C16.dec_enc d v hw hr
    exact ⟨b, h1, v, h3, rfl, hv⟩
  · intro k
    have hr := v2_batched_inrange k
    obtain ⟨b, h1, h2, h3⟩ := C16.dec_enc pduV2Rx _ pdu_wf.2.2.2.2.1 (by unfold InRange; rw [hr]; rfl)
    refine ⟨_, b, by simp [v2Primary, Vals.get], by unfold InRange; rw [hr]; rfl, h1, ?_, h3⟩
    rw [hr] at h2; simpa using h2.symm

/-! ## the documented octet layout, version 2 -/

/-- the burst field of the v1/v2 definitions: sent iff `nope = 0` -/
theorem burst_enc (name : String) (tbl : List (Int × Nat)) (v : Vals) (nope : Nat) (bits : List Nat)
    (gn : v.get "nope" = .ok (.int nope)) (gb : v.get name = .ok (.bytes bits)) :
    fieldTo (.buf name (.flagFalse "nope") (.table "mod" tbl)) v = .ok (if nope = 0 then bits else []) := by
  by_cases h0 : nope = 0
  · subst h0
    rw [if_pos rfl]
    exact fieldTo_buf_eval name _ v bits gb rfl _ (by simp [getPres, gn, Val.truthy])
  · rw [if_neg h0]
    exact fieldTo_absent_eval _ v (by simp [FDef.pres, getPres, gn, Val.truthy, h0]) (by intros; simp)

def valsRxBatched (p : RxPart) : Vals :=
  [("tn", .int p.tn), ("batch", .int p.batch), ("shadow", .int p.shadow), ("trxn", .int p.trxn), ("nope", .int p.nope),
   ("mod", .int p.mod), ("tsc", .int p.tsc), ("rssi", .int p.rssi), ("toa256", .int p.toa256), ("cir", .int p.cir),
   ("soft-bits", .bytes p.bits)]

def valsV2Rx (fn : Nat) (p : RxPart) (subs : List RxPart) : Vals :=
  [("ver", .int 2), ("tn", .int p.tn), ("batch", .int p.batch), ("trxn", .int p.trxn), ("nope", .int p.nope),
   ("mod", .int p.mod), ("tsc", .int p.tsc), ("rssi", .int p.rssi), ("toa256", .int p.toa256), ("cir", .int p.cir),
   ("fn", .int fn), ("soft-bits", .bytes p.bits), ("bpdu", .list (subs.map (fun q => Val.dict (valsRxBatched q))))]

def valsTxBatched (p : TxPart) : Vals :=
  [("tn", .int p.tn), ("batch", .int p.batch), ("shadow", .int p.shadow), ("trxn", .int p.trxn), ("nope", .int p.nope),
   ("mod", .int p.mod), ("tsc", .int p.tsc), ("pwr", .int p.pwr), ("scpir", .int p.scpir), ("hard-bits", .bytes p.bits)]

def valsV2Tx (fn : Nat) (p : TxPart) (subs : List TxPart) : Vals :=
  [("ver", .int 2), ("tn", .int p.tn), ("batch", .int p.batch), ("trxn", .int p.trxn), ("nope", .int p.nope),
   ("mod", .int p.mod), ("tsc", .int p.tsc), ("pwr", .int p.pwr), ("scpir", .int p.scpir),
   ("fn", .int fn), ("hard-bits", .bytes p.bits), ("bpdu", .list (subs.map (fun q => Val.dict (valsTxBatched q))))]

/-- the field structure of the v2 classes and their sub-PDUs, as regenerated from the live module -/
theorem v2_shape :
    bpduV2Rx = [hdr2b, mtsSet, .int "rssi" .always 1 .big false 0 (-1), .int "toa256" .always 2 .big true 0 1,
      .int "cir" .always 2 .big true 0 1, .buf "soft-bits" (.flagFalse "nope") (.table "mod" burstTable)]
    ∧ bpduV2Tx = [hdr2b, mtsSet, .int "pwr" .always 1 .big false 0 1, .int "scpir" .always 1 .big true 0 1,
      .spare "spare" .always (.fixed 3) [0], .buf "hard-bits" (.flagFalse "nope") (.table "mod" burstTable)]
    ∧ pduV2Tx = ⟨true, [hdr2, mtsSet, .int "pwr" .always 1 .big false 0 1, .int "scpir" .always 1 .big true 0 1,
      .spare "spare" .always (.fixed 3) [0], .int "fn" .always 4 .big false 0 1,
      .buf "hard-bits" (.flagFalse "nope") (.table "mod" burstTable), .seq "bpdu" .always .rest bpduV2Tx]⟩ :=
  ⟨rfl, rfl, rfl⟩

set_option maxRecDepth 100000 in
theorem layout_v2_rx_batched (p : RxPart) (hp : p.valid) :
    envTo bpduV2Rx (valsRxBatched p) = .ok (layoutV2RxBatched p) := by
  obtain ⟨h1, h2, h3, h4, h5, h6, h7, h8, h9, h10⟩ := hp
  have e0 := hdr2b_enc p.tn p.batch p.shadow p.trxn (valsRxBatched p) h1 h2 h3 h4 (by simp [valsRxBatched, Vals.get])
    (by simp [valsRxBatched, Vals.get]) (by simp [valsRxBatched, Vals.get]) (by simp [valsRxBatched, Vals.get])
  have e1 := mts_enc p.nope p.mod p.tsc (valsRxBatched p) h5 h6 h7 (by simp [valsRxBatched, Vals.get])
    (by simp [valsRxBatched, Vals.get]) (by simp [valsRxBatched, Vals.get])
  have e2 := neg_u8_enc "rssi" (valsRxBatched p) p.rssi (by simp [valsRxBatched, Vals.get]) h8.1 h8.2
  have e3 := i16_enc "toa256" (valsRxBatched p) p.toa256 (by simp [valsRxBatched, Vals.get]) h9.1 h9.2
  have e4 := i16_enc "cir" (valsRxBatched p) p.cir (by simp [valsRxBatched, Vals.get]) h10.1 h10.2
  have e5 := burst_enc "soft-bits" burstTable (valsRxBatched p) p.nope p.bits (by simp [valsRxBatched, Vals.get])
    (by simp [valsRxBatched, Vals.get])
  rw [v2_shape.1]
  simp only [envTo, e0, e1, e2, e3, e4, e5, layoutV2RxBatched]
  simp

set_option maxRecDepth 100000 in
theorem layout_v2_tx_batched (p : TxPart) (hp : p.valid) :
    envTo bpduV2Tx (valsTxBatched p) = .ok (layoutV2TxBatched p) := by
  obtain ⟨h1, h2, h3, h4, h5, h6, h7, h8, h9⟩ := hp
  have e0 := hdr2b_enc p.tn p.batch p.shadow p.trxn (valsTxBatched p) h1 h2 h3 h4 (by simp [valsTxBatched, Vals.get])
    (by simp [valsTxBatched, Vals.get]) (by simp [valsTxBatched, Vals.get]) (by simp [valsTxBatched, Vals.get])
  have e1 := mts_enc p.nope p.mod p.tsc (valsTxBatched p) h5 h6 h7 (by simp [valsTxBatched, Vals.get])
    (by simp [valsTxBatched, Vals.get]) (by simp [valsTxBatched, Vals.get])
  have e2 := u8_enc "pwr" (valsTxBatched p) p.pwr (by simp [valsTxBatched, Vals.get]) h8
  have e3 := i8_enc "scpir" (valsTxBatched p) p.scpir (by simp [valsTxBatched, Vals.get]) h9.1 h9.2
  have e4 := spare3_enc (valsTxBatched p)
  have e5 := burst_enc "hard-bits" burstTable (valsTxBatched p) p.nope p.bits (by simp [valsTxBatched, Vals.get])
    (by simp [valsTxBatched, Vals.get])
  rw [v2_shape.2.1]
  simp only [envTo, e0, e1, e2, e3, e4, e5, layoutV2TxBatched]
  simp

set_option maxRecDepth 100000 in
/-- version 2, Rx: the primary part followed by ANY number of batched sub-PDUs encodes to the documented layout -/
theorem layout_v2_rx (fn : Nat) (p : RxPart) (subs : List RxPart) (hfn : fn < 4294967296) (hp : p.valid)
    (hs : ∀ q ∈ subs, q.valid) :
    toBytes pduV2Rx (valsV2Rx fn p subs) = .ok (layoutV2Rx fn p subs) := by
  obtain ⟨h1, h2, _, h4, h5, h6, h7, h8, h9, h10⟩ := hp
  generalize hv : valsV2Rx fn p subs = v
  have g : ∀ k x, Vals.get (valsV2Rx fn p subs) k = x → Vals.get v k = x := by intro k x h; rw [← hv]; exact h
  have e0 := hdr2_enc p.tn p.batch p.trxn v h1 h2 h4 (g _ _ (by simp [valsV2Rx, Vals.get]))
    (g _ _ (by simp [valsV2Rx, Vals.get])) (g _ _ (by simp [valsV2Rx, Vals.get]))
  have e1 := mts_enc p.nope p.mod p.tsc v h5 h6 h7 (g _ _ (by simp [valsV2Rx, Vals.get]))
    (g _ _ (by simp [valsV2Rx, Vals.get])) (g _ _ (by simp [valsV2Rx, Vals.get]))
  have e2 := neg_u8_enc "rssi" v p.rssi (g _ _ (by simp [valsV2Rx, Vals.get])) h8.1 h8.2
  have e3 := i16_enc "toa256" v p.toa256 (g _ _ (by simp [valsV2Rx, Vals.get])) h9.1 h9.2
  have e4 := i16_enc "cir" v p.cir (g _ _ (by simp [valsV2Rx, Vals.get])) h10.1 h10.2
  have e5 := u32_enc "fn" v fn (g _ _ (by simp [valsV2Rx, Vals.get])) hfn
  have e6 := burst_enc "soft-bits" burstTable v p.nope p.bits (g _ _ (by simp [valsV2Rx, Vals.get]))
    (g _ _ (by simp [valsV2Rx, Vals.get]))
  have e7 := fieldTo_seq_eval "bpdu" bpduV2Rx v _ _ (g _ _ (by simp [valsV2Rx, Vals.get]))
    (seqEnc_flat (fun x => envTo bpduV2Rx x) valsRxBatched layoutV2RxBatched subs
      (fun q hq => layout_v2_rx_batched q (hs q hq)))
  rw [v2rx_shape]
  simp only [toBytes, envTo, e0, e1, e2, e3, e4, e5, e6, e7, layoutV2Rx, layoutV2RxPrimary]
  simp

set_option maxRecDepth 100000 in
/-- version 2, Tx -/
theorem layout_v2_tx (fn : Nat) (p : TxPart) (subs : List TxPart) (hfn : fn < 4294967296) (hp : p.valid)
    (hs : ∀ q ∈ subs, q.valid) :
    toBytes pduV2Tx (valsV2Tx fn p subs) = .ok (layoutV2Tx fn p subs) := by
  obtain ⟨h1, h2, _, h4, h5, h6, h7, h8, h9⟩ := hp
  generalize hv : valsV2Tx fn p subs = v
  have g : ∀ k x, Vals.get (valsV2Tx fn p subs) k = x → Vals.get v k = x := by intro k x h; rw [← hv]; exact h
  have e0 := hdr2_enc p.tn p.batch p.trxn v h1 h2 h4 (g _ _ (by simp [valsV2Tx, Vals.get]))
    (g _ _ (by simp [valsV2Tx, Vals.get])) (g _ _ (by simp [valsV2Tx, Vals.get]))
  have e1 := mts_enc p.nope p.mod p.tsc v h5 h6 h7 (g _ _ (by simp [valsV2Tx, Vals.get]))
    (g _ _ (by simp [valsV2Tx, Vals.get])) (g _ _ (by simp [valsV2Tx, Vals.get]))
  have e2 := u8_enc "pwr" v p.pwr (g _ _ (by simp [valsV2Tx, Vals.get])) h8
  have e3 := i8_enc "scpir" v p.scpir (g _ _ (by simp [valsV2Tx, Vals.get])) h9.1 h9.2
  have e4 := spare3_enc v
  have e5 := u32_enc "fn" v fn (g _ _ (by simp [valsV2Tx, Vals.get])) hfn
  have e6 := burst_enc "hard-bits" burstTable v p.nope p.bits (g _ _ (by simp [valsV2Tx, Vals.get]))
    (g _ _ (by simp [valsV2Tx, Vals.get]))
  have e7 := fieldTo_seq_eval "bpdu" bpduV2Tx v _ _ (g _ _ (by simp [valsV2Tx, Vals.get]))
    (seqEnc_flat (fun x => envTo bpduV2Tx x) valsTxBatched layoutV2TxBatched subs
      (fun q hq => layout_v2_tx_batched q (hs q hq)))
  rw [v2_shape.2.2]
  simp only [toBytes, envTo, e0, e1, e2, e3, e4, e5, e6, e7, layoutV2Tx, layoutV2TxPrimary]
  simp

/-! ## non-vacuity -/

example : InRange pduV0Tx (valsTx 0 7 2715647 255 (List.replicate 148 1)) 0 := by
  unfold InRange
  rw [(inrange_tx 0 7 2715647 255 _ (by decide) (by decide) (by decide) (by decide)).1 rfl]; rfl

example : fromBytes pduV0Tx [0x07, 0, 0, 0, 1, 10, 1, 0, 1] = .ok (valsTx 0 7 1 10 [1, 0, 1], 9) := by decide
example : fromBytes pduV1Tx [0x07, 0, 0, 0, 1, 10, 1, 0, 1] = .error .decode := by decide

end OsmoVerif.Props.C17
