import OsmoVerif.Lemmas.TrxdRand
namespace OsmoVerif.Props.C13Rand
end OsmoVerif.Props.C13Rand
