/-
C13 / C01, part "rand" — the message generators of data_msg.py (`rand_fn`, `rand_tn`, `rand_hdr`, `rand_pwr`,
`rand_rssi`, `rand_toa256`, `rand_burst`) produce only valid messages.  Property theorems only.
Model: `OsmoVerif.Model.TrxdRand` (generators as functions of the random source), lemmas: `OsmoVerif.Lemmas.TrxdRand`;
validity is `OsmoVerif.Model.Trxd`'s `validate`, characterised by `Props.C13.validate_*_iff` as the literal protocol
ranges of `Spec/TrxdRanges`; the round trip is `Props.C01.tx_roundtrip / rx_roundtrip`.

Quantifier: EVERY stream of answers of the random source (`_randbelow`) that respects the ranges the code asks for
(`Yields`: the run ends normally and every logged call (n, k) has k < n, i.e. randint(a, b) ∈ [a, b], choice index in
range).  The sizes `n` in the run equations are literals, so a changed bound in the tree breaks a proof.
-/
import OsmoVerif.Lemmas.TrxdRand
import OsmoVerif.Props.C13
import OsmoVerif.Props.C01

namespace OsmoVerif.Props.C13Rand
open OsmoVerif OsmoVerif.Trxd OsmoVerif.TrxdRand OsmoVerif.Spec.TrxdRanges

/-! ### what `rand_hdr` assigns, from which draw, and what it leaves -/

/-- `TxMsg.rand_hdr()` takes three answers: fn (of 2715648 values), tn (of 8), pwr (of 256); `ver` and `burst` stay. -/
theorem rand_hdr_sets_tx (m : TxMsg) (k1 k2 k3 : Nat) (rest : List Nat) :
    m.randHdr (Src.start (k1 :: k2 :: k3 :: rest))
      = (.ok { m with fn := some (k1 : Int), tn := some (k2 : Int), pwr := some (k3 : Int) },
         ⟨rest, [⟨2715648, k1⟩, ⟨8, k2⟩, ⟨256, k3⟩]⟩) :=
  TxMsg.randHdr_run m k1 k2 k3 rest []

/-- `RxMsg.rand_hdr()` below header version 1 takes four answers: fn, tn, rssi = -120 + k (of 74), toa256 = -32768 + k
(of 65536); `ver`, `mod_type`, `nope_ind`, `tsc_set`, `tsc`, `ci`, `burst` stay. -/
theorem rand_hdr_sets_rx_v0 (m : RxMsg) (hv : m.ver < 1) (k1 k2 k3 k4 : Nat) (rest : List Nat) :
    m.randHdr (Src.start (k1 :: k2 :: k3 :: k4 :: rest))
      = (.ok { m with fn := some (k1 : Int), tn := some (k2 : Int), rssi := some (-120 + (k3 : Int)),
                      toa256 := some (-32768 + (k4 : Int)) },
         ⟨rest, [⟨2715648, k1⟩, ⟨8, k2⟩, ⟨74, k3⟩, ⟨65536, k4⟩]⟩) :=
  RxMsg.randHdr_run_v0 m (by omega) k1 k2 k3 k4 rest []

/-- `RxMsg.rand_hdr()` from header version 1 on takes eight answers: fn, tn, rssi, toa256, the modulation (member
number k of the 6), the TSC set (of 4 for GMSK, of 2 otherwise), the TSC (of 8), ci = -1280 + k (of 2561); `ver`,
`nope_ind` and `burst` stay. -/
theorem rand_hdr_sets_rx_v1 (m : RxMsg) (hv : m.ver ≥ 1) (k1 k2 k3 k4 k5 k6 k7 k8 : Nat) (h5 : k5 < 6) (h7 : k7 < 8)
    (rest : List Nat) :
    m.randHdr (Src.start (k1 :: k2 :: k3 :: k4 :: k5 :: k6 :: k7 :: k8 :: rest))
      = (.ok { m with fn := some (k1 : Int), tn := some (k2 : Int), rssi := some (-120 + (k3 : Int)),
                      toa256 := some (-32768 + (k4 : Int)), modType := some ⟨k5, h5⟩, tscSet := some (k6 : Int),
                      tsc := some (k7 : Int), ci := some (-1280 + (k8 : Int)) },
         ⟨rest, [⟨2715648, k1⟩, ⟨8, k2⟩, ⟨74, k3⟩, ⟨65536, k4⟩, ⟨6, k5⟩,
                 ⟨if (⟨k5, h5⟩ : Modulation) = Modulation.gmsk then 4 else 2, k6⟩, ⟨8, k7⟩, ⟨2561, k8⟩]⟩) :=
  RxMsg.randHdr_run_v1 m hv k1 k2 k3 k4 k5 k6 k7 k8 h5 h7 rest []

/-- whatever the stream: `rand_hdr` never changes `ver` or `burst` of a Tx message -/
theorem rand_hdr_leaves_tx (m m' : TxMsg) (s s' : Src) (h : m.randHdr s = (.ok m', s')) :
    m'.ver = m.ver ∧ m'.burst = m.burst := by
  obtain ⟨k1, k2, k3, _, hm, _⟩ := TxMsg.randHdr_inv m m' s s' h
  subst hm
  exact ⟨rfl, rfl⟩

/-- whatever the stream: `rand_hdr` never changes `ver`, `nope_ind` or `burst` of an Rx message, and below
version 1 it leaves `mod_type`, `tsc_set`, `tsc`, `ci` as well -/
theorem rand_hdr_leaves_rx (m m' : RxMsg) (s s' : Src) (h : m.randHdr s = (.ok m', s')) :
    m'.ver = m.ver ∧ m'.nopeInd = m.nopeInd ∧ m'.burst = m.burst ∧
    (m.ver < 1 → m'.modType = m.modType ∧ m'.tscSet = m.tscSet ∧ m'.tsc = m.tsc ∧ m'.ci = m.ci) := by
  by_cases hv : m.ver ≥ 1
  · obtain ⟨k1, k2, k3, k4, k5, k6, k7, k8, h5, _, _, hm, _⟩ := RxMsg.randHdr_inv_v1 m m' hv s s' h
    subst hm
    exact ⟨rfl, rfl, rfl, fun h => by omega⟩
  · obtain ⟨k1, k2, k3, k4, _, hm, _⟩ := RxMsg.randHdr_inv_v0 m m' hv s s' h
    subst hm
    exact ⟨rfl, rfl, rfl, fun _ => ⟨rfl, rfl, rfl, rfl⟩⟩

/-! ### validity (`validate() = ok`) of what the generators leave in the object -/

/-- After `TxMsg.rand_hdr()` the message validates iff the header version set before is a known one and the burst
left in the object has 148 or 444 bits (`rand_hdr` touches neither). -/
theorem rand_hdr_valid_tx (m m' : TxMsg) (stream : List Nat) (h : Yields m.randHdr stream m') :
    m'.validate = .ok () ↔ knownVersion m.ver ∧ burstLen148or444 m.burst := by
  obtain ⟨k1, k2, k3, rest, _, h1, h2, h3, rfl⟩ := TxMsg.yields_randHdr m m' stream h
  rw [C13.validate_tx_iff]
  simp only [InRangeTx, within]
  exact ⟨fun h => ⟨h.1, h.2.2.2.2⟩, fun h => ⟨h.1, by omega, by omega, by omega, h.2⟩⟩

/-- After `msg.rand_hdr(); msg.rand_burst(length)` a Tx message validates iff the version is known and the length
is 148 or 444 (any other length - 0, a negative one, 296 - gives a message `validate()` refuses). -/
theorem rand_msg_valid_tx (m m' : TxMsg) (len : Int) (stream : List Nat) (h : Yields (m.randMsg len) stream m') :
    m'.validate = .ok () ↔ knownVersion m.ver ∧ (len = 148 ∨ len = 444) := by
  obtain ⟨k1, k2, k3, ks, rest, _, hlen, h1, h2, h3, _, rfl⟩ := TxMsg.yields_randMsg m m' len stream h
  rw [C13.validate_tx_iff]
  simp only [InRangeTx, within, burstLen148or444, knownVersion, hlen]
  omega

/-- With the default length (`rand_burst()`: `GMSK_BURST_LEN`) the message validates iff the version is known. -/
theorem rand_msg_default_valid_tx (m m' : TxMsg) (stream : List Nat)
    (h : Yields (m.randMsg txBurstDefault) stream m') : m'.validate = .ok () ↔ knownVersion m.ver := by
  rw [rand_msg_valid_tx m m' _ stream h]
  exact ⟨fun h => h.1, fun h => ⟨h, Or.inl (by decide)⟩⟩

/-- The order of test_data_msg.test_rand_hdr_burst (`rand_burst(); rand_hdr()`) gives the same for a Tx message. -/
theorem rand_burst_then_hdr_valid_tx (m m' : TxMsg) (stream : List Nat)
    (h : Yields (m.randOps [.burst none, .hdr]) stream m') : m'.validate = .ok () ↔ knownVersion m.ver := by
  obtain ⟨ks, k1, k2, k3, rest, _, hlen, _, h1, h2, h3, rfl⟩ := TxMsg.yields_burst_hdr m m' stream h
  rw [C13.validate_tx_iff]
  simp only [InRangeTx, within, burstLen148or444, knownVersion, hlen, true_or, and_true]
  omega

/-- After `RxMsg.rand_hdr()` alone the message validates iff the version set before is known and what `rand_hdr`
leaves untouched fits: version 0 - the burst in the object has 148 or 444 soft bits; version 1 - a NOPE object
(`nope_ind` set) has no burst, any other has a burst of the length of the modulation just drawn. -/
theorem rand_hdr_valid_rx (m m' : RxMsg) (stream : List Nat) (h : Yields m.randHdr stream m') :
    m'.validate = .ok () ↔ knownVersion m.ver ∧ (m.ver = 0 → burstLen148or444 m.burst) ∧
      (m.ver = 1 → if m.nopeInd then m.burst = none
                   else ∃ mod, m'.modType = some mod ∧ burstLenOfMod mod.coding m.burst) := by
  rw [C13.validate_rx_iff]
  by_cases hv : m.ver ≥ 1
  · obtain ⟨k1, k2, k3, k4, k5, k6, k7, k8, h5, rest, _, h1, h2, h3, h4, h6, h7, h8, rfl⟩ :=
      RxMsg.yields_randHdr_v1 m m' hv stream h
    have hset := tscset_ok ⟨k5, h5⟩ k6 h6
    have hn0 : ¬ m.ver = 0 := by omega
    have e1 : 0 ≤ (k1 : Int) ∧ (k1 : Int) ≤ 2715647 := by omega
    have e2 : 0 ≤ (k2 : Int) ∧ (k2 : Int) ≤ 7 := by omega
    have e3 : -120 ≤ -120 + (k3 : Int) ∧ -120 + (k3 : Int) ≤ -47 := by omega
    have e4 : -32768 ≤ -32768 + (k4 : Int) ∧ -32768 + (k4 : Int) ≤ 32767 := by omega
    have e7 : 0 ≤ (k7 : Int) ∧ (k7 : Int) ≤ 7 := by omega
    have e8 : -1280 ≤ -1280 + (k8 : Int) ∧ -1280 + (k8 : Int) ≤ 1280 := by omega
    simp only [InRangeRx, within, InRangeMts, hset, e1, e2, e3, e4, e7, e8, true_and, hn0, false_imp_iff,
      Option.some.injEq, exists_eq_left']
  · obtain ⟨k1, k2, k3, k4, rest, _, h1, h2, h3, h4, rfl⟩ := RxMsg.yields_randHdr_v0 m m' hv stream h
    have hn1 : ¬ m.ver = 1 := by omega
    have e1 : 0 ≤ (k1 : Int) ∧ (k1 : Int) ≤ 2715647 := by omega
    have e2 : 0 ≤ (k2 : Int) ∧ (k2 : Int) ≤ 7 := by omega
    have e3 : -120 ≤ -120 + (k3 : Int) ∧ -120 + (k3 : Int) ≤ -47 := by omega
    have e4 : -32768 ≤ -32768 + (k4 : Int) ∧ -32768 + (k4 : Int) ≤ 32767 := by omega
    simp only [InRangeRx, within, e1, e2, e3, e4, true_and, hn1, false_imp_iff, and_true]

/-- After `msg.rand_hdr(); msg.rand_burst(length)` (length given or not) an Rx message validates iff the version set
before is known and: version 0 - the length used (the argument, or the length of the modulation LEFT in the object:
`rand_hdr` draws none below version 1) is 148 or 444; version 1 - the object is not a NOPE object (`rand_hdr` does
not reset `nope_ind`), and a length given explicitly is the length of the modulation just drawn. -/
theorem rand_msg_valid_rx (m m' : RxMsg) (length : Option Int) (stream : List Nat)
    (h : Yields (m.randMsg length) stream m') :
    m'.validate = .ok () ↔ knownVersion m.ver ∧
      (m.ver = 0 → ∃ L, rxLen m length = some L ∧ (L = 148 ∨ L = 444)) ∧
      (m.ver = 1 → m.nopeInd = false ∧
        ∀ l, length = some l → ∃ mod, m'.modType = some mod ∧ l = (mod.bl : Int)) := by
  rw [C13.validate_rx_iff]
  by_cases hv : m.ver ≥ 1
  · obtain ⟨k1, k2, k3, k4, k5, k6, k7, k8, h5, ks, rest, _, hlen, h1, h2, h3, h4, h6, h7, h8, _, rfl⟩ :=
      RxMsg.yields_randMsg_v1 m m' hv length stream h
    have hset := tscset_ok ⟨k5, h5⟩ k6 h6
    have hn0 : ¬ m.ver = 0 := by omega
    have e1 : 0 ≤ (k1 : Int) ∧ (k1 : Int) ≤ 2715647 := by omega
    have e2 : 0 ≤ (k2 : Int) ∧ (k2 : Int) ≤ 7 := by omega
    have e3 : -120 ≤ -120 + (k3 : Int) ∧ -120 + (k3 : Int) ≤ -47 := by omega
    have e4 : -32768 ≤ -32768 + (k4 : Int) ∧ -32768 + (k4 : Int) ≤ 32767 := by omega
    have e7 : 0 ≤ (k7 : Int) ∧ (k7 : Int) ≤ 7 := by omega
    have e8 : -1280 ≤ -1280 + (k8 : Int) ∧ -1280 + (k8 : Int) ≤ 1280 := by omega
    have hpos := bl_pos ⟨k5, h5⟩
    simp only [InRangeRx, within, InRangeMts, hset, e1, e2, e3, e4, e7, e8, true_and, hn0, false_imp_iff,
      Option.some.injEq, exists_eq_left', burstLenOfMod, modLen_coding, List.length_map, hlen, reduceCtorEq]
    cases length with
    | none =>
      simp only [lenAfter, Int.toNat_natCast, reduceCtorEq, false_imp_iff, implies_true, and_true]
      cases m.nopeInd <;> simp
    | some l =>
      simp only [lenAfter, Option.some.injEq, forall_eq']
      cases m.nopeInd
      · simp only [Bool.false_eq_true, if_false, true_and]
        constructor
        · rintro ⟨hk, hh⟩; exact ⟨hk, fun h1 => by have := hh h1; omega⟩
        · rintro ⟨hk, hh⟩; exact ⟨hk, fun h1 => by have := hh h1; omega⟩
      · simp
  · obtain ⟨k1, k2, k3, k4, L, ks, rest, _, hL, hlen, h1, h2, h3, h4, _, rfl⟩ :=
      RxMsg.yields_randMsg_v0 m m' hv length stream h
    have hn1 : ¬ m.ver = 1 := by omega
    have e1 : 0 ≤ (k1 : Int) ∧ (k1 : Int) ≤ 2715647 := by omega
    have e2 : 0 ≤ (k2 : Int) ∧ (k2 : Int) ≤ 7 := by omega
    have e3 : -120 ≤ -120 + (k3 : Int) ∧ -120 + (k3 : Int) ≤ -47 := by omega
    have e4 : -32768 ≤ -32768 + (k4 : Int) ∧ -32768 + (k4 : Int) ≤ 32767 := by omega
    simp only [InRangeRx, within, e1, e2, e3, e4, true_and, hn1, false_imp_iff, and_true, burstLen148or444,
      List.length_map, hlen, hL, Option.some.injEq, exists_eq_left']
    constructor
    · rintro ⟨hk, hh⟩; exact ⟨hk, fun h0 => by have := hh h0; omega⟩
    · rintro ⟨hk, hh⟩; exact ⟨hk, fun h0 => by have := hh h0; omega⟩

/-- `msg.rand_hdr(); msg.rand_burst()` - the call sequence of the toolkit's tests - validates iff the version is
known, and: version 0 - the modulation left in the object (ModGMSK in a fresh `RxMsg()`) has length 148 or 444;
version 1 - the object is not a NOPE object. -/
theorem rand_msg_default_valid_rx (m m' : RxMsg) (stream : List Nat) (h : Yields (m.randMsg none) stream m') :
    m'.validate = .ok () ↔ knownVersion m.ver ∧
      (m.ver = 0 → ∃ mod, m.modType = some mod ∧ (mod.bl = 148 ∨ mod.bl = 444)) ∧
      (m.ver = 1 → m.nopeInd = false) := by
  rw [rand_msg_valid_rx m m' none stream h]
  simp only [reduceCtorEq, false_imp_iff, implies_true, and_true, rxLen]
  constructor
  · rintro ⟨hk, h0, h1⟩
    refine ⟨hk, fun hv => ?_, h1⟩
    obtain ⟨L, hL, hLv⟩ := h0 hv
    cases hm : m.modType with
    | none => rw [hm] at hL; simp only [Option.map_none, reduceCtorEq] at hL
    | some mod =>
      rw [hm] at hL
      simp only [Option.map_some, Option.some.injEq] at hL
      exact ⟨mod, rfl, by omega⟩
  · rintro ⟨hk, h0, h1⟩
    refine ⟨hk, fun hv => ?_, h1⟩
    obtain ⟨mod, hm, hb⟩ := h0 hv
    exact ⟨mod.bl, by rw [hm]; rfl, by omega⟩

/-- The order of test_data_msg.test_rand_hdr_burst (`rand_burst(); rand_hdr()`) on an Rx message: the burst gets
the length of the modulation left in the object, THEN the header is drawn.  Version 0: valid iff that length is 148
or 444 (the test's fresh `RxMsg()`: ModGMSK).  Version 1: valid only if moreover the modulation drawn afterwards
happens to have the burst's length (and the object is not a NOPE object) - this order is not usable from version 1. -/
theorem rand_burst_then_hdr_valid_rx (m m' : RxMsg) (stream : List Nat)
    (h : Yields (m.randOps [.burst none, .hdr]) stream m') :
    m'.validate = .ok () ↔ knownVersion m.ver ∧ ∃ mod0, m.modType = some mod0 ∧
      (m.ver = 0 → mod0.bl = 148 ∨ mod0.bl = 444) ∧
      (m.ver = 1 → m.nopeInd = false ∧ ∃ mod, m'.modType = some mod ∧ mod.bl = mod0.bl) := by
  rw [C13.validate_rx_iff]
  by_cases hv : m.ver ≥ 1
  · obtain ⟨mod0, ks, k1, k2, k3, k4, k5, k6, k7, k8, h5, rest, hm0, _, hlen, _, h1, h2, h3, h4, h6, h7, h8, rfl⟩ :=
      RxMsg.yields_burst_hdr_v1 m m' hv stream h
    have hset := tscset_ok ⟨k5, h5⟩ k6 h6
    have hn0 : ¬ m.ver = 0 := by omega
    have e1 : 0 ≤ (k1 : Int) ∧ (k1 : Int) ≤ 2715647 := by omega
    have e2 : 0 ≤ (k2 : Int) ∧ (k2 : Int) ≤ 7 := by omega
    have e3 : -120 ≤ -120 + (k3 : Int) ∧ -120 + (k3 : Int) ≤ -47 := by omega
    have e4 : -32768 ≤ -32768 + (k4 : Int) ∧ -32768 + (k4 : Int) ≤ 32767 := by omega
    have e7 : 0 ≤ (k7 : Int) ∧ (k7 : Int) ≤ 7 := by omega
    have e8 : -1280 ≤ -1280 + (k8 : Int) ∧ -1280 + (k8 : Int) ≤ 1280 := by omega
    simp only [InRangeRx, within, InRangeMts, hset, e1, e2, e3, e4, e7, e8, true_and, hn0, false_imp_iff,
      Option.some.injEq, exists_eq_left', burstLenOfMod, modLen_coding, List.length_map, hlen, reduceCtorEq, hm0]
    cases m.nopeInd <;> simp
  · obtain ⟨mod0, ks, k1, k2, k3, k4, rest, hm0, _, hlen, _, h1, h2, h3, h4, rfl⟩ :=
      RxMsg.yields_burst_hdr_v0 m m' hv stream h
    have hn1 : ¬ m.ver = 1 := by omega
    have e1 : 0 ≤ (k1 : Int) ∧ (k1 : Int) ≤ 2715647 := by omega
    have e2 : 0 ≤ (k2 : Int) ∧ (k2 : Int) ≤ 7 := by omega
    have e3 : -120 ≤ -120 + (k3 : Int) ∧ -120 + (k3 : Int) ≤ -47 := by omega
    have e4 : -32768 ≤ -32768 + (k4 : Int) ∧ -32768 + (k4 : Int) ≤ 32767 := by omega
    simp only [InRangeRx, within, e1, e2, e3, e4, true_and, hn1, false_imp_iff, and_true, burstLen148or444,
      List.length_map, hlen, hm0, Option.some.injEq, exists_eq_left']

/-! ### each `rand_*` value lies in, and covers, its protocol range -/

/-- `rand_fn()` returns, over the conforming answers, exactly the frame numbers 0..2715647 (after the repair of
F2: not 2715648). -/
theorem rand_ranges_fn (v : Int) : (∃ stream, Yields randFn stream v) ↔ within 0 2715647 (some v) := by
  unfold randFn
  rw [randint_values]
  rfl

theorem rand_ranges_tn (v : Int) : (∃ stream, Yields randTn stream v) ↔ within 0 7 (some v) := by
  unfold randTn
  rw [randint_values]
  rfl

/-- `rand_pwr()`, `rand_rssi()`, `rand_toa256()` without arguments: exactly the protocol range -/
theorem rand_ranges_pwr (v : Int) : (∃ stream, Yields (randPwr none none) stream v) ↔ within 0 255 (some v) := by
  unfold randPwr
  rw [randint_values]
  rfl

theorem rand_ranges_rssi (v : Int) : (∃ stream, Yields (randRssi none none) stream v) ↔ within (-120) (-47) (some v) := by
  unfold randRssi
  rw [randint_values]
  rfl

theorem rand_ranges_toa256 (v : Int) :
    (∃ stream, Yields (randToa256 none none) stream v) ↔ within (-32768) 32767 (some v) := by
  unfold randToa256
  rw [randint_values]
  rfl

/-- `min` / `max` given: the bounds are taken as they are (no clamping to the protocol range, no swap) -/
theorem rand_ranges_pwr_args (min max : Option Int) (v : Int) :
    (∃ stream, Yields (randPwr min max) stream v) ↔ argOr min 0 ≤ v ∧ v ≤ argOr max 255 := by
  unfold randPwr
  rw [randint_values]
  rfl

theorem rand_ranges_rssi_args (min max : Option Int) (v : Int) :
    (∃ stream, Yields (randRssi min max) stream v) ↔ argOr min (-120) ≤ v ∧ v ≤ argOr max (-47) := by
  unfold randRssi
  rw [randint_values]
  rfl

theorem rand_ranges_toa256_args (min max : Option Int) (v : Int) :
    (∃ stream, Yields (randToa256 min max) stream v) ↔ argOr min (-32768) ≤ v ∧ v ≤ argOr max 32767 := by
  unfold randToa256
  rw [randint_values]
  rfl

/-- ... and bounds in the wrong order raise ValueError before anything is drawn -/
theorem rand_args_reversed (min max : Option Int) (s : Src) :
    (argOr max 255 < argOr min 0 → randPwr min max s = (.fail .valueError, s)) ∧
    (argOr max (-47) < argOr min (-120) → randRssi min max s = (.fail .valueError, s)) ∧
    (argOr max 32767 < argOr min (-32768) → randToa256 min max s = (.fail .valueError, s)) :=
  ⟨fun h => randint_empty _ _ h s, fun h => randint_empty _ _ h s, fun h => randint_empty _ _ h s⟩

/-- so with arguments the value stays inside the protocol range, for every conforming stream, exactly when the
given window does (or is empty) -/
theorem rand_rssi_args_in_range_iff (min max : Option Int) :
    (∀ stream v, Yields (randRssi min max) stream v → within (-120) (-47) (some v)) ↔
      (argOr max (-47) < argOr min (-120) ∨ (-120 ≤ argOr min (-120) ∧ argOr max (-47) ≤ -47)) := by
  constructor
  · intro h
    by_cases hr : argOr max (-47) < argOr min (-120)
    · exact Or.inl hr
    · refine Or.inr ⟨?_, ?_⟩
      · obtain ⟨st, hy⟩ := (rand_ranges_rssi_args min max (argOr min (-120))).mpr ⟨by omega, by omega⟩
        have := h st _ hy
        simp only [within] at this
        exact this.1
      · obtain ⟨st, hy⟩ := (rand_ranges_rssi_args min max (argOr max (-47))).mpr ⟨by omega, by omega⟩
        have := h st _ hy
        simp only [within] at this
        exact this.2
  · intro h stream v hy
    have := (rand_ranges_rssi_args min max v).mp ⟨stream, hy⟩
    simp only [within]
    omega

/-! ### the whole product of header values is reachable (`rand_hdr` covers C01's quantifier) -/

/-- every in-range (fn, tn, pwr) is what `TxMsg.rand_hdr()` leaves for some conforming stream -/
theorem rand_hdr_onto_tx (m : TxMsg) (fn tn pwr : Int) (hfn : 0 ≤ fn ∧ fn ≤ 2715647) (htn : 0 ≤ tn ∧ tn ≤ 7)
    (hp : 0 ≤ pwr ∧ pwr ≤ 255) :
    ∃ stream, Yields m.randHdr stream { m with fn := some fn, tn := some tn, pwr := some pwr } := by
  have e1 : ((fn.toNat : Nat) : Int) = fn := Int.toNat_of_nonneg hfn.1
  have e2 : ((tn.toNat : Nat) : Int) = tn := Int.toNat_of_nonneg htn.1
  have e3 : ((pwr.toNat : Nat) : Int) = pwr := Int.toNat_of_nonneg hp.1
  refine ⟨[fn.toNat, tn.toNat, pwr.toNat],
    ⟨[], [⟨2715648, fn.toNat⟩, ⟨8, tn.toNat⟩, ⟨256, pwr.toNat⟩]⟩, ?_, ?_⟩
  · rw [rand_hdr_sets_tx, e1, e2, e3]
  · intro d hd
    simp only [List.mem_cons, List.not_mem_nil, or_false] at hd
    rcases hd with rfl | rfl | rfl <;> (simp only [Draw.Ok]; omega)

/-- every in-range (fn, tn, rssi, toa256, modulation, TSC set allowed for it, TSC, C/I) is what `RxMsg.rand_hdr()`
leaves for some conforming stream (header version 1); in particular ModGMSK_AB with TSC set 1 (finding F11a of C17) -/
theorem rand_hdr_onto_rx_v1 (m : RxMsg) (hv : m.ver ≥ 1) (fn tn rssi toa set tsc ci : Int) (mod : Modulation)
    (hfn : 0 ≤ fn ∧ fn ≤ 2715647) (htn : 0 ≤ tn ∧ tn ≤ 7) (hr : -120 ≤ rssi ∧ rssi ≤ -47)
    (ht : -32768 ≤ toa ∧ toa ≤ 32767) (hset : 0 ≤ set ∧ set ≤ (if mod.coding = 0 then 3 else 1))
    (htsc : 0 ≤ tsc ∧ tsc ≤ 7) (hci : -1280 ≤ ci ∧ ci ≤ 1280) :
    ∃ stream, Yields m.randHdr stream
      { m with fn := some fn, tn := some tn, rssi := some rssi, toa256 := some toa, modType := some mod,
               tscSet := some set, tsc := some tsc, ci := some ci } := by
  have e1 : ((fn.toNat : Nat) : Int) = fn := Int.toNat_of_nonneg hfn.1
  have e2 : ((tn.toNat : Nat) : Int) = tn := Int.toNat_of_nonneg htn.1
  have e3 : -120 + (((rssi + 120).toNat : Nat) : Int) = rssi := by omega
  have e4 : -32768 + (((toa + 32768).toNat : Nat) : Int) = toa := by omega
  have e6 : ((set.toNat : Nat) : Int) = set := Int.toNat_of_nonneg hset.1
  have e7 : ((tsc.toNat : Nat) : Int) = tsc := Int.toNat_of_nonneg htsc.1
  have e8 : -1280 + (((ci + 1280).toNat : Nat) : Int) = ci := by omega
  have h5 : mod.val < 6 := mod.isLt
  have hm : (⟨mod.val, h5⟩ : Modulation) = mod := rfl
  have h7 : tsc.toNat < 8 := by omega
  have h6 : set.toNat < (if (⟨mod.val, h5⟩ : Modulation) = Modulation.gmsk then 4 else 2) := by
    rw [hm]
    by_cases hg : mod = Modulation.gmsk
    · rw [if_pos hg]; rw [if_pos ((gmsk_iff_coding _).mp hg)] at hset; omega
    · rw [if_neg hg]; rw [if_neg (fun hc => hg ((gmsk_iff_coding _).mpr hc))] at hset; omega
  refine ⟨[fn.toNat, tn.toNat, (rssi + 120).toNat, (toa + 32768).toNat, mod.val, set.toNat, tsc.toNat, (ci + 1280).toNat],
    ⟨[], [⟨2715648, fn.toNat⟩, ⟨8, tn.toNat⟩, ⟨74, (rssi + 120).toNat⟩, ⟨65536, (toa + 32768).toNat⟩, ⟨6, mod.val⟩,
      ⟨if (⟨mod.val, h5⟩ : Modulation) = Modulation.gmsk then 4 else 2, set.toNat⟩, ⟨8, tsc.toNat⟩,
      ⟨2561, (ci + 1280).toNat⟩]⟩, ?_, ?_⟩
  · rw [rand_hdr_sets_rx_v1 m hv _ _ _ _ _ _ _ _ h5 h7, e1, e2, e3, e4, e6, e7, e8]
  · intro d hd
    simp only [List.mem_cons, List.not_mem_nil, or_false] at hd
    rcases hd with rfl | rfl | rfl | rfl | rfl | rfl | rfl | rfl
    · simp only [Draw.Ok]; omega
    · simp only [Draw.Ok]; omega
    · simp only [Draw.Ok]; omega
    · simp only [Draw.Ok]; omega
    · exact h5
    · exact h6
    · exact h7
    · simp only [Draw.Ok]; omega

/-! ### the bursts -/

/-- `TxMsg.rand_burst(length)`: `max(length, 0)` hard bits, each 0 or 1 -/
theorem rand_bits_tx (m m' : TxMsg) (len : Int) (stream : List Nat) (h : Yields (m.randBurst len) stream m') :
    ∃ b, m'.burst = some b ∧ b.length = len.toNat ∧ ∀ x ∈ b, x = 0 ∨ x = 1 := by
  obtain ⟨ks, rest, _, hlen, hks, rfl⟩ := TxMsg.yields_randBurst m m' len stream h
  exact ⟨ks, rfl, hlen, fun x hx => by have := hks x hx; omega⟩

/-- `RxMsg.rand_burst(length)`: soft bits in -127..127 (never -128: the domain of C01's quantifier), as many as the
argument says, or as the modulation in the object has; without either: AttributeError -/
theorem rand_soft_rx (m m' : RxMsg) (length : Option Int) (stream : List Nat)
    (h : Yields (m.randBurst length) stream m') :
    C01.SoftRange m' ∧ ∃ L b, rxLen m length = some L ∧ m'.burst = some b ∧ b.length = L.toNat := by
  obtain ⟨L, ks, rest, hL, _, hlen, hks, rfl⟩ := RxMsg.yields_randBurst m m' length stream h
  refine ⟨?_, L, _, hL, rfl, by rw [List.length_map]; exact hlen⟩
  intro b hb s hs
  simp only [Option.mem_def, Option.some.injEq] at hb
  subst hb
  obtain ⟨k, hk, rfl⟩ := List.mem_map.mp hs
  have := hks k hk
  omega

theorem rand_burst_no_modulation (m : RxMsg) (hm : m.modType = none) (s : Src) :
    m.randBurst none s = (.fail .attributeError, s) := RxMsg.randBurst_attr m hm s

/-! ### the generated messages lie in C01's quantifier and survive gen_msg / parse_msg -/

/-- what `msg.rand_hdr(); msg.rand_burst(length)` builds has soft bits in -127..127, whatever the prior state -/
theorem rand_msg_soft_rx (m m' : RxMsg) (length : Option Int) (stream : List Nat)
    (h : Yields (m.randMsg length) stream m') : C01.SoftRange m' := by
  intro b hb s hs
  by_cases hv : m.ver ≥ 1
  · obtain ⟨k1, k2, k3, k4, k5, k6, k7, k8, h5, ks, rest, _, _, _, _, _, _, _, _, _, hks, rfl⟩ :=
      RxMsg.yields_randMsg_v1 m m' hv length stream h
    simp only [Option.mem_def, Option.some.injEq] at hb
    subst hb
    obtain ⟨k, hk, rfl⟩ := List.mem_map.mp hs
    have := hks k hk
    omega
  · obtain ⟨k1, k2, k3, k4, L, ks, rest, _, _, _, _, _, _, _, hks, rfl⟩ :=
      RxMsg.yields_randMsg_v0 m m' hv length stream h
    simp only [Option.mem_def, Option.some.injEq] at hb
    subst hb
    obtain ⟨k, hk, rfl⟩ := List.mem_map.mp hs
    have := hks k hk
    omega

/-- A Tx message built by `rand_hdr(); rand_burst(148 | 444)` on an object of a known version is one of the
messages C01 quantifies over ... -/
theorem rand_in_c01_quantifier_tx (m m' : TxMsg) (len : Int) (stream : List Nat)
    (h : Yields (m.randMsg len) stream m') (hv : knownVersion m.ver) (hl : len = 148 ∨ len = 444) :
    C01.TxValid m' := (rand_msg_valid_tx m m' len stream h).mpr ⟨hv, hl⟩

/-- ... and therefore decodes from its own encoding to itself (corollary of `C01.tx_roundtrip`). -/
theorem rand_roundtrip_tx (m m' : TxMsg) (len : Int) (stream : List Nat) (h : Yields (m.randMsg len) stream m')
    (hv : knownVersion m.ver) (hl : len = 148 ∨ len = 444) (legacy : Bool) :
    (m'.genMsg legacy >>= TxMsg.parseMsg) = .ok m' :=
  C01.tx_roundtrip m' legacy (rand_in_c01_quantifier_tx m m' len stream h hv hl)

/-- An Rx message built by `rand_hdr(); rand_burst()` on an object of a known version (version 0: the modulation
left in the object has length 148 or 444 - true of a fresh `RxMsg()`; version 1: not a NOPE object) is one of the
messages C01 quantifies over: valid, soft bits in -127..127 ... -/
theorem rand_in_c01_quantifier_rx (m m' : RxMsg) (stream : List Nat) (h : Yields (m.randMsg none) stream m')
    (hv : knownVersion m.ver) (h0 : m.ver = 0 → ∃ mod, m.modType = some mod ∧ (mod.bl = 148 ∨ mod.bl = 444))
    (h1 : m.ver = 1 → m.nopeInd = false) :
    C01.RxValid m' ∧ C01.SoftRange m' :=
  ⟨(rand_msg_default_valid_rx m m' stream h).mpr ⟨hv, h0, h1⟩, rand_msg_soft_rx m m' none stream h⟩

/-- ... and therefore decodes from its own encoding to a message equal in every field its header version
transports (corollary of `C01.rx_roundtrip`).  The generators of the test-suite never leave C01's quantifier. -/
theorem rand_roundtrip_rx (m m' : RxMsg) (stream : List Nat) (h : Yields (m.randMsg none) stream m')
    (hv : knownVersion m.ver) (h0 : m.ver = 0 → ∃ mod, m.modType = some mod ∧ (mod.bl = 148 ∨ mod.bl = 444))
    (h1 : m.ver = 1 → m.nopeInd = false) (legacy : Bool) :
    (m'.genMsg legacy >>= RxMsg.parseMsg) = .ok (C01.carried m') :=
  C01.rx_roundtrip m' legacy (rand_in_c01_quantifier_rx m m' stream h hv h0 h1).1
    (rand_in_c01_quantifier_rx m m' stream h hv h0 h1).2

/-- More generally: whatever the prior state and the length argument, a generated Rx message that validates
round-trips (its soft bits are always in -127..127). -/
theorem rand_valid_roundtrip_rx (m m' : RxMsg) (length : Option Int) (stream : List Nat)
    (h : Yields (m.randMsg length) stream m') (hval : m'.validate = .ok ()) (legacy : Bool) :
    (m'.genMsg legacy >>= RxMsg.parseMsg) = .ok (C01.carried m') :=
  C01.rx_roundtrip m' legacy hval (rand_msg_soft_rx m m' length stream h)

/-! ### enough conforming answers: no exception, the stream does not run dry -/

theorem rand_total_tx (m : TxMsg) (len : Int) (k1 k2 k3 : Nat) (ks rest : List Nat)
    (hlen : ks.length = len.toNat) (hk1 : k1 < 2715648) (hk2 : k2 < 8) (hk3 : k3 < 256) (hks : ∀ k ∈ ks, k < 2) :
    Yields (m.randMsg len) (k1 :: k2 :: k3 :: (ks ++ rest))
      { m with fn := some (k1 : Int), tn := some (k2 : Int), pwr := some (k3 : Int), burst := some ks } :=
  TxMsg.randMsg_yields m len k1 k2 k3 ks rest hlen hk1 hk2 hk3 hks

theorem rand_total_rx_v0 (m : RxMsg) (hv : m.ver < 1) (length : Option Int) (L : Int) (k1 k2 k3 k4 : Nat)
    (ks rest : List Nat) (hL : rxLen m length = some L) (hlen : ks.length = L.toNat)
    (hk1 : k1 < 2715648) (hk2 : k2 < 8) (hk3 : k3 < 74) (hk4 : k4 < 65536) (hks : ∀ k ∈ ks, k < 255) :
    Yields (m.randMsg length) (k1 :: k2 :: k3 :: k4 :: (ks ++ rest))
      { m with fn := some (k1 : Int), tn := some (k2 : Int), rssi := some (-120 + (k3 : Int)),
               toa256 := some (-32768 + (k4 : Int)),
               burst := some (ks.map fun (k : Nat) => (-127 : Int) + (k : Int)) } :=
  RxMsg.randMsg_yields_v0 m (by omega) length L k1 k2 k3 k4 ks rest hL hlen hk1 hk2 hk3 hk4 hks

theorem rand_total_rx_v1 (m : RxMsg) (hv : m.ver ≥ 1) (length : Option Int) (k1 k2 k3 k4 k5 k6 k7 k8 : Nat)
    (h5 : k5 < 6) (ks rest : List Nat) (hlen : ks.length = (lenAfter ⟨k5, h5⟩ length).toNat)
    (hk1 : k1 < 2715648) (hk2 : k2 < 8) (hk3 : k3 < 74) (hk4 : k4 < 65536)
    (hk6 : k6 < (if (⟨k5, h5⟩ : Modulation) = Modulation.gmsk then 4 else 2)) (hk7 : k7 < 8) (hk8 : k8 < 2561)
    (hks : ∀ k ∈ ks, k < 255) :
    Yields (m.randMsg length) (k1 :: k2 :: k3 :: k4 :: k5 :: k6 :: k7 :: k8 :: (ks ++ rest))
      { m with fn := some (k1 : Int), tn := some (k2 : Int), rssi := some (-120 + (k3 : Int)),
               toa256 := some (-32768 + (k4 : Int)), modType := some ⟨k5, h5⟩, tscSet := some (k6 : Int),
               tsc := some (k7 : Int), ci := some (-1280 + (k8 : Int)),
               burst := some (ks.map fun (k : Nat) => (-127 : Int) + (k : Int)) } :=
  RxMsg.randMsg_yields_v1 m hv length k1 k2 k3 k4 k5 k6 k7 k8 h5 ks rest hlen hk1 hk2 hk3 hk4 hk6 hk7 hk8 hks

/-! ### non-vacuity, boundaries, and the cases outside the hypotheses -/

/-- all answers at the upper end: FN 2715647 (not 2715648), TN 7, attenuation 255, bits 1; the message validates -/
example : (TxMsg.fresh.randMsg 148 (Src.start (2715647 :: 7 :: 255 :: List.replicate 148 1))).1
      = .ok ⟨0, some 2715647, some 7, some 255, some (List.replicate 148 1)⟩ ∧
    (TxMsg.fresh.randMsg 148 (Src.start (2715647 :: 7 :: 255 :: List.replicate 148 1))).2.Conforms ∧
    (⟨0, some 2715647, some 7, some 255, some (List.replicate 148 1)⟩ : TxMsg).validate = .ok () := by
  decide +kernel

/-- a non-conforming answer (2715648 of 2715648) gives the frame number the fix of F2 excludes: refused -/
example : (TxMsg.fresh.randHdr (Src.start [2715648, 0, 0])).1 = .ok ⟨0, some 2715648, some 0, some 0, none⟩ ∧
    ¬ (TxMsg.fresh.randHdr (Src.start [2715648, 0, 0])).2.Conforms := by decide +kernel

/-- version 1, all answers at the upper end: ModAQPSK (last member), TSC set 1, TSC 7, C/I 1280, 296 soft bits 127 -/
example : ({ RxMsg.fresh with ver := 1 }.randMsg none
      (Src.start (2715647 :: 7 :: 73 :: 65535 :: 5 :: 1 :: 7 :: 2560 :: List.replicate 296 254))).1
      = .ok ⟨1, some 2715647, some 7, some (-47), some 32767, Modulation.ofName? "ModAQPSK", false, some 1, some 7,
          some 1280, some (List.replicate 296 127)⟩ := by decide +kernel

/-- F11a: the stream [.., 2, 1, ..] makes `RxMsg.rand_hdr()` draw ModGMSK_AB with TSC set 1; the message is valid for
`validate()` and round-trips (it is a finding of C17, not of this property) -/
example : ({ RxMsg.fresh with ver := 1 }.randMsg none
      (Src.start (0 :: 0 :: 0 :: 0 :: 2 :: 1 :: 0 :: 0 :: List.replicate 148 0))).1
      = .ok ⟨1, some 0, some 0, some (-120), some (-32768), Modulation.ofName? "ModGMSK_AB", false, some 1, some 0,
          some (-1280), some (List.replicate 148 (-127))⟩ ∧
    (⟨1, some 0, some 0, some (-120), some (-32768), Modulation.ofName? "ModGMSK_AB", false, some 1, some 0,
          some (-1280), some (List.replicate 148 (-127))⟩ : RxMsg).validate = .ok () := by decide +kernel

/-- the prior state matters: on an object left with Mod16QAM, version 0, `rand_hdr(); rand_burst()` builds a message
of 592 soft bits that `validate()` refuses ... -/
example : ({ RxMsg.fresh with modType := Modulation.ofName? "Mod16QAM" }.randMsg none
      (Src.start (0 :: 0 :: 0 :: 0 :: List.replicate 592 0))).1
      = .ok ⟨0, some 0, some 0, some (-120), some (-32768), Modulation.ofName? "Mod16QAM", false, none, none, none,
          some (List.replicate 592 (-127))⟩ ∧
    (⟨0, some 0, some 0, some (-120), some (-32768), Modulation.ofName? "Mod16QAM", false, none, none, none,
          some (List.replicate 592 (-127))⟩ : RxMsg).validate = .error .valueError := by decide +kernel

/-- ... and on a NOPE object of version 1 (`nope_ind` left set, e.g. by `TxMsg.trans()` of a burst-less message)
the generated burst makes the message invalid -/
example : ({ RxMsg.fresh with ver := 1, nopeInd := true }.randMsg none
      (Src.start (0 :: 0 :: 0 :: 0 :: 0 :: 0 :: 0 :: 0 :: List.replicate 148 0))).1
      = .ok ⟨1, some 0, some 0, some (-120), some (-32768), some Modulation.gmsk, true, some 0, some 0, some (-1280),
          some (List.replicate 148 (-127))⟩ ∧
    (⟨1, some 0, some 0, some (-120), some (-32768), some Modulation.gmsk, true, some 0, some 0, some (-1280),
          some (List.replicate 148 (-127))⟩ : RxMsg).validate = .error .valueError := by decide +kernel

/-- the order of test_rand_hdr_burst on a version-1 object: burst of the old modulation (148), then Mod8PSK drawn -/
example : ({ RxMsg.fresh with ver := 1 }.randOps [.burst none, .hdr]
      (Src.start (List.replicate 148 0 ++ [0, 0, 0, 0, 1, 0, 0, 0]))).1
      = .ok ⟨1, some 0, some 0, some (-120), some (-32768), Modulation.ofName? "Mod8PSK", false, some 0, some 0,
          some (-1280), some (List.replicate 148 (-127))⟩ ∧
    (⟨1, some 0, some 0, some (-120), some (-32768), Modulation.ofName? "Mod8PSK", false, some 0, some 0,
          some (-1280), some (List.replicate 148 (-127))⟩ : RxMsg).validate = .error .valueError := by decide +kernel

/-- explicit bounds are not clamped: `rand_rssi(min = -200)` can return -200 -/
example : (randRssi (some (-200)) none (Src.start [0])).1 = .ok (-200) := by decide +kernel
/-- reversed bounds: ValueError; a stream that runs dry: `dry`, never a default -/
example : (randPwr (some 5) (some 3) (Src.start [1])).1 = .fail .valueError := by decide +kernel
example : (TxMsg.fresh.randMsg 148 (Src.start (List.replicate 150 0))).1 = .fail .dry := by decide +kernel
/-- an answer outside the enum / a soft bit outside array('b'): the exception Python raises -/
example : ({ RxMsg.fresh with ver := 1 }.randHdr (Src.start [0, 0, 0, 0, 6, 0, 0, 0])).1 = .fail .indexError := by
  decide +kernel
example : (RxMsg.fresh.randBurst (some 2) (Src.start [0, 255])).1 = .fail .overflowError := by decide +kernel

end OsmoVerif.Props.C13Rand
