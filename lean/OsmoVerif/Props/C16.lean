/-
C16 — Declarative codec: encode and decode are mutually inverse and length-exact.
Property theorems only.  Model: `OsmoVerif.Model.Codec` (codec.py), hypotheses `WF`/`InRange`:
`OsmoVerif.Spec.Codec`, lemmas: `OsmoVerif.Lemmas.Codec*`.

All theorems quantify over EVERY definition `d` of the definition language (any composition of the
building blocks, any nesting depth, any number of sequence items) — not only depth ≤ 3.
-/
import OsmoVerif.Lemmas.CodecErr
import OsmoVerif.Lemmas.CodecTyped
import OsmoVerif.Lemmas.CodecExact

namespace OsmoVerif.Props.C16
open OsmoVerif OsmoVerif.Codec

/-- a well-formed definition can be constructed (no `ProtocolError` from any `BitFieldSet.__init__`) -/
theorem wf_constructs (d : EnvDef) (hw : WF d) : construct d = .ok () := by
  simp only [construct, constructFields_of_fields d.fs (fun g _ => constructField_of_wf g) hw.1, if_true]

/-! ## decoding the encoding of in-range values returns those values -/

/-- `dec (enc v) = v`: an in-range value encodes, the encoding has the declared length, and decoding it
returns exactly `v` and consumes exactly the encoding. -/
theorem dec_enc (d : EnvDef) (v : Vals) (hw : WF d) (hr : InRange d v 0) :
    ∃ b, toBytes d v = .ok b ∧ declLen d v 0 = some b.length ∧ fromBytes d b = .ok (v, b.length) := by
  unfold InRange at hr
  cases hL : declLen d v 0 with
  | none => simp [hL] at hr
  | some L =>
    obtain ⟨b, he, hl, hd⟩ := envRT d.fs [] v [] 0 L [] hw.1 hL rfl
    simp only [List.nil_append, List.append_nil] at he hd
    refine ⟨b, he, by rw [hl], ?_⟩
    simp only [fromBytes, hd, tailCheck, hl, ne_eq, not_true_eq_false, and_false, if_false]

/-- the same with octets following the message (a definition that does not check its length):
the tail is left alone, exactly the encoding is consumed. -/
theorem dec_enc_tail (d : EnvDef) (v : Vals) (tail : List Nat) (hw : WF d) (hcl : d.checkLen = false)
    (hr : InRange d v tail.length) :
    ∃ b, toBytes d v = .ok b ∧ declLen d v tail.length = some b.length
      ∧ fromBytes d (b ++ tail) = .ok (v, b.length) := by
  unfold InRange at hr
  cases hL : declLen d v tail.length with
  | none => simp [hL] at hr
  | some L =>
    obtain ⟨b, he, hl, hd⟩ := envRT d.fs [] v [] tail.length L tail hw.1 hL rfl
    simp only [List.nil_append, List.append_nil] at he hd
    refine ⟨b, he, by rw [hl], ?_⟩
    simp only [fromBytes, hd, tailCheck, hcl, hl, Bool.false_eq_true, false_and, if_false]

/-! ## re-encoding a decoded message reproduces the canonical octets -/

/-- `enc (dec b)`: whatever decodes is an in-range value; it re-encodes to an octet string `c` of exactly
the consumed length, and `c` put in place of the consumed octets decodes to the same value with the
same consumption (`c` is the canonical form of the consumed octets). -/
theorem enc_dec (d : EnvDef) (b : List Nat) (v : Vals) (n : Nat) (hw : WF d) (hb : isBytes b = true)
    (h : fromBytes d b = .ok (v, n)) :
    n ≤ b.length ∧ InRange d v (b.length - n) ∧
    ∃ c, toBytes d v = .ok c ∧ c.length = n ∧ fromBytes d (c ++ b.drop n) = .ok (v, n) := by
  simp only [fromBytes] at h
  cases he : envFrom d.fs [] b 0 with
  | error e => simp [he, tailCheck] at h
  | ok r =>
    obtain ⟨v', n'⟩ := r
    simp only [he, tailCheck] at h
    by_cases hc : d.checkLen = true ∧ b.length ≠ n'
    · rw [if_pos hc] at h; cases h
    · rw [if_neg hc] at h
      simp only [Except.ok.injEq, Prod.mk.injEq] at h
      obtain ⟨rfl, rfl⟩ := h
      obtain ⟨rst, e1, e2, e3⟩ := envDI d.fs [] v' b n' hw.1 (by simp [Vals.keys]) hw.2 hb he
      simp only [List.nil_append] at e1
      subst e1
      refine ⟨e2, by unfold InRange declLen; rw [e3]; rfl, ?_⟩
      obtain ⟨c, f1, f2, f3⟩ := envRT d.fs [] v' [] (b.length - n') n' (b.drop n') hw.1 e3 (by simp)
      simp only [List.nil_append, List.append_nil] at f1 f3
      refine ⟨c, f1, f2, ?_⟩
      simp only [fromBytes, f3, tailCheck]
      rw [if_neg]
      intro ⟨h1, h2⟩
      apply hc
      refine ⟨h1, fun hh => h2 ?_⟩
      simp only [List.length_append, List.length_drop, f2]; omega

/-- canonical octets are a fixed point: decoding `c = enc v` (obtained from any decodable `b`) and
encoding again gives `c`. -/
theorem enc_dec_idem (d : EnvDef) (b : List Nat) (v : Vals) (n : Nat) (hw : WF d) (hb : isBytes b = true)
    (hcl : d.checkLen = true) (h : fromBytes d b = .ok (v, n)) :
    n = b.length ∧ ∃ c, toBytes d v = .ok c ∧ c.length = n ∧ fromBytes d c = .ok (v, n) := by
  obtain ⟨h1, _, c, h3, h4, h5⟩ := enc_dec d b v n hw hb h
  have hn : n = b.length := by
    simp only [fromBytes] at h
    cases he : envFrom d.fs [] b 0 with
    | error e => simp [he, tailCheck] at h
    | ok r =>
      obtain ⟨v', n'⟩ := r
      simp only [he, tailCheck, hcl, true_and] at h
      by_cases hc : b.length ≠ n'
      · rw [if_pos hc] at h; cases h
      · rw [if_neg hc] at h
        simp only [Except.ok.injEq, Prod.mk.injEq] at h
        omega
  refine ⟨hn, c, h3, h4, ?_⟩
  have : b.drop n = [] := by rw [hn]; exact List.drop_length
  rwa [this, List.append_nil] at h5

/-- for a definition without spare parts (no Spare fields, no spare or padding bits: every octet carries a
decoded value) the canonical octets ARE the consumed octets: `enc (dec b) = b[:n]`. -/
theorem enc_dec_exact (d : EnvDef) (b : List Nat) (v : Vals) (n : Nat) (hw : WF d) (hs : noSpareFields d.fs = true)
    (hb : isBytes b = true) (h : fromBytes d b = .ok (v, n)) : toBytes d v = .ok (b.take n) := by
  simp only [fromBytes] at h
  cases he : envFrom d.fs [] b 0 with
  | error e => simp [he, tailCheck] at h
  | ok r =>
    obtain ⟨v', n'⟩ := r
    simp only [he, tailCheck] at h
    by_cases hc : d.checkLen = true ∧ b.length ≠ n'
    · rw [if_pos hc] at h; cases h
    · rw [if_neg hc] at h
      simp only [Except.ok.injEq, Prod.mk.injEq] at h
      obtain ⟨rfl, rfl⟩ := h
      have := envEX d.fs [] v' b n' [] hw.1 hs (by simp [Vals.keys]) hw.2 hb he
      simpa [toBytes] using this

/-! ## decoding consumes exactly the octets the definition declares -/

/-- the number of octets consumed is the declared length of the decoded value; with `check_len`
it is the whole buffer. -/
theorem length_exact (d : EnvDef) (b : List Nat) (v : Vals) (n : Nat) (hw : WF d) (hb : isBytes b = true)
    (h : fromBytes d b = .ok (v, n)) :
    declLen d v (b.length - n) = some n ∧ (d.checkLen = true → n = b.length) := by
  refine ⟨?_, fun hcl => (enc_dec_idem d b v n hw hb hcl h).1⟩
  simp only [fromBytes] at h
  cases he : envFrom d.fs [] b 0 with
  | error e => simp [he, tailCheck] at h
  | ok r =>
    obtain ⟨v', n'⟩ := r
    simp only [he, tailCheck] at h
    by_cases hc : d.checkLen = true ∧ b.length ≠ n'
    · rw [if_pos hc] at h; cases h
    · rw [if_neg hc] at h
      simp only [Except.ok.injEq, Prod.mk.injEq] at h
      obtain ⟨rfl, rfl⟩ := h
      obtain ⟨rst, e1, _, e3⟩ := envDI d.fs [] v' b n' hw.1 (by simp [Vals.keys]) hw.2 hb he
      simp only [List.nil_append] at e1
      subst e1
      exact e3

/-- trailing octets after a complete message are rejected with DecodeError when length checking is on. -/
theorem trailing_rejected (d : EnvDef) (v : Vals) (tail : List Nat) (hw : WF d) (hcl : d.checkLen = true)
    (ht : tail ≠ []) (hr : InRange d v tail.length) :
    ∃ b, toBytes d v = .ok b ∧ fromBytes d (b ++ tail) = .error .decode := by
  unfold InRange at hr
  cases hL : declLen d v tail.length with
  | none => simp [hL] at hr
  | some L =>
    obtain ⟨b, he, hl, hd⟩ := envRT d.fs [] v [] tail.length L tail hw.1 hL rfl
    simp only [List.nil_append, List.append_nil] at he hd
    refine ⟨b, he, ?_⟩
    simp only [fromBytes, hd, tailCheck, hcl, true_and]
    rw [if_pos]
    have : tail.length ≠ 0 := fun h => ht (List.length_eq_zero_iff.1 h)
    simp only [List.length_append, hl]; omega

/-! ## errors are the codec's own -/

/-- decoding with a well-formed definition never raises anything but `DecodeError` (short input, fixed-value
mismatch, trailing octets, KeyError/ValueError of a callback … are all wrapped); it cannot fail with
ProtocolError and cannot hang.  `unmodelled` = a length callback returned a non-int/negative value
(outside the model, see Model/Codec.lean). -/
theorem errors_own_decode (d : EnvDef) (b : List Nat) (e : Err) (hw : WF d)
    (h : fromBytes d b = .error e) : e = .decode ∨ e = .unmodelled := by
  simp only [fromBytes] at h
  cases he : envFrom d.fs [] b 0 with
  | error e' =>
    simp only [he, tailCheck, Except.error.injEq] at h
    subst h
    rcases envFrom_error_cases _ _ _ _ _ he with h1 | h1
    · exact .inl h1
    · exact .inr (benign_not_catchable ((envEB d.fs hw.1).1 _ _ _ _ he) h1)
  | ok r =>
    obtain ⟨v', n'⟩ := r
    simp only [he, tailCheck] at h
    by_cases hc : d.checkLen = true ∧ b.length ≠ n'
    · rw [if_pos hc] at h; simp only [Except.error.injEq] at h; exact .inl h.symm
    · rw [if_neg hc] at h; cases h

/-- when, in addition, every length callback reads a field that can only hold a non-negative int
(`RefsOK`: bit-fields, unsigned integers with non-negative offset and multiplier), decoding ANY octet
string either succeeds or raises `DecodeError` — nothing else, for every definition at any depth. -/
theorem errors_own_decode_strict (d : EnvDef) (b : List Nat) (e : Err) (hw : WF d) (hr : RefsOK d)
    (h : fromBytes d b = .error e) : e = .decode := by
  rcases errors_own_decode d b e hw h with h1 | h1
  · exact h1
  · subst h1
    simp only [fromBytes] at h
    cases he : envFrom d.fs [] b 0 with
    | error e' =>
      simp only [he, tailCheck, Except.error.injEq] at h
      subst h
      exact absurd rfl (envNU d.fs hw.1 hr hw.2 b 0 _ he)
    | ok r =>
      obtain ⟨v', n'⟩ := r
      simp only [he, tailCheck] at h
      by_cases hc : d.checkLen = true ∧ b.length ≠ n'
      · rw [if_pos hc] at h; cases h
      · rw [if_neg hc] at h; cases h

/-- encoding with a well-formed definition never raises anything but `EncodeError` (missing key, integer
that does not fit, wrong buffer length, division by zero … are all wrapped). `unmodelled` = a value of
the wrong Python type for its field. -/
theorem errors_own_encode (d : EnvDef) (v : Vals) (e : Err) (hw : WF d)
    (h : toBytes d v = .error e) : e = .encode ∨ e = .unmodelled := by
  simp only [toBytes] at h
  rcases envTo_error_cases _ _ _ h with h1 | h1
  · exact .inl h1
  · exact .inr (benign_not_catchable ((envEB d.fs hw.1).2 _ _ h) h1)

/-- short input: a present field whose length callback asks for more octets than there are raises
`DecodeError('Short read')` -/
theorem short_read (pres : Pres) (glen : Vals → Nat → Except Err Nat) (body : Vals → List Nat → Except Err Vals)
    (pre : Vals) (data : List Nat) (n : Nat) (hp : getPres pres pre = .ok true)
    (hg : glen pre data.length = .ok n) (hs : data.length < n) :
    fieldFromCore pres glen body pre data = .error .decode := by
  simp only [fieldFromCore, hp, hg, hs, if_true]

/-- fixed-value mismatch: a bit-field with `val = c` that reads something else raises `DecodeError` -/
theorem fixed_value_mismatch (f : BitF) (o : Nat) (rest : List (BitF × Nat)) (pre : Vals) (blob : Nat)
    (name : String) (c : Int) (hn : f.name = some name) (hv : f.val = some c)
    (hne : (((blob >>> o) % 2 ^ f.bl : Nat) : Int) ≠ c) :
    bitsDec ((f, o) :: rest) pre blob = .error .decode := by
  simp only [bitsDec, hn, hv, ne_eq, hne, not_false_eq_true, if_true]

/-- unencodable integer: a value that does not fit the field's width raises `OverflowError` in the field,
which the envelope turns into `EncodeError` -/
theorem unencodable_int (name : String) (len : Nat) (bo : BO) (sg : Bool) (off mult x : Int)
    (fs : List FDef) (v : Vals) (hg : v.get name = .ok (.int x)) (hm : mult ≠ 0)
    (hfit : fitsInt len sg (Int.fdiv (x - off) mult) = false) :
    fieldTo (.int name .always len bo sg off mult) v = .error .overflow
    ∧ envTo (.int name .always len bo sg off mult :: fs) v = .error .encode := by
  have h1 : fieldTo (.int name .always len bo sg off mult) v = .error .overflow := by
    simp only [fieldTo, fieldToCore, getPres, intEnc, Vals.getInt, hg, hm, if_false]
    rw [intToBytes_of_not_fits _ _ _ _ (by simp [hfit])]
  exact ⟨h1, by simp only [envTo, h1, wrapEnc]⟩

/-- wrong fixed buffer length: `EncodeError('Field length mismatch')` -/
theorem wrong_buf_length (name : String) (n : Nat) (b : List Nat) (v : Vals) (hg : v.get name = .ok (.bytes b))
    (hn : n > 0) (hl : b.length ≠ n) :
    fieldTo (.buf name .always (.fixed n)) v = .error .encode := by
  simp [fieldTo, fieldToCore, getPres, Vals.getBytes, hg, LenD.selfLen, hn, hl]

/-! ## over-wide bit-field values are truncated without disturbing the neighbours -/

/-- Encoding a BitFieldSet with an arbitrary (over-wide, even negative) value `y` for its field `n` of
width `bl` produces exactly the octets obtained with the masked value `y mod 2^bl`: the field is
truncated to its width and every neighbouring field keeps its bits. -/
theorem bitfield_trunc (pres : Pres) (len : Nat) (little : Bool) (fs : List BitF) (v : Vals)
    (n : String) (y : Int) (bl : Nat)
    (hbl : ∀ f ∈ fs, f.name = some n → f.bl = bl) (hpres : n ∉ pres.reads) :
    fieldTo (.bits pres len little fs) (Vals.set v n (.int y))
      = fieldTo (.bits pres len little fs) (Vals.set v n (.int (y % ((2 ^ bl : Nat) : Int)))) := by
  simp only [fieldTo]
  cases hd : bitsDerive len little fs with
  | error e => rfl
  | ok r =>
    obtain ⟨l, offs⟩ := r
    simp only [fieldToCore, getPres_set_ne pres v n _ hpres, bitsEncBytes]
    have hoffs : ∀ f ∈ offs, f.1.name = some n → f.1.bl = bl := by
      intro f hf hname
      obtain ⟨hbn, _⟩ := bitNames_derive hd
      simp only [bitsDerive] at hd
      cases ho : bitsOffsets (bitsLen len (bitsOrdered little fs) * 8) (bitsOrdered little fs) with
      | error e => simp [ho] at hd
      | ok o =>
        simp only [ho, Except.ok.injEq, Prod.mk.injEq] at hd
        obtain ⟨_, rfl⟩ := hd
        have hm := (bitsOffsets_chain _ _ _ ho).2
        have : f.1 ∈ bitsOrdered little fs := by rw [← hm]; exact List.mem_map_of_mem hf
        have : f.1 ∈ fs := by
          cases little <;> simp_all [bitsOrdered]
        exact hbl f.1 this hname
    rw [bitsEnc_trunc offs v n y bl 0 hoffs]

/-- … and decoding those octets returns the masked value and the neighbours' own values (instance of
`dec_enc` for the masked assignment, stated here for a one-set definition). -/
theorem bitfield_trunc_decodes (len : Nat) (little : Bool) (fs : List BitF) (v : Vals)
    (hw : WF ⟨true, [.bits .always len little fs]⟩) (hr : InRange ⟨true, [.bits .always len little fs]⟩ v 0) :
    ∃ b, toBytes ⟨true, [.bits .always len little fs]⟩ v = .ok b
      ∧ fromBytes ⟨true, [.bits .always len little fs]⟩ b = .ok (v, b.length) := by
  obtain ⟨b, h1, _, h3⟩ := dec_enc _ v hw hr
  exact ⟨b, h1, h3⟩

/-! ## termination of the sequence loop (F13) -/

/-- with a well-formed item (consumes ≥ 1 octet) the fuel `len(data)` of the model's sequence loop is
never exhausted: any larger fuel gives the same result. -/
theorem seq_fuel_suffices (proc : List Nat → Except Err (Vals × Nat)) :
    ∀ (fuel : Nat) (data : List Nat) (off : Nat) (acc : List Val),
      fuel + off ≥ data.length → seqLoop proc (fuel + 1) data off acc = seqLoop proc fuel data off acc := by
  intro fuel
  induction fuel with
  | zero =>
    intro data off acc hf
    have : ¬ off < data.length := by omega
    unfold seqLoop; simp [this]
  | succ fuel ih =>
    intro data off acc hf
    by_cases hlt : off < data.length
    · rw [seqLoop.eq_def proc (fuel + 1 + 1), seqLoop.eq_def proc (fuel + 1)]
      simp only [hlt, if_true]
      cases hp : proc (List.drop off data) with
      | error e => rfl
      | ok r =>
        obtain ⟨v, k⟩ := r
        simp only
        by_cases hk : k = 0
        · simp [hk]
        · simp only [hk, if_false]
          exact ih _ _ _ (by omega)
    · unfold seqLoop; simp [hlt]

/-- the real `Sequence.from_bytes` does not terminate on an item that decodes zero octets; the model
reports it as `hang` (known finding F13); `WF` excludes such definitions. -/
theorem seq_zero_item_hangs :
    fromBytes ⟨true, [.seq "s" .always .rest [.buf "x" (.flagTrue "nothere") .rest]]⟩ [1] = .error .decode
    ∧ fromBytes ⟨true, [.seq "s" .always .rest [.int "n" .always 0 .big false 0 1, .buf "x" .always (.fixed 0)]]⟩ []
        = .ok ([("s", .list [])], 0)
    ∧ fromBytes ⟨true, [.seq "s" .always .rest [.spare "p" .always (.ofField "q") [0]]]⟩ [1] = .error .decode
    ∧ seqLoop (fun _ => .ok ([], 0)) 5 [1, 2, 3] 0 [] = .error .hang := by
  decide

/-! ## non-vacuity -/

/-- a definition with every building block (nesting depth 3, both bit orders, optional and
variable-length fields, a sequence) is well-formed … -/
def exampleDef : EnvDef := ⟨true, [
  .bits .always 0 false [⟨some "ver", 4, some 2⟩, ⟨none, 1, none⟩, ⟨some "flag", 1, none⟩, ⟨some "code", 2, none⟩],
  .int "len" .always 1 .big false 0 1,
  .int "temp" .always 2 .little true (-40) (-3),
  .buf "data" .always (.ofField "len"),
  .spare "pad" (.flagTrue "flag") (.table "code" [(0, 1), (1, 2), (3, 0)]) [255],
  .env "inner" (.flagFalse "flag") (.fixed 3) true [
    .bits .always 2 true [⟨some "a", 3, none⟩, ⟨some "b", 9, none⟩, ⟨none, 4, none⟩],
    .env "deep" .always .rest true [.int "z" .always 1 .big true 5 2]],
  .seq "items" .always .rest [
    .int "t" .always 1 .big false 0 1,
    .int "l" .always 1 .big false 0 1,
    .buf "v" .always (.ofField "l")]]⟩

example : WF exampleDef := by decide
example : RefsOK exampleDef := by decide

/-- a spare-free definition (every bit named, 16 bits in 2 octets, LSB-first, nested envelope and sequence) -/
def exactDef : EnvDef := ⟨false, [
  .bits .always 0 true [⟨some "a", 3, none⟩, ⟨some "b", 9, some 300⟩, ⟨some "c", 4, none⟩],
  .int "n" .always 1 .big false 0 1,
  .env "e" .always (.ofField "n") true [.int "x" .always 2 .little true (-7) 3, .buf "y" .always .rest],
  .seq "s" .always (.fixed 4) [.int "t" .always 1 .big false 0 1, .buf "u" .always (.fixed 1)]]⟩

example : WF exactDef ∧ noSpareFields exactDef.fs = true := by decide
example : fromBytes exactDef [89, 101, 3, 1, 2, 9, 7, 8, 9, 10, 99] =
    .ok ([("c", .int 5), ("b", .int 300), ("a", .int 5), ("n", .int 3), ("e", .dict [("x", .int 1532), ("y", .bytes [9])]),
          ("s", .list [.dict [("t", .int 7), ("u", .bytes [8])], .dict [("t", .int 9), ("u", .bytes [10])]])], 10) := by
  decide

def exampleVal : Vals := [
  ("ver", .int 2), ("flag", .int 0), ("code", .int 1), ("len", .int 2), ("temp", .int (-43)),
  ("data", .bytes [222, 173]),
  ("inner", .dict [("b", .int 300), ("a", .int 5), ("deep", .dict [("z", .int (-251))])]),
  ("items", .list [.dict [("t", .int 1), ("l", .int 2), ("v", .bytes [7, 8])],
                   .dict [("t", .int 9), ("l", .int 0), ("v", .bytes [])]])]

/-- … and has in-range values (declared length 15 octets) -/
example : declLen exampleDef exampleVal 0 = some 15 := by decide
example : InRange exampleDef exampleVal 0 := by decide
example : toBytes exampleDef exampleVal = .ok [33, 2, 1, 0, 222, 173, 9, 101, 128, 1, 2, 7, 8, 9, 0] := by decide
example : fromBytes exampleDef [33, 2, 1, 0, 222, 173, 9, 101, 128, 1, 2, 7, 8, 9, 0] = .ok (exampleVal, 15) := by decide

end OsmoVerif.Props.C16
