/-
C01 — TRXD messages survive encode/decode unchanged.
Property theorems only.  Model: `OsmoVerif.Model.Trxd`, lemmas: `OsmoVerif.Lemmas.Trxd`.
Validity is definitionally `validate m = .ok ()` (characterised by C13 as the protocol ranges).
-/
import OsmoVerif.Lemmas.Trxd

namespace OsmoVerif.Props.C01
open OsmoVerif OsmoVerif.Trxd OsmoVerif.Spec.TrxdRanges OsmoVerif.Spec.TrxdLayout

/-- the toolkit accepts the message as valid -/
def TxValid (m : TxMsg) : Prop := m.validate = .ok ()
def RxValid (m : RxMsg) : Prop := m.validate = .ok ()

instance (m : TxMsg) : Decidable (TxValid m) := by unfold TxValid; infer_instance
instance (m : RxMsg) : Decidable (RxValid m) := by unfold RxValid; infer_instance

/-- every soft bit of the burst lies in -127..127 (the domain the property quantifies over) -/
def SoftRange (m : RxMsg) : Prop := ∀ b ∈ m.burst, ∀ s ∈ b, -127 ≤ s ∧ s ≤ 127

instance (m : RxMsg) : Decidable (SoftRange m) := by unfold SoftRange; infer_instance

/-- What an Rx message looks like after a trip through its own header version: the fields the version
does not transport are those of a fresh `RxMsg()` (version 0: TSC set, TSC, C/I unset, no NOPE flag, the
modulation is the first one with the burst's length; NOPE indication: modulation, TSC set, TSC unset);
every transported field, including every soft bit, is unchanged. -/
def carried (m : RxMsg) : RxMsg :=
  if m.ver = 0 then
    { m with modType := m.burst.bind (fun b => Modulation.pickByBl b.length),
             nopeInd := false, tscSet := none, tsc := none, ci := none }
  else if m.nopeInd then
    { m with modType := none, tscSet := none, tsc := none }
  else m

/-- Every valid Tx message (both versions, both burst lengths, all field values and bits, legacy
padding on or off) decodes from its own encoding to itself. -/
theorem tx_roundtrip (m : TxMsg) (legacy : Bool) (h : TxValid m) :
    (m.genMsg legacy >>= TxMsg.parseMsg) = .ok m := by
  have hr := (TxMsg.validate_iff m).mp h
  obtain ⟨f, hf, hg⟩ := TxMsg.genMsg_layout m legacy hr
  rcases m with ⟨ver, fn, tn, pwr, burst⟩
  obtain ⟨hv, hfn, htn, hp, hb⟩ := hr
  cases fn <;> cases tn <;> cases pwr <;> cases burst <;>
    simp only [within, burstLen148or444] at hfn htn hp hb
  rename_i fn tn pwr b
  have hv' : (0 : Int) ≤ ver ∧ ver ≤ 1 := by rcases hv with rfl | rfl <;> omega
  simp only [TxMsg.fields?, hv'.1, hfn.1, htn.1, hp.1, and_self, if_true, Option.some.injEq] at hf
  subst hf
  rw [hg]
  simp only [bind, Except.bind]
  rw [TxMsg.parse_layout _ legacy (by simp only; omega) (by simp only; omega) (by simp only; omega) hb]
  simp only [Int.toNat_of_nonneg hv'.1, Int.toNat_of_nonneg hfn.1, Int.toNat_of_nonneg htn.1,
    Int.toNat_of_nonneg hp.1]

/-- Every valid Rx message with soft bits in -127..127 (both versions, all six modulations, every TSC
set / TSC, NOPE indications, legacy padding on or off) decodes from its own encoding to a message equal
in every field its header version transports. -/
theorem rx_roundtrip (m : RxMsg) (legacy : Bool) (h : RxValid m) (hs : SoftRange m) :
    (m.genMsg legacy >>= RxMsg.parseMsg) = .ok (carried m) := by
  have hr := (RxMsg.validate_iff m).mp h
  have hw : m.WellTyped := fun b hb s hsb => by have := hs b hb s hsb; omega
  obtain ⟨f, hf, hg⟩ := RxMsg.genMsg_layout m legacy hr hw
  rcases m with ⟨ver, fn, tn, rssi, toa, mod, nope, set, tsc, ci, burst⟩
  obtain ⟨hv, hfn, htn, hrs, hto, h0, h1⟩ := hr
  cases fn <;> cases tn <;> cases rssi <;> cases toa <;> simp only [within] at hfn htn hrs hto
  rename_i fn tn rssi toa
  simp only at h0 h1 hv
  rw [hg]
  simp only [bind, Except.bind, RxMsg.parseMsg]
  rcases hv with rfl | rfl
  · -- version 0
    have hb := h0 rfl
    cases burst <;> simp only [burstLen148or444] at hb
    rename_i b
    simp only [RxMsg.fields?, hfn.1, htn.1, Int.le_refl, and_self, not_true_eq_false, if_false,
      show ¬ ((0 : Int) = 1) by omega, Int.toNat_zero, Option.some.injEq] at hf
    subst hf
    have hsb : ∀ s ∈ b, -127 ≤ s ∧ s ≤ 127 := hs b rfl
    have := RxMsg.parse_v0 RxMsg.fresh fn.toNat tn.toNat rssi toa b legacy (by omega) (by omega) (by omega)
      hto hb hsb
    simp only [layoutRx, show ¬ ((0 : Nat) = 1) by omega, if_false, List.append_nil]
    rw [this]
    simp only [carried, if_true, Int.toNat_of_nonneg hfn.1, Int.toNat_of_nonneg htn.1, Option.bind_some,
      RxMsg.fresh]
    rfl
  · -- version 1
    obtain ⟨hci, hrest⟩ := h1 rfl
    cases ci <;> simp only [within] at hci
    rename_i ci
    have hpad : pad 1 legacy = [] := by cases legacy <;> rfl
    cases nope
    · -- a burst with MTS information
      simp only [Bool.false_eq_true, if_false, InRangeMts] at hrest
      obtain ⟨mod', rfl⟩ : ∃ x, mod = some x := by
        cases mod with
        | none => exact hrest.elim
        | some x => exact ⟨x, rfl⟩
      have hrest' : (if mod'.coding = 0 then within 0 3 set else within 0 1 set) ∧ within 0 7 tsc ∧
          burstLenOfMod mod'.coding burst := hrest
      clear hrest
      obtain ⟨hset, htsc, hbl⟩ := hrest'
      obtain ⟨set', rfl⟩ : ∃ x, set = some x := by
        cases set with
        | none => split at hset <;> exact hset.elim
        | some x => exact ⟨x, rfl⟩
      obtain ⟨tsc', rfl⟩ : ∃ x, tsc = some x := by
        cases tsc with
        | none => exact htsc.elim
        | some x => exact ⟨x, rfl⟩
      obtain ⟨b, rfl⟩ : ∃ x, burst = some x := by
        cases burst with
        | none => exact hbl.elim
        | some x => exact ⟨x, rfl⟩
      simp only [within] at htsc
      simp only [burstLenOfMod, modLen_coding, Option.some.injEq] at hbl
      have hset' : (0 ≤ set' ∧ set' ≤ 3) ∧ (mod'.coding = 0 ∨ set' ≤ 1) := by
        split at hset <;> simp only [within] at hset
        · exact ⟨hset, Or.inl (by assumption)⟩
        · exact ⟨by omega, Or.inr hset.2⟩
      have hblpos : ∀ x : Modulation, 0 < x.bl := by decide
      have hbne : b ≠ [] := by
        intro hb; have := hblpos mod'; rw [hbl, hb] at this; simp at this
      simp only [RxMsg.fields?, hfn.1, htn.1, hset'.1.1, htsc.1, and_self, not_true_eq_false, if_false,
        if_true, Bool.false_eq_true, show (0 : Int) ≤ 1 by omega] at hf
      cases hmd : modOf mod'.coding set'.toNat with
      | none => simp only [hmd, Option.map_none, reduceCtorEq] at hf
      | some md =>
        simp only [hmd, Option.map_some, Option.some.injEq] at hf
        subst hf
        have := RxMsg.parse_v1_burst RxMsg.fresh fn.toNat tn.toNat rssi toa ci mod' set'.toNat tsc'.toNat md b
          (by omega) (by omega) (by omega) hto (by omega) (by omega) (by omega)
          (by rcases hset'.2 with h | h
              · exact Or.inl h
              · exact Or.inr (by omega)) hmd hbne (hs b rfl)
        simp only [layoutRx, if_true, mtsOctet, Bool.false_eq_true, if_false, hpad, List.append_nil]
        rw [this]
        simp only [carried, show ¬ ((1 : Int) = 0) by omega, if_false, Bool.false_eq_true,
          Int.toNat_of_nonneg hfn.1, Int.toNat_of_nonneg htn.1, Int.toNat_of_nonneg hset'.1.1,
          Int.toNat_of_nonneg htsc.1]
    · -- NOPE indication
      simp only [if_true] at hrest
      subst hrest
      simp only [RxMsg.fields?, hfn.1, htn.1, and_self, not_true_eq_false, if_false, if_true,
        show (0 : Int) ≤ 1 by omega, Option.some.injEq] at hf
      subst hf
      have := RxMsg.parse_v1_nope RxMsg.fresh fn.toNat tn.toNat rssi toa ci (by omega) (by omega) (by omega)
        hto (by omega)
      simp only [layoutRx, if_true, mtsOctet, hpad, List.append_nil]
      rw [this]
      simp only [carried, show ¬ ((1 : Int) = 0) by omega, if_false, if_true,
        Int.toNat_of_nonneg hfn.1, Int.toNat_of_nonneg htn.1]

/-- A version-0 Tx message with the two legacy padding octets decodes to the same message as without. -/
theorem legacy_same_tx (m : TxMsg) (h : TxValid m) (_hv : m.ver = 0) :
    (m.genMsg true >>= TxMsg.parseMsg) = (m.genMsg false >>= TxMsg.parseMsg) := by
  rw [tx_roundtrip m true h, tx_roundtrip m false h]

/-- A version-0 Rx message with the two legacy padding octets decodes to the same message as without —
for every burst content (no restriction on the soft bits). -/
theorem legacy_same_rx (m : RxMsg) (h : RxValid m) (hv : m.ver = 0) :
    (m.genMsg true >>= RxMsg.parseMsg) = (m.genMsg false >>= RxMsg.parseMsg) := by
  have hr := (RxMsg.validate_iff m).mp h
  obtain ⟨f, hf, hsf, hg⟩ := RxMsg.genMsg_split m true hr
  obtain ⟨f', hf', hsf', hg'⟩ := RxMsg.genMsg_split m false hr
  have : f' = f := by rw [hf] at hf'; exact (Option.some.inj hf').symm
  subst this
  obtain ⟨u, hu⟩ := RxMsg.appendBurstTo_total m (rxHdrLayout f')
  rw [hg, hg', hu]
  simp only [bind, Except.bind, RxMsg.parseMsg]
  -- the fields of a valid version-0 message
  rcases m with ⟨ver, fn, tn, rssi, toa, mod, nope, set, tsc, ci, burst⟩
  simp only at hv
  subst hv
  obtain ⟨hkv, hfn, htn, hrs, hto, h0, h1'⟩ := hr
  cases fn <;> cases tn <;> cases rssi <;> cases toa <;> simp only [within] at hfn htn hrs hto
  rename_i fn tn rssi toa
  have hb := h0 rfl
  cases burst <;> simp only [burstLen148or444] at hb
  rename_i b
  simp only [RxMsg.fields?, hfn.1, htn.1, Int.le_refl, and_self, not_true_eq_false, if_false,
    show ¬ ((0 : Int) = 1) by omega, Int.toNat_zero, Option.some.injEq] at hf
  subst hf
  -- the burst octets appended by `append_burst_to`
  simp only [RxMsg.appendBurstTo, bind, Except.bind, pure, Except.pure] at hu
  obtain ⟨u', hu', hlen⟩ := sbit2usbit_total b
  rw [hu'] at hu
  simp only [Except.ok.injEq, List.append_cancel_left_eq] at hu
  subst hu
  have hul : u'.length = 148 ∨ u'.length = 444 := by rw [hlen]; exact hb
  have e : ∀ l, rxHdrLayout { ver := 0, fn := fn.toNat, tn := tn.toNat, rssi := rssi, toa256 := toa, soft := some b }
      ++ u' ++ pad 0 l = hdr 0 tn.toNat fn.toNat ++ [(-rssi).toNat] ++ s16be toa ++ u' ++ pad 0 l := by
    intro l
    simp only [rxHdrLayout, show ¬ ((0 : Nat) = 1) by omega, if_false, List.append_nil]
  rw [e true, e false,
    RxMsg.parse_v0_raw RxMsg.fresh fn.toNat tn.toNat rssi toa u' true (by omega) (by omega) (by omega) hto hul,
    RxMsg.parse_v0_raw RxMsg.fresh fn.toNat tn.toNat rssi toa u' false (by omega) (by omega) (by omega) hto hul]

/-- the modulation a version-0 message carries after the trip: GMSK for 148, 8-PSK for 444 soft bits -/
theorem carried_v0_mod (m : RxMsg) (h : RxValid m) (hv : m.ver = 0) :
    ∃ b, m.burst = some b ∧
      ((b.length = 148 ∧ (carried m).modType = Modulation.ofName? "ModGMSK") ∨
       (b.length = 444 ∧ (carried m).modType = Modulation.ofName? "Mod8PSK")) := by
  have hr := (RxMsg.validate_iff m).mp h
  have hb := hr.2.2.2.2.2.1 hv
  cases hbm : m.burst with
  | none => simp only [hbm, burstLen148or444] at hb
  | some b =>
    simp only [hbm, burstLen148or444] at hb
    refine ⟨b, rfl, ?_⟩
    rcases hb with hb | hb
    · exact Or.inl ⟨hb, by simp only [carried, hv, if_true, hbm, Option.bind_some, hb]; decide⟩
    · exact Or.inr ⟨hb, by simp only [carried, hv, if_true, hbm, Option.bind_some, hb]; decide⟩

/-! ### non-vacuity and the boundary of the soft-bit domain -/

/-- a valid version-1 32QAM message with soft bits at both ends of the range -/
example : RxValid ⟨1, some 2715647, some 7, some (-120), some (-32768), Modulation.ofName? "Mod32QAM", false,
    some 1, some 7, some 1280, some (List.replicate 370 (-127) ++ List.replicate 370 127)⟩ ∧
    SoftRange ⟨1, some 2715647, some 7, some (-120), some (-32768), Modulation.ofName? "Mod32QAM", false,
    some 1, some 7, some 1280, some (List.replicate 370 (-127) ++ List.replicate 370 127)⟩ := by
  decide +kernel

/-- a valid version-0 EDGE-length Tx message -/
example : TxValid ⟨0, some 0, some 0, some 255, some (List.replicate 444 1)⟩ := by decide +kernel

/-- a valid NOPE indication and what it carries -/
example : RxValid ⟨1, some 5, some 3, some (-47), some 32767, some Modulation.gmsk, true, some 9, some 9,
      some (-1280), none⟩ ∧
    carried ⟨1, some 5, some 3, some (-47), some 32767, some Modulation.gmsk, true, some 9, some 9,
      some (-1280), none⟩ =
      ⟨1, some 5, some 3, some (-47), some 32767, none, true, none, none, some (-1280), none⟩ := by
  decide +kernel

/-- -128 is outside the quantifier's domain for a reason: it is a legal `array('b')` element and the
message validates, but it comes back as -127 -/
example : RxValid ⟨0, some 1, some 2, some (-60), some 0, some Modulation.gmsk, false, none, none, none,
      some (List.replicate 148 (-128))⟩ ∧
    (((⟨0, some 1, some 2, some (-60), some 0, some Modulation.gmsk, false, none, none, none,
        some (List.replicate 148 (-128))⟩ : RxMsg).genMsg false >>= RxMsg.parseMsg) =
      .ok ⟨0, some 1, some 2, some (-60), some 0, some Modulation.gmsk, false, none, none, none,
        some (List.replicate 148 (-127))⟩) := by
  decide +kernel

end OsmoVerif.Props.C01
