/-
C06 — Serial link framing (sercomm/HDLC) delivers every message intact.
Property theorems only.  Model: `OsmoVerif.Model.Sercomm` (transmitter, receiver, both with the
wire between them), specification: `OsmoVerif.Spec.Sercomm` (wire format, abstract link),
lemmas: `OsmoVerif.Lemmas.Sercomm`.  Constants come from the regenerated `Gen.Sercomm`.

Two recorded findings delimit the `_partial` theorems; for each the full statement is kept as a
`def`, its negation is proved with the concrete witness, and the excluded region is an explicit
hypothesis:
  F10  the transmitter escapes the address octet, the receiver does not un-escape it:
       DLCI 0x00 / 0x7D / 0x7E do not arrive (`Transparent`);
  F17  after an over-long frame the receiver is one flag ahead; flag-free noise arriving in that
       state is parsed as a frame (`desync` in `opOk`).
-/
import OsmoVerif.Lemmas.Sercomm

namespace OsmoVerif.Props.C06
open OsmoVerif OsmoVerif.Sercomm OsmoVerif.Gen.Sercomm OsmoVerif.Spec.Sercomm

/-! ## the regenerated constants -/

/-- The constants of the current tree are the ones the property speaks about: HDLC flag / escape /
UI octets, the escape bit on both sides, the receive buffer of the host and of the target build
(as `sercomm_alloc_msgb` makes it), 129 queues and handlers, headroom for the two header octets,
and a zeroed `sercomm` struct is in state `RX_ST_WAIT_START`. -/
theorem constants :
    hdlcFlag = 0x7E ∧ hdlcEscape = 0x7D ∧ hdlcCUi = 0x03 ∧ txEscXor = 0x20 ∧ rxEscXor = 0x20 ∧
    rxMsgSizeHost + allocSlack = 2048 ∧ rxMsgSizeTarget + allocSlack = 256 ∧
    nTxQueues = 129 ∧ nRxHandlers = 129 ∧ dlciMax = 129 ∧ dlciEcho = 128 ∧ 2 ≤ allocHeadroom ∧
    St.code .waitStart = 0 ∧
    [St.code .waitStart, St.code .addr, St.code .ctrl, St.code .data, St.code .escape].Nodup := by
  decide

/-! ## wire format -/

/-- Exactly which octets the frame format escapes, and how. -/
theorem escaped_octets (c : Nat) :
    esc1 c = if c = 0x7E ∨ c = 0x7D ∨ c = 0x00 then [0x7D, c ^^^ 0x20] else [c] := by
  by_cases h : special c = true
  · simp [esc1, h, (special_iff c).1 h]
  · have h' : special c = false := by simpa using h
    have := (special_false_iff c).1 h'
    simp [esc1, h', this]

/-- Between the flags a frame never contains a flag or a zero octet (whatever the payload and DLCI). -/
theorem frame_inside_clean (xs : List Nat) : ∀ c ∈ esc xs, c ≠ 0x7E ∧ c ≠ 0x00 := esc_clean xs

/-- One message queued on a freshly initialised transmitter: `sercomm_sendmsg` accepts it and pulling
(at least as many times as the frame is long) yields exactly
`0x7E :: esc (dlci :: 0x03 :: payload) ++ [0x7E]`; then the transmitter is idle again, all queues empty. -/
theorem frame_wire_format (nq : Nat) (m : Msg) (hd : m.dlci < nq) (n : Nat) (hn : (frame m).length ≤ n) :
    sendmsg (Tx.init nq) m.dlci m.payload = some (txOne nq m) ∧
    ∃ t', pullN n (txOne nq m) = (t', 0x7E :: esc (m.dlci :: 0x03 :: m.payload) ++ [0x7E]) ∧
      t'.msg = none ∧ ∀ q ∈ t'.queues, q = [] :=
  ⟨sendmsg_init nq m hd, pull_one_frame nq m hd n hn⟩

/-- In every history the octets on the line are whole frames in wire format, one after the other,
plus the part of the frame in transmission (so the previous theorem holds for every interleaving
of `sendmsg` and `pull`; `end_to_end_partial` ties the model's octets to this stream). -/
theorem wire_is_frames (cap : Nat) (ops : List Op) :
    ∃ part, (specRun cap Link.init ops).wire =
        (specRun cap Link.init ops).completed.flatMap frame ++ part ∧
      match (specRun cap Link.init ops).cur with
      | none => part = []
      | some (m, todo) => part ++ todo = frame m ∧ todo ≠ [] :=
  wireInv_run cap Link.init ops wireInv_init

/-! ## one frame through the receiver -/

/-- A frame with a transparent DLCI and a payload shorter than the buffer, fed octet by octet into
a receiver that waits for a frame: the handler table is consulted once with (dlci, payload) —
`dispatch` calls the handler iff one is registered — and the receiver waits for the next frame. -/
theorem rx_frame_partial (c : RxCfg) (hc : 0 < c.cap) (r : Rx) (hs : r.state = .waitStart) (hl : r.len = 0)
    (m : Msg) (ht : Transparent m.dlci) (hp : m.payload.length < c.cap) :
    feed c r (frame m) =
      ({ msg := none, state := .waitStart, dlci := m.dlci, ctrl := 0x03, abort := r.abort },
       dispatch c m.dlci m.payload) := by
  obtain ⟨mb, st, d0, k0, a⟩ := r
  simp only at hs; subst hs
  have hb : bufOf mb = [] := by
    cases mb with
    | none => rfl
    | some b => simpa [Rx.len, bufOf] using hl
  exact frame_sync_fit c mb d0 k0 a m hc hb ht hp

/-- … with a handler registered: exactly one callback, identical DLCI and payload. -/
theorem rx_frame_delivers (c : RxCfg) (hc : 0 < c.cap) (r : Rx) (hs : r.state = .waitStart) (hl : r.len = 0)
    (m : Msg) (ht : Transparent m.dlci) (hp : m.payload.length < c.cap)
    (hnh : m.dlci < c.nh) (hreg : c.reg m.dlci = true) :
    (feed c r (frame m)).2 = [.deliver m.dlci m.payload] := by
  rw [rx_frame_partial c hc r hs hl m ht hp]
  have : ¬ (c.nh ≤ m.dlci) := by omega
  simp [dispatch, hreg, this]

/-- The statement of the property for one frame, any DLCI with a registered handler. -/
def rx_frame_full : Prop :=
  ∀ (c : RxCfg) (r : Rx) (m : Msg), 0 < c.cap → r.state = .waitStart → r.len = 0 →
    m.payload.length < c.cap → m.dlci < c.nh → c.reg m.dlci = true →
    (feed c r (frame m)).2 = [.deliver m.dlci m.payload]

/-- F10: it fails for DLCI 0x00 (host buffer size, every handler registered): the message sent
on DLCI 0 arrives on DLCI 0x7D with the control octet in front of the payload. -/
theorem rx_frame_full_fails : ¬ rx_frame_full := by
  intro h
  have := h ⟨rxMsgSizeHost + allocSlack, nRxHandlers, fun _ => true⟩ Rx.init ⟨0x00, [0x41]⟩
    (by decide) rfl rfl (by decide) (by decide) rfl
  revert this
  decide

/-- what the receiver does instead, for each of the three addresses -/
theorem nontransparent_dlci_arrives_on_0x7D :
    ∀ d ∈ [0x00, 0x7D, 0x7E],
      (feed ⟨rxMsgSizeHost + allocSlack, nRxHandlers, fun _ => true⟩ Rx.init (frame ⟨d, [0x41]⟩)).2
        = [.deliver 0x7D [0x03, 0x41]] := by
  decide

/-! ## memory safety of the receive buffer -/

/-- For every octet stream whatsoever (noise, truncated, over-long, malformed frames), starting
from the initial state: the number of stored octets never exceeds the capacity and `msgb_put` is
never reached without tailroom. -/
theorem rx_len_le_cap (c : RxCfg) (stream : List Nat) :
    (feed c Rx.init stream).1.len ≤ c.cap ∧ (feed c Rx.init stream).1.abort = false :=
  feed_inv c Rx.init stream (by simp [RxInv, Rx.init, Rx.len])

/-- … and it is an invariant of the single step, so it also holds after every prefix. -/
theorem rx_len_le_cap_step (c : RxCfg) (r : Rx) (ch : Nat) (h : r.len ≤ c.cap ∧ r.abort = false) :
    (rxChar c r ch).1.len ≤ c.cap ∧ (rxChar c r ch).1.abort = false :=
  rxChar_inv c r ch h

/-! ## over-long frames -/

/-- An over-long frame (payload ≥ capacity) is discarded; of the two valid frames that follow it
the second is always delivered, the first is lost exactly when the payload was longer than the
capacity; afterwards the receiver waits for a frame with an empty buffer.  (Memory safety during
all of this is `rx_len_le_cap`.) -/
theorem overlong_bounded (c : RxCfg) (hc : 0 < c.cap) (h7e : c.reg 0x7E = false)
    (r : Rx) (hs : r.state = .waitStart) (hl : r.len = 0)
    (o f1 f2 : Msg) (hto : Transparent o.dlci) (ht1 : Transparent f1.dlci) (ht2 : Transparent f2.dlci)
    (hro : c.reg o.dlci = true ∧ o.dlci < c.nh) (hr1 : c.reg f1.dlci = true ∧ f1.dlci < c.nh)
    (hr2 : c.reg f2.dlci = true ∧ f2.dlci < c.nh)
    (ho : o.payload.length ≥ c.cap) (h1 : f1.payload.length < c.cap) (h2 : f2.payload.length < c.cap) :
    let res := feed c r (frame o ++ frame f1 ++ frame f2)
    evDeliveries res.2 =
        (if o.payload.length = c.cap then [(f1.dlci, f1.payload), (f2.dlci, f2.payload)]
         else [(f2.dlci, f2.payload)]) ∧
      res.1.state = .waitStart ∧ res.1.len = 0 := by
  have hat : RxAt false r := by
    obtain ⟨mb, st, d0, k0, a⟩ := r
    refine ⟨?_, hs⟩
    cases mb with
    | none => rfl
    | some b => simpa [Rx.len, bufOf] using hl
  obtain ⟨a1, e1⟩ := frame_outcome c hc h7e r false hat o hto hro.1 hro.2
  obtain ⟨a2, e2⟩ := frame_outcome c hc h7e _ _ a1 f1 ht1 hr1.1 hr1.2
  obtain ⟨a3, e3⟩ := frame_outcome c hc h7e _ _ a2 f2 ht2 hr2.1 hr2.2
  have hno : ¬ o.payload.length < c.cap := by omega
  have hd3 : completeDesync c.cap (completeDesync c.cap (completeDesync c.cap false o) f1) f2 = false := by
    have n1 : ¬ c.cap ≤ f1.payload.length := by omega
    have n2 : ¬ c.cap ≤ f2.payload.length := by omega
    by_cases e : c.cap < o.payload.length <;> simp [completeDesync, hno, h1, h2, n1, e]
  simp only [feed_append, evDeliveries_append, e1, e2, e3]
  rw [hd3] at a3
  refine ⟨?_, a3.2, ?_⟩
  · by_cases e : o.payload.length = c.cap
    · have n0 : ¬ c.cap < o.payload.length := by omega
      simp [completeDelivers, completeDesync, h1, h2, e]
    · have n0 : c.cap < o.payload.length := by omega
      have n1 : ¬ c.cap ≤ f1.payload.length := by omega
      simp [completeDelivers, completeDesync, hno, h1, h2, e, n0, n1]
  · have := a3.1
    revert this
    generalize (feed c (feed c (feed c r (frame o)).1 (frame f1)).1 (frame f2)).1 = r3
    intro h3
    obtain ⟨mb, st, d0, k0, a⟩ := r3
    cases mb with
    | none => rfl
    | some b => simp [bufOf] at h3; simp [Rx.len, h3]

/-- In the abstract link (which `end_to_end_partial` shows the code to follow for over-long frames
anywhere in any history) a frame is lost only in these two ways: it does not fit the buffer, or
the frame completed just before it did not fit (`desync` is set by nothing else). -/
theorem loss_only_after_overlong (cap : Nat) (s : Link) (m : Msg) :
    ((Link.complete cap s m).desync = true → m.payload.length ≥ cap) ∧
    (s.desync = false → m.payload.length < cap →
      (Link.complete cap s m).delivered = s.delivered ++ [m] ∧ (Link.complete cap s m).desync = false) := by
  rw [complete_eq]
  constructor
  · simp only [completeDesync]
    cases s.desync <;> simp <;> omega
  · intro hd hl
    simp [completeDesync, completeDelivers, hd, hl]

/-! ## end to end -/

/-- **End to end** (partial: F10, F17).  For every history of `sendmsg` on usable DLCIs (handler
registered, transparent), pulls whose octets reach the receiver, and flag-free foreign octets
between frames while the receiver is aligned — any interleaving, any payload octets, any payload
length including over-long ones anywhere —, starting from the initial state:
* no fault (queue index, `msgb_put` without tailroom), never more than `cap` octets stored;
* the callbacks made, in order, are exactly the messages the abstract link delivers (identical
  DLCI and payload, each once; lowest DLCI first at each frame start, FIFO within a DLCI:
  `Spec.pick`; the only losses are those of `loss_only_after_overlong`);
* the octets pulled are exactly the abstract link's frame stream (`wire_is_frames`). -/
theorem end_to_end_partial (c : Cfg) (nq : Nat) (ops : List Op) (hc : CfgOk c)
    (hops : opsOk c nq Link.init ops) :
    let w := World.run c (World.init nq) ops
    let s := specRun c.cap Link.init ops
    w.fault = false ∧ w.rx.abort = false ∧ w.rx.len ≤ c.cap ∧
    deliveries w.obs = s.delivered.map (fun m => (m.dlci, m.payload)) ∧
    pulledOctets w.obs = s.wire := by
  have h := sim_run c nq (World.init nq) Link.init ops hc (sim_init c nq) hops
  exact ⟨h.nofault, h.rxinv.2, h.rxinv.1, h.deliv, h.wire⟩

/-- What the abstract link guarantees when no message is over-long: at every moment and for every
DLCI, delivered ++ on the line ++ waiting is exactly what was sent on that DLCI, in the order sent
(nothing lost, nothing duplicated, FIFO per DLCI), and the receiver stays aligned. -/
theorem link_fifo_exactly_once (cap : Nat) (ops : List Op) (hs : allShort cap ops) :
    let s := specRun cap Link.init ops
    s.desync = false ∧ ∀ d, ofDlci d (s.delivered ++ s.inflight ++ s.pending) = ofDlci d (sentMsgs ops) := by
  have h := linkInv_run cap Link.init [] ops ⟨rfl, by simp [Link.init, Link.inflight], fun d => rfl⟩ hs
  exact ⟨h.aligned, by simpa [Link.all] using h.fifo⟩

/-- Priority: the frame that starts is the oldest message of the lowest DLCI that has one waiting;
the other waiting messages keep their order. -/
theorem link_priority (pending : List Msg) (m : Msg) (rest : List Msg) (h : pick pending = some (m, rest)) :
    (∀ x ∈ pending, m.dlci ≤ x.dlci) ∧ m ∈ pending ∧
    ofDlci m.dlci pending = m :: ofDlci m.dlci rest ∧
    (∀ d, d ≠ m.dlci → ofDlci d rest = ofDlci d pending) :=
  let ⟨a, b, c, d, _⟩ := pick_spec pending m rest h
  ⟨a, b, c, d⟩

/-- Progress: after any history, pulling as many octets as are still due empties the link — every
message queued has then gone over the line. -/
theorem link_drains (cap : Nat) (ops : List Op) (n : Nat)
    (hn : (specRun cap Link.init ops).remaining ≤ n) :
    let s := specRun cap Link.init (ops ++ List.replicate n Op.loop)
    s.cur = none ∧ s.pending = [] := by
  have hc : (specRun cap Link.init ops).curOk :=
    specRun_curOk cap Link.init ops (by intro m todo h; simp [Link.init] at h)
  have := drain cap (specRun cap Link.init ops) hc n hn
  simpa [specRun, List.foldl_append] using this

/-- Together: a history without over-long messages, then enough pulls: the callbacks of the model
are, per DLCI, exactly the messages sent on that DLCI, in order, each once. -/
theorem end_to_end_drained (c : Cfg) (nq : Nat) (ops : List Op) (n : Nat) (hc : CfgOk c)
    (hops : opsOk c nq Link.init (ops ++ List.replicate n Op.loop)) (hs : allShort c.cap ops)
    (hn : (specRun c.cap Link.init ops).remaining ≤ n) :
    let w := World.run c (World.init nq) (ops ++ List.replicate n Op.loop)
    ∀ d, (deliveries w.obs).filter (fun x => x.1 == d) =
      ((sentMsgs ops).filter (fun m => m.dlci == d)).map (fun m => (m.dlci, m.payload)) := by
  intro w d
  have he := (end_to_end_partial c nq _ hc hops).2.2.2.1
  have hs' : allShort c.cap (ops ++ List.replicate n Op.loop) := by
    clear hops hn he w
    induction ops with
    | nil => induction n with
      | zero => trivial
      | succ n ih => simpa [List.replicate_succ, allShort] using ih
    | cons op ops ih =>
      cases op with
      | send d p => exact ⟨hs.1, ih hs.2⟩
      | pull => exact ih hs
      | loop => exact ih hs
      | rx ns => exact ih hs
  have hf := (link_fifo_exactly_once c.cap _ hs').2 d
  obtain ⟨hcur, hpend⟩ := link_drains c.cap ops n hn
  have hsent : sentMsgs (ops ++ List.replicate n Op.loop) = sentMsgs ops := by
    clear hops hn he hs hs' hf hcur hpend w
    induction ops with
    | nil => induction n with
      | zero => rfl
      | succ n ih => simpa [List.replicate_succ, sentMsgs] using ih
    | cons op ops ih => cases op <;> simp [sentMsgs, ih]
  simp only [Link.inflight, hcur, hpend, List.append_nil, hsent] at hf
  show List.filter _ (deliveries w.obs) = _
  rw [he]
  simp only [ofDlci] at hf
  rw [← hf, List.filter_map]
  rfl

/-! ### the full statements and the two findings -/

/-- admissible operations without the two exclusions -/
def opOkFull (c : Cfg) (nq : Nat) (s : Link) : Op → Prop
  | .send d _ => d < nq ∧ d < c.nh ∧ c.reg d = true ∧ c.echo d = false
  | .pull => False
  | .loop => True
  | .rx ns => s.cur = none ∧ ∀ x ∈ ns, x ≠ 0x7E

def opsOkFull (c : Cfg) (nq : Nat) : Link → List Op → Prop
  | _, [] => True
  | s, op :: ops => opOkFull c nq s op ∧ opsOkFull c nq (specStep c.cap s op) ops

/-- The property as stated: any DLCI with a registered handler, flag-free noise between any two frames. -/
def end_to_end_full : Prop :=
  ∀ (c : Cfg) (nq : Nat) (ops : List Op), 0 < c.cap → opsOkFull c nq Link.init ops →
    deliveries (World.run c (World.init nq) ops).obs =
      (specRun c.cap Link.init ops).delivered.map (fun m => (m.dlci, m.payload))

/-- every `send` of the history is on a transparent DLCI -/
def sendsTransparent : List Op → Prop
  | [] => True
  | .send d _ :: ops => Transparent d ∧ sendsTransparent ops
  | _ :: ops => sendsTransparent ops

/-- … with only the alignment condition on noise dropped (DLCIs transparent as in the partial theorem) -/
def end_to_end_any_noise : Prop :=
  ∀ (c : Cfg) (nq : Nat) (ops : List Op), CfgOk c → opsOkFull c nq Link.init ops →
    sendsTransparent ops →
    deliveries (World.run c (World.init nq) ops).obs =
      (specRun c.cap Link.init ops).delivered.map (fun m => (m.dlci, m.payload))

/-- in-tree configuration: target buffer, user handlers on the DLCIs the code base registers -/
def cfgTarget : Cfg :=
  { cap := rxMsgSizeTarget + allocSlack, nh := nRxHandlers,
    reg := fun d => d == 4 || d == 5 || d == 9 || d == 10 || d == 128,
    echo := fun d => d == 128 }

/-- F10 witness as a history: DLCI 0 with a handler, one message, pulled completely. -/
def witnessF10 : List Op := [.send 0 [0x41]] ++ List.replicate 6 .loop

/-- F17 witness as a history (target buffer, 256): an over-long message (257 octets) on DLCI 4,
pulled completely; flag-free noise `05 03 61`; then three valid messages, pulled completely. -/
def witnessF17 : List Op :=
  [.send 4 (List.replicate 257 0x41)] ++ List.replicate 261 .loop ++ [.rx [0x05, 0x03, 0x61]] ++
  [.send 4 [0x01], .send 4 [0x02], .send 4 [0x03]] ++ List.replicate 15 .loop

instance (c : Cfg) (nq : Nat) (s : Link) (op : Op) : Decidable (opOkFull c nq s op) := by
  cases op <;> simp only [opOkFull] <;> infer_instance

instance decOpsOkFull (c : Cfg) (nq : Nat) : ∀ (s : Link) (ops : List Op), Decidable (opsOkFull c nq s ops)
  | _, [] => isTrue trivial
  | s, op :: ops => by
    simp only [opsOkFull]
    exact @instDecidableAnd _ _ _ (decOpsOkFull c nq _ ops)

instance decSendsTransparent : ∀ ops : List Op, Decidable (sendsTransparent ops)
  | [] => isTrue trivial
  | .send d _ :: ops => by
    simp only [sendsTransparent]; exact @instDecidableAnd _ _ _ (decSendsTransparent ops)
  | .pull :: ops => by simp only [sendsTransparent]; exact decSendsTransparent ops
  | .loop :: ops => by simp only [sendsTransparent]; exact decSendsTransparent ops
  | .rx _ :: ops => by simp only [sendsTransparent]; exact decSendsTransparent ops

instance decAllShort (cap : Nat) : ∀ ops : List Op, Decidable (allShort cap ops)
  | [] => isTrue trivial
  | .send _ p :: ops => by
    simp only [allShort]; exact @instDecidableAnd _ _ _ (decAllShort cap ops)
  | .pull :: ops => by simp only [allShort]; exact decAllShort cap ops
  | .loop :: ops => by simp only [allShort]; exact decAllShort cap ops
  | .rx _ :: ops => by simp only [allShort]; exact decAllShort cap ops

/-- host buffer, a user handler on DLCI 0 only -/
def cfgF10 : Cfg :=
  { cap := rxMsgSizeHost + allocSlack, nh := nRxHandlers, reg := fun d => d == 0, echo := fun _ => false }

/-- F10: the full statement fails -/
theorem end_to_end_full_fails : ¬ end_to_end_full := by
  intro h
  have := h cfgF10 nTxQueues witnessF10 (by decide) (by decide +kernel)
  revert this
  decide +kernel

theorem end_to_end_any_noise_fails : ¬ end_to_end_any_noise := by
  intro h
  have := h cfgTarget nTxQueues witnessF17 ⟨by decide, by decide⟩ (by decide +kernel) (by
    decide +kernel)
  revert this
  decide +kernel

/-! ### non-vacuity -/

instance (c : Cfg) (nq : Nat) (s : Link) (op : Op) : Decidable (opOk c nq s op) := by
  cases op <;> simp only [opOk] <;> infer_instance

instance decOpsOk (c : Cfg) (nq : Nat) : ∀ (s : Link) (ops : List Op), Decidable (opsOk c nq s ops)
  | _, [] => isTrue trivial
  | s, op :: ops => by
    simp only [opsOk]
    exact @instDecidableAnd _ _ _ (decOpsOk c nq _ ops)

/-- a history the partial theorem covers: interleaved sends on DLCI 5, 4 and 10 with payloads full of
flag / escape / zero octets, pulls in between, noise between frames, an over-long message -/
def sampleHistory : List Op :=
  [.send 5 [0x7E, 0x7D, 0x00, 0x41], .loop, .loop, .send 4 [0x00], .send 10 [], .send 4 [0x7D, 0x5E]] ++
  List.replicate 9 .loop ++ [.rx [0x00, 0x7D, 0x55]] ++ List.replicate 40 .loop ++
  [.send 4 (List.replicate 300 0x7E), .send 5 [1], .send 9 [2]] ++ List.replicate 620 .loop

/-- in-tree configuration with the host buffer -/
def cfgHost : Cfg := { cfgTarget with cap := rxMsgSizeHost + allocSlack }

example : CfgOk cfgTarget := ⟨by decide, by decide⟩
example : CfgOk cfgHost := ⟨by decide, by decide⟩
example : frame ⟨5, [0x7E, 0x00, 0x7D, 0x41]⟩ =
    [0x7E, 0x05, 0x03, 0x7D, 0x5E, 0x7D, 0x20, 0x7D, 0x5D, 0x41, 0x7E] := by decide
/-- the hypotheses of `rx_frame_delivers` / `overlong_bounded` at the target size -/
example : 0 < cfgTarget.cap ∧ cfgTarget.reg 0x7E = false ∧ Rx.init.state = .waitStart ∧ Rx.init.len = 0 ∧
    Transparent 4 ∧ cfgTarget.reg 4 = true ∧ 4 < cfgTarget.nh ∧
    (List.replicate 300 0x00).length ≥ cfgTarget.cap ∧ [0x7E, 0x00].length < cfgTarget.cap := by decide +kernel
example : opsOk cfgTarget nTxQueues Link.init sampleHistory := by decide +kernel
/-- … and what `end_to_end_partial` then says is delivered: DLCI 5 first (already on the line), then
the two DLCI 4 messages in order before DLCI 10; the over-long message and the one after it are lost -/
example : deliveries (World.run cfgTarget (World.init nTxQueues) sampleHistory).obs =
    [(5, [0x7E, 0x7D, 0x00, 0x41]), (4, [0x00]), (4, [0x7D, 0x5E]), (10, []), (9, [2])] := by decide +kernel
example : Transparent 4 ∧ Transparent 5 ∧ Transparent 9 ∧ Transparent 10 ∧ Transparent 128 := by decide
example : allShort 256 (sampleHistory.take 56) := by decide +kernel


end OsmoVerif.Props.C06
