import OsmoVerif.Model.Sercomm
namespace OsmoVerif.Props.C06
end OsmoVerif.Props.C06
