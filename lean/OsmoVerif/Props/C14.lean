/-
C14 (toolkit half) — no datagram can crash the tools: whatever octets arrive on a control or
data socket, processing returns normally, malformed input has no effect, and the clock tick
cannot raise in any reachable world.  Property theorems only.
(The codec's `parse_only_valueerror` and the trxcon half are proved in their own modules.)
-/
import OsmoVerif.Lemmas.WorldSane
import OsmoVerif.Lemmas.WorldExamples

namespace OsmoVerif.Props.C14
open OsmoVerif OsmoVerif.World OsmoVerif.PyStr

/-- ANY datagram on the control socket of an existing transceiver: `handle_rx` returns normally
and sends at most one reply. -/
theorem handle_rx_never_raises (w : World) (i a p : Nat) (d : List Nat) (hi : i < w.trxs.length) :
    (handleRx w i a p d).exc = none ∧ (handleRx w i a p d).out.length ≤ 1 :=
  handleRx_total hi a p d

/-- Non-text octets, a wrong signature, or arguments `int()` rejects: the world is unchanged. -/
theorem malformed_ctrl_no_effect (w : World) (i a p : Nat) (d : List Nat) (hi : i < w.trxs.length)
    (h : decodeUtf8 (d.take Gen.World.ctrlRecvSize) = none ∨
         ∃ s, decodeUtf8 (d.take Gen.World.ctrlRecvSize) = some s ∧
           (startsWith s (lit "CMD") = false ∨
            parseCmd w i (splitSpace (stripNul (strip (s.drop 4)))) = .error .valueError)) :
    (handleRx w i a p d).world = w := by
  obtain ⟨t, ht⟩ := getElem?_of_lt hi
  rcases h with hd | ⟨s, hd, hp | hv⟩
  · rw [handleRx_undecodable a p ht hd]
  · rw [handleRx_noprefix a p ht hd hp]
  · cases hp : startsWith s (lit "CMD") with
    | false => rw [handleRx_noprefix a p ht hd hp]
    | true =>
      obtain ⟨rc, params, w', h, hpc⟩ := handleRx_reply a p ht hd hp
      rw [h]
      rcases hpc with hok | ⟨_, _, _, rfl⟩
      · rw [show request s = splitSpace (stripNul (strip (s.drop 4))) from rfl, hv] at hok; cases hok
      · rfl

/-- … so the rest of any history runs exactly as if the malformed datagram had never arrived:
a later valid command (or burst, or tick) behaves as from the same state. -/
theorem malformed_ctrl_then_run (w : World) (i sp : Nat) (d : List Nat) (ops : List Op)
    (hi : i < w.trxs.length)
    (h : decodeUtf8 (d.take Gen.World.ctrlRecvSize) = none ∨
         ∃ s, decodeUtf8 (d.take Gen.World.ctrlRecvSize) = some s ∧
           (startsWith s (lit "CMD") = false ∨
            parseCmd w i (splitSpace (stripNul (strip (s.drop 4)))) = .error .valueError)) :
    (run w (.ctrl i sp d :: ops)).1 = (run w ops).1 ∧
      (run w (.ctrl i sp d :: ops)).2.tail = (run w ops).2 ∧
      ((run w (.ctrl i sp d :: ops)).2.head?.map (·.exc)) = some none := by
  obtain ⟨t, ht⟩ := getElem?_of_lt hi
  have hw : (step w (.ctrl i sp d)).world = w := by
    simp only [step, ht]; exact malformed_ctrl_no_effect w i t.addr sp d hi h
  have he : (step w (.ctrl i sp d)).exc = none := by
    simp only [step, ht]; exact (handleRx_total hi t.addr sp d).1
  simp only [run, hw, List.tail_cons, List.head?_cons, Option.map_some, he, and_self]

/-- ANY datagram on the data socket of an existing transceiver: `recv_data_msg` returns normally
and sends nothing; a message that does not parse, carries another header version than the
negotiated one, or arrives while the transceiver is powered off, changes nothing. -/
theorem recv_data_never_raises (w : World) (i : Nat) (d : List Nat) (t : Trx)
    (ht : w.trxs[i]? = some t) :
    (recvDataMsg w i d).exc = none ∧ (recvDataMsg w i d).out = [] ∧
    (((∃ e, Trxd.TxMsg.parseMsg (d.take Gen.World.dataRecvSize) = .error e) ∨
      (∃ m, Trxd.TxMsg.parseMsg (d.take Gen.World.dataRecvSize) = .ok m ∧ m.ver ≠ t.hdrVer) ∨
      t.running = false) → (recvDataMsg w i d).world = w) := by
  have hi : i < w.trxs.length := by
    rcases Nat.lt_or_ge i w.trxs.length with h | h
    · exact h
    · rw [List.getElem?_eq_none h] at ht; cases ht
  obtain ⟨h1, h2, _⟩ := recvDataMsg_total hi d
  exact ⟨h1, h2, recvDataMsg_dropped d ht⟩

/-- a well-formed message of the negotiated version for a running transceiver is queued (the only
effect `recv_data_msg` can have) -/
theorem recv_data_queues (w : World) (i : Nat) (d : List Nat) (t : Trx) (m : Trxd.TxMsg)
    (ht : w.trxs[i]? = some t)
    (hm : Trxd.TxMsg.parseMsg (d.take Gen.World.dataRecvSize) = .ok m)
    (hv : m.ver = t.hdrVer) (hr : t.running = true) :
    (recvDataMsg w i d).world = setTrx w i (fun t => { t with txQueue := t.txQueue ++ [m] }) :=
  recvDataMsg_queued d ht hm hv hr

/-! ### the clock tick (clck_tick → forward_msg → handle_data_msg → send_msg)

`Sane` (Lemmas/WorldSane.lean) is the invariant of reachable worlds: every configured hopping
object came out of `HoppingParams.__init__` (so `resolve` is total), `burst_drop_period ≥ 1`,
`burst_drop_amount ≥ 0`, the ToA/C-I thresholds and (while enabled) the RSSI threshold are ≥ 0,
`clck_src` exists while the generator runs, queued messages are as `parse_msg` leaves them
(fn/tn/pwr set, burst byte-valued). -/

/-- the start-up world of `Application.__init__` (any `--trx` list it accepts) is sane -/
theorem sane_build (seed : Nat) (extra : List (Nat × Nat × Nat)) (w : World)
    (h : build seed extra = .ok w) : Sane w :=
  build_sane h

/-- every operation — any control datagram, any data datagram (an octet string), tick, clock
jump — keeps the invariant.  This is what breaks if a negative FAKE_TOA/FAKE_CI threshold, a
non-positive FAKE_DROP period or an HSN outside 0..63 is accepted again. -/
theorem sane_step (w : World) (op : Op) (ho : op.Octets) (h : Sane w) : Sane (step w op).world :=
  step_sane op ho h

/-- in a sane world the clock tick cannot raise: no ZeroDivisionError (drop period), no
ValueError from `randint` (thresholds), no IndexError/ZeroDivisionError from the hopping
generator, no TypeError/struct.error/AttributeError from message translation and encoding. -/
theorem tick_never_raises (w : World) (h : Sane w) : (tick w).exc = none :=
  (tick_ok h).1

/-- whole histories from a sane world: no operation raises (control and data operations
addressed to existing transceivers, data datagrams being octet strings), the final world is sane -/
theorem run_never_raises (w : World) (ops : List Op) (h : Sane w)
    (hops : ∀ op ∈ ops, op.Octets ∧ op.InRange w.trxs.length) :
    Sane (run w ops).1 ∧ ∀ r ∈ (run w ops).2, r.exc = none :=
  run_ok ops w h hops

/-- … in particular every history of the start-up world -/
theorem built_run_never_raises (seed : Nat) (extra : List (Nat × Nat × Nat)) (w : World)
    (ops : List Op) (hb : build seed extra = .ok w)
    (hops : ∀ op ∈ ops, op.Octets ∧ op.InRange w.trxs.length) :
    ∀ r ∈ (run w ops).2, r.exc = none :=
  (run_ok ops w (build_sane hb) hops).2

/-! ### non-vacuity -/

/-- the default application starts up and is sane -/
example : ∃ w, build 0 [] = .ok w ∧ Sane w ∧ w.trxs.length = 2 :=
  ⟨_, rfl, sane_build 0 [] _ rfl, rfl⟩

/-- an application with two child transceivers on the BTS side -/
example : ∃ w, build 7 [(addrBts, btsPort, 1), (addrBts, btsPort, 2)] = .ok w ∧ Sane w ∧
    w.trxs.length = 4 :=
  ⟨_, rfl, sane_build 7 [(addrBts, btsPort, 1), (addrBts, btsPort, 2)] _ rfl, rfl⟩

/-- hostile control datagrams: ignored or answered −1, never an exception, nothing changes -/
example : Ex.excs Ex.w0 [[0xff, 0xfe], [0xc0, 0x80], Ex.z "CMD RXTUNE 1e3", Ex.z "CMD SETFH a b c d",
      Ex.z "CMD FAKE_TOA 1 x", Ex.z "CMD MEASURE ٣", lit "CMD POWERON" ++ [0, 0, 0]] =
    [none, none, none, none, none, none, none] := by decide +kernel

/-- hostile data datagrams: short, unknown version, wrong version for the negotiated header -/
example : (recvDataMsg Ex.w0 1 []).exc = none ∧ (recvDataMsg Ex.w0 1 [0x20, 0, 0, 0, 0, 0]).exc = none ∧
    (recvDataMsg (Ex.live id) 1 (Ex.burst 0x10 5)).world.trxs.map (·.txQueue.length) = [0, 1] ∧
    (recvDataMsg (Ex.live id) 1 (Ex.burst 0 5)).world.trxs.map (·.txQueue.length) = [0, 2] := by
  decide +kernel

/-- a live world (both sides tuned to each other and running, one burst due): the tick forwards
the burst and sends the clock indications — no exception -/
example : (tick (Ex.live id)).exc = none ∧ (tick (Ex.live id)).out.length = 3 := by decide +kernel

/-- … and each clause of the invariant is needed: with a negative ToA threshold `randint` raises
ValueError, with a zero drop period the tick raises ZeroDivisionError, with a hopping object that
`__init__` would have refused (HSN 127) the generator raises IndexError — the states the repaired
FAKE_TOA / FAKE_DROP / SETFH handlers keep out. -/
example : (tick (Ex.live (fun t => { t with toaThr := -1 }))).exc = some .valueError ∧
    (tick (Ex.live (fun t => { t with ciThr := -1, hdrVer := 1 }))).exc = some .valueError ∧
    (tick (Ex.live (fun t => { t with dropAmount := 1, dropPeriod := 0 }))).exc =
      some .zeroDivisionError ∧
    (tick (Ex.live id (fun t => { t with fh := some ⟨127, 0, [(1, 2)], 1⟩ }))).exc =
      some .indexError := by decide +kernel

/-- the commands that would create such states are refused and leave the world sane -/
example : Ex.replies Ex.w0 [Ex.z "CMD FAKE_TOA 0 -1", Ex.z "CMD FAKE_CI 0 -1", Ex.z "CMD FAKE_DROP 1 0",
      Ex.z "CMD SETFH 127 0 1 2"] =
    [[Ex.z "RSP FAKE_TOA -1 0 -1"], [Ex.z "RSP FAKE_CI -1 0 -1"], [Ex.z "RSP FAKE_DROP -1 1 0"],
     [Ex.z "RSP SETFH -1 127 0 1 2"]] := by decide +kernel

end OsmoVerif.Props.C14
