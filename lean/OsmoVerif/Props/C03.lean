/-
C03 — Every queued burst is transmitted exactly once, in its own frame.
Property theorems only.  Model: `OsmoVerif.Model.World` (transceiver.py recv_data_msg / clck_tick /
power_event_handler, fake_trx.py clck_handler, ctrl_if*.py), interleaving semantics:
`OsmoVerif.Model.WorldSched`; spec: `OsmoVerif.Spec.TxQueue`; lemmas: `OsmoVerif.Lemmas.WorldFrame`,
`OsmoVerif.Lemmas.WorldQueue`, `OsmoVerif.Lemmas.WorldSched`.

Part A (sequential histories).  `ghost w0 ops j` is the ghost bookkeeping of transceiver `j`
after the history `ops` from `w0`: `ids` (ids of the queued messages, parallel to `txQueue`; an id
is the position of the accepting datagram in `ops`) and `log` (events accepted / emitted / stale /
cleared).  All theorems quantify over EVERY history `ops : List Op` — data datagrams with any octets
to any transceiver, TRXC datagrams with any octets (so any POWERON / POWEROFF / SETFORMAT / …
sequence), ticks, clock jumps — from any world `w0` in which the observed queue is empty
(`World.build` produces such worlds).
-/
import OsmoVerif.Lemmas.WorldQueue
import OsmoVerif.Lemmas.WorldSched

namespace OsmoVerif.Props.C03
open OsmoVerif OsmoVerif.World OsmoVerif.Spec.TxQueue OsmoVerif.PyStr

/-! ## Part A — sequential histories -/

/-- Lock-step invariant of the bookkeeping: after every history the id list is as long as the
model's queue and the k-th queued message is the one that was accepted under the k-th id. -/
theorem lock_step (w0 : World) (ops : List Op) (j : Nat) (h0 : queueOf w0 j = []) :
    (ghost w0 ops j).ids.length = (queueOf (run w0 ops).1 j).length ∧
    ∀ p ∈ (ghost w0 ops j).ids.zip (queueOf (run w0 ops).1 j),
      Event.accepted p.1 p.2 ∈ (ghost w0 ops j).log := by
  have h := ghost_inv w0 ops j h0
  exact ⟨h.lock, fun p hp => h.tagged p (List.mem_append_left _ hp)⟩

/-- The property as the spec states it: after every history the log and the queued ids satisfy
`Spec.TxQueue.ExactlyOnce` (ids distinct; outcomes ++ queued is a permutation of accepted; emitted
only in the own frame; stale only when the frame had passed). -/
theorem exactly_once (w0 : World) (ops : List Op) (j : Nat) (h0 : queueOf w0 j = []) :
    ExactlyOnce (fun m : Trxd.TxMsg => m.fn) (ghost w0 ops j).log (ghost w0 ops j).ids := by
  have h := (ghost_inv w0 ops j h0).spec
  simpa only [List.map_nil, List.append_nil] using h

/-- `accept_iff`: the data datagram `d` sent to `j` after the history `ops` is accepted — logged as
`accepted (position) msg` and appended to `j`'s queue — iff its first `dataRecvSize` (512) octets
parse as `msg` (`TxMsg.parse_msg`), `msg.ver` is the configured header version of `j`, and `j` is
running (`Accepts`); if there is no such `msg` nothing changes at all. -/
theorem accept_iff (w0 : World) (ops : List Op) (j : Nat) (h0 : queueOf w0 j = []) (d : List Nat)
    (msg : Trxd.TxMsg) :
    (Event.accepted ops.length msg ∈ (ghost w0 (ops ++ [Op.data j d]) j).log ↔
      Accepts (run w0 ops).1 j d msg) ∧
    (Accepts (run w0 ops).1 j d msg →
      queueOf (run w0 (ops ++ [Op.data j d])).1 j = queueOf (run w0 ops).1 j ++ [msg] ∧
      (ghost w0 (ops ++ [Op.data j d]) j).ids = (ghost w0 ops j).ids ++ [ops.length]) ∧
    ((¬ ∃ m, Accepts (run w0 ops).1 j d m) →
      (run w0 (ops ++ [Op.data j d])).1 = (run w0 ops).1 ∧
      ghost w0 (ops ++ [Op.data j d]) j = ghost w0 ops j) := by
  have hinv := ghost_inv w0 ops j h0
  have hacc : Accepts (run w0 ops).1 j d msg →
      queueOf (run w0 (ops ++ [Op.data j d])).1 j = queueOf (run w0 ops).1 j ++ [msg] ∧
      ghost w0 (ops ++ [Op.data j d]) j =
        ⟨(ghost w0 ops j).ids ++ [ops.length], (ghost w0 ops j).log ++ [Event.accepted ops.length msg]⟩ := by
    intro ha
    rcases (recvDataMsg_queue (run w0 ops).1 j d j).2 with ⟨-, hn⟩ | ⟨-, m, hm, hq⟩
    · exact absurd ⟨rfl, msg, ha⟩ hn
    · cases ha.unique hm
      refine ⟨by rw [run_snoc]; exact hq, ?_⟩
      rw [ghost_snoc]
      simp only [ghostStep, step, hq, List.drop_left]
  refine ⟨⟨?_, fun ha => ?_⟩, fun ha => ?_, fun hn => ?_⟩
  · intro hm
    rw [ghost_snoc] at hm
    rcases ghostStep_mem hm with h | ⟨d', m, hop, ha, he⟩ | ⟨fn, p, hop, -⟩ | ⟨i, sp, d', id, hop, -⟩
    · exact absurd (hinv.fresh _ (mem_accIds.mpr ⟨_, h⟩)) (Nat.lt_irrefl _)
    · cases hop; cases he; exact ha
    · cases hop
    · cases hop
  · rw [(hacc ha).2]; simp
  · exact ⟨(hacc ha).1, by rw [(hacc ha).2]⟩
  · have hw := (recvDataMsg_reject hn).1
    refine ⟨by rw [run_snoc]; exact hw, ?_⟩
    rw [ghost_snoc]
    simp only [ghostStep, step, hw, List.drop_length]

/-- idle transceivers never accept: a datagram to a transceiver that is not running changes nothing -/
theorem idle_never_accepts (w : World) (j : Nat) (d : List Nat) (h : runningOf w j = false) :
    (step w (Op.data j d)).world = w := by
  apply (recvDataMsg_reject _).1
  rintro ⟨m, trx, ht, -, -, hr⟩
  simp [runningOf, ht, hr] at h

/-- `outcome_unique`: every id has at most one outcome event (emitted, stale or cleared), over the
whole history — in particular nothing is emitted twice, and nothing is both emitted and reported
stale or cleared. -/
theorem outcome_unique (w0 : World) (ops : List Op) (j : Nat) (h0 : queueOf w0 j = []) :
    (outIds (ghost w0 ops j).log).Nodup ∧
    ∀ id, (outIds (ghost w0 ops j).log).count id ≤ 1 := by
  have h := (exactly_once w0 ops j h0).outcome_unique
  exact ⟨h, fun id => List.nodup_iff_count.mp h id⟩

/-- `no_silent_loss`: after any history every accepted id either has an outcome or is still in the
queue (exactly once), never both; and only accepted ids have outcomes or are queued. -/
theorem no_silent_loss (w0 : World) (ops : List Op) (j : Nat) (h0 : queueOf w0 j = []) :
    (∀ id, id ∈ accIds (ghost w0 ops j).log ↔
      (id ∈ outIds (ghost w0 ops j).log ∨ id ∈ (ghost w0 ops j).ids)) ∧
    (∀ id ∈ (ghost w0 ops j).ids, id ∉ outIds (ghost w0 ops j).log) ∧
    (ghost w0 ops j).ids.Nodup ∧
    (∀ id, (ghost w0 ops j).ids.count id ≤ 1) := by
  have h := exactly_once w0 ops j h0
  exact ⟨h.accounted_iff, fun id hid => h.queued_no_outcome hid, h.queued_nodup,
    fun id => List.nodup_iff_count.mp h.queued_nodup id⟩

/-- `emitted_on_time`: a burst is handed to the forwarder only during the tick whose frame number is
the burst's own — never earlier or later (and, with `outcome_unique`, never twice). -/
theorem emitted_on_time (w0 : World) (ops : List Op) (j : Nat) (h0 : queueOf w0 j = []) (id tickFn : Nat)
    (h : Event.emitted id tickFn ∈ (ghost w0 ops j).log) :
    ∃ msg, Event.accepted id msg ∈ (ghost w0 ops j).log ∧ msg.fn = some (tickFn : Int) :=
  (exactly_once w0 ops j h0).on_time id tickFn h

/-- `emitted_while_running`: every `emitted` event was produced by a tick operation of the history,
at a moment when the clock generator ran with `clck_src = tickFn`, transceiver `j` was powered on,
and the burst was in `j`'s queue. -/
theorem emitted_while_running (w0 : World) (ops : List Op) (j : Nat) (id tickFn : Nat)
    (h : Event.emitted id tickFn ∈ (ghost w0 ops j).log) :
    ∃ pre post, ops = pre ++ Op.tick :: post ∧
      (run w0 pre).1.clkRunning = true ∧ (run w0 pre).1.clkSrc = some tickFn ∧
      runningOf (run w0 pre).1 j = true ∧ id ∈ (ghost w0 pre j).ids := by
  obtain ⟨pre, op, post, rfl, hn, hm⟩ := ghost_mem_origin w0 j ops h
  rw [ghost_snoc] at hm
  rcases ghostStep_mem hm with h | ⟨d', m, -, -, he⟩ | ⟨fn, p, hop, hr, hs, hrun, hp, hc | hc⟩ |
      ⟨i, sp, d', id', -, -, he, -⟩
  · exact absurd h hn
  · cases he
  · subst hop
    cases hc.2
    exact ⟨pre, post, rfl, hr, hs, hrun, (List.of_mem_zip hp).1⟩
  · cases hc.2
  · cases he

/-- `stale_iff_passed`: at a tick that completes with clock `fn`, a message (frame number `m`)
queued at the running transceiver `j` is
  * handed to the forwarder iff `m = fn`,
  * reported stale iff `m ≠ fn ∧ (fn − m) mod 2715648 < 1357824` (its frame has passed),
  * left in the queue iff `m ≠ fn ∧ (fn − m) mod 2715648 ≥ 1357824` (its frame is still ahead). -/
theorem stale_iff_passed (w0 : World) (ops : List Op) (j : Nat) (h0 : queueOf w0 j = []) (fn : Nat)
    (hr : (run w0 ops).1.clkRunning = true) (hs : (run w0 ops).1.clkSrc = some fn)
    (hrun : runningOf (run w0 ops).1 j = true) (hx : (step (run w0 ops).1 Op.tick).exc = none)
    (p : Nat × Trxd.TxMsg) (hp : p ∈ (ghost w0 ops j).ids.zip (queueOf (run w0 ops).1 j))
    (m : Int) (hm : p.2.fn = some m) :
    (Event.emitted p.1 fn ∈ (ghost w0 (ops ++ [Op.tick]) j).log ↔ m = fn) ∧
    (Event.stale p.1 fn ∈ (ghost w0 (ops ++ [Op.tick]) j).log ↔
      m ≠ fn ∧ ((fn : Int) - m) % 2715648 < 1357824) ∧
    (p.1 ∈ (ghost w0 (ops ++ [Op.tick]) j).ids ↔
      m ≠ fn ∧ ((fn : Int) - m) % 2715648 ≥ 1357824) := by
  obtain ⟨h1, h2, h3, -⟩ := ghost_tick_msg w0 ops j h0 hr hs hrun hx hp
  obtain ⟨c1, c2, c3⟩ := classify_arith fn p.2 m hm
  exact ⟨h1.trans c1, h2.trans c2, h3.trans c3⟩

/-- `wrap_not_stale`: a burst for FN 0 queued while the clock is at 2715647 (the last frame of the
hyperframe) is NOT reported stale at the tick 2715647 — it stays queued — and IS emitted at the
next tick, whose frame number wraps to 0.  (This is what fails if `clck_tick` compares
`msg.fn < fn` numerically.) -/
theorem wrap_not_stale (w0 : World) (ops : List Op) (j : Nat) (h0 : queueOf w0 j = [])
    (hr : (run w0 ops).1.clkRunning = true) (hs : (run w0 ops).1.clkSrc = some 2715647)
    (hrun : runningOf (run w0 ops).1 j = true) (hx : (step (run w0 ops).1 Op.tick).exc = none)
    (hx2 : (step (run w0 (ops ++ [Op.tick])).1 Op.tick).exc = none)
    (p : Nat × Trxd.TxMsg) (hp : p ∈ (ghost w0 ops j).ids.zip (queueOf (run w0 ops).1 j))
    (hm : p.2.fn = some 0) :
    (∀ fn', Event.stale p.1 fn' ∉ (ghost w0 (ops ++ [Op.tick]) j).log) ∧
    p.1 ∈ (ghost w0 (ops ++ [Op.tick]) j).ids ∧
    (run w0 (ops ++ [Op.tick])).1.clkSrc = some 0 ∧
    Event.emitted p.1 0 ∈ (ghost w0 (ops ++ [Op.tick] ++ [Op.tick]) j).log := by
  obtain ⟨-, -, h3, h4⟩ := ghost_tick_msg w0 ops j h0 hr hs hrun hx hp
  obtain ⟨-, -, c3⟩ := classify_arith 2715647 p.2 0 hm
  have hw : classify 2715647 p.2 = .wait := c3.mpr (by decide)
  have hid := h3.mpr hw
  have hclk : (run w0 (ops ++ [Op.tick])).1.clkSrc = some 0 :=
    (ghost_tick_complete w0 ops j h0 hr hs hrun hx).2.2
  refine ⟨fun fn' hst => ?_, hid, hclk, ?_⟩
  · exact (exactly_once w0 (ops ++ [Op.tick]) j h0).queued_no_outcome hid (mem_outIds_of_stale hst)
  · have hr' : (run w0 (ops ++ [Op.tick])).1.clkRunning = true := by
      rw [run_snoc]; exact (tick_clk _).1.trans hr
    have hrun' : runningOf (run w0 (ops ++ [Op.tick])).1 j = true := by
      rw [run_snoc]; exact (tick_running _ j).trans hrun
    obtain ⟨e1, -⟩ := ghost_tick_msg w0 (ops ++ [Op.tick]) j h0 hr' hclk hrun' hx2 (h4 hw)
    exact e1.mpr ((classify_arith 0 p.2 0 hm).1.mpr rfl)

/-- a burst whose frame passed 1 … 1357823 frames ago (cyclically) is reported stale at the next
tick that reaches its transceiver, and is not sent late -/
theorem passed_is_stale (w0 : World) (ops : List Op) (j : Nat) (h0 : queueOf w0 j = []) (fn : Nat)
    (hr : (run w0 ops).1.clkRunning = true) (hs : (run w0 ops).1.clkSrc = some fn)
    (hrun : runningOf (run w0 ops).1 j = true) (hx : (step (run w0 ops).1 Op.tick).exc = none)
    (p : Nat × Trxd.TxMsg) (hp : p ∈ (ghost w0 ops j).ids.zip (queueOf (run w0 ops).1 j))
    (m : Int) (hm : p.2.fn = some m) (k : Nat) (hk : 1 ≤ k ∧ k ≤ 1357823)
    (hpassed : ((fn : Int) - m) % 2715648 = k) :
    Event.stale p.1 fn ∈ (ghost w0 (ops ++ [Op.tick]) j).log ∧
    (∀ fn', Event.emitted p.1 fn' ∉ (ghost w0 (ops ++ [Op.tick]) j).log) := by
  have h := stale_iff_passed w0 ops j h0 fn hr hs hrun hx p hp m hm
  have hst : Event.stale p.1 fn ∈ (ghost w0 (ops ++ [Op.tick]) j).log :=
    h.2.1.mpr ⟨by intro e; rw [e] at hpassed; omega, by omega⟩
  refine ⟨hst, fun fn' hem => ?_⟩
  have hu := (exactly_once w0 (ops ++ [Op.tick]) j h0).outcome_unique
  have := outcome_event_unique _ hu _ hst _ hem p.1 rfl rfl
  cases this

/-- `stale_count_reported`: the number of 'Stale TRXD message' reports of a tick that completes is
the total number of stale-classified queued messages over all running transceivers. -/
theorem stale_count_reported (w : World) (fn : Nat) (hr : w.clkRunning = true) (hs : w.clkSrc = some fn)
    (hx : (step w Op.tick).exc = none) :
    (step w Op.tick).stale =
      ((List.range w.trxs.length).map (fun k =>
        if runningOf w k then ((queueOf w k).filter (fun m => classify fn m == .stale)).length else 0)).sum := by
  obtain ⟨js1, js2, hjs, -, -, -, h4, h5, -⟩ := tick_spec hr hs
  obtain ⟨rfl, -⟩ := h5 hx
  rw [List.append_nil] at hjs
  simp only [step]
  rw [h4, hjs]
  rfl

/-- … and these reports are the `stale` events of the bookkeeping: the tick adds exactly
`|stale-classified messages of j|` stale events to the log of each running transceiver `j`. -/
theorem stale_events_match_report (w0 : World) (ops : List Op) (j : Nat) (h0 : queueOf w0 j = []) (fn : Nat)
    (hr : (run w0 ops).1.clkRunning = true) (hs : (run w0 ops).1.clkSrc = some fn)
    (hrun : runningOf (run w0 ops).1 j = true) (hx : (step (run w0 ops).1 Op.tick).exc = none) :
    (((ghost w0 (ops ++ [Op.tick]) j).log.drop (ghost w0 ops j).log.length).countP isStaleEv) =
      ((queueOf (run w0 ops).1 j).filter (fun m => classify fn m == .stale)).length := by
  rw [(ghost_tick_complete w0 ops j h0 hr hs hrun hx).1]
  simp only [List.drop_left]
  exact countP_stale_tickEvents fn _ _ (ghost_inv w0 ops j h0).lock

/-- `poweroff_clears`: a POWEROFF command (any datagram that carries the request `POWEROFF`) to
transceiver `i` empties the queue of every transceiver `j` it acts on — `i` itself, and the children
of a managing parent (`powerList`) — and stops it; every id that was queued there gets `cleared`,
the bookkeeping is empty afterwards. -/
theorem poweroff_clears (w0 : World) (ops : List Op) (j : Nat) (h0 : queueOf w0 j = [])
    (i sp : Nat) (d : List Nat) (trx : Trx) (ht : (run w0 ops).1.trxs[i]? = some trx)
    (hreq : CtrlReq d [lit "POWEROFF"]) (hj : j ∈ powerList trx i) :
    queueOf (run w0 (ops ++ [Op.ctrl i sp d])).1 j = [] ∧
    runningOf (run w0 (ops ++ [Op.ctrl i sp d])).1 j = false ∧
    (ghost w0 (ops ++ [Op.ctrl i sp d]) j).ids = [] ∧
    (∀ id ∈ (ghost w0 ops j).ids, Event.cleared id ∈ (ghost w0 (ops ++ [Op.ctrl i sp d]) j).log) := by
  obtain ⟨hq, hr⟩ := (poweroff_effect (sp := sp) ht hreq j).1 hj
  have hl := (ghost_inv w0 ops j h0).lock
  rw [run_snoc, ghost_snoc]
  refine ⟨hq, hr, ?_, ?_⟩
  · simp only [ghostStep, hq]
    split
    · rfl
    · next hn =>
      have : queueOf (run w0 ops).1 j = [] := Decidable.of_not_not (fun h => hn ⟨trivial, h⟩)
      rw [this] at hl
      exact List.eq_nil_of_length_eq_zero hl
  · intro id hid
    simp only [ghostStep, hq]
    split
    · exact List.mem_append_right _ (List.mem_map.mpr ⟨id, hid, rfl⟩)
    · next hn =>
      have : queueOf (run w0 ops).1 j = [] := Decidable.of_not_not (fun h => hn ⟨trivial, h⟩)
      rw [this] at hl
      rw [List.eq_nil_of_length_eq_zero hl] at hid
      cases hid

/-- the transceivers a POWEROFF of `i` acts on: `i` itself, plus its children iff `i` is a
managing parent (`child_mgt` and `child_idx == 0`) -/
theorem powerList_spec (trx : Trx) (i j : Nat) :
    j ∈ powerList trx i ↔ j = i ∨ (trx.childMgt = true ∧ trx.childIdx = 0 ∧ j ∈ trx.children) := by
  unfold powerList
  split
  · next h => simp at h; simp [h]
  · next h => simp at h; simp; intro h1 h2; exact absurd h2 (h h1)

/-- `setformat_effect_on_accept`: after an accepted `SETFORMAT v` (v one of KNOWN_VERSIONS) to
transceiver `i`, exactly the datagrams that parse with header version `v` are accepted by `i`
(while it runs); no queue, power state or bookkeeping changes — queued messages stay queued. -/
theorem setformat_effect_on_accept (w0 : World) (ops : List Op) (i sp : Nat) (d : List Nat) (trx : Trx)
    (a : Str) (v : Int) (ht : (run w0 ops).1.trxs[i]? = some trx)
    (hreq : CtrlReq d [lit "SETFORMAT", a]) (ha : toInt a = .ok v) (hk : v ∈ Gen.Trxd.knownVersions) :
    (∀ k, queueOf (run w0 (ops ++ [Op.ctrl i sp d])).1 k = queueOf (run w0 ops).1 k ∧
          runningOf (run w0 (ops ++ [Op.ctrl i sp d])).1 k = runningOf (run w0 ops).1 k) ∧
    (∀ k, ghost w0 (ops ++ [Op.ctrl i sp d]) k = ghost w0 ops k) ∧
    (∀ d' msg, Accepts (run w0 (ops ++ [Op.ctrl i sp d])).1 i d' msg ↔
      (Trxd.TxMsg.parseMsg (d'.take Gen.World.dataRecvSize) = .ok msg ∧ msg.ver = v ∧
       runningOf (run w0 ops).1 i = true)) := by
  have hw := setformat_effect (sp := sp) ht hreq ha hk
  have hqr : ∀ k, queueOf (run w0 (ops ++ [Op.ctrl i sp d])).1 k = queueOf (run w0 ops).1 k ∧
      runningOf (run w0 (ops ++ [Op.ctrl i sp d])).1 k = runningOf (run w0 ops).1 k := by
    intro k
    rw [run_snoc, hw, queueOf_setTrx, runningOf_setTrx]
    by_cases e : i = k
    · subst e; simp only [if_true, ht]; simp [queueOf, runningOf, ht]
    · simp only [if_neg e, and_self]
  refine ⟨hqr, fun k => ?_, fun d' msg => ?_⟩
  · rw [ghost_snoc]
    have := (hqr k).1
    rw [run_snoc] at this
    simp only [ghostStep, this]
    rw [if_neg (fun hh => hh.2 hh.1)]
  · rw [run_snoc, hw]
    unfold Accepts
    rw [setTrx_getElem?, if_pos rfl, ht]
    simp only [Option.map_some, Option.some.injEq, runningOf, ht]
    constructor
    · rintro ⟨t, rfl, hp, hv, hr⟩; exact ⟨hp, hv, hr⟩
    · rintro ⟨hp, hv, hr⟩; exact ⟨_, rfl, hp, hv, hr⟩

/-- `eventually_resolved`: while the clock runs with consecutive ticks and `j` stays powered on
(`Steady`), a queued burst for frame `m < 2715648` seen at clock value `c < 2715648`
  * is emitted at the tick with frame number `m`, i.e. within `((m − c) mod 2715648) + 1` ticks, if it
    is due or ahead: `m = c` or `(c − m) mod 2715648 ≥ 1357824`;
  * otherwise (its frame has passed) is reported stale at the very next tick.
`p` may be any queued message, in particular the one just appended by an accepted datagram
(`accept_iff`). -/
theorem eventually_resolved (w0 : World) (ops ops2 : List Op) (j : Nat) (h0 : queueOf w0 j = [])
    (p : Nat × Trxd.TxMsg) (hp : p ∈ (ghost w0 ops j).ids.zip (queueOf (run w0 ops).1 j))
    (m c : Nat) (hm : p.2.fn = some (m : Int)) (hmH : m < 2715648)
    (hc : (run w0 ops).1.clkSrc = some c) (hcH : c < 2715648)
    (hst : Steady j (run w0 ops).1 ops2) :
    ((m = c ∨ ((c : Int) - m) % 2715648 ≥ 1357824) →
      ticks ops2 ≥ (((m : Int) - c) % 2715648).toNat + 1 →
      Event.emitted p.1 m ∈ (ghost w0 (ops ++ ops2) j).log) ∧
    (¬ (m = c ∨ ((c : Int) - m) % 2715648 ≥ 1357824) →
      ticks ops2 ≥ 1 →
      Event.stale p.1 c ∈ (ghost w0 (ops ++ ops2) j).log) := by
  refine ⟨fun hfut ht => resolve_future w0 j h0 p m hm hmH ops2 ops c hst hp hc hcH hfut ht,
    fun hn ht => resolve_passed w0 j h0 p m hm ops2 ops c hst hp hc ?_ ht⟩
  omega

/-- `eventually_resolved`, from the moment of acceptance: the datagram `d` accepted by `j` as `msg`
(frame `m`) at clock value `c` gets id `ops.length`; if `j` stays powered on and the clock runs, it is
emitted in frame `m` within `((m − c) mod 2715648) + 1` ticks when due or ahead, and reported stale at
the very next tick otherwise. -/
theorem accepted_eventually_resolved (w0 : World) (ops ops2 : List Op) (j : Nat) (h0 : queueOf w0 j = [])
    (d : List Nat) (msg : Trxd.TxMsg) (hacc : Accepts (run w0 ops).1 j d msg)
    (m c : Nat) (hm : msg.fn = some (m : Int)) (hmH : m < 2715648)
    (hc : (run w0 ops).1.clkSrc = some c) (hcH : c < 2715648)
    (hst : Steady j (run w0 (ops ++ [Op.data j d])).1 ops2) :
    ((m = c ∨ ((c : Int) - m) % 2715648 ≥ 1357824) →
      ticks ops2 ≥ (((m : Int) - c) % 2715648).toNat + 1 →
      Event.emitted ops.length m ∈ (ghost w0 (ops ++ [Op.data j d] ++ ops2) j).log) ∧
    (¬ (m = c ∨ ((c : Int) - m) % 2715648 ≥ 1357824) →
      ticks ops2 ≥ 1 →
      Event.stale ops.length c ∈ (ghost w0 (ops ++ [Op.data j d] ++ ops2) j).log) := by
  obtain ⟨hq, hids⟩ := (accept_iff w0 ops j h0 d msg).2.1 hacc
  have hl := (ghost_inv w0 ops j h0).lock
  have hp : (ops.length, msg) ∈
      (ghost w0 (ops ++ [Op.data j d]) j).ids.zip (queueOf (run w0 (ops ++ [Op.data j d])).1 j) := by
    rw [hq, hids, List.zip_append hl]
    simp
  have hc' : (run w0 (ops ++ [Op.data j d])).1.clkSrc = some c := by
    rw [run_snoc, (step_data_clk _ j d).1]; exact hc
  exact eventually_resolved w0 (ops ++ [Op.data j d]) ops2 j h0 (ops.length, msg) hp m c hm hmH hc' hcH hst

/-- `out_of_range_fn_stale`: `TxMsg.parse_msg` accepts any 32-bit frame number.  A queued burst
with `fn = m ≥ 2715648` can never be due (the clock stays below the hyperframe); while `j` stays
powered on it is reported stale — never emitted — at the latest at the tick whose frame number is
`m mod 2715648`, i.e. within `((m − c) mod 2715648) + 1` ticks. -/
theorem out_of_range_fn_stale (w0 : World) (ops ops2 : List Op) (j : Nat) (h0 : queueOf w0 j = [])
    (p : Nat × Trxd.TxMsg) (hp : p ∈ (ghost w0 ops j).ids.zip (queueOf (run w0 ops).1 j))
    (m : Int) (c : Nat) (hm : p.2.fn = some m) (hmH : m ≥ 2715648)
    (hc : (run w0 ops).1.clkSrc = some c) (hcH : c < 2715648)
    (hst : Steady j (run w0 ops).1 ops2) (ht : ticks ops2 ≥ ((m - c) % 2715648).toNat + 1) :
    (∃ fn : Nat, fn < 2715648 ∧ Event.stale p.1 fn ∈ (ghost w0 (ops ++ ops2) j).log) ∧
    (∀ fn', Event.emitted p.1 fn' ∉ (ghost w0 (ops ++ ops2) j).log) := by
  obtain ⟨fn, hfn, hst'⟩ := resolve_out_of_range w0 j h0 p m hm hmH ops2 ops c hst hp hc hcH ht
  refine ⟨⟨fn, hfn, hst'⟩, fun fn' hem => ?_⟩
  have hu := (exactly_once w0 (ops ++ ops2) j h0).outcome_unique
  have := outcome_event_unique _ hu _ hst' _ hem p.1 rfl rfl
  cases this

/-! ## Part B — schedules

`Model/WorldSched.lean`: the socket thread executes complete operations, the clock thread executes
one tick as a sequence of atomic actions (read `running` | locked section | `forward_msg` begin |
the reads for one recipient | `handle_data_msg` of that recipient | stale report | … | `clck_src`
increment) — every boundary at which `harness/py/sched_harness.py` can park the real clock thread is a
boundary between two of these actions.  A schedule `acts : List Act` is ANY
interleaving of socket operations with clock-thread actions (any number of socket operations between
any two clock actions; the property's "one arrival / power command racing one tick" are the
schedules with one socket action).  `sghost s0 acts j` is the bookkeeping of transceiver `j`: `g`
(ids of the queued messages and the log, as in part A), `pendE` / `pendD` (tagged messages in the
clock thread's local `emit` / `drop` lists: outcome pending), `snap` (tagged queue at the moment of
the last locked section of `j`) and `tickLog` (tick outcomes produced since).  Initial states: clock
thread between two ticks, queue of `j` empty. -/

section PartB
open OsmoVerif.World.Sched

/-- `interleaved_inv`: in every state reachable by any schedule the part-A invariant holds with the
clock thread's local lists as a third place a burst can be: ids are distinct; every accepted id is
accounted for exactly once — by exactly one outcome event, by one place in the queue, or by one
place in the local `emit` / `drop` lists (outcome pending) — and nothing else is; an emitted burst
was emitted at the tick of its own frame; a stale report was for a passed frame; and the bookkeeping
is in lock-step with the model's queue. -/
theorem interleaved_inv (s0 : State) (acts : List Act) (j : Nat) (h0 : Initial j s0) :
    ExactlyOnce (fun m : Trxd.TxMsg => m.fn) (sghost s0 acts j).g.log
      ((sghost s0 acts j).g.ids ++ ((sghost s0 acts j).pendE ++ (sghost s0 acts j).pendD).map Prod.fst) ∧
    (sghost s0 acts j).g.ids.length = (queueOf (exec s0 acts).w j).length ∧
    (∀ p ∈ (sghost s0 acts j).g.ids.zip (queueOf (exec s0 acts).w j) ++
            ((sghost s0 acts j).pendE ++ (sghost s0 acts j).pendD),
      Event.accepted p.1 p.2 ∈ (sghost s0 acts j).g.log) := by
  have h := (sghost_inv h0 acts).inv
  exact ⟨h.spec, h.lock, h.tagged⟩

/-- the property's quantifier "one arrival / power command racing one tick": `a` clock actions, one
socket action `x` (any data or TRXC datagram), `b` more clock actions — for every split `a`, `b` the
invariant holds (instance of `interleaved_inv`) -/
theorem one_op_racing_one_tick (s0 : State) (j : Nat) (h0 : Initial j s0) (a b : Nat) (x : Act) :
    ExactlyOnce (fun m : Trxd.TxMsg => m.fn) (sghost s0 (clks a ++ [x] ++ clks b) j).g.log
      ((sghost s0 (clks a ++ [x] ++ clks b) j).g.ids ++
        ((sghost s0 (clks a ++ [x] ++ clks b) j).pendE ++
         (sghost s0 (clks a ++ [x] ++ clks b) j).pendD).map Prod.fst) :=
  (interleaved_inv s0 _ j h0).1

/-- the same for every reachable state, in terms of the reachability relation -/
theorem reachable_inv (s0 s : State) (j : Nat) (h0 : Initial j s0) (hr : Reachable s0 s) :
    ∃ sg : SGhost, ∃ pos, SInv j pos s sg := by
  obtain ⟨acts, rfl⟩ := hr
  exact ⟨_, _, sghost_inv h0 acts⟩

/-- under every schedule: at most one outcome per burst, never emitted twice -/
theorem interleaved_outcome_unique (s0 : State) (acts : List Act) (j : Nat) (h0 : Initial j s0) :
    (outIds (sghost s0 acts j).g.log).Nodup :=
  (interleaved_inv s0 acts j h0).1.outcome_unique

/-- under every schedule: emitted only during the tick of its own frame -/
theorem interleaved_emitted_on_time (s0 : State) (acts : List Act) (j : Nat) (h0 : Initial j s0)
    (id tickFn : Nat) (h : Event.emitted id tickFn ∈ (sghost s0 acts j).g.log) :
    ∃ msg, Event.accepted id msg ∈ (sghost s0 acts j).g.log ∧ msg.fn = some (tickFn : Int) :=
  (interleaved_inv s0 acts j h0).1.on_time id tickFn h

/-- under every schedule nothing vanishes: an accepted burst has an outcome, or is in the queue, or
is in the clock thread's local lists — exactly one of these, exactly once -/
theorem interleaved_no_silent_loss (s0 : State) (acts : List Act) (j : Nat) (h0 : Initial j s0) :
    (∀ id, id ∈ accIds (sghost s0 acts j).g.log ↔
      (id ∈ outIds (sghost s0 acts j).g.log ∨ id ∈ (sghost s0 acts j).g.ids ∨
       id ∈ ((sghost s0 acts j).pendE ++ (sghost s0 acts j).pendD).map Prod.fst)) ∧
    (outIds (sghost s0 acts j).g.log ++ ((sghost s0 acts j).g.ids ++
      ((sghost s0 acts j).pendE ++ (sghost s0 acts j).pendD).map Prod.fst)).Nodup := by
  have h := (interleaved_inv s0 acts j h0).1
  refine ⟨fun id => ?_, h.nodup_all⟩
  rw [h.accounted_iff, List.mem_append]

/-- the pending lists are the clock thread's locals: inside `clck_tick(j)` (after the locked
section) they are in lock-step with the local `emit` / `drop` lists and correctly classified;
between the ticks of `j` they are empty -/
theorem pending_lock_step (s0 : State) (acts : List Act) (j : Nat) (h0 : Initial j s0) :
    PcOk j (sghost s0 acts j) (exec s0 acts).pc :=
  (sghost_inv h0 acts).pcOk

/-- `tick_outcomes_schedule_independent`: when `clck_tick(j)` of the tick at frame `fn` is through
its two loops, the outcome events it has produced for `j` are exactly `tickEvents fn snap` — the
same function of the tagged queue `snap` at the moment of the locked section that the sequential
semantics applies (`ghost_tick_complete`) — whatever socket operations were interleaved where; and
they are all in the log. -/
theorem tick_outcomes_schedule_independent (s0 : State) (acts : List Act) (j : Nat) (h0 : Initial j s0)
    (fn : Nat) (js : List Nat) (hpc : (exec s0 acts).pc = Pc.loop fn j [] [] js) :
    (sghost s0 acts j).tickLog = tickEvents fn (sghost s0 acts j).snap ∧
    (∀ e ∈ (sghost s0 acts j).tickLog, e ∈ (sghost s0 acts j).g.log) ∧
    (sghost s0 acts j).pendE = [] ∧ (sghost s0 acts j).pendD = [] := by
  have h := sghost_inv h0 acts
  have hp := h.pcOk
  rw [hpc] at hp
  simp only [PcOk, if_true] at hp
  have hE : (sghost s0 acts j).pendE = [] := List.map_eq_nil_iff.mp hp.lockE
  have hD : (sghost s0 acts j).pendD = [] := List.map_eq_nil_iff.mp hp.lockD
  refine ⟨?_, h.sub, hE, hD⟩
  have := hp.total
  simpa only [pendEvents, hE, hD, List.map_nil, List.append_nil] using this

/-- … where `snap` is the tagged queue at the moment the locked section ran (and the tick's own log
starts empty there) -/
theorem snapshot_is_queue_at_lock (s0 : State) (acts : List Act) (j fn : Nat) (js : List Nat)
    (hpc : (exec s0 acts).pc = Pc.lock fn j js) :
    (sghost s0 (acts ++ [Act.clk]) j).snap =
      (sghost s0 acts j).g.ids.zip (queueOf (exec s0 acts).w j) ∧
    (sghost s0 (acts ++ [Act.clk]) j).tickLog = [] := by
  rw [sghost_snoc]; exact snap_at_lock hpc

/-- the clock thread touches the queue of `j` only in the locked section of `clck_tick(j)`, where it
replaces it by its `wait` partition; so a message appended after the locked section simply stays
queued for a later tick … -/
theorem clock_touches_queue_only_in_locked_section (s : State) (j : Nat) :
    queueOf (clockStep s).w j =
      match s.pc with
      | Pc.lock fn j' _ => if j' = j then waitPart fn (queueOf s.w j) else queueOf s.w j
      | _ => queueOf s.w j :=
  clockStep_queue s j

/-- … because the pending lists are filled only by the locked section, from the queue as it is at
that moment, and only pending messages ever get a tick outcome. -/
theorem late_arrival_stays_queued (s0 : State) (acts : List Act) (a : Act) (j : Nat) :
    (∀ p ∈ (sghost s0 (acts ++ [a]) j).pendE ++ (sghost s0 (acts ++ [a]) j).pendD,
      p ∈ (sghost s0 acts j).pendE ++ (sghost s0 acts j).pendD ∨
      (a.op? = none ∧ ∃ fn js, (exec s0 acts).pc = Pc.lock fn j js ∧
        p ∈ (sghost s0 acts j).g.ids.zip (queueOf (exec s0 acts).w j))) ∧
    (∀ id fn, (Event.emitted id fn ∈ (sghost s0 (acts ++ [a]) j).g.log ∧
               Event.emitted id fn ∉ (sghost s0 acts j).g.log) ∨
              (Event.stale id fn ∈ (sghost s0 (acts ++ [a]) j).g.log ∧
               Event.stale id fn ∉ (sghost s0 acts j).g.log) →
      a.op? = none ∧ ∃ p ∈ (sghost s0 acts j).pendE ++ (sghost s0 acts j).pendD, p.1 = id) := by
  rw [sghost_snoc]
  refine ⟨fun p hp => pending_only_from_lock hp, fun id fn h => ?_⟩
  rcases h with ⟨h1, h2⟩ | ⟨h1, h2⟩
  · exact tick_outcome_needs_pending h1 h2 id fn (.inl rfl)
  · exact tick_outcome_needs_pending h1 h2 id fn (.inr rfl)

/-- `poweroff_does_not_unemit` — the boundary of "as long as the transceiver stays powered on".
A socket operation (e.g. POWEROFF) executed after the locked section changes neither the clock
thread's control state nor its local `emit` / `drop` lists: a burst already moved to `emit` is still
handed to `forward_msg` by the running clock thread at its next action, in its own frame, even though
its transceiver has been powered off in between (the queue, i.e. the bursts that were waiting, is
cleared).  What `forward_msg` then does: the sender's `running` flag is not consulted; the
frequency is read from the static `_tx_freq` because POWEROFF has reset `fh`; running recipients on
that frequency get the burst (see the example below). -/
theorem poweroff_does_not_unemit (s0 : State) (acts : List Act) (j : Nat) (h0 : Initial j s0) :
    (∀ a op, a.op? = some op →
      (exec s0 (acts ++ [a])).pc = (exec s0 acts).pc ∧
      (sghost s0 (acts ++ [a]) j).pendE = (sghost s0 acts j).pendE ∧
      (sghost s0 (acts ++ [a]) j).pendD = (sghost s0 acts j).pendD) ∧
    (∀ fn m emit drop js, (exec s0 acts).pc = Pc.loop fn j (m :: emit) drop js →
      ∃ p rest, (sghost s0 acts j).pendE = p :: rest ∧ p.2 = m ∧ p.2.fn = some (fn : Int) ∧
        Event.emitted p.1 fn ∈ (sghost s0 (acts ++ [Act.clk]) j).g.log) := by
  refine ⟨fun a op ha => ?_, fun fn m emit drop js hpc => ?_⟩
  · rw [sghost_snoc, exec_snoc]
    obtain ⟨h1, h2, h3, -⟩ := sock_keeps_pending j acts.length (exec s0 acts) op (sghost s0 acts j) a ha
    exact ⟨h1, h2, h3⟩
  · obtain ⟨p, rest, h1, h2, h3, h4⟩ := pending_emit_is_emitted (sghost_inv h0 acts) hpc
    rw [sghost_snoc]
    exact ⟨p, rest, h1, h2, h4, h3⟩

/-- `handle_only_after_reads` — the `fwd-read` action of the recipient loop of `forward_msg(j, msg)`
for recipient `k`.  It changes nothing but the clock thread's control state, and the thread goes on to
`handle_data_msg` of `k` (control state `hdl … k rx …`) iff, at this moment, `k` is another
transceiver than the sender, `k` is running, its Rx frequency for the burst's frame (hopping resolved)
is the sender's Tx frequency, and `rx` is the burst translated with the header version `k` has at
this moment (`rx.ver`), for the burst's own frame number. -/
theorem handle_only_after_reads (s : State) (fn j mfn k : Nat) (msg : Trxd.TxMsg) (txFreq : Option Int)
    (ks : List Nat) (emit drop : List Trxd.TxMsg) (js : List Nat)
    (hpc : s.pc = Pc.fwd fn j msg mfn txFreq (k :: ks) emit drop js) :
    (clockStep s).w = s.w ∧ (clockStep s).out = s.out ∧ (clockStep s).stale = s.stale ∧
    (∀ rx, (clockStep s).pc = Pc.hdl fn j msg mfn txFreq k rx ks emit drop js ↔
      (k ≠ j ∧ ∃ trx, s.w.trxs[k]? = some trx ∧ trx.running = true ∧ trx.getRxFreq mfn = .ok txFreq ∧
        msg.trans (some trx.hdrVer) = .ok rx)) ∧
    (∀ rx, (clockStep s).pc = Pc.hdl fn j msg mfn txFreq k rx ks emit drop js →
      ∃ trx, s.w.trxs[k]? = some trx ∧ rx.ver = trx.hdrVer ∧ rx.fn = msg.fn ∧ rx.tn = msg.tn) := by
  rw [clockStep_fwd s hpc]
  refine ⟨rfl, rfl, rfl, fun rx => ?_, fun rx h => ?_⟩
  · rw [← fwdRead_some_iff]
    simp only []
    split
    · next h => simp [h]
    · next h => simp [h]
    · next rx' h => simp [h]
  · simp only [] at h
    split at h
    · cases h
    · cases h
    · next rx' hr =>
      injection h with _ _ _ _ _ _ h7
      subst h7
      obtain ⟨-, trx, htrx, -, -, htr⟩ := (fwdRead_some_iff _ _ _ _ _ _ _).mp hr
      exact ⟨trx, htrx, trans_hdr htr⟩

/-- `handle_uses_what_was_read` — what the code does when the recipient is powered off, retuned or
re-versioned BETWEEN the reads and the call.  Recipient `k` has passed the checks of `fwd-read` in state
`s` (it was running, on the sender's frequency, header version `trx.hdrVer`); then the socket thread
executes any operations `xs` (POWEROFF / RXTUNE / SETFORMAT of `k`, anything), then the clock thread
goes on.  The control state is still `hdl … k rx …` with the `rx` built BEFORE `xs` (header version
`rx.ver` = the version read earlier, not the current one); the next clock action is exactly
`k.handle_data_msg(j, msg, rx)` on the world as it is AFTER `xs` — `running`, the frequency and the
header version of `k` are not looked at again — and whatever that call does (datagram to `k`'s L1
with the old header version, NOPE, nothing, or an exception that ends the clock thread) it touches no
transmit queue and no power state: the outcomes of C03 (emitted / stale / cleared / still queued) of
every transceiver are what they were. -/
theorem handle_uses_what_was_read (s : State) (xs : List Act) (hx : ∀ a ∈ xs, a ≠ Act.clk)
    (fn j mfn k : Nat) (msg : Trxd.TxMsg) (txFreq : Option Int) (ks : List Nat) (emit drop : List Trxd.TxMsg)
    (js : List Nat) (hpc : s.pc = Pc.fwd fn j msg mfn txFreq (k :: ks) emit drop js)
    (trx : Trx) (rx : Trxd.RxMsg) (hk : k ≠ j) (htrx : s.w.trxs[k]? = some trx) (hrun : trx.running = true)
    (hfreq : trx.getRxFreq mfn = .ok txFreq) (htr : msg.trans (some trx.hdrVer) = .ok rx) :
    (exec s (Act.clk :: xs)).pc = Pc.hdl fn j msg mfn txFreq k rx ks emit drop js ∧
    (exec s (Act.clk :: xs)).out = s.out ∧ (exec s (Act.clk :: xs)).stale = s.stale ∧
    rx.ver = trx.hdrVer ∧ rx.fn = msg.fn ∧
    exec s (Act.clk :: xs ++ [Act.clk]) =
      (match handleDataMsg (exec s (Act.clk :: xs)).w k j msg rx with
       | .error e => { exec s (Act.clk :: xs) with pc := Pc.dead e }
       | .ok (w, ds) => { exec s (Act.clk :: xs) with
                          w := w, out := s.out ++ ds, pc := Pc.fwd fn j msg mfn txFreq ks emit drop js }) ∧
    (∀ w ds, handleDataMsg (exec s (Act.clk :: xs)).w k j msg rx = .ok (w, ds) →
      ∀ i, queueOf w i = queueOf (exec s (Act.clk :: xs)).w i ∧
           runningOf w i = runningOf (exec s (Act.clk :: xs)).w i) := by
  have hrd : fwdRead s.w j msg mfn txFreq k = .ok (some rx) :=
    (fwdRead_some_iff _ _ _ _ _ _ _).mpr ⟨hk, trx, htrx, hrun, hfreq, htr⟩
  have h1 : clockStep s = { s with pc := Pc.hdl fn j msg mfn txFreq k rx ks emit drop js } := by
    rw [clockStep_fwd s hpc, hrd]
  obtain ⟨hv, hfn, -⟩ := trans_hdr htr
  have hexec : exec s (Act.clk :: xs) = exec (clockStep s) xs := rfl
  obtain ⟨k1, k2, k3⟩ := exec_sock_keeps xs (clockStep s) hx
  have g1 : (exec s (Act.clk :: xs)).pc = Pc.hdl fn j msg mfn txFreq k rx ks emit drop js := by
    rw [hexec, k1, h1]
  have g2 : (exec s (Act.clk :: xs)).out = s.out := by rw [hexec, k2, h1]
  have g3 : (exec s (Act.clk :: xs)).stale = s.stale := by rw [hexec, k3, h1]
  refine ⟨g1, g2, g3, hv, hfn, ?_, ?_⟩
  · rw [show Act.clk :: xs ++ [Act.clk] = (Act.clk :: xs) ++ [Act.clk] from rfl, exec_snoc]
    show clockStep (exec s (Act.clk :: xs)) = _
    rw [clockStep_hdl _ g1]
    cases handleDataMsg (exec s (Act.clk :: xs)).w k j msg rx with
    | error e => rfl
    | ok v => obtain ⟨w, ds⟩ := v; simp only [g2]
  · intro w ds h i
    have := handleDataMsg_sameQ h
    exact ⟨this.queueOf i, this.runningOf i⟩

/-- The interleaving semantics refines the sequential model: a tick of the clock thread that is not
interleaved with socket operations, and that no exception leaves, is exactly `World.tick` — same
world, same datagrams, same number of stale reports. -/
theorem uninterleaved_tick_is_tick (w : World) (hx : (tick w).exc = none) (sout : List Dgram) :
    ∃ n, clockRun ⟨w, Pc.idle, [], 0, sout⟩ n =
      ⟨(tick w).world, Pc.idle, (tick w).out, (tick w).stale, sout⟩ :=
  tick_run hx sout

end PartB

/-! ## Non-vacuity (Part A) -/

/-- two transceivers, three bursts queued at transceiver 0 (due / passed / ahead), one tick at
frame 100: burst 0 is emitted, burst 1 reported stale, burst 2 stays queued; one stale report, one
datagram forwarded to the peer; the clock advances -/
example :
    (ghost (demoWorld 100) (demoArrivals ++ [Op.tick]) 0).ids = [2] ∧
    (ghost (demoWorld 100) (demoArrivals ++ [Op.tick]) 0).log =
      [Event.accepted 0 (demoMsg 100), Event.accepted 1 (demoMsg 90), Event.accepted 2 (demoMsg 110),
       Event.emitted 0 100, Event.stale 1 100] ∧
    queueOf (run (demoWorld 100) (demoArrivals ++ [Op.tick])).1 0 = [demoMsg 110] ∧
    (step (run (demoWorld 100) demoArrivals).1 Op.tick).stale = 1 ∧
    (step (run (demoWorld 100) demoArrivals).1 Op.tick).exc = none ∧
    (step (run (demoWorld 100) demoArrivals).1 Op.tick).out.length = 1 ∧
    (run (demoWorld 100) (demoArrivals ++ [Op.tick])).1.clkSrc = some 101 := by
  decide +kernel

/-- the hypotheses of `stale_iff_passed` / `passed_is_stale` / `eventually_resolved` are satisfiable -/
example : Event.stale 1 100 ∈ (ghost (demoWorld 100) (demoArrivals ++ [Op.tick]) 0).log :=
  (passed_is_stale (demoWorld 100) demoArrivals 0 rfl 100 (by decide +kernel) (by decide +kernel)
    (by decide +kernel) (by decide +kernel) (1, demoMsg 90) (by decide +kernel) 90 rfl 10
    (by decide) (by decide)).1

example : Steady 0 (run (demoWorld 100) demoArrivals).1 [Op.tick, Op.data 1 [], Op.tick] := by
  simp only [Steady]
  refine ⟨?_, ?_, ?_, ?_, ?_, ?_, ?_, ?_, ?_, ?_, ?_, ?_, ?_, ?_⟩ <;>
    first | decide +kernel | (intro _ h; cases h) | (intro h; cases h) | (intro _; decide +kernel)

/-- the wrap: clock at 2715647, burst for FN 0 — not stale at tick 2715647, emitted at the next tick -/
example :
    (ghost (demoWorld 2715647) [Op.data 0 (demoBurst 0), Op.tick] 0).ids = [0] ∧
    (ghost (demoWorld 2715647) [Op.data 0 (demoBurst 0), Op.tick] 0).log = [Event.accepted 0 (demoMsg 0)] ∧
    (run (demoWorld 2715647) [Op.data 0 (demoBurst 0), Op.tick]).1.clkSrc = some 0 ∧
    (ghost (demoWorld 2715647) [Op.data 0 (demoBurst 0), Op.tick, Op.tick] 0).log =
      [Event.accepted 0 (demoMsg 0), Event.emitted 0 0] ∧
    (ghost (demoWorld 2715647) [Op.data 0 (demoBurst 0), Op.tick, Op.tick] 0).ids = [] := by
  decide +kernel

/-- POWEROFF of the managing BTS transceiver clears what is queued; afterwards nothing is accepted -/
example :
    CtrlReq demoPoweroff [lit "POWEROFF"] ∧
    (ghost (demoWorld 100) (demoArrivals ++ [Op.ctrl 0 5800 demoPoweroff]) 0).ids = [] ∧
    (ghost (demoWorld 100) (demoArrivals ++ [Op.ctrl 0 5800 demoPoweroff]) 0).log.drop 3 =
      [Event.cleared 0, Event.cleared 1, Event.cleared 2] ∧
    (ghost (demoWorld 100) (demoArrivals ++ [Op.ctrl 0 5800 demoPoweroff, Op.data 0 (demoBurst 100)]) 0).ids = [] := by
  refine ⟨⟨lit "CMD POWEROFF\x00", ?_, ?_, ?_⟩, ?_, ?_, ?_⟩ <;> decide +kernel

/-- SETFORMAT 1: version-0 datagrams are no longer accepted, queued ones stay -/
example :
    CtrlReq demoSetformat1 [lit "SETFORMAT", lit "1"] ∧ toInt (lit "1") = .ok 1 ∧
    (ghost (demoWorld 100) (demoArrivals ++ [Op.ctrl 0 5800 demoSetformat1, Op.data 0 (demoBurst 100)]) 0).ids
      = [0, 1, 2] := by
  refine ⟨⟨lit "CMD SETFORMAT 1\x00", ?_, ?_, ?_⟩, ?_, ?_⟩ <;> first | decide +kernel | rfl

section
open OsmoVerif.World.Sched
/-! ## Non-vacuity (Part B) -/

/-- the demo state is initial for both transceivers -/
example : Initial 0 (demoState 100) ∧ Initial 1 (demoState 100) :=
  ⟨⟨rfl, by decide +kernel⟩, ⟨rfl, by decide +kernel⟩⟩

/-- a tick without interference: after the three arrivals and 14 clock actions (begin | read, locked
section of transceiver 0 | fwd-begin, fwd-read of 0 (itself), fwd-read of 1, fwd-handle of 1, fwd-end |
stale | done | read, locked section, done of transceiver 1 | incr) the clock thread is idle again, with
the same outcomes as the sequential tick; not before -/
example :
    (exec (demoState 100) (demoArrivalActs ++ clks 14)).pc = Pc.idle ∧
    (exec (demoState 100) (demoArrivalActs ++ clks 13)).pc = Pc.next 100 [] ∧
    (sghost (demoState 100) (demoArrivalActs ++ clks 14) 0).g.log =
      (ghost (demoWorld 100) (demoArrivals ++ [Op.tick]) 0).log ∧
    (sghost (demoState 100) (demoArrivalActs ++ clks 14) 0).g.ids = [2] ∧
    (exec (demoState 100) (demoArrivalActs ++ clks 14)).w.clkSrc = some 101 ∧
    (exec (demoState 100) (demoArrivalActs ++ clks 14)).out = (tick (run (demoWorld 100) demoArrivals).1).out ∧
    (exec (demoState 100) (demoArrivalActs ++ clks 14)).stale = 1 := by
  decide +kernel

/-- POWEROFF racing the tick, after the locked section (3 clock actions: begin, read `running`,
locked section): the waiting burst 2 is cleared, the due burst 0 is STILL emitted in frame 100 and
forwarded to the peer (one datagram), the passed burst 1 is still reported stale; transceiver 0 is
not running any more; the tick is over after 11 more clock actions -/
example :
    (exec (demoState 100) (demoArrivalActs ++ clks 3)).pc = Pc.loop 100 0 [demoMsg 100] [demoMsg 90] [1] ∧
    (sghost (demoState 100) (demoArrivalActs ++ clks 3 ++ [Act.ctrl 0 5800 demoPoweroff] ++ clks 11) 0).g.log.drop 3 =
      [Event.cleared 2, Event.emitted 0 100, Event.stale 1 100] ∧
    (exec (demoState 100) (demoArrivalActs ++ clks 3 ++ [Act.ctrl 0 5800 demoPoweroff] ++ clks 11)).pc = Pc.idle ∧
    (exec (demoState 100) (demoArrivalActs ++ clks 3 ++ [Act.ctrl 0 5800 demoPoweroff] ++ clks 11)).out.length = 1 ∧
    runningOf (exec (demoState 100) (demoArrivalActs ++ clks 3 ++ [Act.ctrl 0 5800 demoPoweroff] ++ clks 11)).w 0 = false := by
  decide +kernel

/-- POWEROFF racing the tick, between the read of `running` and the locked section: everything is
cleared, the locked section finds an empty queue, nothing is emitted (6 more clock actions) -/
example :
    (exec (demoState 100) (demoArrivalActs ++ clks 2)).pc = Pc.lock 100 0 [1] ∧
    (sghost (demoState 100) (demoArrivalActs ++ clks 2 ++ [Act.ctrl 0 5800 demoPoweroff] ++ clks 6) 0).g.log.drop 3 =
      [Event.cleared 0, Event.cleared 1, Event.cleared 2] ∧
    (exec (demoState 100) (demoArrivalActs ++ clks 2 ++ [Act.ctrl 0 5800 demoPoweroff] ++ clks 6)).pc = Pc.idle ∧
    (exec (demoState 100) (demoArrivalActs ++ clks 2 ++ [Act.ctrl 0 5800 demoPoweroff] ++ clks 6)).out.length = 0 := by
  decide +kernel

/-- an arrival racing the tick: the burst for frame 100 arrives after the locked section of tick
100 — it stays queued until that tick is over (5 more clock actions) and is reported stale by tick
101; arriving before the locked section it is emitted in tick 100 -/
example :
    (sghost (demoState 100) (clks 3 ++ [Act.data 0 (demoBurst 100)] ++ clks 5) 0).g.ids = [3] ∧
    (exec (demoState 100) (clks 3 ++ [Act.data 0 (demoBurst 100)] ++ clks 5)).pc = Pc.idle ∧
    (sghost (demoState 100) (clks 3 ++ [Act.data 0 (demoBurst 100)] ++ clks 5) 0).g.log =
      [Event.accepted 3 (demoMsg 100)] ∧
    (sghost (demoState 100) (clks 3 ++ [Act.data 0 (demoBurst 100)] ++ clks 10) 0).g.log =
      [Event.accepted 3 (demoMsg 100), Event.stale 3 101] ∧
    (sghost (demoState 100) (clks 2 ++ [Act.data 0 (demoBurst 100)] ++ clks 11) 0).g.log =
      [Event.accepted 2 (demoMsg 100), Event.emitted 2 100] := by
  decide +kernel

/-- the recipient is POWERED OFF between the reads and the call (6 clock actions: the clock thread is
about to call `handle_data_msg` of transceiver 1): the burst is still delivered to transceiver 1's L1
(one datagram from its DATA port 6702) although transceiver 1 is not running any more; the same
POWEROFF one action earlier (before the reads): nothing is delivered.  The outcomes of the sender are
the same in both schedules (emitted in frame 100, stale, one burst still queued). -/
example :
    (exec (demoState 100) (demoArrivalActs ++ clks 6)).pc =
      Pc.hdl 100 0 (demoMsg 100) 100 (some 935000000) 1
        { Trxd.RxMsg.fresh with fn := some 100, tn := some 0, burst := some (List.replicate 148 (-127)) }
        [] [] [demoMsg 90] [1] ∧
    (exec (demoState 100) (demoArrivalActs ++ clks 6 ++ [Act.ctrl 1 6800 demoPoweroff] ++ clks 6)).pc = Pc.idle ∧
    (exec (demoState 100) (demoArrivalActs ++ clks 6 ++ [Act.ctrl 1 6800 demoPoweroff] ++ clks 6)).out.map
      (fun d => (d.lport, d.rport, d.data.take 6)) = [(6702, 6802, [0, 0, 0, 0, 100, 70])] ∧
    runningOf (exec (demoState 100) (demoArrivalActs ++ clks 6 ++ [Act.ctrl 1 6800 demoPoweroff] ++ clks 6)).w 1 = false ∧
    (exec (demoState 100) (demoArrivalActs ++ clks 5 ++ [Act.ctrl 1 6800 demoPoweroff] ++ clks 6)).pc = Pc.idle ∧
    (exec (demoState 100) (demoArrivalActs ++ clks 5 ++ [Act.ctrl 1 6800 demoPoweroff] ++ clks 6)).out = [] ∧
    (sghost (demoState 100) (demoArrivalActs ++ clks 6 ++ [Act.ctrl 1 6800 demoPoweroff] ++ clks 6) 0).g.log =
      (sghost (demoState 100) (demoArrivalActs ++ clks 5 ++ [Act.ctrl 1 6800 demoPoweroff] ++ clks 6) 0).g.log ∧
    (sghost (demoState 100) (demoArrivalActs ++ clks 6 ++ [Act.ctrl 1 6800 demoPoweroff] ++ clks 6) 0).g.ids = [2] ∧
    (sghost (demoState 100) (demoArrivalActs ++ clks 5 ++ [Act.ctrl 1 6800 demoPoweroff] ++ clks 6) 0).g.ids = [2] ∧
    (sghost (demoState 100) (demoArrivalActs ++ clks 6 ++ [Act.ctrl 1 6800 demoPoweroff] ++ clks 6) 0).g.log.drop 3 =
      [Event.emitted 0 100, Event.stale 1 100] := by
  decide +kernel

/-- the recipient is RE-VERSIONED (SETFORMAT 1) between the reads and the call: the datagram goes out
with the header version read earlier (octet 0 = 0x00, 158 octets: version 0) although transceiver 1's
header version is 1 by then; one action earlier the datagram has a version-1 header (octet 0 = 0x10,
159 octets) -/
example :
    (exec (demoState 100) (demoArrivalActs ++ clks 6 ++ [Act.ctrl 1 6800 demoSetformat1] ++ clks 8)).pc = Pc.idle ∧
    (exec (demoState 100) (demoArrivalActs ++ clks 6 ++ [Act.ctrl 1 6800 demoSetformat1] ++ clks 8)).out.map
      (fun d => (d.lport, d.data.take 1, d.data.length)) = [(6702, [0], 158)] ∧
    (exec (demoState 100) (demoArrivalActs ++ clks 6 ++ [Act.ctrl 1 6800 demoSetformat1] ++ clks 8)).w.trxs.map
      (fun t => t.hdrVer) = [0, 1] ∧
    (exec (demoState 100) (demoArrivalActs ++ clks 5 ++ [Act.ctrl 1 6800 demoSetformat1] ++ clks 9)).pc = Pc.idle ∧
    (exec (demoState 100) (demoArrivalActs ++ clks 5 ++ [Act.ctrl 1 6800 demoSetformat1] ++ clks 9)).out.map
      (fun d => (d.lport, d.data.take 1, d.data.length)) = [(6702, [16], 159)] := by
  decide +kernel

/-- the recipient is RETUNED (RXTUNE away from the sender's frequency) between the reads and the call:
the burst is still delivered; one action earlier it is not -/
example :
    (exec (demoState 100) (demoArrivalActs ++ clks 6 ++ [Act.ctrl 1 6800 demoRxtune] ++ clks 8)).pc = Pc.idle ∧
    (exec (demoState 100) (demoArrivalActs ++ clks 6 ++ [Act.ctrl 1 6800 demoRxtune] ++ clks 8)).out.length = 1 ∧
    (exec (demoState 100) (demoArrivalActs ++ clks 6 ++ [Act.ctrl 1 6800 demoRxtune] ++ clks 8)).w.trxs.map
      (fun t => t.rxFreq) = [some 890000000, some 890000000] ∧
    (exec (demoState 100) (demoArrivalActs ++ clks 5 ++ [Act.ctrl 1 6800 demoRxtune] ++ clks 8)).pc = Pc.idle ∧
    (exec (demoState 100) (demoArrivalActs ++ clks 5 ++ [Act.ctrl 1 6800 demoRxtune] ++ clks 8)).out = [] := by
  decide +kernel

/-- the hypotheses of `handle_uses_what_was_read` are satisfiable: the clock thread is about to do the
reads for recipient 1 of the burst of transceiver 0; POWEROFF of transceiver 1 runs between the reads and
the call; the control state is still `hdl` with the version-0 message built before -/
example :
    (exec ⟨demoWorld 100, Pc.fwd 100 0 (demoMsg 100) 100 (some 935000000) [1] [] [] [1], [], 0, []⟩
      (Act.clk :: [Act.ctrl 1 6800 demoPoweroff])).pc =
      Pc.hdl 100 0 (demoMsg 100) 100 (some 935000000) 1
        { Trxd.RxMsg.fresh with fn := some 100, tn := some 0, burst := some (List.replicate 148 (-127)) }
        [] [] [] [1] :=
  (handle_uses_what_was_read
    ⟨demoWorld 100, Pc.fwd 100 0 (demoMsg 100) 100 (some 935000000) [1] [] [] [1], [], 0, []⟩
    [Act.ctrl 1 6800 demoPoweroff] (by intro a ha; cases ha with | head => exact Act.noConfusion | tail _ h => cases h)
    100 0 100 1 (demoMsg 100) (some 935000000) [] [] [] [1] rfl
    { addr := 2, basePort := 6700, childIdx := 0, childMgt := false, hasClock := true,
      running := true, rxFreq := some 935000000, txFreq := some 890000000 }
    { Trxd.RxMsg.fresh with fn := some 100, tn := some 0, burst := some (List.replicate 148 (-127)) }
    (by decide) rfl rfl rfl (by decide +kernel)).1

/-- the wrap under the interleaving semantics: clock 2715647, burst for FN 0 -/
example :
    (sghost (demoState 2715647) ([Act.data 0 (demoBurst 0)] ++ clks 9) 0).g.ids = [0] ∧
    (exec (demoState 2715647) ([Act.data 0 (demoBurst 0)] ++ clks 9)).w.clkSrc = some 0 ∧
    (sghost (demoState 2715647) ([Act.data 0 (demoBurst 0)] ++ clks 9 ++ clks 4) 0).g.log =
      [Event.accepted 0 (demoMsg 0), Event.emitted 0 0] := by
  decide +kernel
end

end OsmoVerif.Props.C03
