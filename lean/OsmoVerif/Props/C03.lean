/-
C03 — Every queued burst is transmitted exactly once, in its own frame.
Property theorems only.  Model: `OsmoVerif.Model.World` (transceiver.py recv_data_msg / clck_tick /
power_event_handler, fake_trx.py clck_handler, ctrl_if*.py), interleaving semantics:
`OsmoVerif.Model.WorldSched`; spec: `OsmoVerif.Spec.TxQueue`; lemmas: `OsmoVerif.Lemmas.WorldFrame`,
`OsmoVerif.Lemmas.WorldQueue`, `OsmoVerif.Lemmas.WorldSched`.

Part A (sequential histories).  `ghost w0 ops j` is the ghost bookkeeping of transceiver `j`
after the history `ops` from `w0`: `ids` (ids of the queued messages, parallel to `txQueue`; an id
is the position of the accepting datagram in `ops`) and `log` (events accepted / emitted / stale /
cleared).  All theorems quantify over EVERY history `ops : List Op` — data datagrams with any octets
to any transceiver, TRXC datagrams with any octets (so any POWERON / POWEROFF / SETFORMAT / …
sequence), ticks, clock jumps — from any world `w0` in which the observed queue is empty
(`World.build` produces such worlds).
-/
import OsmoVerif.Lemmas.WorldQueue

namespace OsmoVerif.Props.C03
open OsmoVerif OsmoVerif.World OsmoVerif.Spec.TxQueue OsmoVerif.PyStr

/-! ## Part A — sequential histories -/

/-- Lock-step invariant of the bookkeeping: after every history the id list is as long as the
model's queue and the k-th queued message is the one that was accepted under the k-th id. -/
theorem lock_step (w0 : World) (ops : List Op) (j : Nat) (h0 : queueOf w0 j = []) :
    (ghost w0 ops j).ids.length = (queueOf (run w0 ops).1 j).length ∧
    ∀ p ∈ (ghost w0 ops j).ids.zip (queueOf (run w0 ops).1 j),
      Event.accepted p.1 p.2 ∈ (ghost w0 ops j).log := by
  have h := ghost_inv w0 ops j h0
  exact ⟨h.lock, fun p hp => h.tagged p (List.mem_append_left _ hp)⟩

/-- The property as the spec states it: after every history the log and the queued ids satisfy
`Spec.TxQueue.ExactlyOnce` (ids distinct; outcomes ++ queued is a permutation of accepted; emitted
only in the own frame; stale only when the frame had passed). -/
theorem exactly_once (w0 : World) (ops : List Op) (j : Nat) (h0 : queueOf w0 j = []) :
    ExactlyOnce (fun m : Trxd.TxMsg => m.fn) (ghost w0 ops j).log (ghost w0 ops j).ids := by
  have h := (ghost_inv w0 ops j h0).spec
  simpa only [List.map_nil, List.append_nil] using h

/-- `accept_iff`: the data datagram `d` sent to `j` after the history `ops` is accepted — logged as
`accepted (position) msg` and appended to `j`'s queue — iff its first `dataRecvSize` (512) octets
parse as `msg` (`TxMsg.parse_msg`), `msg.ver` is the configured header version of `j`, and `j` is
running (`Accepts`); if there is no such `msg` nothing changes at all. -/
theorem accept_iff (w0 : World) (ops : List Op) (j : Nat) (h0 : queueOf w0 j = []) (d : List Nat)
    (msg : Trxd.TxMsg) :
    (Event.accepted ops.length msg ∈ (ghost w0 (ops ++ [Op.data j d]) j).log ↔
      Accepts (run w0 ops).1 j d msg) ∧
    (Accepts (run w0 ops).1 j d msg →
      queueOf (run w0 (ops ++ [Op.data j d])).1 j = queueOf (run w0 ops).1 j ++ [msg] ∧
      (ghost w0 (ops ++ [Op.data j d]) j).ids = (ghost w0 ops j).ids ++ [ops.length]) ∧
    ((¬ ∃ m, Accepts (run w0 ops).1 j d m) →
      (run w0 (ops ++ [Op.data j d])).1 = (run w0 ops).1 ∧
      ghost w0 (ops ++ [Op.data j d]) j = ghost w0 ops j) := by
  have hinv := ghost_inv w0 ops j h0
  have hacc : Accepts (run w0 ops).1 j d msg →
      queueOf (run w0 (ops ++ [Op.data j d])).1 j = queueOf (run w0 ops).1 j ++ [msg] ∧
      ghost w0 (ops ++ [Op.data j d]) j =
        ⟨(ghost w0 ops j).ids ++ [ops.length], (ghost w0 ops j).log ++ [Event.accepted ops.length msg]⟩ := by
    intro ha
    rcases (recvDataMsg_queue (run w0 ops).1 j d j).2 with ⟨-, hn⟩ | ⟨-, m, hm, hq⟩
    · exact absurd ⟨rfl, msg, ha⟩ hn
    · cases ha.unique hm
      refine ⟨by rw [run_snoc]; exact hq, ?_⟩
      rw [ghost_snoc]
      simp only [ghostStep, step, hq, List.drop_left]
  refine ⟨⟨?_, fun ha => ?_⟩, fun ha => ?_, fun hn => ?_⟩
  · intro hm
    rw [ghost_snoc] at hm
    rcases ghostStep_mem hm with h | ⟨d', m, hop, ha, he⟩ | ⟨fn, p, hop, -⟩ | ⟨i, sp, d', id, hop, -⟩
    · exact absurd (hinv.fresh _ (mem_accIds.mpr ⟨_, h⟩)) (Nat.lt_irrefl _)
    · cases hop; cases he; exact ha
    · cases hop
    · cases hop
  · rw [(hacc ha).2]; simp
  · exact ⟨(hacc ha).1, by rw [(hacc ha).2]⟩
  · have hw := (recvDataMsg_reject hn).1
    refine ⟨by rw [run_snoc]; exact hw, ?_⟩
    rw [ghost_snoc]
    simp only [ghostStep, step, hw, List.drop_length]

/-- idle transceivers never accept: a datagram to a transceiver that is not running changes nothing -/
theorem idle_never_accepts (w : World) (j : Nat) (d : List Nat) (h : runningOf w j = false) :
    (step w (Op.data j d)).world = w := by
  apply (recvDataMsg_reject _).1
  rintro ⟨m, trx, ht, -, -, hr⟩
  simp [runningOf, ht, hr] at h

/-- `outcome_unique`: every id has at most one outcome event (emitted, stale or cleared), over the
whole history — in particular nothing is emitted twice, and nothing is both emitted and reported
stale or cleared. -/
theorem outcome_unique (w0 : World) (ops : List Op) (j : Nat) (h0 : queueOf w0 j = []) :
    (outIds (ghost w0 ops j).log).Nodup ∧
    ∀ id, (outIds (ghost w0 ops j).log).count id ≤ 1 := by
  have h := (exactly_once w0 ops j h0).outcome_unique
  exact ⟨h, fun id => List.nodup_iff_count.mp h id⟩

/-- `no_silent_loss`: after any history every accepted id either has an outcome or is still in the
queue (exactly once), never both; and only accepted ids have outcomes or are queued. -/
theorem no_silent_loss (w0 : World) (ops : List Op) (j : Nat) (h0 : queueOf w0 j = []) :
    (∀ id, id ∈ accIds (ghost w0 ops j).log ↔
      (id ∈ outIds (ghost w0 ops j).log ∨ id ∈ (ghost w0 ops j).ids)) ∧
    (∀ id ∈ (ghost w0 ops j).ids, id ∉ outIds (ghost w0 ops j).log) ∧
    (ghost w0 ops j).ids.Nodup ∧
    (∀ id, (ghost w0 ops j).ids.count id ≤ 1) := by
  have h := exactly_once w0 ops j h0
  exact ⟨h.accounted_iff, fun id hid => h.queued_no_outcome hid, h.queued_nodup,
    fun id => List.nodup_iff_count.mp h.queued_nodup id⟩

/-- `emitted_on_time`: a burst is handed to the forwarder only during the tick whose frame number is
the burst's own — never earlier or later (and, with `outcome_unique`, never twice). -/
theorem emitted_on_time (w0 : World) (ops : List Op) (j : Nat) (h0 : queueOf w0 j = []) (id tickFn : Nat)
    (h : Event.emitted id tickFn ∈ (ghost w0 ops j).log) :
    ∃ msg, Event.accepted id msg ∈ (ghost w0 ops j).log ∧ msg.fn = some (tickFn : Int) :=
  (exactly_once w0 ops j h0).on_time id tickFn h

/-- `emitted_while_running`: every `emitted` event was produced by a tick operation of the history,
at a moment when the clock generator ran with `clck_src = tickFn`, transceiver `j` was powered on,
and the burst was in `j`'s queue. -/
theorem emitted_while_running (w0 : World) (ops : List Op) (j : Nat) (id tickFn : Nat)
    (h : Event.emitted id tickFn ∈ (ghost w0 ops j).log) :
    ∃ pre post, ops = pre ++ Op.tick :: post ∧
      (run w0 pre).1.clkRunning = true ∧ (run w0 pre).1.clkSrc = some tickFn ∧
      runningOf (run w0 pre).1 j = true ∧ id ∈ (ghost w0 pre j).ids := by
  obtain ⟨pre, op, post, rfl, hn, hm⟩ := ghost_mem_origin w0 j ops h
  rw [ghost_snoc] at hm
  rcases ghostStep_mem hm with h | ⟨d', m, -, -, he⟩ | ⟨fn, p, hop, hr, hs, hrun, hp, hc | hc⟩ |
      ⟨i, sp, d', id', -, -, he, -⟩
  · exact absurd h hn
  · cases he
  · subst hop
    cases hc.2
    exact ⟨pre, post, rfl, hr, hs, hrun, (List.of_mem_zip hp).1⟩
  · cases hc.2
  · cases he

end OsmoVerif.Props.C03
