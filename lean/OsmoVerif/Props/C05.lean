/-
C05 — every TRXC command gets exactly one well-formed response with documented effect.
Property theorems only (toolkit side; trxcon's response parser is in Props/Trxcon).
World model: `OsmoVerif.World` (Model/World.lean), command semantics: `OsmoVerif.Spec.Trxc`.
-/
import OsmoVerif.Lemmas.WorldCtrl

namespace OsmoVerif.Props.C05
open OsmoVerif OsmoVerif.World OsmoVerif.PyStr

/-- `parse_cmd` raises nothing but ValueError: the `request[k]` IndexError is unreachable after
`verify_cmd`, `power_event_handler` cannot fail for an existing transceiver, and the `randint`
ranges of `FakePM` (regenerated constants) are non-empty. -/
theorem parseCmd_only_valueError (w : World) (i : Nat) (req : List Str) (e : Exc)
    (hi : i < w.trxs.length) (h : parseCmd w i req = .error e) : e = .valueError :=
  World.parseCmd_only_valueError hi h

/-- Every datagram whose first `ctrlRecvSize` octets decode to a text starting with "CMD" gets
exactly one reply, sent to the sender's address from the transceiver's control port, of the form
`RSP <verb> <status> <original arguments> [results]\0`; no exception leaves `handle_rx`.
Status, results and new world are those of `parse_cmd`, or −1 / none / unchanged on ValueError. -/
theorem one_reply_per_cmd (w : World) (i a p : Nat) (d : List Nat) (s : Str)
    (hi : i < w.trxs.length)
    (hd : decodeUtf8 (d.take Gen.World.ctrlRecvSize) = some s)
    (hp : startsWith s (lit "CMD") = true) :
    ∃ (t : Trx) (verb : Str) (args : List Str) (status : Int) (results : List Str),
      w.trxs[i]? = some t ∧
      splitSpace (stripNul (strip (s.drop 4))) = verb :: args ∧
      (handleRx w i a p d).exc = none ∧
      (handleRx w i a p d).out =
        [⟨t.ctrlPort, a, p,
          encodeUtf8 (lit "RSP " ++ joinSpace (verb :: intToStr status :: (args ++ results)) ++ [0])⟩] ∧
      (parseCmd w i (verb :: args) = .ok ((handleRx w i a p d).world, (status, results)) ∨
       (parseCmd w i (verb :: args) = .error .valueError ∧ status = -1 ∧ results = [] ∧
        (handleRx w i a p d).world = w)) := by
  obtain ⟨t, ht⟩ := getElem?_of_lt hi
  obtain ⟨verb, args, hreq⟩ := request_cons s
  obtain ⟨rc, params, w', h, hpc⟩ := handleRx_reply a p ht hd hp
  refine ⟨t, verb, args, rc, params, ht, hreq, ?_, ?_, ?_⟩
  · rw [h]
  · rw [h, hreq]; rfl
  · rw [h, ← hreq]; exact hpc

/-- A datagram that is not text, or does not start with "CMD", is ignored: no datagram is sent,
no exception is raised, nothing changes. -/
theorem silent_without_prefix (w : World) (i a p : Nat) (d : List Nat)
    (hi : i < w.trxs.length)
    (h : decodeUtf8 (d.take Gen.World.ctrlRecvSize) = none ∨
         ∃ s, decodeUtf8 (d.take Gen.World.ctrlRecvSize) = some s ∧ startsWith s (lit "CMD") = false) :
    (handleRx w i a p d).out = [] ∧ (handleRx w i a p d).exc = none ∧
      (handleRx w i a p d).world = w := by
  obtain ⟨t, ht⟩ := getElem?_of_lt hi
  rcases h with hd | ⟨s, hd, hp⟩
  · rw [handleRx_undecodable a p ht hd]; exact ⟨rfl, rfl, rfl⟩
  · rw [handleRx_noprefix a p ht hd hp]; exact ⟨rfl, rfl, rfl⟩

/-- Malformed arguments (ValueError from `int()`) are answered with status −1, the verb and the
arguments echoed, and nothing changes. -/
theorem bad_args_no_effect (w : World) (i a p : Nat) (d : List Nat) (s : Str) (t : Trx)
    (verb : Str) (args : List Str)
    (ht : w.trxs[i]? = some t)
    (hd : decodeUtf8 (d.take Gen.World.ctrlRecvSize) = some s)
    (hp : startsWith s (lit "CMD") = true)
    (hreq : splitSpace (stripNul (strip (s.drop 4))) = verb :: args)
    (hv : parseCmd w i (verb :: args) = .error .valueError) :
    handleRx w i a p d =
      { world := w
        out := [⟨t.ctrlPort, a, p,
          encodeUtf8 (lit "RSP " ++ joinSpace (verb :: intToStr (-1) :: args) ++ [0])⟩] } := by
  obtain ⟨rc, params, w', h, hpc⟩ := handleRx_reply a p ht hd hp
  have hreq' : request s = verb :: args := hreq
  rw [hreq'] at hpc h
  rcases hpc with hok | ⟨_, rfl, rfl, rfl⟩
  · rw [hv] at hok; cases hok
  · rw [h]; simp only [rspText, List.append_nil]

end OsmoVerif.Props.C05
