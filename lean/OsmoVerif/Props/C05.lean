/-
C05 — every TRXC command gets exactly one well-formed response with documented effect.
Property theorems only (toolkit side; trxcon's response parser is in Props/Trxcon).
World model: `OsmoVerif.World` (Model/World.lean), command semantics: `OsmoVerif.Spec.Trxc`.
-/
import OsmoVerif.Lemmas.WorldText
import OsmoVerif.Lemmas.WorldExamples

namespace OsmoVerif.Props.C05
open OsmoVerif OsmoVerif.World OsmoVerif.PyStr

/-- `parse_cmd` raises nothing but ValueError: the `request[k]` IndexError is unreachable after
`verify_cmd`, `power_event_handler` cannot fail for an existing transceiver, and the `randint`
ranges of `FakePM` (regenerated constants) are non-empty. -/
theorem parseCmd_only_valueError (w : World) (i : Nat) (req : List Str) (e : Exc)
    (hi : i < w.trxs.length) (h : parseCmd w i req = .error e) : e = .valueError :=
  World.parseCmd_only_valueError hi h

/-- Every datagram whose first `ctrlRecvSize` octets decode to a text starting with "CMD" gets
exactly one reply, sent to the sender's address from the transceiver's control port, of the form
`RSP <verb> <status> <original arguments> [results]\0`; no exception leaves `handle_rx`.
Status, results and new world are those of `parse_cmd`, or −1 / none / unchanged on ValueError. -/
theorem one_reply_per_cmd (w : World) (i a p : Nat) (d : List Nat) (s : Str)
    (hi : i < w.trxs.length)
    (hd : decodeUtf8 (d.take Gen.World.ctrlRecvSize) = some s)
    (hp : startsWith s (lit "CMD") = true) :
    ∃ (t : Trx) (verb : Str) (args : List Str) (status : Int) (results : List Str),
      w.trxs[i]? = some t ∧
      splitSpace (stripNul (strip (s.drop 4))) = verb :: args ∧
      (handleRx w i a p d).exc = none ∧
      (handleRx w i a p d).out =
        [⟨t.ctrlPort, a, p,
          encodeUtf8 (lit "RSP " ++ joinSpace (verb :: intToStr status :: (args ++ results)) ++ [0])⟩] ∧
      (parseCmd w i (verb :: args) = .ok ((handleRx w i a p d).world, (status, results)) ∨
       (parseCmd w i (verb :: args) = .error .valueError ∧ status = -1 ∧ results = [] ∧
        (handleRx w i a p d).world = w)) := by
  obtain ⟨t, ht⟩ := getElem?_of_lt hi
  obtain ⟨verb, args, hreq⟩ := request_cons s
  obtain ⟨rc, params, w', h, hpc⟩ := handleRx_reply a p ht hd hp
  refine ⟨t, verb, args, rc, params, ht, hreq, ?_, ?_, ?_⟩
  · rw [h]
  · rw [h, hreq]; rfl
  · rw [h, ← hreq]; exact hpc

/-- A datagram that is not text, or does not start with "CMD", is ignored: no datagram is sent,
no exception is raised, nothing changes. -/
theorem silent_without_prefix (w : World) (i a p : Nat) (d : List Nat)
    (hi : i < w.trxs.length)
    (h : decodeUtf8 (d.take Gen.World.ctrlRecvSize) = none ∨
         ∃ s, decodeUtf8 (d.take Gen.World.ctrlRecvSize) = some s ∧ startsWith s (lit "CMD") = false) :
    (handleRx w i a p d).out = [] ∧ (handleRx w i a p d).exc = none ∧
      (handleRx w i a p d).world = w := by
  obtain ⟨t, ht⟩ := getElem?_of_lt hi
  rcases h with hd | ⟨s, hd, hp⟩
  · rw [handleRx_undecodable a p ht hd]; exact ⟨rfl, rfl, rfl⟩
  · rw [handleRx_noprefix a p ht hd hp]; exact ⟨rfl, rfl, rfl⟩

/-- Malformed arguments (ValueError from `int()`) are answered with status −1, the verb and the
arguments echoed, and nothing changes. -/
theorem bad_args_no_effect (w : World) (i a p : Nat) (d : List Nat) (s : Str) (t : Trx)
    (verb : Str) (args : List Str)
    (ht : w.trxs[i]? = some t)
    (hd : decodeUtf8 (d.take Gen.World.ctrlRecvSize) = some s)
    (hp : startsWith s (lit "CMD") = true)
    (hreq : splitSpace (stripNul (strip (s.drop 4))) = verb :: args)
    (hv : parseCmd w i (verb :: args) = .error .valueError) :
    handleRx w i a p d =
      { world := w
        out := [⟨t.ctrlPort, a, p,
          encodeUtf8 (lit "RSP " ++ joinSpace (verb :: intToStr (-1) :: args) ++ [0])⟩] } := by
  obtain ⟨rc, params, w', h, hpc⟩ := handleRx_reply a p ht hd hp
  have hreq' : request s = verb :: args := hreq
  rw [hreq'] at hpc h
  rcases hpc with hok | ⟨_, rfl, rfl, rfl⟩
  · rw [hv] at hok; cases hok
  · rw [h]; simp only [rspText, List.append_nil]

/-! ### documented effect of every command

Stated on `parse_cmd`; `one_reply_per_cmd` carries status, results and new world into the reply
and the world after `handle_rx`.  `t` is the addressed transceiver (`w.trxs[i]? = some t`),
arguments are the strings of the request with `pyInt a = some v` (`int(a) == v`). -/

/-- POWERON: −1 while running; −1 unless tuned (Rx and Tx frequency set) or hopping; otherwise 0
and `power_event_handler(poweron=True)` has been applied. -/
theorem poweron_status (w : World) (i : Nat) (t : Trx) (ht : w.trxs[i]? = some t) :
    powerEvent w i true = .ok (powered w i t true) ∧
    parseCmd w i [lit "POWERON"] =
      .ok (if t.running then (w, (-1, []))
           else if ¬ ((t.rxFreq.isSome && t.txFreq.isSome) || t.fh.isSome) then (w, (-1, []))
           else (powered w i t true, (0, []))) := by
  refine ⟨powerEvent_powered ht true, ?_⟩
  rw [← ready_iff]
  cases hr : t.running with
  | true => simp only [if_true]; exact parseCmd_poweron_running ht hr
  | false =>
    cases hrd : t.ready with
    | false => simp [parseCmd_poweron_notready ht hr hrd]
    | true => simp [parseCmd_poweron_ok ht hr hrd]

/-- POWEROFF: always 0, `power_event_handler(poweron=False)` applied (running cleared, queue
flushed, hopping disabled, clock stopped with the last link). -/
theorem poweroff_status (w : World) (i : Nat) (t : Trx) (ht : w.trxs[i]? = some t) :
    powerEvent w i false = .ok (powered w i t false) ∧
    parseCmd w i [lit "POWEROFF"] = .ok (powered w i t false, (0, [])) :=
  ⟨powerEvent_powered ht false, parseCmd_poweroff ht⟩

/-- RXTUNE <kHz>: status 0, `_rx_freq = kHz·1000` -/
theorem rxtune_effect (w : World) (i : Nat) (t : Trx) (a : Str) (v : Int)
    (ht : w.trxs[i]? = some t) (ha : pyInt a = some v) :
    parseCmd w i [lit "RXTUNE", a] =
      .ok (setTrx w i (fun t => { t with rxFreq := some (v * 1000) }), (0, [])) :=
  parseCmd_rxtune ht ha

/-- TXTUNE <kHz>: status 0, `_tx_freq = kHz·1000` -/
theorem txtune_effect (w : World) (i : Nat) (t : Trx) (a : Str) (v : Int)
    (ht : w.trxs[i]? = some t) (ha : pyInt a = some v) :
    parseCmd w i [lit "TXTUNE", a] =
      .ok (setTrx w i (fun t => { t with txFreq := some (v * 1000) }), (0, [])) :=
  parseCmd_txtune ht ha

/-- SETFH <HSN> <MAIO> <RXF1> <TXF1> …: status 0 and `fh = HoppingParams(hsn, maio, pairs)` with
the (Rx, Tx) pairs in Hz (an odd trailing frequency dropped) iff 0 ≤ HSN < 64; otherwise −1 and
nothing changes.  (At least one pair is guaranteed by the four-argument minimum.) -/
theorem setfh_effect (w : World) (i : Nat) (t : Trx) (h m c d : Str) (r : List Str)
    (hsn maio : Int) (fvals : List Int)
    (ht : w.trxs[i]? = some t) (hh : pyInt h = some hsn) (hm : pyInt m = some maio)
    (hf : IntArgs (c :: d :: r) fvals) :
    Spec.Trxc.pairsHz fvals ≠ [] ∧
    parseCmd w i (lit "SETFH" :: h :: m :: c :: d :: r) =
      .ok (if 0 ≤ hsn ∧ hsn < 64 then
             (setTrx w i (fun t => { t with fh := some (Hopping.HoppingParams.mk hsn maio
                (Spec.Trxc.pairsHz fvals) (Hopping.powNbinMask (Spec.Trxc.pairsHz fvals).length)) }),
              (0, []))
           else (w, (-1, []))) := by
  constructor
  · obtain ⟨v1, vs1, rfl, _, hf1⟩ := intArgs_cons hf
    obtain ⟨v2, vs2, rfl, _, _⟩ := intArgs_cons hf1
    exact pairsHz_ne_nil _ _ _
  · by_cases hr : 0 ≤ hsn ∧ hsn < 64
    · rw [if_pos hr]; exact parseCmd_setfh_ok ht hh hm hf hr
    · rw [if_neg hr]; exact parseCmd_setfh_badhsn ht hh hm hf (by omega)

/-- SETFH with fewer than four arguments matches no row of the table: it falls through to the
"unknown command" acknowledgement — status 0, nothing changes. -/
theorem setfh_short_ack0 (w : World) (i : Nat) (t : Trx) (args : List Str)
    (ht : w.trxs[i]? = some t) (hl : args.length < 4) :
    parseCmd w i (lit "SETFH" :: args) = .ok (w, (0, [])) := by
  apply parseCmd_unknown ht
  rw [notInTable_iff]
  have key : ∀ n : Fin 4, ∀ r ∈ Spec.Trxc.table, r.matches "SETFH" n.val = false := by decide
  exact key ⟨args.length, hl⟩

/-- SETFORMAT <ver>: −1 for ver < 0 or ver > 15; a version in KNOWN_VERSIONS is applied and
echoed; an unsupported version in range is answered with the highest supported lower version
(here 1) and nothing is applied. -/
theorem setformat_status (w : World) (i : Nat) (t : Trx) (a : Str) (v : Int)
    (ht : w.trxs[i]? = some t) (ha : pyInt a = some v) :
    parseCmd w i [lit "SETFORMAT", a] =
      .ok (if v < 0 ∨ v > 15 then (w, (-1, []))
           else if v ∈ Gen.Trxd.knownVersions then
             (setTrx w i (fun t => { t with hdrVer := v }), (v, []))
           else (w, (Spec.Trxc.highestSupportedUpTo v, []))) := by
  by_cases hr : v < 0 ∨ v > 15
  · rw [if_pos hr]; exact parseCmd_setformat_range ht ha hr
  · rw [if_neg hr]
    by_cases hk : v = 0 ∨ v = 1
    · have : v ∈ Gen.Trxd.knownVersions := by rcases hk with rfl | rfl <;> decide
      rw [if_pos this]; exact parseCmd_setformat_known ht ha hk
    · have hm : ¬ v ∈ Gen.Trxd.knownVersions := by
        intro hm
        simp [Gen.Trxd.knownVersions] at hm
        omega
      have hh : Spec.Trxc.highestSupportedUpTo v = 1 := by
        have : ∀ n : Fin 14, Spec.Trxc.highestSupportedUpTo ((n.val : Int) + 2) = 1 := by decide
        have h2 := this ⟨(v - 2).toNat, by omega⟩
        simp only at h2
        rwa [show (((v - 2).toNat : Nat) : Int) + 2 = v by omega] at h2
      rw [if_neg hm, hh]; exact parseCmd_setformat_unsupported ht ha (by omega)

/-- MEASURE <kHz>: status 0 and one result, the `drawK`-th draw of the run from the transmitter
range (−75…−50) iff a running, non-hopping transceiver transmits on kHz·1000, else from the noise
range (−120…−105); the only state change is the draw counter.  −1 without a power meter. -/
theorem measure_effect (w : World) (i : Nat) (t : Trx) (a : Str) (v : Int)
    (ht : w.trxs[i]? = some t) (ha : pyInt a = some v) (hpm : t.hasPm = true) :
    ∃ dbm lo hi,
      (lo, hi) = Spec.Trxc.measureRange (fakePmFound w.trxs (v * 1000)) ∧
      (fakePmFound w.trxs (v * 1000) = true ↔
        ∃ x ∈ w.trxs, x.running = true ∧ x.fh = none ∧ x.txFreq = some (v * 1000)) ∧
      draw w.seed w.drawK lo hi = .ok dbm ∧ lo ≤ dbm ∧ dbm ≤ hi ∧
      parseCmd w i [lit "MEASURE", a] =
        .ok ({ w with drawK := w.drawK + 1 }, (0, [intToStr dbm])) := by
  obtain ⟨dbm, hd, hlo, hhi, hp⟩ := parseCmd_measure ht ha hpm
  rw [pmRange_spec] at hd hlo hhi
  exact ⟨dbm, _, _, rfl, fakePmFound_iff _ _, hd, hlo, hhi, hp⟩

theorem measure_without_meter (w : World) (i : Nat) (t : Trx) (a : Str)
    (ht : w.trxs[i]? = some t) (hpm : t.hasPm = false) :
    parseCmd w i [lit "MEASURE", a] = .ok (w, (-1, [])) :=
  parseCmd_measure_nopm ht hpm

/-- SETPOWER <att>: status 0, `tx_att_base = att` -/
theorem setpower_effect (w : World) (i : Nat) (t : Trx) (a : Str) (v : Int)
    (ht : w.trxs[i]? = some t) (ha : pyInt a = some v) :
    parseCmd w i [lit "SETPOWER", a] =
      .ok (setTrx w i (fun t => { t with txAttBase := v }), (0, [])) :=
  parseCmd_setpower ht ha

/-- NOMTXPOWER: status 0, one result `str(tx_power_base)`, no state change -/
theorem nomtxpower_reply (w : World) (i : Nat) (t : Trx) (ht : w.trxs[i]? = some t) :
    parseCmd w i [lit "NOMTXPOWER"] = .ok (w, (0, [intToStr t.txPowerBase])) :=
  parseCmd_nomtxpower ht

/-- RFMUTE <v>: status 0, `rf_muted = (v > 0)` -/
theorem rfmute_effect (w : World) (i : Nat) (t : Trx) (a : Str) (v : Int)
    (ht : w.trxs[i]? = some t) (ha : pyInt a = some v) :
    parseCmd w i [lit "RFMUTE", a] =
      .ok (setTrx w i (fun t => { t with rfMuted := decide (v > 0) }), (0, [])) :=
  parseCmd_rfmute ht ha

/-- SETTA <ta>: status 0, `ta` stored -/
theorem setta_effect (w : World) (i : Nat) (a : Str) (v : Int) (ha : pyInt a = some v) :
    parseCmd w i [lit "SETTA", a] = .ok (setTrx w i (fun t => { t with ta := v }), (0, [])) :=
  parseCmd_setta ha

/-- FAKE_TOA <base> <thr>: −1 and no effect for a negative threshold, else 0 and both stored -/
theorem fake_toa_abs (w : World) (i : Nat) (a b : Str) (base thr : Int)
    (ha : pyInt a = some base) (hb : pyInt b = some thr) :
    parseCmd w i [lit "FAKE_TOA", a, b] =
      .ok (if thr < 0 then (w, (-1, []))
           else (setTrx w i (fun t => { t with toaBase := base, toaThr := thr }), (0, []))) := by
  by_cases h0 : thr < 0
  · rw [if_pos h0]; exact parseCmd_fake_toa_neg ha hb h0
  · rw [if_neg h0]; exact parseCmd_fake_toa ha hb (by omega)

theorem fake_toa_rel (w : World) (i : Nat) (a : Str) (d : Int) (ha : pyInt a = some d) :
    parseCmd w i [lit "FAKE_TOA", a] =
      .ok (setTrx w i (fun t => { t with toaBase := t.toaBase + d }), (0, [])) :=
  parseCmd_fake_toa_rel ha

/-- FAKE_RSSI <base> <thr>: a negative threshold disables the simulation (status 0, base not
even parsed); otherwise 0, both stored, simulation enabled -/
theorem fake_rssi_abs (w : World) (i : Nat) (a b : Str) (base thr : Int)
    (ha : pyInt a = some base) (hb : pyInt b = some thr) (h0 : 0 ≤ thr) :
    parseCmd w i [lit "FAKE_RSSI", a, b] =
      .ok (setTrx w i (fun t => { t with rssiBase := base, rssiThr := thr, fakeRssi := true }),
        (0, [])) :=
  parseCmd_fake_rssi ha hb h0

theorem fake_rssi_disable (w : World) (i : Nat) (a b : Str) (thr : Int)
    (hb : pyInt b = some thr) (h0 : thr < 0) :
    parseCmd w i [lit "FAKE_RSSI", a, b] =
      .ok (setTrx w i (fun t => { t with fakeRssi := false }), (0, [])) :=
  parseCmd_fake_rssi_off hb h0

theorem fake_rssi_rel (w : World) (i : Nat) (a : Str) (d : Int) (ha : pyInt a = some d) :
    parseCmd w i [lit "FAKE_RSSI", a] =
      .ok (setTrx w i (fun t => { t with rssiBase := t.rssiBase + d }), (0, [])) :=
  parseCmd_fake_rssi_rel ha

/-- FAKE_CI <base> <thr>: as FAKE_TOA -/
theorem fake_ci_abs (w : World) (i : Nat) (a b : Str) (base thr : Int)
    (ha : pyInt a = some base) (hb : pyInt b = some thr) :
    parseCmd w i [lit "FAKE_CI", a, b] =
      .ok (if thr < 0 then (w, (-1, []))
           else (setTrx w i (fun t => { t with ciBase := base, ciThr := thr }), (0, []))) := by
  by_cases h0 : thr < 0
  · rw [if_pos h0]; exact parseCmd_fake_ci_neg ha hb h0
  · rw [if_neg h0]; exact parseCmd_fake_ci ha hb (by omega)

theorem fake_ci_rel (w : World) (i : Nat) (a : Str) (d : Int) (ha : pyInt a = some d) :
    parseCmd w i [lit "FAKE_CI", a] =
      .ok (setTrx w i (fun t => { t with ciBase := t.ciBase + d }), (0, [])) :=
  parseCmd_fake_ci_rel ha

/-- FAKE_DROP <n>: −1 for n < 0, else 0 and (amount, period) = (n, 1) -/
theorem fake_drop_amount (w : World) (i : Nat) (a : Str) (n : Int) (ha : pyInt a = some n) :
    parseCmd w i [lit "FAKE_DROP", a] =
      .ok (if n < 0 then (w, (-1, []))
           else (setTrx w i (fun t => { t with dropAmount := n, dropPeriod := 1 }), (0, []))) := by
  by_cases h0 : n < 0
  · rw [if_pos h0]; exact parseCmd_fake_drop1_neg ha h0
  · rw [if_neg h0]; exact parseCmd_fake_drop1 ha (by omega)

/-- FAKE_DROP <n> <period>: −1 for n < 0 or period ≤ 0, else 0 and both stored -/
theorem fake_drop_period (w : World) (i : Nat) (a b : Str) (n per : Int)
    (ha : pyInt a = some n) (hb : pyInt b = some per) :
    parseCmd w i [lit "FAKE_DROP", a, b] =
      .ok (if n < 0 ∨ per ≤ 0 then (w, (-1, []))
           else (setTrx w i (fun t => { t with dropAmount := n, dropPeriod := per }), (0, []))) := by
  by_cases h0 : n < 0
  · rw [if_pos (.inl h0)]; exact parseCmd_fake_drop2_neg ha h0
  · by_cases h1 : per ≤ 0
    · rw [if_pos (.inr h1)]; exact parseCmd_fake_drop2_badperiod ha hb (by omega) h1
    · rw [if_neg (by omega)]; exact parseCmd_fake_drop2 ha hb (by omega) (by omega)

/-- FAKE_TRXC_DELAY <ms>: a delay of 0..60000 ms is stored and acknowledged with 0; a negative one or
one above one minute is refused with −1 and changes nothing -/
theorem fake_trxc_delay_effect (w : World) (i : Nat) (t : Trx) (a : Str) (ms : Int)
    (ht : w.trxs[i]? = some t) (ha : pyInt a = some ms) :
    parseCmd w i [lit "FAKE_TRXC_DELAY", a] =
      .ok (if ms < 0 ∨ ms > 60000 then (w, (-1, []))
           else (setTrx w i (fun t => { t with rspDelay := ms }), (0, []))) := by
  by_cases hb : ms < 0 ∨ ms > 60000
  · rw [if_pos hb]; exact parseCmd_fake_trxc_delay_bad ha hb
  · rw [if_neg hb]; exact parseCmd_fake_trxc_delay ht ha (by omega) (by omega)

/-- any verb / argument-count combination that is not a row of the documented table
(`NotInTable`: every `verify_cmd(request, V, n)` of the table is false) is acknowledged with
status 0 and has no effect -/
theorem unknown_verb_ack0 (w : World) (i : Nat) (t : Trx) (req : List Str)
    (ht : w.trxs[i]? = some t) (h : NotInTable req) : parseCmd w i req = .ok (w, (0, [])) :=
  parseCmd_unknown ht h

/-- the rows of the documented table are mutually exclusive (its order carries no meaning) -/
theorem table_rows_exclusive : Spec.Trxc.rowsExclusive = true := by decide

/-- **`parse_cmd` implements the documented command table** (`Spec.Trxc.semantics`): for every
verb `V` and every argument list that `int()` accepts, the status is the documented one and the
new world and result parameters realise the documented effect. -/
theorem cmd_meets_spec (w : World) (i : Nat) (t : Trx) (ht : w.trxs[i]? = some t)
    (V : String) (args : List Str) (vals : List Int) (ha : IntArgs args vals) :
    ∃ w' res,
      parseCmd w i (lit V :: args) =
        .ok (w', ((Spec.Trxc.semantics (viewOf t) V vals).status, res)) ∧
      Realises w i t (Spec.Trxc.semantics (viewOf t) V vals).effect w' res :=
  parseCmd_meets_spec ht V args vals ha

/-! ### reply form (what trxcon's response parser is given)

`cmdText V args` is the datagram `CMD <V> <arg> … <arg>\0`, `rspTextOf V status args results` the
datagram `RSP <V> <status> <arg> … <arg>[ <result>]\0` (octets = ASCII code points); a `Token` is a
non-empty word of printable ASCII characters other than the space. -/

/-- Any well-formed command text that fits the receive buffer is answered, octet for octet, by
`RSP <VERB> <status> <same arguments>[ <result>]\0`: status an optionally signed decimal
(`intToStr`), a result (one decimal number) only for MEASURE and NOMTXPOWER. -/
theorem reply_form (w : World) (i a p : Nat) (t : Trx) (ht : w.trxs[i]? = some t)
    (V : Str) (args : List Str) (h : ∀ x ∈ V :: args, Token x)
    (hlen : (cmdText V args).length ≤ Gen.World.ctrlRecvSize) :
    ∃ status results w',
      handleRx w i a p (cmdText V args) =
        { world := w', out := [⟨t.ctrlPort, a, p, rspTextOf V status args results⟩] } ∧
      (results = [] ∨
        ((V = lit "MEASURE" ∨ V = lit "NOMTXPOWER") ∧ ∃ v, results = [intToStr v])) ∧
      (parseCmd w i (V :: args) = .ok (w', (status, results)) ∨
       (parseCmd w i (V :: args) = .error .valueError ∧ status = -1 ∧ results = [] ∧ w' = w)) :=
  handleRx_cmdText a p ht V args h hlen

/-- For each command text trxcon emits (`CMD ECHO`, `CMD POWEROFF`, `CMD POWERON`, `CMD RXTUNE <u>`,
`CMD TXTUNE <u>`, `CMD MEASURE <u>`, `CMD SETSLOT <u> <u>`, `CMD SETTA <d>`,
`CMD SETFH <u> <u> <u> <u> …`; NUL-terminated, decimal arguments) the reply is
`RSP <VERB> <status> <same arguments>[ <dbm>]\0` with a decimal result only for MEASURE —
the premise of `trxcon_accepts_rsp` (Props/Trxcon). -/
theorem reply_form_for_trxcon (w : World) (i a p : Nat) (t : Trx) (ht : w.trxs[i]? = some t)
    (c : TrxconCmd) (hlen : c.text.length ≤ Gen.World.ctrlRecvSize) :
    ∃ (status : Int) (results : List Str) (w' : World),
      handleRx w i a p c.text =
        { world := w', out := [⟨t.ctrlPort, a, p, rspTextOf c.verb status c.args results⟩] } ∧
      (results = [] ∨ (c.verb = lit "MEASURE" ∧ ∃ dbm, results = [intToStr dbm])) := by
  obtain ⟨status, results, w', h1, h2, _⟩ := handleRx_cmdText a p ht c.verb c.args c.tokens hlen
  refine ⟨status, results, w', h1, ?_⟩
  rcases h2 with h2 | ⟨hv | hv, hr⟩
  · exact .inl h2
  · exact .inr ⟨hv, hr⟩
  · exact absurd hv c.verb_ne_nomtxpower

/-- General length of a command text: 5 octets ("CMD ", NUL) + verb + one separator per argument -/
theorem cmd_text_length (V : Str) (args : List Str) :
    (cmdText V args).length = 5 + V.length + (args.map (·.length + 1)).sum :=
  cmdText_length V args

/-- SETFH is not truncated by `recvfrom(1024)`: a SETFH text as trxcon composes it — HSN, MAIO
`uint8_t`, `n` pairs of frequencies of at most `k` digits that fit its `ma_buf[1000]`
(`2·n·(k+1) ≤ 999`; e.g. 64 pairs of 6-digit or 62 pairs of 7-digit kHz values) — is at most
1017 octets ≤ `ctrlRecvSize`, so `take ctrlRecvSize` is the identity on it.  (A 64-pair text of
7-digit frequencies would be 1040 octets, but trxcon cannot emit it: `trx_if_cmd_setfh` returns
−ENOSPC.)  This is the theorem that fails if `recvfrom(128)` comes back. -/
theorem setfh_not_truncated (hsn maio : Nat) (pairs : List (Nat × Nat)) (k : Nat) (hk : 0 < k)
    (hh : hsn < 256) (hm : maio < 256) (hf : ∀ p ∈ pairs, p.1 < 10 ^ k ∧ p.2 < 10 ^ k)
    (hfit : 2 * pairs.length * (k + 1) ≤ 999) :
    (TrxconCmd.setfh hsn maio pairs).text.length ≤ 1017 ∧
    1017 ≤ Gen.World.ctrlRecvSize ∧
    (TrxconCmd.setfh hsn maio pairs).text.take Gen.World.ctrlRecvSize =
      (TrxconCmd.setfh hsn maio pairs).text := by
  have h1 := trxcon_setfh_length hsn maio pairs k hk (by omega) (by omega) hf hfit
  have h2 : 1017 ≤ Gen.World.ctrlRecvSize := by decide
  exact ⟨h1, h2, List.take_of_length_le (by omega)⟩

/-- the two extreme mobile allocations trxcon can encode -/
theorem setfh_max_fits :
    2 * 64 * (6 + 1) ≤ 999 ∧ 2 * 62 * (7 + 1) ≤ 999 ∧ ¬ (2 * 63 * (7 + 1) ≤ 999) := by decide

/-! ### non-vacuity: every status branch is reachable (kernel evaluation of the model on concrete
datagrams to the MS-side transceiver of the default application, replies as NUL-terminated text) -/

open Ex in
example : (handleRx w0 1 2 6801 (z "CMD RXTUNE 935000")).out =
    [⟨6701, 2, 6801, z "RSP RXTUNE 0 935000"⟩] := by decide +kernel

/-- POWERON refused until tuned, accepted once, refused while running; POWEROFF -/
example : Ex.replies Ex.w0 [Ex.z "CMD POWERON", Ex.z "CMD RXTUNE 935000", Ex.z "CMD TXTUNE 890000",
      Ex.z "CMD POWERON", Ex.z "CMD POWERON", Ex.z "CMD POWEROFF"] =
    [[Ex.z "RSP POWERON -1"], [Ex.z "RSP RXTUNE 0 935000"], [Ex.z "RSP TXTUNE 0 890000"],
     [Ex.z "RSP POWERON 0"], [Ex.z "RSP POWERON -1"], [Ex.z "RSP POWEROFF 0"]] := by decide +kernel

/-- POWERON accepted when only hopping is configured -/
example : Ex.replies Ex.w0 [Ex.z "CMD SETFH 0 0 935000 890000 935200 890200", Ex.z "CMD POWERON"] =
    [[Ex.z "RSP SETFH 0 0 0 935000 890000 935200 890200"], [Ex.z "RSP POWERON 0"]] := by
  decide +kernel

/-- SETFORMAT: applied / highest supported lower version / out of range -/
example : Ex.replies Ex.w0 [Ex.z "CMD SETFORMAT 1", Ex.z "CMD SETFORMAT 2", Ex.z "CMD SETFORMAT 15",
      Ex.z "CMD SETFORMAT 16", Ex.z "CMD SETFORMAT -1"] =
    [[Ex.z "RSP SETFORMAT 1 1"], [Ex.z "RSP SETFORMAT 1 2"], [Ex.z "RSP SETFORMAT 1 15"],
     [Ex.z "RSP SETFORMAT -1 16"], [Ex.z "RSP SETFORMAT -1 -1"]] := by decide +kernel

/-- simulation commands: refused values, accepted values, negative RSSI threshold disables -/
example : Ex.replies Ex.w0 [Ex.z "CMD FAKE_DROP -1", Ex.z "CMD FAKE_DROP 3 0", Ex.z "CMD FAKE_DROP 3 2",
      Ex.z "CMD FAKE_TOA 0 -5", Ex.z "CMD FAKE_TOA 0 5", Ex.z "CMD FAKE_CI 0 -1",
      Ex.z "CMD FAKE_RSSI -60 -1", Ex.z "CMD FAKE_RSSI -60 3", Ex.z "CMD SETTA 2",
      Ex.z "CMD FAKE_TRXC_DELAY 0"] =
    [[Ex.z "RSP FAKE_DROP -1 -1"], [Ex.z "RSP FAKE_DROP -1 3 0"], [Ex.z "RSP FAKE_DROP 0 3 2"],
     [Ex.z "RSP FAKE_TOA -1 0 -5"], [Ex.z "RSP FAKE_TOA 0 0 5"], [Ex.z "RSP FAKE_CI -1 0 -1"],
     [Ex.z "RSP FAKE_RSSI 0 -60 -1"], [Ex.z "RSP FAKE_RSSI 0 -60 3"], [Ex.z "RSP SETTA 0 2"],
     [Ex.z "RSP FAKE_TRXC_DELAY 0 0"]] := by decide +kernel

/-- malformed arguments → −1; wrong argument count or unknown verb → 0; SETFH: HSN 64 → −1,
three arguments → 0; results of MEASURE (first draw of seed 0 from the noise range) and NOMTXPOWER -/
example : Ex.replies Ex.w0 [Ex.z "CMD RXTUNE abc", Ex.z "CMD RXTUNE", Ex.z "CMD FOO 1 2",
      Ex.z "CMD SETFH 64 0 935000 890000", Ex.z "CMD SETFH 1 2 3", Ex.z "CMD MEASURE 935000",
      Ex.z "CMD NOMTXPOWER", Ex.z "CMD"] =
    [[Ex.z "RSP RXTUNE -1 abc"], [Ex.z "RSP RXTUNE 0"], [Ex.z "RSP FOO 0 1 2"],
     [Ex.z "RSP SETFH -1 64 0 935000 890000"], [Ex.z "RSP SETFH 0 1 2 3"],
     [Ex.z "RSP MEASURE 0 935000 -120"], [Ex.z "RSP NOMTXPOWER 0 50"], [Ex.z "RSP  0"]] := by
  decide +kernel

/-- non-text octets and a wrong signature are ignored -/
example : Ex.replies Ex.w0 [[0xff], Ex.z "RSP POWERON 0", []] = [[], [], []] ∧
    Ex.excs Ex.w0 [[0xff], Ex.z "RSP POWERON 0", []] = [none, none, none] := by decide +kernel

/-- the hypotheses of the effect lemmas are satisfiable: `int()` of decimal texts -/
example : pyInt (lit "935000") = some 935000 ∧ pyInt (lit "-5") = some (-5) ∧
    pyInt (lit " +7_0 ") = some 70 ∧ pyInt (lit "abc") = none ∧ pyInt (lit "") = none := by
  decide +kernel

example : IntArgs [lit "935000", lit "890000"] [935000, 890000] := by
  unfold IntArgs; decide +kernel

/-- a request outside the table -/
example : NotInTable [lit "RXTUNE"] ∧ NotInTable [lit "FOO", lit "1"] ∧ ¬ NotInTable [lit "POWERON"] := by
  unfold NotInTable; decide +kernel

/-- trxcon's texts are the expected octets; the longest mobile allocations fit -/
example : (TrxconCmd.rxtune 935000).text = Ex.z "CMD RXTUNE 935000" ∧
    (TrxconCmd.setta (-3)).text = Ex.z "CMD SETTA -3" ∧ TrxconCmd.echo.text = Ex.z "CMD ECHO" ∧
    (TrxconCmd.setfh 5 1 [(935000, 890000), (935200, 890200)]).text =
      Ex.z "CMD SETFH 5 1 935000 890000 935200 890200" := by decide +kernel

example : (TrxconCmd.setfh 63 63 (List.replicate 64 (959800, 914800))).text.length = 912 ∧
    (TrxconCmd.setfh 63 63 (List.replicate 62 (1879800, 1784800))).text.length = 1008 := by
  decide +kernel

end OsmoVerif.Props.C05
