/-
C02 — Virtual Um routing: a burst transmitted in frame FN is delivered, one copy each, to exactly
the OTHER transceivers that are powered on and whose receive frequency in frame FN equals the
sender's transmit frequency in frame FN; nothing goes back to the sender, to a powered-off
transceiver or to one tuned elsewhere.

Statements are about one forwarding step `forwardMsg w j msg` (burst_fwd.py forward_msg) of the
validated world model in an ARBITRARY world state `w` (no reachability assumption).  Hypotheses:
  `FreqOk w fn`            every transceiver's hopping parameters resolve in frame `fn` (holds for
                           parameters built by `HoppingParams.__init__`: C07 `py_resolve_total`)
  `DistinctDataPorts w`    no two transceivers share (address, DATA port) (start-up wiring)
  `DropWF t`               FAKE_DROP parameters as the command handler can set them (C18 `bad_args`)
  burst octets < 256       element type of `bytes`
Frequencies are compared as `Option`: two UNTUNED running transceivers compare `None == None` and
exchange bursts (corner N16, outside "tuned" in the statement); `Spec.isRecipient` reproduces it.
-/
import OsmoVerif.Lemmas.WorldFwd

namespace OsmoVerif.Props.C02
open OsmoVerif OsmoVerif.World OsmoVerif.Spec OsmoVerif.World.Examples

/-- who must receive, spelled out: another transceiver, powered on, listening in frame `fn` on the
frequency the sender transmits on in frame `fn` -/
theorem recipients_iff (w : World) (j fn k : Nat) :
    k ∈ recipients w j fn ↔
      k < w.trxs.length ∧ k ≠ j ∧ poweredOn w k = true ∧
      ∃ f, rxFreqAt w k fn = some f ∧ txFreqAt w j fn = some f := by
  rw [mem_recipients]
  unfold isRecipient
  cases hr : rxFreqAt w k fn <;> cases ht : txFreqAt w j fn <;> simp [and_assoc]
  intro _ _ _
  exact eq_comm

/-- each recipient is listed once, in the order of the transceiver list -/
theorem recipients_ordered (w : World) (j fn : Nat) :
    (recipients w j fn).Nodup ∧ (recipients w j fn).Pairwise (· < ·) :=
  ⟨recipients_nodup w j fn, recipients_sorted w j fn⟩

/-- number of `handle_data_msg` calls for transceiver `k` in a forwarding step (the multiplicity of
`k` in the list `forward_calls` folds over): 1 for a recipient, 0 for everybody else -/
theorem forward_recipients (w : World) (j fn k : Nat) :
    (recipients w j fn).count k =
      if k < w.trxs.length ∧ isRecipient w j fn k = true then 1 else 0 := by
  have hnd := recipients_nodup w j fn
  by_cases hm : k ∈ recipients w j fn
  · rw [if_pos ((mem_recipients w j fn k).1 hm)]
    have h1 : 0 < (recipients w j fn).count k := List.count_pos_iff.2 hm
    have h2 : (recipients w j fn).count k ≤ 1 := List.nodup_iff_count.1 hnd k
    omega
  · rw [if_neg (fun h => hm ((mem_recipients w j fn k).2 h))]
    exact List.count_eq_zero.2 hm

/-- `forward_msg` calls `handle_data_msg` exactly once for each member of `Spec.recipients`, in
list order, and for no other transceiver: it IS the fold of `handleDataMsg` over that list, with
the world threaded through (`handleSeq`); the message handed on has its burst stripped when the
sender is muted (`fwdInput`). -/
theorem forward_calls (w : World) (j : Nat) (msg : Trxd.TxMsg) (src : Trx) (fnI : Int)
    (hj : w.trxs[j]? = some src) (hfn : msg.fn = some fnI) (hok : FreqOk w fnI.toNat) :
    forwardMsg w j msg = handleSeq j (fwdInput src msg) w (recipients w j fnI.toNat) :=
  forwardMsg_eq w j msg src fnI hj hfn hok

/-- the output of a forwarding step is the concatenation of one block per recipient (in order),
and each block is what `CallSpec` demands of that recipient: nothing / one NOPE.ind when the burst
is suppressed (C18), else the datagram of a message with the metadata of `Spec.FwdMeta` (C10) -/
theorem forward_output (w : World) (j : Nat) (s : Trxd.TxMsg) (src : Trx) (fnI : Int)
    (bits : List Nat) (w' : World) (out : List Dgram)
    (hj : w.trxs[j]? = some src) (hfn : s.fn = some fnI) (hb : s.burst = some bits)
    (hbits : ∀ b ∈ bits, b < 256) (hok : FreqOk w fnI.toNat) (hwf : ∀ t ∈ w.trxs, DropWF t)
    (h : forwardMsg w j s = .ok (w', out)) :
    ∃ calls : List (Nat × List Dgram),
      calls.map Prod.fst = recipients w j fnI.toNat ∧
      out = (calls.map Prod.snd).flatten ∧
      ∀ c ∈ calls, ∃ r, w.trxs[c.1]? = some r ∧ CallSpec r src s fnI bits c.2 ∧ OneToPeer r c.2 :=
  forwardMsg_calls w j s src fnI bits w' out hj hfn hb hbits hok hwf h

/-- never more than one datagram per DATA peer -/
theorem delivered_le_one (w : World) (j : Nat) (s : Trxd.TxMsg) (src : Trx) (fnI : Int)
    (bits : List Nat) (w' : World) (out : List Dgram)
    (hj : w.trxs[j]? = some src) (hfn : s.fn = some fnI) (hb : s.burst = some bits)
    (hbits : ∀ b ∈ bits, b < 256) (hok : FreqOk w fnI.toNat) (hwf : ∀ t ∈ w.trxs, DropWF t)
    (hd : DistinctDataPorts w) (h : forwardMsg w j s = .ok (w', out))
    (k : Nat) (tk : Trx) (hk : w.trxs[k]? = some tk) : deliveredTo tk out ≤ 1 := by
  obtain ⟨h0, h1⟩ := forwardMsg_delivered w j s src fnI bits w' out hj hfn hb hbits hok hwf hd h k tk hk
  by_cases hm : k ∈ recipients w j fnI.toNat
  · obtain ⟨dk, _, hone, hlen, _⟩ := h1 hm
    rw [hlen]
    rcases hone with e | ⟨b, e⟩ <;> rw [e] <;> simp only [List.length_nil, List.length_cons] <;> omega
  · rw [h0 hm]; omega

/-- transceiver `k` gets exactly one datagram on its DATA socket iff it is a recipient and the
message handed to its DATA interface validates (C13); that message is the NOPE.ind of a
suppressed burst on a link of version ≥ 1 (C18), or the completed burst indication with the
metadata of `Spec.FwdMeta` (C10).  (A suppressed burst on a version-0 link yields nothing.) -/
theorem delivered_iff (w : World) (j : Nat) (s : Trxd.TxMsg) (src : Trx) (fnI : Int)
    (bits : List Nat) (w' : World) (out : List Dgram)
    (hj : w.trxs[j]? = some src) (hfn : s.fn = some fnI) (hb : s.burst = some bits)
    (hbits : ∀ b ∈ bits, b < 256) (hok : FreqOk w fnI.toNat) (hwf : ∀ t ∈ w.trxs, DropWF t)
    (hd : DistinctDataPorts w) (h : forwardMsg w j s = .ok (w', out))
    (k : Nat) (tk : Trx) (hk : w.trxs[k]? = some tk) :
    deliveredTo tk out = 1 ↔
      k ∈ recipients w j fnI.toNat ∧
      ∃ cm b, cm.validate = .ok () ∧ dataDgram tk b ∈ out ∧
        ((suppressed src tk fnI = true ∧ 1 ≤ tk.hdrVer ∧ IsNope tk.hdrVer s.fn s.tn cm ∧
            cm.genMsg false = .ok b) ∨
         (suppressed src tk fnI = false ∧ FwdMeta src tk s.fn s.tn s.pwr bits cm ∧
            cm.genMsg true = .ok b)) := by
  obtain ⟨h0, h1⟩ := forwardMsg_delivered w j s src fnI bits w' out hj hfn hb hbits hok hwf hd h k tk hk
  constructor
  · intro h1'
    by_cases hm : k ∈ recipients w j fnI.toNat
    · refine ⟨hm, ?_⟩
      obtain ⟨dk, hcs, _, hlen, hsub⟩ := h1 hm
      rw [hlen] at h1'
      cases hs : suppressed src tk fnI
      · obtain ⟨cm, hmeta, _, hdk⟩ := hcs.fwd hs
        rcases dgramsOf_genMsg tk cm true with ⟨hv, b, hg, e⟩ | ⟨_, e⟩
        · refine ⟨cm, b, hv, hsub _ (by rw [hdk, e]; exact List.mem_cons_self ..), .inr ⟨rfl, hmeta, hg⟩⟩
        · rw [hdk, e] at h1'; cases h1'
      · by_cases hv1 : 1 ≤ tk.hdrVer
        · obtain ⟨cm, hn, hdk⟩ := hcs.supp_v1 hs hv1
          rcases dgramsOf_genMsg tk cm false with ⟨hv, b, hg, e⟩ | ⟨_, e⟩
          · refine ⟨cm, b, hv, hsub _ (by rw [hdk, e]; exact List.mem_cons_self ..), .inl ⟨rfl, hv1, hn, hg⟩⟩
          · rw [hdk, e] at h1'; cases h1'
        · rw [hcs.supp_v0 hs (by omega)] at h1'; cases h1'
    · rw [h0 hm] at h1'; cases h1'
  · rintro ⟨_, cm, b, _, hmem, _⟩
    have hle := delivered_le_one w j s src fnI bits w' out hj hfn hb hbits hok hwf hd h k tk hk
    have hpos : 0 < deliveredTo tk out :=
      List.countP_pos_iff.2 ⟨_, hmem, toDataPeer_dataDgram tk b⟩
    omega

/-- C02 in one equation.  For bursts whose simulated metadata stay inside the protocol ranges
(`RadioOk` for every recipient; frame and timeslot number in range): transceiver `k` gets exactly
one datagram on its DATA socket iff it is another, powered-on transceiver listening in frame FN
on the sender's transmit frequency of frame FN — with the one exception C18 describes: a
suppressed burst yields nothing on a version-0 link (on a version-1 link the one datagram is the
NOPE.ind).  Everybody else gets nothing. -/
theorem routing_exact (w : World) (j : Nat) (s : Trxd.TxMsg) (src : Trx) (fnI tn : Int)
    (bits : List Nat) (w' : World) (out : List Dgram)
    (hj : w.trxs[j]? = some src) (hfn : s.fn = some fnI) (htn : s.tn = some tn)
    (hb : s.burst = some bits) (hbits : ∀ b ∈ bits, b < 256) (hok : FreqOk w fnI.toNat)
    (hwf : ∀ t ∈ w.trxs, DropWF t) (hd : DistinctDataPorts w)
    (f0 : 0 ≤ fnI) (f1 : fnI < 2715648) (n0 : 0 ≤ tn) (n1 : tn ≤ 7)
    (hradio : ∀ k ∈ recipients w j fnI.toNat, ∀ r, w.trxs[k]? = some r →
      RadioOk src r s.pwr bits.length)
    (h : forwardMsg w j s = .ok (w', out)) (k : Nat) (tk : Trx) (hk : w.trxs[k]? = some tk) :
    deliveredTo tk out =
      if k ∈ recipients w j fnI.toNat ∧ ¬ (suppressed src tk fnI = true ∧ tk.hdrVer = 0)
      then 1 else 0 :=
  forwardMsg_exact w j s src fnI tn bits w' out hj hfn htn hb hbits hok hwf hd f0 f1 n0 n1 hradio h
    k tk hk

/-- the `.ok` hypothesis of the theorems above is no restriction for well-formed simulation
parameters: with FAKE_DROP parameters and randomisation thresholds as the TRXC handlers can set
them (`DropWF`, `ThrNonneg`) and a message that carries an attenuation and burst octets, the
forwarding step returns normally — no exception reaches the clock thread -/
theorem forward_returns (w : World) (j : Nat) (s : Trxd.TxMsg) (src : Trx) (fnI pwr : Int)
    (bits : List Nat) (hj : w.trxs[j]? = some src) (hfn : s.fn = some fnI) (hp : s.pwr = some pwr)
    (hb : s.burst = some bits) (hbits : ∀ b ∈ bits, b < 256) (hok : FreqOk w fnI.toNat)
    (hwf : ∀ t ∈ w.trxs, DropWF t) (hthr : ∀ t ∈ w.trxs, ThrNonneg t) :
    ∃ w' out, forwardMsg w j s = .ok (w', out) :=
  forwardMsg_total w j s src fnI pwr bits hj hfn hp hb hbits hok hwf hthr

/-- `FreqOk` is no restriction either: in a world whose hopping parameters all come from
`HoppingParams.__init__` (`FhSane`; `enable_fh` is the only producer, `commonCmd_fh`), every
frequency resolves in every frame (C07 `py_resolve_total`) -/
theorem freqOk_of_sane (w : World) (h : FhSane w) (fn : Nat) : FreqOk w fn :=
  World.freqOk_of_sane w h fn

/-- the only hopping parameters a TRXC command installs are results of `HoppingParams.__init__` -/
theorem fh_from_init (trx : Trx) (req : List PyStr.Str) (hp : Hopping.HoppingParams (Int × Int))
    (rc : Int) (h : commonCmd trx req = .ok (.patch (.fh hp) rc)) :
    ∃ hsn maio ma, Hopping.pyInit hsn maio ma = .ok hp :=
  commonCmd_fh trx req hp rc h

/-- `DistinctDataPorts` holds for every world `Application.__init__` builds from `--trx`
definitions without (address, DATA port) overlap (`NoPortOverlap`, decidable; the duplicate check
of `TRXList.add_trx` alone does not exclude e.g. `(a, 5700, 1)` and `(a, 5702, 0)`, see the
example below — the real program fails to bind the second socket) -/
theorem distinct_of_build (seed : Nat) (extra : List (Nat × Nat × Nat)) (w : World)
    (h : build seed extra = .ok w) (hno : NoPortOverlap extra) : DistinctDataPorts w :=
  build_distinctDataPorts h hno

/-- nothing is delivered back to the sender -/
theorem nothing_to_sender (w : World) (j : Nat) (s : Trxd.TxMsg) (src : Trx) (fnI : Int)
    (bits : List Nat) (w' : World) (out : List Dgram)
    (hj : w.trxs[j]? = some src) (hfn : s.fn = some fnI) (hb : s.burst = some bits)
    (hbits : ∀ b ∈ bits, b < 256) (hok : FreqOk w fnI.toNat) (hwf : ∀ t ∈ w.trxs, DropWF t)
    (hd : DistinctDataPorts w) (h : forwardMsg w j s = .ok (w', out)) :
    deliveredTo src out = 0 :=
  (forwardMsg_delivered w j s src fnI bits w' out hj hfn hb hbits hok hwf hd h j src hj).1
    (sender_not_recipient w j fnI.toNat)

/-- nothing is delivered to a powered-off transceiver -/
theorem nothing_to_idle (w : World) (j : Nat) (s : Trxd.TxMsg) (src : Trx) (fnI : Int)
    (bits : List Nat) (w' : World) (out : List Dgram)
    (hj : w.trxs[j]? = some src) (hfn : s.fn = some fnI) (hb : s.burst = some bits)
    (hbits : ∀ b ∈ bits, b < 256) (hok : FreqOk w fnI.toNat) (hwf : ∀ t ∈ w.trxs, DropWF t)
    (hd : DistinctDataPorts w) (h : forwardMsg w j s = .ok (w', out))
    (k : Nat) (tk : Trx) (hk : w.trxs[k]? = some tk) (hidle : tk.running = false) :
    deliveredTo tk out = 0 := by
  apply (forwardMsg_delivered w j s src fnI bits w' out hj hfn hb hbits hok hwf hd h k tk hk).1
  intro hm
  have := ((recipients_iff w j fnI.toNat k).1 hm).2.2.1
  simp only [poweredOn, hk, hidle] at this
  cases this

/-- nothing is delivered to a transceiver that listens elsewhere in that frame -/
theorem nothing_to_detuned (w : World) (j : Nat) (s : Trxd.TxMsg) (src : Trx) (fnI : Int)
    (bits : List Nat) (w' : World) (out : List Dgram)
    (hj : w.trxs[j]? = some src) (hfn : s.fn = some fnI) (hb : s.burst = some bits)
    (hbits : ∀ b ∈ bits, b < 256) (hok : FreqOk w fnI.toNat) (hwf : ∀ t ∈ w.trxs, DropWF t)
    (hd : DistinctDataPorts w) (h : forwardMsg w j s = .ok (w', out))
    (k : Nat) (tk : Trx) (hk : w.trxs[k]? = some tk)
    (hdet : rxFreqAt w k fnI.toNat ≠ txFreqAt w j fnI.toNat) :
    deliveredTo tk out = 0 := by
  apply (forwardMsg_delivered w j s src fnI bits w' out hj hfn hb hbits hok hwf hd h k tk hk).1
  intro hm
  obtain ⟨_, _, _, f, h1, h2⟩ := (recipients_iff w j fnI.toNat k).1 hm
  exact hdet (by rw [h1, h2])

/-- only a powered-on transceiver transmits: the clock tick of an idle transceiver emits nothing
and leaves the world alone -/
theorem idle_sender_silent (w : World) (j fn : Nat) (t : Trx) (hj : w.trxs[j]? = some t)
    (hidle : t.running = false) : clckTick w j fn = .ok (w, [], 0) := by
  simp only [clckTick, hj, hidle, Bool.false_eq_true, not_false_eq_true, if_true]

/-! ### non-vacuity: a concrete world (`World.Examples.world`)

seven transceivers: the BTS (0, sender), an MS tuned to it (1, v1), the same powered off (2), one
listening elsewhere (3), one on version 0 with two burst losses pending on even frames (4), a
muted one (5, v1) and one with FAKE_RSSI/TOA/CI windows (6, v1); a normal burst in frame 52 -/

/-- all hypotheses of the theorems hold there -/
example : FreqOk world 52 ∧ DistinctDataPorts world ∧ (∀ t ∈ world.trxs, DropWF t) ∧
    (∀ b ∈ nbBits, b < 256) ∧
    (∀ k ∈ recipients world 0 52, ∀ r, world.trxs[k]? = some r →
      RadioOk bts r (burst 52).pwr nbBits.length) ∧
    (forwardMsg world 0 (burst 52)).isOk = true := by
  refine ⟨?_, ?_, ?_, ?_, ?_, ?_⟩ <;> decide +kernel

/-- the sender, the idle and the detuned transceiver are no recipients, the other four are -/
example : recipients world 0 52 = [1, 4, 5, 6] := by decide +kernel

/-- datagrams per DATA peer: one each for 1, 5 (NOPE.ind) and 6; none for the sender, the idle, the
detuned one and for 4 (burst loss on a version-0 link) -/
example : [bts, ms, msIdle, msDetuned, msDrop, msMuted, msFake].map
    (fun t => deliveredTo t (outOf (forwardMsg world 0 (burst 52)))) = [0, 1, 0, 0, 0, 1, 1] := by
  decide +kernel

/-- `routing_exact` applied to that world -/
example : ∃ w' out, forwardMsg world 0 (burst 52) = .ok (w', out) ∧
    ∀ k tk, world.trxs[k]? = some tk →
      deliveredTo tk out =
        if k ∈ recipients world 0 52 ∧ ¬ (suppressed bts tk 52 = true ∧ tk.hdrVer = 0) then 1 else 0 := by
  obtain ⟨⟨w', out⟩, h⟩ := exists_of_isOk (forwardMsg world 0 (burst 52)) (by decide +kernel)
  refine ⟨w', out, h, fun k tk hk => ?_⟩
  exact routing_exact world 0 (burst 52) bts 52 2 nbBits w' out rfl rfl rfl rfl (by decide +kernel)
    (by decide +kernel) (by decide +kernel) (by decide +kernel) (by decide) (by decide) (by decide)
    (by decide) (by decide +kernel) h k tk hk

/-- `NoPortOverlap` holds for the plain BTS + MS set-up and for a usual multi-TRX one -/
example : NoPortOverlap [] ∧ NoPortOverlap [(1, 5700, 1), (1, 5700, 2), (2, 7700, 0)] := by decide

/-- the overlap is real: these definitions pass `build`, but two transceivers share DATA port 5704 -/
example : ∃ w, build 0 [(1, 5700, 1), (1, 5702, 0)] = .ok w ∧ ¬ DistinctDataPorts w := by
  obtain ⟨w, h⟩ := exists_of_isOk (build 0 [(1, 5700, 1), (1, 5702, 0)]) (by decide +kernel)
  refine ⟨w, h, ?_⟩
  unfold DistinctDataPorts
  have := build_keys h
  unfold portKey at this
  rw [this]
  decide

/-- hopping: the BTS hops over two frequencies (HSN 5); who receives depends on the frame number -/
example : recipients worldHop 0 0 = [2] ∧ recipients worldHop 0 1 = [1] ∧
    FreqOk worldHop 0 ∧ FreqOk worldHop 1 := by decide +kernel

/-- `FhSane` holds for the example worlds (the hopping BTS got its parameters from `pyInit`) -/
example : FhSane worldHop ∧ FhSane world := by
  constructor
  · intro t ht hp hf
    simp only [worldHop, List.mem_cons, List.not_mem_nil, or_false] at ht
    rcases ht with rfl | rfl | rfl
    · refine ⟨5, 0, [(890000000, 935000000), (891000000, 936000000)], ?_⟩
      have : btsHop.fh = hop2 := rfl
      rw [this] at hf
      unfold hop2 at hf
      split at hf
      · rename_i hp' h'
        injection hf with hf
        rw [← hf]; exact h'
      · cases hf
    · cases hf
    · cases hf
  · intro t ht hp hf
    simp only [world, List.mem_cons, List.not_mem_nil, or_false] at ht
    rcases ht with rfl | rfl | rfl | rfl | rfl | rfl | rfl <;> cases hf

end OsmoVerif.Props.C02
