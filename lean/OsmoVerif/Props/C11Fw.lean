/-
C11 — the firmware's multiframe scheduler at run time (src/target/firmware/layer1/
mframe_sched.c beyond the tables): `mframe_enable / mframe_disable / mframe_set /
mframe_reset` and `mframe_schedule()` with the `tasks_tgt → tasks` latch and the `safe_fn`
bookkeeping.  Property theorems only.  Model: `OsmoVerif.Model.Mframe` (`MfState`,
`mframeScheduleSt`, …); lemmas: `OsmoVerif.Lemmas.MframeRt`; tables: `Gen/FwMframe.lean`.

`Props/C11.lean` proves that the frames in which a task's rows fire are the frames trxcon's
layouts give to the channel; the theorems here prove that at every tick exactly the firing
rows of the *active* tasks are handed to `tdma_schedule_set`, each once, with the arguments
the rows prescribe, and say precisely when a task is active.
-/
import OsmoVerif.Lemmas.MframeRt

namespace OsmoVerif.Props.C11Fw
open OsmoVerif OsmoVerif.Mframe OsmoVerif.Gen OsmoVerif.Gen.FwMframe

/-! ## the tables as the runtime needs them -/

/-- `sched_set_for_task[]` has exactly the 32 entries the loop `for (i = 0; i < 32; i++)`
    indexes; every row of every table has a non-zero modulo and flags that fit the upper byte
    of `p3`; every enumerator of `enum mframe_task` has a table -/
theorem tables_fit_runtime :
    schedSetForTask.length = 32 ∧
    (schedSetForTask.all fun o => match o with
      | none => true
      | some items => items.all fun it => it.modulo != 0 && decide (it.flags < 256)) = true ∧
    (Task.all.all fun t => decide (t.val < 32) && (tableOf t).isSome) = true := by
  refine ⟨by decide, by decide +kernel, by decide +kernel⟩

theorem itemsOf_row_ok (i : Nat) (it : Item) (h : it ∈ itemsOf i) : it.modulo ≠ 0 ∧ it.flags < 256 := by
  unfold itemsOf at h
  cases hs : schedSetForTask[i]? with
  | none => rw [hs] at h; cases h
  | some o =>
    cases o with
    | none => rw [hs] at h; cases h
    | some items =>
      rw [hs] at h
      have hm : some items ∈ schedSetForTask := List.mem_of_getElem? hs
      have := (List.all_eq_true.1 tables_fit_runtime.2.1) (some items) hm
      have := (List.all_eq_true.1 this) it h
      simpa using this

/-! ## `mframe_schedule()` -/

/-- **No index outside `sched_set_for_task[]`**, for any task bitmap, scheduler state, tick
    and behaviour of the TDMA scheduler. -/
theorem schedule_index_in_range (rv : RvOf) (s : MfState) (fn : Nat) :
    mframeScheduleSt rv s fn ≠ .error .taskOutOfRange :=
  mframeScheduleSt_in_range rv s fn tables_fit_runtime.1

/-- **Exactly the firing rows of the active tasks, each once.**  Whenever
    `mframe_schedule()` returns at tick `fn`: the active bitmap is the latched one, the target
    bitmap is unchanged, and the calls of `tdma_schedule_set` are — in this order, nothing
    else — for every set bit `i` (ascending) of the active bitmap every row of
    `sched_set_for_task[i]` whose trigger fires at `fn` (table order), one call per row. -/
theorem schedule_calls_exact (rv : RvOf) (s s' : MfState) (fn : Nat) (evs : List Event)
    (h : mframeScheduleSt rv s fn = .ok (evs, s')) :
    s'.tasks = latch s fn ∧ s'.tasksTgt = s.tasksTgt ∧ evs = expectedCalls (latch s fn) fn :=
  mframeScheduleSt_ok rv s fn evs s' h

/-- … and every such call has frame offset `SCHEDULE_AHEAD − SCHEDULE_LATENCY`, the row's
    sched set, and `p3 = task id | flags << 8` = `task id + 256 · flags` (so the task id is the
    low byte and the row's flags the high byte). -/
theorem call_arguments (tasks fn : Nat) (e : Event) (he : e ∈ expectedCalls tasks fn) :
    ∃ i, i < 32 ∧ tasks.testBit i = true ∧ ∃ it ∈ itemsOf i, fires it fn = true ∧
      e.frameOffset + SCHEDULE_LATENCY = SCHEDULE_AHEAD ∧ e.set = it.set ∧
      e.p3 = i + 256 * it.flags ∧ e.p3 % 256 = i ∧ e.p3 / 256 = it.flags := by
  obtain ⟨i, hi, hb, it, hm, hf, rfl⟩ := (mem_expectedCalls tasks fn e).1 he
  obtain ⟨_, hfl⟩ := itemsOf_row_ok i it hm
  have hp3 : (eventOf i it).p3 = i + 256 * it.flags := p3_split i it (by omega) hfl
  have hoff : frameOffset + SCHEDULE_LATENCY = SCHEDULE_AHEAD := by decide
  refine ⟨i, hi, hb, it, hm, hf, hoff, rfl, hp3, ?_, ?_⟩
  · rw [hp3]; omega
  · rw [hp3]; omega

/-- `mframe_schedule()` returns whenever every active task bit has a table (as every
    enumerator of `enum mframe_task` has, `tables_fit_runtime`) -/
theorem schedule_total (rv : RvOf) (s : MfState) (fn : Nat)
    (h : ∀ i, i < 32 → (latch s fn).testBit i = true → ∃ items, schedSetForTask[i]? = some (some items)) :
    ∃ evs s', mframeScheduleSt rv s fn = .ok (evs, s') := by
  obtain ⟨evs, hevs⟩ := scheduleTasks_total (latch s fn) fn (List.range 32) (fun i hi hb => by
    obtain ⟨items, hit⟩ := h i (List.mem_range.1 hi) hb
    refine ⟨items, hit, fun it hm => ?_⟩
    have : it ∈ itemsOf i := by simp only [itemsOf, hit]; exact hm
    exact (itemsOf_row_ok i it this).1)
  obtain ⟨s', hs'⟩ := mframeScheduleSt_total rv s fn evs hevs
  exact ⟨evs, s', hs'⟩

/-! ## when a task is active -/

/-- the latch: the target bitmap when nothing scheduled earlier is in the way, otherwise
    only the removal of tasks (`tasks & tasks_tgt`) -/
theorem latch_rule (s : MfState) (fn : Nat) :
    latch s fn = if nothingInTheWay s fn then s.tasksTgt else s.tasks &&& s.tasksTgt := rfl

/-- for valid frame numbers, "in the way" means: `safe_fn` lies ahead of the tick by less
    than half a hyperframe (plain difference of the two numbers) -/
theorem latch_valid_fn (s : MfState) (fn : Nat) (hs : s.safeFn < GSM_MAX_FN) (hfn : fn < GSM_MAX_FN) :
    latch s fn = if fn < s.safeFn ∧ s.safeFn < fn + GSM_MAX_FN / 2 then s.tasks &&& s.tasksTgt
      else s.tasksTgt :=
  latch_eq s fn hs hfn

/-- after `mframe_reset()` (invalid `safe_fn`) the next `mframe_schedule()` takes the whole
    target bitmap -/
theorem after_reset (tasks fn : Nat) : latch (mframeSet mframeReset tasks) fn = u32 tasks := by
  have h : (mframeSet mframeReset tasks).safeFn ≥ GSM_MAX_FN := by
    show (4294967295 : Nat) ≥ GSM_MAX_FN
    decide
  rw [latch_invalid _ _ h]
  rfl

/-- the active bitmap is always a subset of the target bitmap -/
theorem active_subset_target (rv : RvOf) (s s' : MfState) (fn : Nat) (evs : List Event)
    (h : mframeScheduleSt rv s fn = .ok (evs, s')) (i : Nat) (hb : s'.tasks.testBit i = true) :
    s'.tasksTgt.testBit i = true := by
  obtain ⟨h1, h2, _⟩ := schedule_calls_exact rv s s' fn evs h
  rw [h1] at hb
  rw [h2]
  exact latch_sub_tgt s fn i hb

/-- **`mframe_disable(t)` takes effect at the next `mframe_schedule()`**, whatever is in the
    way: the task's bit is clear in the target bitmap, every other bit (below 32) is
    unchanged, and from the next `mframe_schedule()` on the task is not active and none of its
    rows is handed to the TDMA scheduler. -/
theorem disable_takes_effect (s s1 : MfState) (t : Nat) (h : mframeDisable s t = .ok s1) :
    t < 32 ∧ s1.tasksTgt.testBit t = false ∧ s1.tasks = s.tasks ∧ s1.safeFn = s.safeFn ∧
    (∀ i, i < 32 → i ≠ t → s1.tasksTgt.testBit i = s.tasksTgt.testBit i) ∧
    ∀ rv fn evs s2, mframeScheduleSt rv s1 fn = .ok (evs, s2) →
      s2.tasks.testBit t = false ∧ s2.tasksTgt.testBit t = false ∧ ∀ e ∈ evs, e.p3 % 256 ≠ t := by
  unfold mframeDisable at h
  split at h
  · cases h
  · rename_i ht
    have ht : t < 32 := by omega
    simp only [Except.ok.injEq] at h
    subst h
    have hoff : (s.tasksTgt &&& (4294967295 - u32 (1 <<< t))).testBit t = false := by
      rw [disable_bit _ t ht t ht]; simp
    refine ⟨ht, hoff, rfl, rfl, fun i hi hne => ?_, fun rv fn evs s2 hs => ?_⟩
    · rw [disable_bit _ t ht i hi]
      have : decide (t = i) = false := by simp; omega
      simp [this]
    · obtain ⟨h1, h2, h3⟩ := schedule_calls_exact rv _ s2 fn evs hs
      have hl : (latch ⟨s.tasks, s.tasksTgt &&& (4294967295 - u32 (1 <<< t)), s.safeFn⟩ fn).testBit t = false := by
        cases hb : (latch ⟨s.tasks, s.tasksTgt &&& (4294967295 - u32 (1 <<< t)), s.safeFn⟩ fn).testBit t with
        | false => rfl
        | true => have := latch_sub_tgt _ fn t hb; simp only at this; rw [hoff] at this; cases this
      refine ⟨by rw [h1]; exact hl, by rw [h2]; exact hoff, fun e he => ?_⟩
      rw [h3] at he
      obtain ⟨i, _, hb, _, _, _, _, _, _, hp, _⟩ := call_arguments _ fn e he
      intro hc
      rw [hp] at hc
      subst hc
      rw [hl] at hb
      cases hb

/-- **`mframe_enable(t)` takes effect at the first `mframe_schedule()` at which nothing is in
    the way**: the task's bit is set in the target bitmap, every other bit is unchanged; at a
    following `mframe_schedule()` the task is active iff nothing scheduled earlier is in the
    way (`nothingInTheWay`) or it was active already. -/
theorem enable_takes_effect (s s1 : MfState) (t : Nat) (h : mframeEnable s t = .ok s1) :
    t < 32 ∧ s1.tasksTgt.testBit t = true ∧ s1.tasks = s.tasks ∧ s1.safeFn = s.safeFn ∧
    (∀ i, i ≠ t → s1.tasksTgt.testBit i = s.tasksTgt.testBit i) ∧
    ∀ rv fn evs s2, mframeScheduleSt rv s1 fn = .ok (evs, s2) →
      (s2.tasks.testBit t = true ↔ (nothingInTheWay s1 fn = true ∨ s.tasks.testBit t = true)) := by
  unfold mframeEnable at h
  split at h
  · cases h
  · rename_i ht
    have ht : t < 32 := by omega
    simp only [Except.ok.injEq] at h
    subst h
    have hon : (s.tasksTgt ||| u32 (1 <<< t)).testBit t = true := by
      rw [enable_bit _ t ht t]; simp
    refine ⟨ht, hon, rfl, rfl, fun i hne => ?_, fun rv fn evs s2 hs => ?_⟩
    · rw [enable_bit _ t ht i]
      have : decide (t = i) = false := by simp; omega
      simp [this]
    · obtain ⟨h1, _, _⟩ := schedule_calls_exact rv _ s2 fn evs hs
      rw [h1, latch_rule]
      by_cases hn : nothingInTheWay ⟨s.tasks, s.tasksTgt ||| u32 (1 <<< t), s.safeFn⟩ fn = true
      · simp only [hn, if_true, true_or, iff_true]
        exact hon
      · simp only [hn, Bool.false_eq_true, if_false, false_or]
        rw [Nat.testBit_and, hon, Bool.and_true]

/-- **A task that is switched off stays off**: over any history of `mframe_enable /
    mframe_disable / mframe_set / mframe_reset` and ticks (any frame numbers, any behaviour of
    the TDMA scheduler) in which no operation puts task bit `t` back into the target bitmap,
    starting from a state whose target bitmap does not have it, no row of task `t` is ever
    handed to the TDMA scheduler. -/
theorem task_off_stays_off (rv : RvOf) (t : Nat) (ht : t < 32) (ops : List FwOp)
    (hops : ∀ op ∈ ops, keepsOff t op = true) :
    ∀ (s s' : MfState) (evs : List Event), s.tasksTgt.testBit t = false →
      fwRun rv s ops = .ok (s', evs) → s'.tasksTgt.testBit t = false ∧ ∀ e ∈ evs, e.p3 % 256 ≠ t := by
  induction ops with
  | nil =>
    intro s s' evs hoff h
    simp only [fwRun, Except.ok.injEq, Prod.mk.injEq] at h
    obtain ⟨rfl, rfl⟩ := h
    exact ⟨hoff, fun e he => by cases he⟩
  | cons op rest ih =>
    intro s s' evs hoff h
    have hop := hops op (by simp)
    have hrest : ∀ op ∈ rest, keepsOff t op = true := fun o ho => hops o (by simp [ho])
    simp only [fwRun] at h
    cases hs : fwStep rv s op with
    | error e => rw [hs] at h; cases h
    | ok p =>
      obtain ⟨s1, e1⟩ := p
      rw [hs] at h
      simp only at h
      cases hr : fwRun rv s1 rest with
      | error e => rw [hr] at h; cases h
      | ok q =>
        obtain ⟨s2, e2⟩ := q
        rw [hr] at h
        simp only [Except.ok.injEq, Prod.mk.injEq] at h
        obtain ⟨rfl, rfl⟩ := h
        -- the step keeps the bit off and makes no call of task t
        have hstep : s1.tasksTgt.testBit t = false ∧ ∀ e ∈ e1, e.p3 % 256 ≠ t := by
          cases op with
          | enable t' =>
            simp only [fwStep, mframeEnable] at hs
            split at hs
            · cases hs
            · rename_i ht'
              simp only [Except.map, Except.ok.injEq, Prod.mk.injEq] at hs
              obtain ⟨rfl, rfl⟩ := hs
              refine ⟨?_, fun e he => by cases he⟩
              simp only
              rw [enable_bit _ t' (by omega) t]
              simp only [keepsOff, bne_iff_ne, ne_eq] at hop
              simp [hoff, hop]
          | disable t' =>
            simp only [fwStep, mframeDisable] at hs
            split at hs
            · cases hs
            · rename_i ht'
              simp only [Except.map, Except.ok.injEq, Prod.mk.injEq] at hs
              obtain ⟨rfl, rfl⟩ := hs
              refine ⟨?_, fun e he => by cases he⟩
              simp only
              rw [Nat.testBit_and, hoff]
              rfl
          | set m =>
            simp only [fwStep, Except.ok.injEq, Prod.mk.injEq] at hs
            obtain ⟨rfl, rfl⟩ := hs
            refine ⟨?_, fun e he => by cases he⟩
            simp only [keepsOff, Bool.not_eq_true'] at hop
            exact hop
          | reset =>
            simp only [fwStep, Except.ok.injEq, Prod.mk.injEq] at hs
            obtain ⟨rfl, rfl⟩ := hs
            exact ⟨by simp [mframeReset], fun e he => by cases he⟩
          | tick fn =>
            simp only [fwStep] at hs
            cases hm : mframeScheduleSt rv s fn with
            | error e => rw [hm] at hs; cases hs
            | ok r =>
              obtain ⟨ev, sn⟩ := r
              rw [hm] at hs
              simp only [Except.map, Except.ok.injEq, Prod.mk.injEq] at hs
              obtain ⟨rfl, rfl⟩ := hs
              obtain ⟨h1, h2, h3⟩ := schedule_calls_exact rv s sn fn ev hm
              refine ⟨by rw [h2]; exact hoff, fun e he => ?_⟩
              rw [h3] at he
              obtain ⟨i, _, hb, _, _, _, _, _, _, hp, _⟩ := call_arguments _ fn e he
              intro hc
              rw [hp] at hc
              subst hc
              have := latch_sub_tgt s fn i hb
              rw [hoff] at this
              cases this
        obtain ⟨hoff2, hev2⟩ := ih hrest s1 s2 e2 hstep.1 hr
        refine ⟨hoff2, fun e he => ?_⟩
        rcases List.mem_append.1 he with he | he
        · exact hstep.2 e he
        · exact hev2 e he

/-! ## non-vacuity -/

/-- BCCH + combined CCCH + SDCCH/4(0) from `mframe_reset(); mframe_set(...)`: at tick 0 (air
    frame 2) the BCCH block is started, with offset 1 and `p3` = task id -/
example : (match mframeScheduleSt (fun _ => 6)
      (mframeSet mframeReset ((1 <<< Task.BCCH_NORM.val) ||| (1 <<< Task.CCCH_COMB.val) ||| (1 <<< Task.SDCCH4_0.val))) 0 with
    | .ok (evs, s') => evs == [⟨1, .nb_sched_set, Task.BCCH_NORM.val⟩] && s'.tasks == 25 && s'.safeFn == 4
    | .error _ => false) = true := by decide +kernel

/-- while that block is running (`safe_fn = 4`) an enabled task has to wait, a disabled one
    goes at once; at tick 4 the enabled one is in -/
example : (match mframeEnable ⟨25, 25, 4⟩ Task.SDCCH4_1.val, mframeDisable ⟨25, 25, 4⟩ Task.SDCCH4_0.val with
    | .ok s1, .ok s2 =>
      latch s1 1 == 25 && latch s1 4 == 57 && latch s2 1 == 9
    | _, _ => false) = true := by decide +kernel

end OsmoVerif.Props.C11Fw
