/-
C10 — Forwarded bursts carry faithful bits and correct simulated radio metadata.

One forwarding call `handleDataMsg w k j (fwdInput src s) rx` of the validated world model in an
ARBITRARY world `w` (bundled as `FwdCall`: recipient `r` = transceiver `k`, sender `src` =
transceiver `j`, the sender's message `s` with frame `fn` and burst octets `bits`, `rx` its
`trans(ver = r.hdrVer)`, the call returns `(w', dk)`), for a burst that is not suppressed
(`Spec.suppressed src r fn = false`; the suppressed case is C18).  Then `dk` is what
`DATAInterface.send_msg(cm, legacy = True)` emits (`dgramsOf r (cm.genMsg true)`: one datagram, or
nothing when `cm` fails validation — C13) for a message `cm` with the properties below.
Windows are written `base − thr ≤ v ∧ v ≤ base + thr` (i.e. |v − base| ≤ thr).
No hypothesis on the thresholds is needed: a negative threshold makes the draw raise (F12), and
then the call does not return normally, which `FwdCall.h` excludes (`draw_window`).
-/
import OsmoVerif.Lemmas.WorldFwd

namespace OsmoVerif.Props.C10
open OsmoVerif OsmoVerif.World OsmoVerif.Spec OsmoVerif.World.Examples

variable {w : World} {k j : Nat} {s : Trxd.TxMsg} {r src : Trx} {fn : Int} {bits : List Nat}
  {rx : Trxd.RxMsg} {w' : World} {dk : List Dgram}

/-- window lemma for the draw function: a successful `random.randint(lo, hi)` lies in `[lo, hi]` -/
theorem draw_window (seed n : Nat) (lo hi v : Int) (h : draw seed n lo hi = .ok v) :
    lo ≤ v ∧ v ≤ hi :=
  World.draw_window seed n lo hi v h

/-- master statement: the message handed to the recipient's DATA interface -/
theorem fwd_message (c : FwdCall w k j s r src fn bits rx w' dk) (hns : suppressed src r fn = false) :
    ∃ cm, FwdMeta src r s.fn s.tn s.pwr bits cm ∧ V1Meta r bits cm ∧
      dk = dgramsOf r (cm.genMsg true) :=
  c.spec.1.fwd hns

/-- exactly one datagram (to the recipient's own DATA peer) iff that message validates, else none -/
theorem fwd_single (c : FwdCall w k j s r src fn bits rx w' dk) (hns : suppressed src r fn = false) :
    ∃ cm, FwdMeta src r s.fn s.tn s.pwr bits cm ∧
      ((cm.validate = .ok () ∧ ∃ b, cm.genMsg true = .ok b ∧ dk = [dataDgram r b]) ∨
       (cm.validate ≠ .ok () ∧ dk = [])) := by
  obtain ⟨cm, h1, _, h3⟩ := fwd_message c hns
  refine ⟨cm, h1, ?_⟩
  rcases dgramsOf_genMsg r cm true with ⟨hv, b, hb, e⟩ | ⟨hv, e⟩
  · exact .inl ⟨hv, b, hb, by rw [h3, e]⟩
  · exact .inr ⟨hv, by rw [h3, e]⟩

/-- frame and timeslot number of the sender's message; one full-confidence soft bit of the
matching sign per transmitted octet (`softOf`: 0 ↦ +127, anything else ↦ −127) -/
theorem fwd_bits (c : FwdCall w k j s r src fn bits rx w' dk) (hns : suppressed src r fn = false) :
    ∃ cm : Trxd.RxMsg, dk = dgramsOf r (cm.genMsg true) ∧
      cm.fn = s.fn ∧ cm.tn = s.tn ∧ cm.nopeInd = false ∧ cm.burst = some (bits.map softOf) := by
  obtain ⟨cm, h1, _, h3⟩ := fwd_message c hns
  exact ⟨cm, h3, h1.fn_eq, h1.tn_eq, h1.nope_eq, h1.bits_eq⟩

/-- … for hard bits: bit 0 arrives as +127, bit 1 as −127 -/
theorem fwd_bits01 (c : FwdCall w k j s r src fn bits rx w' dk) (hns : suppressed src r fn = false)
    (h01 : ∀ b ∈ bits, b = 0 ∨ b = 1) :
    ∃ cm : Trxd.RxMsg, dk = dgramsOf r (cm.genMsg true) ∧
      cm.burst = some (bits.map (fun b => if b = 1 then -127 else 127)) := by
  obtain ⟨cm, h3, _, _, _, hb⟩ := fwd_bits c hns
  refine ⟨cm, h3, ?_⟩
  rw [hb]
  congr 1
  apply List.map_congr_left
  intro b hb
  rcases h01 b hb with e | e <;> rw [e] <;> rfl

/-- the regenerated `ubit2sbit` table behind it: octet 0 ↦ +127, EVERY other octet ↦ −127 -/
theorem ubit2sbit_table :
    Gen.Trxd.tabUbit2sbit.length = 256 ∧
    ∀ b : Fin 256, Gen.Trxd.tabUbit2sbit[b.val]? = some (if b.val = 0 then 127 else -127) :=
  ⟨tabUbit2sbit_length, tabUbit2sbit_point⟩

/-- header version negotiated by the recipient; legacy mode: on version 0 the octets are those of
the plain message followed by two zero padding octets, on other versions nothing is appended -/
theorem fwd_version (c : FwdCall w k j s r src fn bits rx w' dk) (hns : suppressed src r fn = false) :
    ∃ cm : Trxd.RxMsg, dk = dgramsOf r (cm.genMsg true) ∧ cm.ver = r.hdrVer ∧
      cm.genMsg true = (match cm.genMsg false with
        | .ok b => .ok (if r.hdrVer = 0 then b ++ [0, 0] else b)
        | .error e => .error e) := by
  obtain ⟨cm, h1, _, h3⟩ := fwd_message c hns
  refine ⟨cm, h3, h1.ver_eq, ?_⟩
  rw [Codec.genMsg_legacy, h1.ver_eq]
  cases cm.genMsg false <;> rfl

/-- RSSI = sender nominal power − sender attenuation − burst attenuation − path loss (110 dB),
or, with FAKE_RSSI enabled, a value inside the configured window -/
theorem fwd_rssi (c : FwdCall w k j s r src fn bits rx w' dk) (hns : suppressed src r fn = false) :
    ∃ (cm : Trxd.RxMsg) (v : Int), dk = dgramsOf r (cm.genMsg true) ∧ cm.rssi = some v ∧
      (r.fakeRssi = false → ∃ pwr, s.pwr = some pwr ∧
        v = src.txPowerBase - src.txAttBase - pwr - Gen.World.pathLoss ∧
        v = src.txPowerBase - src.txAttBase - pwr - 110) ∧
      (r.fakeRssi = true → r.rssiBase - r.rssiThr ≤ v ∧ v ≤ r.rssiBase + r.rssiThr) := by
  obtain ⟨cm, h1, _, h3⟩ := fwd_message c hns
  obtain ⟨v, hv, ha, hb⟩ := h1.rssi_ok
  refine ⟨cm, v, h3, hv, fun hf => ?_, hb⟩
  obtain ⟨a, h1, h2⟩ := ha hf
  exact ⟨a, h1, h2, h2⟩

/-- ToA256 = d − 256 × sender timing advance with d inside the FAKE_TOA window (d = base when the
threshold is 0) -/
theorem fwd_toa (c : FwdCall w k j s r src fn bits rx w' dk) (hns : suppressed src r fn = false) :
    ∃ (cm : Trxd.RxMsg) (d : Int), dk = dgramsOf r (cm.genMsg true) ∧ cm.toa256 = some (d - 256 * src.ta) ∧
      r.toaBase - r.toaThr ≤ d ∧ d ≤ r.toaBase + r.toaThr ∧ (r.toaThr = 0 → d = r.toaBase) := by
  obtain ⟨cm, h1, _, h3⟩ := fwd_message c hns
  obtain ⟨d, hd, ha, hb⟩ := h1.toa_ok
  exact ⟨cm, d, h3, hd, ha, hb, fun h0 => by rw [h0] at ha hb; omega⟩

/-- version 1: C/I inside its configured window -/
theorem fwd_ci (c : FwdCall w k j s r src fn bits rx w' dk) (hns : suppressed src r fn = false)
    (hv : 1 ≤ r.hdrVer) :
    ∃ (cm : Trxd.RxMsg) (ci : Int), dk = dgramsOf r (cm.genMsg true) ∧ cm.ci = some ci ∧
      r.ciBase - r.ciThr ≤ ci ∧ ci ≤ r.ciBase + r.ciThr := by
  obtain ⟨cm, h1, _, h3⟩ := fwd_message c hns
  obtain ⟨ci, hc, ha, hb⟩ := h1.ci_ok hv
  exact ⟨cm, ci, h3, hc, ha, hb⟩

/-- version 1: the modulation is the FIRST member of the `Modulation` enum whose burst length is
the number of transmitted octets (none if there is no such member); TSC and TSC set are those of
`TrainingSeqGMSK.pick` for GMSK bursts (0, 0 when nothing matches), and 0, 0 otherwise -/
theorem fwd_mod (c : FwdCall w k j s r src fn bits rx w' dk) (hns : suppressed src r fn = false)
    (hv : 1 ≤ r.hdrVer) :
    ∃ cm : Trxd.RxMsg, dk = dgramsOf r (cm.genMsg true) ∧
      cm.modType = Trxd.Modulation.pickByBl bits.length ∧
      (∀ mod, cm.modType = some mod → mod.bl = bits.length ∧
        ∀ m' : Trxd.Modulation, m'.val < mod.val → m'.bl ≠ bits.length) ∧
      (cm.modType = none → ∀ m : Trxd.Modulation, m.bl ≠ bits.length) ∧
      cm.tsc = some (tscOf (Trxd.Modulation.pickByBl bits.length) bits).1 ∧
      cm.tscSet = some (tscOf (Trxd.Modulation.pickByBl bits.length) bits).2 := by
  obtain ⟨cm, _, h2, h3⟩ := fwd_message c hns
  obtain ⟨a, b, d⟩ := h2 hv
  refine ⟨cm, h3, a, fun mod hm => ?_, fun hn m => ?_, b, d⟩
  · rw [a] at hm
    obtain ⟨e1, e2⟩ := pickByBl_first _ _ hm
    exact ⟨by exact_mod_cast e1, fun m' hlt => by have := e2 m' hlt; exact_mod_cast this⟩
  · rw [a] at hn
    have := pickByBl_none _ hn m
    exact_mod_cast this

/-- 148 octets: GMSK, 444 octets: 8-PSK; for a GMSK burst the reported (TSC, TSC set) is what
`trainSeqPick` returns -/
theorem fwd_mod_values :
    Trxd.Modulation.pickByBl 148 = some Trxd.Modulation.gmsk ∧
    (Trxd.Modulation.pickByBl 148).map Trxd.Modulation.name = some "ModGMSK" ∧
    (Trxd.Modulation.pickByBl 444).map Trxd.Modulation.name = some "Mod8PSK" ∧
    (∀ bits : List Nat, tscOf (some Trxd.Modulation.gmsk) bits =
      match trainSeqPick bits with
      | some (t, s) => ((t : Int), (s : Int))
      | none => (0, 0)) := by
  refine ⟨pickByBl_values.1, pickByBl_values.2.1, pickByBl_values.2.2, fun bits => ?_⟩
  simp only [tscOf, if_true]
  cases trainSeqPick bits with
  | none => rfl
  | some p => rfl

/-- whatever `TrainingSeqGMSK.pick` returns is a table sequence present at its position -/
theorem tsc_detect_present (burst : List Nat) (t st : Nat) (h : trainSeqPick burst = some (t, st)) :
    ∃ e ∈ Gen.World.trainSeqs, e.2.1 = t ∧ e.2.2.2.2 = st ∧ presentAt e burst :=
  trainSeqPick_present burst t st h

/-- normal burst as `gen_nb` builds it (3 tail, 57 data, stealing flag, 26 TS, stealing flag,
57 data, 3 tail) with a NORMAL table sequence `e`: `pick` returns a sequence that is present at
its position, and exactly (e.tsc, e.tsc_set) if `e` is the only table sequence present at its
own position -/
theorem tsc_detect_nb (e : TsEntry) (he : e ∈ Gen.World.trainSeqs) (hbt : e.2.2.1 = "NORMAL")
    (d1 : List Nat) (s1 s2 : Nat) (d2 : List Nat) (hd1 : d1.length = 57) :
    let burst := nbLayout d1 s1 e.2.2.2.1 s2 d2
    (∃ e' ∈ Gen.World.trainSeqs, presentAt e' burst ∧
      trainSeqPick burst = some (e'.2.1, e'.2.2.2.2)) ∧
    ((∀ e' ∈ Gen.World.trainSeqs, presentAt e' burst → e' = e) →
      trainSeqPick burst = some (e.2.1, e.2.2.2.2)) :=
  trainSeqPick_of_present _ e he (nb_present e he hbt d1 s1 s2 d2 hd1)

/-- synchronisation burst as `gen_sb` builds it (3 tail, 39 data, 64 TS, 39 data, 3 tail) -/
theorem tsc_detect_sb (e : TsEntry) (he : e ∈ Gen.World.trainSeqs) (hbt : e.2.2.1 = "SYNC")
    (d1 d2 : List Nat) (hd1 : d1.length = 39) :
    let burst := sbLayout d1 e.2.2.2.1 d2
    (∃ e' ∈ Gen.World.trainSeqs, presentAt e' burst ∧
      trainSeqPick burst = some (e'.2.1, e'.2.2.2.2)) ∧
    ((∀ e' ∈ Gen.World.trainSeqs, presentAt e' burst → e' = e) →
      trainSeqPick burst = some (e.2.1, e.2.2.2.2)) :=
  trainSeqPick_of_present _ e he (sb_present e he hbt d1 d2 hd1)

/-- access burst as `gen_ab` builds it (8 tail, 41 TS, 36 data, 3 tail, 60 guard) -/
theorem tsc_detect_ab (e : TsEntry) (he : e ∈ Gen.World.trainSeqs) (hbt : e.2.2.1 = "ACCESS")
    (d : List Nat) :
    let burst := abLayout e.2.2.2.1 d
    (∃ e' ∈ Gen.World.trainSeqs, presentAt e' burst ∧
      trainSeqPick burst = some (e'.2.1, e'.2.2.2.2)) ∧
    ((∀ e' ∈ Gen.World.trainSeqs, presentAt e' burst → e' = e) →
      trainSeqPick burst = some (e.2.1, e.2.2.2.2)) :=
  trainSeqPick_of_present _ e he (ab_present e he hbt d)

/-- the generated sequences of one burst type are pairwise distinct, and so are their
(TSC, TSC set) pairs: within a burst type the reported pair identifies the sequence -/
theorem seqs_distinct :
    Gen.World.trainSeqs.Pairwise (fun a b => a.2.2.1 = b.2.2.1 →
      a.2.2.2.1 ≠ b.2.2.2.1 ∧ (a.2.1, a.2.2.2.2) ≠ (b.2.1, b.2.2.2.2)) :=
  trainSeqs_distinct

/-- every table entry is a NORMAL / SYNC / ACCESS sequence of the standard length with TSC 0..7
and TSC set 0 (so the reported values always pass the TSC / TSC-set range checks) -/
theorem seqs_ranges : ∀ e ∈ Gen.World.trainSeqs,
    ((e.2.2.1 = "NORMAL" ∧ e.2.2.2.1.length = 26) ∨ (e.2.2.1 = "SYNC" ∧ e.2.2.2.1.length = 64) ∨
     (e.2.2.1 = "ACCESS" ∧ e.2.2.2.1.length = 41)) ∧ e.2.1 ≤ 7 ∧ e.2.2.2.2 = 0 := by
  decide +kernel

/-! ### non-vacuity (`World.Examples`): the BTS (0) transmits a normal burst with NB_TS3 in frame 52
to transceiver 6 (`msFake`: version 1, FAKE_RSSI −80 ± 5, FAKE_TOA 100 ± 20, FAKE_CI 100 ± 10) -/

/-- the hypotheses (`FwdCall`, not suppressed) are satisfiable -/
example : ∃ rx w' dk, FwdCall world 6 0 (burst 52) msFake bts 52 nbBits rx w' dk ∧
    suppressed bts msFake 52 = false := by
  have hrx := trans_burst (fwdInput bts (burst 52)) msFake.hdrVer nbBits rfl (by decide +kernel)
  obtain ⟨⟨w', dk⟩, h⟩ := exists_of_isOk (handleDataMsg world 6 0 (fwdInput bts (burst 52))
      { Trxd.RxMsg.fresh with fn := (fwdInput bts (burst 52)).fn, tn := (fwdInput bts (burst 52)).tn,
                              ver := msFake.hdrVer, burst := some (nbBits.map softOf) })
    (by decide +kernel)
  exact ⟨_, w', dk, ⟨rfl, rfl, by decide, rfl, rfl, by decide +kernel, hrx, h⟩, by decide⟩

/-- what the model emits there: one datagram of 11 + 148 octets to the peer of transceiver 6 with
version 1 / TN 2, FN 52, RSSI −79 (inside −80 ± 5), ToA256 87 (inside 100 ± 20), MTS = GMSK, set 0,
TSC 3, C/I 101 (inside 100 ± 10), first soft bits +127 (octet 0) … -/
example : ((outOf (forwardMsg world 0 (burst 52))).filter (toDataPeer msFake)).map
    (fun d => (d.data.length, d.data.take 14)) =
    [(159, [18, 0, 0, 0, 52, 79, 0, 87, 3, 0, 101, 0, 0, 0])] := by decide +kernel

/-- a version-0 recipient (transceiver 4, frame 51 is odd: no loss): 8 + 148 + 2 octets, RSSI
50 − 0 − 10 − 110 = −70, ToA256 0, the last soft bits (tail 0 ↦ +127 = octet 0) and two padding octets -/
example : ((outOf (forwardMsg world 0 (burst 51))).filter (toDataPeer msDrop)).map
    (fun d => (d.data.length, d.data.take 8, d.data.drop 153)) =
    [(158, [2, 0, 0, 0, 51, 70, 0, 0], [0, 0, 0, 0, 0])] := by decide +kernel

/-- training sequence detection on that burst: NB_TS3 is the only table sequence present -/
example : trainSeqPick nbBits = some (3, 0) ∧
    (∀ e' ∈ Gen.World.trainSeqs, presentAt e' nbBits →
      e' = ("NB_TS3", 3, "NORMAL", [0,1,0,0,0,1,1,1,1,0,1,1,0,1,0,0,0,1,0,0,0,1,1,1,1,0], 0)) := by
  constructor <;> decide +kernel

/-- the "only one present" hypothesis of `tsc_detect_*` is forced: a normal burst with NB_TS3 whose
payload happens to carry AB_TS0 at bits 8..48 is reported as TSC 0 (access-burst sequences come
first in the enumeration) -/
example : trainSeqPick (nbLayout
    ([0,0,0,0,0] ++ [0,1,0,0,1,0,1,1,0,1,1,1,1,1,1,1,1,0,0,1,1,0,0,1,1,0,1,0,1,0,1,0,0,0,1,1,1,1,0,0,0] ++
      List.replicate 11 0) 0
    [0,1,0,0,0,1,1,1,1,0,1,1,0,1,0,0,0,1,0,0,0,1,1,1,1,0] 1 (List.replicate 57 0)) = some (0, 0) := by
  decide +kernel

end OsmoVerif.Props.C10
