/-
C20 — Mobile Allocation decoding selects exactly the flagged cell channels.
Property theorems only.  Model: `OsmoVerif.Model.MobileAlloc` (gsm48_decode_mobile_alloc with
capacity-checked buffers), specification: `OsmoVerif.Spec.MobileAlloc` (TS 44.018 §10.5.2.21),
lemmas: `OsmoVerif.Lemmas.MobileAlloc`.

Reading of the statements: `freq` is the caller's `freq[1024]` array of masks, the cell allocation
is the set of ARFCNs whose mask has FREQ_TYPE_SERV (`servAt freq`), `ma`/`len` the value part of
the IE and its length, `hopping`/`hoppLen` the caller's output objects with arbitrary previous
contents.  `decode … = .ok (rc, st)` means: the function returned `rc`, performed no access
outside any buffer, used no indeterminate value, and left the caller's objects as `st`.
-/
import OsmoVerif.Lemmas.MobileAlloc

namespace OsmoVerif.Props.C20
open OsmoVerif OsmoVerif.MobileAlloc OsmoVerif.Gen.MobileAlloc OsmoVerif.Spec.MobileAlloc

/-- The regenerated data of the current tree: the mask bits, the error code, the capacities of the
buffers the callers hand in (`gsm48_sysinfo.freq[1024]`, `gsm48_sysinfo.hopping[64]` and every
`uint16_t ma[64]` of gsm48_rr.c) and the local table (`uint16_t f[64]`, not a VLA). -/
theorem tree_constants :
    freqTypeServ = 1 ∧ freqTypeHopp = 2 ∧ 0 < einval ∧ sizeofFreq = 1 ∧ freqCap = 1024 ∧
    hoppingCap = 64 ∧ fIsVla = false ∧ ∀ len, fCap len = 64 := by
  refine ⟨by decide, by decide, by decide, by decide, by decide, by decide, by decide, fun _ => rfl⟩

/-- **Bitmaps of up to 8 octets.**  The function returns 0; the decoded list is exactly the
selection of the standard (`Spec.select`: the i-th frequency of the cell allocation list, ordered
ascending with ARFCN 0 last, is included iff MA C i = 1, MA C 1 being the LSB of the last octet);
`*hopp_len` is its length; every entry is a cell-allocation ARFCN below 1024; the list is in the
order of the standard (hence without repetitions); it has at most 64 entries; nothing of
`hopping[]` beyond the list is modified. -/
theorem decode_ma_spec (freq ma : List Nat) (len : Nat) (hopping : List Nat) (hoppLen : Nat) (si4 : Bool)
    (hf : freq.length = 1024) (hm : ma.length = len) (h8 : len ≤ 8) (hh : 64 ≤ hopping.length) :
    ∃ st, decode freq ma len hopping hoppLen si4 = .ok (0, st) ∧
      hoppingList st = select (servAt freq) ma ∧
      st.hoppLen = (select (servAt freq) ma).length ∧
      (∀ a ∈ hoppingList st, servAt freq a = true ∧ a < 1024) ∧
      Ordered (hoppingList st) ∧
      (hoppingList st).length ≤ 64 ∧
      st.hopping.length = hopping.length ∧
      st.hopping.drop st.hoppLen = hopping.drop st.hoppLen := by
  have hlen := select_length_le (servAt freq) ma
  have hle : (select (servAt freq) ma).length ≤ hopping.length := by omega
  obtain ⟨a1, a2, a3⟩ := applySel_hopping_zero si4 (select (servAt freq) ma)
    (if si4 then freq.map clearHopp else freq) hopping hle
  have a0 := applySel_hoppLen si4 (select (servAt freq) ma)
    ⟨if si4 then freq.map clearHopp else freq, hopping, 0⟩
  simp only [Nat.zero_add] at a0
  refine ⟨_, decode_eq_select freq ma len hopping hoppLen si4 hf hm h8 hh, ?_, a0, ?_, ?_, ?_, a1, ?_⟩
  · simp only [hoppingList, a0, a2]
  · intro a ha
    simp only [hoppingList, a0, a2] at ha
    exact mem_caList ((select_sublist _ _).subset ha)
  · simp only [hoppingList, a0, a2]
    exact List.Pairwise.sublist (select_sublist _ _) (caList_ordered _)
  · simp only [hoppingList, a0, a2]; omega
  · rw [a0, a3]

/-- "Exactly the cell-allocation channels whose bit is set": membership in the selection. -/
theorem selected_iff (inCA : Nat → Bool) (ma : List Nat) (a : Nat) :
    a ∈ select inCA ma ↔ ∃ i, 1 ≤ i ∧ (caList inCA)[i - 1]? = some a ∧ maC ma i = true :=
  mem_select_iff inCA ma a

/-- The cell allocation frequency list of the specification is the cell allocation, ascending
with ARFCN 0 last. -/
theorem caList_is_cell_allocation (inCA : Nat → Bool) :
    Ordered (caList inCA) ∧ ∀ a, a ∈ caList inCA ↔ (inCA a = true ∧ a < 1024) := by
  refine ⟨caList_ordered inCA, fun a => ⟨mem_caList, ?_⟩⟩
  rintro ⟨h1, h2⟩
  simp only [caList, List.mem_append, List.mem_filter, List.mem_range'_1]
  by_cases h0 : a = 0
  · subst h0; right; simp only [h1, if_true, List.mem_singleton]
  · left; exact ⟨by omega, h1⟩

/-- "ARFCN 0 last" (TS 44.018 10.5.2.21), as a statement about the selection: when ARFCN 0 belongs to the
cell allocation it is the LAST entry of the cell allocation frequency list, so it hops exactly when the
bit MA C n of the last position n = |CA| is set (for 64 channels and 8 octets: the MSB of the first octet),
whatever the other channels and bits are. -/
theorem arfcn0_last (inCA : Nat → Bool) (ma : List Nat) (h0 : inCA 0 = true) :
    (caList inCA)[(caList inCA).length - 1]? = some 0 ∧
    (0 ∈ select inCA ma ↔ maC ma (caList inCA).length = true) := by
  have hca : caList inCA = (List.range' 1 1023).filter inCA ++ [0] := by
    simp only [caList, h0, if_true]
  have hnot : ∀ k : Nat, ((List.range' 1 1023).filter inCA)[k]? ≠ some 0 := by
    intro k hk
    have := List.mem_of_getElem? hk
    simp only [List.mem_filter, List.mem_range'_1] at this
    omega
  have hlen : (caList inCA).length = ((List.range' 1 1023).filter inCA).length + 1 := by
    rw [hca, List.length_append, List.length_singleton]
  have hlast : (caList inCA)[(caList inCA).length - 1]? = some 0 := by
    rw [hlen, hca, Nat.add_sub_cancel, List.getElem?_append_right (Nat.le_refl _), Nat.sub_self]
    rfl
  refine ⟨hlast, ?_⟩
  rw [selected_iff]
  constructor
  · rintro ⟨i, hi, hget, hbit⟩
    have : i = (caList inCA).length := by
      rw [hca] at hget
      by_cases hlt : i - 1 < ((List.range' 1 1023).filter inCA).length
      · rw [List.getElem?_append_left hlt] at hget
        exact absurd hget (hnot _)
      · have hge : ((List.range' 1 1023).filter inCA).length ≤ i - 1 := by omega
        rw [List.getElem?_append_right hge] at hget
        generalize hk : i - 1 - ((List.range' 1 1023).filter inCA).length = k at hget
        cases k with
        | zero => omega
        | succ m => simp at hget
    rw [← this]; exact hbit
  · intro hbit
    exact ⟨(caList inCA).length, by omega, hlast, hbit⟩

/-- **The `freq[].mask` update** (same hypotheses): without `si4` no mask changes; with `si4`
FREQ_TYPE_HOPP is cleared everywhere and set exactly on the decoded channels, all other bits
keep their value. -/
theorem decode_ma_masks (freq ma : List Nat) (len : Nat) (hopping : List Nat) (hoppLen : Nat) (si4 : Bool)
    (hf : freq.length = 1024) (hm : ma.length = len) (h8 : len ≤ 8) (hh : 64 ≤ hopping.length) :
    ∃ st, decode freq ma len hopping hoppLen si4 = .ok (0, st) ∧ st.freq.length = 1024 ∧
      ∀ a, st.freq[a]? = (freq[a]?).map fun m =>
        if si4 then (if a ∈ select (servAt freq) ma then setHopp (clearHopp m) else clearHopp m) else m := by
  refine ⟨_, decode_eq_select freq ma len hopping hoppLen si4 hf hm h8 hh, ?_, ?_⟩
  · rw [applySel_freq_length]
    cases si4
    · exact hf
    · simp only [if_true, List.length_map, hf]
  · intro a
    cases si4
    · rw [applySel_freq_false]
      simp only [Bool.false_eq_true, if_false]
      cases freq[a]? <;> rfl
    · rw [applySel_freq_true]
      simp only [if_true, List.getElem?_map]
      by_cases hs : a ∈ select (servAt freq) ma
      · simp only [hs, if_true, Option.map_map]; rfl
      · simp only [hs, if_false]

/-- the two mask operations on an octet: only bit 1 (FREQ_TYPE_HOPP = 0x02) is affected -/
theorem mask_ops : ∀ m < 256, clearHopp m = m &&& 0xfd ∧ setHopp (clearHopp m) = (m &&& 0xfd) ||| 0x02 ∧
    isServ (clearHopp m) = isServ m := by
  decide +kernel

/-- **Longer bitmaps are rejected**: for `len > 8` (any `freq`, `ma`, `hopping` whatsoever) the
function returns `-EINVAL` (< 0) and `freq[]`, `hopping[]`, `*hopp_len` are untouched; no buffer is
accessed at all. -/
theorem decode_ma_reject (freq ma : List Nat) (len : Nat) (hopping : List Nat) (hoppLen : Nat) (si4 : Bool)
    (h : len > 8) :
    decode freq ma len hopping hoppLen si4 = .ok (-(einval : Int), ⟨freq, hopping, hoppLen⟩) ∧
      -(einval : Int) < 0 := by
  refine ⟨decode_reject freq ma len hopping hoppLen si4 h, ?_⟩
  have : 0 < einval := by decide
  omega

/-- **No bitmap makes the decoder leave its buffers**: for ALL `freq[1024]` contents (every cell
allocation, of any size, with or without ARFCN 0), all `len`, all bitmap contents (the `ma`
object holding at least the `len` octets the function may look at) and every `hopping` buffer of
at least 64 entries, the function returns normally: no read or write outside `f`, `hopping`,
`freq`, `ma`, no use of an indeterminate `f[i]`, no zero-sized VLA, and all loops terminate. -/
theorem decode_ma_bounds (freq ma : List Nat) (len : Nat) (hopping : List Nat) (hoppLen : Nat) (si4 : Bool)
    (hf : freq.length = 1024) (hl : len ≤ 8 → len ≤ ma.length) (hh : 64 ≤ hopping.length) :
    ∃ rc st, decode freq ma len hopping hoppLen si4 = .ok (rc, st) := by
  by_cases h8 : len ≤ 8
  · exact ⟨_, _, decode_ok freq ma len hopping hoppLen si4 hf (hl h8) h8 hh⟩
  · exact ⟨_, _, decode_reject freq ma len hopping hoppLen si4 (by omega)⟩

/-- **An empty bitmap yields an empty list** (whatever the cell allocation): return 0,
`*hopp_len = 0`, `hopping[]` untouched (F7: the unfixed code wrote the cell allocation behind a
zero-sized `f` here). -/
theorem empty_bitmap (freq ma : List Nat) (hopping : List Nat) (hoppLen : Nat) (si4 : Bool)
    (hf : freq.length = 1024) (hh : 64 ≤ hopping.length) :
    decode freq ma 0 hopping hoppLen si4 =
      .ok (0, ⟨if si4 then freq.map clearHopp else freq, hopping, 0⟩) := by
  rw [decode_ok freq ma 0 hopping hoppLen si4 hf (Nat.zero_le _) (by decide) hh]
  rfl

/-- **A bit pointing beyond the cell allocation ends decoding**: the function still returns 0,
the list holds the channels selected so far (bits 1..NF, NF = size of the cell allocation list;
at most NF entries), and whatever the bitmap contains after position NF has no influence on the
result at all. -/
theorem beyond_ca_ends (freq ma ma' : List Nat) (len : Nat) (hopping : List Nat) (hoppLen : Nat) (si4 : Bool)
    (hf : freq.length = 1024) (hm : ma.length = len) (hm' : ma'.length = len) (h8 : len ≤ 8)
    (hh : 64 ≤ hopping.length)
    (hsame : ∀ k, 1 ≤ k → k ≤ (caList (servAt freq)).length → maC ma' k = maC ma k) :
    (∃ st, decode freq ma len hopping hoppLen si4 = .ok (0, st) ∧
       st.hoppLen ≤ (caList (servAt freq)).length) ∧
    decode freq ma' len hopping hoppLen si4 = decode freq ma len hopping hoppLen si4 := by
  constructor
  · refine ⟨_, decode_eq_select freq ma len hopping hoppLen si4 hf hm h8 hh, ?_⟩
    rw [applySel_hoppLen]
    have := (select_length_le (servAt freq) ma).2
    simp only [Nat.zero_add]
    exact this
  · rw [decode_eq_select freq ma len hopping hoppLen si4 hf hm h8 hh,
      decode_eq_select freq ma' len hopping hoppLen si4 hf hm' h8 hh,
      select_congr (servAt freq) ma ma' hsame]

/-! ### non-vacuity

The hypotheses are satisfiable by the interesting inputs, and the conclusions are what the model
returns on them (`run_model`: the model's result obtained through `decode_ma_spec`, the selection
itself evaluated by the kernel).  The same request lines are part of the correspondence with the
real C function (props/C20.py: FIXED). -/

/-- the observable result of the model on a concrete cell allocation (`mkFreq p`: `freq[1024]`
with FREQ_TYPE_SERV on the ARFCNs satisfying `p`) -/
theorem run_model (p : Nat → Bool) (ma hop : List Nat) (hl : Nat) (si4 : Bool) (sel : List Nat)
    (hm : ma.length ≤ 8) (hh : 64 ≤ hop.length)
    (hs : select (fun a => decide (a < 1024) && p a) ma = sel) :
    obs (decode (mkFreq p) ma ma.length hop hl si4) = some (0, sel.length, sel) := by
  obtain ⟨st, h1, h2, h3, _⟩ := decode_ma_spec (mkFreq p) ma ma.length hop hl si4
    (mkFreq_length p) rfl hm hh
  rw [servAt_mkFreq, hs] at h2 h3
  simp only [h1, obs, h2, h3]

/-- a cell allocation with ARFCN 0: ARFCN 0 is the LAST entry of the list (MA C 4 here) -/
example : obs (decode (mkFreq [0, 10, 20, 30].contains) [0x0b] 1 (List.replicate 64 0xffff) 0xaa true)
    = some (0, 3, [10, 20, 0]) :=
  run_model [0, 10, 20, 30].contains [0x0b] (List.replicate 64 0xffff) 0xaa true [10, 20, 0]
    (by decide) (by decide) (by decide +kernel)

/-- a 64-entry cell allocation (ARFCN 1..64) and an all-ones bitmap of 8 octets: 64 entries -/
example : obs (decode (mkFreq fun a => 1 ≤ a && a ≤ 64) (List.replicate 8 0xff) 8 (List.replicate 64 0xffff) 0xaa false)
    = some (0, 64, List.range' 1 64) :=
  run_model (fun a => 1 ≤ a && a ≤ 64) (List.replicate 8 0xff) (List.replicate 64 0xffff) 0xaa false
    (List.range' 1 64) (by decide) (by decide) (by decide +kernel)

/-- a 64-entry cell allocation containing ARFCN 0 (0..63): ARFCN 0 is entry 64, selected by the
MSB of the first octet -/
example : obs (decode (mkFreq fun a => a ≤ 63) [0x80, 0, 0, 0, 0, 0, 0, 0x01] 8 (List.replicate 64 0xffff) 0xaa true)
    = some (0, 2, [1, 0]) :=
  run_model (fun a => a ≤ 63) [0x80, 0, 0, 0, 0, 0, 0, 0x01] (List.replicate 64 0xffff) 0xaa true
    [1, 0] (by decide) (by decide) (by decide +kernel)

/-- a cell allocation of more than 64 channels (outside the property's quantifier, but inside the
theorems): only the first 64 of the list can be selected, the output still has at most 64 entries -/
example : obs (decode (mkFreq fun a => a < 80) (List.replicate 8 0xff) 8 (List.replicate 64 0xffff) 0xaa true)
    = some (0, 64, List.range' 1 64) :=
  run_model (fun a => a < 80) (List.replicate 8 0xff) (List.replicate 64 0xffff) 0xaa true
    (List.range' 1 64) (by decide) (by decide) (by decide +kernel)

/-- a bit beyond the cell allocation (MA C 4 with 3 cell channels) ends decoding without error;
the premises of `beyond_ca_ends` hold for the bitmaps 0x0d and 0xfd -/
example : bitBeyond (fun a => decide (a < 1024) && [10, 20, 30].contains a) [0x0d] = true ∧
    obs (decode (mkFreq [10, 20, 30].contains) [0x0d] 1 (List.replicate 64 0xffff) 0xaa true)
      = some (0, 2, [10, 30]) ∧
    (∀ k < 4, 1 ≤ k → maC [0xfd] k = maC [0x0d] k) :=
  ⟨by decide +kernel,
   run_model [10, 20, 30].contains [0x0d] (List.replicate 64 0xffff) 0xaa true [10, 30]
     (by decide) (by decide) (by decide +kernel),
   by decide⟩

/-- bit order: MA C 1 is the LSB of the LAST octet, MA C 10 is bit 2 of the octet before -/
example : obs (decode (mkFreq fun a => 100 ≤ a && a < 112) [0x02, 0x01] 2 (List.replicate 64 0xffff) 0xaa false)
    = some (0, 2, [100, 109]) :=
  run_model (fun a => 100 ≤ a && a < 112) [0x02, 0x01] (List.replicate 64 0xffff) 0xaa false [100, 109]
    (by decide) (by decide) (by decide +kernel)

/-- a 9-octet bitmap is rejected with everything untouched (direct evaluation of the model) -/
example : obs (decode (mkFreq [1, 2, 3].contains) (List.replicate 9 0xff) 9 (List.replicate 64 0xffff) 0xaa true)
    = some (-22, 0xaa, List.replicate 64 0xffff) := by decide +kernel

/-- the fault outcomes are reachable when a premise of `decode_ma_bounds` is dropped (direct
evaluation of the model): a `freq` array of 5 entries is read at index 5, a `hopping` buffer of
one entry is written at index 1, a bitmap object shorter than `len` is read outside -/
example : faultOf (decode (List.replicate 5 1) [0xff] 1 (List.replicate 64 0) 0 false)
      = some (.oobRead .freq 5) ∧
    faultOf (decode (List.replicate 1024 1) [0xff] 1 [0] 0 false) = some (.oobWrite .hopping 1) ∧
    faultOf (decode (List.replicate 1024 1) [] 1 (List.replicate 64 0) 0 false) = some (.oobRead .ma 0) := by
  decide +kernel

end OsmoVerif.Props.C20
