/-
trxcon (C) side of the TRX interface — the property theorems about `src/host/trxcon/src/trx_if.c`
that C04 (TRXD layout, trxcon decodes / emits it), C05 (TRXC commands and the response parser)
and C14 (no datagram can crash the transceiver interface) rest on.
Model: `OsmoVerif.Model.TrxconIf`; lemmas: `OsmoVerif.Lemmas.TrxconIf`;
layout: `OsmoVerif.Spec.TrxdLayout` (written from the protocol description).
-/
import OsmoVerif.Lemmas.TrxconIf

namespace OsmoVerif.Props.Trxcon
open OsmoVerif OsmoVerif.TrxconIf OsmoVerif.Gen.Trxcon OsmoVerif.Spec.TrxdLayout

/-- The regenerated constants are the ones the theorems below speak about. -/
theorem consts : trxdBufSize = 512 ∧ trxcBufSize = 1024 ∧ cmdSize = 1024 ∧ trxdv0HdrLen = 8 ∧
    gsmTdmaHyperframe = 2715648 ∧ nbitsGmsk = 148 ∧ nbits8psk = 444 := by decide

/-! ## C04: trxcon decodes / emits the TRXD layout -/

/-- Every version-0 TRX→L1 message laid out per the protocol description (any FN of the
hyperframe, TN 0..7, RSSI −128..0 dBm — the exact range `-(int8_t) buf[5]` decodes faithfully,
the protocol range −120..−47 lies inside —, any int16 ToA256, 148 or 444 soft bits in
−127..127, with or without the two legacy padding octets) is handed to the scheduler with
exactly these values; the RTS indication carries (FN + fn_advance) mod hyperframe in
`uint32_t` arithmetic. -/
theorem trxcon_decodes_layout (m : RxFields) (legacy : Bool) (soft : List Int) (adv : Nat)
    (hv : m.ver = 0) (hs : m.soft = some soft)
    (hfn : m.fn < 2715648) (htn : m.tn < 8) (hr : -128 ≤ m.rssi ∧ m.rssi ≤ 0)
    (ht : -32768 ≤ m.toa256 ∧ m.toa256 ≤ 32767)
    (hl : soft.length = 148 ∨ soft.length = 444) (hb : ∀ s ∈ soft, -127 ≤ s ∧ s ≤ 127) :
    cRx (layoutRx m legacy) adv =
      .ind ⟨m.tn, m.fn, m.rssi, m.toa256, soft⟩ ⟨u32 (m.fn + u32 adv) % 2715648, m.tn⟩ := by
  rw [layoutRx_v0 m legacy soft hv hs]
  have hcap : trxdBufSize = 512 := by decide
  have hh : trxdv0HdrLen = 8 := by decide
  have hg : nbitsGmsk = 148 := by decide
  have hp : nbits8psk = 444 := by decide
  generalize hpre : [m.tn, m.fn / 16777216 % 256, m.fn / 65536 % 256, m.fn / 256 % 256, m.fn % 256,
    (-m.rssi).toNat, (m.toa256 % 65536).toNat / 256, (m.toa256 % 65536).toNat % 256] = pre
  have hpl : pre.length = 8 := by rw [← hpre]; rfl
  have hp0 : pre[0]? = some m.tn := by rw [← hpre]; rfl
  have hpost : (if legacy then [0, 0] else ([] : List Nat)).length ≤ 2 := by cases legacy <;> simp
  have hlen : (pre ++ soft.map softOctet ++ (if legacy then [0, 0] else [])).length
      = 8 + soft.length + (if legacy then [0, 0] else ([] : List Nat)).length := by
    simp only [List.length_append, List.length_map, hpl]
  have hbody := cRxInd_layout pre soft (if legacy then [0, 0] else []) adv m.tn m.fn m.rssi m.toa256 hpre.symm
    htn hfn hr ht hb (by rcases hl with h | h <;> omega)
  have hsw : burstLenSwitch (8 + soft.length + (if legacy then [0, 0] else ([] : List Nat)).length - 8)
      = some soft.length := by
    simp only [burstLenSwitch, hg, hp]
    rcases hl with h | h <;> cases legacy <;> simp [h]
  have hrd0 : rd (pre ++ soft.map softOctet ++ (if legacy then [0, 0] else [])) 512 0 = .ok m.tn := by
    apply rd_ok _ (by omega)
    rw [List.append_assoc, List.getElem?_append_left (by omega)]
    exact hp0
  simp only [cRx, hcap]
  rw [List.take_of_length_le (by rw [hlen]; rcases hl with h | h <;> omega)]
  rw [if_neg (by rw [hlen]; omega), if_neg (by rw [hlen, hh]; omega)]
  simp only [cRxBody, hcap, hh, hrd0, hlen, hsw, hbody, bind, Except.bind, pure, Except.pure]
  rw [if_neg (by omega)]

/-- …and for a frame-number advance that does not overflow `uint32_t` this is the plain sum. -/
theorem trxcon_rts_fn (fn adv : Nat) (hfn : fn < 2715648) (hadv : adv ≤ 4292251647) :
    u32 (fn + u32 adv) % 2715648 = (fn + adv) % 2715648 := by
  simp only [u32]; omega

/-- The RSSI range of `trxcon_decodes_layout` is exact: an octet 129..255 (RSSI below −128 dBm)
comes out positive. -/
theorem trxcon_rssi_range_exact (b : Nat) (h1 : 129 ≤ b) (h2 : b ≤ 255) :
    s8i (-(s8 b)) = 256 - (b : Int) ∧ s8i (-(s8 b)) ≠ -(b : Int) := by
  rw [rssi_decode_out b h1 h2]; omega

/-- Every burst request with `burst_len` octets that fit the TRXD buffer is emitted per the
L1→TRX layout, version 0 (TN 0..7, any `uint32_t` FN, any attenuation octet; the bits are copied
as they are). -/
theorem trxcon_emits_layout (tn fn pwr : Nat) (bits : List Nat)
    (htn : tn < 8) (hfn : fn < 4294967296) (hp : pwr < 256) (hl : bits.length ≤ 506) :
    cTx ⟨tn, fn, pwr, bits, bits.length⟩ = .sent 0 (layoutTx ⟨0, fn, tn, pwr, bits⟩ false) := by
  have hcap : trxdBufSize = 512 := by decide
  have e1 : u8 tn = tn := by simp only [u8]; omega
  have e2 : u32 fn = fn := by simp only [u32]; omega
  have e3 : u8 pwr = pwr := by simp only [u8]; omega
  have e4 : u32 bits.length = bits.length := by simp only [u32]; omega
  simp only [cTx, layoutTx, hdr, be32, pad, hcap, e1, e2, e3, e4, store32be_eq]
  by_cases h0 : bits.length = 0
  · have : bits = [] := List.eq_nil_of_length_eq_zero h0
    subst this; simp
  · rw [if_pos h0, if_neg (by omega), if_neg (by omega), List.take_length]
    simp

/-- `buf[0] = br->tn` is not masked: for TN ≥ 8 the octet is still `tn mod 256`, i.e. it runs
into bit 3 and the version nibble (TN 16 reads as version 1, TN 0). -/
theorem trxcon_emits_tn_unmasked (tn fn pwr : Nat) :
    ∃ rest, cTx ⟨tn, fn, pwr, [], 0⟩ = .sent 0 (tn % 256 :: rest) := by
  exact ⟨_, rfl⟩

/-- A burst that does not fit behind the 6 header octets of `buf[TRXD_BUF_SIZE]` overflows it. -/
theorem trxcon_tx_overflow (tn fn pwr : Nat) (bits : List Nat) (h1 : 506 < bits.length)
    (h2 : bits.length < 4294967296) : cTx ⟨tn, fn, pwr, bits, bits.length⟩ = .fault .crash := by
  have hcap : trxdBufSize = 512 := by decide
  have e4 : u32 bits.length = bits.length := by simp only [u32]; omega
  simp only [cTx, hcap, e4]
  rw [if_pos (by omega), if_neg (by omega), if_pos (by omega)]

/-! ## C14: the TRXD receive path stays inside its buffer -/

/-- For ALL datagrams (any length; `read()` keeps at most `TRXD_BUF_SIZE` = 512 octets): every
access of `trx_data_rx_cb` to `buf` — all go through `rd`/`wr`, which fault on an index
≥ read_len (uninitialised) or ≥ 512 (outside) — is in bounds, and the outcome is either a return
code without any indication or the burst + RTS indications. -/
theorem trxd_rx_in_bounds (d : List Nat) (adv : Nat) :
    (d.take trxdBufSize).length ≤ 512 ∧
    ((∃ rc, cRx d adv = .ret rc) ∨ (∃ bi rts, cRx d adv = .ind bi rts)) := by
  refine ⟨by simp only [List.length_take]; have : trxdBufSize = 512 := by decide
             omega, ?_⟩
  have := cRx_noFault d adv
  cases h : cRx d adv with
  | ret rc => exact .inl ⟨rc, rfl⟩
  | ind bi rts => exact .inr ⟨bi, rts, rfl⟩
  | fault f => rw [h] at this; exact this.elim

/-- The rejections: short datagram, foreign version, unexpected length, FN beyond the hyperframe
(checked after the conversion loop has run). -/
theorem trxd_rx_short (d : List Nat) (adv : Nat) (h0 : 0 < d.length) (h : d.length < 8) :
    cRx d adv = .ret (-22) := by
  have hcap : trxdBufSize = 512 := by decide
  have hh : trxdv0HdrLen = 8 := by decide
  simp only [cRx, hcap, hh, List.length_take]
  rw [if_neg (by omega), if_pos (by omega)]; rfl

/-- non-vacuity / concrete behaviour: a v0 NB with padding, FN at the end of the hyperframe,
RSSI −128, ToA −32768; an FN beyond the hyperframe; a version-1 header. -/
example : cRx (layoutRx ⟨0, 2715647, 7, -128, -32768, false, .gmsk 0, 0, 0, some (List.replicate 148 (-127))⟩ true) 2
    = .ind ⟨7, 2715647, -128, -32768, List.replicate 148 (-127)⟩ ⟨1, 7⟩ := by decide +kernel
example : cRx (layoutRx ⟨0, 2715648, 7, -60, 5, false, .gmsk 0, 0, 0, some (List.replicate 148 0)⟩ false) 2
    = .ret (-22) := by decide +kernel
example : cRx (layoutRx ⟨1, 5, 7, -60, 5, false, .gmsk 0, 0, 0, some (List.replicate 148 0)⟩ false) 2
    = .ret (-95) := by decide +kernel
example : cTx ⟨3, 42, 10, [0, 1, 1], 3⟩ = .sent 0 [3, 0, 0, 0, 42, 10, 0, 1, 1] := by decide +kernel

end OsmoVerif.Props.Trxcon
