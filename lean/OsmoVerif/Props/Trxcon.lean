/-
trxcon (C) side of the TRX interface — the property theorems about `src/host/trxcon/src/trx_if.c`
that C04 (TRXD layout, trxcon decodes / emits it), C05 (TRXC commands and the response parser)
and C14 (no datagram can crash the transceiver interface) rest on.
Model: `OsmoVerif.Model.TrxconIf`; lemmas: `OsmoVerif.Lemmas.TrxconIf`;
layout: `OsmoVerif.Spec.TrxdLayout` (written from the protocol description).
-/
import OsmoVerif.Lemmas.TrxconIf

namespace OsmoVerif.Props.Trxcon
open OsmoVerif OsmoVerif.TrxconIf OsmoVerif.Gen.Trxcon OsmoVerif.Spec.TrxdLayout

/-- The regenerated constants are the ones the theorems below speak about. -/
theorem consts : trxdBufSize = 512 ∧ trxcBufSize = 1024 ∧ cmdSize = 1024 ∧ trxdv0HdrLen = 8 ∧
    gsmTdmaHyperframe = 2715648 ∧ nbitsGmsk = 148 ∧ nbits8psk = 444 := by decide

/-! ## C04: trxcon decodes / emits the TRXD layout -/

/-- Every version-0 TRX→L1 message laid out per the protocol description (any FN of the
hyperframe, TN 0..7, RSSI −128..0 dBm — the exact range `-(int8_t) buf[5]` decodes faithfully,
the protocol range −120..−47 lies inside —, any int16 ToA256, 148 or 444 soft bits in
−127..127, with or without the two legacy padding octets) is handed to the scheduler with
exactly these values; the RTS indication carries (FN + fn_advance) mod hyperframe in
`uint32_t` arithmetic. -/
theorem trxcon_decodes_layout (m : RxFields) (legacy : Bool) (soft : List Int) (adv : Nat)
    (hv : m.ver = 0) (hs : m.soft = some soft)
    (hfn : m.fn < 2715648) (htn : m.tn < 8) (hr : -128 ≤ m.rssi ∧ m.rssi ≤ 0)
    (ht : -32768 ≤ m.toa256 ∧ m.toa256 ≤ 32767)
    (hl : soft.length = 148 ∨ soft.length = 444) (hb : ∀ s ∈ soft, -127 ≤ s ∧ s ≤ 127) :
    cRx (layoutRx m legacy) adv =
      .ind ⟨m.tn, m.fn, m.rssi, m.toa256, soft⟩ ⟨u32 (m.fn + u32 adv) % 2715648, m.tn⟩ := by
  rw [layoutRx_v0 m legacy soft hv hs]
  have hcap : trxdBufSize = 512 := by decide
  have hh : trxdv0HdrLen = 8 := by decide
  have hg : nbitsGmsk = 148 := by decide
  have hp : nbits8psk = 444 := by decide
  generalize hpre : [m.tn, m.fn / 16777216 % 256, m.fn / 65536 % 256, m.fn / 256 % 256, m.fn % 256,
    (-m.rssi).toNat, (m.toa256 % 65536).toNat / 256, (m.toa256 % 65536).toNat % 256] = pre
  have hpl : pre.length = 8 := by rw [← hpre]; rfl
  have hp0 : pre[0]? = some m.tn := by rw [← hpre]; rfl
  have hpost : (if legacy then [0, 0] else ([] : List Nat)).length ≤ 2 := by cases legacy <;> simp
  have hlen : (pre ++ soft.map softOctet ++ (if legacy then [0, 0] else [])).length
      = 8 + soft.length + (if legacy then [0, 0] else ([] : List Nat)).length := by
    simp only [List.length_append, List.length_map, hpl]
  have hbody := cRxInd_layout pre soft (if legacy then [0, 0] else []) adv m.tn m.fn m.rssi m.toa256 hpre.symm
    htn hfn hr ht hb (by rcases hl with h | h <;> omega)
  have hsw : burstLenSwitch (8 + soft.length + (if legacy then [0, 0] else ([] : List Nat)).length - 8)
      = some soft.length := by
    simp only [burstLenSwitch, hg, hp]
    rcases hl with h | h <;> cases legacy <;> simp [h]
  have hrd0 : rd (pre ++ soft.map softOctet ++ (if legacy then [0, 0] else [])) 512 0 = .ok m.tn := by
    apply rd_ok _ (by omega)
    rw [List.append_assoc, List.getElem?_append_left (by omega)]
    exact hp0
  simp only [cRx, hcap]
  rw [List.take_of_length_le (by rw [hlen]; rcases hl with h | h <;> omega)]
  rw [if_neg (by rw [hlen]; omega), if_neg (by rw [hlen, hh]; omega)]
  simp only [cRxBody, hcap, hh, hrd0, hlen, hsw, hbody, bind, Except.bind, pure, Except.pure]
  rw [if_neg (by omega)]

/-- …and for a frame-number advance that does not overflow `uint32_t` this is the plain sum. -/
theorem trxcon_rts_fn (fn adv : Nat) (hfn : fn < 2715648) (hadv : adv ≤ 4292251647) :
    u32 (fn + u32 adv) % 2715648 = (fn + adv) % 2715648 := by
  simp only [u32]; omega

/-- The RSSI range of `trxcon_decodes_layout` is exact: an octet 129..255 (RSSI below −128 dBm)
comes out positive. -/
theorem trxcon_rssi_range_exact (b : Nat) (h1 : 129 ≤ b) (h2 : b ≤ 255) :
    s8i (-(s8 b)) = 256 - (b : Int) ∧ s8i (-(s8 b)) ≠ -(b : Int) := by
  rw [rssi_decode_out b h1 h2]; omega

/-- Every burst request with `burst_len` octets that fit the TRXD buffer is emitted per the
L1→TRX layout, version 0 (TN 0..7, any `uint32_t` FN, any attenuation octet; the bits are copied
as they are). -/
theorem trxcon_emits_layout (tn fn pwr : Nat) (bits : List Nat)
    (htn : tn < 8) (hfn : fn < 4294967296) (hp : pwr < 256) (hl : bits.length ≤ 506) :
    cTx ⟨tn, fn, pwr, bits, bits.length⟩ = .sent 0 (layoutTx ⟨0, fn, tn, pwr, bits⟩ false) := by
  have hcap : trxdBufSize = 512 := by decide
  have e1 : u8 tn = tn := by simp only [u8]; omega
  have e2 : u32 fn = fn := by simp only [u32]; omega
  have e3 : u8 pwr = pwr := by simp only [u8]; omega
  have e4 : u32 bits.length = bits.length := by simp only [u32]; omega
  simp only [cTx, layoutTx, hdr, be32, pad, hcap, e1, e2, e3, e4, store32be_eq]
  by_cases h0 : bits.length = 0
  · have : bits = [] := List.eq_nil_of_length_eq_zero h0
    subst this; simp
  · rw [if_pos h0, if_neg (by omega), if_neg (by omega), List.take_length]
    simp

/-- `buf[0] = br->tn` is not masked: for TN ≥ 8 the octet is still `tn mod 256`, i.e. it runs
into bit 3 and the version nibble (TN 16 reads as version 1, TN 0). -/
theorem trxcon_emits_tn_unmasked (tn fn pwr : Nat) :
    ∃ rest, cTx ⟨tn, fn, pwr, [], 0⟩ = .sent 0 (tn % 256 :: rest) := by
  exact ⟨_, rfl⟩

/-- A burst that does not fit behind the 6 header octets of `buf[TRXD_BUF_SIZE]` overflows it. -/
theorem trxcon_tx_overflow (tn fn pwr : Nat) (bits : List Nat) (h1 : 506 < bits.length)
    (h2 : bits.length < 4294967296) : cTx ⟨tn, fn, pwr, bits, bits.length⟩ = .fault .crash := by
  have hcap : trxdBufSize = 512 := by decide
  have e4 : u32 bits.length = bits.length := by simp only [u32]; omega
  simp only [cTx, hcap, e4]
  rw [if_pos (by omega), if_neg (by omega), if_pos (by omega)]

/-! ## C05: the TRXC commands trxcon emits -/

/-- The regenerated `chan_types[]` table of `trx_if_cmd_setslot` maps `enum gsm_phys_chan_config`
(NONE, CCCH, CCCH_SDCCH4, TCH_F, TCH_H, SDCCH8_SACCH8C, PDCH, TCH_F_PDCH, UNKNOWN, CCCH_SDCCH4_CBCH,
SDCCH8_SACCH8C_CBCH, OSMO_DYN) to osmo-trx's `ChannelCombination` (FILL 0, I TCH/F, III TCH/H,
IV CCCH, V CCCH+SDCCH4, VII SDCCH8, XIII PDCH; configurations trxcon does not drive: 0). -/
theorem chan_types_osmo_trx : chanTypes = [0, 4, 5, 1, 3, 7, 13, 0, 0, 5, 7, 0] := by decide

/-- **What trxcon emits.** For every PHYIF command the L1 side may issue (`ValidCmd`: ARFCNs that
`gsm_arfcn2freq10` defines, a `gsm_phys_chan_config` inside `chan_types[]`, a mobile allocation
whose text fits `ma_buf`), starting with an empty command queue, `trx_if_handle_phyif_cmd` returns 0,
queues exactly the commands of `emitSpec` (RESET = POWEROFF + ECHO, SETFREQ_H0 = RXTUNE + TXTUNE, …)
and passes the first one, NUL-terminated, to `send()`. -/
theorem trxcon_cmd_emits (t : Trx) (c : PhyCmd) (hq : t.queue = []) (hst : t.state < 4) (hv : ValidCmd c) :
    ∃ t', cPhyCmd t c = .ok (0, t') ∧ t'.queue = (emitSpec c).map Emitted.msg ∧
      (∀ e rest, emitSpec c = e :: rest → t'.sent = t.sent ++ [e.text ++ [0]]) :=
  let ⟨t', h1, h2, _, _, h5⟩ := cPhyCmd_emits t c hq hst hv
  ⟨t', h1, h2, h5⟩

/-- **Every command string trxcon emits is well formed**: `CMD <VERB>[ <arg>]*` with an upper-case
verb, single blanks and decimal arguments, at most 1015 characters — shorter than
`TRXC_BUF_SIZE` (1024) with its NUL, never cut by `snprintf`. -/
theorem trxcon_cmd_wellformed (c : PhyCmd) (hv : ValidCmd c) :
    ∀ e ∈ emitSpec c, WellFormedCmd e.text ∧ e.text.length ≤ 1015 ∧ e.text.length + 1 < trxcBufSize ∧
      (∀ ch ∈ e.text, ch ≠ 0) := by
  intro e he
  obtain ⟨h1, h2, h3⟩ := emitSpec_wf c e he
  have hl := emitSpec_len c hv e he
  have hcap : trxcBufSize = 1024 := by decide
  refine ⟨⟨e.verb, e.args, rfl, h1, h2, h3⟩, hl, by omega, ?_⟩
  intro ch hch
  simp only [Emitted.text, List.mem_append, List.mem_flatMap] at hch
  rcases hch with (hch | hch) | ⟨a, ha, hch⟩
  · exact cmd_nz ch hch
  · have := h2 ch hch; omega
  · simp only [List.mem_cons] at hch
    rcases hch with rfl | hch
    · omega
    · rcases h3 a ha with ⟨_, hd⟩ | ⟨tl, rfl, _, hd⟩
      · have := hd ch hch; rw [isDigit_iff] at this; omega
      · simp only [List.mem_cons] at hch
        rcases hch with rfl | hch
        · omega
        · have := hd ch hch; rw [isDigit_iff] at this; omega

/-- **Length of `CMD SETFH`** for a mobile allocation of N channels (observation F8): the command
is `CMD SETFH <hsn> <maio>` followed by ` <RxkHz> <TxkHz>` per channel, 14 characters per
channel below 1 GHz and 16 for DCS 1800 / PCS 1900, hence
`11 + digits(hsn) + digits(maio) + Σ (14|16)` characters; with 8-bit HSN/MAIO at most
`17 + 16·N` and never more than 1015 (+ NUL = 1016 octets on the wire). -/
theorem setfh_len (hsn maio : Nat) (ma : List Nat) (hne : ma ≠ []) (hval : ∀ a ∈ ma, ValidArfcn a) :
    let text := Emitted.text ⟨1, str "SETFH", fmtU (u8 hsn) :: fmtU (u8 maio) :: ma.flatMap pairToks⟩
    text.length = 11 + (fmtU (u8 hsn)).length + (fmtU (u8 maio)).length + (maText ma).length ∧
    13 + 14 * ma.length ≤ text.length ∧ text.length ≤ 17 + 16 * ma.length ∧
    ((maText ma).length ≤ 999 → text.length ≤ 1015) := by
  intro text
  have h := setfh_text_len hsn maio ma hne
  have h1 := fmtU_u8_len_le hsn
  have h2 := fmtU_u8_len_le maio
  have h1' : 1 ≤ (fmtU (u8 hsn)).length := List.length_pos_iff.mpr (decFuel_ne_nil 9 _)
  have h2' : 1 ≤ (fmtU (u8 maio)).length := List.length_pos_iff.mpr (decFuel_ne_nil 9 _)
  have hb := maText_le ma hval
  have he := maText_even ma hval
  refine ⟨h, ?_, ?_, ?_⟩
  · show 13 + 14 * ma.length ≤ (Emitted.text _).length
    rw [h]; omega
  · show (Emitted.text _).length ≤ 17 + 16 * ma.length
    rw [h]; omega
  · intro hl
    show (Emitted.text _).length ≤ 1015
    rw [h]; omega

/-- …for a mobile allocation below 1 GHz (all pairs 14 characters: GSM 450/480/750/810/850/900)
the command has exactly `11 + digits(hsn) + digits(maio) + 14·N` characters: at most 913 (+ NUL)
for the 64 channels of observation F8. -/
theorem setfh_len_low_bands (hsn maio : Nat) (ma : List Nat) (hne : ma ≠ [])
    (h14 : ∀ a ∈ ma, (pairOf a).length = 14) :
    (Emitted.text ⟨1, str "SETFH", fmtU (u8 hsn) :: fmtU (u8 maio) :: ma.flatMap pairToks⟩).length
      = 11 + (fmtU (u8 hsn)).length + (fmtU (u8 maio)).length + 14 * ma.length := by
  rw [setfh_text_len hsn maio ma hne]
  have : (maText ma).length = 14 * ma.length := by
    clear hne
    induction ma with
    | nil => rfl
    | cons a t ih =>
      rw [maText_cons, List.length_append, List.length_cons, h14 a (by simp),
        ih (fun x hx => h14 x (by simp [hx]))]
      omega
  omega

/-- …and the mobile allocation is refused with `-ENOSPC` exactly when its text does not fit
`ma_buf[TRXC_BUF_SIZE - 24]` (999 characters + NUL); up to 62 channels always fit. -/
theorem setfh_enospc (t : Trx) (hsn maio : Nat) (ma : List Nat) (hne : ma ≠ []) (hval : ∀ a ∈ ma, ValidArfcn a)
    (hn : ma.length < 4294967296) (hbig : (maText ma).length > 999) :
    cPhyCmd t (.setfreqH1 hsn maio ma.length ma) = .ok (-eNOSPC, { t with elog := true }) := by
  have hcap : trxcBufSize - 24 - 1 = 999 := by decide
  have hbuf := setfhMaBuf_eq ma hne hval hn
  rw [hcap, if_neg (by omega)] at hbuf
  simp only [cPhyCmd, hbuf, bind, Except.bind, pure, Except.pure]

theorem setfh_fits_62 (ma : List Nat) (hval : ∀ a ∈ ma, ValidArfcn a) (hn : ma.length ≤ 62) :
    (maText ma).length ≤ 999 := by
  have := maText_le ma hval; omega

/-! ## C05 / C14: the response parser -/

/-- **No datagram can crash `trx_ctrl_read_cb`** (with the `fix:` for observation F6 applied): for
ALL datagrams — any octets, any length; `read()` keeps at most `TRXC_BUF_SIZE - 1` = 1023 — and
ANY pending commands, in any valid FSM state, the callback returns: no NULL dereference
(`p + 1` with `p == NULL`), no read outside `buf`/`tcm->cmd`, no value that was never written
(status, MEASURE result, octets behind the terminator). -/
theorem trxc_rsp_no_crash (t : Trx) (d : List Nat) (hst : t.state < 4) (hps : t.prevState < 4) :
    ∃ rc t', cReadCb t d = .ok (rc, t') :=
  let ⟨r, h⟩ := cReadCb_ok t d hst hps
  ⟨r.1, r.2, h⟩

/-- **The replies of the transceiver are accepted.** For a pending command `CMD <verb><rest>` (every
emitted command has this form, `trxcon_cmd_wellformed`) and the reply
`RSP <verb> <status><rest><results>\0` the toolkit produces — any `int` status — the parser never
reports a mismatch: status 0, or an error status for a non-critical command (logged), removes the
command from the queue and returns 0; an error status for a critical command terminates the
interface with `-EIO`. -/
theorem trxcon_accepts_rsp (t : Trx) (tcm : CtrlMsg) (q : List CtrlMsg) (verb rest results : List Nat) (s : Int)
    (hq : t.queue = tcm :: q) (hcmd : tcm.cmd = str "CMD " ++ verb ++ rest)
    (hh : ReplyHyp verb rest results) (hs1 : -2147483648 ≤ s) (hs2 : s ≤ 2147483647)
    (hlen : (replyTo verb rest results s).length ≤ trxcBufSize - 1)
    (hst : t.state < 4) (hps : t.prevState < 4) :
    (¬ (s ≠ 0 ∧ tcm.critical ≠ 0) →
      ∃ t', cReadCb t (replyTo verb rest results s) = .ok (0, t') ∧ t'.queue = q ∧ (s ≠ 0 → t'.elog = true)) ∧
    ((s ≠ 0 ∧ tcm.critical ≠ 0) →
      ∃ t', cReadCb t (replyTo verb rest results s) = .ok (-eIO, t') ∧ t'.queue = t.queue ∧
        t'.ev = t.ev ++ [Event.timerDel, Event.term termError]) := by
  have hcap : trxcBufSize = 1024 := by decide
  rw [cReadCb_reply t tcm q verb rest results s hq hcmd hh hs1 hs2 hlen]
  constructor
  · intro hacc
    obtain ⟨t', h1, h2, _, h4⟩ := replyOutcome_accept t tcm q (verb ++ rest) (replyTo verb rest results s) s hst hps
      (by omega) hacc
    exact ⟨t', h1, h2, h4⟩
  · intro hrej
    obtain ⟨t', h1, h2, _, h4⟩ := replyOutcome_reject t tcm q (verb ++ rest) (replyTo verb rest results s) s hrej
    exact ⟨t', h1, h2, h4⟩

/-- …in particular for every command trxcon emits (`emitSpec`) and the reply the toolkit builds from
it — `RSP <VERB> <status>` followed by the original arguments and optional results, NUL — as long
as the reply fits one `read()` (always the case for a status of up to six characters and no
results: 1015 + 2 + 6 = 1023). -/
theorem trxcon_accepts_emitted (t : Trx) (c : PhyCmd) (hv : ValidCmd c) (e : Emitted) (he : e ∈ emitSpec c)
    (q : List CtrlMsg) (results : List Nat) (s : Int)
    (hq : t.queue = e.msg :: q) (hres : ∀ ch ∈ results, ch ≠ 0) (hnd : NoDigitHead results)
    (hs1 : -2147483648 ≤ s) (hs2 : s ≤ 2147483647)
    (hlen : e.text.length + 2 + (fmtD s).length + results.length ≤ 1023)
    (hst : t.state < 4) (hps : t.prevState < 4) :
    let reply := replyTo e.verb (e.args.flatMap (fun a => 32 :: a)) results s
    (¬ (s ≠ 0 ∧ e.critical ≠ 0) →
      ∃ t', cReadCb t reply = .ok (0, t') ∧ t'.queue = q ∧ (s ≠ 0 → t'.elog = true)) ∧
    ((s ≠ 0 ∧ e.critical ≠ 0) →
      ∃ t', cReadCb t reply = .ok (-eIO, t') ∧ t'.queue = t.queue ∧
        t'.ev = t.ev ++ [Event.timerDel, Event.term termError]) := by
  intro reply
  obtain ⟨_, hup, _⟩ := emitSpec_wf c e he
  obtain ⟨_, _, _, hnz⟩ := trxcon_cmd_wellformed c hv e he
  have hcap : trxcBufSize = 1024 := by decide
  have hh : ReplyHyp e.verb (e.args.flatMap (fun a => 32 :: a)) results := by
    refine ⟨?_, ?_, hres, ?_⟩
    · intro ch hch; have := hup ch hch; omega
    · intro ch hch; exact hnz ch (by simp only [Emitted.text, List.mem_append]; exact .inr hch)
    · cases hargs : e.args with
      | nil => simpa using hnd
      | cons a as => simp only [List.flatMap_cons, List.cons_append]; exact noDigitHead_cons 32 _ (by decide)
  have hl : reply.length ≤ trxcBufSize - 1 := by
    have h4 : (str "RSP ").length = 4 := by decide
    have h4' : (str "CMD ").length = 4 := by decide
    simp only [Emitted.text, List.length_append] at hlen
    simp only [reply, replyTo, List.length_append, List.length_singleton, hcap]
    omega
  exact trxcon_accepts_rsp t e.msg q e.verb _ results s hq rfl hh hs1 hs2 hl hst hps

/-- **A reply to another command is not taken for the pending one**: if the verb of
`RSP <v> <tail>\0` is not a prefix of what follows `CMD ` in the pending command (`strncmp` over
the length of the reply's verb), the interface is terminated with `-EIO` whatever the
criticality — e.g. `RSP POWEROFF 0` or `RSP POWEROX 0` for `CMD POWERON`. -/
theorem trxcon_rejects_mismatch (t : Trx) (tcm : CtrlMsg) (q : List CtrlMsg) (v tail : List Nat)
    (hq : t.queue = tcm :: q) (hv : ∀ c ∈ v, c ≠ 32 ∧ c ≠ 0) (htail : ∀ c ∈ tail, c ≠ 0)
    (hnp : v ≠ (cmdStrAt tcm 4).take v.length)
    (hlen : (str "RSP " ++ v ++ [32] ++ tail ++ [0]).length ≤ trxcBufSize - 1) :
    cReadCb t (str "RSP " ++ v ++ [32] ++ tail ++ [0]) =
      .ok (-eIO, { t with ev := t.ev ++ [Event.timerDel, Event.term termError], elog := true }) := by
  rw [cReadCb_mismatch t tcm q v tail hq hv htail hnp hlen]
  simp [rspError]

/-- **MEASURE**: the reply `RSP MEASURE 0 <kHz> <dBm>\0` to `CMD MEASURE <kHz>` for an ARFCN of the
GSM bands hands exactly (ARFCN, dBm) to `trxcon_phyif_handle_rsp` (`sscanf("%u %d")` at `buf + 14`,
`/ 100`, `gsm_freq102arfcn`). -/
theorem trxcon_measure_result (t : Trx) (q : List CtrlMsg) (crit : Int) (n : Nat) (a : Nat) (dbm : Int)
    (ha : CanonArfcn a) (h1 : -2147483648 ≤ dbm) (h2 : dbm ≤ 2147483647)
    (hq : t.queue = ⟨str "CMD " ++ str "MEASURE" ++ 32 :: fmtU (arfcn2freq10 a false * 100), crit, n⟩ :: q)
    (hst : t.state < 4) :
    ∃ t', cReadCb t (replyTo (str "MEASURE") (32 :: fmtU (arfcn2freq10 a false * 100)) (32 :: fmtD dbm) 0)
        = .ok (0, t') ∧ t'.queue = q ∧ t'.rsp = some (a, dbm) := by
  obtain ⟨hlen, hdisp⟩ := rspDispatch_measure { t with ev := t.ev ++ [Event.timerDel] } a dbm ha h1 h2
  have hh : ReplyHyp (str "MEASURE") (32 :: fmtU (arfcn2freq10 a false * 100)) (32 :: fmtD dbm) := by
    refine ⟨?_, ?_, ?_, ?_⟩
    · intro c hc; rw [str_measure] at hc; simp at hc; omega
    · intro c hc
      simp only [List.mem_cons] at hc
      rcases hc with rfl | hc
      · omega
      · exact fmtU_nz _ c hc
    · intro c hc
      simp only [List.mem_cons] at hc
      rcases hc with rfl | hc
      · omega
      · exact fmtD_nz _ c hc
    · exact noDigitHead_cons 32 _ (by decide)
  rw [cReadCb_reply t _ q _ _ _ 0 hq rfl hh (by omega) (by omega) (by omega)]
  simp only [replyOutcome, ne_eq, not_true_eq_false, false_and, if_false, hdisp, bind, Except.bind, pure, Except.pure]
  obtain ⟨t4, h4, sd, _⟩ := ctrlSend_ok { t with ev := t.ev ++ [Event.timerDel], rsp := some (a, dbm), queue := q } hst
  rw [h4]
  exact ⟨t4, rfl, sd.queue, sd.rsp⟩

/-! ## C14: the TRXD receive path stays inside its buffer -/

/-- For ALL datagrams (any length; `read()` keeps at most `TRXD_BUF_SIZE` = 512 octets): every
access of `trx_data_rx_cb` to `buf` — all go through `rd`/`wr`, which fault on an index
≥ read_len (uninitialised) or ≥ 512 (outside) — is in bounds, and the outcome is either a return
code without any indication or the burst + RTS indications. -/
theorem trxd_rx_in_bounds (d : List Nat) (adv : Nat) :
    (d.take trxdBufSize).length ≤ 512 ∧
    ((∃ rc, cRx d adv = .ret rc) ∨ (∃ bi rts, cRx d adv = .ind bi rts)) := by
  refine ⟨by simp only [List.length_take]; have : trxdBufSize = 512 := by decide
             omega, ?_⟩
  have := cRx_noFault d adv
  cases h : cRx d adv with
  | ret rc => exact .inl ⟨rc, rfl⟩
  | ind bi rts => exact .inr ⟨bi, rts, rfl⟩
  | fault f => rw [h] at this; exact this.elim

/-- The rejections: short datagram, foreign version, unexpected length, FN beyond the hyperframe
(checked after the conversion loop has run). -/
theorem trxd_rx_short (d : List Nat) (adv : Nat) (h0 : 0 < d.length) (h : d.length < 8) :
    cRx d adv = .ret (-22) := by
  have hcap : trxdBufSize = 512 := by decide
  have hh : trxdv0HdrLen = 8 := by decide
  simp only [cRx, hcap, hh, List.length_take]
  rw [if_neg (by omega), if_pos (by omega)]; rfl

/-- non-vacuity / concrete behaviour: a v0 NB with padding, FN at the end of the hyperframe,
RSSI −128, ToA −32768; an FN beyond the hyperframe; a version-1 header. -/
example : cRx (layoutRx ⟨0, 2715647, 7, -128, -32768, false, .gmsk 0, 0, 0, some (List.replicate 148 (-127))⟩ true) 2
    = .ind ⟨7, 2715647, -128, -32768, List.replicate 148 (-127)⟩ ⟨1, 7⟩ := by decide +kernel
example : cRx (layoutRx ⟨0, 2715648, 7, -60, 5, false, .gmsk 0, 0, 0, some (List.replicate 148 0)⟩ false) 2
    = .ret (-22) := by decide +kernel
example : cRx (layoutRx ⟨1, 5, 7, -60, 5, false, .gmsk 0, 0, 0, some (List.replicate 148 0)⟩ false) 2
    = .ret (-95) := by decide +kernel
example : cTx ⟨3, 42, 10, [0, 1, 1], 3⟩ = .sent 0 [3, 0, 0, 0, 42, 10, 0, 1, 1] := by decide +kernel

/-! ## non-vacuity: concrete commands, replies, the F6 witnesses on the fixed code -/

example : ValidCmd (.setfreqH1 63 63 64 (List.range' 1 64)) := by decide +kernel
example : sentLens (cPhyCmd t0 (.setfreqH1 63 63 64 (List.range' 1 64))) = some (0, [912]) := by decide +kernel
-- the longest SETFH trxcon can emit: 51 DCS-1800 and 13 P-GSM channels, 3-digit HSN/MAIO: 1015 characters + NUL
example : sentLens (cPhyCmd t0 (.setfreqH1 255 255 64 (List.range' 512 51 ++ List.range' 1 13))) = some (0, [1016]) := by
  decide +kernel
-- 63 DCS-1800 channels do not fit ma_buf
example : sentLens (cPhyCmd t0 (.setfreqH1 1 2 63 (List.range' 512 63))) = some (-28, []) := by decide +kernel
example : texts (cPhyCmd t0 .reset) =
    some (0, [str "CMD POWEROFF", str "CMD ECHO"], [str "CMD POWEROFF" ++ [0]]) := by decide +kernel
example : texts (cPhyCmd t0 (.setslot 3 9)) = some (0, [str "CMD SETSLOT 3 5"], [str "CMD SETSLOT 3 5" ++ [0]]) := by decide +kernel
example : texts (cPhyCmd t0 (.setta (-128))) = some (0, [str "CMD SETTA -128"], [str "CMD SETTA -128" ++ [0]]) := by decide +kernel
example : isCrash (cPhyCmd t0 (.setslot 3 12)) = true := by decide +kernel
-- F6 witnesses on the fixed code
example : outcome (cReadCb (tWait [⟨str "CMD POWERON", 1, 7⟩]) (str "RSP POWERON" ++ [0])) = some (-5, 1, true, none) := by
  decide +kernel
example : outcome (cReadCb (tWait [⟨str "CMD POWERON", 1, 7⟩]) (str "RSP POWERON x" ++ [0])) = some (-5, 1, true, none) := by
  decide +kernel
example : outcome (cReadCb (tWait [⟨str "CMD POWERON", 1, 7⟩]) (str "RSP POWERON 0" ++ [0])) = some (0, 0, false, none) := by
  decide +kernel
example : outcome (cReadCb (tWait [⟨str "CMD POWERON", 1, 7⟩]) (str "RSP POWEROX 0" ++ [0])) = some (-5, 1, true, none) := by
  decide +kernel
example : outcome (cReadCb (tWait [⟨str "CMD SETTA 3", 0, 5⟩]) (str "RSP SETTA 1 3" ++ [0])) = some (0, 0, true, none) := by
  decide +kernel
example : outcome (cReadCb (tWait [⟨str "CMD MEASURE 935200", 1, 7⟩]) (str "RSP MEASURE 0 935200 -55" ++ [0]))
    = some (0, 0, false, some (1, -55)) := by decide +kernel
example : outcome (cReadCb (tWait [⟨str "CMD MEASURE 935200", 1, 7⟩]) (str "RSP MEASURE 0")) = some (0, 0, true, none) := by
  decide +kernel
example : CanonArfcn 33280 ∧ replyTo (str "MEASURE") (32 :: fmtU (arfcn2freq10 33280 false * 100)) (32 :: fmtD (-110)) 0
    = str "RSP MEASURE 0 1930200 -110" ++ [0] := by decide +kernel

end OsmoVerif.Props.Trxcon
