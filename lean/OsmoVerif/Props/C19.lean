/-
C19 — GSM time arithmetic is consistent across the code base.
Property theorems only; models: `OsmoVerif.Model.GsmTime`, lemmas: `OsmoVerif.Lemmas.GsmTime`.
-/
import OsmoVerif.Lemmas.GsmTime

namespace OsmoVerif.Props.C19
open OsmoVerif OsmoVerif.GsmTime

/-- The hyperframe length the property speaks about (TS 45.002 §4.3.3). -/
def hyperframe : Nat := 26 * 51 * 2048

/-- The regenerated constants of both code bases are the hyperframe
(`GSM_MAX_FN` of gsm_utils.h, `GSM_HYPERFRAME`/`GSM_SUPERFRAME` of gsm_shared.py). -/
theorem max_fn_is_hyperframe :
    Gen.cGsmMaxFn = hyperframe ∧ Gen.pyGsmHyperframe = hyperframe ∧ Gen.pyGsmSuperframe = 26 * 51 := by
  decide

/-- Decomposition followed by recomposition is the identity on the hyperframe. -/
theorem decomp_recomp (fn : Nat) (h : fn < hyperframe) :
    cGsmTime2Fn (cFn2GsmTime fn) = fn := by
  simp only [hyperframe] at h
  simp only [cGsmTime2Fn, cFn2GsmTime, u8, u16, u32]
  rw [tmod_nat _ _ (by omega)]
  simp only [Int.ofNat_eq_natCast]
  have e0 : fn % 4294967296 = fn := by omega
  have e1 : fn % 51 % 256 = fn % 51 := by omega
  have e2 : fn % 26 % 256 = fn % 26 := by omega
  have e3 : fn / (26 * 51) % 65536 = fn / 1326 := by omega
  rw [e0, e1, e2, e3]
  have := crt fn
  omega

/-- The components of a decomposed frame number are the TS 45.002 ones. -/
theorem decomp_components (fn : Nat) (h : fn < hyperframe) :
    cFn2GsmTime fn = ⟨fn, fn / 1326, fn % 26, fn % 51, fn / 51 % 8⟩ := by
  simp only [hyperframe] at h
  simp only [cFn2GsmTime, u8, u16, u32, GsmTime.mk.injEq]
  omega

/-- Stepping the running GSM time by one frame (incremental carry path),
including the wrap 2715647 → 0. -/
theorem time_inc_one (fn : Nat) (h : fn < hyperframe) :
    cTimeInc (cFn2GsmTime fn) 1 = cFn2GsmTime ((fn + 1) % hyperframe) := by
  simp only [hyperframe] at h ⊢
  have hm : Gen.cGsmMaxFn = 2715648 := by decide
  by_cases hw : fn + 1 = 2715648
  · have : fn = 2715647 := by omega
    subst this
    decide +kernel
  · have hb : fn + 1 < 2715648 := by omega
    have e0 : fn % 4294967296 = fn := by omega
    have e4 : (fn + 1) % 2715648 = fn + 1 := by omega
    have e5 : (fn + 1) % 4294967296 = fn + 1 := by omega
    have e6 : ¬ (fn + 1 ≥ 2715648) := by omega
    have a2 := addModulo_u8 (fn % 26) 26 (Nat.mod_lt _ (by decide)) (by decide) (by decide)
    have a3 := addModulo_u8 (fn % 51) 51 (Nat.mod_lt _ (by decide)) (by decide) (by decide)
    have ac := addModulo_u8 (fn / 51 % 8) 8 (Nat.mod_lt _ (by decide)) (by decide) (by decide)
    have a1 := addModulo_u16 (fn / 1326) 2048 (by omega) (by decide) (by decide)
    have f2 : (fn % 26 + 1) % 26 = (fn + 1) % 26 := by omega
    have f3 : (fn % 51 + 1) % 51 = (fn + 1) % 51 := by omega
    have g0 : u32 fn = fn := e0
    have g0' : u32 (fn + 1) = fn + 1 := e5
    have g1 : u16 (fn / (26 * 51)) = fn / 1326 := by simp only [u16]; omega
    have g2 : u8 (fn % 26) = fn % 26 := by simp only [u8]; omega
    have g3 : u8 (fn % 51) = fn % 51 := by simp only [u8]; omega
    have g4 : u8 (fn / 51 % 8) = fn / 51 % 8 := by simp only [u8]; omega
    have g5 : u16 ((fn + 1) / (26 * 51)) = (fn + 1) / 1326 := by simp only [u16]; omega
    have g6 : u8 ((fn + 1) % 26) = (fn + 1) % 26 := by simp only [u8]; omega
    have g7 : u8 ((fn + 1) % 51) = (fn + 1) % 51 := by simp only [u8]; omega
    have g8 : u8 ((fn + 1) / 51 % 8) = (fn + 1) / 51 % 8 := by simp only [u8]; omega
    have g9 : u32 1 = 1 := by decide
    have efn : addModulo u32 fn 1 2715648 = fn + 1 := by
      simp only [addModulo, u32, e5, e6, if_false]
    simp only [cTimeInc, cFn2GsmTime, hm, g9, if_true, e4, g0, g0', g1, g2, g3, g4, g5, g6, g7, g8,
      efn, a2, a3, ac, a1, f2, f3]
    by_cases c3 : (fn + 1) % 51 = 0
    · simp only [c3, if_true]
      by_cases c2 : (fn + 1) % 26 = 0
      · simp only [c2, if_true, GsmTime.mk.injEq, true_and]
        have hc := (carry_iff (fn + 1)).1 ⟨c3, c2⟩
        exact ⟨t1_step' fn hc hb, tc_step fn c3⟩
      · simp only [c2, if_false, GsmTime.mk.injEq, true_and]
        have hc : (fn + 1) % 1326 ≠ 0 := fun hh => c2 ((carry_iff (fn + 1)).2 hh).2
        exact ⟨t1_keep fn hc, tc_step fn c3⟩
    · simp only [c3, if_false, GsmTime.mk.injEq, true_and]
      have hc : (fn + 1) % 1326 ≠ 0 := fun hh => c3 ((carry_iff (fn + 1)).2 hh).1
      exact ⟨t1_keep fn hc, tc_keep fn c3⟩

/-- Stepping by an arbitrary delta (recompute path). -/
theorem time_inc_delta (fn delta : Nat) (h : fn < hyperframe) (hd1 : delta ≠ 1)
    (hd : delta < hyperframe) :
    cTimeInc (cFn2GsmTime fn) delta = cFn2GsmTime ((fn + delta) % hyperframe) := by
  simp only [hyperframe] at h hd ⊢
  have hm : Gen.cGsmMaxFn = 2715648 := by decide
  have e0 : u32 fn = fn := by simp only [u32]; omega
  have e1 : u32 delta = delta := by simp only [u32]; omega
  have efn : addModulo u32 fn delta 2715648 = (fn + delta) % 2715648 := by
    simp only [addModulo, u32]
    have : (fn + delta) % 4294967296 = fn + delta := by omega
    simp only [this]
    split <;> omega
  have hfn : (cFn2GsmTime fn).fn = fn := by simp only [cFn2GsmTime, e0]
  simp only [cTimeInc, e1, hd1, if_false, hm, hfn, efn]

/-- Both paths together: for every frame number and every delta below the
hyperframe the stepped time is the decomposition of the new frame number. -/
theorem time_inc (fn delta : Nat) (h : fn < hyperframe) (hd : delta < hyperframe) :
    cTimeInc (cFn2GsmTime fn) delta = cFn2GsmTime ((fn + delta) % hyperframe) := by
  by_cases hd1 : delta = 1
  · subst hd1; exact time_inc_one fn h
  · exact time_inc_delta fn delta h hd1 hd

/-- Corollary: recomposing the stepped time gives the new frame number. -/
theorem time_inc_recomp (fn delta : Nat) (h : fn < hyperframe) (hd : delta < hyperframe) :
    cGsmTime2Fn (cTimeInc (cFn2GsmTime fn) delta) = (fn + delta) % hyperframe := by
  rw [time_inc fn delta h hd]
  exact decomp_recomp _ (Nat.mod_lt _ (by decide))

/-- The Python toolkit derives the same T1, T2, T3 (and TC) as the C code. -/
theorem py_eq_c (fn : Nat) (h : fn < hyperframe) :
    pyFn2GsmTime fn =
      ((cFn2GsmTime fn).t1, (cFn2GsmTime fn).t2, (cFn2GsmTime fn).t3, (cFn2GsmTime fn).tc) := by
  rw [decomp_components fn h]
  simp only [pyFn2GsmTime]

/-- Non-vacuity: the carry points and the wrap are inside the hypotheses. -/
example : (2715647 < hyperframe) ∧ cTimeInc (cFn2GsmTime 2715647) 1 = ⟨0, 0, 0, 0, 0⟩ ∧
    cTimeInc (cFn2GsmTime 1325) 1 = ⟨1326, 1, 0, 0, 2⟩ := by decide +kernel

end OsmoVerif.Props.C19
