/-
C19 — GSM time arithmetic is consistent across the code base.
Property theorems only; models: `OsmoVerif.Model.GsmTime`, lemmas: `OsmoVerif.Lemmas.GsmTime`.
-/
import OsmoVerif.Lemmas.GsmTime

namespace OsmoVerif.Props.C19
open OsmoVerif OsmoVerif.GsmTime

/-- The hyperframe length the property speaks about (TS 45.002 §4.3.3). -/
def hyperframe : Nat := 26 * 51 * 2048

/-- The regenerated constants of both code bases are the hyperframe
(`GSM_MAX_FN` of gsm_utils.h, `GSM_HYPERFRAME`/`GSM_SUPERFRAME` of gsm_shared.py). -/
theorem max_fn_is_hyperframe :
    Gen.cGsmMaxFn = hyperframe ∧ Gen.pyGsmHyperframe = hyperframe ∧ Gen.pyGsmSuperframe = 26 * 51 := by
  decide

/-- Decomposition followed by recomposition is the identity on the hyperframe. -/
theorem decomp_recomp (fn : Nat) (h : fn < hyperframe) :
    cGsmTime2Fn (cFn2GsmTime fn) = fn := by
  simp only [hyperframe] at h
  simp only [cGsmTime2Fn, cFn2GsmTime, u8, u16, u32]
  rw [tmod_nat _ _ (by omega)]
  simp only [Int.ofNat_eq_natCast]
  have e0 : fn % 4294967296 = fn := by omega
  have e1 : fn % 51 % 256 = fn % 51 := by omega
  have e2 : fn % 26 % 256 = fn % 26 := by omega
  have e3 : fn / (26 * 51) % 65536 = fn / 1326 := by omega
  rw [e0, e1, e2, e3]
  have := crt fn
  omega

/-- The components of a decomposed frame number are the TS 45.002 ones. -/
theorem decomp_components (fn : Nat) (h : fn < hyperframe) :
    cFn2GsmTime fn = ⟨fn, fn / 1326, fn % 26, fn % 51, fn / 51 % 8⟩ := by
  simp only [hyperframe] at h
  simp only [cFn2GsmTime, u8, u16, u32, GsmTime.mk.injEq]
  omega

/-- Stepping the running GSM time by one frame (incremental carry path),
including the wrap 2715647 → 0. -/
theorem time_inc_one (fn : Nat) (h : fn < hyperframe) :
    cTimeInc (cFn2GsmTime fn) 1 = cFn2GsmTime ((fn + 1) % hyperframe) := by
  simp only [hyperframe] at h ⊢
  have hm : Gen.cGsmMaxFn = 2715648 := by decide
  by_cases hw : fn + 1 = 2715648
  · have : fn = 2715647 := by omega
    subst this
    decide +kernel
  · have hb : fn + 1 < 2715648 := by omega
    have e0 : fn % 4294967296 = fn := by omega
    have e4 : (fn + 1) % 2715648 = fn + 1 := by omega
    have e5 : (fn + 1) % 4294967296 = fn + 1 := by omega
    have e6 : ¬ (fn + 1 ≥ 2715648) := by omega
    have a2 := addModulo_u8 (fn % 26) 26 (Nat.mod_lt _ (by decide)) (by decide) (by decide)
    have a3 := addModulo_u8 (fn % 51) 51 (Nat.mod_lt _ (by decide)) (by decide) (by decide)
    have ac := addModulo_u8 (fn / 51 % 8) 8 (Nat.mod_lt _ (by decide)) (by decide) (by decide)
    have a1 := addModulo_u16 (fn / 1326) 2048 (by omega) (by decide) (by decide)
    have f2 : (fn % 26 + 1) % 26 = (fn + 1) % 26 := by omega
    have f3 : (fn % 51 + 1) % 51 = (fn + 1) % 51 := by omega
    have g0 : u32 fn = fn := e0
    have g0' : u32 (fn + 1) = fn + 1 := e5
    have g1 : u16 (fn / (26 * 51)) = fn / 1326 := by simp only [u16]; omega
    have g2 : u8 (fn % 26) = fn % 26 := by simp only [u8]; omega
    have g3 : u8 (fn % 51) = fn % 51 := by simp only [u8]; omega
    have g4 : u8 (fn / 51 % 8) = fn / 51 % 8 := by simp only [u8]; omega
    have g5 : u16 ((fn + 1) / (26 * 51)) = (fn + 1) / 1326 := by simp only [u16]; omega
    have g6 : u8 ((fn + 1) % 26) = (fn + 1) % 26 := by simp only [u8]; omega
    have g7 : u8 ((fn + 1) % 51) = (fn + 1) % 51 := by simp only [u8]; omega
    have g8 : u8 ((fn + 1) / 51 % 8) = (fn + 1) / 51 % 8 := by simp only [u8]; omega
    have g9 : u32 1 = 1 := by decide
    have efn : addModulo u32 fn 1 2715648 = fn + 1 := by
      simp only [addModulo, u32, e5, e6, if_false]
    simp only [cTimeInc, cFn2GsmTime, hm, g9, if_true, e4, g0, g0', g1, g2, g3, g4, g5, g6, g7, g8,
      efn, a2, a3, ac, a1, f2, f3]
    by_cases c3 : (fn + 1) % 51 = 0
    · simp only [c3, if_true]
      by_cases c2 : (fn + 1) % 26 = 0
      · simp only [c2, if_true, GsmTime.mk.injEq, true_and]
        have hc := (carry_iff (fn + 1)).1 ⟨c3, c2⟩
        exact ⟨t1_step' fn hc hb, tc_step fn c3⟩
      · simp only [c2, if_false, GsmTime.mk.injEq, true_and]
        have hc : (fn + 1) % 1326 ≠ 0 := fun hh => c2 ((carry_iff (fn + 1)).2 hh).2
        exact ⟨t1_keep fn hc, tc_step fn c3⟩
    · simp only [c3, if_false, GsmTime.mk.injEq, true_and]
      have hc : (fn + 1) % 1326 ≠ 0 := fun hh => c3 ((carry_iff (fn + 1)).2 hh).1
      exact ⟨t1_keep fn hc, tc_keep fn c3⟩

/-- Stepping by an arbitrary delta (recompute path). -/
theorem time_inc_delta (fn delta : Nat) (h : fn < hyperframe) (hd1 : delta ≠ 1)
    (hd : delta < hyperframe) :
    cTimeInc (cFn2GsmTime fn) delta = cFn2GsmTime ((fn + delta) % hyperframe) := by
  simp only [hyperframe] at h hd ⊢
  have hm : Gen.cGsmMaxFn = 2715648 := by decide
  have e0 : u32 fn = fn := by simp only [u32]; omega
  have e1 : u32 delta = delta := by simp only [u32]; omega
  have efn : addModulo u32 fn delta 2715648 = (fn + delta) % 2715648 := by
    simp only [addModulo, u32]
    have : (fn + delta) % 4294967296 = fn + delta := by omega
    simp only [this]
    split <;> omega
  have hfn : (cFn2GsmTime fn).fn = fn := by simp only [cFn2GsmTime, e0]
  simp only [cTimeInc, e1, hd1, if_false, hm, hfn, efn]

/-- Both paths together: for every frame number and every delta below the
hyperframe the stepped time is the decomposition of the new frame number. -/
theorem time_inc (fn delta : Nat) (h : fn < hyperframe) (hd : delta < hyperframe) :
    cTimeInc (cFn2GsmTime fn) delta = cFn2GsmTime ((fn + delta) % hyperframe) := by
  by_cases hd1 : delta = 1
  · subst hd1; exact time_inc_one fn h
  · exact time_inc_delta fn delta h hd1 hd

/-- Corollary: recomposing the stepped time gives the new frame number. -/
theorem time_inc_recomp (fn delta : Nat) (h : fn < hyperframe) (hd : delta < hyperframe) :
    cGsmTime2Fn (cTimeInc (cFn2GsmTime fn) delta) = (fn + delta) % hyperframe := by
  rw [time_inc fn delta h hd]
  exact decomp_recomp _ (Nat.mod_lt _ (by decide))

/-- The Python toolkit derives the same T1, T2, T3 (and TC) as the C code. -/
theorem py_eq_c (fn : Nat) (h : fn < hyperframe) :
    pyFn2GsmTime fn =
      ((cFn2GsmTime fn).t1, (cFn2GsmTime fn).t2, (cFn2GsmTime fn).t3, (cFn2GsmTime fn).tc) := by
  rw [decomp_components fn h]
  simp only [pyFn2GsmTime]

/-- A broken-down time as the property means it: T1 < 2048, T2 < 26, T3 < 51 (TC is not an input of
`gsm_gsmtime2fn`). -/
def WfTime (t : GsmTime) : Prop := t.t1 < 2048 ∧ t.t2 < 26 ∧ t.t3 < 51

/-- The converse round trip (TS 45.002 §4.3.3): for EVERY well-formed (T1, T2, T3) — not only those that
came out of a decomposition — recomposition yields a frame number of the hyperframe whose decomposition
gives T1, T2, T3 back. With `decomp_recomp` this makes the two functions mutually inverse bijections between
`[0, hyperframe)` and the well-formed triples. -/
theorem recomp_decomp (t : GsmTime) (h : WfTime t) :
    cGsmTime2Fn t < hyperframe ∧
    (cFn2GsmTime (cGsmTime2Fn t)).t1 = t.t1 ∧
    (cFn2GsmTime (cGsmTime2Fn t)).t2 = t.t2 ∧
    (cFn2GsmTime (cGsmTime2Fn t)).t3 = t.t3 := by
  obtain ⟨h1, h2, h3⟩ := h
  simp only [hyperframe]
  have key : cGsmTime2Fn t = 51 * ((t.t3 + 26 - t.t2) % 26) + t.t3 + 1326 * t.t1 := by
    simp only [cGsmTime2Fn]
    rw [tmod_nat _ _ (by omega)]
    simp only [Int.ofNat_eq_natCast]
    omega
  rw [key]
  generalize hd : (t.t3 + 26 - t.t2) % 26 = d
  have hdl : d < 26 := by omega
  have hcong : (d + t.t2) % 26 = t.t3 % 26 := by omega
  generalize hF : 51 * d + t.t3 + 1326 * t.t1 = F
  have hlt : F < 2715648 := by omega
  have e0 : F % 4294967296 = F := by omega
  have e1 : F / (26 * 51) = t.t1 := by omega
  have e3 : F % 51 = t.t3 := by omega
  have e2 : F % 26 = t.t2 := by omega
  simp only [cFn2GsmTime, u8, u16, u32, e0, e1, e2, e3]
  omega

/-- The decomposition is injective on the hyperframe: (T1, T2, T3) identify the frame. -/
theorem decomp_injective (a b : Nat) (ha : a < hyperframe) (hb : b < hyperframe)
    (h1 : (cFn2GsmTime a).t1 = (cFn2GsmTime b).t1) (h2 : (cFn2GsmTime a).t2 = (cFn2GsmTime b).t2)
    (h3 : (cFn2GsmTime a).t3 = (cFn2GsmTime b).t3) : a = b := by
  have ea := decomp_recomp a ha
  have eb := decomp_recomp b hb
  have : cGsmTime2Fn (cFn2GsmTime a) = cGsmTime2Fn (cFn2GsmTime b) := by
    simp only [cGsmTime2Fn, h1, h2, h3]
  omega

/-- A decomposed frame number is well-formed (so `recomp_decomp` is not vacuous on reachable times). -/
theorem decomp_wf (fn : Nat) (h : fn < hyperframe) : WfTime (cFn2GsmTime fn) := by
  rw [decomp_components fn h]
  simp only [hyperframe] at h
  simp only [WfTime]
  omega

/-- History level: the running time kept by `l1s_time_inc(.., 1)` once per frame never drifts from the
frame count, however long it runs (any number of steps, through any number of hyperframe wraps). -/
theorem time_inc_iterate (fn n : Nat) (h : fn < hyperframe) :
    Nat.repeat (fun t => cTimeInc t 1) n (cFn2GsmTime fn) = cFn2GsmTime ((fn + n) % hyperframe) := by
  induction n with
  | zero => simp only [Nat.repeat, Nat.add_zero, Nat.mod_eq_of_lt h]
  | succ n ih =>
    simp only [Nat.repeat]
    rw [ih, time_inc_one _ (Nat.mod_lt _ (by decide))]
    congr 1
    simp only [hyperframe]
    omega

/-- Any mixture of steps (deltas below the hyperframe, the incremental and the recomputing path in any
order) lands on the decomposition of the summed frame number. -/
theorem time_inc_history (fn : Nat) (ds : List Nat) (h : fn < hyperframe) (hd : ∀ d ∈ ds, d < hyperframe) :
    ds.foldl cTimeInc (cFn2GsmTime fn) = cFn2GsmTime ((fn + ds.sum) % hyperframe) := by
  induction ds generalizing fn with
  | nil => simp only [List.foldl_nil, List.sum_nil, Nat.add_zero, Nat.mod_eq_of_lt h]
  | cons d ds ih =>
    rw [List.foldl_cons, time_inc fn d h (hd d (List.mem_cons_self ..)),
        ih _ (Nat.mod_lt _ (by decide)) (fun x hx => hd x (List.mem_cons_of_mem _ hx))]
    congr 1
    simp only [List.sum_cons, hyperframe]
    omega

/-- Non-vacuity of the converse round trip at a triple that no decomposition of a small frame number yields,
and of the history theorem across the wrap. -/
example : WfTime ⟨0, 2047, 25, 50, 0⟩ ∧ cGsmTime2Fn ⟨0, 2047, 25, 50, 0⟩ = 2715647 ∧
    [1, 2715647, 1, 5].foldl cTimeInc (cFn2GsmTime 2715646) = cFn2GsmTime 4 := by
  refine ⟨by simp only [WfTime]; omega, by decide +kernel, by decide +kernel⟩

/-- Non-vacuity: the carry points and the wrap are inside the hypotheses. -/
example : (2715647 < hyperframe) ∧ cTimeInc (cFn2GsmTime 2715647) 1 = ⟨0, 0, 0, 0, 0⟩ ∧
    cTimeInc (cFn2GsmTime 1325) 1 = ⟨1326, 1, 0, 0, 2⟩ := by decide +kernel

end OsmoVerif.Props.C19
