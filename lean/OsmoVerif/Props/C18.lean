/-
C18 — Burst-loss simulation drops exactly the requested bursts.

After `FAKE_DROP n [period]` a receiving transceiver suppresses exactly the next n bursts whose
frame number is a multiple of the period and then forwards normally again; RF mute on either side
suppresses every burst while active; a suppressed burst yields exactly one NOPE.ind (no bits,
RSSI −110, ToA256 0, C/I −30) on a version-1 link and nothing on a version-0 link; negative
amounts and non-positive periods are rejected without changing state.

The receiving side is `handleDataMsg w k j srcMsg msg` (fake_trx.py handle_data_msg) of the
validated world model; a *stream* is any list of (sender index, sender's message, translated
message) handed to transceiver `k` one after the other with the world threaded (`handleStream`);
nothing is assumed about the world besides what is stated (no reachability).
`planStream k w plan` is the same stream run with the decision for every burst PRESCRIBED:
`true` = NOPE branch (`suppressOut`) and one drop consumed (`decDrop`), `false` = forwarded normally
(`passOn`, the completion branch characterised in C10).
-/
import OsmoVerif.Lemmas.WorldFwd
import OsmoVerif.Spec.TrxdLayout

namespace OsmoVerif.Props.C18
open OsmoVerif OsmoVerif.World OsmoVerif.Spec OsmoVerif.PyStr OsmoVerif.World.Examples

/-- over ANY stream of (non-NOPE) bursts handed to an unmuted transceiver `k` with
`burst_drop_amount = n ≥ 0` and `burst_drop_period = p ≥ 1`, the model suppresses exactly the
bursts that `Spec.dropPlan n p` marks — the first `n` whose frame number is a multiple of `p` —
and forwards all others normally; errors (e.g. of a later draw) coincide as well. -/
theorem drop_exact (w : World) (k : Nat) (tk : Trx) (n : Nat) (p : Int) (stream : List Burst)
    (fns : List Int) (hk : w.trxs[k]? = some tk) (hm : tk.rfMuted = false)
    (hn : tk.dropAmount = (n : Int)) (hp : tk.dropPeriod = p) (hp1 : 1 ≤ p)
    (hnope : ∀ b ∈ stream, b.2.2.nopeInd = false)
    (hfns : stream.map (fun b => b.2.2.fn) = fns.map some) :
    handleStream k w stream = planStream k w ((dropPlan n p fns).zip stream) :=
  drop_exact_aux k n p hp1 stream fns w tk 0 hk hm hp (by rw [hn]; rfl) hnope hfns

/-- which bursts those are: burst `i` is suppressed iff `p ∣ fn i` and fewer than `n` earlier
bursts of the stream had a frame number that is a multiple of `p` -/
theorem drop_plan_index (n : Nat) (p : Int) (fns : List Int) (i : Nat) :
    (dropPlan n p fns)[i]? = some true ↔
      ∃ fn, fns[i]? = some fn ∧ p ∣ fn ∧ (fns.take i).countP (fun f => decide (p ∣ f)) < n := by
  unfold dropPlan
  rw [dropPlanFrom_getElem]
  simp only [Nat.zero_add]

/-- the plain form `FAKE_DROP n` (period 1): exactly the NEXT `n` bursts of the stream are suppressed,
whatever their frame numbers -/
theorem drop_plan_period_one (n : Nat) (fns : List Int) (i : Nat) :
    (dropPlan n 1 fns)[i]? = some true ↔ i < fns.length ∧ i < n := by
  rw [drop_plan_index]
  have hall : ∀ l : List Int, l.countP (fun f => decide ((1 : Int) ∣ f)) = l.length := by
    intro l
    rw [List.countP_eq_length]
    intro a _
    exact decide_eq_true (Int.one_dvd a)
  rw [hall, List.length_take]
  constructor
  · rintro ⟨fn, hget, _, hc⟩
    have hi : i < fns.length := (List.getElem?_eq_some_iff.mp hget).1
    exact ⟨hi, by omega⟩
  · rintro ⟨hi, hn⟩
    exact ⟨fns[i], List.getElem?_eq_getElem hi, Int.one_dvd _, by omega⟩

/-- one decision per burst; `min n (#multiples of p)` bursts are suppressed in total -/
theorem drop_plan_count (n : Nat) (p : Int) (fns : List Int) :
    (dropPlan n p fns).length = fns.length ∧
    (dropPlan n p fns).count true = min n (fns.countP (fun f => decide (p ∣ f))) := by
  unfold dropPlan
  exact ⟨dropPlanFrom_length n p fns 0, by rw [dropPlanFrom_count]; rfl⟩

/-- the counter ends at `n − #suppressed`; nothing else of transceiver `k` changes; every burst
of the stream produced its (possibly empty) output -/
theorem drop_counter (w : World) (k : Nat) (tk : Trx) (n : Nat) (p : Int) (stream : List Burst)
    (fns : List Int) (w' : World) (outs : List (List Dgram))
    (hk : w.trxs[k]? = some tk) (hm : tk.rfMuted = false)
    (hn : tk.dropAmount = (n : Int)) (hp : tk.dropPeriod = p) (hp1 : 1 ≤ p)
    (hnope : ∀ b ∈ stream, b.2.2.nopeInd = false)
    (hfns : stream.map (fun b => b.2.2.fn) = fns.map some)
    (h : handleStream k w stream = .ok (w', outs)) :
    w'.trxs[k]? = some { tk with dropAmount :=
        (n : Int) - (min n (fns.countP (fun f => decide (p ∣ f))) : Nat) } ∧
    outs.length = stream.length := by
  rw [drop_exact w k tk n p stream fns hk hm hn hp hp1 hnope hfns] at h
  obtain ⟨a, b⟩ := planStream_counter k _ w tk w' outs hk h
  have hl : (dropPlan n p fns).length = stream.length := by
    rw [(drop_plan_count n p fns).1]
    have := congrArg List.length hfns
    simp only [List.length_map] at this
    exact this.symm
  have hz : ((dropPlan n p fns).zip stream).map Prod.fst = dropPlan n p fns := by
    rw [List.map_fst_zip]; omega
  rw [hz, (drop_plan_count n p fns).2, hn] at a
  refine ⟨a, ?_⟩
  rw [b, List.length_zip, hl, Nat.min_self]

/-- while the receiver is muted every burst is suppressed (NOPE branch) and the world — in
particular the drop counter — is untouched -/
theorem mute_all (w : World) (k : Nat) (tk : Trx) (stream : List Burst) (w' : World)
    (outs : List (List Dgram)) (hk : w.trxs[k]? = some tk) (hm : tk.rfMuted = true)
    (h : handleStream k w stream = .ok (w', outs)) :
    w' = w ∧ outs.length = stream.length ∧
    ∀ x ∈ outs.zip stream, suppressOut tk x.2.2.2 = .ok x.1 :=
  handleStream_muted k tk hm stream w w' outs hk h

/-- a muted sender: `forward_msg` strips the burst, so the message reaches every recipient as a
NOPE indication; the step leaves the whole world (all drop counters) untouched, and by
`C02.forward_output` (`CallSpec.supp_v0/supp_v1`, `suppressed` is true) every recipient emits
nothing (version 0) or one NOPE.ind -/
theorem mute_all_sender (w : World) (j : Nat) (s : Trxd.TxMsg) (src : Trx) (fnI : Int)
    (w' : World) (out : List Dgram) (hj : w.trxs[j]? = some src) (hfn : s.fn = some fnI)
    (hok : FreqOk w fnI.toNat) (hm : src.rfMuted = true)
    (h : forwardMsg w j s = .ok (w', out)) :
    w' = w ∧ ∀ r : Trx, suppressed src r fnI = true :=
  ⟨forwardMsg_muted_sender w j s src fnI w' out hj hfn hok hm h,
   fun r => by simp only [suppressed, hm, Bool.true_or]⟩

/-- a suppressed burst (mute on either side or simulated loss) yields nothing on a version-0 link
and exactly one datagram on a version-1 link: the NOPE.ind with the frame and timeslot number of
the burst, MTS octet 0x80, RSSI −110 dBm, ToA256 0, C/I −30 and no burst bits -/
theorem nope_per_drop (w : World) (k j : Nat) (s : Trxd.TxMsg) (r src : Trx) (fn tn : Int)
    (bits : List Nat) (rx : Trxd.RxMsg) (w' : World) (dk : List Dgram)
    (hk : w.trxs[k]? = some r) (hj : w.trxs[j]? = some src) (hwf : DropWF r)
    (hfn : s.fn = some fn) (htn : s.tn = some tn) (hb : s.burst = some bits)
    (hbits : ∀ b ∈ bits, b < 256)
    (hrx : (fwdInput src s).trans (some r.hdrVer) = .ok rx)
    (h : handleDataMsg w k j (fwdInput src s) rx = .ok (w', dk))
    (hs : suppressed src r fn = true) :
    (r.hdrVer < 1 → dk = []) ∧
    (r.hdrVer = 1 → 0 ≤ fn → fn < 2715648 → 0 ≤ tn → tn ≤ 7 →
      dk = [dataDgram r (nopeOctets fn.toNat tn.toNat)]) ∧
    (1 ≤ r.hdrVer → ∃ cm, IsNope r.hdrVer (some fn) (some tn) cm ∧ dk = dgramsOf r (cm.genMsg false)) := by
  obtain ⟨cs, _⟩ := handleDataMsg_spec w k j s r src fn bits rx w' dk hk hj hwf hfn hb hbits hrx h
  refine ⟨cs.supp_v0 hs, fun hv f0 f1 t0 t1 => ?_, fun hv => ?_⟩
  · obtain ⟨cm, hn, hdk⟩ := cs.supp_v1 hs (by omega)
    rw [hv, hfn, htn] at hn
    rw [hdk, (isNope_genMsg cm fn tn false hn f0 f1 t0 t1).2]
    rfl
  · obtain ⟨cm, hn, hdk⟩ := cs.supp_v1 hs hv
    rw [hfn, htn] at hn
    exact ⟨cm, hn, hdk⟩

/-- the effect of a call on the world: mute ⇒ unchanged; simulated loss ⇒ exactly
`burst_drop_amount -= 1` of the receiver; forwarded ⇒ only the randomness stream advances -/
theorem call_world (w : World) (k j : Nat) (s : Trxd.TxMsg) (r src : Trx) (fn : Int)
    (bits : List Nat) (rx : Trxd.RxMsg) (w' : World) (dk : List Dgram)
    (hk : w.trxs[k]? = some r) (hj : w.trxs[j]? = some src) (hwf : DropWF r)
    (hfn : s.fn = some fn) (hb : s.burst = some bits) (hbits : ∀ b ∈ bits, b < 256)
    (hrx : (fwdInput src s).trans (some r.hdrVer) = .ok rx)
    (h : handleDataMsg w k j (fwdInput src s) rx = .ok (w', dk)) :
    CallWorld w k r src fn w' :=
  (handleDataMsg_spec w k j s r src fn bits rx w' dk hk hj hwf hfn hb hbits hrx h).2

/-- the NOPE octets are the TRXD v1 layout of the protocol description (Spec/TrxdLayout) for a
NOPE indication with the noise levels, and the model's noise constants are those of the property -/
theorem nope_layout (fn tn : Nat) :
    nopeOctets fn tn =
      TrxdLayout.layoutRx { ver := 1, fn := fn, tn := tn, rssi := -110, toa256 := 0, nope := true,
                            ci := -30, soft := none } false ∧
    Gen.World.rssiNoise = -110 ∧ Gen.World.toa256Noise = 0 ∧ Gen.World.ciNoise = -30 ∧
    Gen.Trxd.nopeInd = 0x80 := by
  refine ⟨?_, by decide, by decide, by decide, by decide⟩
  simp [nopeOctets, TrxdLayout.layoutRx, TrxdLayout.hdr, TrxdLayout.be32, TrxdLayout.s16be,
    TrxdLayout.mtsOctet, TrxdLayout.pad]

/-- `FAKE_DROP n`, `FAKE_DROP n p` in the custom handler: `n < 0` (resp. `n < 0 ∨ p ≤ 0`) answers
−1 and makes NO assignment; valid arguments assign exactly (n, 1) resp. (n, p) and answer 0 -/
theorem bad_args (a b : Str) (n p : Int) (ha : toInt a = .ok n) (hb : toInt b = .ok p) :
    ctrlCmdHandler [lit "FAKE_DROP", a] =
      (if n < 0 then .ok (none, some (-1)) else .ok (some (.drop n 1), some 0)) ∧
    ctrlCmdHandler [lit "FAKE_DROP", a, b] =
      (if n < 0 then .ok (none, some (-1))
       else if p ≤ 0 then .ok (none, some (-1))
       else .ok (some (.drop n p), some 0)) :=
  ⟨ctrl_fake_drop1 a n ha, ctrl_fake_drop2 a b n p ha hb⟩

/-- the same through `CTRLInterfaceTRX.parse_cmd`: the world is unchanged on rejection, else
exactly the two attributes of the addressed transceiver are assigned -/
theorem bad_args_world (w : World) (i : Nat) (a b : Str) (n p : Int) (ha : toInt a = .ok n)
    (hb : toInt b = .ok p) :
    parseCmd w i [lit "FAKE_DROP", a] =
      (if n < 0 then .ok (w, (-1, []))
       else .ok (setTrx w i (fun t => { t with dropAmount := n, dropPeriod := 1 }), (0, []))) ∧
    parseCmd w i [lit "FAKE_DROP", a, b] =
      (if n < 0 ∨ p ≤ 0 then .ok (w, (-1, []))
       else .ok (setTrx w i (fun t => { t with dropAmount := n, dropPeriod := p }), (0, []))) :=
  ⟨parse_fake_drop1 w i a n ha, parse_fake_drop2 w i a b n p ha hb⟩

/-- accepted parameters satisfy `DropWF` (amount ≥ 0, period ≥ 1): the hypothesis of the burst-path
theorems is what the command handler establishes -/
theorem accepted_wf (t : Trx) (n p : Int) (hn : ¬ n < 0) (hp : ¬ p ≤ 0) :
    DropWF ((Patch.drop n 1).apply t) ∧ DropWF ((Patch.drop n p).apply t) := by
  simp only [DropWF, Patch.apply]
  omega

/-- more generally: a freshly created transceiver satisfies `DropWF ∧ ThrNonneg`, and every
assignment the custom handler (SETTA, FAKE_TOA, FAKE_RSSI, FAKE_CI, FAKE_DROP, FAKE_TRXC_DELAY) makes
keeps it — these are the well-formedness hypotheses of the burst-path theorems (C02/C10/C18) -/
theorem sim_params_wf (req : List Str) (p : Patch) (rc : Option Int) (t : Trx)
    (h : ctrlCmdHandler req = .ok (some p, rc)) (hwf : DropWF t ∧ ThrNonneg t) :
    DropWF (p.apply t) ∧ ThrNonneg (p.apply t) :=
  ctrlCmdHandler_simWF req p rc t h hwf

/-- `RFMUTE v` sets `rf_muted := (v > 0)` and answers 0 -/
theorem rfmute_sets (w : World) (i : Nat) (t : Trx) (a : Str) (v : Int) (hi : w.trxs[i]? = some t)
    (ha : toInt a = .ok v) :
    parseCmd w i [lit "RFMUTE", a] =
      .ok (setTrx w i (fun t => { t with rfMuted := decide (v > 0) }), (0, [])) :=
  parse_rfmute w i t a v hi ha

/-! ### non-vacuity (`World.Examples`): transceiver 4 (`msDrop`: version 0, not muted,
`burst_drop_amount = 2`, `burst_drop_period = 2`) is handed five bursts in frames 51, 52, 54, 55, 56 -/

/-- the plan: the first two even frames are dropped, the third even frame is forwarded again -/
example : dropPlan 2 2 streamFns = [false, true, true, false, false] := by decide

/-- the hypotheses of `drop_exact` / `drop_counter` hold for that stream -/
example : world.trxs[4]? = some msDrop ∧ msDrop.rfMuted = false ∧ msDrop.dropAmount = (2 : Nat) ∧
    msDrop.dropPeriod = 2 ∧ (∀ b ∈ stream, b.2.2.nopeInd = false) ∧
    stream.map (fun b => b.2.2.fn) = streamFns.map some ∧
    (handleStream 4 world stream).isOk = true := by
  refine ⟨rfl, rfl, rfl, rfl, ?_, ?_, ?_⟩ <;> decide +kernel

/-- and the model does what the theorems say: one datagram for frames 51, 55, 56, none for the
two dropped bursts (version-0 link), counter at 0 afterwards -/
example : (match handleStream 4 world stream with
    | .ok (w', outs) => (outs.map List.length, (w'.trxs[4]?).map (·.dropAmount))
    | .error _ => ([], none)) = ([1, 0, 0, 1, 1], some 0) := by decide +kernel

/-- `drop_counter` applied to it -/
example : ∃ w' outs, handleStream 4 world stream = .ok (w', outs) ∧
    w'.trxs[4]? = some { msDrop with dropAmount := 0 } ∧ outs.length = 5 := by
  obtain ⟨⟨w', outs⟩, h⟩ := exists_of_isOk (handleStream 4 world stream) (by decide +kernel)
  obtain ⟨a, b⟩ := drop_counter world 4 msDrop 2 2 stream streamFns w' outs rfl rfl rfl rfl
    (by decide) (by decide +kernel) (by decide +kernel) h
  exact ⟨w', outs, h, a, b⟩

/-- a muted receiver on a version-1 link (transceiver 5): `nope_per_drop` gives exactly the NOPE.ind -/
example : ∃ w' dk, handleDataMsg world 5 0 (fwdInput bts (burst 52))
      { Trxd.RxMsg.fresh with fn := some 52, tn := some 2, ver := 1,
                              burst := some (nbBits.map softOf) } = .ok (w', dk) ∧
    suppressed bts msMuted 52 = true ∧ dk = [dataDgram msMuted (nopeOctets 52 2)] := by
  obtain ⟨⟨w', dk⟩, h⟩ := exists_of_isOk (handleDataMsg world 5 0 (fwdInput bts (burst 52))
      { Trxd.RxMsg.fresh with fn := some 52, tn := some 2, ver := 1,
                              burst := some (nbBits.map softOf) }) (by decide +kernel)
  refine ⟨w', dk, h, by decide, ?_⟩
  exact (nope_per_drop world 5 0 (burst 52) msMuted bts 52 2 nbBits _ w' dk rfl rfl (by decide)
    rfl rfl rfl (by decide +kernel) (trans_burst _ _ nbBits rfl (by decide +kernel)) h (by decide)).2.1
    rfl (by decide) (by decide) (by decide) (by decide)

/-- argument strings for `bad_args`: "-3" and "0" are rejected, "3" / "4" accepted -/
example : pyInt (lit "-3") = some (-3) ∧ pyInt (lit "0") = some 0 ∧ pyInt (lit "3") = some 3 ∧
    pyInt (lit "4") = some 4 := by decide +kernel

example : ctrlCmdHandler [lit "FAKE_DROP", lit "-3"] = .ok (none, some (-1)) ∧
    ctrlCmdHandler [lit "FAKE_DROP", lit "3", lit "0"] = .ok (none, some (-1)) := by
  have h1 : toInt (lit "-3") = .ok (-3) := by
    unfold toInt; rw [show pyInt (lit "-3") = some (-3) by decide +kernel]
  have h2 : toInt (lit "3") = .ok 3 := by
    unfold toInt; rw [show pyInt (lit "3") = some 3 by decide +kernel]
  have h3 : toInt (lit "0") = .ok 0 := by
    unfold toInt; rw [show pyInt (lit "0") = some 0 by decide +kernel]
  exact ⟨(bad_args _ _ _ _ h1 h3).1, (bad_args _ _ _ _ h2 h3).2⟩

end OsmoVerif.Props.C18
