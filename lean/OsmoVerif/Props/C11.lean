/-
C11 — Firmware and trxcon agree on the multiframe mapping of every logical channel.
Property theorems only.  Models: `OsmoVerif.Model.Mframe`; Spec (the channel
correspondence): `OsmoVerif.Spec.Mframe`; predicates, kernel-evaluated checkers and
lifting lemmas: `OsmoVerif.Lemmas.Mframe`; tables: `Gen/FwMframe.lean`,
`Gen/TrxconMframe.lean` (regenerated from the tree on every run).

Every `decide +kernel` below evaluates a Boolean checker over the regenerated tables;
the theorem after it lifts the result to all frame numbers.
-/
import OsmoVerif.Lemmas.Mframe

namespace OsmoVerif.Props.C11
open OsmoVerif OsmoVerif.Mframe OsmoVerif.Gen OsmoVerif.Gen.FwMframe OsmoVerif.Gen.TrxconMframe
open OsmoVerif.Spec.Mframe

/-! ## the firmware trigger -/

/-- `mframe_schedule_set` fires a row at tick `fn` exactly when the frame `SCHEDULE_AHEAD`
    ticks ahead is congruent to the row's `frame_nr` modulo the row's `modulo`
    (for every tick whose sum does not wrap the `uint32_t`, i.e. every valid FN). -/
theorem trigger_model (it : Item) (fn : Nat) (_hm : it.modulo ≠ 0)
    (hfn : fn + SCHEDULE_AHEAD < 4294967296) :
    (fires it fn = true ↔ (fn + SCHEDULE_AHEAD) % it.modulo = it.frameNr % it.modulo) ∧
    (fires it fn = true ↔ ∃ k, fn + SCHEDULE_AHEAD = it.frameNr % it.modulo + k * it.modulo) := by
  have e : u32 (fn + SCHEDULE_AHEAD) = fn + SCHEDULE_AHEAD := Nat.mod_eq_of_lt hfn
  have h1 : fires it fn = true ↔ (fn + SCHEDULE_AHEAD) % it.modulo = it.frameNr % it.modulo := by
    simp only [fires, e, beq_iff_eq]
  refine ⟨h1, h1.trans ⟨fun h => ?_, fun ⟨k, hk⟩ => ?_⟩⟩
  · refine ⟨(fn + SCHEDULE_AHEAD) / it.modulo, ?_⟩
    rw [← h, Nat.mul_comm]
    exact (Nat.mod_add_div _ _).symm
  · rw [hk, Nat.add_mul_mod_self_right, Nat.mod_mod]

/-- The set is handed to the TDMA scheduler with offset `SCHEDULE_AHEAD − SCHEDULE_LATENCY`
    and the DSP executes a command one frame after it was given (`dspLatency`), so the
    first burst of the set is on the air in frame `fn + SCHEDULE_AHEAD` – the frame the
    trigger compares with the row's `frame_nr`.  (Holds for any look-ahead as long as
    `SCHEDULE_LATENCY` is the DSP's latency.) -/
theorem trigger_air_frame :
    frameOffset + dspLatency = SCHEDULE_AHEAD ∧ ∀ fn, airFrame fn = fn + SCHEDULE_AHEAD :=
  ⟨by decide, airFrame_eq⟩

/-- What `mframe_schedule_set` hands to the TDMA scheduler at a tick: one call per
    triggering row, in table order, nothing else. -/
theorem schedule_items_events (taskId fn : Nat) (items : List Item) (evs : List Event)
    (h : scheduleItems taskId fn items = .ok evs) :
    evs = (items.filter fun it => fires it fn).map (eventOf taskId) := by
  induction items generalizing evs with
  | nil => simp only [scheduleItems, Except.ok.injEq] at h; simp [← h]
  | cons it rest ih =>
    simp only [scheduleItems] at h
    split at h
    · exact absurd h (by simp)
    · split at h
      · exact absurd h (by simp)
      · rename_i tl htl
        simp only [Except.ok.injEq] at h
        have := ih tl htl
        by_cases hf : fires it fn = true
        · simp only [hf, if_true] at h
          simp [hf, ← h, this]
        · simp only [hf] at h
          simp [hf, ← h, this]

/-! ## block starts and per-frame ownership -/

theorem table_split : table = (table.take 9) ++ ((table.drop 9).take 9) ++
    ((table.drop 18).take 9) ++ (table.drop 27) := by rfl

theorem entries_check_0 : (table.take 9).all entryCheck = true := by decide +kernel
theorem entries_check_1 : ((table.drop 9).take 9).all entryCheck = true := by decide +kernel
theorem entries_check_2 : ((table.drop 18).take 9).all entryCheck = true := by decide +kernel
theorem entries_check_3 : (table.drop 27).all entryCheck = true := by decide +kernel

/-- Every pairing of the Spec table holds at every tick: the task has a table, every
    valid timeslot has a layout, and for every direction and every frame number the
    firmware fires a row of the channel (of its SACCH) exactly when the layout's frame
    `fn + SCHEDULE_AHEAD` shows the channel (its SACCH) – as first burst of a block for
    block channels, as owner of the frame for TCH traffic and SACCH/T. -/
theorem mapping_agrees : ∀ e ∈ table, EntryAgrees e := by
  intro e he
  apply entry_lift
  rw [table_split] at he
  simp only [List.mem_append] at he
  rcases he with ((h | h) | h) | h
  · exact (List.all_eq_true.1 entries_check_0) e h
  · exact (List.all_eq_true.1 entries_check_1) e h
  · exact (List.all_eq_true.1 entries_check_2) e h
  · exact (List.all_eq_true.1 entries_check_3) e h

/-- **Block channels** (BCCH, CCCH plain and combined, SDCCH/4 and SDCCH/8 sub-channels
    and their SACCHs, CBCH, PDTCH): for every task, direction, valid timeslot and frame
    number, the firmware starts a Downlink/Uplink block whose first burst is in frame
    `airFrame fn` exactly when trxcon's layout marks that frame as burst 0 of the mapped
    channel in the same direction; the same for the SACCH rows and the SACCH channel; and
    a task without SACCH in the Spec never fires a SACCH row. -/
theorem block_starts_agree :
    ∀ e ∈ table, e.kind = .block → ∃ items, tableOf e.task = some items ∧
      ∀ tn ∈ e.tns, ∃ L, layoutFor e.config tn = some L ∧ ∀ d ∈ e.dirs, ∀ fn,
        fn + SCHEDULE_AHEAD < 4294967296 →
        (FwStartsBlock items d false fn ↔ LayoutFirstBurst L d e.main (airFrame fn)) ∧
        (∀ sc, e.sacch = some sc →
          (FwStartsBlock items d true fn ↔ LayoutFirstBurst L d sc (airFrame fn))) ∧
        (e.sacch = none → ¬ FwStartsBlock items d true fn) := by
  intro e he hk
  obtain ⟨items, hit, hall⟩ := mapping_agrees e he
  refine ⟨items, hit, fun tn htn => ?_⟩
  obtain ⟨L, hL, hag⟩ := hall tn htn
  refine ⟨L, hL, fun d hd fn hfn => ?_⟩
  obtain ⟨fr, hlk, hm, hs⟩ := agreeAt_iff items L e d fn (hag d hd fn hfn)
  rw [fwMarks_iff] at hm hs
  simp only [frameMarks, hk, Bool.and_eq_true, beq_iff_eq, Bool.or_eq_true] at hm
  refine ⟨?_, ?_, ?_⟩
  · rw [hm]
    constructor
    · rintro ⟨h1, h2⟩
      rcases h2 with h2 | h2
      · exact absurd h2 (by decide)
      · exact ⟨fr, hlk, h1, h2⟩
    · rintro ⟨fr', hlk', h1, h2⟩
      rw [hlk] at hlk'; cases hlk'
      exact ⟨h1, Or.inr h2⟩
  · intro sc hsc
    rw [hsc] at hs
    simp only [frameMarks, hk, Bool.and_eq_true, beq_iff_eq, Bool.or_eq_true] at hs
    rw [hs]
    constructor
    · rintro ⟨h1, h2⟩
      rcases h2 with h2 | h2
      · exact absurd h2 (by decide)
      · exact ⟨fr, hlk, h1, h2⟩
    · rintro ⟨fr', hlk', h1, h2⟩
      rw [hlk] at hlk'; cases hlk'
      exact ⟨h1, Or.inr h2⟩
  · intro hsn
    rw [hsn] at hs
    simp only [frameMarks] at hs
    intro hc
    exact absurd (hs.1 hc) (by decide)

/-- **TCH/F, TCH/H traffic and their SACCH** (scheduled frame by frame): for every task
    (TCH/F even/odd ↔ timeslot parity, TCH/H ↔ sub-channel), direction, valid timeslot and
    frame number, the firmware schedules a traffic row (a SACCH row) for air frame
    `airFrame fn` exactly when trxcon's layout gives that frame to the traffic channel
    (the SACCH channel) – so the frames owned modulo 26 (modulo 104) are equal. -/
theorem tch_frames_agree :
    ∀ e ∈ table, e.kind = .perFrame → ∃ items, tableOf e.task = some items ∧
      ∀ tn ∈ e.tns, ∃ L, layoutFor e.config tn = some L ∧ ∀ d ∈ e.dirs, ∀ fn,
        fn + SCHEDULE_AHEAD < 4294967296 →
        (FwStartsBlock items d false fn ↔ LayoutOwns L d e.main (airFrame fn)) ∧
        (∀ sc, e.sacch = some sc →
          (FwStartsBlock items d true fn ↔ LayoutOwns L d sc (airFrame fn))) := by
  intro e he hk
  obtain ⟨items, hit, hall⟩ := mapping_agrees e he
  refine ⟨items, hit, fun tn htn => ?_⟩
  obtain ⟨L, hL, hag⟩ := hall tn htn
  refine ⟨L, hL, fun d hd fn hfn => ?_⟩
  obtain ⟨fr, hlk, hm, hs⟩ := agreeAt_iff items L e d fn (hag d hd fn hfn)
  rw [fwMarks_iff] at hm hs
  have hkk : (Kind.perFrame == Kind.perFrame) = true := by decide
  simp only [frameMarks, hk, hkk, Bool.true_or, Bool.and_true, beq_iff_eq] at hm
  refine ⟨?_, ?_⟩
  · rw [hm]
    constructor
    · intro h1; exact ⟨fr, hlk, h1⟩
    · rintro ⟨fr', hlk', h1⟩
      rw [hlk] at hlk'; cases hlk'
      exact h1
  · intro sc hsc
    rw [hsc] at hs
    simp only [frameMarks, hk, hkk, Bool.true_or, Bool.and_true, beq_iff_eq] at hs
    rw [hs]
    constructor
    · intro h1; exact ⟨fr, hlk, h1⟩
    · rintro ⟨fr', hlk', h1⟩
      rw [hlk] at hlk'; cases hlk'
      exact h1

/-! ## the layouts on their own -/

theorem layouts_table_ok : (layouts.filter fun L => L.config != .NONE).all tableOk = true := by
  decide +kernel

/-- No frame lookup of any frame number leaves the table: every layout except `NONE`
    (note N15: period 0, frames NULL, never configured by the callers) has a positive
    period and a table of exactly `period` rows, so `frames[fn % period]` is a row of the
    table for ALL `fn`. -/
theorem lookup_in_table : ∀ L ∈ layouts, L.config ≠ .NONE →
    0 < L.period ∧ (∃ fr, L.frames = some fr ∧ fr.length = L.period) ∧
    ∀ fn, ∃ f, lookup L fn = .ok f := by
  intro L hL hn
  have h := (List.all_eq_true.1 layouts_table_ok) L (mem_real_layouts hL hn)
  obtain ⟨hp, fr, hf, hl, hlk⟩ := tableOk_lookup L h
  exact ⟨hp, ⟨fr, hf, hl⟩, fun fn => ⟨_, (hlk fn).2⟩⟩

/-- … and the lookup is periodic (so one period decides all frame numbers) -/
theorem lookup_periodic (L : Layout) (fn k : Nat) : lookup L (fn + k * L.period) = lookup L fn :=
  lookup_add_period L fn k

/-- the `NONE` layout really is the excluded one: a lookup in it divides by zero -/
theorem none_layout_excluded : ∀ L ∈ layouts, L.config = .NONE →
    ∀ fn, lookup L fn = .error .divByZero := by
  have h : (layouts.filter fun L => L.config == .NONE).all (fun L => L.period == 0) = true := by
    decide +kernel
  intro L hL hc fn
  have := (List.all_eq_true.1 h) L (by simp only [List.mem_filter, beq_iff_eq]; exact ⟨hL, hc⟩)
  simp only [beq_iff_eq] at this
  simp only [lookup, this, if_true]

theorem layouts_bids_ok : (layouts.filter fun L => L.config != .NONE).all bidsCheck = true := by
  decide +kernel

/-- Inside every layout the frames owned by a block channel carry burst ids `0,1,2,3`
    (`0,1` for TCH/H) in cyclic order, per direction and for ALL frame numbers: if frame
    numbers `fn` and `fn + k` are two consecutive frames of block channel `c` in direction
    `d` (no frame of `c` in between), then the burst id at `fn` is below the block length
    `n` and the burst id at `fn + k` is its successor modulo `n`. -/
theorem bids_cyclic : ∀ L ∈ layouts, L.config ≠ .NONE → ∀ (d : Dir) (fn k : Nat) (f g : Frame)
    (n : Nat), 0 < k → lookup L fn = .ok f → lookup L (fn + k) = .ok g →
    (chanOf d g).1 = (chanOf d f).1 → blockLen (chanOf d f).1 = some n →
    (∀ j, 0 < j → j < k → ∀ h, lookup L (fn + j) = .ok h → (chanOf d h).1 ≠ (chanOf d f).1) →
    (chanOf d f).2 < n ∧ (chanOf d g).2 = ((chanOf d f).2 + 1) % n := by
  intro L hL hn d fn k f g n hk hf hg hc hbl hbetween
  have hmem := mem_real_layouts hL hn
  exact bids_lift L ((List.all_eq_true.1 layouts_table_ok) L hmem)
    ((List.all_eq_true.1 layouts_bids_ok) L hmem) d fn k f g n hk hf hg hc hbl hbetween

theorem layouts_mask_ok : (layouts.filter fun L => L.config != .NONE).all maskCheck = true := by
  decide +kernel

/-- Every channel used by a frame – for any frame number – is contained in the layout's
    channel mask (IDLE, which needs no channel state, excepted). -/
theorem chans_in_mask : ∀ L ∈ layouts, L.config ≠ .NONE → ∀ fn f, lookup L fn = .ok f →
    (f.dlChan ≠ .IDLE → L.lchanMask.testBit f.dlChan.val = true) ∧
    (f.ulChan ≠ .IDLE → L.lchanMask.testBit f.ulChan.val = true) := by
  intro L hL hn fn f hlk
  have hmem := mem_real_layouts hL hn
  have ht := (List.all_eq_true.1 layouts_table_ok) L hmem
  have hm := (List.all_eq_true.1 layouts_mask_ok) L hmem
  obtain ⟨_, fr, hf, _, hl⟩ := tableOk_lookup L ht
  obtain ⟨hlt, hok⟩ := hl fn
  rw [hok] at hlk
  simp only [Except.ok.injEq] at hlk
  unfold maskCheck at hm
  rw [hf] at hm
  have := (List.all_eq_true.1 hm) f (by rw [← hlk]; exact List.getElem_mem hlt)
  simp only [frameInMask, Bool.and_eq_true, Bool.or_eq_true, beq_iff_eq] at this
  exact ⟨fun h => this.1.resolve_left h, fun h => this.2.resolve_left h⟩

/-! ## the same, as sets of frames modulo the multiframe period -/

theorem layouts_period_bounds :
    (layouts.all fun L => decide (L.period + L.period < 4294967296) &&
      (L.config == .NONE || decide (SCHEDULE_AHEAD ≤ L.period))) = true := by decide +kernel

/-- **Block channels, as the property words it**: for every task, valid timeslot and
    direction, the set of frames modulo the multiframe period in which the firmware starts
    a block (of the channel; of its SACCH) is exactly the set of rows `r` that trxcon's
    layout marks as burst 0 of the mapped channel in that direction. -/
theorem block_start_residues_agree :
    ∀ e ∈ table, e.kind = .block → ∃ items, tableOf e.task = some items ∧
      ∀ tn ∈ e.tns, ∃ L, layoutFor e.config tn = some L ∧ ∀ d ∈ e.dirs, ∀ r, r < L.period →
        ((∃ fn, fn + SCHEDULE_AHEAD < 4294967296 ∧ FwStartsBlock items d false fn ∧
            airFrame fn % L.period = r) ↔ LayoutFirstBurst L d e.main r) ∧
        (∀ sc, e.sacch = some sc →
          ((∃ fn, fn + SCHEDULE_AHEAD < 4294967296 ∧ FwStartsBlock items d true fn ∧
              airFrame fn % L.period = r) ↔ LayoutFirstBurst L d sc r)) := by
  intro e he hk
  obtain ⟨items, hit, hall⟩ := block_starts_agree e he hk
  refine ⟨items, hit, fun tn htn => ?_⟩
  obtain ⟨L, hL, hag⟩ := hall tn htn
  have hmem := layoutFor_mem hL
  have hne : L.config ≠ .NONE := by
    intro hc
    have h0 := none_layout_excluded L hmem hc
    obtain ⟨d, hd⟩ : ∃ d, d ∈ e.dirs := by
      have : (table.all fun e => !e.dirs.isEmpty) = true := by decide
      have := (List.all_eq_true.1 this) e he
      cases hdirs : e.dirs with
      | nil => rw [hdirs] at this; exact absurd this (by decide)
      | cons a t => exact ⟨a, by simp⟩
    have hA : (0 : Nat) + SCHEDULE_AHEAD < 4294967296 := by decide
    -- `mapping_agrees` looks the frame of tick 0 up successfully; in the NONE layout it cannot
    obtain ⟨items', _, hall'⟩ := mapping_agrees e he
    obtain ⟨L', hL', hag'⟩ := hall' tn htn
    rw [hL] at hL'; cases hL'
    obtain ⟨fr, hlk, _⟩ := agreeAt_iff items' L e d 0 (hag' d hd 0 hA)
    rw [h0] at hlk; cases hlk
  have hb := (List.all_eq_true.1 layouts_period_bounds) L hmem
  simp only [Bool.and_eq_true, Bool.or_eq_true, decide_eq_true_eq, beq_iff_eq] at hb
  have hA : SCHEDULE_AHEAD ≤ L.period := hb.2.resolve_left hne
  refine ⟨L, hL, fun d hd r hr => ⟨?_, fun sc hsc => ?_⟩⟩
  · exact residues_of_pointwise L hA hb.1 _ _ (firstBurst_congr L d e.main)
      (fun fn hfn => (hag d hd fn hfn).1) r hr
  · exact residues_of_pointwise L hA hb.1 _ _ (firstBurst_congr L d sc)
      (fun fn hfn => (hag d hd fn hfn).2.1 sc hsc) r hr

/-- **TCH/F, TCH/H traffic and SACCH/T, as sets**: the frames modulo the layout period
    (104 = 4 × 26) for which the firmware schedules a traffic row (a SACCH row) are exactly
    the rows the layout gives to the traffic channel (the SACCH channel). -/
theorem tch_frame_residues_agree :
    ∀ e ∈ table, e.kind = .perFrame → ∃ items, tableOf e.task = some items ∧
      ∀ tn ∈ e.tns, ∃ L, layoutFor e.config tn = some L ∧ ∀ d ∈ e.dirs, ∀ r, r < L.period →
        ((∃ fn, fn + SCHEDULE_AHEAD < 4294967296 ∧ FwStartsBlock items d false fn ∧
            airFrame fn % L.period = r) ↔ LayoutOwns L d e.main r) ∧
        (∀ sc, e.sacch = some sc →
          ((∃ fn, fn + SCHEDULE_AHEAD < 4294967296 ∧ FwStartsBlock items d true fn ∧
              airFrame fn % L.period = r) ↔ LayoutOwns L d sc r)) := by
  intro e he hk
  obtain ⟨items, hit, hall⟩ := tch_frames_agree e he hk
  refine ⟨items, hit, fun tn htn => ?_⟩
  obtain ⟨L, hL, hag⟩ := hall tn htn
  have hmem := layoutFor_mem hL
  have hne : L.config ≠ .NONE := by
    intro hc
    have h0 := none_layout_excluded L hmem hc
    obtain ⟨d, hd⟩ : ∃ d, d ∈ e.dirs := by
      have : (table.all fun e => !e.dirs.isEmpty) = true := by decide
      have := (List.all_eq_true.1 this) e he
      cases hdirs : e.dirs with
      | nil => rw [hdirs] at this; exact absurd this (by decide)
      | cons a t => exact ⟨a, by simp⟩
    have hA : (0 : Nat) + SCHEDULE_AHEAD < 4294967296 := by decide
    obtain ⟨items', _, hall'⟩ := mapping_agrees e he
    obtain ⟨L', hL', hag'⟩ := hall' tn htn
    rw [hL] at hL'; cases hL'
    obtain ⟨fr, hlk, _⟩ := agreeAt_iff items' L e d 0 (hag' d hd 0 hA)
    rw [h0] at hlk; cases hlk
  have hb := (List.all_eq_true.1 layouts_period_bounds) L hmem
  simp only [Bool.and_eq_true, Bool.or_eq_true, decide_eq_true_eq, beq_iff_eq] at hb
  have hA : SCHEDULE_AHEAD ≤ L.period := hb.2.resolve_left hne
  refine ⟨L, hL, fun d hd r hr => ⟨?_, fun sc hsc => ?_⟩⟩
  · exact residues_of_pointwise L hA hb.1 _ _ (owns_congr L d e.main)
      (fun fn hfn => (hag d hd fn hfn).1) r hr
  · exact residues_of_pointwise L hA hb.1 _ _ (owns_congr L d sc)
      (fun fn hfn => (hag d hd fn hfn).2 sc hsc) r hr

/-! ## `l1sched_mframe_layout` -/

/-- For every channel-combination value and every timeslot the lookup returns an entry
    of `layouts[]` of that combination whose slot mask contains the timeslot, or there
    is no such entry in the table. -/
theorem layout_lookup_valid (config tn : Nat) (_htn : tn < 8) :
    match layoutForVal config tn with
    | some L => L ∈ layouts ∧ L.config.val = config ∧ L.slotmask.testBit tn = true
    | none => ∀ L ∈ layouts, ¬ (L.config.val = config ∧ L.slotmask.testBit tn = true) := by
  cases h : layoutForVal config tn with
  | some L => exact layoutForVal_some config tn L h
  | none => exact layoutForVal_none config tn h

theorem layouts_total_check :
    (layouts.all fun L => allTn.all fun tn => (layoutFor L.config tn).isSome) = true := by
  decide +kernel

/-- … and for every channel combination that occurs in `layouts[]` and every timeslot
    0..7 the lookup does return a layout (valid for that timeslot by the previous theorem). -/
theorem layout_lookup_total : ∀ L ∈ layouts, ∀ tn, tn < 8 →
    ∃ L', layoutFor L.config tn = some L' ∧ L'.config = L.config ∧ L'.slotmask.testBit tn = true := by
  intro L hL tn htn
  have h := (List.all_eq_true.1 ((List.all_eq_true.1 layouts_total_check) L hL)) tn
    (by simp only [allTn, List.mem_cons, List.mem_nil_iff, or_false]; omega)
  obtain ⟨L', hL'⟩ := Option.isSome_iff_exists.1 h
  obtain ⟨_, hc, hs⟩ := layoutForVal_some _ _ _ hL'
  refine ⟨L', hL', ?_, hs⟩
  have inj : ∀ a b : Pchan, a.val = b.val → a = b := by
    intro a b; cases a <;> cases b <;> decide
  exact inj _ _ hc

/-! ## the Spec table leaves nothing out -/

theorem layouts_cover_check : (layouts.filter fun L => L.config != .NONE).all coverCheck = true := by
  decide +kernel

theorem layouts_dlonly_check : (layouts.filter fun L => L.config != .NONE).all dlOnlyCheck = true := by
  decide +kernel

/-- Every channel of every frame of every layout – for any frame number – is paired
    with a firmware task by the Spec table (same combination, direction, every timeslot
    of the slot mask), unless no firmware multiframe task implements it: IDLE, FCCH, SCH,
    RACH, PTCCH, and PDTCH on the Uplink. -/
theorem spec_covers_layouts : ∀ L ∈ layouts, L.config ≠ .NONE → ∀ fn f, lookup L fn = .ok f →
    ∀ d, notInFirmware (chanOf d f).1 = true ∨ (d = .ul ∧ (chanOf d f).1 = .PDTCH) ∨
      ∃ e ∈ table, e.config = L.config ∧ (e.main = (chanOf d f).1 ∨ e.sacch = some (chanOf d f).1) ∧
        d ∈ e.dirs ∧ ∀ tn, tn < 8 → L.slotmask.testBit tn = true → tn ∈ e.tns := by
  intro L hL hn fn f hlk d
  have hmem := mem_real_layouts hL hn
  have ht := (List.all_eq_true.1 layouts_table_ok) L hmem
  have hc := (List.all_eq_true.1 layouts_cover_check) L hmem
  obtain ⟨_, fr, hf, _, hl⟩ := tableOk_lookup L ht
  obtain ⟨hlt, hok⟩ := hl fn
  rw [hok] at hlk
  unfold coverCheck at hc
  rw [hf] at hc
  simp only [Bool.and_eq_true] at hc
  have hw : coverWalk L (table.filter fun e => e.config == L.config) d .IDLE fr = true := by
    cases d
    · exact hc.1
    · exact hc.2
  have := coverWalk_mem L _ d .IDLE fr (by simp [covered, notInFirmware]) hw f
    (by rw [← Except.ok.inj hlk]; exact List.getElem_mem hlt)
  simp only [covered, Bool.or_eq_true, Bool.and_eq_true, beq_iff_eq, List.any_eq_true,
    List.mem_filter, List.all_eq_true, decide_eq_true_eq] at this
  rcases this with (h | h) | ⟨e, ⟨he, hcfg⟩, ⟨h3, h4⟩, h5⟩
  · exact Or.inl h
  · exact Or.inr (Or.inl h)
  · refine Or.inr (Or.inr ⟨e, he, hcfg, h3, h4, fun tn htn hb => h5 tn ?_⟩)
    simp only [maskTns, List.mem_filter, allTn, List.mem_cons, List.mem_nil_iff, or_false]
    exact ⟨by omega, hb⟩

/-- The Spec table compares a channel on the Downlink only for BCCH, CCCH, the two CBCHs
    and PDTCH.  The first four are used on the Uplink by no frame of any layout, so no
    direction of them is left out; PDTCH Uplink is the one direction left out (trxcon
    transmits on it, the firmware's `mf_gprs_pdtch` is a receive-only task). -/
theorem dl_only_channels_have_no_uplink :
    (∀ e ∈ table, Dir.ul ∈ e.dirs ∨ e.main = .PDTCH ∨ (e.main ∈ dlOnlyChans ∧ e.sacch = none)) ∧
    ∀ L ∈ layouts, L.config ≠ .NONE → ∀ fn f, lookup L fn = .ok f → f.ulChan ∉ dlOnlyChans := by
  have h1 : dlOnlyListCheck = true := by decide +kernel
  refine ⟨fun e he => ?_, fun L hL hn fn f hlk => ?_⟩
  · have := (List.all_eq_true.1 h1) e he
    simp only [Bool.or_eq_true, Bool.and_eq_true, decide_eq_true_eq, beq_iff_eq,
      List.contains_iff_mem] at this
    rcases this with (h | h) | h
    · exact Or.inl h
    · exact Or.inr (Or.inl h)
    · exact Or.inr (Or.inr h)
  · have hmem := mem_real_layouts hL hn
    have ht := (List.all_eq_true.1 layouts_table_ok) L hmem
    have hc := (List.all_eq_true.1 layouts_dlonly_check) L hmem
    obtain ⟨_, fr, hf, _, hl⟩ := tableOk_lookup L ht
    obtain ⟨hlt, hok⟩ := hl fn
    rw [hok] at hlk
    unfold dlOnlyCheck at hc
    rw [hf] at hc
    have := (List.all_eq_true.1 hc) f (by rw [← Except.ok.inj hlk]; exact List.getElem_mem hlt)
    simpa using this

/-- Every firmware task is in the Spec table unless it has no logical channel in trxcon
    (extended BCCH, the empty PTCCH task, neighbour measurement, the TX test task). -/
theorem spec_covers_tasks : ∀ t : Task, notInTrxcon t = true ∨ ∃ e ∈ table, e.task = t := by
  intro t
  have h : (Task.all.all fun t => notInTrxcon t || table.any fun e => e.task == t) = true := by
    decide +kernel
  have hall : t ∈ Task.all := by cases t <;> decide
  have := (List.all_eq_true.1 h) t hall
  simp only [Bool.or_eq_true, List.any_eq_true, beq_iff_eq] at this
  rcases this with h | ⟨e, he, h⟩
  · exact Or.inl h
  · exact Or.inr ⟨e, he, h⟩

/-! ## non-vacuity -/

/-- the hypotheses are met by non-trivial values: SDCCH/4(0) in the combined CCCH has a
    table and a layout, its Uplink block starts in frame 37 and its Uplink SACCH block in
    frame 57 of the 102-multiframe (`SCHEDULE_AHEAD` ticks earlier), and not one frame later. -/
example : (⟨.SDCCH4_0, .CCCH_SDCCH4, allTn, .SDCCH4_0, some .SACCH4_0, DU, .block⟩ : Entry) ∈ table ∧
    (match tableOf .SDCCH4_0 with
     | none => false
     | some items =>
       fwMarks items .ul false (37 - SCHEDULE_AHEAD) && fwMarks items .ul true (57 - SCHEDULE_AHEAD) &&
       !fwMarks items .ul false (38 - SCHEDULE_AHEAD) && !fwMarks items .ul true (37 - SCHEDULE_AHEAD)) = true ∧
    (layoutFor .CCCH_SDCCH4 0).isSome = true ∧ (35 + SCHEDULE_AHEAD < 4294967296) := by
  refine ⟨by simp [table], ?_, ?_, ?_⟩ <;> decide +kernel

example : (match layoutFor .CCCH 0 with
    | some L => (match lookup L 10607 with | .ok f => f == ⟨.IDLE, 0, .RACH, 0⟩ | _ => false)
    | none => false) = true := by decide +kernel

end OsmoVerif.Props.C11
