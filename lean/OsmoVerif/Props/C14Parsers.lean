/-
C14 (parser half) — whatever octets arrive on a data socket or are found in a capture file, the TRXD
message parser, the receiving half of the TRXD interface and the capture reader return normally:
the parser signals nothing but `ValueError`, `recv_tx_msg` / `recv_rx_msg` turn every rejected datagram
and every version mismatch into `None`, the capture reader returns its documented `None` / `False` /
list results, and none of them keeps anything from one datagram / read to the next.  Property theorems only.

Models: `OsmoVerif.Model.Trxd` (TxMsg / RxMsg.parse_msg, failure tagged: every `b[i]`, every
`struct.unpack` on a slice, the `HDR_LEN` property and the table lookups of `bytes.translate` are partial
and carry the Python exception class), `OsmoVerif.Model.TrxdIf` (DATAInterface.recv_tx_msg / recv_rx_msg),
`OsmoVerif.Model.TrxdDump` / `TrxdDumpHist` (DATADumpFile).  Helper lemmas: `Lemmas/TrxdParse`,
`Lemmas/TrxdIf`, `Lemmas/TrxdDumpHist`.

"Functional model" and what it means for the code: `TxMsg.parseMsg b` / `RxMsg.parseMsg b` are the calls
`TxMsg().parse_msg(b)` / `RxMsg().parse_msg(b)` on a FRESH object; in the model their result is a function
of `b` and of the regenerated class constants (header lengths, known versions, Modulation enum, soft-bit
table) alone.  For the code this says: `parse_msg` reads nothing but its argument, the new object and these
class-level constants, and writes nothing but the new object - no module or class level state survives a
parse, failed or not.  That part is tied differentially (sequences of parses in ONE interpreter, each
answered by the model independently).  Where the code does keep an object across calls - the interface
(`_hdr_ver`) and the capture reader (file content and cursor) - the models thread that object through
every call and the theorems below are about it.
-/
import OsmoVerif.Lemmas.TrxdParse
import OsmoVerif.Lemmas.TrxdIf

namespace OsmoVerif.Props.C14Parsers
open OsmoVerif OsmoVerif.Trxd OsmoVerif.TrxdIf OsmoVerif.TrxdDump

/-- an octet string (element type invariant of `bytes` / `bytearray`) -/
def Octets (b : Bytes) : Prop := ∀ x ∈ b, x < 256
instance (b : Bytes) : Decidable (Octets b) := by unfold Octets; infer_instance

/-! ### (a) the message parser signals only ValueError -/

/-- `TxMsg().parse_msg(b)` on ANY list of numbers: a message or `ValueError` - never the IndexError of
`msg[0]` / `hdr[5]` / `HDR_LEN`, never the struct.error of `struct.unpack(">L", msg[1:5])`. -/
theorem parse_only_valueerror_tx (b : Bytes) :
    (∃ m, TxMsg.parseMsg b = .ok m) ∨ TxMsg.parseMsg b = .error .valueError := by
  rcases TxMsg.parseMsg_cases b with ⟨h, _⟩ | ⟨m, h, _⟩
  · exact Or.inr h
  · exact Or.inl ⟨m, h⟩

/-- `RxMsg().parse_msg(b)` on ANY octet string: a message or `ValueError` - never the IndexError of
`hdr[5]` / `hdr[8]` / `HDR_LEN` / the translation table, never the struct.error of the three `unpack`s. -/
theorem parse_only_valueerror_rx (b : Bytes) (hb : Octets b) :
    (∃ m, RxMsg.parseMsg b = .ok m) ∨ RxMsg.parseMsg b = .error .valueError := by
  rcases RxMsg.parseMsgFrom_cases RxMsg.fresh b hb with ⟨h, _⟩ | ⟨m, h, _⟩
  · exact Or.inr h
  · exact Or.inl ⟨m, h⟩

/-- the same for `parse_msg` on an `RxMsg` object that was used before (any attribute values) -/
theorem reparse_only_valueerror_rx (self : RxMsg) (b : Bytes) (hb : Octets b) :
    (∃ m, self.parseMsgFrom b = .ok m) ∨ self.parseMsgFrom b = .error .valueError := by
  rcases RxMsg.parseMsgFrom_cases self b hb with ⟨h, _⟩ | ⟨m, h, _⟩
  · exact Or.inr h
  · exact Or.inl ⟨m, h⟩

/-- exactly which Tx datagrams are rejected (numbers of the TRXD layout): fewer than the 6 header octets, or
a version nibble other than 0 / 1.  Everything else - any TN bit pattern, any FN, any attenuation, any
burst length - is parsed. -/
theorem parse_tx_rejects_iff (b : Bytes) :
    TxMsg.parseMsg b = .error .valueError ↔ (b.length < 6 ∨ ∀ v ∈ verNibble b, ¬ v < 2) := by
  rcases TxMsg.parseMsg_cases b with ⟨h, hm⟩ | ⟨m, h, hm, _⟩
  · exact ⟨fun _ => hm, fun _ => h⟩
  · exact ⟨fun h' => (by rw [h] at h'; cases h'), fun h' => absurd h' hm⟩

/-- exactly which Rx datagrams are rejected: fewer than 8 octets, a version nibble other than 0 / 1,
version 1 with fewer than 11 octets, or version 0 (no modulation field: the modulation is guessed from the
length) with a burst of a length other than 148, 296, 444, 592, 740 (+2 legacy octets).  Every MTS octet
(reserved modulation codings included) is parsed. -/
theorem parse_rx_rejects_iff (b : Bytes) (hb : Octets b) :
    RxMsg.parseMsg b = .error .valueError ↔
      (b.length < 8 ∨ (∀ v ∈ verNibble b, ¬ v < 2) ∨ (verNibble b = some 1 ∧ b.length < 11) ∨
       (verNibble b = some 0 ∧ 8 < b.length ∧
        b.length - 8 ∉ [148, 150, 296, 298, 444, 446, 592, 594, 740, 742])) := by
  have hmal : RxMalformed b ↔ (b.length < 8 ∨ (∀ v ∈ verNibble b, ¬ v < 2) ∨ (verNibble b = some 1 ∧ b.length < 11) ∨
       (verNibble b = some 0 ∧ 8 < b.length ∧
        b.length - 8 ∉ [148, 150, 296, 298, 444, 446, 592, 594, 740, 742])) := by
    unfold RxMalformed; rw [guessMod_none_iff]
  rw [← hmal]
  rcases RxMsg.parseMsgFrom_cases RxMsg.fresh b hb with ⟨h, hm⟩ | ⟨m, h, hm, _⟩
  · exact ⟨fun _ => hm, fun _ => h⟩
  · exact ⟨fun h' => (by rw [RxMsg.parseMsg, h] at h'; cases h'), fun h' => absurd h' hm⟩

/-- whether an Rx datagram is accepted does not depend on the object it is parsed into -/
theorem reparse_outcome_independent (self : RxMsg) (b : Bytes) (hb : Octets b) :
    (∃ m, self.parseMsgFrom b = .ok m) ↔ (∃ m, RxMsg.parseMsg b = .ok m) := by
  rcases RxMsg.parseMsgFrom_cases self b hb with ⟨h1, m1⟩ | ⟨x, h1, m1, _⟩ <;>
  rcases RxMsg.parseMsgFrom_cases RxMsg.fresh b hb with ⟨h2, m2⟩ | ⟨y, h2, m2, _⟩
  · simp only [RxMsg.parseMsg, h1, h2, reduceCtorEq, exists_false]
  · exact absurd m1 m2
  · exact absurd m2 m1
  · exact ⟨fun _ => ⟨y, h2⟩, fun _ => ⟨x, h1⟩⟩

/-- a parsed message carries the version of its first octet, and that version is 0 or 1 -/
theorem parsed_version_tx (b : Bytes) (m : TxMsg) (h : TxMsg.parseMsg b = .ok m) :
    verNibble b = some m.ver.toNat ∧ (m.ver = 0 ∨ m.ver = 1) := by
  rcases TxMsg.parseMsg_cases b with ⟨he, _⟩ | ⟨m', hm, _, hv, hk, _⟩
  · rw [he] at h; cases h
  · rw [hm] at h; cases h; exact ⟨hv, hk⟩

theorem parsed_version_rx (b : Bytes) (hb : Octets b) (m : RxMsg) (h : RxMsg.parseMsg b = .ok m) :
    verNibble b = some m.ver.toNat ∧ (m.ver = 0 ∨ m.ver = 1) := by
  rcases RxMsg.parseMsgFrom_cases RxMsg.fresh b hb with ⟨he, _⟩ | ⟨m', hm, _, hv, hk, _⟩
  · rw [RxMsg.parseMsg, he] at h; cases h
  · rw [RxMsg.parseMsg, hm] at h; cases h; exact ⟨hv, hk⟩

/-! ### (b) recv_tx_msg / recv_rx_msg swallow what the parser rejects -/

/-- `recv_tx_msg()` for ANY datagram and negotiated version: never raises; `None` for every datagram the
parser rejects and for a header version other than the negotiated one, the parsed message otherwise; the
interface object is left as it was. -/
theorem recv_swallows_tx (s : DataIf) (d : Bytes) :
    (recvTxMsg s d).2 = s ∧
    (∃ r, (recvTxMsg s d).1 = .ok r) ∧
    ((∃ e, TxMsg.parseMsg (d.take Gen.TrxdIf.txRecvSize) = .error e) → (recvTxMsg s d).1 = .ok none) ∧
    (∀ m, TxMsg.parseMsg (d.take Gen.TrxdIf.txRecvSize) = .ok m →
      (recvTxMsg s d).1 = .ok (if m.ver = s.hdrVer then some m else none)) := by
  obtain ⟨hs, h⟩ := recvTxMsg_cases s d
  refine ⟨hs, ?_, ?_, ?_⟩
  · rcases h with ⟨_, h2⟩ | ⟨m, _, h2⟩ <;> exact ⟨_, h2⟩
  · rintro ⟨e, he⟩
    rcases h with ⟨_, h2⟩ | ⟨m, hm, _⟩
    · exact h2
    · rw [hm] at he; cases he
  · intro m hm
    rcases h with ⟨he, _⟩ | ⟨m', hm', h2⟩
    · rw [he] at hm; cases hm
    · rw [hm'] at hm; cases hm; exact h2

/-- `recv_rx_msg()`, the same (datagrams are octet strings) -/
theorem recv_swallows_rx (s : DataIf) (d : Bytes) (hd : Octets d) :
    (recvRxMsg s d).2 = s ∧
    (∃ r, (recvRxMsg s d).1 = .ok r) ∧
    ((∃ e, RxMsg.parseMsg (d.take Gen.TrxdIf.rxRecvSize) = .error e) → (recvRxMsg s d).1 = .ok none) ∧
    (∀ m, RxMsg.parseMsg (d.take Gen.TrxdIf.rxRecvSize) = .ok m →
      (recvRxMsg s d).1 = .ok (if m.ver = s.hdrVer then some m else none)) := by
  obtain ⟨hs, h⟩ := recvRxMsg_cases s d hd
  refine ⟨hs, ?_, ?_, ?_⟩
  · rcases h with ⟨_, h2⟩ | ⟨m, _, h2⟩ <;> exact ⟨_, h2⟩
  · rintro ⟨e, he⟩
    rcases h with ⟨_, h2⟩ | ⟨m, hm, _⟩
    · exact h2
    · rw [hm] at he; cases he
  · intro m hm
    rcases h with ⟨he, _⟩ | ⟨m', hm', h2⟩
    · rw [he] at hm; cases hm
    · rw [hm'] at hm; cases hm; exact h2

/-- a version mismatch is `None`: a datagram whose version nibble is not the negotiated version is never
handed on, whatever else it contains -/
theorem recv_version_mismatch_tx (s : DataIf) (d : Bytes)
    (h : verNibble (d.take Gen.TrxdIf.txRecvSize) ≠ some s.hdrVer.toNat) : (recvTxMsg s d).1 = .ok none := by
  rcases (recvTxMsg_cases s d).2 with ⟨_, h2⟩ | ⟨m, hm, h2⟩
  · exact h2
  · have hv := (parsed_version_tx _ m hm).1
    have : m.ver ≠ s.hdrVer := fun he => h (by rw [hv, he])
    rw [h2, if_neg this]

theorem recv_version_mismatch_rx (s : DataIf) (d : Bytes) (hd : Octets d)
    (h : verNibble (d.take Gen.TrxdIf.rxRecvSize) ≠ some s.hdrVer.toNat) : (recvRxMsg s d).1 = .ok none := by
  rcases (recvRxMsg_cases s d hd).2 with ⟨_, h2⟩ | ⟨m, hm, h2⟩
  · exact h2
  · have hv := (parsed_version_rx _ (octets_take d _ hd) m hm).1
    have : m.ver ≠ s.hdrVer := fun he => h (by rw [hv, he])
    rw [h2, if_neg this]

/-! ### (c) the capture reader is total -/

/-- `parse_msg(idx)` on ANY file content, cursor and index: never raises, returns a message, `None` or
`False`, leaves the content alone, and its answer does not depend on the cursor it starts from. -/
theorem dump_reader_total_msg (d : Bytes) (pos idx : Nat) :
    ∃ r f', parseMsg ⟨d, pos⟩ idx = .ok (r, f') ∧ f'.data = d ∧ parseMsg ⟨d, 0⟩ idx = .ok (r, f') := by
  obtain ⟨r, f', h, hd⟩ := parseMsg_total ⟨d, pos⟩ idx
  exact ⟨r, f', h, hd, by rw [← parseMsg_cursor d pos]; exact h⟩

/-- `parse_all(skip, count)` on ANY file content, cursor, skip and count: never raises, returns a list of
messages or `False`; `False` (the range error) only when a `skip` was given; leaves the content alone; the
answer does not depend on the cursor it starts from. -/
theorem dump_reader_total_all (d : Bytes) (pos : Nat) (skip count : Option Nat) :
    ∃ r f', parseAll ⟨d, pos⟩ skip count = .ok (r, f') ∧ f'.data = d ∧
      parseAll ⟨d, 0⟩ skip count = .ok (r, f') ∧ (skip = none → ∃ ms, r = some ms) := by
  obtain ⟨r, f', h, hd⟩ := parseAll_total ⟨d, pos⟩ skip count
  refine ⟨r, f', h, hd, by rw [← parseAll_cursor d pos]; exact h, ?_⟩
  rintro rfl
  obtain ⟨res, f2, h2, _⟩ := parseLoop_total count _ (File.seek0 ⟨d, pos⟩) [] (Nat.le_refl _)
  simp only [parseAll, bind, Except.bind, pure, Except.pure, h2, not_true_eq_false, if_false, Except.ok.injEq,
    Prod.mk.injEq] at h
  exact ⟨res, h.1.symm⟩

/-- `False` from `_parse_msg()` means: a complete record was there and the message parser rejected its
payload (with `ValueError`, by (a)) - the only way a parser failure shows in the reader. -/
theorem dump_false_is_rejected_payload (k : Kind) (raw : Bytes) (hraw : Octets raw) :
    parseRaw k raw = .false ↔
      (match k with
       | .tx => TxMsg.parseMsg raw = .error .valueError
       | .rx => RxMsg.parseMsg raw = .error .valueError) := by
  cases k with
  | tx =>
    rcases TxMsg.parseMsg_cases raw with ⟨h, _⟩ | ⟨m, h, _⟩ <;> simp only [parseRaw, h, reduceCtorEq]
  | rx =>
    rcases RxMsg.parseMsgFrom_cases RxMsg.fresh raw hraw with ⟨h, _⟩ | ⟨m, h, _⟩ <;>
      simp only [parseRaw, RxMsg.parseMsg, h, reduceCtorEq]

/-! ### (d) nothing is left behind -/

/-- Datagrams leave nothing behind in the interface: after ANY sequence of received datagrams (rejected,
of the wrong version, or accepted) the object is as before, none of them raised, and every later operation
answers exactly as it would have without them. -/
theorem parser_no_state_if (s : DataIf) (pre ops : List TrxdIf.Op) (hpre : ∀ op ∈ pre, op.IsRecv) :
    (runIf s pre).2 = s ∧
    (runIf s (pre ++ ops)).1.drop pre.length = (runIf s ops).1 ∧
    (runIf s (pre ++ ops)).2 = (runIf s ops).2 := by
  have hs := runIf_recv_state s pre hpre
  rw [runIf_append, hs]
  refine ⟨rfl, ?_, rfl⟩
  rw [← runIf_length s pre, List.drop_left]

/-- no operation of ANY history on an interface object raises (datagrams being octet strings) -/
theorem if_history_never_raises (s : DataIf) (ops : List TrxdIf.Op) (h : ∀ op ∈ ops, op.Octets) :
    ∀ a ∈ (runIf s ops).1, a.Returned :=
  runIf_returned s ops h

/-- Reads leave nothing behind in the capture reader: after ANY sequence of `parse_msg` / `parse_all`
calls (any index, skip, count; on any content and from any cursor) none of which raised, the content is
as before and every later operation - reads of records that are there, appends - answers exactly as on a
new reader opened on the same content. -/
theorem parser_no_state_dump (f : File) (pre ops : List TrxdDump.Op) (hpre : ∀ op ∈ pre, op.IsRead) :
    ∃ fe, runHist f (pre ++ ops) = ((specHist f.data pre).1 ++ (specHist f.data ops).1, some fe) ∧
      fe.data = (specHist f.data ops).2 ∧
      (∀ a ∈ (specHist f.data pre).1, ∀ e, a ≠ .raised e) ∧
      (∃ f0, runHist ⟨f.data, 0⟩ ops = ((specHist f.data ops).1, some f0)) := by
  obtain ⟨fe, h1, h2⟩ := runHist_spec (pre ++ ops) f
  obtain ⟨hd, hr⟩ := specHist_reads f.data pre hpre
  obtain ⟨f0, h0, _⟩ := runHist_spec ops ⟨f.data, 0⟩
  rw [specHist_append, hd] at h1 h2
  exact ⟨fe, h1, h2, hr, f0, h0⟩

/-! ### non-vacuity -/

/-- rejected: empty, cut inside the common header, cut before the attenuation octet, version nibble 2 and 15 -/
example : TxMsg.parseMsg [] = .error .valueError ∧ TxMsg.parseMsg [0, 0, 0, 0] = .error .valueError ∧
    TxMsg.parseMsg [0x13, 0, 0, 0, 1] = .error .valueError ∧
    TxMsg.parseMsg [0x20, 0, 0, 0, 1, 0, 1, 0] = .error .valueError ∧
    TxMsg.parseMsg [0xf7, 0, 0, 0, 1, 0] = .error .valueError := by decide

/-- accepted: header only (no burst), TN bit 3 set (ignored), a burst of 3 bits -/
example : TxMsg.parseMsg [0x1b, 0, 0x29, 0x70, 0x3f, 0xff] = .ok ⟨1, some 2715711, some 3, some 255, none⟩ ∧
    TxMsg.parseMsg [0x00, 0, 0, 0, 0, 7, 1, 0, 1] = .ok ⟨0, some 0, some 0, some 7, some [1, 0, 1]⟩ := by decide

/-- Rx: rejected - 7 octets, version 1 cut inside C/I, version 0 with a 5 octet burst, version 3;
accepted - a version 1 header with the modulation coding 0b1110 no modulation has (`mod_type` None), a NOPE indication -/
example : RxMsg.parseMsg [0, 0, 0, 0, 0, 60, 0] = .error .valueError ∧
    RxMsg.parseMsg [0x10, 0, 0, 0, 0, 60, 0, 0, 0, 0] = .error .valueError ∧
    RxMsg.parseMsg [0, 0, 0, 0, 0, 60, 0, 0, 1, 2, 3, 4, 5] = .error .valueError ∧
    RxMsg.parseMsg [0x30, 0, 0, 0, 0, 60, 0, 0, 0, 0, 0] = .error .valueError ∧
    (RxMsg.parseMsg [0x10, 0, 0, 0, 0, 60, 0, 0, 0x75, 0, 0]).map (fun m => (m.modType, m.tsc)) =
      .ok (none, some 5) ∧
    (RxMsg.parseMsg [0x10, 0, 0, 0, 0, 60, 0xff, 0xff, 0x80, 0xff, 0]).map (fun m => (m.nopeInd, m.toa256, m.ci)) =
      .ok (true, some (-1), some (-256)) := by
  decide

/-- the hypothesis `Octets` of the Rx theorems is needed by the MODEL only (a `List Nat` can hold 256, a
`bytes` object cannot): there the table lookup of `translate` fails with the IndexError tag -/
example : RxMsg.parseMsg ([0x10, 0, 0, 0, 0, 60, 0, 0, 0, 0, 0, 256]) = .error .indexError := by decide +kernel

/-- recv: a rejected datagram and a version 1 datagram on a version 0 interface give `None`, the same
version 1 datagram after `set_hdr_ver(1)` is handed on; the datagram is cut at the receive size -/
example : (recvTxMsg DataIf.init [0xff]).1 = .ok none ∧
    (recvTxMsg DataIf.init [0x10, 0, 0, 0, 0, 9]).1 = .ok none ∧
    (recvTxMsg (setHdrVer DataIf.init 1).2 [0x10, 0, 0, 0, 0, 9]).1 = .ok (some ⟨1, some 0, some 0, some 9, none⟩) ∧
    (setHdrVer DataIf.init 2).1 = false ∧
    ((recvTxMsg DataIf.init ([0, 0, 0, 0, 0, 9] ++ List.replicate 600 1)).1.map
        (fun r => r.map (fun m => m.burst.map (·.length)))) = .ok (some (some 444)) := by
  refine ⟨by decide, by decide, by decide, by decide, by decide +kernel⟩

/-- a history on one interface: garbage, a wrong version, then a valid datagram - answered as if alone -/
example : (runIf DataIf.init [.recvTx [], .recvRx [0xff, 1], .recvTx [0x10, 0, 0, 0, 0, 9], .recvTx [0, 0, 0, 0, 0, 9]]).1 =
    [.tx (.ok none), .rx (.ok none), .tx (.ok none), .tx (.ok (some ⟨0, some 0, some 0, some 9, none⟩))] := by
  decide

/-- capture reader on garbage: unknown tag, a length field beyond the file, a cut header, a record whose
payload the parser rejects followed by a good one, an index far beyond the content -/
example : (parseMsg ⟨[9, 0, 1, 0], 0⟩ 0).map (·.1) = .ok .none ∧
    (parseMsg ⟨[1, 0xff, 0xff, 0, 0], 0⟩ 0).map (·.1) = .ok .none ∧
    (parseMsg ⟨[1, 0], 0⟩ 0).map (·.1) = .ok .none ∧
    (parseMsg ⟨[1, 0, 1, 0x50, 1, 0, 6, 0, 0, 0, 0, 0, 9], 0⟩ 0).map (·.1) = .ok .false ∧
    (parseAll ⟨[1, 0, 1, 0x50, 1, 0, 6, 0, 0, 0, 0, 0, 9], 0⟩ none none).map (·.1) =
      .ok (some [.tx ⟨0, some 0, some 0, some 9, none⟩]) ∧
    (parseAll ⟨[1, 0, 1, 0x50, 1, 0, 6, 0, 0, 0, 0, 0, 9], 0⟩ (some 3) (some 1)).map (·.1) = .ok none ∧
    (parseMsg ⟨[1, 0, 1, 0x50], 0⟩ 1000000).map (·.1) = .ok .none := by
  refine ⟨by decide, by decide, by decide, by decide, ?_, ?_, by decide⟩ <;> decide +kernel

end OsmoVerif.Props.C14Parsers
